(* C14: recovery after inserted junk.  Built on the level machinery of Proofs/Partial.v. *)
From Ebml Require Import Base Tools Spec Writer Reader Pure Encode.
From Ebml Require Import Proofs.Tactics Proofs.BytesProofs Proofs.VintProofs Proofs.DecodersProofs Proofs.SpecProofs Proofs.ReaderIO Proofs.Refine Proofs.PureProofs Proofs.RoundTrip Proofs.Nesting Proofs.Partial.
Import ListNotations.
Local Open Scope N_scope.

(* once the position in the document is determined, a header check leaves the state alone *)
Lemma p_header_det c st : b_det st = true -> fst (p_header c st) = st.
Proof.
  intros Hd. rewrite p_header_unfold. destruct (p_tag_id st) as [[id idl]|e|]; try reflexivity.
  unfold p_hdr_tail. destruct (read_vint _) as [[[size sl]|]|e1|]; try reflexivity.
  destruct (is_numeric _ && _); [reflexivity|]. destruct (negb (c_allow_id c) && _); [reflexivity|].
  assert (Hh : fst (p_hier_step c st id (get_type (c_sp c) id)) = st).
  { unfold p_hier_step. destruct (negb (c_allow_hier c) && _); [|reflexivity]. rewrite Hd. destruct (_ && _); reflexivity. }
  destruct (p_hier_step c st id (get_type (c_sp c) id)) as [st1 [e1|]]; cbn [fst] in *; subst st1; [reflexivity|].
  destruct (b_bad st); [reflexivity|]. destruct (_ && _); [reflexivity|].
  destruct (c_max c); destruct (ebml_size size sl); try destruct (_ <? _); reflexivity.
Qed.

(* the state after k bytes have been skipped *)
Fixpoint skip_bytes (st : pst) (k : nat) : pst := match k with O => st | S k' => skip_bytes (pconsume st 1) k' end.

(* [junk c st k]: at none of the next k positions after the current one does a header pass the checks *)
Fixpoint junk (c : cfg) (st : pst) (k : nat) : Prop :=
  match k with
  | O => True
  | S k' => (exists e, snd (p_header c (pconsume st 1)) = Err e) /\ junk c (pconsume st 1) k'
  end.

Lemma skip_bytes_facts : forall k st, (k <= length (b_bytes st))%nat ->
  b_bytes (skip_bytes st k) = skipn k (b_bytes st) /\ b_off (skip_bytes st k) = b_off st + N.of_nat k /\
  b_stack (skip_bytes st k) = b_stack st /\ b_queue (skip_bytes st k) = b_queue st /\ b_det (skip_bytes st k) = b_det st /\
  b_bad (skip_bytes st k) = b_bad st /\ b_fuel (skip_bytes st k) = b_fuel st.
Proof.
  induction k as [|k IH]; intros st Hk; cbn [skip_bytes].
  - rewrite N.add_0_r. repeat split.
  - destruct (b_bytes st) as [|b0 tl] eqn:Eb; [cbn in Hk; lia|].
    assert (Hc : b_bytes (pconsume st 1) = tl).
    { unfold pconsume. cbn [b_bytes]. rewrite Eb. change 1 with (N.of_nat (length [b0])). change (b0 :: tl) with ([b0] ++ tl). rewrite splitN_exact. reflexivity. }
    assert (Hk' : (k <= length (b_bytes (pconsume st 1)))%nat) by (rewrite Hc; cbn in Hk; lia).
    destruct (IH (pconsume st 1) Hk') as [I1 [I2 [I3 [I4 [I5 [I6 I7]]]]]].
    rewrite I1, I2, I3, I4, I5, I6, I7, Hc. cbn [skipn pconsume b_off b_stack b_queue b_det b_bad b_fuel]. repeat split. lia.
Qed.

(* the recovery loop walks over the junk and stops at the first header that passes *)
Lemma recover_loop_junk c : forall k st fuel h, b_det st = true -> (k < fuel)%nat -> (k < length (b_bytes st))%nat ->
  junk c st k -> p_header c (skip_bytes st (S k)) = (skip_bytes st (S k), Ok h) ->
  p_recover_loop fuel c st = (skip_bytes st (S k), None).
Proof.
  induction k as [|k IH]; intros st fuel h Hd Hf Hl Hj Hok.
  - destruct fuel as [|f]; [lia|]. cbn [p_recover_loop]. destruct (b_bytes st) as [|b0 tl] eqn:Eb; [cbn in Hl; lia|].
    cbn [skip_bytes] in Hok. rewrite Hok. reflexivity.
  - destruct fuel as [|f]; [lia|]. cbn [p_recover_loop]. destruct (b_bytes st) as [|b0 tl] eqn:Eb; [cbn in Hl; lia|].
    destruct Hj as [[e He] Hj'].
    assert (Hd1 : b_det (pconsume st 1) = true) by exact Hd.
    pose proof (p_header_det c (pconsume st 1) Hd1) as Hsame.
    destruct (p_header c (pconsume st 1)) as [s r] eqn:Eh. cbn [fst snd] in *. subst s r.
    assert (Hc : b_bytes (pconsume st 1) = tl).
    { unfold pconsume. cbn [b_bytes]. rewrite Eb. change 1 with (N.of_nat (length [b0])). change (b0 :: tl) with ([b0] ++ tl). rewrite splitN_exact. reflexivity. }
    apply (IH (pconsume st 1) f h Hd1); [lia|rewrite Hc; cbn in Hl; lia|exact Hj'|exact Hok].
Qed.

(* ------------------------------------------------------------------ the state after the error has been reported *)
Lemma run_err_st c : forall q st e n, b_queue st = q_ok q ++ [QErr e] -> b_bad st = None ->
  snd (p_run_all (length q + S n) c st) = o_ok q ++ [OErr e] /\
  same_parse st (fst (p_run_all (length q + S n) c st)) /\ b_queue (fst (p_run_all (length q + S n) c st)) = [].
Proof.
  induction q as [|[t o] q IH]; intros st e n Hq Hb.
  - cbn [q_ok map app length Nat.add] in *. cbn [p_run_all]. unfold p_next. rewrite Hq. cbn iota. rewrite Hq.
    cbn [pset_queue b_bad]. rewrite Hb. cbn [fst snd]. split; [reflexivity|]. split; [repeat split|reflexivity].
  - cbn [q_ok map fst snd app] in Hq. cbn [length Nat.add p_run_all].
    rewrite (p_next_pop c st t o (q_ok q ++ [QErr e]) Hq).
    set (st1 := pset_last (pset_queue st (q_ok q ++ [QErr e])) o).
    assert (Hb1 : b_bad st1 = None) by exact Hb. rewrite Hb1.
    destruct (IH st1 e n eq_refl Hb1) as [I1 [I2 I3]]. destruct (p_run_all (length q + S n) c st1) as [st2 outs]. cbn [fst snd] in *.
    split; [rewrite I1; reflexivity|]. split; [exact I2|exact I3].
Qed.

Lemma err_run_st c st Sk e st2 : b_stack st = Sk -> b_queue st = [] -> b_bad st = None -> (1 <= b_fuel st)%nat -> b_bytes st <> [] ->
  p_read_tag c (ppop_frames st (exhausted_count (b_off st) Sk)) = (st2, Err e) ->
  b_queue st2 = b_queue (ppop_frames st (exhausted_count (b_off st) Sk)) -> b_bad st2 = None -> b_fuel st2 = b_fuel st ->
  forall n, let r := p_run_all (exhausted_count (b_off st) Sk + S n) c st in
    snd r = map end_out (firstn (exhausted_count (b_off st) Sk) Sk) ++ [OErr e] /\ same_parse st2 (fst r) /\ b_queue (fst r) = [].
Proof.
  intros Hs Hq Hbad Hf Hne Hread Hq2 Hb2 Hf2 n.
  set (k1 := exhausted_count (b_off st) Sk) in *.
  assert (Hrn : p_read_next (b_fuel st) c st = ppush_q st2 [QErr e]).
  { destruct (b_fuel st) as [|f] eqn:Ef; [lia|]. rewrite p_read_next_unfold. cbn zeta. rewrite Hs. fold k1.
    unfold p_read_tag_checked.
    assert (Hb1 : b_bytes (ppop_frames st k1) = b_bytes st) by reflexivity. rewrite Hb1.
    destruct (b_bytes st) as [|b0 tl] eqn:Eb; [contradiction Hne; reflexivity|]. rewrite Hread. reflexivity. }
  assert (Hqn : b_queue (ppush_q st2 [QErr e]) = q_ok (map end_pair (firstn k1 Sk)) ++ [QErr e]).
  { unfold ppush_q, pset_queue. cbn [b_queue]. rewrite Hq2. unfold ppop_frames, ppush_q, pset_queue, pset_stack. cbn [b_queue b_stack].
    rewrite Hq, Hs. cbn [app]. unfold q_ok. rewrite map_map. reflexivity. }
  cbn zeta. replace (k1 + S n)%nat with (S (k1 + n)) by lia.
  rewrite (run_refill c st (k1 + n) Hq); rewrite Hrn.
  - pose proof (run_err_st c (map end_pair (firstn k1 Sk)) (ppush_q st2 [QErr e]) e n Hqn Hb2) as Hr.
    rewrite map_length, firstn_length in Hr.
    assert (Hk : (k1 <= length Sk)%nat) by apply exh_le. rewrite Nat.min_l in Hr by exact Hk.
    replace (S (k1 + n)) with (k1 + S n)%nat by lia. destruct Hr as [R1 [R2 R3]].
    split; [rewrite R1; unfold o_ok; rewrite map_map; reflexivity|]. split; [exact R2|exact R3].
  - rewrite Hqn. destruct (q_ok _); discriminate.
  - exact Hf2.
Qed.

(* ------------------------------------------------------------------ enlarging the open known-size masters *)
Lemma grow_unknown d : forall T, Forall unknownF T -> grow_frames d T = T.
Proof.
  induction T as [|f T IH]; intros H; [reflexivity|]. inversion H as [|? ? Hf Ht]; subst. cbn [grow_frames map].
  unfold unknownF in Hf. rewrite Hf. f_equal. apply IH, Ht.
Qed.

Lemma grow_app d a b : grow_frames d (a ++ b) = grow_frames d a ++ grow_frames d b.
Proof. unfold grow_frames. apply map_app. Qed.

Lemma grow_ids d stk : ids_of (grow_frames d stk) = ids_of stk.
Proof.
  unfold ids_of, grow_frames. rewrite map_map. f_equal. apply map_ext. intros f. destruct (f_size f); reflexivity.
Qed.

Lemma grow_room d stk e : room stk e -> room (grow_frames d stk) (e + d).
Proof.
  unfold room, grow_frames. intros H. rewrite Forall_forall in *. intros f Hin. apply in_map_iff in Hin. destruct Hin as [g [<- Hg]].
  specialize (H g Hg). destruct (f_size g) as [n|] eqn:Es; cbn [f_size f_data]; [lia|rewrite Es; exact I].
Qed.

(* ------------------------------------------------------------------ helper facts *)
Lemma pending_rest c st T stk ids total : pre c st T stk ids total -> 0 < total ->
  let k1 := exhausted_count (b_off st) (T ++ stk) in
  (k1 <= length T)%nat /\ skipn k1 (T ++ stk) = skipn k1 T ++ stk /\ firstn k1 (T ++ stk) = firstn k1 T /\ Forall unknownF (skipn k1 T).
Proof.
  intros [Hs Hq Hbad Hf Hd Hpend Hsib Hids Hchain Hroom] Hpos. cbn zeta.
  pose proof (room_not_exhausted _ _ _ Hroom Hpos) as Hne.
  rewrite (exh_app _ T stk (exh_none _ stk Hne)).
  set (k1 := exhausted_count (b_off st) T).
  assert (Hk1 : (k1 <= length T)%nat) by apply exh_le.
  split; [exact Hk1|]. split; [apply skipn_app_le, Hk1|]. split; [apply firstn_app_le, Hk1|].
  apply Forall_forall. intros f Hin. apply (pend_not_exh (b_off st)).
  - rewrite Forall_forall in Hpend. apply Hpend. eapply in_skipn, Hin.
  - pose proof (exh_rest (b_off st) T) as Hr. rewrite Forall_forall in Hr. apply Hr, Hin.
Qed.

Lemma existsb_ext' {A} (f g : A -> bool) : forall l, (forall x, f x = g x) -> existsb f l = existsb g l.
Proof. induction l as [|a l IH]; intros H; [reflexivity|]. cbn [existsb]. rewrite H, IH by exact H. reflexivity. Qed.

Lemma invalid_size_shift st s d sz : b_stack s = b_stack st -> b_off s = b_off st + d ->
  p_invalid_tag_size s sz = p_invalid_tag_size st (d + sz).
Proof.
  intros Hs Ho. unfold p_invalid_tag_size. rewrite Hs, Ho. apply existsb_ext'. intros f. destruct (f_size f); [|reflexivity].
  rewrite N.add_assoc. reflexivity.
Qed.

(* the header of a conforming tree passes every check wherever the tree fits *)
Lemma header_ok_tree c s ids x rest : strict c -> conf c ids x -> b_bytes s = enc_tree x ++ rest -> wf_bytes rest -> b_bad s = None ->
  hier_ok c s (root_id x) -> (forall sz, sz <= tlen x -> p_invalid_tag_size s sz = false) ->
  exists h s', p_header c s = (s', Ok h) /\ same_but_det s s'.
Proof.
  intros Hstrict Hconf Hb Hwf Hbad Hhier Hroom.
  destruct x as [id v pl sl|id sz cs]; cbn [root_id] in *.
  - destruct Hconf as [Hid [Hsl [Hlt [Hwfp [[ty [Hty [Hnm Hdec]]] [_ Hmax]]]]]]. cbn [enc_tree] in Hb. rewrite <- !app_assoc in Hb.
    assert (Hsz : N.of_nat (length pl) < 2 ^ (7 * N.of_nat sl)) by lia.
    pose proof (ebml_size_known _ _ Hlt) as Hes.
    assert (Hr : p_invalid_tag_size s (N.of_nat (length (id_bytes id) + sl) + match ebml_size (N.of_nat (length pl)) sl with SKnown n => n | SUnknown => 0 end) = false).
    { rewrite Hes. apply Hroom. rewrite tlen_leaf. cbn [hdr_len]. lia. }
    assert (Hm : size_ok c (ebml_size (N.of_nat (length pl)) sl)) by (rewrite Hes; exact Hmax).
    destruct (p_header_conf c s id ty sl _ (pl ++ rest) Hstrict Hid Hsl Hsz (wf_app _ _ Hwfp Hwf) Hb Hty (decodes_numeric ty pl v Hdec) Hbad Hhier Hr Hm)
      as [s' [Hh Hsame]]. eexists. exists s'. split; [exact Hh|exact Hsame].
  - pose proof (conf_wf c _ ids Hconf) as [Hwt _]. apply conf_node in Hconf. destruct Hconf as [Hid [Hsz [Hty [_ [Hmax Hcs]]]]].
    rewrite enc_tree_node in Hb, Hwt. rewrite <- !app_assoc in Hb.
    assert (Hwb : wf_bytes (enc_forest cs ++ rest)).
    { apply wf_app; [|exact Hwf]. unfold wf_bytes in *. rewrite !Forall_app in Hwt. tauto. }
    assert (Hx : exists sl' size, (1 <= sl' <= 8)%nat /\ size < 2 ^ (7 * N.of_nat sl') /\
                 match sz with Some sl => venc sl (flen cs) | None => unknown_marker end = venc sl' size /\
                 ebml_size size sl' = node_esz sz cs /\ node_sl sz = sl').
    { destruct sz as [sl|].
      - destruct (Hsz sl eq_refl) as [H1 H2]. exists sl, (flen cs). split; [exact H1|]. split; [lia|]. split; [reflexivity|].
        split; [apply ebml_size_known, H2|reflexivity].
      - exists 8%nat, (2 ^ 56 - 1). split; [lia|]. split; [reflexivity|]. split; [reflexivity|]. split; reflexivity. }
    destruct Hx as [sl' [size [Hsl [Hsize [Hfield [Hes Hnsl]]]]]]. rewrite Hfield in Hb.
    assert (Hr : p_invalid_tag_size s (N.of_nat (length (id_bytes id) + sl') + match ebml_size size sl' with SKnown n => n | SUnknown => 0 end) = false).
    { rewrite Hes. apply Hroom. rewrite tlen_node, hdr_len_node, Hnsl. destruct sz; cbn [node_esz]; lia. }
    assert (Hm : size_ok c (ebml_size size sl')) by (rewrite Hes; exact Hmax).
    assert (Hnum : is_numeric (Some DMaster) = true -> size <= 8) by discriminate.
    destruct (p_header_conf c s id DMaster sl' size _ Hstrict Hid Hsl Hsize Hwb Hb Hty Hnum Hbad Hhier Hr Hm) as [s' [Hh Hsame]].
    eexists. exists s'. split; [exact Hh|exact Hsame].
Qed.

Definition junk_from (c : cfg) (st : pst) (k : nat) : Prop :=
  forall s, same_parse st s -> (exists e, snd (p_header c s) = Err e) /\ junk c s k.

(* ------------------------------------------------------------------ one recovery *)
Lemma recover_step c st T stk ids total jk x rest :
  strict c -> c_buffered c = [] -> pre c st T stk ids total -> b_det st = true ->
  b_bytes st = jk ++ enc_tree x ++ rest -> jk <> [] -> wf_bytes rest -> conf c ids x ->
  N.of_nat (length jk) + tlen x <= total -> (length jk <= b_fuel st)%nat ->
  junk_from c (ppop_frames st (exhausted_count (b_off st) (T ++ stk))) (length jk - 1) ->
  let k1 := exhausted_count (b_off st) (T ++ stk) in
  forall n, exists e0 Sr,
    snd (p_run_all (k1 + S n) c st) = map end_out (firstn k1 T) ++ [OErr e0] /\
    b_bad (fst (p_run_all (k1 + S n) c st)) = None /\ p_try_recover c (fst (p_run_all (k1 + S n) c st)) = (Sr, None) /\
    pre c Sr (skipn k1 T) (grow_frames (N.of_nat (length jk)) stk) ids total /\
    b_bytes Sr = enc_tree x ++ rest /\ b_off Sr = b_off st + N.of_nat (length jk) /\ b_fuel Sr = b_fuel st /\ b_det Sr = true.
Proof.
  intros Hstrict Hnb Hpre Hdet Hb Hjk Hwf Hconf Htot Hfuel Hjunk. cbn zeta. intros n.
  set (j := length jk) in *.
  assert (Hj1 : (1 <= j)%nat) by (unfold j; destruct jk; [contradiction Hjk; reflexivity|cbn; lia]).
  assert (Hidx : get_path (c_sp c) (root_id x) = map PId ids /\ get_type (c_sp c) (root_id x) <> None).
  { destruct x as [id v pl sl|id sz cs].
    - destruct Hconf as [_ [_ [_ [_ [[ty [Hty _]] [Hpath _]]]]]]. cbn [root_id]. rewrite Hty. split; [assumption|discriminate].
    - pose proof Hconf as Hc'. apply conf_node in Hc'. destruct Hc' as [_ [_ [Hty [Hpath _]]]]. cbn [root_id]. rewrite Hty. split; [assumption|discriminate]. }
  destruct Hidx as [Hpath Htyn].
  assert (Hpos : 0 < total) by (pose proof (conf_wf c x ids Hconf) as [_ H2]; lia).
  pose proof (pre_step c st T stk ids _ (root_id x) Hpre Hpos Hpath Htyn Hnb) as Hstep.
  pose proof (prep c st T stk ids (root_id x) _ Hstep) as Hprep. cbn zeta in Hprep.
  destruct Hprep as [P1 [P2 [P3 [P4 [P5 [P6 [P7 [Phier Proom]]]]]]]].
  destruct (pending_rest c st T stk ids total Hpre Hpos) as [Hk1 [Hsk [Hfi Hunk]]].
  pose proof Hpre as [Hs Hq Hbad Hf _ Hpend Hsib Hids Hchain Hroom]. rewrite Hs in *.
  set (k1 := exhausted_count (b_off st) (T ++ stk)) in *.
  set (st_a := ppop_frames st k1) in *.
  (* the first error *)
  assert (Hsp : same_parse st_a st_a) by (repeat split).
  destruct (Hjunk st_a Hsp) as [[e0 He0] _].
  assert (Hda : b_det st_a = true) by (rewrite P4; exact Hdet).
  pose proof (p_header_det c st_a Hda) as Hsame_a.
  assert (Hh0 : p_header c st_a = (st_a, Err e0)).
  { destruct (p_header c st_a) as [s r]. cbn [fst snd] in *. subst. reflexivity. }
  assert (Hne : b_bytes st <> []) by (rewrite Hb; destruct jk; [contradiction Hjk; reflexivity|discriminate]).
  pose proof (err_run_st c st (T ++ stk) e0 st_a Hs Hq Hbad Hf Hne (header_err_read c st_a e0 Hh0) eq_refl P3 P5 n) as Herr.
  cbn zeta in Herr. fold k1 in Herr. destruct Herr as [R1 [R2 R3]]. rewrite Hfi in R1.
  set (S0 := fst (p_run_all (k1 + S n) c st)) in *.
  destruct R2 as [Q1 [Q2 [Q3 [Q4 [Q5 Q6]]]]].
  (* the recovery loop *)
  destruct (Hjunk S0 (conj Q1 (conj Q2 (conj Q3 (conj Q4 (conj Q5 Q6)))))) as [_ HjS].
  assert (Hlen0 : b_bytes S0 = jk ++ enc_tree x ++ rest) by (rewrite Q1, P1; exact Hb).
  assert (Hjl : (j <= length (b_bytes S0))%nat) by (rewrite Hlen0, app_length; unfold j; lia).
  destruct (skip_bytes_facts j S0 Hjl) as [K1 [K2 [K3 [K4 [K5 [K6 K7]]]]]].
  set (SJ := skip_bytes S0 j) in *.
  assert (KB : b_bytes SJ = enc_tree x ++ rest).
  { rewrite K1, Hlen0. unfold j. rewrite skipn_app, skipn_all, Nat.sub_diag. reflexivity. }
  assert (Hdj : b_det SJ = true) by (rewrite K5, Q4; exact Hda).
  assert (HhJ : hier_ok c SJ (root_id x)).
  { unfold hier_ok in *. rewrite Hdj, K3, Q3. rewrite Hda in Phier. exact Phier. }
  assert (HrJ : forall sz, sz <= tlen x -> p_invalid_tag_size SJ sz = false).
  { intros sz Hsz. rewrite (invalid_size_shift st_a SJ (N.of_nat j) sz); [apply Proom; lia|rewrite K3, Q3; reflexivity|rewrite K2, Q2; reflexivity]. }
  assert (HbJ : b_bad SJ = None) by (rewrite K6, Q5; exact P3).
  destruct (header_ok_tree c SJ ids x rest Hstrict Hconf KB Hwf HbJ HhJ HrJ) as [h [s' [HhOk _]]].
  pose proof (p_header_det c SJ Hdj) as HsJ. rewrite HhOk in HsJ. cbn [fst] in HsJ. subst s'.
  assert (Hloop : p_recover_loop (b_fuel S0) c S0 = (SJ, None)).
  { unfold SJ. replace j with (S (j - 1)) by lia. apply (recover_loop_junk c (j - 1) S0 (b_fuel S0) h).
    - rewrite Q4. exact Hda.
    - rewrite Q6, P5. lia.
    - lia.
    - exact HjS.
    - replace (S (j - 1)) with j by lia. exact HhOk. }
  exists e0. eexists. split; [exact R1|]. split; [rewrite Q5; exact P3|].
  split; [unfold p_try_recover; rewrite Hloop; reflexivity|].
  assert (Hdiff : b_off SJ - b_off S0 = N.of_nat j) by (rewrite K2; lia).
  rewrite Hdiff, K3, Q3, P7, Hsk, grow_app, (grow_unknown _ _ Hunk).
  split.
  - constructor; cbn [pset_stack b_stack b_queue b_bad b_fuel b_det b_off].
    + reflexivity.
    + rewrite K4. exact R3.
    + exact HbJ.
    + rewrite K7, Q6, P5. exact Hf.
    + left. exact Hdj.
    + apply Forall_forall. intros f Hin. left. rewrite Forall_forall in Hunk. apply Hunk, Hin.
    + intros d Hne'. rewrite last_skipn.
      * apply Hsib. intros E. rewrite E in Hne'. destruct k1; contradiction Hne'; reflexivity.
      * destruct (Nat.lt_ge_cases k1 (length T)) as [Hlt|Hge]; [exact Hlt|]. rewrite skipn_all2 in Hne' by exact Hge. contradiction Hne'. reflexivity.
    + rewrite grow_ids. exact Hids.
    + exact Hchain.
    + rewrite K2, Q2, P2. replace (b_off st + N.of_nat j + total) with (b_off st + total + N.of_nat j) by lia. apply grow_room, Hroom.
  - cbn [pset_stack b_bytes b_off b_fuel b_det]. split; [exact KB|]. split; [rewrite K2, Q2, P2; reflexivity|]. split; [rewrite K7, Q6, P5; reflexivity|exact Hdj].
Qed.

(* ------------------------------------------------------------------ the rest of a document, seen from inside open masters:
   one forest per open master (innermost first: what is still to come inside it), and one for the top level *)
Fixpoint rights_ok (c : cfg) (ids : list N) (off : N) (stk : list frame) (rs : list (list rtree)) {struct rs} : Prop :=
  match rs with
  | [] => False
  | r0 :: rs' =>
      Forall (conf c ids) r0 /\ room stk (off + flen r0) /\
      match stk with
      | [] => rs' = []
      | fr :: stk' => pendF (off + flen r0) fr /\ rights_ok c (removelast ids) (off + flen r0) stk' rs'
      end
  end.

Lemma rights_ok_cons c ids off stk r0 rs' : rights_ok c ids off stk (r0 :: rs') <->
  Forall (conf c ids) r0 /\ room stk (off + flen r0) /\
  match stk with [] => rs' = [] | fr :: stk' => pendF (off + flen r0) fr /\ rights_ok c (removelast ids) (off + flen r0) stk' rs' end.
Proof. split; intros H; exact H. Qed.

Fixpoint rights_outs (off : N) (T : list frame) (stk : list frame) (rs : list (list rtree)) {struct rs} : list rout :=
  match rs with
  | [] => []
  | r0 :: rs' =>
      outs_forest off r0 T ++
      match stk with
      | [] => map end_out (pend_after off r0 T) ++ [ONone]
      | fr :: stk' => rights_outs (off + flen r0) (pend_after off r0 T ++ [fr]) stk' rs'
      end
  end.

Fixpoint enc_rights (rs : list (list rtree)) : list N := match rs with [] => [] | r0 :: rs' => enc_forest r0 ++ enc_rights rs' end.

Lemma wf_rights c : forall rs ids off stk, rights_ok c ids off stk rs -> wf_bytes (enc_rights rs).
Proof.
  induction rs as [|r0 rs IH]; intros ids off stk H; [constructor|]. apply rights_ok_cons in H. destruct H as [Hc [_ Hm]]. cbn [enc_rights].
  apply wf_app; [apply (conf_wf_forest c ids r0 Hc)|]. destruct stk as [|fr stk']; [subst rs; constructor|].
  destruct Hm as [_ Hr]. apply (IH _ _ _ Hr).
Qed.

Lemma chain_prefix sp ids a : chain_paths sp (ids ++ [a]) -> chain_paths sp ids /\ get_path sp a = map PId ids.
Proof.
  unfold chain_paths. intros H. split.
  - intros i b Hn. assert (Hi : (i < length ids)%nat) by (apply nth_error_Some; rewrite Hn; discriminate).
    specialize (H i b). rewrite nth_error_app1 in H by exact Hi. rewrite (H Hn), firstn_app.
    replace (i - length ids)%nat with O by lia. cbn [firstn]. rewrite app_nil_r. reflexivity.
  - specialize (H (length ids) a). rewrite nth_error_app2, Nat.sub_diag in H by lia. rewrite (H eq_refl), firstn_app, firstn_all, Nat.sub_diag.
    cbn [firstn]. rewrite app_nil_r. reflexivity.
Qed.

Lemma parse_rights c : strict c -> c_buffered c = [] -> c_emit_eof c = true ->
  forall rs ids st T stk, rights_ok c ids (b_off st) stk rs -> pre c st T stk ids (flen (hd [] rs)) -> (stk <> [] -> b_det st = true) ->
  b_bytes st = enc_rights rs ->
  forall n, snd (p_run_all (length (rights_outs (b_off st) T stk rs) + n) c st) = rights_outs (b_off st) T stk rs.
Proof.
  intros Hstrict Hnb He. induction rs as [|r0 rs IH]; intros ids st T stk Hok Hpre Hdet Hb n; [contradiction Hok|].
  apply rights_ok_cons in Hok. destruct Hok as [Hc [Hroom Hm]]. cbn [hd] in Hpre. cbn [enc_rights] in Hb. cbn [rights_outs].
  assert (HP : Forall (Ptree c) r0) by (apply Forall_forall; intros t _; apply parse_tree; assumption).
  assert (Hwr : wf_bytes (enc_rights rs)).
  { destruct stk as [|fr stk']; [subst rs; constructor|]. destruct Hm as [_ Hr]. apply (wf_rights c _ _ _ _ Hr). }
  destruct (parse_forest c r0 HP ids Hc st T stk _ Hpre Hb Hwr) as [st1 [Hat1 [Hd1 [Hd1' Hrun1]]]].
  destruct Hat1 as [A1 [A2 [A3 [A4 [A5 A6]]]]].
  pose proof Hpre as [Hs Hq Hbad Hf Hd Hpend Hsib Hids Hchain _].
  destruct (pend_after_ok c ids r0 (b_off st) T Hc Hpend Hsib) as [Hp2 Hs2].
  rewrite app_length, <- Nat.add_assoc, Hrun1. f_equal.
  destruct stk as [|fr stk'].
  - (* top level: the end of the input closes what is pending *)
    subst rs. cbn [enc_rights] in A1. rewrite app_nil_r in A3.
    assert (Hf1 : (1 <= b_fuel st1)%nat) by (rewrite A6; exact Hf).
    pose proof (eof_ends c st1 n A1 A4 A5 Hf1 He) as Hend. rewrite A3 in Hend.
    rewrite app_length, map_length. cbn [length]. replace (length (pend_after (b_off st) r0 T) + 1 + n)%nat with (length (pend_after (b_off st) r0 T) + S n)%nat by lia.
    exact Hend.
  - (* the enclosing master: it is now pending as well *)
    destruct Hm as [Hfr Hr].
    assert (Hdt : b_det st1 = true) by (apply Hd1, Hdet; discriminate).
    assert (Hids' : ids = ids_of stk' ++ [f_id fr]) by (rewrite <- Hids; unfold ids_of; reflexivity).
    rewrite Hids' in Hchain. destruct (chain_prefix _ _ _ Hchain) as [Hch' Hpfr].
    assert (Hrl : removelast ids = ids_of stk') by (rewrite Hids'; apply removelast_last).
    rewrite Hrl in Hr.
    assert (Hpre1 : pre c st1 (pend_after (b_off st) r0 T ++ [fr]) stk' (ids_of stk') (flen (hd [] rs))).
    { constructor.
      - rewrite A3, <- app_assoc. reflexivity.
      - exact A4.
      - exact A5.
      - rewrite A6. exact Hf.
      - left. exact Hdt.
      - rewrite A2. apply Forall_app. split; [exact Hp2|constructor; [exact Hfr|constructor]].
      - intros d _. rewrite last_last. exact Hpfr.
      - reflexivity.
      - exact Hch'.
      - rewrite A2. destruct rs as [|r1 rs']; [contradiction Hr|]. apply rights_ok_cons in Hr. destruct Hr as [_ [Hr1 _]]. exact Hr1. }
    rewrite <- A2. apply (IH (ids_of stk') st1 _ stk'); [rewrite A2; exact Hr|exact Hpre1|intros _; exact Hdt|exact A1].
Qed.

(* ------------------------------------------------------------------ small transfers *)
Lemma pre_retotal c st T stk ids t t' : pre c st T stk ids t -> room stk (b_off st + t') -> pre c st T stk ids t'.
Proof. intros [] Hr. constructor; assumption. Qed.

Lemma pendF_grow off d fr : pendF off fr ->
  pendF (off + d) (match f_size fr with
                   | SKnown n => {| f_id := f_id fr; f_size := SKnown (n + d); f_start := f_start fr; f_data := f_data fr |}
                   | SUnknown => fr end).
Proof.
  intros [H|[n [H Hn]]]; [rewrite H; left; exact H|]. rewrite H. right. exists (n + d). cbn [f_size f_data]. split; [reflexivity|lia].
Qed.

Lemma rights_ok_shift c d : forall rs ids off stk, rights_ok c ids off stk rs -> rights_ok c ids (off + d) (grow_frames d stk) rs.
Proof.
  induction rs as [|r0 rs IH]; intros ids off stk H; [exact H|]. apply rights_ok_cons in H. apply rights_ok_cons.
  destruct H as [Hc [Hr Hm]]. split; [exact Hc|]. split.
  - replace (off + d + flen r0) with (off + flen r0 + d) by lia. apply grow_room, Hr.
  - destruct stk as [|fr stk']; [exact Hm|]. cbn [grow_frames map]. destruct Hm as [Hp Hrest].
    replace (off + d + flen r0) with (off + flen r0 + d) by lia. split; [apply pendF_grow, Hp|apply IH, Hrest].
Qed.

Lemma flen_app a b : flen (a ++ b) = flen a + flen b.
Proof. induction a as [|x a IH]; [reflexivity|]. cbn [app]. rewrite !flen_cons, IH. lia. Qed.

Lemma rights_ok_prepend c ids off stk f1 r0 rs : Forall (conf c ids) f1 -> rights_ok c ids (off + flen f1) stk (r0 :: rs) ->
  rights_ok c ids off stk ((f1 ++ r0) :: rs).
Proof.
  intros Hf H. apply rights_ok_cons in H. apply rights_ok_cons. destruct H as [Hc [Hr Hm]]. rewrite flen_app, N.add_assoc.
  split; [apply Forall_app; split; assumption|]. split; [exact Hr|exact Hm].
Qed.

Lemma same_parse_trans a b d : same_parse a b -> same_parse b d -> same_parse a d.
Proof. intros [A1 [A2 [A3 [A4 [A5 A6]]]]] [B1 [B2 [B3 [B4 [B5 B6]]]]]. repeat split; congruence. Qed.

Lemma junk_from_same c s1 s2 k : junk_from c s1 k -> same_parse s1 s2 -> junk_from c s2 k.
Proof. intros H Hs s Hs2. apply H. eapply same_parse_trans; eassumption. Qed.

(* ------------------------------------------------------------------ tags *)
Definition ends_of (T : list frame) : list tag := map (fun f => TEnd (f_id f)) T.

Fixpoint rtags (stk : list frame) (rs : list (list rtree)) {struct rs} : list tag :=
  match rs with
  | [] => []
  | r0 :: rs' => tags_forest r0 ++ match stk with [] => [] | fr :: stk' => TEnd (f_id fr) :: rtags stk' rs' end
  end.

Lemma out_tags_ends T : out_tags (map end_out T) = ends_of T.
Proof. induction T as [|f T IH]; [reflexivity|]. cbn [map]. unfold out_tags in *. cbn [flat_map end_out app]. rewrite IH. reflexivity. Qed.
