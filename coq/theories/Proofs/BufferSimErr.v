(* C08, the remaining directions: errors.  Proofs/BufferSim.v relates a run with buffered masters that has no error outcome to
   the run of the same reader with nothing buffered.  Here the step simulation is extended to buffered steps that queue an
   error item ([rn_bm_simE]): the unbuffered steps that simulate such a step queue the same error, after the unrolling of the
   successful items the buffered step kept and further successful items ([extra]: the Start and the partial children of the
   buffered masters that were cut from the buffered queue).  With end-of-input closing ([c_emit_eof c = true]) the "master
   never ended" error of buffer_master is unreachable ([bm_reads_grow]): while a buffered master is open the stack is not empty,
   so every read_next queues something.  Whole runs ([run_simE]): the final outcome of the buffered run (None, an error, the
   item limit) determines what the unbuffered run yields; hence a clean unbuffered run means a clean buffered run
   ([clean_stays_clean]) and an unbuffered run ending in an error means a buffered run ending in the same error after items
   whose unrolling is a prefix ([error_prefix]). *)
From Ebml Require Import Base Tools Spec Reader Pure Proofs.Tactics Proofs.ReaderIO Proofs.Refine Proofs.PureProofs
  Proofs.NoPanic Proofs.RollUp Proofs.Nesting Proofs.BufferSim Proofs.Termination.

Arguments vint_len : simpl never.
Arguments read_vint : simpl never.

(* ------------------------------------------------------------------ lists *)
Lemma app_last_cases {A} (a b ok : list A) x y : a ++ x :: b = ok ++ [y] ->
  (b = [] /\ ok = a /\ x = y) \/ exists b', b = b' ++ [y] /\ ok = a ++ x :: b'.
Proof.
  intros H. destruct b as [|z b' _] using rev_ind.
  - apply app_inj_tail in H. destruct H as [H1 H2]. left. split; [reflexivity|split; [symmetry; exact H1|exact H2]].
  - change (x :: b' ++ [z]) with ((x :: b') ++ [z]) in H. rewrite app_assoc in H. apply app_inj_tail in H.
    destruct H as [H1 H2]. subst z. right. exists b'. split; [reflexivity|symmetry; exact H1].
Qed.

(* ------------------------------------------------------------------ an open buffered master stays on the stack *)
(* as long as no End of the buffered master [F] has been queued, [F] is still open *)
Lemma Tr_keeps B S l S' : Tr B S l S' -> forall above F S0,
  S = above ++ F :: S0 -> Forall (fun f => mem_id (f_id f) B = false) above -> mem_id (f_id F) B = true ->
  no_end (f_id F) (qtags l) -> exists above' rest, S' = above' ++ F :: rest.
Proof.
  induction 1 as [S|f S l S' HT IH|f S l S' Hm _ IH|id v o' S l S' _ IH|id cs o' S l S' _ IH|extra S l S' _ IH];
    intros above F S0 HS Hab HF Hne.
  - exists above, S0. exact HS.
  - destruct above as [|g above].
    + cbn [app] in HS. injection HS as -> ->. exfalso. cbn [end_item qtags flat_map app] in Hne.
      inversion Hne as [|? ? Hx _]. cbn [is_end_of] in Hx. rewrite N.eqb_refl in Hx. discriminate.
    + cbn [app] in HS. injection HS as -> ->. inversion Hab as [|? ? Hg Hab']; subst.
      cbn [end_item qtags flat_map app] in Hne. inversion Hne as [|? ? _ Hne']; subst.
      apply (IH above F S0 eq_refl Hab' HF Hne').
  - cbn [qtags flat_map app] in Hne. inversion Hne as [|? ? _ Hne']; subst.
    apply (IH (f :: above) F S0 eq_refl (Forall_cons _ Hm Hab) HF Hne').
  - cbn [qtags flat_map app] in Hne. inversion Hne as [|? ? _ Hne']; subst. apply (IH above F S0 eq_refl Hab HF Hne').
  - cbn [qtags flat_map app] in Hne. inversion Hne as [|? ? _ Hne']; subst. apply (IH above F S0 eq_refl Hab HF Hne').
  - subst S. apply (IH above F (S0 ++ extra)); [rewrite <- app_assoc; reflexivity|exact Hab|exact HF|exact Hne].
Qed.

(* ------------------------------------------------------------------ one unbuffered step *)
(* with end-of-input closing, a step taken while a master is open queues something (or reaches a panic site) *)
Lemma ustep_grows c s : c_emit_eof c = true -> b_stack s <> [] -> b_bad (ustep c s) = None ->
  (length (b_queue s) < length (b_queue (ustep c s)))%nat.
Proof.
  intros He Hs. unfold ustep. rewrite p_read_next_unfold. cbn zeta.
  set (k1 := exhausted_count (b_off s) (b_stack s)). set (s1 := ppop_frames s k1).
  assert (Hq1 : b_queue s1 = b_queue s ++ map end_item (firstn k1 (b_stack s))) by reflexivity.
  unfold p_read_tag_checked. change (b_bytes s1) with (b_bytes s). destruct (b_bytes s) eqn:Eb.
  - cbn [unbuffered c_emit_eof]. rewrite He. intros _.
    change (b_queue (ppop_frames s1 (length (b_stack s1))))
      with (b_queue s1 ++ map end_item (firstn (length (b_stack s1)) (b_stack s1))).
    rewrite firstn_all, Hq1. change (b_stack s1) with (skipn k1 (b_stack s)). rewrite !app_length, !map_length.
    pose proof (f_equal (@length frame) (firstn_skipn k1 (b_stack s))) as Hl. rewrite app_length in Hl.
    destruct (b_stack s) as [|f stk]; [contradiction|]. cbn [length] in Hl. lia.
  - pose proof (p_read_tag_queue (unbuffered c) s1) as Hq2.
    destruct (p_read_tag (unbuffered c) s1) as [s2 [p|e|]]; cbn [fst] in Hq2.
    + intros _.
      assert (Hl : forall st x, b_queue st = b_queue s2 ->
                (length (b_queue s) < length (b_queue (ppush_q (ppop_frames st (count_ended (c_sp (unbuffered c)) (tag_id (p_tag p)) (stack_view (b_stack s2)))) [x])))%nat).
      { intros st x Hst. cbn [ppop_frames ppush_q pset_queue pset_stack b_queue]. rewrite Hst, Hq2, Hq1, !app_length. cbn [length]. lia. }
      destruct (p_tag p); apply (Hl s2); reflexivity.
    + intros _. cbn [ppush_q pset_queue b_queue]. rewrite Hq2, Hq1, !app_length. cbn [length]. lia.
    + intros Hb. cbn [pset_bad b_bad] in Hb. destruct (b_bad s2); discriminate.
Qed.

(* the items one step queues are successful, or Ends of popped frames followed by one error *)
Lemma ustep_new_cases c s new : (forall Q l, ustep c (recore s Q l) = recore (ustep c s) (Q ++ new) l) ->
  okq new \/ exists k e, new = map end_item (firstn k (b_stack s)) ++ [QErr e].
Proof.
  intros H. specialize (H [] 0). apply (f_equal b_queue) in H. rewrite ustep_recore in H. cbn zeta in H.
  cbn [recore b_queue app] in H.
  destruct (p_read_tag_checked c _) as [s2 [[p|e|]|]].
  - left. destruct (p_tag p); cbn [recore b_queue] in H; subst new;
      (apply okq_app; split; [apply okq_app; split; apply okq_ends|constructor; [reflexivity|constructor]]).
  - right. cbn [recore b_queue] in H. subst new. eexists _, e. reflexivity.
  - left. cbn [recore b_queue] in H. subst new. apply okq_ends.
  - left. destruct (c_emit_eof c); cbn [recore b_queue] in H; subst new; [apply okq_app; split; apply okq_ends|apply okq_ends].
Qed.

Lemma recore_pset_queue s q Q l : recore (pset_queue s q) Q l = recore s Q l.
Proof. reflexivity. Qed.

Section Err.
Variable c : cfg.
Hypothesis He : c_emit_eof c = true.

(* ------------------------------------------------------------------ the step simulation, with errors *)
(* a buffered read_next queues successful items only (then [rn_bm_sim] applies), or successful items [ok_b] followed by one
   error; in that case the simulating unbuffered steps queue the unrolling of [ok_b], further successful items (what the
   buffered reader dropped from its queue) and the same error; and they end in the same parse state *)
Definition RNE (fuel : nat) : Prop := forall sb,
  b_bad (p_read_next fuel c sb) = None ->
  exists new_b, b_queue (p_read_next fuel c sb) = b_queue sb ++ new_b /\
    (b_stack sb <> [] -> new_b <> []) /\
    (okq new_b \/
     exists ok_b e S' n new_u extra, new_b = ok_b ++ [QErr e] /\ okq ok_b /\ okq extra /\
       Tr (c_buffered c) (b_stack sb) ok_b S' /\ Unr ok_b new_u /\
       forall Q l, usteps (S n) c (recore sb Q l) = recore (p_read_next fuel c sb) (Q ++ new_u ++ extra ++ [QErr e]) l).

(* buffer_master for the open buffered master [F]: what replaces the children [ch] is never empty; if it ends in an error,
   either everything queued for [F] was dropped ([tb = []]) or the End of [F] was found before the error and [F] rolled up *)
Definition BME (fuel : nat) : Prop := forall F S0 kept ch st,
  mem_id (f_id F) (c_buffered c) = true ->
  b_queue st = kept ++ ch -> okq ch -> no_end (f_id F) (qtags ch) -> Tr (c_buffered c) (F :: S0) ch (b_stack st) ->
  b_bad (p_buffer_master fuel c (f_id F) (f_start F) (length kept) (length (b_queue st)) st) = None ->
  exists tail, b_queue (p_buffer_master fuel c (f_id F) (f_start F) (length kept) (length (b_queue st)) st) = kept ++ tail /\
    tail <> [] /\
    (okq tail \/
     exists tb e S' n new_u extra, tail = tb ++ [QErr e] /\ okq tb /\ okq extra /\ Tr (c_buffered c) S0 tb S' /\
       (forall Q l, usteps n c (recore st Q l) =
                    recore (p_buffer_master fuel c (f_id F) (f_start F) (length kept) (length (b_queue st)) st)
                           (Q ++ new_u ++ extra ++ [QErr e]) l) /\
       ((tb = [] /\ new_u = []) \/
        forall uch, Unr ch uch -> Unr tb (QOk (TStart (f_id F)) (f_start F) :: uch ++ new_u))).

Lemma rn_bm_simE : forall fuel, RNE fuel /\ BME fuel.
Proof.
  induction fuel as [|f [IHRN IHBM]].
  - split.
    + intros sb Hb. cbn [p_read_next pset_bad b_bad] in Hb. destruct (b_bad sb); discriminate.
    + intros F S0 kept ch st _ _ _ _ _ Hb. cbn [p_buffer_master pset_bad b_bad] in Hb. destruct (b_bad st); discriminate.
  - split.
    + intros sb.
      destruct (rn_cases f c sb) as [[new [E1 [E2 [E3 [E4 E5]]]]] | [ends [st4 [F [S1 [Em [E1 [E2 [E3 [E4 [E5 [E6 [E7 E8]]]]]]]]]]]]];
        rewrite E1; intros Hb.
      * exists new.
        assert (Hq : b_queue (ustep c sb) = b_queue sb ++ new).
        { pose proof (E2 (b_queue sb) (b_last sb)) as H. rewrite recore_id in H. rewrite H. reflexivity. }
        split; [exact Hq|]. split.
        -- intros Hs Hn. pose proof (ustep_grows c sb He Hs Hb) as Hl. rewrite Hq, Hn, app_nil_r in Hl. lia.
        -- destruct (ustep_new_cases c sb new E2) as [Ho|[k [e Hn]]]; [left; exact Ho|right].
           exists (map end_item (firstn k (b_stack sb))), e, (skipn k (b_stack sb)), O, (map end_item (firstn k (b_stack sb))), [].
           split; [exact Hn|]. split; [apply okq_ends|]. split; [constructor|]. split; [apply Tr_pop|].
           split; [apply Unr_refl; [apply okq_ends|apply no_full_qends]|].
           intros Q l. cbn [usteps app]. rewrite E2, Hn. reflexivity.
      * assert (Hq0 : b_queue st4 = b_queue st4 ++ []) by (rewrite app_nil_r; reflexivity).
        assert (HT0 : Tr (c_buffered c) (F :: S1) [] (b_stack st4)) by (rewrite E6; apply Tr_nil).
        destruct (IHBM F S1 (b_queue st4) [] st4 Em Hq0 (Forall_nil _) (Forall_nil _) HT0 Hb) as [tail [Hq [Hne Hcase]]].
        exists (ends ++ tail). split; [rewrite Hq, E3, app_assoc; reflexivity|]. split.
        -- intros _ Hn. apply app_eq_nil in Hn. apply Hne, Hn.
        -- destruct Hcase as [Ho|[tb [e [S' [n [new_u [extra [Ht [Hotb [Hoex [HTtb [Hu Hd]]]]]]]]]]]].
           ++ left. apply okq_app. split; assumption.
           ++ right. destruct Hd as [[Htb Hnu]|Hd].
              ** subst tb new_u. exists ends, e, S1, n, ends, (QOk (TStart (f_id F)) (f_start F) :: extra).
                 split; [rewrite Ht; reflexivity|]. split; [exact E5|]. split; [constructor; [reflexivity|exact Hoex]|].
                 split; [exact E7|]. split; [apply Unr_refl; assumption|].
                 intros Q l. cbn [usteps]. rewrite E2, Hu. apply recore_q. cbn [app]. rewrite <- !app_assoc. reflexivity.
              ** exists (ends ++ tb), e, S', n, (ends ++ QOk (TStart (f_id F)) (f_start F) :: new_u), extra.
                 split; [rewrite Ht, app_assoc; reflexivity|]. split; [apply okq_app; split; assumption|]. split; [exact Hoex|].
                 split; [eapply Tr_app; [exact E7|exact HTtb]|]. split.
                 --- apply Unr_app; [apply Unr_refl; assumption|]. apply (Hd [] Unr_nil).
                 --- intros Q l. cbn [usteps]. rewrite E2, Hu. apply recore_q. cbn [app]. rewrite <- !app_assoc. reflexivity.
    + intros F S0 kept ch st Em Hq Hoc Hne HT. rewrite p_buffer_master_unfold. cbn zeta. rewrite Nat.leb_refl.
      destruct (b_bad (p_read_next f c st)) eqn:Eb1; [intros Hb; rewrite Eb1 in Hb; discriminate|].
      destruct (proj1 (rn_bm_sim c f) st Eb1) as [_ [new1 [Hq1 Hsim1]]].
      destruct (IHRN st Eb1) as [new1' [Hq1' [Hgrow Hcase]]].
      assert (Hsame : new1' = new1) by (rewrite Hq1 in Hq1'; apply app_inv_head in Hq1'; symmetry; exact Hq1').
      subst new1'. clear Hq1'.
      destruct (Tr_keeps _ _ _ _ HT [] F S0 eq_refl (Forall_nil _) Em Hne) as [ab [rs Hstk]].
      assert (Hnn : new1 <> []) by (apply Hgrow; rewrite Hstk; destruct ab; discriminate).
      remember (p_read_next f c st) as st1 eqn:Est1.
      destruct (Nat.leb_spec (length (b_queue st1)) (length (b_queue st))) as [Hle|Hgt].
      * exfalso. rewrite Hq1, app_length in Hle. destruct new1; [apply Hnn; reflexivity|cbn [length] in Hle; lia].
      * replace (skipn (length (b_queue st)) (b_queue st1)) with new1 by (rewrite Hq1, skipn_app_exact; reflexivity).
        destruct (scan_queue (f_id F) new1 (length (b_queue st))) as [p found] eqn:Es. destruct found.
        -- destruct (scan_found _ _ _ _ Es) as [a [x [b [Hn1 [Hp [Hoa [Hnea Hx]]]]]]]. subst new1 p.
           assert (Hq1' : b_queue st1 = kept ++ (ch ++ a) ++ x :: b) by (rewrite Hq1, Hq, <- !app_assoc; reflexivity).
           unfold p_bm_finish. rewrite Hq1', firstn_app_exact, skipn_app_exact.
           replace (length (b_queue st) + length a - length kept)%nat with (length (ch ++ a)) by (rewrite Hq, !app_length; lia).
           rewrite nth_error_app_exact, firstn_app_exact, skipn_S_app_exact.
           destruct x as [t o|e].
           ++ apply end_item_is in Hx. subst t. intros _.
              exists (QOk (roll_up_children (f_id F) (qtags (ch ++ a))) (f_start F) :: b). split; [reflexivity|]. split; [discriminate|].
              destruct Hcase as [Hok|[ok_b [e [S' [n [new_u [extra [Hnew [Hokb [Hoex [HTr [HUnr Hu]]]]]]]]]]]].
              ** left. apply okq_app in Hok. destruct Hok as [_ Hok]. apply Forall_cons_iff in Hok. destruct Hok as [_ Hok].
                 constructor; [reflexivity|exact Hok].
              ** right. destruct (app_last_cases _ _ _ _ _ Hnew) as [[_ [_ Hxy]]|[b' [Hb' Hokb']]]; [discriminate|]. subst b ok_b.
                 assert (HTall : Tr (c_buffered c) (F :: S0) ((ch ++ a) ++ QOk (TEnd (f_id F)) o :: b') S').
                 { rewrite <- app_assoc. eapply Tr_app; [exact HT|exact HTr]. }
                 assert (Hne2 : no_end (f_id F) (qtags (ch ++ a))) by (rewrite qtags_app; apply Forall_app; split; assumption).
                 destruct (Tr_split _ _ _ _ HTall [] F S0 _ _ _ eq_refl (Forall_nil _) Em eq_refl Hne2) as [HBal [Hoff [extra' HTb]]].
                 specialize (HBal [] Bal_nil). cbn [app] in HBal. subst o.
                 assert (Hob' : okq b').
                 { apply okq_app in Hokb. destruct Hokb as [_ Hokb]. apply Forall_cons_iff in Hokb. apply Hokb. }
                 exists (QOk (roll_up_children (f_id F) (qtags (ch ++ a))) (f_start F) :: b'), e, S', (S n), new_u, extra.
                 split; [reflexivity|]. split; [constructor; [reflexivity|exact Hob']|]. split; [exact Hoex|].
                 split; [unfold roll_up_children; apply Tr_full, (Tr_impl _ extra'), HTb|].
                 split; [intros Q l; rewrite Hu; reflexivity|].
                 right. intros uch Huch. destruct (Unr_app_inv _ _ _ HUnr) as [ua [ub' [-> [Hua Hub']]]].
                 inversion Hub' as [|t0 o0 b0 ub Hn0 Hub|]; subst.
                 destruct (Unr_tags _ _ Huch) as [_ [Houch Htch]]. destruct (Unr_tags _ _ Hua) as [_ [Houa Hta]].
                 unfold roll_up_children. rewrite app_assoc. apply Unr_full; [apply okq_app; split; assumption| |exact Hub].
                 rewrite roll_up_flat; [|lia|exact HBal]. rewrite !qtags_app, flat_app, Htch, Hta. reflexivity.
           ++ intros _. exists [QErr e]. split; [reflexivity|]. split; [discriminate|]. right.
              destruct Hcase as [Hok|[ok_b [e' [S' [n [new_u [extra [Hnew [Hokb [Hoex [HTr [HUnr Hu]]]]]]]]]]]].
              ** exfalso. apply okq_app in Hok. destruct Hok as [_ Hok]. apply Forall_cons_iff in Hok. destruct Hok as [Hok _]. discriminate.
              ** destruct (app_last_cases _ _ _ _ _ Hnew) as [[Hb0 [Hoka Hxy]]|[b' [Hb' Hokb']]].
                 --- subst b ok_b. injection Hxy as <-.
                     destruct (Unr_tags _ _ HUnr) as [_ [Honu _]].
                     exists [], e, S0, (S n), [], (new_u ++ extra).
                     split; [reflexivity|]. split; [constructor|]. split; [apply okq_app; split; assumption|]. split; [apply Tr_nil|].
                     split; [intros Q l; rewrite Hu, recore_pset_queue; apply recore_q; cbn [app]; rewrite <- !app_assoc; reflexivity|].
                     left. split; reflexivity.
                 --- exfalso. subst ok_b. apply okq_app in Hokb. destruct Hokb as [_ Hokb].
                     apply Forall_cons_iff in Hokb. destruct Hokb as [Hokb _]. discriminate.
        -- destruct (scan_not_found _ _ _ _ Es) as [Hp [Hon Hnen]]. subst p.
           replace (length (b_queue st) + length new1)%nat with (length (b_queue st1)) by (rewrite Hq1, app_length; reflexivity).
           intros Hb.
           assert (Hq1' : b_queue st1 = kept ++ (ch ++ new1)) by (rewrite Hq1, Hq, <- app_assoc; reflexivity).
           destruct (Hsim1 Hon) as [HT1 [n1 [nu1 [Hu1 HUnr1]]]].
           assert (Hoc2 : okq (ch ++ new1)) by (apply okq_app; split; assumption).
           assert (Hne2 : no_end (f_id F) (qtags (ch ++ new1))) by (rewrite qtags_app; apply Forall_app; split; assumption).
           assert (HT2 : Tr (c_buffered c) (F :: S0) (ch ++ new1) (b_stack st1)) by (eapply Tr_app; eassumption).
           destruct (IHBM F S0 kept (ch ++ new1) st1 Em Hq1' Hoc2 Hne2 HT2 Hb) as [tail [Hqt [Hnet Hcase2]]].
           exists tail. split; [exact Hqt|]. split; [exact Hnet|].
           destruct Hcase2 as [Ho|[tb [e [S' [n2 [nu2 [extra [Ht [Hotb [Hoex [HTtb [Hu2 Hd]]]]]]]]]]]]; [left; exact Ho|right].
           destruct (Unr_tags _ _ HUnr1) as [_ [Honu1 _]].
           destruct Hd as [[Htb Hnu]|Hd].
           ++ subst tb nu2. exists [], e, S', (S n1 + n2)%nat, [], (nu1 ++ extra).
              split; [exact Ht|]. split; [constructor|]. split; [apply okq_app; split; assumption|]. split; [exact HTtb|].
              split; [|left; split; reflexivity].
              intros Q l. rewrite usteps_add, Hu1, Hu2. apply recore_q. cbn [app]. rewrite <- !app_assoc. reflexivity.
           ++ exists tb, e, S', (S n1 + n2)%nat, (nu1 ++ nu2), extra.
              split; [exact Ht|]. split; [exact Hotb|]. split; [exact Hoex|]. split; [exact HTtb|]. split.
              ** intros Q l. rewrite usteps_add, Hu1, Hu2. apply recore_q. rewrite <- !app_assoc. reflexivity.
              ** right. intros uch Huch. rewrite app_assoc. apply Hd. apply Unr_app; assumption.
Qed.

(* the "master never ended" branch of buffer_master is not taken: while the buffered master [F] is open, a read_next that
   does not reach a panic site / run out of budget makes the queue longer (at the end of the input it closes [F]) *)
Corollary bm_reads_grow : forall f F S0 ch st,
  mem_id (f_id F) (c_buffered c) = true -> no_end (f_id F) (qtags ch) -> Tr (c_buffered c) (F :: S0) ch (b_stack st) ->
  b_bad (p_read_next f c st) = None ->
  (length (b_queue (p_read_next f c st)) <=? length (b_queue st))%nat = false.
Proof.
  intros f F S0 ch st Em Hne HT Hb.
  destruct (proj1 (rn_bm_simE f) st Hb) as [new [Hq [Hgrow _]]].
  destruct (Tr_keeps _ _ _ _ HT [] F S0 eq_refl (Forall_nil _) Em Hne) as [ab [rs Hstk]].
  assert (Hnn : new <> []) by (apply Hgrow; rewrite Hstk; destruct ab; discriminate).
  apply Nat.leb_gt. rewrite Hq, app_length. destruct new; [contradiction|cbn [length]; lia].
Qed.

(* ------------------------------------------------------------------ the unbuffered run does not care when it refills *)
(* [run_ustep] without the assumption that the eager step queues no error: the run stops at the first error anyway *)
Lemma run_ustepE : forall lim su, b_bad (ustep c su) = None -> (1 <= b_fuel su)%nat ->
  snd (p_run_all lim (unbuffered c) su) = snd (p_run_all lim (unbuffered c) (ustep c su)).
Proof.
  induction lim as [|k IH]; intros su Hb Hf; [reflexivity|].
  cbn [p_run_all]. destruct (ustep_queue c su) as [new [Hq Hfr]].
  destruct (b_queue su) as [|x q] eqn:Eq.
  - rewrite (p_next_empty _ su Eq), (read_next_unbuffered c su Hf). cbn [app] in Hq.
    destruct new as [|y new'].
    + rewrite Hq, Hb. cbn [snd].
      assert (Hq' : b_queue (ustep c su) = b_queue su) by (rewrite Hq, Eq; reflexivity).
      destruct (ustep_idem c su Hq' Hb) as [A Bx]. rewrite Eq in A.
      rewrite (p_next_empty _ (ustep c su) Hq), (read_next_unbuffered c (ustep c su)) by (rewrite ustep_b_fuel; exact Hf).
      rewrite A, Bx. reflexivity.
    + rewrite Hq. destruct y as [t o|e].
      * rewrite (p_next_nonempty _ (ustep c su) t o new' Hq). reflexivity.
      * rewrite (p_next_err _ (ustep c su) e new' Hq). reflexivity.
  - cbn [app] in Hq. destruct x as [t o|e].
    + rewrite (p_next_nonempty _ su t o q Eq), (p_next_nonempty _ (ustep c su) t o (q ++ new) Hq).
      assert (E : pset_last (pset_queue (ustep c su) (q ++ new)) o = ustep c (pset_last (pset_queue su q) o)).
      { change (pset_last (pset_queue su q) o) with (recore su q o). rewrite Hfr. reflexivity. }
      rewrite E.
      assert (Hb0 : b_bad su = None) by (apply (ustep_bad c), Hb).
      change (b_bad (pset_last (pset_queue su q) o)) with (b_bad su). rewrite Hb0.
      assert (Hb1 : b_bad (ustep c (pset_last (pset_queue su q) o)) = None) by (rewrite <- E; exact Hb).
      rewrite Hb1.
      pose proof (IH _ Hb1 Hf) as HI.
      destruct (p_run_all k (unbuffered c) (pset_last (pset_queue su q) o)) as [a1 o1].
      destruct (p_run_all k (unbuffered c) (ustep c (pset_last (pset_queue su q) o))) as [a2 o2].
      cbn [snd] in *. rewrite HI. reflexivity.
    + rewrite (p_next_err _ su e q Eq), (p_next_err _ (ustep c su) e (q ++ new) Hq).
      change (b_bad (pset_queue su q)) with (b_bad su).
      change (b_bad (pset_queue (ustep c su) (q ++ new))) with (b_bad (ustep c su)).
      rewrite Hb, (ustep_bad c su Hb). reflexivity.
Qed.

Lemma run_ustepsE lim : forall n su, b_bad (usteps n c su) = None -> (1 <= b_fuel su)%nat ->
  snd (p_run_all lim (unbuffered c) su) = snd (p_run_all lim (unbuffered c) (usteps n c su)).
Proof.
  induction n as [|n IH]; intros su Hb Hf; cbn [usteps] in *; [reflexivity|].
  rewrite <- IH; [|exact Hb|rewrite ustep_b_fuel; exact Hf].
  apply run_ustepE; [apply usteps_bad in Hb; exact Hb|exact Hf].
Qed.

(* ------------------------------------------------------------------ whole runs *)
Definition item_out (q : qitem) : rout := match q with QOk t o => OItem t o | QErr e => OErr e end.

Lemma out_tags_items T : out_tags (map item_out T) = qtags T.
Proof. induction T as [|[t o|e] T IH]; [reflexivity| |exact IH]. cbn [map item_out out_tags flat_map app]. rewrite qtags_cons. f_equal. exact IH. Qed.

Lemma out_items_items T : okq T -> out_items (map item_out T) = T.
Proof.
  induction T as [|[t o|e] T IH]; intros Ho; [reflexivity| |].
  - apply Forall_cons_iff in Ho. cbn [map item_out out_items flat_map app]. f_equal. apply IH, Ho.
  - apply Forall_cons_iff in Ho. destruct Ho as [Ho _]. discriminate.
Qed.

(* no panic site and no budget outcome *)
Definition nobad (outs : list rout) : Prop := forall o, In o outs -> o <> OPanic /\ o <> OFuel.

Lemma nobad_bad_out b l : ~ nobad (bad_out b :: l).
Proof. intros H. destruct (H (bad_out b) (or_introl eq_refl)) as [H1 H2]. destruct b; [apply H1|apply H2]; reflexivity. Qed.

Lemma nobad_tail o l : nobad (o :: l) -> nobad l.
Proof. intros H o' Hin. apply H. right. exact Hin. Qed.

(* unless it is cut at its item limit, the unbuffered run from [su] yields the items [T] and ends with [fin] *)
Definition UR (su : pst) (lim : nat) (T : list qitem) (fin : rout) : Prop :=
  ~ In OLimit (snd (p_run_all lim (unbuffered c) su)) -> snd (p_run_all lim (unbuffered c) su) = map item_out T ++ [fin].

Lemma drainR s : b_bad s = None -> forall q1, okq q1 -> forall q2 T fin, (forall l lim, UR (recore s q2 l) lim T fin) ->
  forall l lim, UR (recore s (q1 ++ q2) l) lim (q1 ++ T) fin.
Proof.
  intros Hb. induction q1 as [|x q1 IH]; intros Ho q2 T fin H l lim; [apply H|].
  destruct x as [t o|e]; [|apply Forall_cons_iff in Ho; destruct Ho as [Ho _]; discriminate].
  apply Forall_cons_iff in Ho. destruct Ho as [_ Ho'].
  destruct lim as [|lim].
  - intros Hn. exfalso. apply Hn. left. reflexivity.
  - unfold UR. cbn [p_run_all app]. rewrite (p_next_nonempty _ _ t o (q1 ++ q2)) by reflexivity.
    change (b_bad (pset_last (pset_queue (recore s (QOk t o :: q1 ++ q2) l) (q1 ++ q2)) o)) with (b_bad s). rewrite Hb.
    change (pset_last (pset_queue (recore s (QOk t o :: q1 ++ q2) l) (q1 ++ q2)) o) with (recore s (q1 ++ q2) o).
    pose proof (IH Ho' q2 T fin H o lim) as HI. unfold UR in HI.
    destruct (p_run_all lim (unbuffered c) (recore s (q1 ++ q2) o)) as [st2 outs]. cbn [snd] in *.
    intros Hn. cbn [map item_out app]. f_equal. apply HI. intros Hin. apply Hn. right. exact Hin.
Qed.

Lemma drainL s : b_bad s = None -> forall q1, okq q1 -> forall q2 k,
  (forall l lim, (lim <= k)%nat -> In OLimit (snd (p_run_all lim (unbuffered c) (recore s q2 l)))) ->
  forall l lim, (lim <= k + length q1)%nat -> In OLimit (snd (p_run_all lim (unbuffered c) (recore s (q1 ++ q2) l))).
Proof.
  intros Hb. induction q1 as [|x q1 IH]; intros Ho q2 k H l lim Hl.
  - apply H. cbn [length] in Hl. lia.
  - destruct x as [t o|e]; [|apply Forall_cons_iff in Ho; destruct Ho as [Ho _]; discriminate].
    apply Forall_cons_iff in Ho. destruct Ho as [_ Ho'].
    destruct lim as [|lim]; [left; reflexivity|].
    cbn [p_run_all app]. rewrite (p_next_nonempty _ _ t o (q1 ++ q2)) by reflexivity.
    change (b_bad (pset_last (pset_queue (recore s (QOk t o :: q1 ++ q2) l) (q1 ++ q2)) o)) with (b_bad s). rewrite Hb.
    change (pset_last (pset_queue (recore s (QOk t o :: q1 ++ q2) l) (q1 ++ q2)) o) with (recore s (q1 ++ q2) o).
    assert (Hl' : (lim <= k + length q1)%nat) by (cbn [length] in Hl; lia).
    pose proof (IH Ho' q2 k H o lim Hl') as HI.
    destruct (p_run_all lim (unbuffered c) (recore s (q1 ++ q2) o)) as [st2 outs]. cbn [snd] in *. right. exact HI.
Qed.

(* the buffered queue [qb] against the unbuffered queue [qu]: unrolled; when the buffered queue ends in an error the
   unbuffered one has further successful items before the same error *)
Definition QR (qb qu : list qitem) : Prop :=
  Unr qb qu \/
  exists ok_b e ok_u extra, qb = ok_b ++ [QErr e] /\ qu = ok_u ++ extra ++ [QErr e] /\ Unr ok_b ok_u /\ okq extra.

Lemma Unr_cons_inv2 t o b u : Unr (QOk t o :: b) u ->
  exists q1 u', u = q1 ++ u' /\ okq q1 /\ q1 <> [] /\ Unr b u' /\ forall b' T', Unr b' T' -> Unr (QOk t o :: b') (q1 ++ T').
Proof.
  intros H. inversion H as [|t0 o0 b0 u0 Hn H0|tid cs o0 mid b0 u0 Hm Hq H0]; subst.
  - exists [QOk t o], u0. split; [reflexivity|]. split; [constructor; [reflexivity|constructor]|]. split; [discriminate|]. split; [exact H0|].
    intros b' T' H'. apply Unr_same; assumption.
  - exists (QOk (TStart tid) o :: mid ++ [QOk (TEnd tid) o]), u0. split; [cbn [app]; rewrite <- app_assoc; reflexivity|].
    split; [constructor; [reflexivity|apply okq_app; split; [exact Hm|constructor; [reflexivity|constructor]]]|]. split; [discriminate|].
    split; [exact H0|].
    intros b' T' H'. cbn [app]. rewrite <- app_assoc. cbn [app]. apply Unr_full; assumption.
Qed.

Lemma QR_nil_inv u : QR [] u -> u = [].
Proof.
  intros [H|[ok_b [e [ok_u [extra [H _]]]]]]; [apply Unr_nil_inv, H|]. destruct ok_b; discriminate.
Qed.

Lemma QR_cons_inv t o b u : QR (QOk t o :: b) u ->
  exists q1 u', u = q1 ++ u' /\ okq q1 /\ q1 <> [] /\ QR b u' /\ forall b' T', Unr b' T' -> Unr (QOk t o :: b') (q1 ++ T').
Proof.
  intros [H|[ok_b [e [ok_u [extra [Hb [Hu [HU Hoe]]]]]]]].
  - destruct (Unr_cons_inv2 _ _ _ _ H) as [q1 [u' [E [A [Bx [C D]]]]]]. exists q1, u'.
    split; [exact E|]. split; [exact A|]. split; [exact Bx|]. split; [left; exact C|exact D].
  - destruct ok_b as [|x ok_b']; [discriminate Hb|]. cbn [app] in Hb. injection Hb as Hx Hb. subst x b.
    destruct (Unr_cons_inv2 _ _ _ _ HU) as [q1 [u' [E [A [Bx [C D]]]]]]. exists q1, (u' ++ extra ++ [QErr e]).
    split; [rewrite Hu, E, <- app_assoc; reflexivity|]. split; [exact A|]. split; [exact Bx|]. split; [|exact D].
    right. exists ok_b', e, u', extra. split; [reflexivity|]. split; [reflexivity|]. split; assumption.
Qed.

Lemma QR_err_inv e b u : QR (QErr e :: b) u -> exists extra, okq extra /\ u = extra ++ [QErr e].
Proof.
  intros [H|[ok_b [e' [ok_u [extra [Hb [Hu [HU Hoe]]]]]]]]; [inversion H|].
  destruct ok_b as [|x ok_b'].
  - cbn [app] in Hb. injection Hb as He' _. subst e'. apply Unr_nil_inv in HU. subst ok_u. exists extra. split; [exact Hoe|exact Hu].
  - cbn [app] in Hb. injection Hb as Hx _. subst x. inversion HU.
Qed.

(* what the final outcome of the buffered run says about the unbuffered run (from the same parse state with the queue [qu]) *)
Definition fin_rel (sb : pst) (qu : list qitem) (limB : nat) (T : list qitem) (fin : rout) : Prop :=
  match fin with
  | ONone => forall lu limU, UR (recore sb qu lu) limU T ONone
  | OErr e => exists extra, okq extra /\ forall lu limU, UR (recore sb qu lu) limU (T ++ extra) (OErr e)
  | OLimit => forall lu limU, (limU <= limB)%nat -> In OLimit (snd (p_run_all limU (unbuffered c) (recore sb qu lu)))
  | _ => False
  end.

Lemma fin_rel_ext s q s' q' k T fin :
  (forall lu limU, snd (p_run_all limU (unbuffered c) (recore s' q' lu)) = snd (p_run_all limU (unbuffered c) (recore s q lu))) ->
  fin_rel s q k T fin -> fin_rel s' q' k T fin.
Proof.
  intros E. unfold fin_rel, UR. destruct fin; try exact (fun x => x).
  - intros [extra [Ho H]]. exists extra. split; [exact Ho|]. intros lu limU. rewrite E. apply H.
  - intros H lu limU. rewrite E. apply H.
  - intros H lu limU Hl. rewrite E. apply H, Hl.
Qed.

Lemma fin_rel_drain s q1 u' k T fin : b_bad s = None -> okq q1 -> q1 <> [] ->
  fin_rel s u' k T fin -> fin_rel s (q1 ++ u') (S k) (q1 ++ T) fin.
Proof.
  intros Hb Ho Hn. unfold fin_rel. destruct fin; try exact (fun x => x).
  - intros [extra [Hoe H]]. exists extra. split; [exact Hoe|]. rewrite <- app_assoc. apply drainR; assumption.
  - intros H. apply drainR; assumption.
  - intros H lu limU Hl. apply (drainL s Hb q1 Ho u' k H). destruct q1; [contradiction|cbn [length]; lia].
Qed.

Lemma p_next_refill st : b_queue st = [] -> b_queue (p_read_next (b_fuel st) c st) <> [] ->
  p_next c st = p_next c (p_read_next (b_fuel st) c st).
Proof.
  intros H Hn. rewrite (p_next_empty _ _ H). destruct (b_queue (p_read_next (b_fuel st) c st)) as [|[t o|e] q] eqn:E; [contradiction| |].
  - rewrite (p_next_nonempty _ _ _ _ _ E). reflexivity.
  - rewrite (p_next_err _ _ _ _ E). reflexivity.
Qed.

Lemma run_simE : forall limB sb qu,
  nobad (snd (p_run_all limB c sb)) ->
  b_bad sb = None -> (1 <= b_fuel sb)%nat -> QR (b_queue sb) qu ->
  exists items fin T, snd (p_run_all limB c sb) = map item_out items ++ [fin] /\ Unr items T /\ fin_rel sb qu limB T fin.
Proof.
  induction limB as [|k IH]; intros sb qu H Hb Hf HQ.
  - exists [], OLimit, []. split; [reflexivity|]. split; [constructor|]. intros lu limU Hl.
    assert (E : limU = O) by lia. subst limU. left. reflexivity.
  - assert (A : forall s x qb' qu, b_queue s = x :: qb' -> b_bad s = None -> (1 <= b_fuel s)%nat -> QR (b_queue s) qu ->
                nobad (snd (p_run_all (S k) c s)) ->
                exists items fin T, snd (p_run_all (S k) c s) = map item_out items ++ [fin] /\ Unr items T /\ fin_rel s qu (S k) T fin).
    { clear sb qu H Hb Hf HQ. intros s x qb' qu Eq Hb Hf HQ Hg. rewrite Eq in HQ. cbn [p_run_all] in *. destruct x as [t o|e].
      - rewrite (p_next_nonempty _ _ _ _ _ Eq) in *.
        change (b_bad (pset_last (pset_queue s qb') o)) with (b_bad s) in *. rewrite Hb in *.
        destruct (QR_cons_inv _ _ _ _ HQ) as [q1 [u' [-> [Ho1 [Hn1 [HQ' Hmk]]]]]].
        destruct (IH (pset_last (pset_queue s qb') o) u') as [items [fin [T [E1 [E2 E3]]]]].
        + destruct (p_run_all k c (pset_last (pset_queue s qb') o)) as [st2 outs]. cbn [snd] in *. eapply nobad_tail, Hg.
        + exact Hb.
        + exact Hf.
        + exact HQ'.
        + exists (QOk t o :: items), fin, (q1 ++ T). split; [|split].
          * destruct (p_run_all k c (pset_last (pset_queue s qb') o)) as [st2 outs]. cbn [snd] in *. rewrite E1. reflexivity.
          * apply Hmk, E2.
          * apply fin_rel_drain; [exact Hb|exact Ho1|exact Hn1|]. eapply fin_rel_ext; [|exact E3]. intros lu limU. reflexivity.
      - rewrite (p_next_err _ _ _ _ Eq) in *. change (b_bad (pset_queue s qb')) with (b_bad s) in *. rewrite Hb in *.
        destruct (QR_err_inv _ _ _ HQ) as [extra [Hoe ->]].
        exists [], (OErr e), []. split; [reflexivity|]. split; [constructor|]. exists extra. split; [exact Hoe|].
        assert (Hbase : forall l lim, UR (recore s [QErr e] l) lim [] (OErr e)).
        { intros l [|lim] Hn; [exfalso; apply Hn; left; reflexivity|].
          cbn [p_run_all]. rewrite (p_next_err _ _ e []) by reflexivity.
          change (b_bad (pset_queue (recore s [QErr e] l) [])) with (b_bad s). rewrite Hb. reflexivity. }
        pose proof (drainR s Hb extra Hoe [QErr e] [] (OErr e) Hbase) as Hd. rewrite app_nil_r in Hd. exact Hd. }
    destruct (b_queue sb) as [|x qb'] eqn:Eq.
    + (* refill *)
      apply QR_nil_inv in HQ. subst qu.
      remember (p_read_next (b_fuel sb) c sb) as sbr eqn:Esbr.
      assert (Hbr : b_bad sbr = None).
      { destruct (b_bad sbr) as [b|] eqn:Ebr; [|reflexivity]. exfalso. cbn [p_run_all] in H.
        rewrite (p_next_empty _ _ Eq), <- Esbr in H.
        destruct (b_queue sbr) as [|[t o|e] q].
        - rewrite Ebr in H. exact (nobad_bad_out _ _ H).
        - change (b_bad (pset_last (pset_queue sbr q) o)) with (b_bad sbr) in H. rewrite Ebr in H. exact (nobad_bad_out _ _ H).
        - change (b_bad (pset_queue sbr q)) with (b_bad sbr) in H. rewrite Ebr in H. exact (nobad_bad_out _ _ H). }
      assert (Hsim : exists n qu', (forall Q l, usteps (S n) c (recore sb Q l) = recore sbr (Q ++ qu') l) /\ QR (b_queue sbr) qu').
      { rewrite Esbr in Hbr.
        destruct (proj1 (rn_bm_sim c (b_fuel sb)) sb Hbr) as [_ [new_b [Hqn Hs]]].
        destruct (proj1 (rn_bm_simE (b_fuel sb)) sb Hbr) as [new_b' [Hqn' [_ Hcase]]].
        assert (Hsame : new_b' = new_b) by (rewrite Hqn in Hqn'; apply app_inv_head in Hqn'; symmetry; exact Hqn').
        subst new_b'. rewrite <- Esbr in *. rewrite Eq in Hqn. cbn [app] in Hqn. rewrite Hqn.
        destruct Hcase as [Ho|[ok_b [e [S' [n [new_u [extra [Hnew [Hokb [Hoex [_ [HUnr Hu]]]]]]]]]]]].
        - destruct (Hs Ho) as [_ [n [new_u [Hu HUnr]]]]. exists n, new_u. split; [exact Hu|left; exact HUnr].
        - exists n, (new_u ++ extra ++ [QErr e]). split; [exact Hu|]. right. exists ok_b, e, new_u, extra.
          split; [exact Hnew|]. split; [reflexivity|]. split; assumption. }
      destruct Hsim as [n [qu' [Hu HQ']]].
      assert (Hrun : forall lu limU, snd (p_run_all limU (unbuffered c) (recore sb [] lu)) = snd (p_run_all limU (unbuffered c) (recore sbr qu' lu))).
      { intros lu limU. rewrite (run_ustepsE limU (S n) (recore sb [] lu)); [|rewrite Hu; exact Hbr|exact Hf]. rewrite Hu. reflexivity. }
      assert (Hfr : b_fuel sbr = b_fuel sb).
      { pose proof (usteps_b_fuel c (S n) (recore sb [] 0)) as Hfu. rewrite (Hu [] 0) in Hfu. exact Hfu. }
      destruct (b_queue sbr) as [|y q] eqn:Eqr.
      * (* end of the run *)
        apply QR_nil_inv in HQ'. subst qu'.
        exists [], ONone, []. split; [|split; [constructor|]].
        -- cbn [p_run_all]. rewrite (p_next_empty _ _ Eq), <- Esbr, Eqr, Hbr. reflexivity.
        -- intros lu limU.
           specialize (Hu [] lu). cbn [usteps app] in Hu.
           assert (Hq1 : b_queue (ustep c (recore sb [] lu)) = []).
           { destruct (usteps_queue c n (ustep c (recore sb [] lu))) as [new' Hn']. rewrite Hu in Hn'. cbn [recore b_queue] in Hn'.
             symmetry in Hn'. apply app_eq_nil in Hn'. apply Hn'. }
           assert (Hb1 : b_bad (ustep c (recore sb [] lu)) = None).
           { apply (usteps_bad c n). rewrite Hu. exact Hbr. }
           destruct limU as [|limU]; [intros Hn; exfalso; apply Hn; left; reflexivity|].
           intros _. cbn [p_run_all]. rewrite (p_next_empty _ (recore sb [] lu)) by reflexivity.
           rewrite (read_next_unbuffered c (recore sb [] lu)) by exact Hf. rewrite Hq1, Hb1. reflexivity.
      * (* the buffered reader has queued y :: q: the run continues as from [sbr] *)
        assert (Hsame : p_run_all (S k) c sb = p_run_all (S k) c sbr).
        { cbn [p_run_all]. rewrite (p_next_refill sb Eq), <- Esbr; [reflexivity|]. rewrite <- Esbr, Eqr. discriminate. }
        rewrite Hsame in *.
        destruct (A sbr y q qu' Eqr Hbr) as [items [fin [T [E1 [E2 E3]]]]]; [rewrite Hfr; exact Hf|rewrite Eqr; exact HQ'|exact H|].
        exists items, fin, T. split; [exact E1|]. split; [exact E2|]. eapply fin_rel_ext; [|exact E3]. exact Hrun.
    + apply (A sb x qb' qu Eq Hb Hf); [rewrite Eq; exact HQ|exact H].
Qed.

End Err.

(* ------------------------------------------------------------------ the theorems *)
Definition is_item (o : rout) : Prop := match o with OItem _ _ => True | _ => False end.

Lemma items_are_items T : okq T -> Forall is_item (map item_out T).
Proof.
  induction T as [|[t o|e] T IH]; intros Ho; [constructor| |].
  - apply Forall_cons_iff in Ho. constructor; [exact I|apply IH, Ho].
  - apply Forall_cons_iff in Ho. destruct Ho as [Ho _]. discriminate.
Qed.

Lemma items_no_limit items fin : Forall is_item items -> fin <> OLimit -> ~ In OLimit (items ++ [fin]).
Proof.
  intros Hi Hf Hin. apply in_app_or in Hin. destruct Hin as [Hin|[Hin|[]]].
  - rewrite Forall_forall in Hi. exact (Hi _ Hin).
  - apply Hf. exact Hin.
Qed.

(* the general form: the final outcome of the buffered run and the items before it, against the unbuffered run *)
Theorem buffered_run_outcome : forall c input,
  c_emit_eof c = true -> nobad (p_run c input [RAll]) ->
  exists items fin T, p_run c input [RAll] = map item_out items ++ [fin] /\ Unr items T /\
    match fin with
    | ONone => ~ In OLimit (p_run (unbuffered c) input [RAll]) -> p_run (unbuffered c) input [RAll] = map item_out T ++ [ONone]
    | OErr e => exists extra, okq extra /\
                  (~ In OLimit (p_run (unbuffered c) input [RAll]) ->
                   p_run (unbuffered c) input [RAll] = map item_out (T ++ extra) ++ [OErr e])
    | OLimit => In OLimit (p_run (unbuffered c) input [RAll])
    | _ => False
    end.
Proof.
  intros c input He Hnb. rewrite !p_run_RAll in *.
  destruct (run_simE c He (4 * length input + 64) (p_init input) [] Hnb) as [items [fin [T [E1 [E2 E3]]]]].
  - reflexivity.
  - cbn [p_init b_fuel]. unfold default_fuel. lia.
  - left. constructor.
  - exists items, fin, T. split; [exact E1|]. split; [exact E2|]. unfold fin_rel in E3. destruct fin; try exact E3.
    + destruct E3 as [extra [Ho E3]]. exists extra. split; [exact Ho|]. exact (E3 0 (4 * length input + 64)%nat).
    + exact (E3 0 (4 * length input + 64)%nat).
    + exact (E3 0 (4 * length input + 64)%nat (le_n _)).
Qed.

(* THEOREM A: a clean unbuffered run means a clean buffered run, whose items unroll to the unbuffered items *)
Theorem clean_stays_clean_gen : forall c input items,
  c_emit_eof c = true -> nobad (p_run c input [RAll]) ->
  p_run (unbuffered c) input [RAll] = items ++ [ONone] -> Forall is_item items ->
  exists items', p_run c input [RAll] = items' ++ [ONone] /\ Forall is_item items' /\
                 Unr (out_items items') (out_items items) /\ flat (out_tags items') = out_tags items.
Proof.
  intros c input items He Hnb Hu Hi.
  assert (Hnl : ~ In OLimit (p_run (unbuffered c) input [RAll])) by (rewrite Hu; apply items_no_limit; [exact Hi|discriminate]).
  destruct (buffered_run_outcome c input He Hnb) as [ib [fin [T [E1 [E2 E3]]]]].
  destruct (Unr_tags _ _ E2) as [Hob [HoT Ht]].
  destruct fin; try contradiction.
  - exfalso. destruct E3 as [extra [_ E3]]. rewrite (E3 Hnl) in Hu. apply app_inj_tail in Hu. destruct Hu as [_ Hu]. discriminate.
  - rewrite (E3 Hnl) in Hu. apply app_inj_tail in Hu. destruct Hu as [Hu _]. subst items.
    exists (map item_out ib). split; [exact E1|]. split; [apply items_are_items, Hob|].
    rewrite !out_items_items by assumption. split; [exact E2|]. rewrite !out_tags_items. symmetry. exact Ht.
Qed.

(* THEOREM B: an unbuffered run that ends in an error means a buffered run that ends in the same error, after items whose
   unrolling is a prefix of the unbuffered items (what is missing: the Start and the partial children of the buffered masters
   open when the error occurred) *)
Theorem error_prefix_gen : forall c input items e,
  c_emit_eof c = true -> nobad (p_run c input [RAll]) ->
  p_run (unbuffered c) input [RAll] = items ++ [OErr e] -> Forall is_item items ->
  exists items' T extra, p_run c input [RAll] = items' ++ [OErr e] /\ Forall is_item items' /\
    Unr (out_items items') T /\ out_items items = T ++ extra /\
    out_tags items = flat (out_tags items') ++ qtags extra.
Proof.
  intros c input items e He Hnb Hu Hi.
  assert (Hnl : ~ In OLimit (p_run (unbuffered c) input [RAll])) by (rewrite Hu; apply items_no_limit; [exact Hi|discriminate]).
  destruct (buffered_run_outcome c input He Hnb) as [ib [fin [T [E1 [E2 E3]]]]].
  destruct (Unr_tags _ _ E2) as [Hob [HoT Ht]].
  destruct fin; try contradiction.
  - destruct E3 as [extra [Hoe E3]]. rewrite (E3 Hnl) in Hu. apply app_inj_tail in Hu. destruct Hu as [Hu Hee].
    injection Hee as ->. subst items.
    exists (map item_out ib), T, extra. split; [exact E1|]. split; [apply items_are_items, Hob|].
    assert (HoTe : okq (T ++ extra)) by (apply okq_app; split; assumption).
    rewrite !out_items_items by assumption. split; [exact E2|]. split; [reflexivity|].
    rewrite !out_tags_items, qtags_app, Ht. reflexivity.
  - exfalso. rewrite (E3 Hnl) in Hu. apply app_inj_tail in Hu. destruct Hu as [_ Hu]. discriminate.
Qed.

(* on well-formed bytes and a specification whose path ids are masters there is no panic-site / budget outcome *)
Lemma wf_nobad c input ops : implied_ok (c_sp c) -> wf_bytes input -> nobad (p_run c input ops).
Proof.
  intros Hsp Hw o Hin. split.
  - pose proof (run_never_panics c input ops Hsp Hw) as H. rewrite Forall_forall in H. exact (H o Hin).
  - pose proof (run_never_out_of_fuel c input ops Hw) as H. rewrite Forall_forall in H. exact (H o Hin).
Qed.

Theorem clean_stays_clean : forall c input items,
  c_emit_eof c = true -> implied_ok (c_sp c) -> wf_bytes input ->
  p_run (unbuffered c) input [RAll] = items ++ [ONone] -> Forall is_item items ->
  exists items', p_run c input [RAll] = items' ++ [ONone] /\ Forall is_item items' /\
                 flat (out_tags items') = out_tags items.
Proof.
  intros c input items He Hsp Hw Hu Hi.
  destruct (clean_stays_clean_gen c input items He (wf_nobad c input _ Hsp Hw) Hu Hi) as [items' [A [B [_ D]]]].
  exists items'. split; [exact A|split; [exact B|exact D]].
Qed.

Theorem error_prefix : forall c input items e,
  c_emit_eof c = true -> implied_ok (c_sp c) -> wf_bytes input ->
  p_run (unbuffered c) input [RAll] = items ++ [OErr e] -> Forall is_item items ->
  exists items' rest, p_run c input [RAll] = items' ++ [OErr e] /\ Forall is_item items' /\
                      out_tags items = flat (out_tags items') ++ rest.
Proof.
  intros c input items e He Hsp Hw Hu Hi.
  destruct (error_prefix_gen c input items e He (wf_nobad c input _ Hsp Hw) Hu Hi) as [items' [T [extra [A [B [_ [_ D]]]]]]].
  exists items', (qtags extra). split; [exact A|split; [exact B|exact D]].
Qed.
