(* Audit follow-up for the codec properties C16 (minimal signed payload width) and C15 (need-more = proper prefix). *)
From Ebml Require Import Base Tools Spec Writer Proofs.Tactics Proofs.BytesProofs Proofs.VintProofs Proofs.SVintProofs Proofs.DecodersProofs.

(* ------------------------------------------------------------------ C16: minimal width of signed payloads *)
Lemma sint_width_minimal z w : (w = 1 \/ w = 2 \/ w = 4 \/ w = 8)%nat ->
  (- 2 ^ (8 * Z.of_nat w - 1) <= z < 2 ^ (8 * Z.of_nat w - 1))%Z -> (sint_width z <= w)%nat.
Proof.
  intros Hw Hz. unfold sint_width.
  destruct (Z.leb_spec (- 2 ^ 7) z), (Z.ltb_spec z (2 ^ 7)); cbn [andb]; try lia.
  all: destruct (Z.leb_spec (- 2 ^ 15) z), (Z.ltb_spec z (2 ^ 15)); cbn [andb];
       try (destruct Hw as [E|[E|[E|E]]]; subst w; cbn in Hz; lia).
  all: destruct (Z.leb_spec (- 2 ^ 31) z), (Z.ltb_spec z (2 ^ 31)); cbn [andb];
       try (destruct Hw as [E|[E|[E|E]]]; subst w; cbn in Hz; lia).
Qed.

(* the chosen width is one of 1, 2, 4, 8 and the value fits it *)
Lemma sint_width_fits z : (- 2 ^ 63 <= z < 2 ^ 63)%Z ->
  let w := sint_width z in (w = 1 \/ w = 2 \/ w = 4 \/ w = 8)%nat /\ (- 2 ^ (8 * Z.of_nat w - 1) <= z < 2 ^ (8 * Z.of_nat w - 1))%Z.
Proof.
  intros Hz. unfold sint_width.
  destruct (Z.leb_spec (- 2 ^ 7) z), (Z.ltb_spec z (2 ^ 7)); cbn [andb]; try (split; [tauto|cbn; lia]).
  all: destruct (Z.leb_spec (- 2 ^ 15) z), (Z.ltb_spec z (2 ^ 15)); cbn [andb]; try (split; [tauto|cbn; lia]).
  all: destruct (Z.leb_spec (- 2 ^ 31) z), (Z.ltb_spec z (2 ^ 31)); cbn [andb]; try (split; [tauto|cbn; lia]).
Qed.

Lemma uint_width_fits v : v < 2 ^ 64 ->
  let w := uint_width v in (w = 1 \/ w = 2 \/ w = 4 \/ w = 8)%nat /\ v < 256 ^ N.of_nat w.
Proof.
  intros Hv. unfold uint_width.
  destruct (N.ltb_spec v (2 ^ 8)); [split; [tauto|cbn; lia]|].
  destruct (N.ltb_spec v (2 ^ 16)); [split; [tauto|cbn; lia]|].
  destruct (N.ltb_spec v (2 ^ 32)); split; try tauto; cbn; lia.
Qed.

(* ------------------------------------------------------------------ C15: need-more = proper prefix of an encoding *)
Lemma wf_repeat0 k : wf_bytes (repeat 0 k).
Proof. induction k; constructor; [reflexivity|assumption]. Qed.

Lemma need_more_prefix buf : wf_bytes buf ->
  (read_vint buf = Ok None <->
   exists L v suf, (1 <= L <= 8)%nat /\ v < 2 ^ (7 * N.of_nat L) /\ suf <> [] /\ buf ++ suf = enc L v).
Proof.
  intros Hwf. rewrite (read_vint_need_more buf Hwf). split.
  - intros [->|(b0 & tl & -> & Hb0 & Hlt)].
    + exists 1%nat, 0, (enc 1 0). split; [lia|]. split; [reflexivity|]. split; [vm_compute; discriminate|reflexivity].
    + inversion Hwf as [|? ? Hb Htl]; subst.
      set (n := vint_len b0) in *. set (k := (n - length (b0 :: tl))%nat).
      assert (Hwf' : wf_bytes (b0 :: tl ++ repeat 0 k)).
      { change (wf_bytes ((b0 :: tl) ++ repeat 0 k)). apply wf_app; [assumption|apply wf_repeat0]. }
      assert (Hlen : length (b0 :: tl ++ repeat 0 k) = n).
      { cbn [length] in *. rewrite app_length, repeat_length. unfold k. cbn [length]. lia. }
      destruct (read_vint_char b0 (tl ++ repeat 0 k) Hwf' Hb0) as (v & Hr & Hv & Hf).
      { fold n. lia. }
      fold n in Hr, Hv, Hf. rewrite firstn_all2 in Hf by lia.
      assert (Hb0r : 0 < b0 < 256) by lia.
      pose proof (vint_len_range b0 Hb0r) as Hn. fold n in Hn.
      exists n, v, (repeat 0 k). repeat split; try lia; auto.
      destruct k eqn:E; [unfold k in E; lia|discriminate].
  - intros (L & v & suf & HL & Hv & Hs & E). destruct buf as [|b0 tl]; [now left|right].
    destruct L as [|w]; [lia|].
    assert (Hw : (S w <= 8)%nat) by lia.
    destruct (enc_hd w v Hw Hv) as (b0' & tl' & He & Hb & Hl).
    rewrite He in E. cbn [app] in E. inversion E; subst b0'.
    exists b0, tl. split; [reflexivity|]. split; [lia|].
    rewrite Hl. pose proof (enc_length (S w) v) as HeL. rewrite He in HeL. cbn [length] in *.
    rewrite <- H1 in HeL. rewrite app_length in HeL. destruct suf; [contradiction|]. cbn [length] in HeL. lia.
Qed.

(* the same for the signed decoder *)
Lemma signed_need_more_prefix buf : wf_bytes buf ->
  (read_signed_vint buf = Ok None <->
   exists L v suf, (1 <= L <= 8)%nat /\ v < 2 ^ (7 * N.of_nat L) /\ suf <> [] /\ buf ++ suf = enc L v).
Proof.
  intros Hwf. rewrite <- (need_more_prefix buf Hwf), (read_signed_vint_unsigned buf Hwf).
  destruct (read_vint buf) as [[[v n]|]|e|]; cbn [map_signed]; split; intros H; try discriminate H; reflexivity.
Qed.

(* the signed decoder never panics: it is the unsigned one followed by a total map *)
Lemma read_signed_vint_nopanic buf : wf_bytes buf -> read_signed_vint buf <> Panic.
Proof.
  intros H. rewrite (read_signed_vint_unsigned buf H). pose proof (read_vint_nopanic buf H) as Hn.
  destruct (read_vint buf) as [[[v n]|]|e|]; cbn [map_signed]; try discriminate. exfalso. apply Hn. reflexivity.
Qed.
