(* C01 (reader half): the abstract reader run on the structural encoding of a conformant document tree yields exactly the
   tree's items, in order, with their offsets, and ends cleanly — for arbitrary nesting of known- and unknown-size masters,
   all payload types, every size-field width.  Scope: specifications whose declared paths are placeholder-free (no global
   elements); see Props/C01.v. *)
From Ebml Require Import Base Tools Spec Reader Pure Writer Encode
  Proofs.Tactics Proofs.BytesProofs Proofs.VintProofs Proofs.SpecProofs Proofs.ReaderIO Proofs.Refine Proofs.PureProofs.

Arguments vint_len : simpl never.
Arguments read_vint : simpl never.
Arguments id_bytes : simpl never.
Arguments unknown_marker : simpl never.
Arguments venc : simpl never.

(* ------------------------------------------------------------------ unfolding the nested definitions *)
Lemma enc_tree_node id sz cs :
  enc_tree (RNode id sz cs) = id_bytes id ++ match sz with Some sl => venc sl (flen cs) | None => unknown_marker end ++ enc_forest cs.
Proof.
  cbn [enc_tree]. unfold flen.
  assert (H : (fix go (l : list rtree) : list N := match l with [] => [] | c :: l' => enc_tree c ++ go l' end) cs = enc_forest cs).
  { induction cs as [|c cs IH]; [reflexivity|]. cbn [enc_forest]. rewrite <- IH. reflexivity. }
  rewrite H. reflexivity.
Qed.

Lemma items_tree_node off id sz cs :
  items_tree off (RNode id sz cs) = OItem (TStart id) off :: items_forest (off + N.of_nat (hdr_len (RNode id sz cs))) cs ++ [OItem (TEnd id) off].
Proof. reflexivity. Qed.

Lemma spine_tree_node off id sz cs :
  spine_tree off (RNode id sz cs) = spine_forest (off + N.of_nat (hdr_len (RNode id sz cs))) cs ++ frame_of off (RNode id sz cs).
Proof. reflexivity. Qed.

Lemma items_open_tree_node off id sz cs :
  items_open_tree off (RNode id sz cs) = OItem (TStart id) off :: items_open_forest (off + N.of_nat (hdr_len (RNode id sz cs))) cs.
Proof. reflexivity. Qed.

Lemma venc_enc L v : venc L v = enc L v.
Proof. reflexivity. Qed.

(* ------------------------------------------------------------------ ids *)
Lemma be_bytes_pad : forall k n v, v < 256 ^ N.of_nat n -> be_bytes (k + n) v = repeat 0 k ++ be_bytes n v.
Proof.
  induction k as [|k IH]; intros n v Hv; [reflexivity|].
  cbn [Nat.add]. rewrite be_bytes_S_hd. rewrite IH by exact Hv. cbn [repeat app]. f_equal.
  assert (Hp : 256 ^ N.of_nat n <= 256 ^ N.of_nat (k + n)) by (apply N.pow_le_mono_r; lia).
  rewrite N.div_small by lia. reflexivity.
Qed.

Lemma skip_zeros_repeat k l : skip_zeros (repeat 0 k ++ l) = skip_zeros l.
Proof. induction k as [|k IH]; [reflexivity|]. cbn [repeat app skip_zeros]. exact IH. Qed.

Lemma pow256_8 n : 256 ^ N.of_nat n = 2 ^ (8 * N.of_nat n).
Proof. replace 256 with (2 ^ 8) by reflexivity. rewrite <- N.pow_mul_r. reflexivity. Qed.

Lemma pow7_8 n : (1 <= n)%nat -> 2 ^ (7 * N.of_nat n) * 2 <= 2 ^ (8 * N.of_nat n).
Proof.
  intros Hn. replace (2 ^ (7 * N.of_nat n) * 2) with (2 ^ (7 * N.of_nat n + 1)) by (rewrite N.pow_add_r; reflexivity).
  apply N.pow_le_mono_r; lia.
Qed.

(* a well-formed id of n bytes is written as exactly those n bytes: marker and value *)
Lemma id_bytes_enc n v : (1 <= n <= 8)%nat -> v < 2 ^ (7 * N.of_nat n) -> id_bytes (v + 2 ^ (7 * N.of_nat n)) = enc n v.
Proof.
  intros Hn Hv. unfold id_bytes, enc. set (id := v + 2 ^ (7 * N.of_nat n)).
  assert (Hid : id < 256 ^ N.of_nat n).
  { unfold id. rewrite pow256_8. pose proof (pow7_8 n ltac:(lia)). lia. }
  replace 8%nat with ((8 - n) + n)%nat by lia. rewrite be_bytes_pad by exact Hid. rewrite skip_zeros_repeat.
  destruct n as [|w]; [lia|]. rewrite be_bytes_S_hd. cbn [skip_zeros].
  assert (Hb : (id / 256 ^ N.of_nat w) mod 256 <> 0).
  { assert (Hlow : 256 ^ N.of_nat w <= id).
    { unfold id. rewrite pow256_8. assert (2 ^ (8 * N.of_nat w) <= 2 ^ (7 * N.of_nat (S w))); [apply N.pow_le_mono_r; lia|lia]. }
    assert (Hq : 1 <= id / 256 ^ N.of_nat w) by (apply N.div_le_lower_bound; lia).
    assert (Hq2 : id / 256 ^ N.of_nat w < 256).
    { apply N.div_lt_upper_bound; [lia|]. rewrite Nsucc_of_nat, N.pow_succ_r' in Hid. lia. }
    rewrite N.mod_small by exact Hq2. lia. }
  destruct (N.eqb_spec ((id / 256 ^ N.of_nat w) mod 256) 0); [contradiction|reflexivity].
Qed.

(* reading the id back *)
Lemma p_tag_id_enc st n v rest : (1 <= n <= 8)%nat -> v < 2 ^ (7 * N.of_nat n) ->
  b_bytes st = enc n v ++ rest -> p_tag_id st = Ok (v + 2 ^ (7 * N.of_nat n), n).
Proof.
  intros Hn Hv Hb. unfold p_tag_id, blen. rewrite Hb.
  destruct n as [|w]; [lia|]. destruct (enc_hd w v ltac:(lia) Hv) as [b0 [tl [He [Hb0 Hl]]]].
  rewrite He. cbn [app]. destruct (N.eqb_spec b0 0); [lia|]. rewrite Hl.
  assert (Hlen : length (enc (S w) v) = S w) by apply enc_length. rewrite He in Hlen.
  cbn [length] in *. rewrite app_length.
  destruct (N.ltb_spec (N.of_nat (S (length tl + length rest))) (N.of_nat (S w))); [lia|].
  f_equal. f_equal. change (b0 :: tl ++ rest) with ((b0 :: tl) ++ rest). rewrite <- He.
  assert (Hf : firstn (S w) (enc (S w) v ++ rest) = enc (S w) v).
  { rewrite firstn_app, enc_length, Nat.sub_diag. rewrite firstn_all2 by (rewrite enc_length; lia). apply app_nil_r. }
  rewrite Hf. unfold enc. rewrite from_be_be.
  apply N.mod_small. rewrite pow256_8. pose proof (pow7_8 (S w) ltac:(lia)). lia.
Qed.

(* ------------------------------------------------------------------ headers *)
Definition idok (id : N) : Prop := exists n v, (1 <= n <= 8)%nat /\ v < 2 ^ (7 * N.of_nat n) /\ id = v + 2 ^ (7 * N.of_nat n).

Lemma idok_is_vint id : is_vint id = true -> idok id.
Proof.
  intros H. apply is_vint_spec in H. destruct H as [n [Hn [Hlo Hhi]]].
  exists n, (id - 2 ^ (7 * N.of_nat n)). split; [exact Hn|]. rewrite N.pow_add_r in Hhi. split; lia.
Qed.

Lemma unknown_marker_enc : unknown_marker = enc 8 (2 ^ 56 - 1).
Proof. reflexivity. Qed.

Definition strict (c : cfg) : Prop := c_allow_id c = false /\ c_allow_hier c = false /\ c_allow_over c = false.

Definition size_ok (c : cfg) (esz : esize) : Prop :=
  match c_max c, esz with Some m, SKnown n => n <= m | _, _ => True end.

(* the parse state after a header has been accepted differs from the one before at most in the "document position
   determined" flag *)
Definition same_but_det (st st' : pst) : Prop :=
  b_bytes st' = b_bytes st /\ b_off st' = b_off st /\ b_stack st' = b_stack st /\ b_queue st' = b_queue st /\
  b_bad st' = b_bad st /\ b_fuel st' = b_fuel st /\ b_det st' = true.

Lemma p_header_conf c st id ty sl size rest :
  strict c -> idok id -> (1 <= sl <= 8)%nat -> size < 2 ^ (7 * N.of_nat sl) -> wf_bytes rest ->
  b_bytes st = id_bytes id ++ venc sl size ++ rest ->
  get_type (c_sp c) id = Some ty -> (is_numeric (Some ty) = true -> size <= 8) ->
  b_bad st = None ->
  ((b_det st = true /\ validate_tag_path (c_sp c) id (stack_view (b_stack st)) = true) \/
   (b_det st = false /\ b_stack st = [] /\ get_path (c_sp c) id = [])) ->
  p_invalid_tag_size st (N.of_nat (length (id_bytes id) + sl) + match ebml_size size sl with SKnown n => n | SUnknown => 0 end) = false ->
  size_ok c (ebml_size size sl) ->
  exists st', p_header c st = (st', Ok (id, Some ty, ebml_size size sl, (length (id_bytes id) + sl)%nat)) /\ same_but_det st st'.
Proof.
  intros [Hid [Hhier Hover]] [n [v [Hn [Hv Heq]]]] Hsl Hsize Hwf Hb Hty Hnum Hbad Hdet Hroom Hmax.
  assert (Hidb : id_bytes id = enc n v) by (rewrite Heq; apply id_bytes_enc; assumption).
  assert (Hidl : length (id_bytes id) = n) by (rewrite Hidb; apply enc_length).
  rewrite p_header_unfold. rewrite Hidb in Hb.
  rewrite (p_tag_id_enc st n v _ Hn Hv Hb). rewrite <- Heq. unfold p_hdr_tail.
  assert (Hsk : skipn n (b_bytes st) = enc sl size ++ rest).
  { rewrite Hb. rewrite skipn_app, enc_length, Nat.sub_diag. rewrite skipn_all2 by (rewrite enc_length; lia). reflexivity. }
  rewrite Hsk.
  assert (Hrv : read_vint (firstn 8 (enc sl size ++ rest)) = Ok (Some (size, sl))).
  { rewrite firstn_app, enc_length. rewrite firstn_all2 by (rewrite enc_length; lia).
    apply decode_encode; [exact Hsl|exact Hsize|apply wf_firstn, Hwf]. }
  rewrite Hrv. rewrite Hty.
  assert (Hnum' : is_numeric (Some ty) && (8 <? size) = false).
  { destruct (is_numeric (Some ty)) eqn:E; [|reflexivity]. specialize (Hnum eq_refl). destruct (N.ltb_spec 8 size); [lia|reflexivity]. }
  rewrite Hnum'. rewrite Hid. cbn [negb andb].
  unfold p_hier_step. rewrite Hhier. cbn [negb andb].
  rewrite Hidl in *.
  destruct Hdet as [[Hd Hv1]|[Hd [Hs Hp]]].
  - rewrite Hd. rewrite Hd, Hv1. cbn [negb andb]. rewrite Hbad. rewrite Hover. cbn [negb andb]. rewrite Hroom.
    exists st. split.
    + unfold size_ok in Hmax. destruct (c_max c) as [m|]; destruct (ebml_size size sl) as [k|]; try reflexivity.
      destruct (N.ltb_spec m k); [lia|reflexivity].
    + repeat split; try reflexivity. exact Hd.
  - rewrite Hd. rewrite Hp. cbn [all_ids forallb implied_stack flat_map rev]. rewrite Hs. cbn [app].
    cbn [pset_stack b_det b_stack andb]. cbn [stack_view map]. unfold validate_tag_path. cbn [count_ended skipn map rev]. rewrite Hp. cbn [path_matches negb].
    cbn [pset_stack b_bad b_off]. rewrite Hbad. rewrite Hover. cbn [negb andb].
    assert (Hroom' : p_invalid_tag_size (pset_stack st [] true) (N.of_nat (n + sl) + match ebml_size size sl with SKnown k => k | SUnknown => 0 end) = false) by reflexivity.
    rewrite Hroom'.
    exists (pset_stack st [] true). split.
    + unfold size_ok in Hmax. destruct (c_max c) as [m|]; destruct (ebml_size size sl) as [k|]; try reflexivity.
      destruct (N.ltb_spec m k); [lia|reflexivity].
    + repeat split; try reflexivity. cbn. symmetry. exact Hs.
Qed.

(* ------------------------------------------------------------------ one tag *)
(* st' is st with the cursor advanced over [consumed] *)
Definition advanced (st st' : pst) (consumed : list N) : Prop :=
  b_bytes st = consumed ++ b_bytes st' /\ b_off st' = b_off st + N.of_nat (length consumed) /\
  b_stack st' = b_stack st /\ b_queue st' = b_queue st /\ b_bad st' = b_bad st /\ b_fuel st' = b_fuel st /\ b_det st' = true.

Lemma splitN_exact : forall (a b : list N), splitN (N.of_nat (length a)) (a ++ b) = (a, b).
Proof.
  induction a as [|x a IH]; intros b; [destruct b; reflexivity|].
  cbn [length app splitN]. destruct (N.eqb_spec (N.of_nat (S (length a))) 0); [lia|].
  replace (N.pred (N.of_nat (S (length a)))) with (N.of_nat (length a)) by lia. rewrite IH. reflexivity.
Qed.

Lemma pconsume_exact st st1 a b : same_but_det st st1 -> b_bytes st = a ++ b ->
  advanced st (pconsume st1 (N.of_nat (length a))) a /\ b_bytes (pconsume st1 (N.of_nat (length a))) = b.
Proof.
  intros [H1 [H2 [H3 [H4 [H5 [H6 H7]]]]]] Hb. unfold pconsume, advanced. cbn. rewrite H1, Hb, splitN_exact. cbn [snd].
  repeat split; try assumption; try reflexivity. rewrite H2. reflexivity.
Qed.

Definition numeric_len_ok (ty : dtype) (pl : list N) : Prop := is_numeric (Some ty) = true -> N.of_nat (length pl) <= 8.

Lemma decodes_numeric ty pl v : decodes (Some ty) pl v -> numeric_len_ok ty pl.
Proof.
  unfold numeric_len_ok. destruct ty, v; cbn; try contradiction; try discriminate; intros H _.
  - unfold arr_to_u64 in H. destruct (Nat.ltb_spec 8 (length pl)); [discriminate|lia].
  - unfold arr_to_i64 in H. destruct (Nat.ltb_spec 8 (length pl)); [discriminate|lia].
  - unfold arr_to_f64 in H. destruct (Nat.eqb_spec (length pl) 4); [lia|]. destruct (Nat.eqb_spec (length pl) 8); [lia|discriminate].
Qed.

Lemma ebml_size_known size sl : size < 2 ^ (7 * N.of_nat sl) - 1 -> ebml_size size sl = SKnown size.
Proof. intros H. unfold ebml_size. destruct (N.eqb_spec size (2 ^ (7 * N.of_nat sl) - 1)); [lia|reflexivity]. Qed.

Definition hier_ok (c : cfg) (st : pst) (id : N) : Prop :=
  (b_det st = true /\ validate_tag_path (c_sp c) id (stack_view (b_stack st)) = true) \/
  (b_det st = false /\ b_stack st = [] /\ get_path (c_sp c) id = []).

(* reading an encoded leaf element *)
Lemma read_leaf c st id ty v pl sl rest :
  strict c -> idok id -> (1 <= sl <= 8)%nat -> N.of_nat (length pl) < 2 ^ (7 * N.of_nat sl) - 1 -> wf_bytes pl -> wf_bytes rest ->
  b_bytes st = enc_tree (RLeaf id v pl sl) ++ rest ->
  get_type (c_sp c) id = Some ty -> ty <> DMaster -> decodes (Some ty) pl v ->
  b_bad st = None -> hier_ok c st id ->
  p_invalid_tag_size st (N.of_nat (length (id_bytes id) + sl) + N.of_nat (length pl)) = false ->
  size_ok c (SKnown (N.of_nat (length pl))) ->
  exists st', p_read_tag c st = (st', Ok {| p_tag := TElem id v; p_size := SKnown (N.of_nat (length pl)); p_start := b_off st;
                                            p_data := b_off st + N.of_nat (length (id_bytes id) + sl) |}) /\
              advanced st st' (enc_tree (RLeaf id v pl sl)) /\ b_bytes st' = rest.
Proof.
  intros Hstrict Hidok Hsl Hsize Hwfp Hwfr Hb Hty Hnm Hdec Hbad Hhier Hroom Hmax.
  cbn [enc_tree] in Hb. rewrite <- !app_assoc in Hb.
  assert (Hsz : N.of_nat (length pl) < 2 ^ (7 * N.of_nat sl)) by lia.
  pose proof (ebml_size_known _ _ Hsize) as Hes.
  destruct (p_header_conf c st id ty sl (N.of_nat (length pl)) (pl ++ rest) Hstrict Hidok Hsl Hsz (wf_app _ _ Hwfp Hwfr) Hb Hty
              (decodes_numeric ty pl v Hdec) Hbad Hhier ltac:(rewrite Hes; exact Hroom) ltac:(rewrite Hes; exact Hmax)) as [st1 [Hh Hsame]].
  rewrite p_read_tag_unfold, Hh. unfold p_tag_tail. rewrite Hes.
  assert (Hhl : length (id_bytes id ++ venc sl (N.of_nat (length pl))) = (length (id_bytes id) + sl)%nat)
    by (rewrite app_length; unfold venc; rewrite be_bytes_length; reflexivity).
  rewrite app_assoc in Hb.
  destruct (pconsume_exact st st1 _ _ Hsame Hb) as [Hadv Hbytes]. rewrite Hhl in Hadv, Hbytes.
  set (stc := pconsume st1 (N.of_nat (length (id_bytes id) + sl))) in *.
  assert (Hoffc : b_off stc = b_off st + N.of_nat (length (id_bytes id) + sl)).
  { destruct Hadv as [_ [Ho _]]. rewrite Ho, Hhl. reflexivity. }
  assert (Hlt : (blen stc <? N.of_nat (length pl)) = false).
  { unfold blen. rewrite Hbytes, app_length. destruct (N.ltb_spec (N.of_nat (length pl + length rest)) (N.of_nat (length pl))); [lia|reflexivity]. }
  assert (Hraw : fst (splitN (N.of_nat (length pl)) (b_bytes stc)) = pl) by (rewrite Hbytes, splitN_exact; reflexivity).
  assert (Hsame2 : same_but_det stc stc).
  { destruct Hadv as [_ [_ [A [B [C [D E]]]]]]. repeat split; try reflexivity. exact E. }
  destruct (pconsume_exact stc stc pl rest Hsame2 Hbytes) as [Hadv2 Hbytes2].
  set (st2 := pconsume stc (N.of_nat (length pl))) in *.
  assert (Hfinal : advanced st st2 ((id_bytes id ++ venc sl (N.of_nat (length pl))) ++ pl)).
  { destruct Hadv as [A1 [A2 [A3 [A4 [A5 [A6 A7]]]]]]. destruct Hadv2 as [B1 [B2 [B3 [B4 [B5 [B6 B7]]]]]].
    unfold advanced. split; [rewrite A1 at 1; rewrite B1; apply app_assoc|]. split; [rewrite B2, A2, !app_length; lia|].
    split; [congruence|]. split; [congruence|]. split; [congruence|]. split; [congruence|exact B7]. }
  assert (Henc : (id_bytes id ++ venc sl (N.of_nat (length pl))) ++ pl = enc_tree (RLeaf id v pl sl))
    by (cbn [enc_tree]; rewrite <- app_assoc; reflexivity).
  rewrite Henc in Hfinal.
  exists st2. split; [|split; [exact Hfinal|exact Hbytes2]].
  rewrite Hoffc.
  destruct ty; try contradiction; rewrite Hlt, Hraw; destruct v; cbn [decodes] in Hdec; try contradiction.
  - rewrite Hdec. reflexivity.
  - rewrite Hdec. reflexivity.
  - destruct Hdec as [-> Hu]. rewrite Hu. reflexivity.
  - subst bs. reflexivity.
  - rewrite Hdec. reflexivity.
Qed.

Definition node_esz (sz : option nat) (cs : list rtree) : esize :=
  match sz with Some _ => SKnown (flen cs) | None => SUnknown end.
Definition node_field (sz : option nat) (cs : list rtree) : list N :=
  match sz with Some sl => venc sl (flen cs) | None => unknown_marker end.
Definition node_sl (sz : option nat) : nat := match sz with Some sl => sl | None => 8%nat end.

Lemma hdr_len_node id sz cs : hdr_len (RNode id sz cs) = (length (id_bytes id) + node_sl sz)%nat.
Proof. destruct sz; reflexivity. Qed.

(* reading the header of an encoded master *)
Lemma read_start c st id sz cs rest :
  strict c -> idok id -> wf_bytes rest ->
  (forall sl, sz = Some sl -> (1 <= sl <= 8)%nat /\ flen cs < 2 ^ (7 * N.of_nat sl) - 1) ->
  b_bytes st = id_bytes id ++ node_field sz cs ++ rest ->
  get_type (c_sp c) id = Some DMaster ->
  b_bad st = None -> hier_ok c st id ->
  p_invalid_tag_size st (N.of_nat (length (id_bytes id) + node_sl sz) + match node_esz sz cs with SKnown n => n | SUnknown => 0 end) = false ->
  size_ok c (node_esz sz cs) ->
  exists st', p_read_tag c st = (st', Ok {| p_tag := TStart id; p_size := node_esz sz cs; p_start := b_off st;
                                            p_data := b_off st + N.of_nat (length (id_bytes id) + node_sl sz) |}) /\
              advanced st st' (id_bytes id ++ node_field sz cs) /\ b_bytes st' = rest.
Proof.
  intros Hstrict Hidok Hwfr Hsz Hb Hty Hbad Hhier Hroom Hmax.
  assert (Hx : exists sl size, (1 <= sl <= 8)%nat /\ size < 2 ^ (7 * N.of_nat sl) /\ node_field sz cs = venc sl size /\
                               ebml_size size sl = node_esz sz cs /\ node_sl sz = sl).
  { destruct sz as [sl|].
    - destruct (Hsz sl eq_refl) as [H1 H2]. exists sl, (flen cs). split; [exact H1|]. split; [lia|]. split; [reflexivity|].
      split; [apply ebml_size_known, H2|reflexivity].
    - exists 8%nat, (2 ^ 56 - 1). split; [lia|]. split; [reflexivity|]. split; [reflexivity|]. split; reflexivity. }
  destruct Hx as [sl [size [Hsl [Hsize [Hfield [Hes Hnsl]]]]]]. rewrite Hfield in Hb. rewrite Hnsl in *.
  destruct (p_header_conf c st id DMaster sl size rest Hstrict Hidok Hsl Hsize Hwfr Hb Hty ltac:(discriminate) Hbad Hhier
              ltac:(rewrite Hes; exact Hroom) ltac:(rewrite Hes; exact Hmax)) as [st1 [Hh Hsame]].
  rewrite p_read_tag_unfold, Hh. unfold p_tag_tail. rewrite Hes.
  assert (Hhl : length (id_bytes id ++ venc sl size) = (length (id_bytes id) + sl)%nat)
    by (rewrite app_length; unfold venc; rewrite be_bytes_length; reflexivity).
  rewrite app_assoc in Hb.
  destruct (pconsume_exact st st1 _ _ Hsame Hb) as [Hadv Hbytes]. rewrite Hhl in Hadv, Hbytes.
  set (stc := pconsume st1 (N.of_nat (length (id_bytes id) + sl))) in *.
  assert (Hoffc : b_off stc = b_off st + N.of_nat (length (id_bytes id) + sl)).
  { destruct Hadv as [_ [Ho _]]. rewrite Ho, Hhl. reflexivity. }
  exists stc. rewrite Hoffc, Hfield. split; [reflexivity|]. split; [exact Hadv|exact Hbytes].
Qed.

(* ------------------------------------------------------------------ the stack of open masters *)
Definition unknownF (f : frame) : Prop := f_size f = SUnknown.
(* a pending frame: its End has not been emitted yet although its bytes end at pos (known size) or it has unknown size *)
Definition pendF (pos : N) (f : frame) : Prop := f_size f = SUnknown \/ exists n, f_size f = SKnown n /\ f_data f + n = pos.

Lemma exh_none pos : forall stk, Forall (fun f => frame_exhausted pos f = false) stk -> exhausted_count pos stk = O.
Proof. induction stk as [|f tl IH]; intros H; cbn [exhausted_count]; [reflexivity|]. inversion H as [|? ? Hf Ht]; subst. rewrite IH by exact Ht. cbn. rewrite Hf. reflexivity. Qed.
Lemma exh_le pos : forall stk, (exhausted_count pos stk <= length stk)%nat.
Proof. induction stk as [|f tl IH]; cbn [exhausted_count length]; [lia|]. destruct (0 <? _)%nat; [lia|]. destruct (frame_exhausted pos f); lia. Qed.
Lemma exh_app pos : forall T stk, exhausted_count pos stk = O -> exhausted_count pos (T ++ stk) = exhausted_count pos T.
Proof. induction T as [|f tl IH]; intros stk H; cbn [app exhausted_count]; [exact H|]. rewrite IH by exact H. reflexivity. Qed.
Lemma exh_rest pos : forall T, Forall (fun f => frame_exhausted pos f = false) (skipn (exhausted_count pos T) T).
Proof.
  induction T as [|f tl IH]; cbn [exhausted_count]; [constructor|].
  destruct (exhausted_count pos tl) as [|k] eqn:E; cbn [Nat.ltb Nat.leb].
  - destruct (frame_exhausted pos f) eqn:Ef; cbn [skipn]; [exact IH|constructor; assumption].
  - cbn [skipn]. exact IH.
Qed.
Lemma pend_not_exh pos f : pendF pos f -> frame_exhausted pos f = false -> unknownF f.
Proof.
  intros [H|[n [H Hn]]] He; [exact H|]. unfold frame_exhausted in He. rewrite H in He.
  destruct (N.leb_spec (f_data f + n) pos); [discriminate|lia].
Qed.

Lemma stack_view_app a b : stack_view (a ++ b) = stack_view a ++ stack_view b.
Proof. unfold stack_view. apply map_app. Qed.

Lemma count_none sp x : forall stk, Forall (fun f => is_ended_by sp (f_id f) x = false) stk -> count_ended sp x (stack_view stk) = O.
Proof.
  induction stk as [|f tl IH]; intros H; cbn [stack_view map count_ended]; [reflexivity|]. inversion H as [|? ? Hf Ht]; subst.
  destruct (frame_known f); [reflexivity|]. fold (stack_view tl). rewrite IH by exact Ht. cbn. rewrite Hf. reflexivity.
Qed.

Lemma unknown_view f : unknownF f -> frame_known f = false.
Proof. unfold unknownF, frame_known. intros ->. reflexivity. Qed.

Lemma count_all sp x d : forall T stk, T <> [] -> Forall unknownF T -> is_ended_by sp (f_id (last T d)) x = true ->
  count_ended sp x (stack_view stk) = O -> count_ended sp x (stack_view (T ++ stk)) = length T.
Proof.
  induction T as [|f tl IH]; intros stk Hne Hu He Hs; [congruence|].
  inversion Hu as [|? ? Hf Htl]; subst. cbn [app stack_view map count_ended]. rewrite (unknown_view f Hf).
  fold (stack_view (tl ++ stk)). destruct tl as [|g tl'].
  - cbn [app]. rewrite Hs. cbn. cbn in He. rewrite He. reflexivity.
  - rewrite (IH stk) by (try congruence; assumption). cbn [length]. reflexivity.
Qed.

Lemma skipn_app_le {A} (l1 l2 : list A) k : (k <= length l1)%nat -> skipn k (l1 ++ l2) = skipn k l1 ++ l2.
Proof. intros. rewrite skipn_app. replace (k - length l1)%nat with O by lia. reflexivity. Qed.
Lemma firstn_app_le {A} (l1 l2 : list A) k : (k <= length l1)%nat -> firstn k (l1 ++ l2) = firstn k l1.
Proof. intros. rewrite firstn_app. replace (k - length l1)%nat with O by lia. cbn. apply app_nil_r. Qed.
Lemma in_skipn {A} : forall (l : list A) k x, In x (skipn k l) -> In x l.
Proof. induction l as [|a l IH]; intros k x H; destruct k; cbn in *; auto. right. eapply IH; eauto. Qed.
Lemma last_skipn {A} : forall (l : list A) k d, (k < length l)%nat -> last (skipn k l) d = last l d.
Proof.
  induction l as [|a l IH]; intros k d H; cbn in H; [lia|]. destruct k; [reflexivity|]. cbn [skipn].
  rewrite IH by lia. destruct l; [cbn in H; lia|reflexivity].
Qed.

(* ---- the chain of open masters below the pending ones *)
Definition ids_of (stk : list frame) : list N := rev (map f_id stk).   (* outermost first *)

(* every open master's declared path is the chain of masters below it *)
Definition chain_paths (sp : spec) (ids : list N) : Prop :=
  forall i a, nth_error ids i = Some a -> get_path sp a = map PId (firstn i ids).

Definition room (stk : list frame) (e : N) : Prop :=
  Forall (fun f => match f_size f with SKnown n => e <= f_data f + n | SUnknown => True end) stk.

Lemma part_eqb_refl p : part_eqb p p = true.
Proof. destruct p as [i|a b]; cbn; [apply N.eqb_refl|]. destruct a, b; cbn; rewrite ?N.eqb_refl; reflexivity. Qed.

Lemma list_eqb_len {A} (eqb : A -> A -> bool) : forall a b, list_eqb eqb a b = true -> length a = length b.
Proof. induction a as [|x a IH]; intros [|y b] H; cbn in *; try discriminate; [reflexivity|]. apply Bool.andb_true_iff in H. f_equal. apply IH, H. Qed.

(* an element whose path is the whole chain ends none of the masters of the chain *)
Lemma chain_not_ended sp ids x : chain_paths sp ids -> get_path sp x = map PId ids -> get_type sp x <> None ->
  forall i a, nth_error ids i = Some a -> is_ended_by sp a x = false.
Proof.
  intros Hc Hx Hty i a Hi. pose proof (Hc i a Hi) as Hpa.
  assert (Hlt : (i < length ids)%nat) by (apply nth_error_Some; congruence).
  unfold is_ended_by. rewrite !Bool.orb_false_iff. split; [split|].
  - (* parent *) unfold is_parent. rewrite Hpa. apply Bool.not_true_is_false. intros H. apply existsb_exists in H.
    destruct H as [p [Hin Hp]]. apply in_map_iff in Hin. destruct Hin as [b [<- Hb]]. apply N.eqb_eq in Hp. subst b.
    apply In_nth_error in Hb. destruct Hb as [j Hj].
    assert (Hjlt : (j < i)%nat).
    { assert (j < length (firstn i ids))%nat by (apply nth_error_Some; congruence). rewrite firstn_length in H. lia. }
    assert (Hj' : nth_error ids j = Some x).
    { rewrite <- (firstn_skipn i ids). rewrite nth_error_app1 by (rewrite firstn_length; lia). exact Hj. }
    pose proof (Hc j x Hj') as Hpx. rewrite Hx in Hpx. apply (f_equal (@length part)) in Hpx. rewrite !map_length, firstn_length in Hpx. lia.
  - (* sibling *) unfold is_sibling. apply Bool.andb_false_iff. right. apply Bool.not_true_is_false. intros H.
    apply list_eqb_len in H. rewrite Hpa, Hx, !map_length, firstn_length in H. lia.
  - (* root *) unfold is_root. destruct (get_type sp x); [|reflexivity]. rewrite Hx. destruct ids; [cbn in Hlt; lia|reflexivity].
Qed.

Lemma path_matches_ids ids : path_matches (map PId ids) ids = true.
Proof. induction ids as [|a ids IH]; [reflexivity|]. cbn [map path_matches]. rewrite N.eqb_refl, IH. reflexivity. Qed.

Lemma list_eqb_refl ps : list_eqb part_eqb ps ps = true.
Proof. induction ps as [|p ps IH]; [reflexivity|]. cbn. rewrite part_eqb_refl, IH. reflexivity. Qed.

(* a following sibling (same declared path, known to the specification) ends the master *)
Lemma sibling_ends sp s x : get_path sp s = get_path sp x -> get_type sp x <> None -> is_ended_by sp s x = true.
Proof.
  intros Hp Hty. unfold is_ended_by, is_sibling. rewrite Hp, list_eqb_refl. destruct (get_type sp x); [|contradiction].
  cbn. rewrite Bool.orb_true_r. reflexivity.
Qed.

(* ------------------------------------------------------------------ running: draining the queue, refilling it *)
Definition q_ok (q : list (tag * N)) : list qitem := map (fun x => QOk (fst x) (snd x)) q.
Definition o_ok (q : list (tag * N)) : list rout := map (fun x => OItem (fst x) (snd x)) q.

(* same parse state, possibly different queue / last-offset *)
Definition same_parse (st st' : pst) : Prop :=
  b_bytes st' = b_bytes st /\ b_off st' = b_off st /\ b_stack st' = b_stack st /\ b_det st' = b_det st /\
  b_bad st' = b_bad st /\ b_fuel st' = b_fuel st.

Lemma p_next_pop c st t o q' : b_queue st = QOk t o :: q' -> p_next c st = (pset_last (pset_queue st q') o, NItem t o).
Proof. intros H. unfold p_next. rewrite H. cbn iota. rewrite H. reflexivity. Qed.

(* prefixing the outputs of a run *)
Definition rcat (outs : list rout) (r : pst * list rout) : pst * list rout := (fst r, outs ++ snd r).
Lemma rcat_rcat a b r : rcat a (rcat b r) = rcat (a ++ b) r.
Proof. unfold rcat. cbn [fst snd]. rewrite app_assoc. reflexivity. Qed.
Lemma rcat_nil r : rcat [] r = r.
Proof. destruct r; reflexivity. Qed.

Lemma drain c : forall q st, b_queue st = q_ok q -> b_bad st = None ->
  exists st0, same_parse st st0 /\ b_queue st0 = [] /\
              forall n, p_run_all (length q + n) c st = rcat (o_ok q) (p_run_all n c st0).
Proof.
  induction q as [|[t o] q IH]; intros st Hq Hb.
  - exists st. split; [repeat split|]. split; [exact Hq|]. intros n. cbn [q_ok o_ok map length Nat.add]. symmetry. apply rcat_nil.
  - cbn [q_ok map fst snd] in Hq.
    set (st1 := pset_last (pset_queue st (q_ok q)) o).
    destruct (IH st1 eq_refl Hb) as [st0 [Hsame [Hq0 Hrun]]].
    exists st0. split; [exact Hsame|]. split; [exact Hq0|]. intros n.
    cbn [length Nat.add p_run_all]. rewrite (p_next_pop c st t o (q_ok q) Hq). fold st1.
    assert (Hb1 : b_bad st1 = None) by exact Hb. rewrite Hb1.
    specialize (Hrun n). rewrite Hrun. unfold rcat. cbn [fst snd o_ok map]. reflexivity.
Qed.

Lemma run_refill c st n : b_queue st = [] -> b_queue (p_read_next (b_fuel st) c st) <> [] ->
  b_fuel (p_read_next (b_fuel st) c st) = b_fuel st ->
  p_run_all (S n) c st = p_run_all (S n) c (p_read_next (b_fuel st) c st).
Proof.
  intros Hq Hne Hf. set (st1 := p_read_next (b_fuel st) c st) in *.
  assert (Hn : p_next c st = p_next c st1).
  { unfold p_next. rewrite Hq. cbn iota. fold st1. destruct (b_queue st1) eqn:E; [contradiction|]. cbn iota. rewrite E. reflexivity. }
  cbn [p_run_all]. rewrite Hn. reflexivity.
Qed.

(* ---- what one parse step does to a state whose pending frames T sit above the chain stk *)
Record step_pre (c : cfg) (st : pst) (T stk : list frame) (ids : list N) (x : N) (total : N) : Prop := {
  sp_stack : b_stack st = T ++ stk;
  sp_queue : b_queue st = [];
  sp_bad : b_bad st = None;
  sp_fuel : (1 <= b_fuel st)%nat;
  sp_det : b_det st = true \/ (T = [] /\ stk = [] /\ ids = []);
  sp_pend : Forall (pendF (b_off st)) T;
  sp_sib : forall d, T <> [] -> get_path (c_sp c) (f_id (last T d)) = map PId ids;
  sp_ids : ids_of stk = ids;
  sp_chain : chain_paths (c_sp c) ids;
  sp_room : room stk (b_off st + total);
  sp_pos : 0 < total;
  sp_path : get_path (c_sp c) x = map PId ids;
  sp_type : get_type (c_sp c) x <> None;
  sp_nobuf : c_buffered c = []
}.

Lemma room_not_exhausted stk pos total : room stk (pos + total) -> 0 < total -> Forall (fun f => frame_exhausted pos f = false) stk.
Proof.
  intros Hr Hp. unfold room in Hr. rewrite Forall_forall in *. intros f Hin. specialize (Hr f Hin). unfold frame_exhausted.
  destruct (f_size f) as [n|]; [|reflexivity]. destruct (N.leb_spec (f_data f + n) pos); [lia|reflexivity].
Qed.

Lemma nth_ids stk i a : nth_error (ids_of stk) i = Some a -> exists f, In f stk /\ f_id f = a.
Proof.
  unfold ids_of. intros H. apply nth_error_In in H. apply in_rev in H. apply in_map_iff in H. destruct H as [f [Hf Hin]]. exists f. split; assumption.
Qed.

Lemma chain_frames_not_ended c stk ids x : ids_of stk = ids -> chain_paths (c_sp c) ids -> get_path (c_sp c) x = map PId ids ->
  get_type (c_sp c) x <> None -> Forall (fun f => is_ended_by (c_sp c) (f_id f) x = false) stk.
Proof.
  intros Hids Hc Hp Hty. apply Forall_forall. intros f Hin.
  assert (Hin' : In (f_id f) ids) by (rewrite <- Hids; unfold ids_of; apply -> in_rev; apply in_map; exact Hin).
  apply In_nth_error in Hin'. destruct Hin' as [i Hi]. eapply chain_not_ended; eassumption.
Qed.

(* the pending frames, and nothing else, are popped by the step that reads the next element x *)
Lemma pop_pending c st T stk ids x total : step_pre c st T stk ids x total ->
  let k1 := exhausted_count (b_off st) (T ++ stk) in
  let stk1 := skipn k1 (T ++ stk) in
  let k2 := count_ended (c_sp c) x (stack_view stk1) in
  map end_item (firstn k1 (T ++ stk)) ++ map end_item (firstn k2 stk1) = map end_item T /\ skipn k2 stk1 = stk /\
  (k1 <= length T)%nat /\ Forall unknownF (firstn k2 stk1) /\ stk1 = skipn k1 T ++ stk.
Proof.
  intros H. destruct H as [Hs Hq Hb Hf Hd Hpend Hsib Hids Hchain Hroom Hpos Hpath Hty Hnb]. cbn zeta.
  pose proof (room_not_exhausted _ _ _ Hroom Hpos) as Hne.
  rewrite (exh_app _ T stk (exh_none _ stk Hne)).
  set (k1 := exhausted_count (b_off st) T).
  assert (Hk1 : (k1 <= length T)%nat) by apply exh_le.
  rewrite (skipn_app_le T stk k1 Hk1), (firstn_app_le T stk k1 Hk1).
  set (T1 := skipn k1 T).
  assert (HT1u : Forall unknownF T1).
  { apply Forall_forall. intros f Hin. apply (pend_not_exh (b_off st)).
    - rewrite Forall_forall in Hpend. apply Hpend. eapply in_skipn, Hin.
    - pose proof (exh_rest (b_off st) T) as Hr. rewrite Forall_forall in Hr. apply Hr, Hin. }
  pose proof (chain_frames_not_ended c stk ids x Hids Hchain Hpath Hty) as Hstk.
  pose proof (count_none (c_sp c) x stk Hstk) as Hc0.
  destruct T1 as [|g T1'] eqn:ET1.
  - cbn [app]. rewrite Hc0. cbn [firstn skipn map]. rewrite app_nil_r.
    split; [|split; [reflexivity|split; [exact Hk1|split; [constructor|reflexivity]]]].
    assert (HTk : firstn k1 T = T).
    { rewrite <- (firstn_skipn k1 T) at 2. fold T1. rewrite ET1, app_nil_r. reflexivity. }
    rewrite HTk. reflexivity.
  - assert (Hlt : (k1 < length T)%nat).
    { destruct (Nat.lt_ge_cases k1 (length T)); [assumption|]. unfold T1 in ET1. rewrite skipn_all2 in ET1 by lia. discriminate. }
    assert (Hne1 : g :: T1' <> []) by discriminate.
    assert (Hlast : is_ended_by (c_sp c) (f_id (last (g :: T1') g)) x = true).
    { rewrite <- ET1. unfold T1. rewrite last_skipn by exact Hlt. apply sibling_ends; [|exact Hty].
      rewrite Hpath. apply Hsib. intros E. rewrite E in Hlt. cbn in Hlt. lia. }
    rewrite (count_all (c_sp c) x g (g :: T1') stk Hne1 HT1u Hlast Hc0).
    rewrite (firstn_app_le (g :: T1') stk _ (le_n _)), firstn_all.
    rewrite (skipn_app_le (g :: T1') stk _ (le_n _)), skipn_all. cbn [app].
    split; [|split; [reflexivity|split; [exact Hk1|split; [exact HT1u|reflexivity]]]].
    rewrite <- map_app. f_equal. rewrite <- ET1. unfold T1. apply firstn_skipn.
Qed.

Lemma skipn_map {A B} (f : A -> B) : forall k l, skipn k (map f l) = map f (skipn k l).
Proof. induction k; intros [|x l]; cbn; auto. Qed.

Lemma stack_view_skipn k l : skipn k (stack_view l) = stack_view (skipn k l).
Proof. unfold stack_view. apply skipn_map. Qed.

Lemma stack_view_ids stk : rev (map fst (stack_view stk)) = ids_of stk.
Proof. unfold stack_view, ids_of. rewrite map_map. reflexivity. Qed.

(* the state after the exhausted masters have been popped, ready to read x *)
Lemma prep c st T stk ids x total : step_pre c st T stk ids x total ->
  let k1 := exhausted_count (b_off st) (b_stack st) in
  let st_a := ppop_frames st k1 in
  b_bytes st_a = b_bytes st /\ b_off st_a = b_off st /\ b_bad st_a = None /\ b_det st_a = b_det st /\ b_fuel st_a = b_fuel st /\
  b_queue st_a = map end_item (firstn k1 (T ++ stk)) /\ b_stack st_a = skipn k1 (T ++ stk) /\
  hier_ok c st_a x /\ (forall sz, sz <= total -> p_invalid_tag_size st_a sz = false).
Proof.
  intros H. pose proof (pop_pending c st T stk ids x total H) as Hp. cbn zeta in Hp.
  destruct Hp as [Hends [Hskip [Hk1 [Hunk Hstk1]]]].
  destruct H as [Hs Hq Hb Hf Hd Hpend Hsib Hids Hchain Hroom Hpos Hpath Hty Hnb]. cbn zeta. rewrite Hs.
  set (k1 := exhausted_count (b_off st) (T ++ stk)) in *.
  unfold ppop_frames, ppush_q, pset_queue, pset_stack. cbn [b_bytes b_off b_bad b_det b_fuel b_queue b_stack]. rewrite Hs, Hq. cbn [app].
  split; [reflexivity|]. split; [reflexivity|]. split; [exact Hb|]. split; [reflexivity|]. split; [reflexivity|]. split; [reflexivity|].
  split; [reflexivity|]. split.
  - unfold hier_ok. cbn [b_det b_stack]. destruct Hd as [Hd|[HT [Hk Hi]]].
    + left. split; [exact Hd|]. unfold validate_tag_path. rewrite stack_view_skipn, Hskip, stack_view_ids, Hids, Hpath. apply path_matches_ids.
    + destruct (b_det st) eqn:Ed.
      * left. split; [reflexivity|]. unfold validate_tag_path. rewrite stack_view_skipn, Hskip, stack_view_ids, Hids, Hpath. apply path_matches_ids.
      * right. split; [reflexivity|]. subst T stk ids. cbn. split; [destruct k1; reflexivity|exact Hpath].
  - intros sz Hsz. unfold p_invalid_tag_size. cbn [b_stack b_off]. rewrite Hstk1.
    apply Bool.not_true_is_false. intros Hex. apply existsb_exists in Hex. destruct Hex as [f [Hin Hf']].
    apply in_app_or in Hin. destruct Hin as [Hin|Hin].
    + (* a pending frame that was not exhausted has unknown size *)
      assert (Hu : unknownF f).
      { apply (pend_not_exh (b_off st)).
        - rewrite Forall_forall in Hpend. apply Hpend. eapply in_skipn, Hin.
        - pose proof (exh_rest (b_off st) T) as Hr. rewrite Forall_forall in Hr. apply Hr.
          pose proof (room_not_exhausted _ _ _ Hroom Hpos) as Hne.
          unfold k1 in Hin. rewrite (exh_app _ T stk (exh_none _ stk Hne)) in Hin. exact Hin. }
      rewrite Hu in Hf'. discriminate.
    + unfold room in Hroom. rewrite Forall_forall in Hroom. specialize (Hroom f Hin).
      destruct (f_size f) as [n|]; [|discriminate]. apply N.ltb_lt in Hf'. lia.
Qed.

Definition new_frame (p : ptag) : list frame :=
  match p_tag p with
  | TStart _ => [{| f_id := tag_id (p_tag p); f_size := p_size p; f_start := p_start p; f_data := p_data p |}]
  | _ => []
  end.

(* one refill of the queue: the pending masters end, then the element that was read *)
Lemma finish_step c st T stk ids x total p st_b consumed :
  step_pre c st T stk ids x total ->
  p_read_tag c (ppop_frames st (exhausted_count (b_off st) (b_stack st))) = (st_b, Ok p) ->
  advanced (ppop_frames st (exhausted_count (b_off st) (b_stack st))) st_b consumed -> consumed <> [] ->
  tag_id (p_tag p) = x -> p_start p = b_off st ->
  let st' := p_read_next (b_fuel st) c st in
  b_bytes st' = b_bytes st_b /\ b_off st' = b_off st_b /\ b_stack st' = new_frame p ++ stk /\
  b_queue st' = map end_item T ++ [QOk (p_tag p) (b_off st)] /\ b_bad st' = None /\ b_fuel st' = b_fuel st /\ b_det st' = true.
Proof.
  intros H Hread Hadv Hne Hx Hstart.
  pose proof (prep c st T stk ids x total H) as Hprep. cbn zeta in Hprep.
  pose proof (pop_pending c st T stk ids x total H) as Hp. cbn zeta in Hp.
  destruct Hp as [Hends [Hskip [Hk1 [Hunk Hstk1]]]].
  destruct H as [Hs Hq Hb Hf Hd Hpend Hsib Hids Hchain Hroom Hpos Hpath Hty Hnb].
  rewrite Hs in *.
  set (st_a := ppop_frames st (exhausted_count (b_off st) (T ++ stk))) in *.
  destruct Hprep as [Ha1 [Ha2 [Ha3 [Ha4 [Ha5 [Ha6 [Ha7 _]]]]]]].
  destruct Hadv as [Hb1 [Hb2 [Hb3 [Hb4 [Hb5 [Hb6 Hb7]]]]]].
  cbn zeta. destruct (b_fuel st) as [|f] eqn:Ef; [lia|].
  rewrite p_read_next_unfold. cbn zeta. rewrite Hs. fold st_a.
  unfold p_read_tag_checked. rewrite Hb1. destruct consumed as [|c0 consumed]; [contradiction|]. cbn [app]. 
  rewrite <- (app_comm_cons consumed (b_bytes st_b) c0) in Hb1.
  change (let (st2, r) := p_read_tag c st_a in (st2, Some r)) with (let (st2, r) := p_read_tag c st_a in (st2, Some r)).
  rewrite Hread. rewrite Hx. rewrite Hb3, Ha7.
  set (k2 := count_ended (c_sp c) x (stack_view (skipn (exhausted_count (b_off st) (T ++ stk)) (T ++ stk)))) in *.
  assert (Hq3 : b_queue (ppop_frames st_b k2) = map end_item T).
  { unfold ppop_frames, ppush_q, pset_queue, pset_stack. cbn [b_queue b_stack]. rewrite Hb4, Ha6, Hb3, Ha7. exact Hends. }
  assert (Hs3 : b_stack (ppop_frames st_b k2) = stk).
  { unfold ppop_frames, ppush_q, pset_queue, pset_stack. cbn [b_queue b_stack]. rewrite Hb3, Ha7. exact Hskip. }
  assert (Ho3 : forall st0 k, b_bytes (ppop_frames st0 k) = b_bytes st0 /\ b_off (ppop_frames st0 k) = b_off st0 /\
                               b_bad (ppop_frames st0 k) = b_bad st0 /\ b_fuel (ppop_frames st0 k) = b_fuel st0 /\ b_det (ppop_frames st0 k) = b_det st0).
  { intros; repeat split. }
  destruct (Ho3 st_b k2) as [Hc1 [Hc2 [Hc3 [Hc4 Hc5]]]].
  unfold new_frame. rewrite Hx.
  destruct (p_tag p) eqn:Et.
  - unfold ppush_q, pset_queue. cbn [b_bytes b_off b_stack b_queue b_bad b_fuel b_det]. rewrite Hq3, Hs3, Hc1, Hc2, Hc3, Hc4, Hc5, Hstart.
    repeat split; try assumption; try congruence.
  - rewrite Hnb. change (mem_id x []) with false. cbn iota. unfold ppush_q, pset_queue, pset_stack. cbn [b_bytes b_off b_stack b_queue b_bad b_fuel b_det].
    rewrite Hq3, Hs3, Hc1, Hc2, Hc3, Hc4, Hc5, Hstart. repeat split; try assumption; try congruence.
  - unfold ppush_q, pset_queue. cbn [b_bytes b_off b_stack b_queue b_bad b_fuel b_det]. rewrite Hq3, Hs3, Hc1, Hc2, Hc3, Hc4, Hc5, Hstart.
    repeat split; try assumption; try congruence.
  - unfold ppush_q, pset_queue. cbn [b_bytes b_off b_stack b_queue b_bad b_fuel b_det]. rewrite Hq3, Hs3, Hc1, Hc2, Hc3, Hc4, Hc5, Hstart.
    repeat split; try assumption; try congruence.
Qed.

Definition at_ (st : pst) (bytes : list N) (off : N) (stack : list frame) (fuel : nat) : Prop :=
  b_bytes st = bytes /\ b_off st = off /\ b_stack st = stack /\ b_queue st = [] /\ b_bad st = None /\ b_fuel st = fuel.

Definition end_pair (f : frame) : tag * N := (TEnd (f_id f), f_start f).

(* ... and the run: the Ends of the pending masters, the element, then whatever follows from the new state *)
Lemma step_run c st T stk ids x total p st_b consumed :
  step_pre c st T stk ids x total ->
  p_read_tag c (ppop_frames st (exhausted_count (b_off st) (b_stack st))) = (st_b, Ok p) ->
  advanced (ppop_frames st (exhausted_count (b_off st) (b_stack st))) st_b consumed -> consumed <> [] ->
  tag_id (p_tag p) = x -> p_start p = b_off st ->
  exists st', at_ st' (b_bytes st_b) (b_off st_b) (new_frame p ++ stk) (b_fuel st) /\ b_det st' = true /\
    forall n, p_run_all (length T + 1 + n) c st = rcat (map end_out T ++ [OItem (p_tag p) (b_off st)]) (p_run_all n c st').
Proof.
  intros H Hread Hadv Hne Hx Hstart.
  pose proof (finish_step c st T stk ids x total p st_b consumed H Hread Hadv Hne Hx Hstart) as Hfin. cbn zeta in Hfin.
  destruct Hfin as [F1 [F2 [F3 [F4 [F5 [F6 F7]]]]]].
  set (st1 := p_read_next (b_fuel st) c st) in *.
  set (q := map end_pair T ++ [(p_tag p, b_off st)]).
  assert (Hq : b_queue st1 = q_ok q).
  { rewrite F4. unfold q, q_ok. rewrite map_app, map_map. reflexivity. }
  destruct (drain c q st1 Hq F5) as [st0 [[S1 [S2 [S3 [S4 [S5 S6]]]]] [Hq0 Hrun]]].
  exists st0. split.
  - unfold at_. rewrite S1, S2, S3, S5, S6, F1, F2, F3, F5, F6. repeat split. exact Hq0.
  - split; [rewrite S4; exact F7|]. intros n.
    assert (Hlen : (length T + 1 + n = S (length T + n))%nat) by lia. rewrite Hlen.
    rewrite (run_refill c st (length T + n)).
    + fold st1. specialize (Hrun n).
      assert (Hl2 : (length q + n = S (length T + n))%nat) by (unfold q; rewrite app_length, map_length; cbn; lia).
      rewrite Hl2 in Hrun. rewrite Hrun. unfold q, o_ok. rewrite map_app, map_map. cbn [map fst snd app]. reflexivity.
    + apply (sp_queue _ _ _ _ _ _ _ H).
    + fold st1. rewrite F4. destruct (map end_item T); discriminate.
    + exact F6.
Qed.

(* ------------------------------------------------------------------ trees that conform to a specification *)
Fixpoint rtree_ind' (P : rtree -> Prop) (Hl : forall id v pl sl, P (RLeaf id v pl sl))
  (Hn : forall id sz cs, Forall P cs -> P (RNode id sz cs)) (t : rtree) : P t :=
  match t with
  | RLeaf id v pl sl => Hl id v pl sl
  | RNode id sz cs =>
      Hn id sz cs ((fix go (l : list rtree) : Forall P l :=
                      match l with [] => Forall_nil P | x :: l' => Forall_cons x (rtree_ind' P Hl Hn x) (go l') end) cs)
  end.

(* [conf c ids t]: every element of t is declared by the specification with exactly the chain of masters it sits in
   as its path (no global placeholders), with a payload the declared type decodes and sizes the chosen widths can carry *)
Fixpoint conf (c : cfg) (ids : list N) (t : rtree) : Prop :=
  match t with
  | RLeaf id v pl sl =>
      idok id /\ (1 <= sl <= 8)%nat /\ N.of_nat (length pl) < 2 ^ (7 * N.of_nat sl) - 1 /\ wf_bytes pl /\
      (exists ty, get_type (c_sp c) id = Some ty /\ ty <> DMaster /\ decodes (Some ty) pl v) /\
      get_path (c_sp c) id = map PId ids /\ size_ok c (SKnown (N.of_nat (length pl)))
  | RNode id sz cs =>
      idok id /\ (forall sl, sz = Some sl -> (1 <= sl <= 8)%nat /\ flen cs < 2 ^ (7 * N.of_nat sl) - 1) /\
      get_type (c_sp c) id = Some DMaster /\ get_path (c_sp c) id = map PId ids /\ size_ok c (node_esz sz cs) /\
      (fix all (l : list rtree) : Prop := match l with [] => True | x :: l' => conf c (ids ++ [id]) x /\ all l' end) cs
  end.

Lemma conf_node c ids id sz cs : conf c ids (RNode id sz cs) <->
  idok id /\ (forall sl, sz = Some sl -> (1 <= sl <= 8)%nat /\ flen cs < 2 ^ (7 * N.of_nat sl) - 1) /\
  get_type (c_sp c) id = Some DMaster /\ get_path (c_sp c) id = map PId ids /\ size_ok c (node_esz sz cs) /\
  Forall (conf c (ids ++ [id])) cs.
Proof.
  cbn [conf].
  assert (H : (fix all (l : list rtree) : Prop := match l with [] => True | x :: l' => conf c (ids ++ [id]) x /\ all l' end) cs
              <-> Forall (conf c (ids ++ [id])) cs).
  { induction cs as [|x l IH]; [split; [constructor|trivial]|]. split.
    - intros [Hx Hl]. constructor; [exact Hx|apply IH, Hl].
    - intros HF. inversion HF as [|? ? Hx Hl]; subst. split; [exact Hx|apply IH, Hl]. }
  tauto.
Qed.

Lemma idok_len id : idok id -> (1 <= length (id_bytes id))%nat /\ wf_bytes (id_bytes id).
Proof. intros [n [v [Hn [Hv ->]]]]. rewrite id_bytes_enc by assumption. rewrite enc_length. split; [lia|apply enc_wf]. Qed.

Lemma venc_length L v : length (venc L v) = L.
Proof. apply be_bytes_length. Qed.
Lemma venc_wf L v : wf_bytes (venc L v).
Proof. apply be_bytes_wf. Qed.

Lemma flen_cons t l : flen (t :: l) = tlen t + flen l.
Proof. unfold flen, tlen. cbn [enc_forest]. rewrite app_length. lia. Qed.
Lemma flen_nil : flen [] = 0.
Proof. reflexivity. Qed.

Lemma node_field_length sz cs : length (node_field sz cs) = node_sl sz.
Proof. destruct sz; [apply venc_length|reflexivity]. Qed.

Lemma tlen_node id sz cs : tlen (RNode id sz cs) = N.of_nat (hdr_len (RNode id sz cs)) + flen cs.
Proof.
  unfold tlen. rewrite enc_tree_node, hdr_len_node. fold (node_field sz cs). rewrite !app_length, node_field_length. unfold flen. lia.
Qed.
Lemma tlen_leaf id v pl sl : tlen (RLeaf id v pl sl) = N.of_nat (hdr_len (RLeaf id v pl sl)) + N.of_nat (length pl).
Proof. unfold tlen. cbn [enc_tree hdr_len]. rewrite !app_length, venc_length. lia. Qed.

Lemma conf_wf c : forall t ids, conf c ids t -> wf_bytes (enc_tree t) /\ 2 <= tlen t.
Proof.
  induction t as [id v pl sl|id sz cs IH] using rtree_ind'; intros ids H.
  - destruct H as [Hid [Hsl [_ [Hwf _]]]]. destruct (idok_len id Hid) as [Hl Hw]. split.
    + cbn [enc_tree]. apply wf_app; [exact Hw|]. apply wf_app; [apply venc_wf|exact Hwf].
    + rewrite tlen_leaf. cbn [hdr_len]. lia.
  - apply conf_node in H. destruct H as [Hid [Hsz [_ [_ [_ Hcs]]]]]. destruct (idok_len id Hid) as [Hl Hw]. split.
    + rewrite enc_tree_node. apply wf_app; [exact Hw|]. apply wf_app; [destruct sz; [apply venc_wf|repeat constructor]|].
      clear Hsz. induction cs as [|x l IHl]; [constructor|]. cbn [enc_forest].
      inversion IH as [|? ? Hx Hl']; subst. inversion Hcs as [|? ? Hcx Hcl]; subst.
      apply wf_app; [apply (Hx _ Hcx)|apply IHl; assumption].
    + rewrite tlen_node, hdr_len_node. assert (1 <= node_sl sz)%nat; [|lia].
      destruct sz as [sl|]; cbn; [|lia]. destruct (Hsz sl eq_refl); lia.
Qed.

Lemma conf_wf_forest c ids : forall l, Forall (conf c ids) l -> wf_bytes (enc_forest l).
Proof.
  induction l as [|x l IH]; intros H; [constructor|]. inversion H as [|? ? Hx Hl]; subst. cbn [enc_forest].
  apply wf_app; [apply (conf_wf c x ids Hx)|apply IH, Hl].
Qed.

(* the frames left pending by a tree end exactly where the tree ends, or have unknown size *)
Lemma spine_forest_cons off t l : l <> [] -> spine_forest off (t :: l) = spine_forest (off + tlen t) l.
Proof. destruct l; [contradiction|reflexivity]. Qed.
Lemma items_open_forest_cons off t l : l <> [] ->
  items_open_forest off (t :: l) = items_open_tree off t ++ map end_out (spine_tree off t) ++ items_open_forest (off + tlen t) l.
Proof. destruct l; [contradiction|reflexivity]. Qed.

Lemma spine_pend : forall t off, Forall (pendF (off + tlen t)) (spine_tree off t).
Proof.
  induction t as [id v pl sl|id sz cs IH] using rtree_ind'; intros off; [constructor|].
  rewrite spine_tree_node. apply Forall_app. split.
  - rewrite tlen_node. set (o1 := off + N.of_nat (hdr_len (RNode id sz cs))).
    replace (off + (N.of_nat (hdr_len (RNode id sz cs)) + flen cs)) with (o1 + flen cs) by (unfold o1; lia).
    clearbody o1. revert o1. induction cs as [|x l IHl]; intros o1; [constructor|].
    inversion IH as [|? ? Hx Hl]; subst. destruct l as [|y l'].
    + cbn [spine_forest]. rewrite flen_cons, flen_nil, N.add_0_r. apply Hx.
    + rewrite spine_forest_cons by discriminate. rewrite flen_cons.
      replace (o1 + (tlen x + flen (y :: l'))) with ((o1 + tlen x) + flen (y :: l')) by lia. apply IHl, Hl.
  - cbn [frame_of]. constructor; [|constructor]. unfold pendF. cbn [f_size f_data]. destruct sz as [sl|]; [right|left; reflexivity].
    exists (flen cs). split; [reflexivity|]. rewrite tlen_node. lia.
Qed.

Lemma spine_last off t d : spine_tree off t <> [] -> exists id sz cs, t = RNode id sz cs /\ f_id (last (spine_tree off t) d) = id.
Proof.
  destruct t as [id v pl sl|id sz cs]; [intros H; contradiction H; reflexivity|]. intros _. exists id, sz, cs. split; [reflexivity|].
  rewrite spine_tree_node. cbn [frame_of]. rewrite last_last. reflexivity.
Qed.

(* ------------------------------------------------------------------ parsing an encoded tree / forest *)
Record pre (c : cfg) (st : pst) (T stk : list frame) (ids : list N) (total : N) : Prop := {
  pr_stack : b_stack st = T ++ stk;
  pr_queue : b_queue st = [];
  pr_bad : b_bad st = None;
  pr_fuel : (1 <= b_fuel st)%nat;
  pr_det : b_det st = true \/ (T = [] /\ stk = [] /\ ids = []);
  pr_pend : Forall (pendF (b_off st)) T;
  pr_sib : forall d, T <> [] -> get_path (c_sp c) (f_id (last T d)) = map PId ids;
  pr_ids : ids_of stk = ids;
  pr_chain : chain_paths (c_sp c) ids;
  pr_room : room stk (b_off st + total)
}.

Lemma room_mono stk e e' : e' <= e -> room stk e -> room stk e'.
Proof.
  unfold room. intros Hle H. rewrite Forall_forall in *. intros f Hin. specialize (H f Hin). destruct (f_size f); [lia|exact I].
Qed.

Lemma pre_step c st T stk ids total x : pre c st T stk ids total -> 0 < total -> get_path (c_sp c) x = map PId ids ->
  get_type (c_sp c) x <> None -> c_buffered c = [] -> step_pre c st T stk ids x total.
Proof. intros [] ? ? ? ?. constructor; assumption. Qed.

Lemma pre_weaken c st T stk ids total total' : total' <= total -> pre c st T stk ids total -> pre c st T stk ids total'.
Proof. intros Hle []. constructor; try assumption. eapply room_mono; [|eassumption]. lia. Qed.

Lemma chain_snoc sp ids id : chain_paths sp ids -> get_path sp id = map PId ids -> chain_paths sp (ids ++ [id]).
Proof.
  unfold chain_paths. intros Hc Hp i a Hn. destruct (Nat.lt_ge_cases i (length ids)) as [Hlt|Hge].
  - rewrite nth_error_app1 in Hn by exact Hlt. rewrite firstn_app. replace (i - length ids)%nat with O by lia.
    cbn [firstn]. rewrite app_nil_r. apply Hc, Hn.
  - rewrite nth_error_app2 in Hn by exact Hge. destruct (i - length ids)%nat as [|k] eqn:Ek.
    + cbn in Hn. injection Hn as <-. assert (i = length ids) by lia. subst i.
      rewrite firstn_app, firstn_all, Nat.sub_diag. cbn [firstn]. rewrite app_nil_r. exact Hp.
    + cbn in Hn. destruct k; discriminate.
Qed.

Definition pend_after (off : N) (l : list rtree) (T : list frame) : list frame :=
  match l with [] => T | _ => spine_forest off l end.
Definition outs_forest (off : N) (l : list rtree) (T : list frame) : list rout :=
  match l with [] => [] | _ => map end_out T ++ items_open_forest off l end.

Definition Ptree (c : cfg) (t : rtree) : Prop :=
  forall ids, conf c ids t -> forall st T stk rest,
  pre c st T stk ids (tlen t) -> b_bytes st = enc_tree t ++ rest -> wf_bytes rest ->
  exists st', at_ st' rest (b_off st + tlen t) (spine_tree (b_off st) t ++ stk) (b_fuel st) /\ b_det st' = true /\
    forall n, p_run_all (length (map end_out T ++ items_open_tree (b_off st) t) + n) c st =
              rcat (map end_out T ++ items_open_tree (b_off st) t) (p_run_all n c st').

Lemma conf_path c ids t : conf c ids t -> forall id sz cs, t = RNode id sz cs -> get_path (c_sp c) id = map PId ids.
Proof. intros H id sz cs ->. apply conf_node in H. tauto. Qed.

Lemma parse_forest c : forall l, Forall (Ptree c) l -> forall ids, Forall (conf c ids) l -> forall st T stk rest,
  pre c st T stk ids (flen l) -> b_bytes st = enc_forest l ++ rest -> wf_bytes rest ->
  exists st', at_ st' rest (b_off st + flen l) (pend_after (b_off st) l T ++ stk) (b_fuel st) /\
    (b_det st = true -> b_det st' = true) /\ (l <> [] -> b_det st' = true) /\
    forall n, p_run_all (length (outs_forest (b_off st) l T) + n) c st = rcat (outs_forest (b_off st) l T) (p_run_all n c st').
Proof.
  induction l as [|x l IH]; intros HP ids Hconf st T stk rest Hpre Hb Hwf.
  - exists st. split; [|split; [auto|split; [intros H; contradiction|intros n; symmetry; apply rcat_nil]]].
    destruct Hpre. unfold at_. rewrite flen_nil, N.add_0_r. cbn [enc_forest app] in Hb. cbn [pend_after]. repeat split; assumption.
  - inversion HP as [|? ? HPx HPl]; subst. inversion Hconf as [|? ? Hcx Hcl]; subst.
    cbn [enc_forest] in Hb. rewrite <- app_assoc in Hb.
    assert (Hwf1 : wf_bytes (enc_forest l ++ rest)) by (apply wf_app; [apply (conf_wf_forest c ids l Hcl)|exact Hwf]).
    assert (Hpre1 : pre c st T stk ids (tlen x)) by (apply (pre_weaken c st T stk ids (flen (x :: l))); [rewrite flen_cons; lia|exact Hpre]).
    destruct (HPx ids Hcx st T stk (enc_forest l ++ rest) Hpre1 Hb Hwf1) as [st1 [Hat1 [Hdet1 Hrun1]]].
    destruct Hat1 as [A1 [A2 [A3 [A4 [A5 A6]]]]].
    assert (Hpre2 : pre c st1 (spine_tree (b_off st) x) stk ids (flen l)).
    { destruct Hpre as [Hs Hq Hbad Hf Hd Hpend Hsib Hids Hchain Hroom]. constructor.
      - exact A3.
      - exact A4.
      - exact A5.
      - rewrite A6. exact Hf.
      - left. exact Hdet1.
      - rewrite A2. apply spine_pend.
      - intros d Hne. destruct (spine_last (b_off st) x d Hne) as [id [sz [cs [Hx Hid]]]]. rewrite Hid.
        apply (conf_path c ids x Hcx id sz cs Hx).
      - exact Hids.
      - exact Hchain.
      - rewrite A2. rewrite flen_cons in Hroom. rewrite <- N.add_assoc. exact Hroom. }
    destruct (IH HPl ids Hcl st1 (spine_tree (b_off st) x) stk rest Hpre2 A1 Hwf) as [st2 [Hat2 [Hd2 [_ Hrun2]]]].
    exists st2. rewrite A2, A6 in Hat2. rewrite A2 in Hrun2. split; [|split; [|split]].
    + rewrite flen_cons, N.add_assoc. destruct l as [|y l']; exact Hat2.
    + intros _. apply Hd2, Hdet1.
    + intros _. apply Hd2, Hdet1.
    + intros n.
      assert (Ho : outs_forest (b_off st) (x :: l) T =
                   (map end_out T ++ items_open_tree (b_off st) x) ++ outs_forest (b_off st + tlen x) l (spine_tree (b_off st) x)).
      { destruct l as [|y l']; [cbn [outs_forest items_open_forest]; rewrite app_nil_r; reflexivity|].
        unfold outs_forest. rewrite items_open_forest_cons by discriminate. rewrite <- !app_assoc. reflexivity. }
      rewrite Ho, app_length, <- Nat.add_assoc, Hrun1, Hrun2. apply rcat_rcat.
Qed.

Lemma pend_after_nil off l : pend_after off l [] = spine_forest off l.
Proof. destruct l; reflexivity. Qed.
Lemma outs_forest_nil off l : outs_forest off l [] = items_open_forest off l.
Proof. destruct l; reflexivity. Qed.

Lemma parse_tree c : strict c -> c_buffered c = [] -> forall t, Ptree c t.
Proof.
  intros Hstrict Hnb. induction t as [id v pl sl|id sz cs IH] using rtree_ind'; unfold Ptree; intros ids Hconf st T stk rest Hpre Hb Hwf.
  - (* a leaf *)
    destruct Hconf as [Hid [Hsl [Hlen [Hwfp [[ty [Hty [Hnm Hdec]]] [Hpath Hmax]]]]]].
    pose proof (conf_wf c (RLeaf id v pl sl) ids) as Hw. 
    assert (Hpos : 0 < tlen (RLeaf id v pl sl)).
    { rewrite tlen_leaf. cbn [hdr_len]. lia. }
    assert (Htyn : get_type (c_sp c) id <> None) by (rewrite Hty; discriminate).
    pose proof (pre_step c st T stk ids _ id Hpre Hpos Hpath Htyn Hnb) as Hstep.
    pose proof (prep c st T stk ids id _ Hstep) as Hprep. cbn zeta in Hprep.
    destruct Hprep as [P1 [P2 [P3 [P4 [P5 [P6 [P7 [Phier Proom]]]]]]]].
    set (st_a := ppop_frames st (exhausted_count (b_off st) (b_stack st))) in *.
    assert (Hba : b_bytes st_a = enc_tree (RLeaf id v pl sl) ++ rest) by (rewrite P1; exact Hb).
    assert (Hroom : p_invalid_tag_size st_a (N.of_nat (length (id_bytes id) + sl) + N.of_nat (length pl)) = false).
    { apply Proom. rewrite tlen_leaf. cbn [hdr_len]. lia. }
    destruct (read_leaf c st_a id ty v pl sl rest Hstrict Hid Hsl Hlen Hwfp Hwf Hba Hty Hnm Hdec P3 Phier Hroom Hmax)
      as [st_b [Hread [Hadv Hrest]]].
    assert (Hne : enc_tree (RLeaf id v pl sl) <> []).
    { intros E. apply (f_equal (@length N)) in E. fold (tlen (RLeaf id v pl sl)) in Hpos. unfold tlen in Hpos. rewrite E in Hpos. cbn in Hpos. lia. }
    rewrite P2 in Hread.
    destruct (step_run c st T stk ids id _ _ st_b _ Hstep Hread Hadv Hne eq_refl eq_refl) as [st' [Hat [Hdet Hrun]]].
    exists st'. split; [|split; [exact Hdet|]].
    + destruct Hadv as [_ [Ho _]]. rewrite Hrest, Ho, P2 in Hat. unfold new_frame in Hat. cbn [p_tag app] in Hat. cbn [spine_tree app].
      unfold tlen. exact Hat.
    + intros n. cbn [items_open_tree]. rewrite app_length, map_length. cbn [length]. cbn [p_tag] in Hrun.
      rewrite Hrun. reflexivity.
  - (* a master: its header, then its children *)
    apply conf_node in Hconf. destruct Hconf as [Hid [Hsz [Hty [Hpath [Hmax Hcs]]]]].
    set (t := RNode id sz cs) in *.
    assert (Hpos : 0 < tlen t).
    { unfold t. rewrite tlen_node, hdr_len_node. destruct (idok_len id Hid). lia. }
    assert (Htyn : get_type (c_sp c) id <> None) by (rewrite Hty; discriminate).
    pose proof (pre_step c st T stk ids _ id Hpre Hpos Hpath Htyn Hnb) as Hstep.
    pose proof (prep c st T stk ids id _ Hstep) as Hprep. cbn zeta in Hprep.
    destruct Hprep as [P1 [P2 [P3 [P4 [P5 [P6 [P7 [Phier Proom]]]]]]]].
    set (st_a := ppop_frames st (exhausted_count (b_off st) (b_stack st))) in *.
    assert (Hwf1 : wf_bytes (enc_forest cs ++ rest)) by (apply wf_app; [apply (conf_wf_forest c _ cs Hcs)|exact Hwf]).
    assert (Hba : b_bytes st_a = id_bytes id ++ node_field sz cs ++ enc_forest cs ++ rest).
    { rewrite P1, Hb. unfold t. rewrite enc_tree_node. fold (node_field sz cs). rewrite <- !app_assoc. reflexivity. }
    assert (Hroom : p_invalid_tag_size st_a (N.of_nat (length (id_bytes id) + node_sl sz) + match node_esz sz cs with SKnown n => n | SUnknown => 0 end) = false).
    { apply Proom. unfold t. rewrite tlen_node, hdr_len_node. destruct sz; cbn [node_esz]; lia. }
    destruct (read_start c st_a id sz cs (enc_forest cs ++ rest) Hstrict Hid Hwf1 Hsz Hba Hty P3 Phier Hroom Hmax)
      as [st_b [Hread [Hadv Hrest]]].
    assert (Hne : id_bytes id ++ node_field sz cs <> []).
    { destruct (idok_len id Hid) as [Hl _]. destruct (id_bytes id); [cbn in Hl; lia|discriminate]. }
    rewrite P2 in Hread.
    destruct (step_run c st T stk ids id _ _ st_b _ Hstep Hread Hadv Hne eq_refl eq_refl) as [st1 [Hat1 [Hdet1 Hrun1]]].
    destruct Hadv as [_ [Ho _]]. rewrite Hrest, Ho, P2 in Hat1. unfold new_frame in Hat1. cbn [p_tag p_size p_start p_data tag_id app] in Hat1.
    rewrite app_length, node_field_length in Ho, Hat1. rewrite <- hdr_len_node with (cs := cs) in Hat1. fold t in Hat1.
    set (fr := {| f_id := id; f_size := node_esz sz cs; f_start := b_off st; f_data := b_off st + N.of_nat (hdr_len t) |}) in *.
    destruct Hat1 as [A1 [A2 [A3 [A4 [A5 A6]]]]].
    assert (Hpre1 : pre c st1 [] (fr :: stk) (ids ++ [id]) (flen cs)).
    { destruct Hpre as [Hs Hq Hbad Hf Hd Hpend Hsib Hids Hchain Hroom0]. constructor.
      - exact A3.
      - exact A4.
      - exact A5.
      - rewrite A6. exact Hf.
      - left. exact Hdet1.
      - constructor.
      - intros d Hn. contradiction Hn. reflexivity.
      - unfold ids_of in *. cbn [map rev]. rewrite Hids. reflexivity.
      - apply chain_snoc; assumption.
      - rewrite A2. unfold room. constructor.
        + unfold fr. cbn [f_size f_data]. destruct sz; cbn [node_esz]; [lia|exact I].
        + eapply room_mono; [|exact Hroom0]. unfold t. rewrite tlen_node. fold t. lia. }
    destruct (parse_forest c cs IH (ids ++ [id]) Hcs st1 [] (fr :: stk) rest Hpre1 A1 Hwf) as [st2 [Hat2 [Hd2 [_ Hrun2]]]].
    exists st2. rewrite A2, A6, pend_after_nil in Hat2. rewrite A2, outs_forest_nil in Hrun2. split; [|split; [apply Hd2, Hdet1|]].
    + unfold t at 1 2. rewrite tlen_node, spine_tree_node. fold t. rewrite N.add_assoc, <- app_assoc. exact Hat2.
    + intros n.
      assert (Hio : items_open_tree (b_off st) t = OItem (TStart id) (b_off st) :: items_open_forest (b_off st + N.of_nat (hdr_len t)) cs) by reflexivity.
      rewrite Hio.
      rewrite app_length, map_length. cbn [length]. cbn [p_tag] in Hrun1.
      replace (length T + S (length (items_open_forest (b_off st + N.of_nat (hdr_len t)) cs)) + n)%nat
        with (length T + 1 + (length (items_open_forest (b_off st + N.of_nat (hdr_len t)) cs) + n))%nat by lia.
      rewrite Hrun1, Hrun2, rcat_rcat. f_equal. rewrite <- app_assoc. reflexivity.
Qed.

(* ------------------------------------------------------------------ the end of the input *)
Lemma eof_refill c st : b_bytes st = [] -> b_queue st = [] -> b_bad st = None -> (1 <= b_fuel st)%nat -> c_emit_eof c = true ->
  let st' := p_read_next (b_fuel st) c st in
  b_bytes st' = [] /\ b_off st' = b_off st /\ b_stack st' = [] /\ b_queue st' = map end_item (b_stack st) /\ b_bad st' = None /\
  b_fuel st' = b_fuel st.
Proof.
  intros Hb Hq Hbad Hf He. cbn zeta. destruct (b_fuel st) as [|f] eqn:Ef; [lia|]. rewrite p_read_next_unfold. cbn zeta.
  set (k1 := exhausted_count (b_off st) (b_stack st)).
  unfold p_read_tag_checked. 
  assert (Hb1 : b_bytes (ppop_frames st k1) = []) by exact Hb. rewrite Hb1, He.
  unfold ppop_frames, ppush_q, pset_queue, pset_stack. cbn [b_bytes b_off b_stack b_queue b_bad b_fuel b_det].
  rewrite Hq. cbn [app]. rewrite skipn_all, firstn_all, <- map_app, firstn_skipn. repeat split; assumption.
Qed.

Lemma eof_none c st n : b_bytes st = [] -> b_stack st = [] -> b_queue st = [] -> b_bad st = None -> (1 <= b_fuel st)%nat ->
  c_emit_eof c = true -> snd (p_run_all (S n) c st) = [ONone].
Proof.
  intros Hb Hs Hq Hbad Hf He. pose proof (eof_refill c st Hb Hq Hbad Hf He) as H. cbn zeta in H.
  destruct H as [E1 [E2 [E3 [E4 [E5 E6]]]]]. rewrite Hs in E4. cbn [map] in E4.
  cbn [p_run_all]. unfold p_next. rewrite Hq. cbn iota. rewrite E4. cbn iota. rewrite E5. reflexivity.
Qed.

Lemma eof_ends c st n : b_bytes st = [] -> b_queue st = [] -> b_bad st = None -> (1 <= b_fuel st)%nat -> c_emit_eof c = true ->
  snd (p_run_all (length (b_stack st) + S n) c st) = map end_out (b_stack st) ++ [ONone].
Proof.
  intros Hb Hq Hbad Hf He. destruct (b_stack st) as [|f0 S0] eqn:Es.
  - cbn [length Nat.add map app]. apply eof_none; assumption.
  - pose proof (eof_refill c st Hb Hq Hbad Hf He) as H. cbn zeta in H. destruct H as [E1 [E2 [E3 [E4 [E5 E6]]]]].
    rewrite Es in E4. set (S1 := f0 :: S0) in *.
    replace (length S1 + S n)%nat with (S (length S1 + n)) by lia.
    rewrite (run_refill c st (length S1 + n) Hq); [|rewrite E4; discriminate|exact E6].
    set (st1 := p_read_next (b_fuel st) c st) in *.
    assert (Hq1 : b_queue st1 = q_ok (map end_pair S1)) by (rewrite E4; unfold q_ok; rewrite map_map; reflexivity).
    destruct (drain c (map end_pair S1) st1 Hq1 E5) as [st0 [[S1' [S2 [S3 [S4 [S5 S6]]]]] [Hq0 Hrun]]].
    specialize (Hrun (S n)). rewrite map_length in Hrun.
    replace (S (length S1 + n)) with (length S1 + S n)%nat by lia. rewrite Hrun. unfold rcat. cbn [snd].
    unfold o_ok. rewrite map_map. cbn [fst snd end_pair]. f_equal.
    apply eof_none; [rewrite S1'; exact E1|rewrite S3; exact E3|exact Hq0|rewrite S5; exact E5|rewrite S6, E6; exact Hf|exact He].
Qed.

(* closing the pending spine gives the complete item sequence *)
Lemma open_close : forall t off, items_open_tree off t ++ map end_out (spine_tree off t) = items_tree off t.
Proof.
  induction t as [id v pl sl|id sz cs IH] using rtree_ind'; intros off; [reflexivity|].
  rewrite items_open_tree_node, spine_tree_node, items_tree_node. cbn [app]. f_equal.
  rewrite map_app, app_assoc. f_equal.
  set (o1 := off + N.of_nat (hdr_len (RNode id sz cs))). clearbody o1. revert o1.
  induction cs as [|x l IHl]; intros o1; [reflexivity|]. inversion IH as [|? ? Hx Hl]; subst.
  destruct l as [|y l'].
  - cbn [items_open_forest spine_forest items_forest]. rewrite app_nil_r. apply Hx.
  - rewrite items_open_forest_cons, spine_forest_cons by discriminate.
    change (items_forest o1 (x :: y :: l')) with (items_tree o1 x ++ items_forest (o1 + tlen x) (y :: l')).
    rewrite <- (Hx o1), <- (IHl Hl (o1 + tlen x)). rewrite <- !app_assoc. reflexivity.
Qed.

Lemma open_close_forest : forall l off, items_open_forest off l ++ map end_out (spine_forest off l) = items_forest off l.
Proof.
  induction l as [|x l IH]; intros off; [reflexivity|]. destruct l as [|y l'].
  - cbn [items_open_forest spine_forest items_forest]. rewrite app_nil_r. apply open_close.
  - rewrite items_open_forest_cons, spine_forest_cons by discriminate.
    change (items_forest off (x :: y :: l')) with (items_tree off x ++ items_forest (off + tlen x) (y :: l')).
    rewrite <- (open_close x off), <- (IH (off + tlen x)). rewrite <- !app_assoc. reflexivity.
Qed.

Lemma items_le_bytes c : forall t ids off, conf c ids t -> (length (items_tree off t) <= length (enc_tree t))%nat.
Proof.
  induction t as [id v pl sl|id sz cs IH] using rtree_ind'; intros ids off H.
  - pose proof (conf_wf c _ ids H) as [_ Hl]. unfold tlen in Hl. cbn [items_tree length]. lia.
  - pose proof H as H0. apply conf_node in H. destruct H as [Hid [Hsz [_ [_ [_ Hcs]]]]].
    rewrite items_tree_node, enc_tree_node. fold (node_field sz cs). cbn [length]. rewrite !app_length, node_field_length. cbn [length].
    destruct (idok_len id Hid) as [Hl _].
    assert (Hsl : (1 <= node_sl sz)%nat) by (destruct sz as [sl|]; cbn; [destruct (Hsz sl eq_refl); lia|lia]).
    assert (Hf : forall o, (length (items_forest o cs) <= length (enc_forest cs))%nat).
    { clear Hsz H0. induction cs as [|x l IHl]; intros o; [cbn; lia|]. inversion IH as [|? ? Hx Hl']; subst.
      inversion Hcs as [|? ? Hcx Hcl]; subst. cbn [items_forest enc_forest]. rewrite !app_length.
      specialize (Hx _ o Hcx). specialize (IHl Hl' Hcl (o + tlen x)). lia. }
    specialize (Hf (off + N.of_nat (hdr_len (RNode id sz cs)))). lia.
Qed.

Lemma items_le_bytes_forest c ids : forall l off, Forall (conf c ids) l -> (length (items_forest off l) <= length (enc_forest l))%nat.
Proof.
  induction l as [|x l IH]; intros off H; [cbn; lia|]. inversion H as [|? ? Hx Hl]; subst. cbn [items_forest enc_forest].
  rewrite !app_length. pose proof (items_le_bytes c x ids off Hx). specialize (IH (off + tlen x) Hl). lia.
Qed.

Lemma run_ops_all c L st : snd (p_run_ops c L st [RAll]) = snd (p_run_all L c st).
Proof. cbn [p_run_ops]. destruct (p_run_all L c st) as [st1 outs]. destruct (b_bad st1); cbn [snd]; [reflexivity|apply app_nil_r]. Qed.

(* C01, reader half: the reader yields exactly the items of every conforming encoded document, whatever size widths and
   known/unknown-size choices the encoder made *)
Theorem reader_roundtrip c f : strict c -> c_buffered c = [] -> c_emit_eof c = true -> Forall (conf c []) f ->
  p_run c (enc_forest f) [RAll] = items_forest 0 f ++ [ONone].
Proof.
  intros Hstrict Hnb He Hconf. unfold p_run. rewrite run_ops_all.
  set (input := enc_forest f). set (st0 := p_init input).
  assert (Hpre : pre c st0 [] [] [] (flen f)).
  { constructor; try reflexivity.
    - unfold st0, p_init, default_fuel. cbn [b_fuel]. lia.
    - right. repeat split.
    - constructor.
    - intros d Hn. contradiction Hn. reflexivity.
    - intros i a Hn. destruct i; discriminate.
    - constructor. }
  assert (HP : Forall (Ptree c) f) by (apply Forall_forall; intros t _; apply parse_tree; assumption).
  assert (Hb0 : b_bytes st0 = enc_forest f ++ []) by (rewrite app_nil_r; reflexivity).
  destruct (parse_forest c f HP [] Hconf st0 [] [] [] Hpre Hb0 (Forall_nil _)) as [st1 [Hat [_ [_ Hrun]]]].
  destruct Hat as [A1 [A2 [A3 [A4 [A5 A6]]]]]. rewrite pend_after_nil, app_nil_r in A3. rewrite outs_forest_nil in Hrun.
  change (b_off st0) with 0 in *.
  assert (Hf1 : (1 <= b_fuel st1)%nat) by (rewrite A6; unfold st0, p_init, default_fuel; cbn [b_fuel]; lia).
  pose proof (items_le_bytes_forest c [] f 0 Hconf) as Hle. rewrite <- (open_close_forest f 0), app_length, map_length in Hle.
  set (k := length (items_open_forest 0 f)) in *. set (s := length (spine_forest 0 f)) in *.
  replace (4 * length input + 64)%nat with (k + (s + S (4 * length input + 63 - k - s)))%nat by (unfold input; lia).
  rewrite Hrun. unfold rcat. cbn [snd]. pose proof (eof_ends c st1 (4 * length input + 63 - k - s) A1 A4 A5 Hf1 He) as Hend. rewrite A3 in Hend. fold s in Hend.
  rewrite Hend, app_assoc, open_close_forest. reflexivity.
Qed.

(* ------------------------------------------------------------------ tags only *)
Lemma tags_tree_node id sz cs : tags_tree (RNode id sz cs) = TStart id :: tags_forest cs ++ [TEnd id].
Proof.
  cbn [tags_tree].
  assert (H : (fix go (l : list rtree) : list tag := match l with [] => [] | c :: l' => tags_tree c ++ go l' end) cs = tags_forest cs).
  { induction cs as [|x l IH]; [reflexivity|]. cbn [tags_forest]. rewrite <- IH. reflexivity. }
  rewrite H. reflexivity.
Qed.

Lemma items_tags : forall t off, map out_tag (items_tree off t) = map Some (tags_tree t).
Proof.
  induction t as [id v pl sl|id sz cs IH] using rtree_ind'; intros off; [reflexivity|].
  rewrite items_tree_node, tags_tree_node. cbn [map out_tag]. f_equal. rewrite !map_app. cbn [map out_tag]. f_equal.
  set (o1 := off + N.of_nat (hdr_len (RNode id sz cs))). clearbody o1. revert o1.
  induction cs as [|x l IHl]; intros o1; [reflexivity|]. inversion IH as [|? ? Hx Hl]; subst.
  cbn [items_forest tags_forest]. rewrite !map_app, Hx, (IHl Hl). reflexivity.
Qed.

Lemma items_tags_forest : forall l off, map out_tag (items_forest off l) = map Some (tags_forest l).
Proof.
  induction l as [|x l IH]; intros off; [reflexivity|]. cbn [items_forest tags_forest]. rewrite !map_app, items_tags, IH. reflexivity.
Qed.

Theorem reader_roundtrip_tags c f : strict c -> c_buffered c = [] -> c_emit_eof c = true -> Forall (conf c []) f ->
  map out_tag (p_run c (enc_forest f) [RAll]) = map Some (tags_forest f) ++ [None].
Proof.
  intros H1 H2 H3 H4. rewrite (reader_roundtrip c f H1 H2 H3 H4), map_app, items_tags_forest. reflexivity.
Qed.

Theorem reader_roundtrip_buffered c f cap0 script : calm script -> strict c -> c_buffered c = [] -> c_emit_eof c = true ->
  Forall (conf c []) f -> run_reader c cap0 script (enc_forest f) [RAll] = items_forest 0 f ++ [ONone].
Proof. intros Hc H1 H2 H3 H4. rewrite buffered_refines_pure by exact Hc. apply reader_roundtrip; assumption. Qed.

(* C07: the tags read do not depend on which masters have unknown size, nor on any size width *)
Theorem encoding_choices_irrelevant c f g : strict c -> c_buffered c = [] -> c_emit_eof c = true ->
  Forall (conf c []) f -> Forall (conf c []) g -> tags_forest f = tags_forest g ->
  map out_tag (p_run c (enc_forest f) [RAll]) = map out_tag (p_run c (enc_forest g) [RAll]).
Proof. intros H1 H2 H3 Hf Hg He. rewrite !reader_roundtrip_tags by assumption. rewrite He. reflexivity. Qed.
