(* C05 / C14 (audit items A6, B5): an I/O error of the source is never dropped.  Every Fail event that a call of next() or
   try_recover() removes from the read script is reported by that very call (next(): returned, or queued as the last item
   behind the Ends it delivers first); over a whole run the Fail events consumed are exactly the RIo outcomes, as multisets.
   Also: the fused property with masters still open (EOF closing switched off). *)
From Ebml Require Import Base Tools Spec Reader Pure Proofs.Tactics Proofs.ReaderIO Proofs.Refine.
From Coq Require Import Permutation.
Import ListNotations.
Local Open Scope N_scope.

Arguments vint_len : simpl never.
Arguments read_vint : simpl never.

(* ------------------------------------------------------------------ scripts *)
(* the error codes of the Fail events of a script, in order *)
Fixpoint fails (s : list rd) : list N :=
  match s with
  | [] => []
  | Fail code :: s' => code :: fails s'
  | _ :: s' => fails s'
  end.

Lemma fails_app a b : fails (a ++ b) = fails a ++ fails b.
Proof. induction a as [|[n| |code] a IH]; cbn [app fails]; [reflexivity|exact IH|exact IH|rewrite IH; reflexivity]. Qed.

(* [adv s s' None]: the script s was consumed down to s' and no Fail event was among the events consumed;
   [adv s s' (Some code)]: the events consumed were Fail-free ones followed by [Fail code], which is the last one consumed *)
Definition adv (s s' : list rd) (o : option N) : Prop :=
  exists pre, fails pre = [] /\ s = pre ++ match o with None => s' | Some code => Fail code :: s' end.

Lemma adv_refl s : adv s s None.
Proof. exists []. split; reflexivity. Qed.

Lemma adv_trans s s1 s2 o : adv s s1 None -> adv s1 s2 o -> adv s s2 o.
Proof.
  intros [p1 [F1 E1]] [p2 [F2 E2]]. exists (p1 ++ p2). split; [rewrite fails_app, F1, F2; reflexivity|].
  rewrite E1, E2, app_assoc. reflexivity.
Qed.

Lemma adv_fails s s' o : adv s s' o -> fails s = match o with None => fails s' | Some code => code :: fails s' end.
Proof. intros [p [F E]]. rewrite E, fails_app, F. destruct o; reflexivity. Qed.

Lemma adv_unique s s' o1 o2 : adv s s' o1 -> adv s s' o2 -> o1 = o2.
Proof.
  intros H1 H2. apply adv_fails in H1. apply adv_fails in H2. rewrite H1 in H2.
  destruct o1 as [c1|], o2 as [c2|]; try reflexivity.
  - injection H2 as ->. reflexivity.
  - apply (f_equal (@length N)) in H2. cbn in H2. lia.
  - apply (f_equal (@length N)) in H2. cbn in H2. lia.
Qed.

(* ------------------------------------------------------------------ the low-level reads *)
Definition err_io (e : rerr) : option N := match e with RIo code => Some code | _ => None end.
Definition res_io {A} (r : res rerr A) : option N := match r with Err e => err_io e | _ => None end.

(* a step of the refill/parse machinery: the queue is untouched, and the result is the source's error exactly when a Fail
   event was consumed (which then is the last event consumed) *)
Definition io_step {A} (st st' : rst) (r : res rerr A) : Prop :=
  r_queue st' = r_queue st /\ adv (r_script st) (r_script st') (res_io r).

Lemma io_step_trans {A B} st st1 st2 (r1 : res rerr A) (r2 : res rerr B) :
  io_step st st1 r1 -> res_io r1 = None -> io_step st1 st2 r2 -> io_step st st2 r2.
Proof.
  intros [Q1 A1] E [Q2 A2]. rewrite E in A1. split; [congruence|eapply adv_trans; eassumption].
Qed.

Lemma deliver_io st k s : r_queue (deliver st k s) = r_queue st /\ r_script (deliver st k s) = s.
Proof. unfold deliver. destruct (splitN k (r_rest st)). split; reflexivity. Qed.

Lemma consume_io st k : r_queue (consume st k) = r_queue st /\ r_script (consume st k) = r_script st.
Proof. unfold consume. destruct (splitN k (r_win st)). split; reflexivity. Qed.

Lemma private_read_io st room : io_step st (fst (private_read st room)) (snd (private_read st room)).
Proof.
  unfold private_read, io_step. destruct (r_script st) as [|[n| |code] s] eqn:Es.
  - destruct (_ =? 0); cbn [fst snd res_io].
    + rewrite Es. split; [reflexivity|apply adv_refl].
    + destruct (deliver_io st (N.min room (r_rlen st)) []) as [-> ->]. split; [reflexivity|apply adv_refl].
  - destruct (_ =? 0); cbn [fst snd res_io].
    + split; [reflexivity|]. exists [Chunk n]. split; reflexivity.
    + destruct (deliver_io st (N.min (N.min n room) (r_rlen st)) s) as [-> ->]. split; [reflexivity|].
      exists [Chunk n]. split; reflexivity.
  - cbn [fst snd res_io]. split; [reflexivity|]. exists [Pause]. split; reflexivity.
  - cbn [fst snd res_io err_io]. split; [reflexivity|]. exists []. split; reflexivity.
Qed.

(* the only errors of a read are the source's *)
Lemma private_read_err st room e : snd (private_read st room) = Err e -> exists code, e = RIo code.
Proof.
  unfold private_read. destruct (r_script st) as [|[n| |code] s]; try (destruct (_ =? 0)); cbn [snd]; try discriminate.
  intros H. inversion H. eexists; reflexivity.
Qed.

Lemma io_step_refl {A} st (r : res rerr A) : res_io r = None -> io_step st st r.
Proof. intros E. split; [reflexivity|rewrite E; apply adv_refl]. Qed.

Lemma ensure_loop_io n : forall fuel st, io_step st (fst (ensure_loop fuel n st)) (snd (ensure_loop fuel n st)).
Proof.
  induction fuel as [|f IH]; intros st; cbn [ensure_loop].
  - cbn [fst snd]. split; [reflexivity|apply adv_refl].
  - destruct (n <=? r_wlen st); [apply io_step_refl; reflexivity|].
    set (st1 := set_cap st (N.max (r_cap st) n)).
    pose proof (private_read_io st1 (r_cap st1 - r_wlen st1)) as HP.
    destruct (private_read st1 (r_cap st1 - r_wlen st1)) as [st2 r2]. cbn [fst snd] in HP.
    assert (H01 : io_step st st1 (@Ok rerr bool true)) by (split; [reflexivity|apply adv_refl]).
    destruct r2 as [[|]|e|]; cbn [fst snd].
    + eapply io_step_trans; [exact H01|reflexivity|]. eapply io_step_trans; [exact HP|reflexivity|apply IH].
    + eapply io_step_trans; [exact H01|reflexivity|exact HP].
    + eapply io_step_trans; [exact H01|reflexivity|exact HP].
    + eapply io_step_trans; [exact H01|reflexivity|exact HP].
Qed.

Lemma ensure_io n st : io_step st (fst (ensure n st)) (snd (ensure n st)).
Proof. apply ensure_loop_io. Qed.

Lemma ensure_loop_err n : forall fuel st e, snd (ensure_loop fuel n st) = Err e -> exists code, e = RIo code.
Proof.
  induction fuel as [|f IH]; intros st e; cbn [ensure_loop]; [discriminate|].
  destruct (n <=? r_wlen st); [discriminate|].
  set (st1 := set_cap st (N.max (r_cap st) n)).
  pose proof (private_read_err st1 (r_cap st1 - r_wlen st1)) as HP.
  destruct (private_read st1 (r_cap st1 - r_wlen st1)) as [st2 r2]. cbn [snd] in HP.
  destruct r2 as [[|]|e2|]; cbn [snd]; try discriminate.
  - apply IH.
  - intros H. inversion H; subst. apply HP. reflexivity.
Qed.

Lemma ensure_err n st e : snd (ensure n st) = Err e -> exists code, e = RIo code.
Proof. apply ensure_loop_err. Qed.

Lemma peek_tag_id_io st : io_step st (fst (peek_tag_id st)) (snd (peek_tag_id st)).
Proof.
  unfold peek_tag_id. pose proof (ensure_io 8 st) as H1.
  destruct (ensure 8 st) as [st1 [b|e|]]; cbn [fst snd] in *; try exact H1.
  assert (H2 : forall A (r : res rerr A), res_io r = None -> io_step st st1 r).
  { intros A r E. eapply io_step_trans; [exact H1|reflexivity|apply io_step_refl, E]. }
  destruct (r_win st1) as [|b0 w]; [apply H2; reflexivity|]. destruct (b0 =? 0); [apply H2; reflexivity|].
  destruct (_ <? _); apply H2; reflexivity.
Qed.

Lemma hier_step_io c st id ty :
  r_queue (fst (hier_step c st id ty)) = r_queue st /\ r_script (fst (hier_step c st id ty)) = r_script st /\
  forall e, snd (hier_step c st id ty) = Some e -> err_io e = None.
Proof.
  unfold hier_step. destruct (negb _ && _); [|repeat split; discriminate].
  destruct (r_det st).
  - destruct (_ && _); cbn [fst snd]; (split; [reflexivity|split; [reflexivity|]]); intros e H; inversion H; reflexivity.
  - destruct (all_ids _).
    + destruct (implied_stack _ _); [|repeat split; discriminate].
      destruct (_ && _); cbn [fst snd]; (split; [reflexivity|split; [reflexivity|]]); intros e H; inversion H; reflexivity.
    + destruct (_ && _); cbn [fst snd]; (split; [reflexivity|split; [reflexivity|]]); intros e H; inversion H; reflexivity.
Qed.

Lemma hdr_tail_io c st id idl : io_step st (fst (hdr_tail c st id idl)) (snd (hdr_tail c st id idl)).
Proof.
  unfold hdr_tail. destruct (read_vint _) as [[[size sl]|]|e|]; try (apply io_step_refl; reflexivity).
  destruct (is_numeric _ && _); [apply io_step_refl; reflexivity|].
  destruct (negb (c_allow_id c) && _); [apply io_step_refl; reflexivity|].
  destruct (hier_step_io c st id (get_type (c_sp c) id)) as [Hq [Hs He]].
  destruct (hier_step c st id (get_type (c_sp c) id)) as [st1 [e1|]]; cbn [fst snd] in *.
  - split; [exact Hq|]. cbn [res_io]. rewrite (He e1 eq_refl), Hs. apply adv_refl.
  - assert (H2 : forall A (r : res rerr A), res_io r = None -> io_step st st1 r).
    { intros A r E. split; [exact Hq|]. rewrite E, Hs. apply adv_refl. }
    destruct (r_bad st1); [apply H2; reflexivity|]. destruct (negb (c_allow_over c) && _); [apply H2; reflexivity|].
    destruct (c_max c); destruct (ebml_size size sl); try destruct (_ <? _); apply H2; reflexivity.
Qed.

Lemma peek_header_io c st : io_step st (fst (peek_header c st)) (snd (peek_header c st)).
Proof.
  rewrite peek_header_unfold. pose proof (ensure_io 16 st) as H1.
  destruct (ensure 16 st) as [st1 [b|e|]]; cbn [fst snd] in *; try exact H1.
  pose proof (peek_tag_id_io st1) as H2.
  destruct (peek_tag_id st1) as [st2 [[id idl]|e|]]; cbn [fst snd] in *.
  - eapply io_step_trans; [exact H1|reflexivity|]. eapply io_step_trans; [exact H2|reflexivity|apply hdr_tail_io].
  - eapply io_step_trans; [exact H1|reflexivity|exact H2].
  - eapply io_step_trans; [exact H1|reflexivity|exact H2].
Qed.

Lemma tag_tail_io c st ts h : io_step st (fst (tag_tail c st ts h)) (snd (tag_tail c st ts h)).
Proof.
  destruct h as [[[id ty] esz] hl]. unfold tag_tail.
  set (stc := consume st (N.of_nat hl)).
  assert (H0 : forall A (r : res rerr A), res_io r = None -> io_step st stc r).
  { intros A r E. destruct (consume_io st (N.of_nat hl)) as [Hq Hs]. split; [exact Hq|]. rewrite E. fold stc in Hs. rewrite Hs. apply adv_refl. }
  destruct esz as [size|].
  2:{ destruct ty as [[]|]; cbn [fst snd]; apply H0; reflexivity. }
  set (st2 := set_cap stc (N.max (r_cap stc) size)).
  assert (H3 : io_step st (fst (ensure size st2)) (snd (ensure size st2))).
  { assert (H12 : io_step stc st2 (@Ok rerr bool true)) by (split; [reflexivity|apply adv_refl]).
    exact (io_step_trans _ _ _ _ _ (H0 bool (Ok true) eq_refl) eq_refl (io_step_trans _ _ _ _ _ H12 eq_refl (ensure_io size st2))). }
  destruct ty as [[]|]; try (cbn [fst snd]; apply H0; reflexivity).
  all: destruct (ensure size st2) as [st3 [[|]|e|]]; cbn [fst snd] in *; try exact H3.
  all: try (eapply io_step_trans; [exact H3|reflexivity|apply io_step_refl; reflexivity]).
  all: destruct (splitN size (r_win st3)) as [raw rest'].
  all: assert (H4 : forall A (r : res rerr A), res_io r = None -> io_step st (consume st3 size) r)
         by (intros A r E; eapply io_step_trans; [exact H3|reflexivity|];
             destruct (consume_io st3 size) as [Hq Hs]; split; [exact Hq|rewrite E, Hs; apply adv_refl]).
  all: try (destruct (arr_to_u64 raw); apply H4; reflexivity).
  all: try (destruct (arr_to_i64 raw); apply H4; reflexivity).
  all: try (destruct (arr_to_f64 raw); apply H4; reflexivity).
  all: try (destruct (utf8_valid raw); apply H4; reflexivity).
  all: apply H4; reflexivity.
Qed.

Lemma read_tag_io c st : io_step st (fst (read_tag c st)) (snd (read_tag c st)).
Proof.
  rewrite read_tag_unfold. pose proof (peek_header_io c st) as H1.
  destruct (peek_header c st) as [st1 [h|e|]]; cbn [fst snd] in *; try exact H1.
  eapply io_step_trans; [exact H1|reflexivity|apply tag_tail_io].
Qed.

Definition ores_io {A} (r : option (res rerr A)) : option N := match r with Some x => res_io x | None => None end.

Lemma read_tag_checked_io c st :
  r_queue (fst (read_tag_checked c st)) = r_queue st /\
  adv (r_script st) (r_script (fst (read_tag_checked c st))) (ores_io (snd (read_tag_checked c st))).
Proof.
  unfold read_tag_checked. destruct (r_wlen st =? 0).
  - pose proof (ensure_io 1 st) as H1.
    destruct (ensure 1 st) as [st1 [[|]|e|]]; cbn [fst snd] in *; try exact H1.
    pose proof (read_tag_io c st1) as H2. destruct (read_tag c st1) as [st2 r2]. cbn [fst snd ores_io] in *.
    exact (io_step_trans _ _ _ _ _ H1 eq_refl H2).
  - pose proof (read_tag_io c st) as H2. destruct (read_tag c st) as [st2 r2]. exact H2.
Qed.

(* ------------------------------------------------------------------ the emission queue *)
Definition noerr (q : list qitem) : Prop := Forall (fun x => qitem_is_err x = false) q.

Lemma noerr_ends l : noerr (map end_item l).
Proof. induction l; constructor; [reflexivity|assumption]. Qed.

Lemma noerr_app a b : noerr (a ++ b) <-> noerr a /\ noerr b.
Proof. apply Forall_app. Qed.

(* what a call adds to the queue: items without an error and no Fail consumed; or items without an error followed by ONE
   error, which is the last item - the source's error exactly when a Fail event was consumed (the last event consumed) *)
Definition qpost (s s' : list rd) (new : list qitem) : Prop :=
  (noerr new /\ adv s s' None) \/
  (exists new0 e, new = new0 ++ [QErr e] /\ noerr new0 /\ adv s s' (err_io e)).

Lemma qpost_prepend s s' l new : noerr l -> qpost s s' new -> qpost s s' (l ++ new).
Proof.
  intros Hl [[Hn Ha]|[new0 [e [-> [Hn Ha]]]]].
  - left. split; [apply noerr_app; split; assumption|exact Ha].
  - right. exists (l ++ new0), e. split; [apply app_assoc|]. split; [apply noerr_app; split; assumption|exact Ha].
Qed.

Lemma qpost_trans s s1 s' new : adv s s1 None -> qpost s1 s' new -> qpost s s' new.
Proof.
  intros H [[Hn Ha]|[new0 [e [-> [Hn Ha]]]]].
  - left. split; [exact Hn|eapply adv_trans; eassumption].
  - right. exists new0, e. split; [reflexivity|]. split; [exact Hn|eapply adv_trans; eassumption].
Qed.

Lemma qpost_noerr s s' new : qpost s s' new -> noerr new -> adv s s' None.
Proof.
  intros [[_ Ha]|[new0 [e [-> [_ _]]]]] Hn; [exact Ha|].
  apply noerr_app in Hn. destruct Hn as [_ Hn]. inversion Hn as [|? ? Hx _]. discriminate Hx.
Qed.

Lemma scan_queue_spec id : forall l pos p found, scan_queue id l pos = (p, found) ->
  exists a b, l = a ++ b /\ p = (pos + length a)%nat /\ noerr a /\
    (if found then exists x b', b = x :: b' else b = []).
Proof.
  induction l as [|x tl IH]; intros pos p found H; cbn [scan_queue] in H.
  - inversion H; subst. exists [], []. repeat split; [cbn; lia|constructor].
  - destruct (qitem_is_err x || qitem_is_end_of id x) eqn:E.
    + inversion H; subst. exists [], (x :: tl). split; [reflexivity|]. split; [cbn; lia|]. split; [constructor|].
      exists x, tl. reflexivity.
    + destruct (IH _ _ _ H) as [a [b [-> [-> [Hn Hf]]]]]. exists (x :: a), b. split; [reflexivity|]. split; [cbn; lia|].
      split; [|exact Hf]. constructor; [|exact Hn]. apply Bool.orb_false_iff in E. apply E.
Qed.

Lemma skipn_length_app {A} (a b : list A) : skipn (length a) (a ++ b) = b.
Proof. induction a; [reflexivity|exact IHa]. Qed.
Lemma firstn_length_app {A} (a b : list A) : firstn (length a) (a ++ b) = a.
Proof. induction a; [reflexivity|cbn; rewrite IHa; reflexivity]. Qed.
Lemma nth_error_middle {A} (a : list A) x b : nth_error (a ++ x :: b) (length a) = Some x.
Proof. induction a; [reflexivity|exact IHa]. Qed.
Lemma skipn_S_middle {A} (a : list A) x b : skipn (S (length a)) (a ++ x :: b) = b.
Proof. induction a; [reflexivity|exact IHa]. Qed.
Lemma skipn_app_le {A} n (a b : list A) : (n <= length a)%nat -> skipn n (a ++ b) = skipn n a ++ b.
Proof. intros H. rewrite skipn_app. replace (n - length a)%nat with O by lia. reflexivity. Qed.
Lemma firstn_app_le {A} n (a b : list A) : (n <= length a)%nat -> firstn n (a ++ b) = firstn n a.
Proof. intros H. rewrite firstn_app. replace (n - length a)%nat with O by lia. cbn. apply app_nil_r. Qed.

Lemma bm_finish_queue tid ts pre st p kept ka x b' :
  r_queue st = kept ++ (ka ++ x :: b') -> length kept = pre -> (p - pre)%nat = length ka ->
  r_script (bm_finish tid ts pre st p) = r_script st /\
  r_queue (bm_finish tid ts pre st p) =
    match x with
    | QOk _ _ => kept ++ QOk (roll_up_children tid (qtags ka)) ts :: b'
    | QErr e => kept ++ [QErr e]
    end.
Proof.
  intros Hq Hk Hp. unfold bm_finish. rewrite Hq, Hp, <- Hk, skipn_length_app, firstn_length_app, nth_error_middle.
  destruct x as [t o|e]; [|split; reflexivity].
  rewrite firstn_length_app, skipn_S_middle. split; reflexivity.
Qed.

Lemma last_split_cases {A} (n0 : list A) y a x b' : n0 ++ [y] = a ++ x :: b' ->
  (b' = [] /\ a = n0 /\ x = y) \/ exists b'', b' = b'' ++ [y] /\ n0 = a ++ x :: b''.
Proof.
  intros H. induction b' as [|z b'' _] using rev_ind.
  - left. apply (app_inj_tail n0 a y x) in H. destruct H; subst. repeat split.
  - right. exists b''. rewrite app_comm_cons, app_assoc in H. apply app_inj_tail in H. destruct H as [-> ->].
    split; reflexivity.
Qed.

(* ------------------------------------------------------------------ read_next / buffer_master *)
Lemma pop_frames_io st k :
  r_queue (pop_frames st k) = r_queue st ++ map end_item (firstn k (r_stack st)) /\ r_script (pop_frames st k) = r_script st.
Proof. split; reflexivity. Qed.

Lemma push_q_queue st l : r_queue (push_q st l) = r_queue st ++ l. Proof. reflexivity. Qed.
Lemma push_q_script st l : r_script (push_q st l) = r_script st. Proof. reflexivity. Qed.
Lemma set_bad_queue st b : r_queue (set_bad st b) = r_queue st. Proof. reflexivity. Qed.
Lemma set_bad_script st b : r_script (set_bad st b) = r_script st. Proof. reflexivity. Qed.
Lemma pop_frames_queue st k : r_queue (pop_frames st k) = r_queue st ++ map end_item (firstn k (r_stack st)). Proof. reflexivity. Qed.
Lemma pop_frames_script st k : r_script (pop_frames st k) = r_script st. Proof. reflexivity. Qed.

Lemma rn_bm_io c : forall fuel,
  (forall st, exists new, r_queue (read_next fuel c st) = r_queue st ++ new /\
                          qpost (r_script st) (r_script (read_next fuel c st)) new) /\
  (forall tid ts pre st, (pre <= length (r_queue st))%nat -> noerr (skipn pre (r_queue st)) ->
     exists new, r_queue (buffer_master fuel c tid ts pre (length (r_queue st)) st) = firstn pre (r_queue st) ++ new /\
                 qpost (r_script st) (r_script (buffer_master fuel c tid ts pre (length (r_queue st)) st)) new).
Proof.
  induction fuel as [|f [IH1 IH2]].
  - split.
    + intros st. exists []. split; [cbn [read_next]; rewrite set_bad_queue, app_nil_r; reflexivity|]. left. split; [constructor|apply adv_refl].
    + intros tid ts pre st Hpre Hn. exists (skipn pre (r_queue st)). split; [cbn [buffer_master]; rewrite set_bad_queue, firstn_skipn; reflexivity|].
      left. split; [exact Hn|apply adv_refl].
  - split.
    + intros st. rewrite read_next_unfold. cbn zeta.
      set (st0 := pop_frames st (exhausted_count (r_off st) (r_stack st))).
      set (ends := map end_item (firstn (exhausted_count (r_off st) (r_stack st)) (r_stack st))).
      assert (Hq0 : r_queue st0 = r_queue st ++ ends) by reflexivity.
      assert (Hs0 : r_script st0 = r_script st) by reflexivity.
      destruct (read_tag_checked_io c st0) as [Hq2 Ha2].
      destruct (read_tag_checked c st0) as [st2 [[p|e|]|]]; cbn [fst snd ores_io res_io] in *; rewrite Hs0, Hq0 in *.
      * (* a tag *)
        set (st3 := pop_frames st2 _).
        set (ends2 := map end_item (firstn (count_ended (c_sp c) (tag_id (p_tag p)) (stack_view (r_stack st2))) (r_stack st2))).
        assert (Hq3 : r_queue st3 = (r_queue st ++ ends) ++ ends2) by (unfold st3; rewrite pop_frames_queue, Hq2; reflexivity).
        assert (Hs3 : r_script st3 = r_script st2) by reflexivity.
        assert (Plain : exists new, r_queue (push_q st3 [QOk (p_tag p) (p_start p)]) = r_queue st ++ new /\
                          qpost (r_script st) (r_script (push_q st3 [QOk (p_tag p) (p_start p)])) new).
        { exists (ends ++ ends2 ++ [QOk (p_tag p) (p_start p)]). split; [rewrite push_q_queue, Hq3, <- !app_assoc; reflexivity|].
          rewrite push_q_script, Hs3. left. split; [|exact Ha2]. apply noerr_app. split; [apply noerr_ends|]. apply noerr_app. split; [apply noerr_ends|].
          constructor; [reflexivity|constructor]. }
        destruct (p_tag p) as [|id0| |]; try exact Plain.
        destruct (mem_id _ _); [|exact Plain].
        set (st4 := set_stack st3 _ _).
        assert (Hq4 : r_queue st4 = r_queue st3) by reflexivity.
        assert (Hs4 : r_script st4 = r_script st2) by reflexivity.
        destruct (IH2 (tag_id (TStart id0)) (p_start p) (length (r_queue st4)) st4 (le_n _)) as [new [Hqn Hpn]].
        { rewrite skipn_all. constructor. }
        rewrite firstn_all in Hqn. exists (ends ++ ends2 ++ new). split; [rewrite Hqn, Hq4, Hq3, <- !app_assoc; reflexivity|].
        apply qpost_prepend; [apply noerr_ends|]. apply qpost_prepend; [apply noerr_ends|].
        eapply qpost_trans; [exact Ha2|]. rewrite <- Hs4. exact Hpn.
      * (* an error *)
        exists (ends ++ [QErr e]). split; [rewrite push_q_queue, Hq2, <- app_assoc; reflexivity|].
        rewrite push_q_script. right. exists ends, e. split; [reflexivity|]. split; [apply noerr_ends|exact Ha2].
      * (* a panic site *)
        exists ends. split; [rewrite set_bad_queue, Hq2; reflexivity|]. rewrite set_bad_script. left. split; [apply noerr_ends|exact Ha2].
      * (* nothing more for now *)
        destruct (c_emit_eof c).
        -- exists (ends ++ map end_item (firstn (length (r_stack st2)) (r_stack st2))).
           split; [rewrite pop_frames_queue, Hq2, <- app_assoc; reflexivity|]. rewrite pop_frames_script. left. split; [|exact Ha2].
           apply noerr_app. split; apply noerr_ends.
        -- exists ends. split; [exact Hq2|]. left. split; [apply noerr_ends|exact Ha2].
    + intros tid ts pre st Hpre Hn. rewrite buffer_master_unfold. rewrite Nat.leb_refl. cbn zeta.
      destruct (IH1 st) as [new1 [Hq1 Hp1]]. set (st1 := read_next f c st) in *.
      set (q := r_queue st) in *.
      assert (Hsplit : q ++ new1 = firstn pre q ++ (skipn pre q ++ new1)) by (rewrite app_assoc, firstn_skipn; reflexivity).
      destruct (r_bad st1).
      { exists (skipn pre q ++ new1). split; [rewrite Hq1; exact Hsplit|]. apply qpost_prepend; assumption. }
      destruct (length (r_queue st1) <=? length q)%nat eqn:El.
      { (* read_next produced nothing: end of input inside the buffered master *)
        apply Nat.leb_le in El. rewrite Hq1, app_length in El. destruct new1 as [|x1 new1]; [|cbn in El; lia].
        exists (skipn pre q ++ [QErr (REof ts (Some tid) None None)]).
        split; [rewrite push_q_queue, Hq1, app_nil_r, app_assoc, firstn_skipn; reflexivity|].
        rewrite push_q_script. right. exists (skipn pre q), (REof ts (Some tid) None None). split; [reflexivity|]. split; [exact Hn|].
        cbn [err_io]. apply (qpost_noerr _ _ _ Hp1). constructor. }
      rewrite Hq1. unfold q at 2. fold q. rewrite skipn_length_app.
      destruct (scan_queue tid new1 (length q)) as [p found] eqn:Es.
      destruct (scan_queue_spec _ _ _ _ _ Es) as [a [b [Hab [Hp [Hna Hf]]]]].
      destruct found.
      * (* the end of the master, or an error, is in the queue *)
        destruct Hf as [x [b' ->]].
        assert (Hq1' : r_queue st1 = firstn pre q ++ ((skipn pre q ++ a) ++ x :: b')).
        { rewrite Hq1, Hab, <- (firstn_skipn pre q) at 1. rewrite <- !app_assoc. reflexivity. }
        assert (Hlen : length (firstn pre q) = pre) by (apply firstn_length_le; exact Hpre).
        assert (Hidx : (p - pre)%nat = length (skipn pre q ++ a)) by (rewrite app_length, skipn_length; lia).
        destruct (bm_finish_queue tid ts pre st1 p _ _ _ _ Hq1' Hlen Hidx) as [Hsf Hqf]. rewrite Hsf.
        destruct x as [t o|e'].
        -- eexists. split; [exact Hqf|]. destruct Hp1 as [[Hn1 Ha1]|[new0 [e [Hnew [Hn0 Ha1]]]]].
           ++ left. split; [|exact Ha1]. rewrite Hab in Hn1. apply noerr_app in Hn1. destruct Hn1 as [_ Hn1].
              inversion Hn1; subst. constructor; [reflexivity|assumption].
           ++ rewrite Hab in Hnew. symmetry in Hnew. destruct (last_split_cases _ _ _ _ _ Hnew) as [[_ [_ Hx]]|[b'' [-> Hn0']]]; [discriminate Hx|].
              right. exists (QOk (roll_up_children tid (qtags (skipn pre q ++ a))) ts :: b''), e.
              split; [reflexivity|]. split; [|exact Ha1]. rewrite Hn0' in Hn0. apply noerr_app in Hn0. destruct Hn0 as [_ Hn0].
              inversion Hn0; subst. constructor; [reflexivity|assumption].
        -- exists [QErr e']. split; [exact Hqf|]. destruct Hp1 as [[Hn1 Ha1]|[new0 [e [Hnew [Hn0 Ha1]]]]].
           ++ exfalso. rewrite Hab in Hn1. apply noerr_app in Hn1. destruct Hn1 as [_ Hn1]. inversion Hn1 as [|? ? Hx _]. discriminate Hx.
           ++ rewrite Hab in Hnew. symmetry in Hnew. destruct (last_split_cases _ _ _ _ _ Hnew) as [[_ [_ Hx]]|[b'' [_ Hn0']]].
              ** inversion Hx; subst. right. exists [], e. split; [reflexivity|]. split; [constructor|exact Ha1].
              ** exfalso. rewrite Hn0' in Hn0. apply noerr_app in Hn0. destruct Hn0 as [_ Hn0]. inversion Hn0 as [|? ? Hx _]. discriminate Hx.
      * (* keep reading *)
        subst b. rewrite app_nil_r in Hab. subst a.
        assert (Hp' : p = length (r_queue st1)) by (rewrite Hq1, app_length; exact Hp).
        rewrite Hp'.
        assert (Hpre1 : (pre <= length (r_queue st1))%nat) by (rewrite Hq1, app_length; lia).
        assert (Hn1 : noerr (skipn pre (r_queue st1))).
        { rewrite Hq1, skipn_app_le by exact Hpre. apply noerr_app. split; assumption. }
        destruct (IH2 tid ts pre st1 Hpre1 Hn1) as [new [Hqn Hpn]].
        exists new. split; [rewrite Hqn, Hq1, firstn_app_le by exact Hpre; reflexivity|].
        eapply qpost_trans; [apply (qpost_noerr _ _ _ Hp1 Hna)|exact Hpn].
Qed.

(* ------------------------------------------------------------------ next() *)
(* the source errors waiting in the emission queue; the source error a call of next() returns *)
Definition ioq (q : list qitem) : list N :=
  flat_map (fun x => match x with QErr (RIo code) => [code] | _ => [] end) q.
Definition nres_io (r : nres) : list N := match r with NErr (RIo code) => [code] | _ => [] end.

Lemma ioq_app a b : ioq (a ++ b) = ioq a ++ ioq b.
Proof. apply flat_map_app. Qed.

Lemma ioq_noerr q : noerr q -> ioq q = [].
Proof.
  induction 1 as [|x q Hx _ IH]; [reflexivity|]. destruct x as [t o|e]; [exact IH|discriminate Hx].
Qed.

Lemma ioq_err e : ioq [QErr e] = match err_io e with Some code => [code] | None => [] end.
Proof. destruct e; reflexivity. Qed.

(* what is still to come: the source errors queued, then the Fail events not yet consumed *)
Definition pending (st : rst) : list N := ioq (r_queue st) ++ fails (r_script st).

(* next() with an empty queue, as a whole: either no Fail event is consumed, no source error is returned or queued; or exactly
   one is consumed, it is the last event consumed, and its error is returned by this call - or, when this call first delivers
   items (the Ends of masters it closes), it is the last item of the queue, behind items that are not errors *)
Theorem next_reports_fail c st : r_queue st = [] ->
  (adv (r_script st) (r_script (fst (next c st))) None /\ ioq (r_queue (fst (next c st))) = [] /\ nres_io (snd (next c st)) = []) \/
  (exists code, adv (r_script st) (r_script (fst (next c st))) (Some code) /\
     ((snd (next c st) = NErr (RIo code) /\ r_queue (fst (next c st)) = []) \/
      (exists t off q, snd (next c st) = NItem t off /\ r_queue (fst (next c st)) = q ++ [QErr (RIo code)] /\ noerr q))).
Proof.
  intros Hq. unfold next. rewrite Hq.
  destruct (proj1 (rn_bm_io c (r_fuel st)) st) as [new [Hqn Hp]]. rewrite Hq in Hqn. cbn [app] in Hqn.
  set (st1 := read_next (r_fuel st) c st) in *.
  destruct Hp as [[Hn Ha]|[new0 [e [Hnew [Hn Ha]]]]].
  - left. rewrite Hqn. destruct new as [|[t o|e] q']; cbn [fst snd nres_io].
    + split; [exact Ha|]. split; [rewrite Hqn|]; reflexivity.
    + split; [exact Ha|]. split; [|reflexivity]. inversion Hn; subst. apply ioq_noerr. assumption.
    + inversion Hn as [|? ? Hx _]. discriminate Hx.
  - rewrite Hqn, Hnew. destruct new0 as [|[t o|e0] q']; cbn [app fst snd].
    + destruct e; cbn [err_io] in Ha; try (left; split; [exact Ha|split; reflexivity]).
      right. exists code. split; [exact Ha|]. left. split; reflexivity.
    + inversion Hn; subst.
      destruct e; cbn [err_io] in Ha;
        try (left; split; [exact Ha|split; [|reflexivity]]; cbn [r_queue set_last set_queue]; rewrite ioq_app, ioq_noerr by assumption; reflexivity).
      right. exists code. split; [exact Ha|]. right. exists t, o, q'. split; [reflexivity|]. split; [reflexivity|assumption].
    + inversion Hn as [|? ? Hx _]. discriminate Hx.
Qed.

(* next() with a non-empty queue reads nothing: it delivers the first queued item *)
Theorem next_queued c st x q : r_queue st = x :: q ->
  r_script (fst (next c st)) = r_script st /\ r_queue (fst (next c st)) = q /\
  snd (next c st) = match x with QOk t off => NItem t off | QErr e => NErr e end.
Proof. intros Hq. unfold next. rewrite Hq. cbv zeta iota. rewrite Hq. destruct x as [t o|e]; (split; [reflexivity|split; reflexivity]). Qed.

(* the accounting form, for every state: nothing is lost and nothing is invented by a call of next() *)
Theorem next_accounts c st : pending st = nres_io (snd (next c st)) ++ pending (fst (next c st)).
Proof.
  unfold pending. destruct (r_queue st) as [|x q] eqn:Hq.
  - destruct (next_reports_fail c st Hq) as [[Ha [Hi Hr]]|[code [Ha [[Hr Hq']|[t [off [q' [Hr [Hq' Hn]]]]]]]]];
      rewrite (adv_fails _ _ _ Ha), Hr; cbn [nres_io ioq flat_map app].
    + rewrite Hi. reflexivity.
    + rewrite Hq'. reflexivity.
    + rewrite Hq', ioq_app, (ioq_noerr _ Hn). reflexivity.
  - destruct (next_queued c st x q Hq) as [Hs [Hq' Hr]]. rewrite Hs, Hq', Hr.
    destruct x as [t o|e]; [reflexivity|]. destruct e; reflexivity.
Qed.

(* without buffered masters, and when the call has no End of an exhausted known-size master to deliver first, the error is
   returned by the call itself *)
Theorem next_returns_fail_unbuffered c st code : c_buffered c = [] -> r_queue st = [] ->
  exhausted_count (r_off st) (r_stack st) = O ->
  adv (r_script st) (r_script (fst (next c st))) (Some code) -> snd (next c st) = NErr (RIo code).
Proof.
  intros Hb Hq Hx Ha.
  assert (Hrn : r_queue (read_next (r_fuel st) c st) = [QErr (RIo code)]).
  { assert (Ha' : adv (r_script st) (r_script (read_next (r_fuel st) c st)) (Some code)).
    { revert Ha. unfold next. rewrite Hq. destruct (r_queue (read_next (r_fuel st) c st)) as [|[t o|e] q']; exact (fun H => H). }
    clear Ha. destruct (r_fuel st) as [|f].
    - exfalso. cbn [read_next] in Ha'. rewrite set_bad_script in Ha'. pose proof (adv_unique _ _ _ _ Ha' (adv_refl _)). discriminate.
    - revert Ha'. rewrite read_next_unfold. cbn zeta. rewrite Hx.
      set (st0 := pop_frames st 0).
      assert (Hq0 : r_queue st0 = []) by (unfold st0; rewrite pop_frames_queue, Hq; reflexivity).
      assert (Hs0 : r_script st0 = r_script st) by reflexivity.
      destruct (read_tag_checked_io c st0) as [Hq2 Ha2]. rewrite Hq0 in Hq2. rewrite Hs0 in Ha2.
      destruct (read_tag_checked c st0) as [st2 [[p|e|]|]]; cbn [fst snd ores_io res_io] in *.
      + rewrite Hb. destruct (p_tag p); intros Ha'; pose proof (adv_unique _ _ _ _ Ha' Ha2); discriminate.
      + rewrite push_q_script, push_q_queue, Hq2. intros Ha'. pose proof (adv_unique _ _ _ _ Ha' Ha2) as E.
        destruct e; try discriminate E. cbn in E. inversion E; subst. reflexivity.
      + rewrite set_bad_script. intros Ha'. pose proof (adv_unique _ _ _ _ Ha' Ha2). discriminate.
      + intros Ha'. exfalso. assert (Hs : r_script (if c_emit_eof c then pop_frames st2 (length (r_stack st2)) else st2) = r_script st2)
          by (destruct (c_emit_eof c); reflexivity).
        rewrite Hs in Ha'. pose proof (adv_unique _ _ _ _ Ha' Ha2). discriminate. }
  unfold next. rewrite Hq, Hrn. reflexivity.
Qed.

(* ------------------------------------------------------------------ try_recover() *)
Definition oerr_io (r : option rerr) : option N := match r with Some e => err_io e | None => None end.

Lemma recover_loop_io c : forall fuel st,
  r_queue (fst (recover_loop fuel c st)) = r_queue st /\
  adv (r_script st) (r_script (fst (recover_loop fuel c st))) (oerr_io (snd (recover_loop fuel c st))).
Proof.
  induction fuel as [|f IH]; intros st; cbn [recover_loop].
  - split; [reflexivity|apply adv_refl].
  - pose proof (ensure_io 1 st) as H1.
    destruct (ensure 1 st) as [st1 [[|]|e|]]; cbn [fst snd oerr_io res_io] in *; try exact H1.
    set (st2 := consume st1 1).
    assert (H12 : io_step st st2 (@Ok rerr bool true)).
    { eapply io_step_trans; [exact H1|reflexivity|]. destruct (consume_io st1 1) as [Hq Hs]. split; [exact Hq|]. fold st2 in Hs. rewrite Hs. apply adv_refl. }
    pose proof (io_step_trans _ _ _ _ _ H12 eq_refl (peek_header_io c st2)) as H3.
    destruct (peek_header c st2) as [st3 [h|e|]]; cbn [fst snd oerr_io res_io] in *; try exact H3.
    destruct e; cbn [fst snd oerr_io err_io] in *; try exact H3.
    all: destruct H3 as [Hq3 Ha3]; destruct (IH st3) as [Hq4 Ha4]; (split; [congruence|eapply adv_trans; eassumption]).
Qed.

(* try_recover() leaves the queue alone, and a Fail event it consumes is the last event it consumes and is what it returns *)
Theorem try_recover_io c st :
  r_queue (fst (try_recover c st)) = r_queue st /\
  adv (r_script st) (r_script (fst (try_recover c st))) (oerr_io (snd (try_recover c st))).
Proof.
  unfold try_recover. pose proof (recover_loop_io c (r_fuel st) st) as H.
  destruct (recover_loop (r_fuel st) c st) as [st1 [e|]]; exact H.
Qed.

Corollary try_recover_reports_fail c st code :
  adv (r_script st) (r_script (fst (try_recover c st))) (Some code) -> snd (try_recover c st) = Some (RIo code).
Proof.
  intros Ha. destruct (try_recover_io c st) as [_ Hb]. pose proof (adv_unique _ _ _ _ Ha Hb) as E.
  destruct (snd (try_recover c st)) as [e|]; [|discriminate E]. destruct e; try discriminate E. cbn in E. inversion E; reflexivity.
Qed.

Definition orec_io (r : option rerr) : list N := match r with Some (RIo code) => [code] | _ => [] end.

Theorem try_recover_accounts c st :
  Permutation (pending st) (orec_io (snd (try_recover c st)) ++ pending (fst (try_recover c st))).
Proof.
  unfold pending. destruct (try_recover_io c st) as [Hq Ha]. rewrite Hq, (adv_fails _ _ _ Ha).
  destruct (snd (try_recover c st)) as [e|]; [|apply Permutation_refl].
  destruct e; cbn [oerr_io err_io orec_io app]; try apply Permutation_refl.
  apply Permutation_sym, Permutation_middle.
Qed.

(* the errors of the buffered try_recover(): the end of the input at the cursor, or the source's error *)
Lemma recover_loop_errors c : forall fuel st e, snd (recover_loop fuel c st) = Some e ->
  (exists o, e = REof o None None None) \/ exists code, e = RIo code.
Proof.
  induction fuel as [|f IH]; intros st e; cbn [recover_loop]; [discriminate|].
  pose proof (ensure_err 1 st) as H1.
  destruct (ensure 1 st) as [st1 [[|]|e1|]]; cbn [fst snd] in *.
  - destruct (peek_header c (consume st1 1)) as [st3 [h|e3|]]; cbn [snd]; try discriminate.
    destruct e3; cbn [snd]; try apply IH. intros H. inversion H; subst. right. eexists; reflexivity.
  - intros H. inversion H; subst. left. eexists; reflexivity.
  - intros H. inversion H; subst. right. apply H1. reflexivity.
  - discriminate.
Qed.

Theorem try_recover_errors_buffered c st e : snd (try_recover c st) = Some e ->
  (exists o, e = REof o None None None) \/ exists code, e = RIo code.
Proof.
  unfold try_recover. pose proof (recover_loop_errors c (r_fuel st) st) as H.
  destruct (recover_loop (r_fuel st) c st) as [st1 [e1|]]; cbn [snd] in *; [|discriminate].
  intros E. inversion E; subst. apply H. reflexivity.
Qed.

(* ------------------------------------------------------------------ runs *)
Definition out_io (o : rout) : list N :=
  match o with OErr (RIo code) => [code] | ORecErr (RIo code) => [code] | _ => [] end.
Definition outs_io (outs : list rout) : list N := flat_map out_io outs.

Lemma perm_chain {A} (a x b y d : list A) : Permutation a (x ++ b) -> Permutation b (y ++ d) -> Permutation a ((x ++ y) ++ d).
Proof.
  intros H1 H2. eapply Permutation_trans; [exact H1|]. rewrite <- app_assoc. apply Permutation_app_head. exact H2.
Qed.

Lemma run_all_accounts c : forall limit st, r_bad (fst (run_all limit c st)) = None ->
  Permutation (pending st) (outs_io (snd (run_all limit c st)) ++ pending (fst (run_all limit c st))).
Proof.
  induction limit as [|l IH]; intros st; cbn [run_all]; [intros _; apply Permutation_refl|].
  pose proof (next_accounts c st) as HN. destruct (next c st) as [st1 r]. cbn [fst snd] in HN.
  destruct (r_bad st1) eqn:Eb; [cbn [fst]; intros H; rewrite Eb in H; discriminate H|].
  destruct r as [t o|e|]; cbn [nres_io] in HN.
  - specialize (IH st1). destruct (run_all l c st1) as [st2 outs]. cbn [fst snd] in *. intros H.
    rewrite HN. cbn [app]. exact (IH H).
  - intros _. cbn [fst snd outs_io flat_map out_io]. rewrite HN, app_nil_r. destruct e; apply Permutation_refl.
  - intros _. rewrite HN. apply Permutation_refl.
Qed.

Lemma run_ops_accounts c limit : forall ops st, r_bad (fst (run_ops c limit st ops)) = None ->
  Permutation (pending st) (outs_io (snd (run_ops c limit st ops)) ++ pending (fst (run_ops c limit st ops))).
Proof.
  induction ops as [|op ops IH]; intros st; cbn [run_ops]; [intros _; apply Permutation_refl|]. destruct op.
  - pose proof (next_accounts c st) as HN. destruct (next c st) as [st1 r]. cbn [fst snd] in HN.
    destruct (r_bad st1) eqn:Eb; [cbn [fst]; intros H; rewrite Eb in H; discriminate H|].
    specialize (IH st1). destruct (run_ops c limit st1 ops) as [st2 outs]. cbn [fst snd] in *. intros H.
    cbn [outs_io flat_map]. fold (outs_io outs). rewrite HN.
    replace (out_io match r with NItem t off => OItem t off | NErr e => OErr e | NNone => ONone end) with (nres_io r)
      by (destruct r as [t o|e|]; [reflexivity|destruct e; reflexivity|reflexivity]).
    rewrite <- app_assoc. apply Permutation_app_head. exact (IH H).
  - pose proof (try_recover_accounts c st) as HN. destruct (try_recover c st) as [st1 r]. cbn [fst snd] in HN.
    destruct (r_bad st1) eqn:Eb; [cbn [fst]; intros H; rewrite Eb in H; discriminate H|].
    specialize (IH st1). destruct (run_ops c limit st1 ops) as [st2 outs]. cbn [fst snd] in *. intros H.
    cbn [outs_io flat_map]. fold (outs_io outs).
    replace (out_io match r with Some e => ORecErr e | None => ORecOk end) with (orec_io r)
      by (destruct r as [e|]; [destruct e; reflexivity|reflexivity]).
    eapply perm_chain; [exact HN|exact (IH H)].
  - pose proof (run_all_accounts c limit st) as HN. destruct (run_all limit c st) as [st1 outs1]. cbn [fst snd] in HN.
    destruct (r_bad st1) eqn:Eb; [cbn [fst]; intros H; rewrite Eb in H; discriminate H|].
    specialize (IH st1). destruct (run_ops c limit st1 ops) as [st2 outs]. cbn [fst snd] in *. intros H.
    unfold outs_io. rewrite flat_map_app. eapply perm_chain; [exact (HN eq_refl)|exact (IH H)].
Qed.

(* a run that was cut short by a panic site or by the recursion budget says so in its output *)
Lemma run_all_bad c : forall limit st b, r_bad st = None -> r_bad (fst (run_all limit c st)) = Some b ->
  In (bad_out b) (snd (run_all limit c st)).
Proof.
  induction limit as [|l IH]; intros st b H0; cbn [run_all]; [cbn [fst]; intros H; rewrite H0 in H; discriminate H|].
  destruct (next c st) as [st1 r]. destruct (r_bad st1) as [b1|] eqn:Eb.
  - cbn [fst snd]. intros H. rewrite Eb in H. inversion H; subst. left; reflexivity.
  - destruct r as [t o|e|]; try (cbn [fst]; intros H; rewrite Eb in H; discriminate H).
    specialize (IH st1 b Eb). destruct (run_all l c st1) as [st2 outs]. cbn [fst snd] in *. intros H. right. exact (IH H).
Qed.

Lemma run_ops_bad c limit : forall ops st b, r_bad st = None -> r_bad (fst (run_ops c limit st ops)) = Some b ->
  In (bad_out b) (snd (run_ops c limit st ops)).
Proof.
  induction ops as [|op ops IH]; intros st b H0; cbn [run_ops]; [cbn [fst]; intros H; rewrite H0 in H; discriminate H|]. destruct op.
  - destruct (next c st) as [st1 r]. destruct (r_bad st1) as [b1|] eqn:Eb.
    + cbn [fst snd]. intros H. rewrite Eb in H. inversion H; subst. left; reflexivity.
    + specialize (IH st1 b Eb). destruct (run_ops c limit st1 ops) as [st2 outs]. cbn [fst snd] in *. intros H. right. exact (IH H).
  - destruct (try_recover c st) as [st1 r]. destruct (r_bad st1) as [b1|] eqn:Eb.
    + cbn [fst snd]. intros H. rewrite Eb in H. inversion H; subst. left; reflexivity.
    + specialize (IH st1 b Eb). destruct (run_ops c limit st1 ops) as [st2 outs]. cbn [fst snd] in *. intros H. right. exact (IH H).
  - pose proof (run_all_bad c limit st) as HA. destruct (run_all limit c st) as [st1 outs1]. cbn [fst snd] in HA.
    destruct (r_bad st1) as [b1|] eqn:Eb.
    + cbn [fst snd]. intros H. apply HA; [exact H0|congruence].
    + specialize (IH st1 b Eb). destruct (run_ops c limit st1 ops) as [st2 outs]. cbn [fst snd] in *. intros H.
      apply in_or_app. right. exact (IH H).
Qed.

(* C05 (c): over any sequence of next()/try_recover()/drain calls that reports neither a panic nor fuel exhaustion, the Fail
   events of the script are, as a multiset, exactly: the source errors reported in the output, those still queued in the final
   state, and the Fail events the final state has not consumed *)
Theorem run_accounts_for_fails c cap0 script input ops :
  ~ In OPanic (run_reader c cap0 script input ops) -> ~ In OFuel (run_reader c cap0 script input ops) ->
  Permutation (fails script)
    (outs_io (run_reader c cap0 script input ops) ++
     ioq (r_queue (fst (run_reader_st c cap0 script input ops))) ++ fails (r_script (fst (run_reader_st c cap0 script input ops)))).
Proof.
  unfold run_reader, run_reader_st. intros HP HF.
  assert (Hb : r_bad (fst (run_ops c (4 * length input + 64) (r_init cap0 script input) ops)) = None).
  { destruct (r_bad (fst (run_ops c (4 * length input + 64) (r_init cap0 script input) ops))) as [b|] eqn:Eb; [|reflexivity].
    exfalso. pose proof (run_ops_bad c _ ops (r_init cap0 script input) b eq_refl Eb) as Hin.
    destruct b; [exact (HP Hin)|exact (HF Hin)]. }
  exact (run_ops_accounts c _ ops (r_init cap0 script input) Hb).
Qed.

(* ... so when the run has consumed the whole script and emptied the queue, every Fail event was reported, once *)
Corollary run_reports_every_fail c cap0 script input ops :
  ~ In OPanic (run_reader c cap0 script input ops) -> ~ In OFuel (run_reader c cap0 script input ops) ->
  r_queue (fst (run_reader_st c cap0 script input ops)) = [] -> fails (r_script (fst (run_reader_st c cap0 script input ops))) = [] ->
  Permutation (fails script) (outs_io (run_reader c cap0 script input ops)).
Proof.
  intros HP HF Hq Hs. pose proof (run_accounts_for_fails c cap0 script input ops HP HF) as H.
  rewrite Hq, Hs in H. cbn [ioq flat_map app] in H. rewrite app_nil_r in H. exact H.
Qed.

(* and in general nothing is reported that the source did not raise, and nothing twice *)
Corollary run_reports_only_fails c cap0 script input ops :
  ~ In OPanic (run_reader c cap0 script input ops) -> ~ In OFuel (run_reader c cap0 script input ops) ->
  exists rest, Permutation (fails script) (outs_io (run_reader c cap0 script input ops) ++ rest).
Proof. intros HP HF. eexists. exact (run_accounts_for_fails c cap0 script input ops HP HF). Qed.

(* ------------------------------------------------------------------ fused, with masters open (B5) *)
(* with EOF closing switched off: input exhausted, nothing queued, and no open known-size master is exhausted (so no End is
   due): next() returns None and leaves the state - open masters included - exactly as it was *)
Theorem exhausted_is_fused_open c st f : c_emit_eof c = false -> b_bytes st = [] -> b_queue st = [] ->
  exhausted_count (b_off st) (b_stack st) = O -> b_fuel st = S f -> p_next c st = (st, NNone).
Proof.
  intros He Hb Hq Hx Hf. destruct st as [bytes off stack queue last det bad fuel]. cbn in Hb, Hq, Hx, Hf. subst.
  unfold p_next. cbn [b_queue b_fuel]. rewrite p_read_next_unfold. cbn [b_off b_stack]. rewrite Hx. cbn. rewrite He. reflexivity.
Qed.

(* the hypothesis on exhausted masters holds as soon as the Ends that are due have been queued: after popping, none is due *)
Lemma exhausted_count_skipn off : forall stk, exhausted_count off (skipn (exhausted_count off stk) stk) = O.
Proof.
  induction stk as [|fr tl IH]; [reflexivity|]. cbn [exhausted_count].
  destruct (exhausted_count off tl) as [|k] eqn:Ek.
  - cbn [Nat.ltb Nat.leb]. destruct (frame_exhausted off fr) eqn:Ef.
    + cbn [skipn]. exact IH.
    + cbn [skipn exhausted_count]. rewrite Ek. cbn [Nat.ltb Nat.leb]. rewrite Ef. reflexivity.
  - cbn [Nat.ltb Nat.leb skipn]. exact IH.
Qed.

(* fused, in general (every configuration, masters open or not): at the end of the input, a call of next() that returns None
   has changed nothing - so every later call returns None again and the state, open masters included, stays as it is *)
Theorem none_is_fixed_point c st f : b_bytes st = [] -> b_fuel st = S f -> snd (p_next c st) = NNone -> p_next c st = (st, NNone).
Proof.
  intros Hb Hf. destruct st as [bytes off stack queue last det bad fuel]. cbn in Hb, Hf. subst.
  unfold p_next. cbn [b_queue b_fuel]. destruct queue as [|x q]; [|destruct x; cbn; discriminate].
  rewrite p_read_next_unfold. cbn [b_off b_stack]. remember (exhausted_count off stack) as k eqn:Ek. clear Ek.
  cbv zeta. unfold p_read_tag_checked. cbn [ppop_frames ppush_q pset_queue pset_stack b_bytes b_stack b_queue b_det app].
  destruct stack as [|fr tl].
  - destruct k; cbn; destruct (c_emit_eof c); cbn; reflexivity.
  - destruct k as [|k]; [|cbn; destruct (c_emit_eof c); cbn; discriminate].
    cbn. destruct (c_emit_eof c); cbn; [discriminate|reflexivity].
Qed.
