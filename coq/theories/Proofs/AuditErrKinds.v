(* C13 / C11 (audit items A5, A4): the header check as a decision list - the FIRST failing check, in the order of the code,
   determines the error; completeness (a failing check whose predecessors pass IS reported) and the converse of the reader's
   hierarchy error under a determined document position. *)
From Ebml Require Import Base Tools Spec Reader Pure.
From Ebml Require Import Proofs.Tactics Proofs.ReaderIO Proofs.Refine Proofs.PureProofs Proofs.ErrKinds.
Import ListNotations.
Local Open Scope N_scope.

Arguments vint_len : simpl never.
Arguments read_vint : simpl never.

Definition ksz (e : esize) : N := match e with SKnown n => n | SUnknown => 0 end.
Definition top_id (stk : list frame) : option N := match stk with f :: _ => Some (f_id f) | [] => None end.

(* the checks of peek_valid_tag_header, in the order of the code.  Every check is made only if all the earlier ones passed:
     1. the id bytes are present                       else UnexpectedEof at the cursor, no id
     2. the size field is a well-formed, complete vint else InvalidTagData (malformed) / UnexpectedEof with the id (incomplete)
     3. a numeric element declares at most 8 bytes     else InvalidTagData
     4. the id is known, or unknown ids are tolerated  else InvalidTagId
     5. hierarchy ([p_hier_step]: tolerated, or unknown id, or the position is undetermined and the declared path has a
        placeholder: no check; otherwise the chain of open masters - seeded with the implied parents while the position is
        undetermined - must match the declared path)  else HierarchyError (which carries NO offset: found id and parent id)
        [a specification whose path names a non-master makes the seeding panic]
     6. the element ends inside every enclosing known-size master, or oversized children are tolerated
                                                        else OversizedChildElement, with header length = id + size field bytes
     7. the declared size is known and within the limit, or there is no limit
                                                        else InvalidTagSize
   All errors but HierarchyError carry the cursor offset [b_off st], the offset of the element. *)
Definition first_failure (c : cfg) (st : pst) : pst * res rerr (N * option dtype * esize * nat) :=
  let pos := b_off st in
  match p_tag_id st with
  | Panic => (st, Panic)
  | Err e => (st, Err e)
  | Ok (id, idl) =>
  let ty := get_type (c_sp c) id in
  match read_vint (firstn 8 (skipn idl (b_bytes st))) with
  | Panic => (st, Panic)
  | Err _ => (st, Err (RInvalidTagData pos id))
  | Ok None => (st, Err (REof pos (Some id) None None))
  | Ok (Some (size, sl)) =>
  let esz := ebml_size size sl in
  let hl := (idl + sl)%nat in
  let st1 := fst (p_hier_step c st id ty) in
  if is_numeric ty && (8 <? size) then (st, Err (RInvalidTagData pos id))
  else if negb (c_allow_id c) && match ty with None => true | Some _ => false end then (st, Err (RInvalidTagId pos id))
  else match snd (p_hier_step c st id ty) with
  | Some e => (st1, Err e)
  | None =>
  match b_bad st1 with Some _ => (st1, Panic) | None =>
  if negb (c_allow_over c) && p_invalid_tag_size st1 (N.of_nat hl + ksz esz) then (st1, Err (ROversized pos id (ksz esz)))
  else if match c_max c, esz with Some m, SKnown n => m <? n | _, _ => false end then (st1, Err (RInvalidSize pos id (ksz esz)))
  else (st1, Ok (id, ty, esz, hl))
  end end end end.

Theorem header_decision c st : p_header c st = first_failure c st.
Proof.
  rewrite p_header_unfold. unfold first_failure. destruct (p_tag_id st) as [[id idl]|e|]; try reflexivity.
  unfold p_hdr_tail. destruct (read_vint _) as [[[size sl]|]|e|]; try reflexivity.
  destruct (is_numeric _ && _); [reflexivity|]. destruct (negb (c_allow_id c) && _); [reflexivity|].
  destruct (p_hier_step c st id (get_type (c_sp c) id)) as [st1 [e1|]]; cbn [fst snd]; [reflexivity|].
  destruct (b_bad st1); [reflexivity|]. unfold ksz. destruct (negb (c_allow_over c) && _); [reflexivity|].
  destruct (c_max c) as [m|]; destruct (ebml_size size sl) as [n|]; reflexivity.
Qed.

(* the hierarchy step, spelled out *)
Lemma hier_step_off c st id ty : c_allow_hier c = true \/ ty = None -> p_hier_step c st id ty = (st, None).
Proof.
  intros [H|H]; unfold p_hier_step; rewrite H; [reflexivity|]. destruct (negb (c_allow_hier c)); reflexivity.
Qed.

Lemma hier_step_det c st id d : c_allow_hier c = false -> b_det st = true ->
  p_hier_step c st id (Some d) =
    if validate_tag_path (c_sp c) id (stack_view (b_stack st)) then (st, None)
    else (st, Some (RHierarchy id (top_id (b_stack st)))).
Proof.
  intros H1 H2. unfold p_hier_step. rewrite H1, H2. cbn [negb andb]. rewrite H2. cbn [andb].
  destruct (validate_tag_path _ _ _); reflexivity.
Qed.

Lemma hier_step_undet_placeholder c st id d : b_det st = false -> all_ids (get_path (c_sp c) id) = false ->
  p_hier_step c st id (Some d) = (st, None).
Proof. intros H1 H2. unfold p_hier_step. destruct (c_allow_hier c); cbn [negb andb]; [reflexivity|]. rewrite H1, H2, H1. reflexivity. Qed.

Lemma hier_step_seed c st id d stk : c_allow_hier c = false -> b_det st = false -> all_ids (get_path (c_sp c) id) = true ->
  implied_stack (c_sp c) (get_path (c_sp c) id) = Some stk ->
  p_hier_step c st id (Some d) =
    let st1 := pset_stack st (b_stack st ++ stk) true in
    if validate_tag_path (c_sp c) id (stack_view (b_stack st1)) then (st1, None)
    else (st1, Some (RHierarchy id (top_id (b_stack st1)))).
Proof.
  intros H1 H2 H3 H4. unfold p_hier_step. rewrite H1, H2, H3, H4. cbn [negb andb b_det pset_stack b_stack].
  destruct (validate_tag_path _ _ _); reflexivity.
Qed.

Lemma p_tag_id_err st e : p_tag_id st = Err e -> e = REof (b_off st) None None None.
Proof.
  unfold p_tag_id. destruct (b_bytes st) as [|b0 tl]; [intros H; inversion H; reflexivity|].
  destruct (b0 =? 0); [discriminate|]. destruct (_ <? _); intros H; inversion H; reflexivity.
Qed.

(* ---- completeness: a failing check whose predecessors pass is the error reported *)
Section Complete.
Variable c : cfg.
Variable st : pst.

(* 1 *)
Theorem reports_id_incomplete e : p_tag_id st = Err e ->
  p_header c st = (st, Err e) /\ e = REof (b_off st) None None None.
Proof.
  intros H. rewrite header_decision. unfold first_failure. rewrite H. split; [reflexivity|].
  unfold p_tag_id in H. destruct (b_bytes st) as [|b0 tl]; [inversion H; reflexivity|].
  destruct (b0 =? 0); [discriminate|]. destruct (_ <? _); inversion H; reflexivity.
Qed.

Variables (id : N) (idl : nat).
Hypothesis Hid : p_tag_id st = Ok (id, idl).

(* 2 *)
Theorem reports_size_malformed x : read_vint (firstn 8 (skipn idl (b_bytes st))) = Err x ->
  p_header c st = (st, Err (RInvalidTagData (b_off st) id)).
Proof. intros H. rewrite header_decision. unfold first_failure. rewrite Hid, H. reflexivity. Qed.

Theorem reports_size_incomplete : read_vint (firstn 8 (skipn idl (b_bytes st))) = Ok None ->
  p_header c st = (st, Err (REof (b_off st) (Some id) None None)).
Proof. intros H. rewrite header_decision. unfold first_failure. rewrite Hid, H. reflexivity. Qed.

Variables (size : N) (sl : nat).
Hypothesis Hsz : read_vint (firstn 8 (skipn idl (b_bytes st))) = Ok (Some (size, sl)).

(* 3 *)
Theorem reports_numeric_size : is_numeric (get_type (c_sp c) id) = true -> 8 < size ->
  p_header c st = (st, Err (RInvalidTagData (b_off st) id)).
Proof.
  intros H1 H2. rewrite header_decision. unfold first_failure. rewrite Hid, Hsz, H1.
  destruct (N.ltb_spec 8 size); [reflexivity|lia].
Qed.

(* 4: an unknown id is never numeric, so nothing else has to pass *)
Theorem reports_unknown_id : get_type (c_sp c) id = None -> c_allow_id c = false ->
  p_header c st = (st, Err (RInvalidTagId (b_off st) id)).
Proof. intros H1 H2. rewrite header_decision. unfold first_failure. rewrite Hid, Hsz, H1, H2. reflexivity. Qed.

Hypothesis Hnum : is_numeric (get_type (c_sp c) id) && (8 <? size) = false.

(* 5: a known id (check 4 passes by itself) that does not fit the open masters, position determined *)
Theorem reports_hierarchy d : get_type (c_sp c) id = Some d -> c_allow_hier c = false -> b_det st = true ->
  validate_tag_path (c_sp c) id (stack_view (b_stack st)) = false ->
  p_header c st = (st, Err (RHierarchy id (top_id (b_stack st)))).
Proof.
  intros H1 H2 H3 H4. rewrite header_decision. unfold first_failure. rewrite Hid, Hsz, Hnum. rewrite H1 in *.
  rewrite Bool.andb_false_r. rewrite (hier_step_det c st id d H2 H3), H4. reflexivity.
Qed.

(* 5': ... position undetermined, declared path without placeholder: judged against the open masters plus the implied parents *)
Theorem reports_hierarchy_seeded d stk : get_type (c_sp c) id = Some d -> c_allow_hier c = false -> b_det st = false ->
  all_ids (get_path (c_sp c) id) = true -> implied_stack (c_sp c) (get_path (c_sp c) id) = Some stk ->
  validate_tag_path (c_sp c) id (stack_view (b_stack st ++ stk)) = false ->
  p_header c st = (pset_stack st (b_stack st ++ stk) true, Err (RHierarchy id (top_id (b_stack st ++ stk)))).
Proof.
  intros H1 H2 H3 H4 H5 H6. rewrite header_decision. unfold first_failure. rewrite Hid, Hsz, Hnum. rewrite H1 in *.
  rewrite Bool.andb_false_r. rewrite (hier_step_seed c st id d stk H2 H3 H4 H5). cbn zeta. cbn [pset_stack b_stack]. rewrite H6. reflexivity.
Qed.

(* 5'': ... position undetermined, declared path with a placeholder: NOT checked *)
Theorem hierarchy_unchecked_while_undetermined d : get_type (c_sp c) id = Some d -> b_det st = false ->
  all_ids (get_path (c_sp c) id) = false ->
  forall st' par, p_header c st <> (st', Err (RHierarchy id par)).
Proof.
  intros H1 H2 H3 st' par. rewrite header_decision. unfold first_failure. rewrite Hid, Hsz, Hnum. rewrite H1 in *.
  rewrite Bool.andb_false_r. rewrite (hier_step_undet_placeholder c st id d H2 H3). cbn [fst snd].
  destruct (b_bad st); [discriminate|]. destruct (negb (c_allow_over c) && _); [discriminate|].
  destruct (match c_max c with Some m => _ | None => _ end); discriminate.
Qed.

Variable st1 : pst.
Hypothesis Hknown : c_allow_id c = true \/ get_type (c_sp c) id <> None.
Hypothesis Hhier : p_hier_step c st id (get_type (c_sp c) id) = (st1, None).
Hypothesis Hbad : b_bad st1 = None.

Lemma known_check_passes : negb (c_allow_id c) && match get_type (c_sp c) id with None => true | Some _ => false end = false.
Proof. destruct Hknown as [H|H]; [rewrite H; reflexivity|]. destruct (get_type (c_sp c) id); [apply Bool.andb_false_r|contradiction]. Qed.

(* 6: with the header length actually decoded *)
Theorem reports_oversized_child : c_allow_over c = false ->
  p_invalid_tag_size st1 (N.of_nat (idl + sl) + ksz (ebml_size size sl)) = true ->
  p_header c st = (st1, Err (ROversized (b_off st) id (ksz (ebml_size size sl)))).
Proof.
  intros H1 H2. rewrite header_decision. unfold first_failure. rewrite Hid, Hsz, Hnum, known_check_passes, Hhier. cbn [fst snd].
  rewrite Hbad, H1, H2. reflexivity.
Qed.

Hypothesis Hover : negb (c_allow_over c) && p_invalid_tag_size st1 (N.of_nat (idl + sl) + ksz (ebml_size size sl)) = false.

(* 7 *)
Theorem reports_size_limit m n : c_max c = Some m -> ebml_size size sl = SKnown n -> m < n ->
  p_header c st = (st1, Err (RInvalidSize (b_off st) id n)).
Proof.
  intros H1 H2 H3. rewrite header_decision. unfold first_failure. rewrite Hid, Hsz, Hnum, known_check_passes, Hhier. cbn [fst snd].
  rewrite Hbad, Hover, H1, H2. cbn [ksz]. destruct (N.ltb_spec m n); [reflexivity|lia].
Qed.

(* all pass *)
Theorem header_accepted : (forall m n, c_max c = Some m -> ebml_size size sl = SKnown n -> n <= m) ->
  p_header c st = (st1, Ok (id, get_type (c_sp c) id, ebml_size size sl, (idl + sl)%nat)).
Proof.
  intros H. rewrite header_decision. unfold first_failure. rewrite Hid, Hsz, Hnum, known_check_passes, Hhier. cbn [fst snd].
  rewrite Hbad, Hover. destruct (c_max c) as [m|]; [|reflexivity]. destruct (ebml_size size sl) as [n|]; [|reflexivity].
  specialize (H m n eq_refl eq_refl). destruct (N.ltb_spec m n); [lia|reflexivity].
Qed.

End Complete.

(* ---- and back: the two errors that report the declared size imply that every earlier check passed, with the actual header
   length (strengthening [header_error_kinds], where it is existential) *)
Definition checks_1_to_5 (c : cfg) (st : pst) (id : N) (idl : nat) (size : N) (sl : nat) (st1 : pst) : Prop :=
  p_tag_id st = Ok (id, idl) /\ read_vint (firstn 8 (skipn idl (b_bytes st))) = Ok (Some (size, sl)) /\
  is_numeric (get_type (c_sp c) id) && (8 <? size) = false /\
  (c_allow_id c = true \/ get_type (c_sp c) id <> None) /\
  p_hier_step c st id (get_type (c_sp c) id) = (st1, None) /\ b_bad st1 = None.

Lemma header_late_cases c st st' r : p_header c st = (st', r) ->
  (forall pos id n, r = Err (ROversized pos id n) \/ r = Err (RInvalidSize pos id n) ->
     exists idl size sl, checks_1_to_5 c st id idl size sl st' /\ pos = b_off st /\ n = ksz (ebml_size size sl) /\
       (r = Err (ROversized pos id n) -> c_allow_over c = false /\ p_invalid_tag_size st' (N.of_nat (idl + sl) + n) = true) /\
       (r = Err (RInvalidSize pos id n) ->
          negb (c_allow_over c) && p_invalid_tag_size st' (N.of_nat (idl + sl) + n) = false /\
          exists m, c_max c = Some m /\ ebml_size size sl = SKnown n /\ m < n)).
Proof.
  rewrite header_decision. unfold first_failure.
  destruct (p_tag_id st) as [[id0 idl]|e|] eqn:Et; try (intros H; inversion H; subst; intros pos id n [E|E]; discriminate E).
  - destruct (read_vint _) as [[[size sl]|]|e|] eqn:Ev; try (intros H; inversion H; subst; intros pos id n [E|E]; discriminate E).
    destruct (is_numeric _ && _) eqn:En; [intros H; inversion H; subst; intros pos id n [E|E]; discriminate E|].
    destruct (negb (c_allow_id c) && _) eqn:Ek; [intros H; inversion H; subst; intros pos id n [E|E]; discriminate E|].
    destruct (p_hier_step c st id0 (get_type (c_sp c) id0)) as [st1 [e1|]] eqn:Eh; cbn [fst snd].
    { intros H; inversion H; subst. intros pos id n [E|E]; inversion E; subst.
      - destruct (p_hier_step_err_fields _ _ _ _ _ _ Eh) as [_ [_ [_ [_ Hx]]]]. discriminate Hx.
      - destruct (p_hier_step_err_fields _ _ _ _ _ _ Eh) as [_ [_ [_ [_ Hx]]]]. discriminate Hx. }
    destruct (b_bad st1) eqn:Eb; [intros H; inversion H; subst; intros pos id n [E|E]; discriminate E|].
    assert (C15 : checks_1_to_5 c st id0 idl size sl st1).
    { split; [exact Et|]. split; [exact Ev|]. split; [exact En|]. split; [|split; [exact Eh|exact Eb]].
      destruct (c_allow_id c); [left; reflexivity|right]. destruct (get_type (c_sp c) id0); [discriminate|discriminate Ek]. }
    destruct (negb (c_allow_over c) && _) eqn:Eo.
    { intros H; inversion H; subst. intros pos id n [E|E]; inversion E; subst. exists idl, size, sl.
      split; [exact C15|]. split; [reflexivity|]. split; [reflexivity|]. split; [|intros X; discriminate X].
      intros _. apply Bool.andb_true_iff in Eo. destruct Eo as [E1 E2]. split; [destruct (c_allow_over c); [discriminate|reflexivity]|exact E2]. }
    destruct (match c_max c with Some m => _ | None => _ end) eqn:Em.
    { intros H; inversion H; subst. intros pos id n [E|E]; inversion E; subst. exists idl, size, sl.
      split; [exact C15|]. split; [reflexivity|]. split; [reflexivity|]. split; [intros X; discriminate X|].
      intros _. split; [exact Eo|]. destruct (c_max c) as [m|]; [|discriminate]. destruct (ebml_size size sl) as [k|]; [|discriminate].
      exists m. split; [reflexivity|]. split; [reflexivity|]. apply N.ltb_lt. exact Em. }
    intros H; inversion H; subst. intros pos id n [E|E]; discriminate E.
  - intros H; inversion H; subst. rewrite (p_tag_id_err _ _ Et). intros pos id n [E|E]; discriminate E.
Qed.

Theorem oversized_error_fields c st st' pos id n : p_header c st = (st', Err (ROversized pos id n)) ->
  exists idl size sl, checks_1_to_5 c st id idl size sl st' /\ pos = b_off st /\ n = ksz (ebml_size size sl) /\
    c_allow_over c = false /\ p_invalid_tag_size st' (N.of_nat (idl + sl) + n) = true.
Proof.
  intros H. destruct (header_late_cases c st st' _ H pos id n (or_introl eq_refl)) as [idl [size [sl [H1 [H2 [H3 [H4 _]]]]]]].
  exists idl, size, sl. destruct (H4 eq_refl). repeat (split; [assumption|]). assumption.
Qed.

Theorem invalid_size_error_fields c st st' pos id n : p_header c st = (st', Err (RInvalidSize pos id n)) ->
  exists idl size sl m, checks_1_to_5 c st id idl size sl st' /\ pos = b_off st /\
    negb (c_allow_over c) && p_invalid_tag_size st' (N.of_nat (idl + sl) + n) = false /\
    c_max c = Some m /\ ebml_size size sl = SKnown n /\ m < n.
Proof.
  intros H. destruct (header_late_cases c st st' _ H pos id n (or_intror eq_refl)) as [idl [size [sl [H1 [H2 [H3 [_ H4]]]]]]].
  destruct (H4 eq_refl) as [H5 [m [H6 [H7 H8]]]]. exists idl, size, sl, m. repeat (split; [assumption|]). assumption.
Qed.

(* an InvalidTagId error: the id was decoded, the size field too, and the id is unknown and not tolerated *)
Theorem invalid_id_error_fields c st st' pos id : p_header c st = (st', Err (RInvalidTagId pos id)) ->
  st' = st /\ pos = b_off st /\ get_type (c_sp c) id = None /\ c_allow_id c = false /\
  exists idl size sl, p_tag_id st = Ok (id, idl) /\ read_vint (firstn 8 (skipn idl (b_bytes st))) = Ok (Some (size, sl)).
Proof.
  rewrite header_decision. unfold first_failure.
  destruct (p_tag_id st) as [[id0 idl]|e|] eqn:Et.
  - destruct (read_vint _) as [[[size sl]|]|e|] eqn:Ev; try (intros H; inversion H; fail).
    destruct (is_numeric _ && _) eqn:En; [intros H; inversion H|].
    destruct (negb (c_allow_id c) && _) eqn:Ek.
    + intros H; inversion H; subst. apply Bool.andb_true_iff in Ek. destruct Ek as [E1 E2].
      split; [reflexivity|]. split; [reflexivity|]. split; [destruct (get_type (c_sp c) id); [discriminate|reflexivity]|].
      split; [destruct (c_allow_id c); [discriminate|reflexivity]|]. exists idl, size, sl. split; [reflexivity|exact Ev].
    + destruct (p_hier_step c st id0 (get_type (c_sp c) id0)) as [st1 [e1|]] eqn:Eh; cbn [fst snd].
      * intros H; inversion H; subst. destruct (p_hier_step_err_fields _ _ _ _ _ _ Eh) as [_ [_ [_ [_ Hx]]]]. discriminate Hx.
      * destruct (b_bad st1); [intros H; inversion H|]. destruct (negb (c_allow_over c) && _); [intros H; inversion H|].
        destruct (match c_max c with Some m => _ | None => _ end); intros H; inversion H.
  - intros H; inversion H; subst. unfold p_tag_id in Et. destruct (b_bytes st') as [|b0 tl]; [discriminate|].
    destruct (b0 =? 0); [discriminate|]. destruct (_ <? _); discriminate.
  - intros H; inversion H.
Qed.

(* ---- C11: the reader's hierarchy error, both directions, while the document position is determined *)
Theorem hierarchy_error_iff c st id idl size sl d :
  p_tag_id st = Ok (id, idl) -> read_vint (firstn 8 (skipn idl (b_bytes st))) = Ok (Some (size, sl)) ->
  is_numeric (Some d) && (8 <? size) = false -> get_type (c_sp c) id = Some d -> b_det st = true ->
  (p_header c st = (st, Err (RHierarchy id (top_id (b_stack st)))) <->
   c_allow_hier c = false /\ validate_tag_path (c_sp c) id (stack_view (b_stack st)) = false).
Proof.
  intros Hid Hsz Hnum Hty Hdet. split.
  - intros H. destruct (hierarchy_error_fields c st st _ _ H) as [idl' [_ [_ [H1 [_ H2]]]]]. split; assumption.
  - intros [H1 H2]. eapply reports_hierarchy; try eassumption. rewrite Hty. exact Hnum.
Qed.
