(* Writer: structure of buffer_tag (C19 rollback), streaming facts (C10), validation (C11, writer side). *)
From Ebml Require Import Base Tools Spec Writer Proofs.Tactics Proofs.SpecProofs.

Arguments id_bytes : simpl never.
Arguments unknown_marker : simpl never.
Arguments size_to_vint : simpl never.
Arguments be_bytes : simpl never.
Arguments write_all : simpl never.

(* ---- induction principle for tags (children are a nested list) *)
Section TagInd.
  Variable P : tag -> Prop.
  Hypothesis HE : forall id v, P (TElem id v).
  Hypothesis HS : forall id, P (TStart id).
  Hypothesis HN : forall id, P (TEnd id).
  Hypothesis HF : forall id cs, Forall P cs -> P (TFull id cs).
  Fixpoint tag_ind' (t : tag) : P t :=
    match t with
    | TElem id v => HE id v
    | TStart id => HS id
    | TEnd id => HN id
    | TFull id cs => HF id cs ((fix go (l : list tag) : Forall P l :=
                                  match l with [] => Forall_nil P | c :: l' => Forall_cons c (tag_ind' c) (go l') end) cs)
    end.
End TagInd.

(* ---- the children loop of a Full, as a standalone function (same shape as the fix inside buffer_tag) *)
Definition children_loop (sp : spec) : nat -> list tag -> wst -> wst * wres :=
  fix children (floor : nat) (cs : list tag) (st : wst) : wst * wres :=
    match cs with
    | [] => (st, WOk)
    | c :: cs' => match buffer_tag sp c o_default st with
                  | (st1, WOk) =>
                      if (length (w_open st1) <? floor)%nat then (st1, WErr (EClose (tag_id c) None))
                      else children floor cs' st1
                  | r => r
                  end
    end.

Definition size_len_of (o : wopts) : nat :=
  match o_len o with Some n => if ((1 <=? n) && (n <=? 8))%nat then n else O | None => O end.

Definition should_validate (sp : spec) (t : tag) : bool :=
  match raw_type t (get_type sp (tag_id t)) with
  | None => false
  | Some DMaster => negb (is_end t)
  | Some _ => true
  end.

(* what buffer_tag does once the three guards have passed *)
Definition buffer_act (sp : spec) (t : tag) (o : wopts) (st : wst) : wst * wres :=
  let id := tag_id t in
  let ty := raw_type t (get_type sp id) in
  if o_unknown o then
    match t with
    | TStart _ => (start_unknown_size_tag st id, WOk)
    | TEnd _ => end_tag st id
    | TFull _ cs => match children_loop sp (S (length (w_open st))) cs (start_unknown_size_tag st id) with
                    | (st1, WOk) => end_tag st1 id
                    | r => r
                    end
    | TElem _ _ => (st, WPanic)
    end
  else
    match ty, t with
    | Some DMaster, TStart _ => (start_tag st id (size_len_of o), WOk)
    | Some DMaster, TEnd _ => end_tag st id
    | Some DMaster, TFull _ cs => match children_loop sp (S (length (w_open st))) cs (start_tag st id (size_len_of o)) with
                                  | (st1, WOk) => end_tag st1 id
                                  | r => r
                                  end
    | Some DMaster, TElem _ _ => (st, WPanic)
    | _, TElem _ v => write_element st id ty v (size_len_of o)
    | None, _ => if is_vint id then (st, WPanic) else (st, WErr (ETagId id))
    | _, _ => (st, WPanic)
    end.

Lemma buffer_tag_eq sp t o st :
  buffer_tag sp t o st =
  if o_unknown o && negb (is_master_ty (raw_type t (get_type sp (tag_id t)))) then (st, WErr ESize) else
  if is_master_ty (raw_type t (get_type sp (tag_id t))) && negb (is_master_tag t) then (st, WPanic) else
  if should_validate sp t && negb (w_validate sp (tag_id t) (w_open st))
  then (st, WErr (EUnexpectedTag (tag_id t) (rev (open_ids (w_open st)))))
  else buffer_act sp t o st.
Proof. destruct t; reflexivity. Qed.

(* ---- raw_type (fix D27): the declared type is looked through unless a tag that answers as_binary() (a raw tag, or a
   binary-valued one) has an id declared with a non-binary type; then the tag is treated like one with an undeclared id *)
Lemma raw_type_id t ty :
  match t with TElem _ (VRaw _) | TElem _ (VB _) => ty = Some DBinary \/ ty = None | _ => True end ->
  raw_type t ty = ty.
Proof.
  destruct t as [id v| | |]; try reflexivity. destruct v; try reflexivity; intros [->| ->]; reflexivity.
Qed.

Lemma raw_type_none t : raw_type t None = None.
Proof. destruct t as [id v| | |]; try reflexivity. destruct v; reflexivity. Qed.

Lemma raw_type_some t ty d : raw_type t ty = Some d -> ty = Some d.
Proof.
  destruct t as [id v| | |]; try (intros H; exact H).
  destruct v; try (intros H; exact H); destruct ty as [[]|]; intros H; first [exact H | discriminate H].
Qed.

Lemma raw_type_nonelem t ty : is_master_tag t = true -> raw_type t ty = ty.
Proof. destruct t; [discriminate|reflexivity..]. Qed.

(* replace [raw_type t x] by [x] wherever that holds by computation (t not a raw/binary-valued element) *)
Ltac raw_simpl :=
  repeat match goal with
  | H : context [raw_type ?t ?x] |- _ => progress change (raw_type t x) with x in H
  | |- context [raw_type ?t ?x] => progress change (raw_type t x) with x
  end.

Lemma raw_type_raw_nonbinary id data ty : ty <> Some DBinary -> raw_type (TElem id (VRaw data)) ty = None.
Proof. destruct ty as [[]|]; try reflexivity. intros H. exfalso. apply H. reflexivity. Qed.

Global Opaque buffer_tag.

Lemma wres_eq_ok (r : wres) : r = WOk \/ r <> WOk.
Proof. destruct r; [left; reflexivity|right; discriminate|right; discriminate]. Qed.

(* ------------------------------------------------------------------ the rollback invariant *)
Definition frame_ok (base : nat) (t : N * wsize * nat) : Prop :=
  match snd (fst t) with WKnown s => (base <= s)%nat | WUnknown => True end.

(* [Ext st0 st]: st was reached from st0 by buffering only: nothing delivered, the old buffer is a prefix of the new one,
   the old open masters are below the new ones, and the new known-size masters start in the new part of the buffer *)
Record Ext (st0 st : wst) : Prop := {
  ext_dest : w_dest st = w_dest st0;
  ext_script : w_script st = w_script st0;
  ext_open : exists new, w_open st = new ++ w_open st0 /\ Forall (frame_ok (length (w_buf st0))) new;
  ext_buf : exists suf, w_buf st = w_buf st0 ++ suf }.

Lemma ext_refl st : Ext st st.
Proof. constructor; try reflexivity; [exists []; split; [reflexivity|constructor]|exists []; rewrite app_nil_r; reflexivity]. Qed.

Lemma ext_open_len st0 st : Ext st0 st -> (length (w_open st0) <= length (w_open st))%nat.
Proof. intros [_ _ [new [E _]] _]. rewrite E, app_length. lia. Qed.

Lemma ext_append st0 st bs : Ext st0 st -> Ext st0 (append st bs).
Proof.
  intros [Hd Hs Ho [suf Hb]]. constructor; cbn; try assumption.
  exists (suf ++ bs). rewrite Hb, app_assoc. reflexivity.
Qed.

Lemma ext_start_tag st0 st id sl : Ext st0 st -> Ext st0 (start_tag st id sl).
Proof.
  intros [Hd Hs [new [Ho Hf]] [suf Hb]]. constructor; cbn; try assumption; [|exists suf; exact Hb].
  exists ((id, WKnown (length (w_buf st)), sl) :: new). split; [rewrite Ho; reflexivity|].
  constructor; [|exact Hf]. unfold frame_ok. cbn. rewrite Hb, app_length. lia.
Qed.

Lemma ext_start_unknown st0 st id : Ext st0 st -> Ext st0 (start_unknown_size_tag st id).
Proof.
  intros [Hd Hs [new [Ho Hf]] [suf Hb]]. constructor; cbn; try assumption.
  - exists ((id, WUnknown, O) :: new). split; [rewrite Ho; reflexivity|]. constructor; [exact I|exact Hf].
  - exists (suf ++ id_bytes id ++ unknown_marker). rewrite Hb, <- !app_assoc. reflexivity.
Qed.

Lemma end_tag_not_ok st id st1 r : end_tag st id = (st1, r) -> r <> WOk -> st1 = st.
Proof.
  unfold end_tag. intros H Hr. destruct (w_open st) as [|[[oid sz] sl] rest]; [inversion H; reflexivity|].
  destruct (oid =? id); [|inversion H; reflexivity].
  destruct sz as [start|].
  - destruct (length (w_buf st) <? start)%nat; [inversion H; reflexivity|].
    destruct (size_to_vint _ sl); inversion H; subst; [contradiction|reflexivity].
  - inversion H; subst. contradiction.
Qed.

Lemma end_tag_ok_len st id st1 : end_tag st id = (st1, WOk) -> length (w_open st) = S (length (w_open st1)).
Proof.
  unfold end_tag. intros H. destruct (w_open st) as [|[[oid sz] sl] rest] eqn:E; [inversion H|].
  destruct (oid =? id); [|inversion H].
  destruct sz as [start|].
  - destruct (length (w_buf st) <? start)%nat; [inversion H|].
    destruct (size_to_vint _ sl); inversion H; subst. reflexivity.
  - inversion H; subst. reflexivity.
Qed.

Lemma ext_end_tag st0 st id st1 r : Ext st0 st -> (length (w_open st0) < length (w_open st))%nat ->
  end_tag st id = (st1, r) -> Ext st0 st1.
Proof.
  intros HE Hlen H. destruct (wres_eq_ok r) as [->|Hr]; [|rewrite (end_tag_not_ok _ _ _ _ H Hr); exact HE].
  destruct HE as [Hd Hs [new [Ho Hf]] [suf Hb]].
  unfold end_tag in H. rewrite Ho in H, Hlen.
  destruct new as [|[[oid sz] sl] new']; [rewrite app_length in Hlen; cbn in Hlen; lia|].
  cbn [app] in H. destruct (oid =? id); [|inversion H].
  inversion Hf as [|? ? Hfr Hf']; subst.
  destruct sz as [start|].
  - destruct (length (w_buf st) <? start)%nat; [inversion H|].
    destruct (size_to_vint _ sl) as [sv|]; inversion H; subst; clear H.
    constructor; cbn; try assumption.
    + exists new'. split; [reflexivity|exact Hf'].
    + unfold frame_ok in Hfr. cbn in Hfr. rewrite Hb.
      exists (firstn (start - length (w_buf st0)) suf ++ id_bytes oid ++ sv ++ skipn start (w_buf st0 ++ suf)).
      rewrite firstn_app. rewrite firstn_all2 by lia. rewrite <- app_assoc. reflexivity.
  - inversion H; subst; clear H. constructor; cbn; try assumption; [|exists suf; exact Hb].
    exists new'. split; [reflexivity|exact Hf'].
Qed.

Lemma ext_write_payload st0 st id sl field payload st1 r :
  Ext st0 st -> write_payload st id sl field payload = (st1, r) -> Ext st0 st1 /\ w_open st1 = w_open st.
Proof.
  intros HE H. unfold write_payload in H.
  destruct field; inversion H; subst; clear H; (split; [|reflexivity]); repeat apply ext_append; exact HE.
Qed.

Lemma ext_write_element st0 st id ty v sl st1 r :
  Ext st0 st -> write_element st id ty v sl = (st1, r) -> Ext st0 st1 /\ w_open st1 = w_open st.
Proof.
  intros HE H. unfold write_element in H.
  destruct ty as [[]|]; destruct v;
    try (inversion H; subst; split; [exact HE|reflexivity]);
    try (eapply ext_write_payload; eassumption);
    destruct (is_vint id);
    try (inversion H; subst; split; [exact HE|reflexivity]);
    try (eapply ext_write_payload; eassumption).
Qed.

(* the statement proved by induction on the tag *)
Definition buffer_ext_stmt (sp : spec) (t : tag) : Prop :=
  forall o st0 st st1 r, Ext st0 st -> buffer_tag sp t o st = (st1, r) ->
    ((length (w_open st0) < length (w_open st))%nat \/ r <> WOk \/ is_end t = false) ->
    Ext st0 st1 /\ (r = WOk -> is_end t = false -> (length (w_open st) <= length (w_open st1))%nat).

Lemma children_ext sp cs : Forall (buffer_ext_stmt sp) cs ->
  forall floor st0 st st1 r, Ext st0 st -> (length (w_open st0) < floor)%nat -> (floor <= length (w_open st))%nat ->
    children_loop sp floor cs st = (st1, r) ->
    Ext st0 st1 /\ (r = WOk -> (floor <= length (w_open st1))%nat).
Proof.
  induction 1 as [|c cs Hc _ IH]; intros floor st0 st st1 r HE Hf1 Hf2 H.
  - cbn in H. inversion H; subst. split; [exact HE|intros _; exact Hf2].
  - cbn [children_loop] in H. destruct (buffer_tag sp c o_default st) as [st' r'] eqn:Eb.
    assert (Hlt0 : (length (w_open st0) < length (w_open st))%nat) by lia.
    destruct (Hc _ _ _ _ _ HE Eb (or_introl Hlt0)) as [HE' _].
    destruct r'.
    + destruct (Nat.ltb_spec (length (w_open st')) floor) as [Hlt|Hge].
      * inversion H; subst. split; [exact HE'|discriminate].
      * eapply IH; eassumption.
    + inversion H; subst. split; [exact HE'|discriminate].
    + inversion H; subst. split; [exact HE'|discriminate].
Qed.

Lemma buffer_ext sp : forall t, buffer_ext_stmt sp t.
Proof.
  induction t as [id v|id|id|id cs IHcs] using tag_ind'; unfold buffer_ext_stmt;
    intros o st0 st st1 r HE H Hside; rewrite buffer_tag_eq in H; unfold should_validate in H; cbn [tag_id is_master_tag is_end] in *; raw_simpl.
  all: destruct (o_unknown o && negb (is_master_ty _)) eqn:G1;
       [inversion H; subst; split; [exact HE|discriminate]|].
  all: destruct (is_master_ty _ && negb _) eqn:G2;
       [inversion H; subst; split; [exact HE|discriminate]|].
  all: match type of H with (if ?b && negb _ then _ else _) = _ => destruct (b && negb _) eqn:G3 end;
       [inversion H; subst; split; [exact HE|discriminate]|].
  all: unfold buffer_act in H; cbn [tag_id] in H; raw_simpl.
  - (* element *)
    destruct (o_unknown o); [inversion H; subst; split; [exact HE|discriminate]|].
    destruct (raw_type (TElem id v) (get_type sp id)) as [[]|] eqn:Ety;
      try (inversion H; subst; split; [exact HE|discriminate]);
      (destruct (ext_write_element _ _ _ _ _ _ _ _ HE H) as [HE1 Ho]; split; [exact HE1|intros _ _; rewrite Ho; lia]).
  - (* start *)
    destruct (o_unknown o).
    + inversion H; subst. split; [apply ext_start_unknown, HE|intros _ _; cbn; lia].
    + destruct (get_type sp id) as [[]|];
        try (inversion H; subst; split; [exact HE|discriminate]);
        try (destruct (is_vint id); inversion H; subst; split; try exact HE; discriminate).
      inversion H; subst. split; [apply ext_start_tag, HE|intros _ _; cbn; lia].
  - (* end *)
    assert (Hend : end_tag st id = (st1, r) -> Ext st0 st1 /\ (r = WOk -> true = false -> (length (w_open st) <= length (w_open st1))%nat)).
    { intros He. split; [|discriminate].
      destruct Hside as [Hlt|[Hr|Hf]]; [eapply ext_end_tag; eassumption| |discriminate].
      rewrite (end_tag_not_ok _ _ _ _ He Hr). exact HE. }
    destruct (o_unknown o); [apply Hend, H|].
    destruct (get_type sp id) as [[]|];
      try (inversion H; subst; split; [exact HE|discriminate]);
      try (destruct (is_vint id); inversion H; subst; split; try exact HE; discriminate).
    apply Hend, H.
  - (* full *)
    pose proof (ext_open_len _ _ HE) as Hlen0.
    assert (Hfull : forall stS, Ext st0 stS -> length (w_open stS) = S (length (w_open st)) ->
              match children_loop sp (S (length (w_open st))) cs stS with
              | (st2, WOk) => end_tag st2 id
              | r0 => r0
              end = (st1, r) ->
              Ext st0 st1 /\ (r = WOk -> false = false -> (length (w_open st) <= length (w_open st1))%nat)).
    { intros stS HES HlenS Hm.
      destruct (children_loop sp (S (length (w_open st))) cs stS) as [st2 r2] eqn:Ec.
      assert (Hq1 : (length (w_open st0) < S (length (w_open st)))%nat) by lia.
      assert (Hq2 : (S (length (w_open st)) <= length (w_open stS))%nat) by lia.
      destruct (children_ext sp cs IHcs _ _ _ _ _ HES Hq1 Hq2 Ec) as [HE2 Hfl].
      destruct r2; try (inversion Hm; subst; split; [exact HE2|discriminate]).
      specialize (Hfl eq_refl).
      split; [eapply ext_end_tag; [exact HE2|lia|exact Hm]|].
      intros -> _. apply end_tag_ok_len in Hm. lia. }
    destruct (o_unknown o).
    + apply (Hfull (start_unknown_size_tag st id)); [apply ext_start_unknown, HE|reflexivity|exact H].
    + destruct (get_type sp id) as [[]|];
        try (inversion H; subst; split; [exact HE|discriminate]);
        try (destruct (is_vint id); inversion H; subst; split; try exact HE; discriminate).
      apply (Hfull (start_tag st id (size_len_of o))); [apply ext_start_tag, HE|reflexivity|exact H].
Qed.

(* ------------------------------------------------------------------ C19: a rejected write leaves no trace *)
Lemma wst_eta st : {| w_open := w_open st; w_buf := w_buf st; w_dest := w_dest st; w_script := w_script st |} = st.
Proof. destruct st; reflexivity. Qed.

Lemma private_flush_err st st' e : private_flush st = (st', WErr e) -> exists x, e = EIo x.
Proof.
  unfold private_flush. destruct (write_all _ _ _) as [[d s] [x|]]; intros H; inversion H; subst. eexists; reflexivity.
Qed.

Theorem write_advanced_atomic sp st t o st' e :
  write_advanced sp st t o = (st', WErr e) -> (forall x, e <> EIo x) -> st' = st.
Proof.
  unfold write_advanced. intros H Hio. destruct (buffer_tag sp t o st) as [st1 r] eqn:Eb.
  destruct r as [|e0|].
  - unfold flush_if_streaming in H. destruct (has_known (w_open st1)); [inversion H|].
    apply private_flush_err in H. destruct H as [x ->]. exfalso. eapply Hio. reflexivity.
  - inversion H; subst; clear H.
    assert (Hne : WErr e <> WOk) by discriminate.
    destruct (buffer_ext sp t o st st st1 (WErr e) (ext_refl st) Eb (or_intror (or_introl Hne))) as [[Hd Hs _ [suf Hb]] _].
    unfold set_open, set_buf. cbn. rewrite Hb, firstn_app, Nat.sub_diag, firstn_all, Hd, Hs. cbn. rewrite app_nil_r.
    apply wst_eta.
  - inversion H.
Qed.

Lemma find_size_len_spec size : forall fuel len, (len + fuel = 8)%nat -> (1 <= len)%nat ->
  let l := find_size_len size len fuel in
  (len <= l <= 8)%nat /\ ((l < 8)%nat -> size < 2 ^ (7 * N.of_nat l) - 1).
Proof.
  induction fuel as [|f IH]; intros len Hsum Hlen; cbn [find_size_len].
  - split; lia.
  - destruct (N.ltb_spec size (2 ^ (7 * N.of_nat len) - 1)) as [Hlt|Hge].
    + split; [lia|intros _; exact Hlt].
    + assert (Ha : (S len + f = 8)%nat) by lia. assert (Hb : (1 <= S len)%nat) by lia.
      destruct (IH (S len) Ha Hb) as [H1 H2]. split; [lia|exact H2].
Qed.

Lemma size_to_vint_default size : size < 2 ^ 56 - 1 -> exists f, size_to_vint size O = Some f.
Proof.
  intros H. unfold size_to_vint.
  destruct (find_size_len_spec size 7 1 eq_refl (le_n 1)) as [Hr Hb]. cbn zeta in Hr, Hb.
  set (l := find_size_len size 1 7) in *.
  destruct (N.leb_spec (2 ^ (7 * N.of_nat l) - 1) size) as [Hle|Hgt]; [|eexists; reflexivity].
  exfalso. destruct (Nat.eq_dec l 8) as [E|E].
  - rewrite E in Hle. change (2 ^ (7 * N.of_nat 8)) with (2 ^ 56) in Hle. lia.
  - assert (Hl : (l < 8)%nat) by lia. specialize (Hb Hl). lia.
Qed.

(* write_raw can only be rejected for an I/O error (a payload of 2^56-1 bytes or more cannot exist) *)
Theorem write_raw_no_reject st id data st' e :
  N.of_nat (length data) < 2 ^ 56 - 1 -> write_raw st id data = (st', WErr e) -> exists x, e = EIo x.
Proof.
  intros Hlen H. unfold write_raw, write_payload, sized_field in H.
  destruct (size_to_vint_default _ Hlen) as [f Ef]. rewrite Ef in H.
  unfold flush_if_streaming in H. destruct (has_known _); [inversion H|]. eapply private_flush_err, H.
Qed.

(* a call that leaves the state unchanged is invisible to every later call *)
Lemma wrun_skip sp st op ops e : wstep sp st op = (st, WErr e) ->
  wrun sp st (op :: ops) = (fst (wrun sp st ops), (WErr e, length (w_dest st)) :: snd (wrun sp st ops)).
Proof. intros H. cbn [wrun]. rewrite H. destruct (wrun sp st ops). reflexivity. Qed.

(* ------------------------------------------------------------------ C10: streaming *)
Lemma write_all_prefix : forall script data dest d s e, write_all script data dest = (d, s, e) -> exists x, d = dest ++ x.
Proof.
  induction script as [|w script IH]; intros data dest d s e H.
  - unfold write_all in H. destruct data; inversion H; subst; [exists []; rewrite app_nil_r; reflexivity|eexists; reflexivity].
  - destruct data as [|b data]; [cbn in H; inversion H; subst; exists []; rewrite app_nil_r; reflexivity|].
    cbn [write_all] in H. destruct w as [n| | |c].
    + destruct n; [inversion H; subst; exists []; rewrite app_nil_r; reflexivity|].
      apply IH in H. destruct H as [x ->]. rewrite <- app_assoc. eexists; reflexivity.
    + apply IH in H. exact H.
    + inversion H; subst. exists []; rewrite app_nil_r; reflexivity.
    + inversion H; subst. exists []; rewrite app_nil_r; reflexivity.
Qed.

(* write_all hands over a prefix [del] of the data: all of it when it succeeds, a proper prefix when it fails *)
Lemma write_all_split : forall script data dest d s e, write_all script data dest = (d, s, e) ->
  exists del rest, data = del ++ rest /\ d = dest ++ del /\ (e = None -> rest = []) /\ (e <> None -> rest <> []).
Proof.
  induction script as [|w script IH]; intros data dest d s e H.
  - unfold write_all in H. destruct data; inversion H; subst.
    + exists [], []. split; [reflexivity|]. split; [rewrite app_nil_r; reflexivity|]. split; [reflexivity|intros C; contradiction].
    + eexists; exists []. split; [rewrite app_nil_r; reflexivity|]. split; [reflexivity|]. split; [reflexivity|intros C; contradiction].
  - destruct data as [|b data].
    { cbn in H. inversion H; subst. exists [], []. split; [reflexivity|]. split; [rewrite app_nil_r; reflexivity|].
      split; [reflexivity|intros C; contradiction]. }
    cbn [write_all] in H. destruct w as [n| | |c].
    + destruct n as [|n].
      * inversion H; subst. exists [], (b :: data). split; [reflexivity|]. split; [rewrite app_nil_r; reflexivity|].
        split; [discriminate|intros _; discriminate].
      * apply IH in H. destruct H as [del [rest [E1 [E2 [E3 E4]]]]].
        exists (firstn (S n) (b :: data) ++ del), rest.
        split; [rewrite <- app_assoc, <- E1, firstn_skipn; reflexivity|].
        split; [rewrite E2, <- app_assoc; reflexivity|]. split; assumption.
    + apply IH in H. exact H.
    + inversion H; subst. exists [], (b :: data). split; [reflexivity|]. split; [rewrite app_nil_r; reflexivity|].
      split; [discriminate|intros _; discriminate].
    + inversion H; subst. exists [], (b :: data). split; [reflexivity|]. split; [rewrite app_nil_r; reflexivity|].
      split; [discriminate|intros _; discriminate].
Qed.

(* the hand-over step: the working buffer splits into what the destination took ([del], appended to it) and the rest, which stays
   buffered; the rest is empty exactly when the step succeeds; a failure is an I/O error (fix D28) *)
Lemma private_flush_split st st' r : private_flush st = (st', r) ->
  w_open st' = w_open st /\
  exists del rest, w_buf st = del ++ rest /\ w_dest st' = w_dest st ++ del /\ w_buf st' = rest /\
                   (r = WOk -> rest = []) /\ (r <> WOk -> rest <> [] /\ exists x, r = WErr (EIo x)).
Proof.
  unfold private_flush. destruct (write_all _ _ _) as [[d s] e] eqn:E. intros H. inversion H; subst; cbn. clear H.
  split; [reflexivity|].
  destruct (write_all_split _ _ _ _ _ _ E) as [del [rest [E1 [E2 [E3 E4]]]]].
  exists del, rest. split; [exact E1|]. split; [exact E2|].
  split. { rewrite E2, E1, app_length, Nat.add_comm, Nat.add_sub, skipn_app, skipn_all, Nat.sub_diag. reflexivity. }
  destruct e as [x|].
  - split; [discriminate|]. intros _. split; [apply E4; discriminate|exists x; reflexivity].
  - split; [intros _; apply E3; reflexivity|]. intros C. contradiction.
Qed.

(* conservation: whatever the destination does, the hand-over step neither drops nor duplicates a byte *)
Lemma private_flush_conserves st st' r : private_flush st = (st', r) -> w_dest st' ++ w_buf st' = w_dest st ++ w_buf st.
Proof.
  intros H. destruct (private_flush_split _ _ _ H) as [_ [del [rest [E1 [E2 [E3 _]]]]]].
  rewrite E2, E3, E1, app_assoc. reflexivity.
Qed.

(* a destination that accepts everything: the whole buffer goes over *)
Lemma private_flush_acc st : w_script st = [] ->
  private_flush st = ({| w_open := w_open st; w_buf := []; w_dest := w_dest st ++ w_buf st; w_script := [] |}, WOk).
Proof.
  intros Hs. unfold private_flush. rewrite Hs.
  assert (E : write_all [] (w_buf st) (w_dest st) = (w_dest st ++ w_buf st, [], None)).
  { destruct (w_buf st); cbn [write_all]; [rewrite app_nil_r|]; reflexivity. }
  rewrite E. rewrite app_length, Nat.add_comm, Nat.add_sub, skipn_all. reflexivity.
Qed.

Lemma private_flush_facts st st' r : private_flush st = (st', r) ->
  (exists x, w_dest st' = w_dest st ++ x) /\ (r = WOk -> w_buf st' = []) /\ w_open st' = w_open st.
Proof.
  intros H. destruct (private_flush_split _ _ _ H) as [Ho [del [rest [E1 [E2 [E3 [E4 _]]]]]]].
  split; [exists del; exact E2|]. split; [intros Hr; rewrite E3; apply E4, Hr|exact Ho].
Qed.

Lemma end_tag_dest st id st1 r : end_tag st id = (st1, r) -> w_dest st1 = w_dest st /\ w_script st1 = w_script st.
Proof.
  unfold end_tag. intros H. destruct (w_open st) as [|[[oid sz] sl] rest]; [inversion H; split; reflexivity|].
  destruct (oid =? id); [|inversion H; split; reflexivity].
  destruct sz as [start|]; [|inversion H; split; reflexivity].
  destruct (length (w_buf st) <? start)%nat; [inversion H; split; reflexivity|].
  destruct (size_to_vint _ sl); inversion H; split; reflexivity.
Qed.

Lemma write_element_dest st id ty v sl st1 r : write_element st id ty v sl = (st1, r) -> w_dest st1 = w_dest st /\ w_script st1 = w_script st.
Proof.
  intros H. unfold write_element, write_payload in H.
  destruct ty as [[]|]; destruct v; try (inversion H; subst; split; reflexivity);
    try (destruct (small_size_field _ _); inversion H; subst; split; reflexivity);
    try (destruct (sized_field _ _); inversion H; subst; split; reflexivity);
    destruct (is_vint id); try (inversion H; subst; split; reflexivity);
    destruct (sized_field _ _); inversion H; subst; split; reflexivity.
Qed.

Definition buffer_dest_stmt (sp : spec) (t : tag) : Prop :=
  forall o st st1 r, buffer_tag sp t o st = (st1, r) -> w_dest st1 = w_dest st /\ w_script st1 = w_script st.

Lemma children_dest sp cs : Forall (buffer_dest_stmt sp) cs ->
  forall floor st st1 r, children_loop sp floor cs st = (st1, r) -> w_dest st1 = w_dest st /\ w_script st1 = w_script st.
Proof.
  induction 1 as [|c cs Hc _ IH]; intros floor st st1 r H.
  - inversion H; split; reflexivity.
  - cbn [children_loop] in H. destruct (buffer_tag sp c o_default st) as [st' r'] eqn:Eb.
    destruct (Hc _ _ _ _ Eb) as [Hd Hs].
    destruct r'; [destruct (_ <? _)%nat|..]; try (inversion H; subst; split; assumption).
    destruct (IH _ _ _ _ H) as [Hd2 Hs2]. split; congruence.
Qed.

Lemma buffer_dest sp : forall t, buffer_dest_stmt sp t.
Proof.
  induction t as [id v|id|id|id cs IHcs] using tag_ind'; unfold buffer_dest_stmt;
    intros o st st1 r H; rewrite buffer_tag_eq in H; cbn [tag_id is_master_tag is_end] in *; raw_simpl.
  all: destruct (o_unknown o && negb (is_master_ty _)); [inversion H; split; reflexivity|].
  all: destruct (is_master_ty _ && negb _); [inversion H; split; reflexivity|].
  all: destruct (should_validate sp _ && negb _); [inversion H; split; reflexivity|].
  all: unfold buffer_act in H; cbn [tag_id] in H; raw_simpl.
  - destruct (o_unknown o); [inversion H; split; reflexivity|].
    destruct (raw_type (TElem id v) (get_type sp id)) as [[]|]; try (inversion H; split; reflexivity); eapply write_element_dest, H.
  - destruct (o_unknown o); [inversion H; split; reflexivity|].
    destruct (get_type sp id) as [[]|]; try (inversion H; split; reflexivity);
      destruct (is_vint id); inversion H; split; reflexivity.
  - destruct (o_unknown o); [eapply end_tag_dest, H|].
    destruct (get_type sp id) as [[]|]; try (inversion H; split; reflexivity); try (eapply end_tag_dest, H);
      destruct (is_vint id); inversion H; split; reflexivity.
  - assert (Hfull : forall stS, w_dest stS = w_dest st -> w_script stS = w_script st ->
              match children_loop sp (S (length (w_open st))) cs stS with
              | (st2, WOk) => end_tag st2 id
              | r0 => r0
              end = (st1, r) -> w_dest st1 = w_dest st /\ w_script st1 = w_script st).
    { clear H. intros stS Hd Hs Hm. destruct (children_loop sp (S (length (w_open st))) cs stS) as [st2 r2] eqn:Ec.
      destruct (children_dest sp cs IHcs _ _ _ _ Ec) as [Hd2 Hs2].
      destruct r2; try (inversion Hm; subst; split; congruence).
      destruct (end_tag_dest _ _ _ _ Hm). split; congruence. }
    destruct (o_unknown o); [apply (Hfull (start_unknown_size_tag st id)); [reflexivity|reflexivity|exact H]|].
    destruct (get_type sp id) as [[]|]; try (inversion H; split; reflexivity);
      try (apply (Hfull (start_tag st id (size_len_of o))); [reflexivity|reflexivity|exact H]);
      destruct (is_vint id); inversion H; split; reflexivity.
Qed.

(* ---- wstep level *)
Lemma flush_if_streaming_facts st st' r : flush_if_streaming st = (st', r) ->
  (exists x, w_dest st' = w_dest st ++ x) /\ w_open st' = w_open st /\
  (has_known (w_open st) = true -> st' = st) /\ (has_known (w_open st) = false -> r = WOk -> w_buf st' = []).
Proof.
  unfold flush_if_streaming. destruct (has_known (w_open st)) eqn:E; intros H.
  - inversion H; subst. split; [exists []; rewrite app_nil_r; reflexivity|]. split; [reflexivity|]. split; [reflexivity|discriminate].
  - destruct (private_flush_facts _ _ _ H) as [Hp [Hb Ho]]. split; [exact Hp|]. split; [exact Ho|]. split; [discriminate|intros _; exact Hb].
Qed.

Lemma write_advanced_dest sp st t o st' r : write_advanced sp st t o = (st', r) -> exists x, w_dest st' = w_dest st ++ x.
Proof.
  unfold write_advanced. intros H. destruct (buffer_tag sp t o st) as [st1 r1] eqn:Eb.
  destruct (buffer_dest sp t o st st1 r1 Eb) as [Hd _].
  destruct r1.
  - destruct (flush_if_streaming_facts _ _ _ H) as [[x Hx] _]. exists x. rewrite Hx, Hd. reflexivity.
  - inversion H; subst; cbn. exists []. rewrite app_nil_r. exact Hd.
  - inversion H; subst. exists []. rewrite app_nil_r. exact Hd.
Qed.

Lemma end_all_dest : forall fuel st st1 r, end_all fuel st = (st1, r) -> w_dest st1 = w_dest st /\ w_script st1 = w_script st.
Proof.
  induction fuel as [|f IH]; intros st st1 r H; cbn [end_all] in H; [inversion H; split; reflexivity|].
  destruct (w_open st) as [|[[id sz] sl] rest]; [inversion H; split; reflexivity|].
  destruct (end_tag st id) as [st2 r2] eqn:Ee. destruct (end_tag_dest _ _ _ _ Ee) as [Hd Hs].
  destruct r2; try (inversion H; subst; split; assumption).
  destruct (IH _ _ _ H). split; congruence.
Qed.

Lemma end_all_closes : forall fuel st st1, (length (w_open st) <= fuel)%nat -> end_all fuel st = (st1, WOk) -> w_open st1 = [].
Proof.
  induction fuel as [|f IH]; intros st st1 Hlen H; cbn [end_all] in H.
  - inversion H; subst. destruct (w_open st1); [reflexivity|cbn in Hlen; lia].
  - destruct (w_open st) as [|[[id sz] sl] rest] eqn:Eo; [inversion H; subst; exact Eo|].
    destruct (end_tag st id) as [st2 r2] eqn:Ee.
    destruct r2; try (inversion H; fail).
    apply end_tag_ok_len in Ee. apply (IH st2); [rewrite Eo in Ee; cbn in *; lia|exact H].
Qed.

Lemma write_payload_dest st id sl field payload st1 r : write_payload st id sl field payload = (st1, r) ->
  w_dest st1 = w_dest st /\ w_script st1 = w_script st /\ w_open st1 = w_open st.
Proof. unfold write_payload. destruct field; intros H; inversion H; subst; repeat split; reflexivity. Qed.

(* bytes handed to the destination are never retracted: the destination only ever grows by appending *)
Theorem wstep_prefix sp st op st' r : wstep sp st op = (st', r) -> exists x, w_dest st' = w_dest st ++ x.
Proof.
  destruct op as [t o|t|id data| |]; cbn [wstep]; intros H.
  - eapply write_advanced_dest, H.
  - eapply write_advanced_dest, H.
  - unfold write_raw in H. destruct (write_payload _ _ _ _ _) as [st1 r1] eqn:Ew.
    destruct (write_payload_dest _ _ _ _ _ _ _ Ew) as [Hd _].
    destruct r1; try (inversion H; subst; exists []; rewrite app_nil_r; exact Hd).
    destruct (flush_if_streaming_facts _ _ _ H) as [[x Hx] _]. exists x. rewrite Hx, Hd. reflexivity.
  - unfold flush in H. destruct (end_all _ _) as [st1 r1] eqn:Ee. destruct (end_all_dest _ _ _ _ Ee) as [Hd _].
    destruct r1; try (inversion H; subst; exists []; rewrite app_nil_r; first [exact Hd | reflexivity]).
    destruct (private_flush_facts _ _ _ H) as [[x Hx] _]. exists x. rewrite Hx, Hd. reflexivity.
  - unfold flush in H. destruct (end_all _ _) as [st1 r1] eqn:Ee. destruct (end_all_dest _ _ _ _ Ee) as [Hd _].
    destruct r1; try (inversion H; subst; exists []; rewrite app_nil_r; first [exact Hd | reflexivity]).
    destruct (private_flush_facts _ _ _ H) as [[x Hx] _]. exists x. rewrite Hx, Hd. reflexivity.
Qed.

Theorem wrun_prefix sp : forall ops st st' rs, wrun sp st ops = (st', rs) -> exists x, w_dest st' = w_dest st ++ x.
Proof.
  induction ops as [|op ops IH]; intros st st' rs H; cbn [wrun] in H.
  - inversion H; subst. exists []. rewrite app_nil_r. reflexivity.
  - destruct (wstep sp st op) as [st1 r] eqn:Es. destruct (wstep_prefix _ _ _ _ _ Es) as [x Hx].
    destruct r; try (inversion H; subst; exists x; exact Hx);
      (destruct (wrun sp st1 ops) as [st2 rs2] eqn:Er; inversion H; subst;
       destruct (IH _ _ _ Er) as [y Hy]; exists (x ++ y); rewrite Hy, Hx, app_assoc; reflexivity).
Qed.

(* after a successful call with no known-size master open, nothing is left in the working buffer *)
Theorem wstep_drained sp st op st' : wstep sp st op = (st', WOk) -> has_known (w_open st') = false -> w_buf st' = [].
Proof.
  destruct op as [t o|t|id data| |]; cbn [wstep]; intros H Hk.
  1,2: unfold write_advanced in H; destruct (buffer_tag sp t _ st) as [st1 r1]; destruct r1; try (inversion H; fail);
       destruct (flush_if_streaming_facts _ _ _ H) as [_ [Ho [_ Hb]]]; apply Hb; [rewrite <- Ho; exact Hk|reflexivity].
  - unfold write_raw in H. destruct (write_payload _ _ _ _ _) as [st1 r1]. destruct r1; try (inversion H; fail).
    destruct (flush_if_streaming_facts _ _ _ H) as [_ [Ho [_ Hb]]]. apply Hb; [rewrite <- Ho; exact Hk|reflexivity].
  - unfold flush in H. destruct (end_all _ _) as [st1 r1]. destruct r1; try (inversion H; fail).
    destruct (private_flush_facts _ _ _ H) as [_ [Hb _]]. exact (Hb eq_refl).
  - unfold flush in H. destruct (end_all _ _) as [st1 r1]. destruct r1; try (inversion H; fail).
    destruct (private_flush_facts _ _ _ H) as [_ [Hb _]]. exact (Hb eq_refl).
Qed.

(* while a known-size master is (still) open after a write call, that call handed nothing over *)
Theorem write_held sp st t o st' r : write_advanced sp st t o = (st', r) -> r <> WPanic ->
  has_known (w_open st') = true -> w_dest st' = w_dest st.
Proof.
  unfold write_advanced. intros H Hp Hk. destruct (buffer_tag sp t o st) as [st1 r1] eqn:Eb.
  destruct (buffer_dest sp t o st st1 r1 Eb) as [Hd _].
  destruct r1.
  - destruct (flush_if_streaming_facts _ _ _ H) as [_ [Ho [Hsame _]]]. rewrite <- Ho in Hsame.
    rewrite (Hsame Hk). exact Hd.
  - inversion H; subst. cbn. exact Hd.
  - inversion H; subst. contradiction.
Qed.

(* flush()/into_inner() end every open master and deliver everything *)
Theorem flush_closes_all st st' : flush st = (st', WOk) -> w_open st' = [] /\ w_buf st' = [].
Proof.
  unfold flush. intros H. destruct (end_all _ _) as [st1 r1] eqn:Ee. destruct r1; try (inversion H; fail).
  apply end_all_closes in Ee; [|lia]. destruct (private_flush_facts _ _ _ H) as [_ [Hb Ho]].
  split; [rewrite Ho; exact Ee|exact (Hb eq_refl)].
Qed.

(* ------------------------------------------------------------------ C11, writer side *)
Lemma w_validate_spec sp id o : w_validate sp id o = true <-> Matches (get_path sp id) (rev (open_ids o)).
Proof.
  unfold w_validate. rewrite validate_spec. rewrite count_ended_all_known.
  - cbn [skipn]. rewrite map_map. cbn. unfold open_ids. reflexivity.
  - apply Forall_forall. intros x Hx. apply in_map_iff in Hx. destruct Hx as [y [<- _]]. reflexivity.
Qed.

(* every non-End tag of a type the specification knows is checked, whatever the options, and rejected exactly when the chain
   of open masters does not match its declared path; the rejection carries the id and the chain, and changes nothing *)
Theorem writer_rejects sp t o st :
  should_validate sp t = true ->
  (o_unknown o && negb (is_master_ty (get_type sp (tag_id t))) = false) ->
  (is_master_ty (get_type sp (tag_id t)) && negb (is_master_tag t) = false) ->
  ~ Matches (get_path sp (tag_id t)) (rev (open_ids (w_open st))) ->
  buffer_tag sp t o st = (st, WErr (EUnexpectedTag (tag_id t) (rev (open_ids (w_open st))))).
Proof.
  intros Hv G1 G2 Hm.
  assert (Er : raw_type t (get_type sp (tag_id t)) = get_type sp (tag_id t)).
  { unfold should_validate in Hv. destruct (raw_type t (get_type sp (tag_id t))) as [d|] eqn:E; [|discriminate Hv].
    symmetry. eapply raw_type_some, E. }
  rewrite buffer_tag_eq, Er, G1, G2, Hv.
  destruct (w_validate sp (tag_id t) (w_open st)) eqn:E; [apply w_validate_spec in E; contradiction|reflexivity].
Qed.

Theorem writer_accepts sp t o st :
  Matches (get_path sp (tag_id t)) (rev (open_ids (w_open st))) ->
  (o_unknown o && negb (is_master_ty (get_type sp (tag_id t))) = false) ->
  (is_master_ty (get_type sp (tag_id t)) && negb (is_master_tag t) = false) ->
  buffer_tag sp t o st = buffer_act sp t o st.
Proof.
  intros Hm G1 G2. rewrite buffer_tag_eq. apply w_validate_spec in Hm. rewrite Hm, Bool.andb_false_r.
  destruct (raw_type t (get_type sp (tag_id t))) as [d|] eqn:E.
  - apply raw_type_some in E. rewrite <- E, G1, G2. reflexivity.
  - cbn [is_master_ty]. cbn [andb]. destruct (o_unknown o) eqn:Eu; [|reflexivity]. exfalso.
    cbn [andb] in G1. destruct (is_master_ty (get_type sp (tag_id t))) eqn:Em; [|discriminate G1].
    cbn [andb] in G2. destruct t as [id v| | |]; try (raw_simpl; rewrite E in Em; discriminate Em).
    discriminate G2.
Qed.

(* ------------------------------------------------------------------ C09 *)
(* a Full is, by construction, its Start, its children and its End buffered in sequence *)
Theorem full_is_start_children_end sp id cs o st st2 :
  buffer_tag sp (TFull id cs) o st = (st2, WOk) ->
  exists st1 stc, buffer_tag sp (TStart id) o st = (st1, WOk) /\
                  children_loop sp (S (length (w_open st))) cs st1 = (stc, WOk) /\
                  buffer_tag sp (TEnd id) o_default stc = (st2, WOk).
Proof.
  intros H. rewrite buffer_tag_eq in H. cbn [tag_id is_master_tag is_end] in H. raw_simpl.
  destruct (o_unknown o && negb (is_master_ty (get_type sp id))) eqn:G1; [inversion H|].
  rewrite Bool.andb_false_r in H.
  destruct (should_validate sp (TFull id cs) && negb _) eqn:G3; [inversion H|].
  assert (Hty : get_type sp id = Some DMaster).
  { unfold buffer_act in H. cbn [tag_id] in H. raw_simpl. destruct (o_unknown o) eqn:Eu.
    - cbn in G1. destruct (get_type sp id) as [[]|]; try discriminate. reflexivity.
    - destruct (get_type sp id) as [[]|]; try (inversion H; fail); try reflexivity. destruct (is_vint id); inversion H. }
  assert (Hend : forall stc, end_tag stc id = (st2, WOk) -> buffer_tag sp (TEnd id) o_default stc = (st2, WOk)).
  { intros stc He. rewrite buffer_tag_eq. unfold should_validate, buffer_act.
    cbn [tag_id is_master_tag is_end o_default o_unknown]. raw_simpl. rewrite !Hty. cbn. exact He. }
  assert (Hstart : forall stS, buffer_act sp (TStart id) o st = (stS, WOk) -> buffer_tag sp (TStart id) o st = (stS, WOk)).
  { intros stS Hs. rewrite buffer_tag_eq. cbn [tag_id is_master_tag is_end]. raw_simpl. rewrite G1, Bool.andb_false_r.
    unfold should_validate in *. cbn [tag_id is_end] in *. raw_simpl. rewrite Hty in *. cbn in *. rewrite G3. exact Hs. }
  unfold buffer_act in H. cbn [tag_id] in H. raw_simpl. rewrite Hty in H.
  destruct (o_unknown o) eqn:Eu.
  - destruct (children_loop _ _ _ _) as [stc rc] eqn:Ec. destruct rc; try (inversion H; fail).
    exists (start_unknown_size_tag st id), stc. split; [apply Hstart; unfold buffer_act; rewrite Eu; reflexivity|]. split; [exact Ec|apply Hend, H].
  - destruct (children_loop _ _ _ _) as [stc rc] eqn:Ec. destruct rc; try (inversion H; fail).
    exists (start_tag st id (size_len_of o)), stc. split; [apply Hstart; unfold buffer_act; rewrite Eu; cbn [tag_id]; raw_simpl; rewrite Hty; reflexivity|]. split; [exact Ec|apply Hend, H].
Qed.

(* an explicit width is honoured exactly and touches the size field only: the bytes appended by an element write are
   id ++ size field ++ payload, where the payload does not depend on the requested width and the size field has that width *)
Definition payload_of (v : value) : list N :=
  match v with
  | VU n => be_bytes (uint_width n) n
  | VI z => be_bytes (sint_width z) (to_u64 z)
  | VF b => be_bytes 8 b
  | VS bs | VB bs | VRaw bs => bs
  end.

Lemma size_to_vint_width n w f : size_to_vint n (S w) = Some f -> length f = S w.
Proof.
  unfold size_to_vint. destruct (_ <=? _); intros H; inversion H; subst.
  clear. generalize (N.lor n (2 ^ (7 * N.of_nat (S w)))). generalize (S w). induction n0; intros; [reflexivity|].
  change (be_bytes (S n0) n1) with (be_bytes n0 (n1 / 256) ++ [n1 mod 256]). rewrite app_length, IHn0. cbn. lia.
Qed.

Lemma write_payload_layout st id sl field payload st1 : write_payload st id sl field payload = (st1, WOk) ->
  exists f, field = Ok f /\ w_buf st1 = w_buf st ++ id_bytes id ++ f ++ payload /\ w_open st1 = w_open st.
Proof.
  unfold write_payload. destruct field as [f| |]; intros H; inversion H; subst. exists f.
  cbn [append set_buf w_buf w_open]. rewrite <- !app_assoc. repeat split; reflexivity.
Qed.

Lemma small_size_field_width sl n f : small_size_field sl n = Ok f -> (1 <= sl <= 8)%nat -> length f = sl.
Proof.
  intros Hf Hsl. unfold small_size_field in Hf. destruct sl; [lia|].
  unfold as_vint_with_length in Hf. destruct ((1 <=? S sl) && (S sl <=? 8))%nat; [|discriminate].
  unfold bind, check_size_u64 in Hf. destruct (_ <=? _); inversion Hf; subst. unfold as_vint_no_check.
  clear. generalize (N.lor n (2 ^ (7 * N.of_nat (S sl)))). generalize (S sl). induction n0; intros; [reflexivity|].
  change (be_bytes (S n0) n1) with (be_bytes n0 (n1 / 256) ++ [n1 mod 256]). rewrite app_length, IHn0. cbn. lia.
Qed.

Lemma sized_field_width len sl f : sized_field len sl = Ok f -> (1 <= sl <= 8)%nat -> length f = sl.
Proof.
  intros Hf Hsl. unfold sized_field in Hf. destruct (size_to_vint _ sl) eqn:Es; inversion Hf; subst.
  destruct sl; [lia|]. eapply size_to_vint_width, Es.
Qed.

Theorem element_layout st id ty v sl st1 : write_element st id ty v sl = (st1, WOk) ->
  exists field, w_buf st1 = w_buf st ++ id_bytes id ++ field ++ payload_of v /\ w_open st1 = w_open st /\
                ((1 <= sl <= 8)%nat -> length field = sl).
Proof.
  intros H. unfold write_element in H.
  assert (Fin : forall field payload, write_payload st id sl field payload = (st1, WOk) ->
            ((exists n, field = small_size_field sl n) \/ (exists len, field = sized_field len sl)) ->
            exists f, w_buf st1 = w_buf st ++ id_bytes id ++ f ++ payload /\ w_open st1 = w_open st /\ ((1 <= sl <= 8)%nat -> length f = sl)).
  { intros field payload Hw Hk. apply write_payload_layout in Hw. destruct Hw as [f [Ef [Hb Ho]]]. exists f.
    split; [exact Hb|]. split; [exact Ho|]. intros Hsl. destruct Hk as [[n En]|[len En]]; rewrite En in Ef.
    - eapply small_size_field_width; [exact Ef|exact Hsl].
    - eapply sized_field_width; [exact Ef|exact Hsl]. }
  destruct ty as [[]|]; destruct v; try (inversion H; fail).
  all: try (destruct (is_vint id); [|inversion H; fail]); try (inversion H; fail).
  all: cbn [payload_of]; eapply Fin; [exact H|first [left; eexists; reflexivity|right; eexists; reflexivity]].
Qed.
