(* C20, the positive side: the schedules on which the non-blocking wrapper is correct.
   PART A: the abstract reader is monotone in the input: a step that does not depend on where the input ends — after it at
   least 16 bytes are still unread (a header look-ahead is at most 8 + 8 bytes, payloads are consumed exactly) and no
   end-of-file error is waiting in the queue (a payload longer than the remaining input is the one place where the reader looks
   further than 16 bytes) — is the same step on every extension of the input.
   PART B: if after every call of the wrapper that leaves source bytes undelivered the inner iterator still holds 16 unread bytes
   and has met no end of file ([aheadb]), the wrapper yields exactly the run of the abstract reader on the whole input. *)
From Ebml Require Import Base Tools Spec Reader Pure Proofs.Tactics Proofs.ReaderIO Proofs.Refine Proofs.AsyncProofs
  Proofs.PureProofs Proofs.Termination Proofs.BufferSim.

Arguments vint_len : simpl never.
Arguments from_be : simpl never.
Arguments read_vint : simpl never.

(* ------------------------------------------------------------------ the state with more input behind it *)
Definition ext (st : pst) (y : list N) : pst :=
  {| b_bytes := b_bytes st ++ y; b_off := b_off st; b_stack := b_stack st; b_queue := b_queue st; b_last := b_last st;
     b_det := b_det st; b_bad := b_bad st; b_fuel := b_fuel st |}.

Lemma ext_nil st : ext st [] = st.
Proof. destruct st. unfold ext. cbn. rewrite app_nil_r. reflexivity. Qed.

Lemma ext_ext st x y : ext (ext st x) y = ext st (x ++ y).
Proof. unfold ext. cbn. rewrite <- app_assoc. reflexivity. Qed.

(* end-of-file errors: the only results that depend on where the input ends once 16 bytes are in sight *)
Definition is_eof (e : rerr) : bool := match e with REof _ _ _ _ => true | _ => false end.
Definition q_eof (x : qitem) : bool := match x with QErr e => is_eof e | QOk _ _ => false end.
Definition noeof (q : list qitem) : Prop := Forall (fun x => q_eof x = false) q.
Definition eof_res {A} (r : res rerr A) : bool := match r with Err e => is_eof e | _ => false end.
Definition nres_noeof (r : nres) : Prop := match r with NErr e => is_eof e = false | _ => True end.

Lemma noeof_app a b : noeof (a ++ b) <-> noeof a /\ noeof b.
Proof. apply Forall_app. Qed.

Lemma okq_noeof q : okq q -> noeof q.
Proof. apply Forall_impl. intros [t o|e] H; [reflexivity|discriminate]. Qed.

(* at most the last item is an error *)
Fixpoint elast (q : list qitem) : Prop :=
  match q with [] => True | x :: tl => (qitem_is_err x = true -> tl = []) /\ elast tl end.

Lemma elast_okq_app a l : okq a -> elast l -> elast (a ++ l).
Proof.
  induction a as [|x a IH]; intros Ha Hl; [exact Hl|]. inversion Ha as [|? ? Hx Ha']; subst.
  cbn [app elast]. split; [intros H; congruence|apply IH; assumption].
Qed.

Lemma okq_elast a : okq a -> elast a.
Proof. intros H. rewrite <- (app_nil_r a). apply elast_okq_app; [exact H|exact I]. Qed.

Lemma elast_app_r a b : elast (a ++ b) -> elast b.
Proof. induction a as [|x a IH]; [auto|]. cbn [app elast]. intros [_ H]. apply IH, H. Qed.

Lemma elast_err_last a e b : elast (a ++ QErr e :: b) -> b = [].
Proof. intros H. apply elast_app_r in H. destruct H as [H _]. apply H. reflexivity. Qed.

Lemma elast_single x : elast [x].
Proof. split; [reflexivity|exact I]. Qed.

(* ------------------------------------------------------------------ the header *)
Lemma p_hier_step_ext c st y id ty :
  p_hier_step c (ext st y) id ty = (ext (fst (p_hier_step c st id ty)) y, snd (p_hier_step c st id ty)).
Proof.
  unfold p_hier_step. destruct (negb _ && _); [|reflexivity].
  change (b_det (ext st y)) with (b_det st). destruct (b_det st) eqn:Ed.
  - change (b_det (ext st y)) with (b_det st). rewrite Ed. change (b_stack (ext st y)) with (b_stack st).
    destruct (_ && _); reflexivity.
  - destruct (all_ids _).
    + destruct (implied_stack _ _); [|reflexivity]. cbn [pset_stack ext b_det b_stack]. destruct (_ && _); reflexivity.
    + change (b_det (ext st y)) with (b_det st). rewrite Ed. reflexivity.
Qed.

Lemma p_tag_id_ext st y : (8 <= length (b_bytes st))%nat -> p_tag_id (ext st y) = p_tag_id st.
Proof.
  intros H. unfold p_tag_id, blen. change (b_bytes (ext st y)) with (b_bytes st ++ y). change (b_off (ext st y)) with (b_off st).
  destruct (b_bytes st) as [|b0 tl] eqn:Eb; [cbn in H; lia|]. cbn [app].
  destruct (b0 =? 0); [reflexivity|]. pose proof (vint_len_le8 b0) as Hl.
  destruct (N.ltb_spec (N.of_nat (length (b0 :: tl ++ y))) (N.of_nat (vint_len b0))) as [Hs|_];
    [cbn [length] in Hs, H; rewrite app_length in Hs; lia|].
  destruct (N.ltb_spec (N.of_nat (length (b0 :: tl))) (N.of_nat (vint_len b0))) as [Hs|_]; [lia|].
  change (b0 :: tl ++ y) with ((b0 :: tl) ++ y). rewrite firstn_app.
  replace (vint_len b0 - length (b0 :: tl))%nat with O by lia. cbn [firstn]. rewrite app_nil_r. reflexivity.
Qed.

Lemma p_tag_id_le8 st id idl : p_tag_id st = Ok (id, idl) -> (idl <= 8)%nat.
Proof.
  unfold p_tag_id. destruct (b_bytes st) as [|b0 tl]; [discriminate|].
  destruct (b0 =? 0); [intros H; inversion H; lia|]. destruct (_ <? _); [discriminate|].
  intros H; inversion H; subst. apply vint_len_le8.
Qed.

Lemma p_header_ext c st y : (16 <= length (b_bytes st))%nat ->
  p_header c (ext st y) = (ext (fst (p_header c st)) y, snd (p_header c st)).
Proof.
  intros H. rewrite !p_header_unfold, p_tag_id_ext by lia.
  destruct (p_tag_id st) as [[id idl]|e|] eqn:Et; try reflexivity.
  pose proof (p_tag_id_le8 _ _ _ Et) as Hidl.
  unfold p_hdr_tail. change (b_bytes (ext st y)) with (b_bytes st ++ y). change (b_off (ext st y)) with (b_off st).
  assert (Hb : firstn 8 (skipn idl (b_bytes st ++ y)) = firstn 8 (skipn idl (b_bytes st))).
  { rewrite skipn_app. replace (idl - length (b_bytes st))%nat with O by lia. cbn [skipn].
    rewrite firstn_app. replace (8 - length (skipn idl (b_bytes st)))%nat with O by (rewrite skipn_length; lia).
    cbn [firstn]. rewrite app_nil_r. reflexivity. }
  rewrite Hb. destruct (read_vint _) as [[[size sl]|]|e1|]; try reflexivity.
  destruct (is_numeric _ && _); [reflexivity|]. destruct (negb (c_allow_id c) && _); [reflexivity|].
  rewrite p_hier_step_ext.
  destruct (p_hier_step c st id (get_type (c_sp c) id)) as [st1 [e1|]]; cbn [fst snd]; [reflexivity|].
  change (b_bad (ext st1 y)) with (b_bad st1). destruct (b_bad st1); [reflexivity|].
  change (p_invalid_tag_size (ext st1 y)) with (p_invalid_tag_size st1).
  destruct (_ && _); [reflexivity|].
  destruct (c_max c); destruct (ebml_size size sl); try destruct (_ <? _); reflexivity.
Qed.

(* ------------------------------------------------------------------ one tag *)
Lemma pconsume_ext st k y : k <= blen st -> pconsume (ext st y) k = ext (pconsume st k) y.
Proof. intros H. unfold pconsume, ext. cbn. rewrite splitN_snd_app by exact H. reflexivity. Qed.

Lemma p_tag_tail_ext c st ts h y : N.of_nat (snd h) <= blen st -> eof_res (snd (p_tag_tail c st ts h)) = false ->
  p_tag_tail c (ext st y) ts h = (ext (fst (p_tag_tail c st ts h)) y, snd (p_tag_tail c st ts h)).
Proof.
  destruct h as [[[id ty] esz] hl]. cbn [snd]. intros Hhl. unfold p_tag_tail.
  rewrite (pconsume_ext st _ y Hhl). set (s1 := pconsume st (N.of_nat hl)).
  change (b_off (ext s1 y)) with (b_off s1). change (b_bytes (ext s1 y)) with (b_bytes s1 ++ y).
  assert (Hge : forall size, (blen s1 <? size) = false -> (blen (ext s1 y) <? size) = false).
  { intros size Hs. apply N.ltb_ge in Hs. apply N.ltb_ge. unfold blen in *. change (b_bytes (ext s1 y)) with (b_bytes s1 ++ y).
    rewrite app_length. lia. }
  destruct ty as [[]|]; try (intros _; reflexivity);
    (destruct esz as [size|]; [|intros _; reflexivity]);
    (destruct (blen s1 <? size) eqn:El; [cbn; intros Hq; discriminate|]); intros _;
    rewrite (Hge size El), (splitN_fst_app (b_bytes s1) size y) by (apply N.ltb_ge in El; exact El);
    rewrite (pconsume_ext s1 size y) by (apply N.ltb_ge in El; exact El);
    try (destruct (arr_to_u64 _); reflexivity); try (destruct (arr_to_i64 _); reflexivity);
    try (destruct (arr_to_f64 _); reflexivity); try (destruct (utf8_valid _); reflexivity); reflexivity.
Qed.

Lemma p_read_tag_ext c st y : (16 <= length (b_bytes st))%nat -> eof_res (snd (p_read_tag c st)) = false ->
  p_read_tag c (ext st y) = (ext (fst (p_read_tag c st)) y, snd (p_read_tag c st)).
Proof.
  intros H. rewrite !p_read_tag_unfold, (p_header_ext c st y H). change (b_off (ext st y)) with (b_off st).
  destruct (p_header c st) as [st1 [h|e|]] eqn:Eh; cbn [fst snd]; try (intros _; reflexivity).
  intros Hr. apply p_tag_tail_ext; [|exact Hr].
  destruct h as [[[id ty] esz] hl]. destruct (p_header_ok_facts _ _ _ _ _ _ _ Eh) as (Hb & _ & _ & idl & size & sl & _ & _ & _ & _ & Hlen).
  cbn [snd]. unfold blen in *. rewrite Hb. exact Hlen.
Qed.

Definition rtc_noeof (r : option (res rerr ptag)) : Prop := match r with Some r' => eof_res r' = false | None => True end.

Lemma p_read_tag_checked_ext c st y : (16 <= length (b_bytes st))%nat -> rtc_noeof (snd (p_read_tag_checked c st)) ->
  p_read_tag_checked c (ext st y) = (ext (fst (p_read_tag_checked c st)) y, snd (p_read_tag_checked c st)).
Proof.
  intros H. unfold p_read_tag_checked. change (b_bytes (ext st y)) with (b_bytes st ++ y).
  pose proof (p_read_tag_ext c st y H) as Hx.
  destruct (b_bytes st) as [|b0 tl] eqn:Eb; [cbn in H; lia|]. cbn [app].
  destruct (p_read_tag c st) as [st2 r]. cbn [fst snd rtc_noeof] in *. intros Hr. rewrite (Hx Hr). reflexivity.
Qed.

(* the cursor only moves forward *)
Lemma p_read_tag_len c st : (length (b_bytes (fst (p_read_tag c st))) <= length (b_bytes st))%nat.
Proof.
  rewrite p_read_tag_unfold. destruct (p_header_pos c st) as [Hb _].
  destruct (p_header c st) as [st1 [h|e|]]; cbn [fst] in *; try (rewrite Hb; apply le_n).
  destruct h as [[[id ty] esz] hl]. destruct (p_tag_tail c st1 (b_off st) (id, ty, esz, hl)) as [st' r] eqn:Et. cbn [fst].
  rewrite <- Hb. destruct (p_tag_tail_state c _ _ _ _ _ _ _ _ Et) as [->|[sz ->]]; cbn [pconsume b_bytes].
  - apply splitN_snd_le.
  - eapply Nat.le_trans; apply splitN_snd_le.
Qed.

Lemma p_read_tag_checked_len c st : (length (b_bytes (fst (p_read_tag_checked c st))) <= length (b_bytes st))%nat.
Proof.
  unfold p_read_tag_checked. destruct (b_bytes st) eqn:Eb; [cbn [fst]; rewrite Eb; apply le_n|].
  pose proof (p_read_tag_len c st) as H. destruct (p_read_tag c st) as [st2 r]. cbn [fst] in *. rewrite Eb in H. exact H.
Qed.

(* ------------------------------------------------------------------ read_next / buffer_master in continuation form *)
Definition rn_k (f : nat) (c : cfg) (st : pst) (r : option (res rerr ptag)) : pst :=
  match r with
  | Some (Ok p) =>
      let tid := tag_id (p_tag p) in
      let st := ppop_frames st (count_ended (c_sp c) tid (stack_view (b_stack st))) in
      match p_tag p with
      | TStart _ =>
          let st := pset_stack st ({| f_id := tid; f_size := p_size p; f_start := p_start p; f_data := p_data p |} :: b_stack st) (b_det st) in
          if mem_id tid (c_buffered c) then p_buffer_master f c tid (p_start p) (length (b_queue st)) (length (b_queue st)) st
          else ppush_q st [QOk (p_tag p) (p_start p)]
      | _ => ppush_q st [QOk (p_tag p) (p_start p)]
      end
  | Some (Err e) => ppush_q st [QErr e]
  | Some Panic => pset_bad st BPanic
  | None => if c_emit_eof c then ppop_frames st (length (b_stack st)) else st
  end.

Lemma p_read_next_k f c st :
  p_read_next (S f) c st =
  rn_k f c (fst (p_read_tag_checked c (ppop_frames st (exhausted_count (b_off st) (b_stack st)))))
           (snd (p_read_tag_checked c (ppop_frames st (exhausted_count (b_off st) (b_stack st))))).
Proof. rewrite p_read_next_unfold. cbn zeta. destruct (p_read_tag_checked c _) as [s [[p|e|]|]]; reflexivity. Qed.

Definition bm_k (f : nat) (c : cfg) (tid ts : N) (pre pos : nat) (st1 : pst) : pst :=
  match b_bad st1 with Some _ => st1 | None =>
  if (length (b_queue st1) <=? pos)%nat then ppush_q st1 [QErr (REof ts (Some tid) None None)]
  else let (p, found) := scan_queue tid (skipn pos (b_queue st1)) pos in
       if found then p_bm_finish tid ts pre st1 p else p_buffer_master f c tid ts pre p st1
  end.

Lemma p_buffer_master_k f c tid ts pre st :
  p_buffer_master (S f) c tid ts pre (length (b_queue st)) st = bm_k f c tid ts pre (length (b_queue st)) (p_read_next f c st).
Proof. rewrite p_buffer_master_unfold. cbn zeta. rewrite Nat.leb_refl. reflexivity. Qed.

Lemma p_bm_finish_ext tid ts pre st pos y : p_bm_finish tid ts pre (ext st y) pos = ext (p_bm_finish tid ts pre st pos) y.
Proof.
  unfold p_bm_finish. change (b_queue (ext st y)) with (b_queue st).
  destruct (nth_error _ _) as [[t o|e]|]; reflexivity.
Qed.

(* ------------------------------------------------------------------ the mutual induction *)
Definition RNX (c : cfg) (fuel : nat) : Prop := forall st,
  (length (b_bytes (p_read_next fuel c st)) <= length (b_bytes st))%nat /\
  (exists new, b_queue (p_read_next fuel c st) = b_queue st ++ new /\ elast new) /\
  (forall y, (16 <= length (b_bytes (p_read_next fuel c st)))%nat -> noeof (b_queue (p_read_next fuel c st)) ->
     p_read_next fuel c (ext st y) = ext (p_read_next fuel c st) y).

Definition BMX (c : cfg) (fuel : nat) : Prop := forall tid ts kept ch st,
  b_queue st = kept ++ ch -> okq ch ->
  (length (b_bytes (p_buffer_master fuel c tid ts (length kept) (length (b_queue st)) st)) <= length (b_bytes st))%nat /\
  (exists tail, b_queue (p_buffer_master fuel c tid ts (length kept) (length (b_queue st)) st) = kept ++ tail /\ elast tail) /\
  (forall y, (16 <= length (b_bytes (p_buffer_master fuel c tid ts (length kept) (length (b_queue st)) st)))%nat ->
     noeof (b_queue (p_buffer_master fuel c tid ts (length kept) (length (b_queue st)) st)) ->
     p_buffer_master fuel c tid ts (length kept) (length (b_queue st)) (ext st y) =
     ext (p_buffer_master fuel c tid ts (length kept) (length (b_queue st)) st) y).

Lemma rn_k_X c f : BMX c f -> forall st r,
  (length (b_bytes (rn_k f c st r)) <= length (b_bytes st))%nat /\
  (exists new, b_queue (rn_k f c st r) = b_queue st ++ new /\ elast new) /\
  (forall y, (16 <= length (b_bytes (rn_k f c st r)))%nat -> noeof (b_queue (rn_k f c st r)) ->
     rn_k f c (ext st y) r = ext (rn_k f c st r) y).
Proof.
  intros IH st r. destruct r as [[p|e|]|]; cbn [rn_k]; cbn zeta.
  - set (st3 := ppop_frames st (count_ended (c_sp c) (tag_id (p_tag p)) (stack_view (b_stack st)))).
    set (e2 := map end_item (firstn (count_ended (c_sp c) (tag_id (p_tag p)) (stack_view (b_stack st))) (b_stack st))).
    assert (Hq3 : b_queue st3 = b_queue st ++ e2) by reflexivity.
    assert (He2 : okq e2) by apply okq_ends.
    assert (Push : forall (s : pst) x, b_bytes s = b_bytes st -> b_queue s = b_queue st ++ e2 ->
              (length (b_bytes (ppush_q s [x])) <= length (b_bytes st))%nat /\
              (exists new, b_queue (ppush_q s [x]) = b_queue st ++ new /\ elast new)).
    { intros s x Hb Hq. split; [cbn [ppush_q pset_queue b_bytes]; rewrite Hb; apply le_n|].
      exists (e2 ++ [x]). split; [cbn [ppush_q pset_queue b_queue]; rewrite Hq, app_assoc; reflexivity|].
      apply elast_okq_app; [exact He2|apply elast_single]. }
    destruct (p_tag p) as [id v|id|id|id cs] eqn:Ep;
      try (destruct (Push st3 (QOk (p_tag p) (p_start p)) eq_refl Hq3) as [A B]; rewrite Ep in A, B;
           split; [exact A|split; [exact B|intros y _ _; reflexivity]]).
    set (st4 := pset_stack st3 _ _).
    destruct (mem_id _ _).
    + destruct (IH (tag_id (TStart id)) (p_start p) (b_queue st4) [] st4 (eq_sym (app_nil_r _)) (Forall_nil _)) as [M [[tail [Hq Ht]] E]].
      split; [exact M|]. split.
      * exists (e2 ++ tail). split; [rewrite Hq; change (b_queue st4) with (b_queue st3); rewrite Hq3, app_assoc; reflexivity|].
        apply elast_okq_app; assumption.
      * intros y Hs Hn. exact (E y Hs Hn).
    + destruct (Push st4 (QOk (TStart id) (p_start p)) eq_refl Hq3) as [A B].
      split; [exact A|split; [exact B|intros y _ _; reflexivity]].
  - split; [apply le_n|]. split; [exists [QErr e]; split; [reflexivity|apply elast_single]|intros y _ _; reflexivity].
  - split; [apply le_n|]. split; [exists []; split; [cbn; rewrite app_nil_r; reflexivity|exact I]|intros y _ _; reflexivity].
  - destruct (c_emit_eof c).
    + split; [apply le_n|]. split; [|intros y _ _; reflexivity].
      exists (map end_item (firstn (length (b_stack st)) (b_stack st))). split; [reflexivity|apply okq_elast, okq_ends].
    + split; [apply le_n|]. split; [exists []; split; [rewrite app_nil_r; reflexivity|exact I]|intros y _ _; reflexivity].
Qed.

Lemma bm_k_X c f : BMX c f -> forall tid ts kept ch new st1,
  b_queue st1 = kept ++ ch ++ new -> okq ch -> elast new ->
  (length (b_bytes (bm_k f c tid ts (length kept) (length (kept ++ ch)) st1)) <= length (b_bytes st1))%nat /\
  (exists tail, b_queue (bm_k f c tid ts (length kept) (length (kept ++ ch)) st1) = kept ++ tail /\ elast tail) /\
  (noeof (b_queue (bm_k f c tid ts (length kept) (length (kept ++ ch)) st1)) -> noeof (b_queue st1)) /\
  (forall y, (16 <= length (b_bytes (bm_k f c tid ts (length kept) (length (kept ++ ch)) st1)))%nat ->
     noeof (b_queue (bm_k f c tid ts (length kept) (length (kept ++ ch)) st1)) ->
     bm_k f c tid ts (length kept) (length (kept ++ ch)) (ext st1 y) = ext (bm_k f c tid ts (length kept) (length (kept ++ ch)) st1) y).
Proof.
  intros IH tid ts kept ch new st1 Hq Hch Hnew. unfold bm_k.
  assert (Hbad : forall y, b_bad (ext st1 y) = b_bad st1) by reflexivity.
  assert (Hqe : forall y, b_queue (ext st1 y) = b_queue st1) by reflexivity.
  destruct (b_bad st1) eqn:Eb.
  - split; [apply le_n|]. split; [exists (ch ++ new); split; [exact Hq|apply elast_okq_app; assumption]|].
    split; [auto|]. intros y _ _. rewrite Hbad. reflexivity.
  - destruct (Nat.leb_spec (length (b_queue st1)) (length (kept ++ ch))) as [Hle|Hgt].
    + assert (Hn0 : new = []).
      { rewrite Hq, app_assoc, app_length in Hle. destruct new; [reflexivity|cbn [length] in Hle; lia]. }
      subst new. rewrite app_nil_r in Hq.
      split; [apply le_n|]. split.
      * exists (ch ++ [QErr (REof ts (Some tid) None None)]). split; [cbn [ppush_q pset_queue b_queue]; rewrite Hq, app_assoc; reflexivity|].
        apply elast_okq_app; [exact Hch|apply elast_single].
      * assert (Hno : ~ noeof (b_queue (ppush_q st1 [QErr (REof ts (Some tid) None None)]))).
        { cbn [ppush_q pset_queue b_queue]. intros Hn. apply noeof_app in Hn. destruct Hn as [_ Hn]. inversion Hn; discriminate. }
        split; [intros Hn; destruct (Hno Hn)|intros y _ Hn; destruct (Hno Hn)].
    + assert (Hsk : skipn (length (kept ++ ch)) (b_queue st1) = new) by (rewrite Hq, app_assoc; apply skipn_app_exact).
      rewrite Hsk.
      destruct (scan_queue tid new (length (kept ++ ch))) as [p found] eqn:Es. destruct found.
      * destruct (scan_found _ _ _ _ Es) as [a [x [b [Hn1 [Hp [Hoa [_ Hx]]]]]]]. subst p. rewrite Hn1 in Hq, Hnew.
        assert (Hq1 : b_queue st1 = kept ++ (ch ++ a) ++ x :: b) by (rewrite Hq, <- !app_assoc; reflexivity).
        assert (HE : forall y, (let (p, found) := scan_queue tid (skipn (length (kept ++ ch)) (b_queue (ext st1 y))) (length (kept ++ ch)) in
                      if found then p_bm_finish tid ts (length kept) (ext st1 y) p
                      else p_buffer_master f c tid ts (length kept) p (ext st1 y)) =
                     ext (p_bm_finish tid ts (length kept) st1 (length (kept ++ ch) + length a)) y).
        { intros y. rewrite Hqe, Hsk, Es. apply p_bm_finish_ext. }
        assert (HE2 : forall y, match b_bad (ext st1 y) with Some _ => ext st1 y | None =>
                        if (length (b_queue (ext st1 y)) <=? length (kept ++ ch))%nat then ppush_q (ext st1 y) [QErr (REof ts (Some tid) None None)]
                        else let (p, found) := scan_queue tid (skipn (length (kept ++ ch)) (b_queue (ext st1 y))) (length (kept ++ ch)) in
                             if found then p_bm_finish tid ts (length kept) (ext st1 y) p
                             else p_buffer_master f c tid ts (length kept) p (ext st1 y) end =
                     ext (p_bm_finish tid ts (length kept) st1 (length (kept ++ ch) + length a)) y).
        { intros y. rewrite Hbad, HE. rewrite Hqe. destruct (Nat.leb_spec (length (b_queue st1)) (length (kept ++ ch))); [lia|reflexivity]. }
        split; [|split; [|split; [|intros y _ _; apply HE2]]]; clear HE HE2.
        -- unfold p_bm_finish. destruct (nth_error _ _) as [[t o|e]|]; apply le_n.
        -- unfold p_bm_finish. rewrite Hq1, firstn_app_exact, skipn_app_exact.
           replace (length (kept ++ ch) + length a - length kept)%nat with (length (ch ++ a)) by (rewrite !app_length; lia).
           rewrite nth_error_app_exact, firstn_app_exact, skipn_S_app_exact.
           destruct x as [t o|e].
           ++ eexists. split; [reflexivity|]. apply elast_app_r in Hnew. destruct Hnew as [_ Hb]. cbn [app elast]. split; [discriminate|exact Hb].
           ++ eexists. split; [reflexivity|apply elast_single].
        -- intros Hn. unfold p_bm_finish in Hn. rewrite Hq1 in Hn. rewrite firstn_app_exact, skipn_app_exact in Hn.
           replace (length (kept ++ ch) + length a - length kept)%nat with (length (ch ++ a)) in Hn by (rewrite !app_length; lia).
           rewrite nth_error_app_exact, firstn_app_exact, skipn_S_app_exact in Hn. rewrite Hq1.
           destruct x as [t o|e]; cbn [pset_queue b_queue] in Hn.
           ++ apply noeof_app in Hn. destruct Hn as [Hk Hn]. cbn [app] in Hn. inversion Hn as [|? ? _ Hb]; subst.
              apply noeof_app. split; [exact Hk|]. apply noeof_app. split; [apply okq_noeof, okq_app; split; assumption|].
              constructor; [reflexivity|exact Hb].
           ++ apply elast_err_last in Hnew. subst b.
              apply noeof_app in Hn. destruct Hn as [Hk Hn].
              apply noeof_app. split; [exact Hk|]. apply noeof_app. split; [apply okq_noeof, okq_app; split; assumption|exact Hn].
      * destruct (scan_not_found _ _ _ _ Es) as [Hp [Hon _]]. subst p.
        assert (Hq1 : b_queue st1 = kept ++ (ch ++ new)) by exact Hq.
        assert (Hlen : (length (kept ++ ch) + length new)%nat = length (b_queue st1)) by (rewrite Hq, !app_length; lia).
        rewrite Hlen.
        assert (Hoc : okq (ch ++ new)) by (apply okq_app; split; assumption).
        destruct (IH tid ts kept (ch ++ new) st1 Hq1 Hoc) as [M [[tail [Hqt Ht]] E]].
        split; [exact M|]. split; [exists tail; split; assumption|]. split.
        -- intros Hn. rewrite Hqt in Hn. apply noeof_app in Hn. destruct Hn as [Hk _]. rewrite Hq1.
           apply noeof_app. split; [exact Hk|apply okq_noeof, Hoc].
        -- intros y Hs Hn. rewrite Hbad, Hqe. destruct (Nat.leb_spec (length (b_queue st1)) (length (kept ++ ch))); [lia|].
           rewrite Hsk, Es, Hlen. exact (E y Hs Hn).
Qed.

Lemma rn_bm_X c : forall fuel, RNX c fuel /\ BMX c fuel.
Proof.
  induction fuel as [|f [IH1 IH2]].
  - split.
    + intros st. cbn [p_read_next]. split; [apply le_n|]. split; [exists []; split; [cbn; rewrite app_nil_r; reflexivity|exact I]|].
      intros y _ _. reflexivity.
    + intros tid ts kept ch st Hq Hch. cbn [p_buffer_master]. split; [apply le_n|].
      split; [exists ch; split; [exact Hq|apply okq_elast, Hch]|]. intros y _ _. reflexivity.
  - split.
    + intros st. rewrite p_read_next_k.
      set (st0 := ppop_frames st (exhausted_count (b_off st) (b_stack st))).
      set (e1 := map end_item (firstn (exhausted_count (b_off st) (b_stack st)) (b_stack st))).
      assert (Hq0 : b_queue st0 = b_queue st ++ e1) by reflexivity.
      pose proof (p_read_tag_checked_len c st0) as Hl2.
      destruct (p_read_tag_checked_facts c st0) as [_ [Hq2 _]].
      pose proof (p_read_tag_checked_ext c st0) as Hx.
      destruct (p_read_tag_checked c st0) as [st2 r] eqn:Er. cbn [fst snd] in *.
      destruct (rn_k_X c f IH2 st2 r) as [M [[new [Hqn Hn]] E]].
      change (b_bytes st0) with (b_bytes st) in Hl2.
      split; [lia|]. split.
      * exists (e1 ++ new). split; [rewrite Hqn, Hq2, Hq0, app_assoc; reflexivity|apply elast_okq_app; [apply okq_ends|exact Hn]].
      * intros y Hs Hne. rewrite p_read_next_k.
        change (ppop_frames (ext st y) (exhausted_count (b_off (ext st y)) (b_stack (ext st y)))) with (ext st0 y).
        assert (Hr : rtc_noeof r).
        { destruct r as [[p|e|]|]; cbn [rtc_noeof eof_res]; [reflexivity| |reflexivity|exact I].
          cbn [rn_k ppush_q pset_queue b_queue] in Hne. apply noeof_app in Hne. destruct Hne as [_ Hne].
          inversion Hne as [|? ? He _]; subst. exact He. }
        rewrite (Hx y) by (try exact Hr; change (b_bytes st0) with (b_bytes st); lia). cbn [fst snd].
        exact (E y Hs Hne).
    + intros tid ts kept ch st Hq Hch. rewrite p_buffer_master_k.
      destruct (IH1 st) as [M1 [[new [Hqn Hn]] E1]].
      set (st1 := p_read_next f c st) in *.
      assert (Hq1 : b_queue st1 = kept ++ ch ++ new) by (rewrite Hqn, Hq, app_assoc; reflexivity).
      assert (Hpos : length (b_queue st) = length (kept ++ ch)) by (rewrite Hq; reflexivity).
      rewrite Hpos.
      destruct (bm_k_X c f IH2 tid ts kept ch new st1 Hq1 Hch Hn) as [M [T [B E]]].
      split; [lia|]. split; [exact T|].
      intros y Hs Hne.
      change (length (kept ++ ch)) with (length (kept ++ ch)).
      rewrite <- Hpos. change (length (b_queue st)) with (length (b_queue (ext st y))) at 1.
      rewrite p_buffer_master_k. change (b_queue (ext st y)) with (b_queue st). rewrite Hpos.
      rewrite (E1 y) by (try (apply B; exact Hne); lia).
      exact (E y Hs Hne).
Qed.

(* PART A for read_next: a step that ends with 16 bytes still unread and no end-of-file error in the queue is the same step
   whatever follows the input *)
Lemma p_read_next_ext c fuel st y :
  (16 <= length (b_bytes (p_read_next fuel c st)))%nat -> noeof (b_queue (p_read_next fuel c st)) ->
  p_read_next fuel c (ext st y) = ext (p_read_next fuel c st) y.
Proof. intros Hs Hn. destruct (rn_bm_X c fuel) as [H _]. destruct (H st) as [_ [_ E]]. exact (E y Hs Hn). Qed.

(* PART A: prefix monotonicity of the abstract reader *)
Theorem p_next_ext_gen c st y st1 r : p_next c st = (st1, r) ->
  (16 <= length (b_bytes st1))%nat -> noeof (b_queue st1) -> nres_noeof r ->
  p_next c (ext st y) = (ext st1 y, r).
Proof.
  unfold p_next. change (b_queue (ext st y)) with (b_queue st). change (b_fuel (ext st y)) with (b_fuel st).
  destruct (b_queue st) as [|x q] eqn:Eq.
  - intros H Hs Hn Hr.
    assert (Hpre : (16 <= length (b_bytes (p_read_next (b_fuel st) c st)))%nat /\ noeof (b_queue (p_read_next (b_fuel st) c st))).
    { destruct (b_queue (p_read_next (b_fuel st) c st)) as [|[t o|e] q'] eqn:Eq'; inversion H; subst; cbn [pset_last pset_queue b_bytes b_queue nres_noeof] in *.
      - split; [exact Hs|constructor].
      - split; [exact Hs|constructor; [reflexivity|exact Hn]].
      - split; [exact Hs|constructor; [exact Hr|exact Hn]]. }
    destruct Hpre as [Hs' Hn']. rewrite (p_read_next_ext c (b_fuel st) st y Hs' Hn').
    change (b_queue (ext (p_read_next (b_fuel st) c st) y)) with (b_queue (p_read_next (b_fuel st) c st)).
    destruct (b_queue (p_read_next (b_fuel st) c st)) as [|[t o|e] q']; inversion H; subst; reflexivity.
  - intros H _ _ _. change (b_queue (ext st y)) with (b_queue st). rewrite Eq in *.
    destruct x as [t o|e]; inversion H; subst; reflexivity.
Qed.

Corollary p_next_ext c st y t off st1 : p_next c st = (st1, NItem t off) ->
  (16 <= length (b_bytes st1))%nat -> noeof (b_queue st1) ->
  p_next c (ext st y) = (ext st1 y, NItem t off).
Proof. intros H Hs Hn. exact (p_next_ext_gen c st y st1 _ H Hs Hn I). Qed.

(* ------------------------------------------------------------------ PART B: the wrapper *)
Definition noeofb (q : list qitem) : bool := forallb (fun x => negb (q_eof x)) q.
Definition nres_noeofb (r : nres) : bool := match r with NErr e => negb (is_eof e) | _ => true end.
Definition no_fail_head (s : list rd) : bool := match s with Fail _ :: _ => false | _ => true end.

Lemma noeofb_spec q : noeofb q = true -> noeof q.
Proof.
  unfold noeofb, noeof. rewrite forallb_forall, Forall_forall. intros H x Hx. specialize (H x Hx).
  destruct (q_eof x); [discriminate|reflexivity].
Qed.

Lemma nres_noeofb_spec r : nres_noeofb r = true -> nres_noeof r.
Proof. destruct r as [t o|e|]; cbn; [auto| |auto]. destruct (is_eof e); [discriminate|reflexivity]. Qed.

(* the state of the wrapper after a call is fine when the source has delivered everything, or the inner iterator is still
   ahead: 16 delivered bytes unread, and it has not reported (nor queued) an end of file *)
Definition step_ahead (a1 : ast) (r : nres) : bool :=
  (a_slen a1 =? 0) ||
  ((16 <=? r_wlen (a_inner a1) + r_rlen (a_inner a1)) && noeofb (r_queue (a_inner a1)) && nres_noeofb r).

(* the schedule keeps the wrapper ahead along the whole run (and the source never fails) *)
Fixpoint aheadb (limit : nat) (c : cfg) (a : ast) : bool :=
  match limit with
  | O => true
  | S l =>
    no_fail_head (a_script a) &&
    (let (a1, r) := anext c a in
     step_ahead a1 r &&
     match r_bad (a_inner a1), r with
     | None, NItem _ _ => aheadb l c a1
     | _, _ => true
     end)
  end.

(* the abstract state the wrapper stands for: what the inner iterator has not consumed, then what the source has not delivered *)
Definition afull (a : ast) : pst := ext (Abs (a_inner a)) (a_src a).

Lemma abs_ext st st' x : same_logic st' st -> b_bytes (Abs st') = b_bytes (Abs st) ++ x -> Abs st' = ext (Abs st) x.
Proof.
  intros [H1 [H2 [H3 [H4 [H5 [H6 H7]]]]]] Hb. unfold Abs, ext in *. cbn [b_bytes b_off b_stack b_queue b_last b_det b_bad b_fuel] in *.
  rewrite Hb, H1, H2, H3, H4, H5, H6, H7. reflexivity.
Qed.

(* one call with a source read of k bytes = one step of the abstract reader on the delivered bytes *)
Lemma go_feed c a k s : Good (a_inner a) -> a_slen a = N.of_nat (length (a_src a)) -> k <= a_slen a ->
  Good (fst (next c (a_inner (feed a k s)))) /\
  a_slen (feed a k s) = N.of_nat (length (a_src (feed a k s))) /\
  exists x, a_src a = x ++ a_src (feed a k s) /\
            p_next c (ext (Abs (a_inner a)) x) = (Abs (fst (next c (a_inner (feed a k s)))), snd (next c (a_inner (feed a k s)))).
Proof.
  intros HG Hsl Hk. destruct (feed_good a k s HG Hsl Hk) as [HG1 [Hb1 [HL1 [Hs1 [Hl1 _]]]]].
  destruct (next_refines c _ HG1) as [HG2 [HA2 Hr2]].
  split; [exact HG2|]. split; [exact Hl1|]. exists (fst (splitN k (a_src a))). split.
  - rewrite Hs1. rewrite Hsl in Hk. symmetry. apply (splitN_app (a_src a) k Hk).
  - rewrite <- (abs_ext _ _ _ HL1 Hb1), HA2, Hr2. destruct (p_next c (Abs (a_inner (feed a k s)))). reflexivity.
Qed.

Lemma anext_sim c a : Good (a_inner a) -> a_slen a = N.of_nat (length (a_src a)) -> no_fail_head (a_script a) = true ->
  Good (a_inner (fst (anext c a))) /\
  a_slen (fst (anext c a)) = N.of_nat (length (a_src (fst (anext c a)))) /\
  exists x, a_src a = x ++ a_src (fst (anext c a)) /\
            p_next c (ext (Abs (a_inner a)) x) = (Abs (a_inner (fst (anext c a))), snd (anext c a)).
Proof.
  intros HG Hsl Hnf. unfold anext.
  assert (Go : forall k s, k <= a_slen a ->
    Good (a_inner (fst (let (i, r) := next c (a_inner (feed a k s)) in
            ({| a_inner := i; a_src := a_src (feed a k s); a_slen := a_slen (feed a k s); a_script := a_script (feed a k s) |}, r)))) /\
    a_slen (fst (let (i, r) := next c (a_inner (feed a k s)) in
            ({| a_inner := i; a_src := a_src (feed a k s); a_slen := a_slen (feed a k s); a_script := a_script (feed a k s) |}, r))) =
    N.of_nat (length (a_src (fst (let (i, r) := next c (a_inner (feed a k s)) in
            ({| a_inner := i; a_src := a_src (feed a k s); a_slen := a_slen (feed a k s); a_script := a_script (feed a k s) |}, r))))) /\
    exists x, a_src a = x ++ a_src (fst (let (i, r) := next c (a_inner (feed a k s)) in
            ({| a_inner := i; a_src := a_src (feed a k s); a_slen := a_slen (feed a k s); a_script := a_script (feed a k s) |}, r))) /\
      p_next c (ext (Abs (a_inner a)) x) =
      (Abs (a_inner (fst (let (i, r) := next c (a_inner (feed a k s)) in
            ({| a_inner := i; a_src := a_src (feed a k s); a_slen := a_slen (feed a k s); a_script := a_script (feed a k s) |}, r)))),
       snd (let (i, r) := next c (a_inner (feed a k s)) in
            ({| a_inner := i; a_src := a_src (feed a k s); a_slen := a_slen (feed a k s); a_script := a_script (feed a k s) |}, r)))).
  { intros k s Hk. destruct (go_feed c a k s HG Hsl Hk) as [H1 [H2 [x [H3 H4]]]].
    destruct (next c (a_inner (feed a k s))) as [i r]. cbn [fst snd a_inner a_src a_slen] in *.
    split; [exact H1|]. split; [exact H2|]. exists x. split; assumption. }
  destruct (a_script a) as [|[n| |code] s]; [apply Go; lia|apply Go; lia|apply Go; lia|discriminate].
Qed.

(* one call of the wrapper that stays ahead = one step of the abstract reader on the whole remaining input *)
Lemma anext_ahead c a : Good (a_inner a) -> a_slen a = N.of_nat (length (a_src a)) -> no_fail_head (a_script a) = true ->
  step_ahead (fst (anext c a)) (snd (anext c a)) = true ->
  p_next c (afull a) = (afull (fst (anext c a)), snd (anext c a)).
Proof.
  intros HG Hsl Hnf Hah. destruct (anext_sim c a HG Hsl Hnf) as [HG1 [Hsl1 [x [Hsrc Hp]]]].
  destruct (anext c a) as [a1 r]. cbn [fst snd] in *. unfold afull. rewrite Hsrc, <- ext_ext.
  unfold step_ahead in Hah. apply orb_true_iff in Hah. destruct Hah as [Hz|Hah].
  - apply N.eqb_eq in Hz. rewrite Hz in Hsl1. destruct (a_src a1); [|cbn [length] in Hsl1; lia].
    rewrite !ext_nil. exact Hp.
  - apply andb_true_iff in Hah. destruct Hah as [Hah Hr]. apply andb_true_iff in Hah. destruct Hah as [H16 Hq].
    apply N.leb_le in H16. apply p_next_ext_gen; [exact Hp| |apply noeofb_spec, Hq|apply nres_noeofb_spec, Hr].
    destruct HG1 as [HW _]. pose proof (total_len _ HW) as Ht. cbn [Abs b_bytes]. lia.
Qed.

Lemma arun_ahead c : forall limit a, Good (a_inner a) -> a_slen a = N.of_nat (length (a_src a)) -> aheadb limit c a = true ->
  arun limit c a = snd (p_run_all limit c (afull a)).
Proof.
  induction limit as [|l IH]; intros a HG Hsl Hah; cbn [arun p_run_all]; [reflexivity|].
  cbn [aheadb] in Hah. apply andb_true_iff in Hah. destruct Hah as [Hnf Hah].
  destruct (anext_sim c a HG Hsl Hnf) as [HG1 [Hsl1 _]].
  pose proof (anext_ahead c a HG Hsl Hnf) as Hstep.
  destruct (anext c a) as [a1 r]. cbn [fst snd] in *.
  apply andb_true_iff in Hah. destruct Hah as [Hsa Hrest]. rewrite (Hstep Hsa).
  change (b_bad (afull a1)) with (r_bad (a_inner a1)).
  destruct (r_bad (a_inner a1)); [reflexivity|].
  destruct r as [t o|e|]; try reflexivity.
  rewrite (IH a1 HG1 Hsl1 Hrest). destruct (p_run_all l c (afull a1)). reflexivity.
Qed.

(* PART B: a schedule that keeps the wrapper ahead yields the run of the abstract reader on the whole input *)
Theorem async_ahead c script input :
  aheadb (4 * length input + 64) c (a_init script input) = true ->
  run_async c script input = snd (p_run_all (4 * length input + 64) c (p_init input)).
Proof.
  intros Hah. unfold run_async. rewrite arun_ahead; [reflexivity| |reflexivity|exact Hah].
  split; [split; reflexivity|constructor].
Qed.

(* ... which is what the blocking iterator yields, whatever its buffer capacity and the chunking of its source *)
Corollary async_ahead_blocking c script input cap0 s : calm s ->
  aheadb (4 * length input + 64) c (a_init script input) = true ->
  run_async c script input = run_reader c cap0 s input [RAll].
Proof. intros Hc Hah. rewrite (async_ahead c script input Hah), (buffered_refines_pure c cap0 s input [RAll] Hc). symmetry. apply p_run_RAll. Qed.

(* ------------------------------------------------------------------ the criterion covers the known good case *)
Definition nofail (s : list rd) : bool := forallb (fun x => match x with Fail _ => false | _ => true end) s.

Lemma nofail_head s : nofail s = true -> no_fail_head s = true.
Proof. destruct s as [|[n| |code] s]; cbn; auto. Qed.

Lemma feed_slen a k s : a_slen (feed a k s) = a_slen a - k /\ a_script (feed a k s) = s.
Proof. unfold feed. destruct (splitN k (a_src a)). split; reflexivity. Qed.

(* what a call does to the source: it reads at most 64 KiB, at most what the script allows, and moves on in the script *)
Lemma anext_source c a : no_fail_head (a_script a) = true ->
  a_slen (fst (anext c a)) = a_slen a - N.min (N.min (match a_script a with Chunk n :: _ => n | Pause :: _ => 0 | _ => 65536 end) 65536) (a_slen a) /\
  a_script (fst (anext c a)) = tl (a_script a).
Proof.
  intros Hnf. unfold anext.
  assert (Go : forall k s, a_slen (fst (let (i, r) := next c (a_inner (feed a k s)) in
            ({| a_inner := i; a_src := a_src (feed a k s); a_slen := a_slen (feed a k s); a_script := a_script (feed a k s) |}, r))) = a_slen a - k /\
            a_script (fst (let (i, r) := next c (a_inner (feed a k s)) in
            ({| a_inner := i; a_src := a_src (feed a k s); a_slen := a_slen (feed a k s); a_script := a_script (feed a k s) |}, r))) = s).
  { intros k s. destruct (feed_slen a k s) as [H1 H2]. destruct (next c (a_inner (feed a k s))) as [i r]. cbn [fst a_slen a_script]. split; assumption. }
  destruct (a_script a) as [|[n| |code] s]; [| | |discriminate]; cbn [tl].
  - destruct (Go (N.min 65536 (a_slen a)) []) as [H1 H2]. split; [rewrite H1; f_equal; lia|exact H2].
  - apply Go.
  - destruct (Go 0 s) as [H1 H2]. split; [rewrite H1; f_equal; lia|exact H2].
Qed.

(* once the source has delivered everything the wrapper is ahead for ever *)
Lemma aheadb_delivered c : forall limit a, a_slen a = 0 -> nofail (a_script a) = true -> aheadb limit c a = true.
Proof.
  induction limit as [|l IH]; intros a Hz Hnf; [reflexivity|]. cbn [aheadb].
  rewrite (nofail_head _ Hnf). cbn [andb].
  destruct (anext_source c a (nofail_head _ Hnf)) as [H1 H2].
  destruct (anext c a) as [a1 r]. cbn [fst] in *.
  assert (Hz1 : a_slen a1 = 0) by lia.
  unfold step_ahead. rewrite Hz1. cbn [N.eqb orb andb].
  destruct (r_bad (a_inner a1)); [reflexivity|]. destruct r; try reflexivity.
  apply IH; [exact Hz1|]. rewrite H2. destruct (a_script a) as [|x s]; [reflexivity|]. cbn [nofail forallb] in Hnf. apply andb_true_iff in Hnf. apply Hnf.
Qed.

(* in particular when the first read delivers the whole input (AsyncProofs.async_first_read, for any later schedule) *)
Lemma aheadb_first_read c input script :
  N.of_nat (length input) <= 65536 -> nofail script = true ->
  (match script with Chunk n :: _ => N.of_nat (length input) <= n | Pause :: _ => input = [] | _ => True end) ->
  aheadb (4 * length input + 64) c (a_init script input) = true.
Proof.
  intros Hlen Hnf Hfirst. replace (4 * length input + 64)%nat with (S (4 * length input + 63)) by lia. cbn [aheadb].
  assert (Hnh : no_fail_head (a_script (a_init script input)) = true) by (apply nofail_head, Hnf).
  rewrite Hnh. cbn [andb].
  destruct (anext_source c (a_init script input) Hnh) as [H1 H2].
  destruct (anext c (a_init script input)) as [a1 r]. cbn [fst a_init a_slen a_script] in *.
  assert (Hz1 : a_slen a1 = 0).
  { rewrite H1. destruct script as [|[n| |code] s]; [lia|lia| |discriminate]. subst input. cbn. lia. }
  unfold step_ahead. rewrite Hz1. cbn [N.eqb orb andb].
  destruct (r_bad (a_inner a1)); [reflexivity|]. destruct r; try reflexivity.
  apply aheadb_delivered; [exact Hz1|]. rewrite H2. destruct script as [|x s]; [reflexivity|].
  cbn [nofail forallb] in Hnf. apply andb_true_iff in Hnf. apply Hnf.
Qed.
