(* C16: the fixed-width payload decoders and their relation to the writer's payload encoders. *)
From Ebml Require Import Base Tools Spec Writer Proofs.Tactics Proofs.BytesProofs.

(* two's complement reading of a big-endian byte string of n bytes *)
Definition sext_bytes (a : list N) : Z :=
  match a with
  | [] => 0%Z       (* an empty payload means 0 *)
  | _ => let n := Z.of_nat (length a) in
         let v := Z.of_N (from_be a) in
         if (v <? 2 ^ (8 * n - 1))%Z then v else (v - 2 ^ (8 * n))%Z
  end.

Lemma arr_to_u64_ok a : (length a <= 8)%nat -> arr_to_u64 a = Ok (from_be a).
Proof. intros H. unfold arr_to_u64. destruct (Nat.ltb_spec 8 (length a)); [lia|reflexivity]. Qed.

Lemma arr_to_u64_err a : (8 < length a)%nat -> arr_to_u64 a = Err (ReadU64Overflow a).
Proof. intros H. unfold arr_to_u64. destruct (Nat.ltb_spec 8 (length a)); [reflexivity|lia]. Qed.

Lemma arr_to_i64_err a : (8 < length a)%nat -> arr_to_i64 a = Err (ReadI64Overflow a).
Proof. intros H. unfold arr_to_i64. destruct (Nat.ltb_spec 8 (length a)); [reflexivity|lia]. Qed.

Lemma from_be_cons b l : from_be (b :: l) = b * 256 ^ N.of_nat (length l) + from_be l.
Proof.
  unfold from_be at 1. unfold from_be_acc. cbn [fold_left]. fold (from_be_acc (0 * 256 + b) l).
  rewrite from_be_acc_split. lia.
Qed.

Lemma zpow256 n : (0 <= n)%Z -> (256 ^ n = 2 ^ (8 * n))%Z.
Proof. intros. replace 256%Z with (2 ^ 8)%Z by reflexivity. rewrite <- Z.pow_mul_r by lia. reflexivity. Qed.

Lemma arr_to_i64_ok a : wf_bytes a -> (length a <= 8)%nat -> arr_to_i64 a = Ok (sext_bytes a).
Proof.
  intros Hwf Hlen. unfold arr_to_i64. destruct (Nat.ltb_spec 8 (length a)); [lia|].
  destruct a as [|b0 tl]; [reflexivity|].
  inversion Hwf as [|? ? Hb0 Htl]; subst.
  pose proof (from_be_bound tl Htl) as Hbt.
  unfold sext_bytes. rewrite from_be_cons. cbn [length] in *.
  set (m := length tl) in *.
  replace (Z.of_nat (S m)) with (Z.of_nat m + 1)%Z by lia.
  assert (Hp : (Z.of_N (256 ^ N.of_nat m) = 2 ^ (8 * Z.of_nat m))%Z).
  { rewrite N2Z.inj_pow. rewrite nat_N_Z. change (Z.of_N 256) with 256%Z. apply zpow256. lia. }
  assert (Hpos : (0 < 2 ^ (8 * Z.of_nat m))%Z) by (apply Z.pow_pos_nonneg; lia).
  replace (8 * (Z.of_nat m + 1) - 1)%Z with (7 + 8 * Z.of_nat m)%Z by lia.
  replace (8 * (Z.of_nat m + 1))%Z with (8 + 8 * Z.of_nat m)%Z by lia.
  rewrite !Z.pow_add_r by lia.
  set (p := 256 ^ N.of_nat m) in *. set (q := (2 ^ (8 * Z.of_nat m))%Z) in *.
  set (t := from_be tl) in *.
  assert (Hv : Z.of_N (b0 * p + t) = (Z.of_N b0 * q + Z.of_N t)%Z) by lia.
  rewrite Hv.
  assert (Ht : (0 <= Z.of_N t < q)%Z) by lia.
  change (2 ^ 7)%Z with 128%Z. change (2 ^ 8)%Z with 256%Z.
  destruct (N.ltb_spec 127 b0) as [Hneg|Hnn].
  - (* negative *)
    destruct (Z.ltb_spec (Z.of_N b0 * q + Z.of_N t) (128 * q)); [nia|].
    destruct (Nat.eqb_spec (S m) 8) as [E|E].
    + unfold of_u64. f_equal.
      assert (q = 2 ^ 56)%Z by (unfold q; replace (Z.of_nat m) with 7%Z by lia; reflexivity).
      destruct (N.ltb_spec (b0 * p + t) 9223372036854775808); [exfalso; nia|].
      rewrite Hv. lia.
    + f_equal; lia.
  - destruct (Z.ltb_spec (Z.of_N b0 * q + Z.of_N t) (128 * q)); [|nia].
    f_equal; lia.
Qed.

Lemma arr_to_f64_8 a : length a = 8%nat -> arr_to_f64 a = Ok (from_be a).
Proof. intros H. unfold arr_to_f64. rewrite H. reflexivity. Qed.
Lemma arr_to_f64_4 a : length a = 4%nat -> arr_to_f64 a = Ok (widen32 (from_be a)).
Proof. intros H. unfold arr_to_f64. rewrite H. reflexivity. Qed.
Lemma arr_to_f64_err a : length a <> 4%nat -> length a <> 8%nat -> arr_to_f64 a = Err (ReadF64Mismatch a).
Proof.
  intros H4 H8. unfold arr_to_f64.
  destruct (Nat.eqb_spec (length a) 4); [contradiction|]. destruct (Nat.eqb_spec (length a) 8); [contradiction|reflexivity].
Qed.

Lemma decoders_total a : arr_to_u64 a <> Panic /\ arr_to_i64 a <> Panic /\ arr_to_f64 a <> Panic.
Proof.
  unfold arr_to_u64, arr_to_i64, arr_to_f64. repeat split.
  - destruct (8 <? length a)%nat; discriminate.
  - destruct (8 <? length a)%nat; [discriminate|]. destruct a; [discriminate|].
    destruct (127 <? n); [destruct (length (n :: a) =? 8)%nat|]; discriminate.
  - destruct (length a =? 4)%nat; [discriminate|]. destruct (length a =? 8)%nat; discriminate.
Qed.

(* ---- the writer's payload encoders are inverted *)
Lemma uint_width_cases v : uint_width v = 1%nat \/ uint_width v = 2%nat \/ uint_width v = 4%nat \/ uint_width v = 8%nat.
Proof. unfold uint_width. repeat destruct (_ <? _); auto. Qed.

Lemma uint_width_fits v : v < 2 ^ 64 -> v < 256 ^ N.of_nat (uint_width v).
Proof.
  intros H. unfold uint_width.
  destruct (N.ltb_spec v (2 ^ 8)); [exact H0|].
  destruct (N.ltb_spec v (2 ^ 16)); [exact H1|].
  destruct (N.ltb_spec v (2 ^ 32)); [exact H2|]. exact H.
Qed.

Lemma uint_width_minimal v w : (w = 1 \/ w = 2 \/ w = 4 \/ w = 8)%nat -> v < 256 ^ N.of_nat w -> (uint_width v <= w)%nat.
Proof.
  intros Hw Hv. unfold uint_width.
  destruct (N.ltb_spec v (2 ^ 8)); [lia|].
  destruct (N.ltb_spec v (2 ^ 16)); [destruct Hw as [E|[E|[E|E]]]; subst w; cbn in Hv; lia|].
  destruct (N.ltb_spec v (2 ^ 32)); destruct Hw as [E|[E|[E|E]]]; subst w; cbn in Hv; lia.
Qed.

Theorem writer_uint_inverted v : v < 2 ^ 64 ->
  arr_to_u64 (be_bytes (uint_width v) v) = Ok v /\ length (be_bytes (uint_width v) v) = uint_width v.
Proof.
  intros H. rewrite be_bytes_length. split; [|reflexivity].
  rewrite arr_to_u64_ok.
  - rewrite from_be_be. rewrite N.mod_small; [reflexivity|]. apply uint_width_fits, H.
  - rewrite be_bytes_length. destruct (uint_width_cases v) as [E|[E|[E|E]]]; rewrite E; lia.
Qed.

Lemma sint_width_cases z : sint_width z = 1%nat \/ sint_width z = 2%nat \/ sint_width z = 4%nat \/ sint_width z = 8%nat.
Proof. unfold sint_width. repeat destruct (_ && _); auto. Qed.

Lemma sint_width_fits z : (- 2 ^ 63 <= z < 2 ^ 63)%Z ->
  (- 2 ^ (8 * Z.of_nat (sint_width z) - 1) <= z < 2 ^ (8 * Z.of_nat (sint_width z) - 1))%Z.
Proof.
  intros H. unfold sint_width.
  destruct (Z.leb_spec (- 2 ^ 7) z), (Z.ltb_spec z (2 ^ 7)); cbn [andb]; try (cbn; lia).
  all: destruct (Z.leb_spec (- 2 ^ 15) z), (Z.ltb_spec z (2 ^ 15)); cbn [andb]; try (cbn; lia).
  all: destruct (Z.leb_spec (- 2 ^ 31) z), (Z.ltb_spec z (2 ^ 31)); cbn [andb]; try (cbn; lia).
Qed.

Lemma sext_bytes_be w z : (1 <= w <= 8)%nat -> (- 2 ^ (8 * Z.of_nat w - 1) <= z < 2 ^ (8 * Z.of_nat w - 1))%Z ->
  sext_bytes (be_bytes w (to_u64 z)) = z.
Proof.
  intros Hw Hz. unfold sext_bytes.
  destruct (be_bytes w (to_u64 z)) eqn:Eb.
  { apply (f_equal (@length N)) in Eb. rewrite be_bytes_length in Eb. cbn in Eb. lia. }
  rewrite <- Eb. clear Eb. rewrite be_bytes_length, from_be_be.
  assert (Hp8 : (256 ^ Z.of_nat w = 2 ^ (8 * Z.of_nat w))%Z) by (apply zpow256; lia).
  assert (Hsplit : (2 ^ (8 * Z.of_nat w) = 2 * 2 ^ (8 * Z.of_nat w - 1))%Z).
  { replace (8 * Z.of_nat w)%Z with (1 + (8 * Z.of_nat w - 1))%Z at 1 by lia. rewrite Z.pow_add_r by lia. reflexivity. }
  assert (Hh : (0 < 2 ^ (8 * Z.of_nat w - 1))%Z) by (apply Z.pow_pos_nonneg; lia).
  assert (H64 : (18446744073709551616 = 2 ^ (8 * Z.of_nat w) * 2 ^ (64 - 8 * Z.of_nat w))%Z).
  { rewrite <- Z.pow_add_r by lia. replace (8 * Z.of_nat w + (64 - 8 * Z.of_nat w))%Z with 64%Z by lia. reflexivity. }
  assert (Hv : Z.of_N (to_u64 z mod 256 ^ N.of_nat w) = (z mod 2 ^ (8 * Z.of_nat w))%Z).
  { unfold to_u64. rewrite N2Z.inj_mod, N2Z.inj_pow, nat_N_Z. change (Z.of_N 256) with 256%Z.
    rewrite Z2N.id by (apply Z.mod_pos_bound; lia). rewrite Hp8, H64.
    rewrite Z.rem_mul_r by lia.
    set (P := (2 ^ (8 * Z.of_nat w))%Z) in *.
    rewrite Z.mul_comm, Z.mod_add by lia. apply Z.mod_mod. lia. }
  rewrite Hv. set (P := (2 ^ (8 * Z.of_nat w))%Z) in *. set (h := (2 ^ (8 * Z.of_nat w - 1))%Z) in *.
  destruct (Z.ltb_spec (z mod P) h) as [Hlt|Hge].
  - destruct (Z.lt_ge_cases z 0) as [Hn|Hn].
    + exfalso. assert (z mod P = z + P)%Z by (symmetry; apply Z.mod_unique with (-1)%Z; lia). lia.
    + apply Z.mod_small. lia.
  - destruct (Z.lt_ge_cases z 0) as [Hn|Hn].
    + assert (z mod P = z + P)%Z by (symmetry; apply Z.mod_unique with (-1)%Z; lia). lia.
    + exfalso. rewrite Z.mod_small in Hge by lia. lia.
Qed.

Theorem writer_sint_inverted z : (- 2 ^ 63 <= z < 2 ^ 63)%Z ->
  arr_to_i64 (be_bytes (sint_width z) (to_u64 z)) = Ok z /\ length (be_bytes (sint_width z) (to_u64 z)) = sint_width z.
Proof.
  intros H. rewrite be_bytes_length. split; [|reflexivity].
  assert (Hw : (1 <= sint_width z <= 8)%nat) by (destruct (sint_width_cases z) as [E|[E|[E|E]]]; rewrite E; lia).
  rewrite arr_to_i64_ok.
  - f_equal. apply sext_bytes_be; [exact Hw|]. apply sint_width_fits, H.
  - apply be_bytes_wf.
  - rewrite be_bytes_length. lia.
Qed.

Theorem writer_float_inverted bits : bits < 2 ^ 64 -> arr_to_f64 (be_bytes 8 bits) = Ok bits.
Proof.
  intros H. rewrite arr_to_f64_8 by apply be_bytes_length. rewrite from_be_be.
  rewrite N.mod_small; [reflexivity|]. exact H.
Qed.
