(* C06 / C08: how drains with buffered masters END.  Proofs/BufferSim.v relates the items of a clean buffered drain to the drain
   of the same configuration with nothing buffered ([unbuffered c]) but not the final outcomes; Proofs/BufferSimErr.v relates
   the final outcomes for readers that close the open masters at the end of the input ([c_emit_eof c = true]), in the direction
   "from the unbuffered drain to the buffered one".  This file
   (1) exports the other direction: a buffered drain that ends with None means an unbuffered drain that ends with None (after
       the unrolled items), for EVERY configuration and for every item limit of the unbuffered drain that exceeds the number of
       unrolled items ([buffered_none_export]); with end-of-input closing the two drains end with None together unless the
       unbuffered one is cut at its item limit ([none_iff]);
   (2) derives the buffered analogue of C06_eof_closes_all without any side condition about the item limit
       ([beof_closes_all], rooted and pinned forms);
   (3) redoes the error simulation of BufferSimErr.v without the assumption [c_emit_eof c = true]: the assumption is only used
       to exclude the "master never ended" error of buffer_master, and is replaced by [Safe]: along the unbuffered steps, as long
       as no error has been queued, a step that queues nothing (the end of the input) leaves no master with a buffered id open.
       A drain with nothing buffered that ends in an error is safe ([Safe_of_error]), so C08_error_prefix holds whatever
       c_emit_eof ([error_prefix_any]); a drain with nothing buffered that ends with None is safe when its final stack holds no
       master with a buffered id ([Safe_of_final]), so C08_clean_stays_clean holds under that hypothesis whatever c_emit_eof
       ([clean_stays_clean_open]).  The hypothesis cannot be dropped (finding D18, C08_noeof_counterexample in Props/C08.v). *)
From Ebml Require Import Base Tools Spec Reader Pure Proofs.Tactics Proofs.ReaderIO Proofs.Refine Proofs.PureProofs
  Proofs.NoPanic Proofs.RollUp Proofs.Nesting Proofs.BufferSim Proofs.Termination Proofs.BufferSimErr Proofs.Tiling
  Proofs.Extents Proofs.AuditNesting Proofs.BufferedNesting.

Arguments vint_len : simpl never.
Arguments read_vint : simpl never.

(* ------------------------------------------------------------------ unbuffered steps: frames, quiet steps *)
Lemma usteps_frame c : forall n s, exists new, forall Q l, usteps n c (recore s Q l) = recore (usteps n c s) (Q ++ new) l.
Proof.
  induction n as [|n IH]; intros s; cbn [usteps].
  - exists []. intros Q l. rewrite app_nil_r. reflexivity.
  - destruct (ustep_frame c s) as [new1 [E1 _]]. destruct (IH (ustep c s)) as [new2 E2].
    exists (new1 ++ new2). intros Q l. rewrite E1, E2, app_assoc. reflexivity.
Qed.

Lemma usteps_S_r c n s : usteps (S n) c s = ustep c (usteps n c s).
Proof. rewrite <- Nat.add_1_r, usteps_add. reflexivity. Qed.

(* a quiet step: it queues nothing and reaches no panic site *)
Definition qs (c : cfg) (u : pst) : Prop := length (b_queue (ustep c u)) = length (b_queue u) /\ b_bad (ustep c u) = None.

Lemma qs_queue c u : qs c u -> b_queue (ustep c u) = b_queue u.
Proof.
  intros [Hl _]. destruct (ustep_queue c u) as [new [Hq _]]. rewrite Hq in *. rewrite app_length in Hl.
  destruct new; [apply app_nil_r|cbn [length] in Hl; lia].
Qed.

Lemma qs_recore c s Q l : qs c (recore s Q l) <-> qs c s.
Proof.
  unfold qs. destruct (ustep_queue c s) as [new [Hq Hfr]]. rewrite Hfr, Hq. cbn [recore b_queue b_bad]. rewrite !app_length.
  split; intros [A B]; (split; [lia|exact B]).
Qed.

Lemma ustep_at_eof_stack c u : b_bytes u = [] -> (c_emit_eof c = true -> b_stack u = []) ->
  (c_emit_eof c = false -> firstn (exhausted_count (b_off u) (b_stack u)) (b_stack u) = []) ->
  b_stack (ustep c u) = b_stack u.
Proof.
  intros Hb He Hn. unfold ustep. rewrite p_read_next_unfold. cbn zeta. unfold p_read_tag_checked.
  change (b_bytes (ppop_frames u (exhausted_count (b_off u) (b_stack u)))) with (b_bytes u). rewrite Hb.
  cbn [unbuffered c_emit_eof]. destruct (c_emit_eof c).
  - cbn [ppop_frames ppush_q pset_queue pset_stack b_stack]. rewrite (He eq_refl). rewrite ?skipn_nil. reflexivity.
  - cbn [ppop_frames ppush_q pset_queue pset_stack b_stack].
    pose proof (firstn_skipn (exhausted_count (b_off u) (b_stack u)) (b_stack u)) as Hs. rewrite (Hn eq_refl) in Hs. exact Hs.
Qed.

Lemma qs_next c u : qs c u -> qs c (ustep c u) /\ b_stack (ustep c (ustep c u)) = b_stack (ustep c u).
Proof.
  intros H. pose proof (qs_queue c u H) as Hq. destruct H as [_ Hb].
  destruct (ustep_quiet_shape c u Hq Hb) as [A [Bx C]].
  destruct (ustep_at_eof c (ustep c u) A Bx C) as [D E]. split.
  - split; [rewrite D; reflexivity|rewrite E; exact Hb].
  - apply ustep_at_eof_stack; assumption.
Qed.

Lemma qs_forever c : forall m u, qs c u -> qs c (usteps m c u) /\ b_stack (ustep c (usteps m c u)) = b_stack (ustep c u).
Proof.
  induction m as [|m IH]; intros u H; cbn [usteps]; [split; [exact H|reflexivity]|].
  destruct (qs_next c u H) as [H1 H2]. destruct (IH _ H1) as [A Bx]. split; [exact A|]. rewrite Bx. exact H2.
Qed.

Lemma qs_same_stack c u a b : qs c (usteps a c u) -> qs c (usteps b c u) ->
  b_stack (ustep c (usteps a c u)) = b_stack (ustep c (usteps b c u)).
Proof.
  assert (W : forall a d, qs c (usteps a c u) -> b_stack (ustep c (usteps (a + d) c u)) = b_stack (ustep c (usteps a c u))).
  { intros a0 d H. rewrite usteps_add. apply (qs_forever c d _ H). }
  intros Ha Hb. destruct (Nat.le_ge_cases a b) as [L|L].
  - replace b with (a + (b - a))%nat by lia. symmetry. apply W, Ha.
  - replace a with (b + (a - b))%nat by lia. apply W, Hb.
Qed.

(* ------------------------------------------------------------------ safe states *)
Section Safe.
Variable c : cfg.

Definition nobuf (stk : list frame) : Prop := Forall (fun f => mem_id (f_id f) (c_buffered c) = false) stk.

(* [Safe su]: along the unbuffered steps from [su], as long as no error has been queued, a quiet step (the end of the input
   has been reached and nothing is left to emit) leaves no buffered master open *)
Definition Safe (su : pst) : Prop := forall n,
  okq (b_queue (usteps n c (recore su [] 0))) -> qs c (usteps n c (recore su [] 0)) ->
  nobuf (b_stack (ustep c (usteps n c (recore su [] 0)))).

Lemma Safe_recore s Q l : Safe s -> Safe (recore s Q l).
Proof. intros H. exact H. Qed.

Lemma Safe_steps su m s' nu : Safe su -> (forall Q l, usteps m c (recore su Q l) = recore s' (Q ++ nu) l) -> okq nu -> Safe s'.
Proof.
  intros Hs Hu Ho n Hoq Hqs.
  destruct (usteps_frame c n (recore s' [] 0)) as [new E].
  set (U := usteps n c (recore s' [] 0)) in *.
  assert (EU : b_queue U = new).
  { pose proof (E [] 0) as E0. change (recore (recore s' [] 0) [] 0) with (recore s' [] 0) in E0. fold U in E0.
    rewrite E0 at 1. reflexivity. }
  assert (Eall : usteps (m + n) c (recore su [] 0) = recore U (nu ++ new) 0).
  { rewrite usteps_add, Hu. cbn [app]. change (recore s' nu 0) with (recore (recore s' [] 0) nu 0). apply E. }
  specialize (Hs (m + n)%nat). rewrite Eall in Hs.
  assert (Hn : nobuf (b_stack (ustep c (recore U (nu ++ new) 0)))).
  { apply Hs.
    - cbn [recore b_queue]. apply okq_app. split; [exact Ho|rewrite <- EU; exact Hoq].
    - apply qs_recore. exact Hqs. }
  destruct (ustep_queue c U) as [new1 [_ Hfr]]. rewrite Hfr in Hn. exact Hn.
Qed.

(* with end-of-input closing every state is safe: a quiet step leaves nothing open *)
Lemma Safe_eof su : c_emit_eof c = true -> Safe su.
Proof.
  intros He n _ Hqs. pose proof (qs_queue c _ Hqs) as Hq. destruct Hqs as [_ Hb].
  destruct (ustep_quiet_shape c _ Hq Hb) as [_ [Bx _]]. rewrite (Bx He). constructor.
Qed.

(* a read_next that queues nothing, taken while the buffered master [F] is open, contradicts safety *)
Lemma Safe_grows st f F S0 ch : Safe st -> mem_id (f_id F) (c_buffered c) = true -> no_end (f_id F) (qtags ch) ->
  Tr (c_buffered c) (F :: S0) ch (b_stack st) -> b_bad (p_read_next f c st) = None ->
  b_queue (p_read_next f c st) = b_queue st -> False.
Proof.
  intros Hs Em Hne HT Hb Hq.
  destruct (proj1 (rn_bm_sim c f) st Hb) as [_ [new1 [Hq1 Hsim1]]].
  assert (new1 = []).
  { rewrite Hq1 in Hq. rewrite <- (app_nil_r (b_queue st)) in Hq at 2. apply app_inv_head in Hq. exact Hq. }
  subst new1. destruct (Hsim1 (Forall_nil _)) as [HT1 [n [new_u [Hu HUnr]]]].
  apply Unr_nil_inv in HUnr. subst new_u.
  assert (HT2 : Tr (c_buffered c) (F :: S0) (ch ++ []) (b_stack (p_read_next f c st))) by (eapply Tr_app; eassumption).
  rewrite app_nil_r in HT2.
  destruct (Tr_keeps _ _ _ _ HT2 [] F S0 eq_refl (Forall_nil _) Em Hne) as [ab [rs Hstk]].
  specialize (Hu [] 0). cbn [app] in Hu. rewrite usteps_S_r in Hu.
  set (U := usteps n c (recore st [] 0)) in *.
  assert (HqU : b_queue U = []).
  { destruct (ustep_queue c U) as [new [HqU _]]. rewrite Hu in HqU. cbn [recore b_queue] in HqU.
    symmetry in HqU. apply app_eq_nil in HqU. apply HqU. }
  assert (Hn : nobuf (b_stack (ustep c U))).
  { apply (Hs n).
    - fold U. rewrite HqU. constructor.
    - fold U. split; [rewrite Hu, HqU; reflexivity|rewrite Hu; exact Hb]. }
  rewrite Hu in Hn. cbn [recore b_stack] in Hn. rewrite Hstk in Hn. apply Forall_app in Hn. destruct Hn as [_ Hn].
  apply Forall_cons_iff in Hn. destruct Hn as [Hn _]. congruence.
Qed.

(* ------------------------------------------------------------------ the step simulation, with errors, from safe states *)
Definition RNS (fuel : nat) : Prop := forall sb, Safe sb ->
  b_bad (p_read_next fuel c sb) = None ->
  exists new_b, b_queue (p_read_next fuel c sb) = b_queue sb ++ new_b /\
    (okq new_b \/
     exists ok_b e S' n new_u extra, new_b = ok_b ++ [QErr e] /\ okq ok_b /\ okq extra /\
       Tr (c_buffered c) (b_stack sb) ok_b S' /\ Unr ok_b new_u /\
       forall Q l, usteps (S n) c (recore sb Q l) = recore (p_read_next fuel c sb) (Q ++ new_u ++ extra ++ [QErr e]) l).

Definition BMS (fuel : nat) : Prop := forall F S0 kept ch st, Safe st ->
  mem_id (f_id F) (c_buffered c) = true ->
  b_queue st = kept ++ ch -> okq ch -> no_end (f_id F) (qtags ch) -> Tr (c_buffered c) (F :: S0) ch (b_stack st) ->
  b_bad (p_buffer_master fuel c (f_id F) (f_start F) (length kept) (length (b_queue st)) st) = None ->
  exists tail, b_queue (p_buffer_master fuel c (f_id F) (f_start F) (length kept) (length (b_queue st)) st) = kept ++ tail /\
    tail <> [] /\
    (okq tail \/
     exists tb e S' n new_u extra, tail = tb ++ [QErr e] /\ okq tb /\ okq extra /\ Tr (c_buffered c) S0 tb S' /\
       (forall Q l, usteps n c (recore st Q l) =
                    recore (p_buffer_master fuel c (f_id F) (f_start F) (length kept) (length (b_queue st)) st)
                           (Q ++ new_u ++ extra ++ [QErr e]) l) /\
       ((tb = [] /\ new_u = []) \/
        forall uch, Unr ch uch -> Unr tb (QOk (TStart (f_id F)) (f_start F) :: uch ++ new_u))).

Lemma rn_bm_simS : forall fuel, RNS fuel /\ BMS fuel.
Proof.
  induction fuel as [|f [IHRN IHBM]].
  - split.
    + intros sb _ Hb. cbn [p_read_next pset_bad b_bad] in Hb. destruct (b_bad sb); discriminate.
    + intros F S0 kept ch st _ _ _ _ _ _ Hb. cbn [p_buffer_master pset_bad b_bad] in Hb. destruct (b_bad st); discriminate.
  - split.
    + intros sb Hsafe.
      destruct (rn_cases f c sb) as [[new [E1 [E2 [E3 [E4 E5]]]]] | [ends [st4 [F [S1 [Em [E1 [E2 [E3 [E4 [E5 [E6 [E7 E8]]]]]]]]]]]]];
        rewrite E1; intros Hb.
      * exists new.
        assert (Hq : b_queue (ustep c sb) = b_queue sb ++ new).
        { pose proof (E2 (b_queue sb) (b_last sb)) as H. rewrite recore_id in H. rewrite H. reflexivity. }
        split; [exact Hq|].
        destruct (ustep_new_cases c sb new E2) as [Ho|[k [e Hn]]]; [left; exact Ho|right].
        exists (map end_item (firstn k (b_stack sb))), e, (skipn k (b_stack sb)), O, (map end_item (firstn k (b_stack sb))), [].
        split; [exact Hn|]. split; [apply okq_ends|]. split; [constructor|]. split; [apply Tr_pop|].
        split; [apply Unr_refl; [apply okq_ends|apply no_full_qends]|].
        intros Q l. cbn [usteps app]. rewrite E2, Hn. reflexivity.
      * assert (Hq0 : b_queue st4 = b_queue st4 ++ []) by (rewrite app_nil_r; reflexivity).
        assert (HT0 : Tr (c_buffered c) (F :: S1) [] (b_stack st4)) by (rewrite E6; apply Tr_nil).
        assert (Hsafe4 : Safe st4).
        { apply (Safe_steps sb 1 st4 (ends ++ [QOk (TStart (f_id F)) (f_start F)]) Hsafe).
          - intros Q l. cbn [usteps]. apply E2.
          - apply okq_app. split; [exact E5|constructor; [reflexivity|constructor]]. }
        destruct (IHBM F S1 (b_queue st4) [] st4 Hsafe4 Em Hq0 (Forall_nil _) (Forall_nil _) HT0 Hb) as [tail [Hq [Hne Hcase]]].
        exists (ends ++ tail). split; [rewrite Hq, E3, app_assoc; reflexivity|].
        destruct Hcase as [Ho|[tb [e [S' [n [new_u [extra [Ht [Hotb [Hoex [HTtb [Hu Hd]]]]]]]]]]]].
        -- left. apply okq_app. split; assumption.
        -- right. destruct Hd as [[Htb Hnu]|Hd].
           ++ subst tb new_u. exists ends, e, S1, n, ends, (QOk (TStart (f_id F)) (f_start F) :: extra).
              split; [rewrite Ht; reflexivity|]. split; [exact E5|]. split; [constructor; [reflexivity|exact Hoex]|].
              split; [exact E7|]. split; [apply Unr_refl; assumption|].
              intros Q l. cbn [usteps]. rewrite E2, Hu. apply recore_q. cbn [app]. rewrite <- !app_assoc. reflexivity.
           ++ exists (ends ++ tb), e, S', n, (ends ++ QOk (TStart (f_id F)) (f_start F) :: new_u), extra.
              split; [rewrite Ht, app_assoc; reflexivity|]. split; [apply okq_app; split; assumption|]. split; [exact Hoex|].
              split; [eapply Tr_app; [exact E7|exact HTtb]|]. split.
              ** apply Unr_app; [apply Unr_refl; assumption|]. apply (Hd [] Unr_nil).
              ** intros Q l. cbn [usteps]. rewrite E2, Hu. apply recore_q. cbn [app]. rewrite <- !app_assoc. reflexivity.
    + intros F S0 kept ch st Hsafe Em Hq Hoc Hne HT. rewrite p_buffer_master_unfold. cbn zeta. rewrite Nat.leb_refl.
      destruct (b_bad (p_read_next f c st)) eqn:Eb1; [intros Hb; rewrite Eb1 in Hb; discriminate|].
      destruct (proj1 (rn_bm_sim c f) st Eb1) as [_ [new1 [Hq1 Hsim1]]].
      destruct (IHRN st Hsafe Eb1) as [new1' [Hq1' Hcase]].
      assert (Hsame : new1' = new1) by (rewrite Hq1 in Hq1'; apply app_inv_head in Hq1'; symmetry; exact Hq1').
      subst new1'. clear Hq1'.
      assert (Hnn : new1 <> []).
      { intros Hn. apply (Safe_grows st f F S0 ch Hsafe Em Hne HT Eb1). rewrite Hq1, Hn, app_nil_r. reflexivity. }
      remember (p_read_next f c st) as st1 eqn:Est1.
      destruct (Nat.leb_spec (length (b_queue st1)) (length (b_queue st))) as [Hle|Hgt].
      * exfalso. rewrite Hq1, app_length in Hle. destruct new1; [apply Hnn; reflexivity|cbn [length] in Hle; lia].
      * replace (skipn (length (b_queue st)) (b_queue st1)) with new1 by (rewrite Hq1, skipn_app_exact; reflexivity).
        destruct (scan_queue (f_id F) new1 (length (b_queue st))) as [p found] eqn:Es. destruct found.
        -- destruct (scan_found _ _ _ _ Es) as [a [x [b [Hn1 [Hp [Hoa [Hnea Hx]]]]]]]. subst new1 p.
           assert (Hq1' : b_queue st1 = kept ++ (ch ++ a) ++ x :: b) by (rewrite Hq1, Hq, <- !app_assoc; reflexivity).
           unfold p_bm_finish. rewrite Hq1', firstn_app_exact, skipn_app_exact.
           replace (length (b_queue st) + length a - length kept)%nat with (length (ch ++ a)) by (rewrite Hq, !app_length; lia).
           rewrite nth_error_app_exact, firstn_app_exact, skipn_S_app_exact.
           destruct x as [t o|e].
           ++ apply end_item_is in Hx. subst t. intros _.
              exists (QOk (roll_up_children (f_id F) (qtags (ch ++ a))) (f_start F) :: b). split; [reflexivity|]. split; [discriminate|].
              destruct Hcase as [Hok|[ok_b [e [S' [n [new_u [extra [Hnew [Hokb [Hoex [HTr [HUnr Hu]]]]]]]]]]]].
              ** left. apply okq_app in Hok. destruct Hok as [_ Hok]. apply Forall_cons_iff in Hok. destruct Hok as [_ Hok].
                 constructor; [reflexivity|exact Hok].
              ** right. destruct (app_last_cases _ _ _ _ _ Hnew) as [[_ [_ Hxy]]|[b' [Hb' Hokb']]]; [discriminate|]. subst b ok_b.
                 assert (HTall : Tr (c_buffered c) (F :: S0) ((ch ++ a) ++ QOk (TEnd (f_id F)) o :: b') S').
                 { rewrite <- app_assoc. eapply Tr_app; [exact HT|exact HTr]. }
                 assert (Hne2 : no_end (f_id F) (qtags (ch ++ a))) by (rewrite qtags_app; apply Forall_app; split; assumption).
                 destruct (Tr_split _ _ _ _ HTall [] F S0 _ _ _ eq_refl (Forall_nil _) Em eq_refl Hne2) as [HBal [Hoff [extra' HTb]]].
                 specialize (HBal [] Bal_nil). cbn [app] in HBal. subst o.
                 assert (Hob' : okq b').
                 { apply okq_app in Hokb. destruct Hokb as [_ Hokb]. apply Forall_cons_iff in Hokb. apply Hokb. }
                 exists (QOk (roll_up_children (f_id F) (qtags (ch ++ a))) (f_start F) :: b'), e, S', (S n), new_u, extra.
                 split; [reflexivity|]. split; [constructor; [reflexivity|exact Hob']|]. split; [exact Hoex|].
                 split; [unfold roll_up_children; apply Tr_full, (Tr_impl _ extra'), HTb|].
                 split; [intros Q l; rewrite Hu; reflexivity|].
                 right. intros uch Huch. destruct (Unr_app_inv _ _ _ HUnr) as [ua [ub' [-> [Hua Hub']]]].
                 inversion Hub' as [|t0 o0 b0 ub Hn0 Hub|]; subst.
                 destruct (Unr_tags _ _ Huch) as [_ [Houch Htch]]. destruct (Unr_tags _ _ Hua) as [_ [Houa Hta]].
                 unfold roll_up_children. rewrite app_assoc. apply Unr_full; [apply okq_app; split; assumption| |exact Hub].
                 rewrite roll_up_flat; [|lia|exact HBal]. rewrite !qtags_app, flat_app, Htch, Hta. reflexivity.
           ++ intros _. exists [QErr e]. split; [reflexivity|]. split; [discriminate|]. right.
              destruct Hcase as [Hok|[ok_b [e' [S' [n [new_u [extra [Hnew [Hokb [Hoex [HTr [HUnr Hu]]]]]]]]]]]].
              ** exfalso. apply okq_app in Hok. destruct Hok as [_ Hok]. apply Forall_cons_iff in Hok. destruct Hok as [Hok _]. discriminate.
              ** destruct (app_last_cases _ _ _ _ _ Hnew) as [[Hb0 [Hoka Hxy]]|[b' [Hb' Hokb']]].
                 --- subst b ok_b. injection Hxy as <-.
                     destruct (Unr_tags _ _ HUnr) as [_ [Honu _]].
                     exists [], e, S0, (S n), [], (new_u ++ extra).
                     split; [reflexivity|]. split; [constructor|]. split; [apply okq_app; split; assumption|]. split; [apply Tr_nil|].
                     split; [intros Q l; rewrite Hu, recore_pset_queue; apply recore_q; cbn [app]; rewrite <- !app_assoc; reflexivity|].
                     left. split; reflexivity.
                 --- exfalso. subst ok_b. apply okq_app in Hokb. destruct Hokb as [_ Hokb].
                     apply Forall_cons_iff in Hokb. destruct Hokb as [Hokb _]. discriminate.
        -- destruct (scan_not_found _ _ _ _ Es) as [Hp [Hon Hnen]]. subst p.
           replace (length (b_queue st) + length new1)%nat with (length (b_queue st1)) by (rewrite Hq1, app_length; reflexivity).
           intros Hb.
           assert (Hq1' : b_queue st1 = kept ++ (ch ++ new1)) by (rewrite Hq1, Hq, <- app_assoc; reflexivity).
           destruct (Hsim1 Hon) as [HT1 [n1 [nu1 [Hu1 HUnr1]]]].
           destruct (Unr_tags _ _ HUnr1) as [_ [Honu1 _]].
           assert (Hsafe1 : Safe st1) by (apply (Safe_steps st (S n1) st1 nu1 Hsafe Hu1 Honu1)).
           assert (Hoc2 : okq (ch ++ new1)) by (apply okq_app; split; assumption).
           assert (Hne2 : no_end (f_id F) (qtags (ch ++ new1))) by (rewrite qtags_app; apply Forall_app; split; assumption).
           assert (HT2 : Tr (c_buffered c) (F :: S0) (ch ++ new1) (b_stack st1)) by (eapply Tr_app; eassumption).
           destruct (IHBM F S0 kept (ch ++ new1) st1 Hsafe1 Em Hq1' Hoc2 Hne2 HT2 Hb) as [tail [Hqt [Hnet Hcase2]]].
           exists tail. split; [exact Hqt|]. split; [exact Hnet|].
           destruct Hcase2 as [Ho|[tb [e [S' [n2 [nu2 [extra [Ht [Hotb [Hoex [HTtb [Hu2 Hd]]]]]]]]]]]]; [left; exact Ho|right].
           destruct Hd as [[Htb Hnu]|Hd].
           ++ subst tb nu2. exists [], e, S', (S n1 + n2)%nat, [], (nu1 ++ extra).
              split; [exact Ht|]. split; [constructor|]. split; [apply okq_app; split; assumption|]. split; [exact HTtb|].
              split; [|left; split; reflexivity].
              intros Q l. rewrite usteps_add, Hu1, Hu2. apply recore_q. cbn [app]. rewrite <- !app_assoc. reflexivity.
           ++ exists tb, e, S', (S n1 + n2)%nat, (nu1 ++ nu2), extra.
              split; [exact Ht|]. split; [exact Hotb|]. split; [exact Hoex|]. split; [exact HTtb|]. split.
              ** intros Q l. rewrite usteps_add, Hu1, Hu2. apply recore_q. rewrite <- !app_assoc. reflexivity.
              ** right. intros uch Huch. rewrite app_assoc. apply Hd. apply Unr_app; assumption.
Qed.

(* ------------------------------------------------------------------ whole runs *)
(* unless it is cut at its item limit - which it is not when the limit exceeds the number of items [T] - the unbuffered run
   from [su] yields the items [T] and ends with [fin] *)
Definition UR2 (su : pst) (lim : nat) (T : list qitem) (fin : rout) : Prop :=
  (~ In OLimit (snd (p_run_all lim (unbuffered c) su)) \/ (length T < lim)%nat) ->
  snd (p_run_all lim (unbuffered c) su) = map item_out T ++ [fin].

Lemma drainR2 s : b_bad s = None -> forall q1, okq q1 -> forall q2 T fin, (forall l lim, UR2 (recore s q2 l) lim T fin) ->
  forall l lim, UR2 (recore s (q1 ++ q2) l) lim (q1 ++ T) fin.
Proof.
  intros Hb. induction q1 as [|x q1 IH]; intros Ho q2 T fin H l lim; [apply H|].
  destruct x as [t o|e]; [|apply Forall_cons_iff in Ho; destruct Ho as [Ho _]; discriminate].
  apply Forall_cons_iff in Ho. destruct Ho as [_ Ho'].
  destruct lim as [|lim].
  - intros [Hn|Hl]; [exfalso; apply Hn; left; reflexivity|lia].
  - unfold UR2. cbn [p_run_all app]. rewrite (p_next_nonempty _ _ t o (q1 ++ q2)) by reflexivity.
    change (b_bad (pset_last (pset_queue (recore s (QOk t o :: q1 ++ q2) l) (q1 ++ q2)) o)) with (b_bad s). rewrite Hb.
    change (pset_last (pset_queue (recore s (QOk t o :: q1 ++ q2) l) (q1 ++ q2)) o) with (recore s (q1 ++ q2) o).
    pose proof (IH Ho' q2 T fin H o lim) as HI. unfold UR2 in HI.
    destruct (p_run_all lim (unbuffered c) (recore s (q1 ++ q2) o)) as [st2 outs]. cbn [snd] in *.
    intros Hn. cbn [map item_out app]. f_equal. apply HI.
    destruct Hn as [Hn|Hl]; [left; intros Hin; apply Hn; right; exact Hin|right; cbn [length] in Hl; lia].
Qed.

(* after a quiet step the run is over *)
Lemma UR2_quiet s : qs c s -> (1 <= b_fuel s)%nat -> forall l lim, UR2 (recore s [] l) lim [] ONone.
Proof.
  intros Hq Hf l lim. apply (qs_recore c s [] l) in Hq. pose proof (qs_queue c _ Hq) as Hq1. destruct Hq as [_ Hb1].
  change (b_queue (recore s [] l)) with (@nil qitem) in Hq1.
  destruct lim as [|lim]; [intros [Hn|Hl]; [exfalso; apply Hn; left; reflexivity|cbn [length] in Hl; lia]|].
  intros _. cbn [p_run_all]. rewrite (p_next_empty _ (recore s [] l)) by reflexivity.
  rewrite (read_next_unbuffered c (recore s [] l)) by exact Hf. rewrite Hq1, Hb1. reflexivity.
Qed.

Definition fin_rel2 (sb : pst) (qu : list qitem) (limB : nat) (T : list qitem) (fin : rout) : Prop :=
  match fin with
  | ONone => forall lu limU, UR2 (recore sb qu lu) limU T ONone
  | OErr e => exists extra, okq extra /\ forall lu limU, UR2 (recore sb qu lu) limU (T ++ extra) (OErr e)
  | OLimit => forall lu limU, (limU <= limB)%nat -> In OLimit (snd (p_run_all limU (unbuffered c) (recore sb qu lu)))
  | _ => False
  end.

Lemma fin_rel2_ext s q s' q' k T fin :
  (forall lu limU, snd (p_run_all limU (unbuffered c) (recore s' q' lu)) = snd (p_run_all limU (unbuffered c) (recore s q lu))) ->
  fin_rel2 s q k T fin -> fin_rel2 s' q' k T fin.
Proof.
  intros E. unfold fin_rel2, UR2. destruct fin; try exact (fun x => x).
  - intros [extra [Ho H]]. exists extra. split; [exact Ho|]. intros lu limU. rewrite E. apply H.
  - intros H lu limU. rewrite E. apply H.
  - intros H lu limU Hl. rewrite E. apply H, Hl.
Qed.

Lemma fin_rel2_drain s q1 u' k T fin : b_bad s = None -> okq q1 -> q1 <> [] ->
  fin_rel2 s u' k T fin -> fin_rel2 s (q1 ++ u') (S k) (q1 ++ T) fin.
Proof.
  intros Hb Ho Hn. unfold fin_rel2. destruct fin; try exact (fun x => x).
  - intros [extra [Hoe H]]. exists extra. split; [exact Hoe|]. rewrite <- app_assoc. apply drainR2; assumption.
  - intros H. apply drainR2; assumption.
  - intros H lu limU Hl. apply (drainL c s Hb q1 Ho u' k H). destruct q1; [contradiction|cbn [length]; lia].
Qed.

Definition allgood (outs : list rout) : Prop := forall o, In o outs -> good o.

Lemma run_simS : forall limB sb qu,
  nobad (snd (p_run_all limB c sb)) ->
  ((okq (b_queue sb) -> Safe sb) \/ allgood (snd (p_run_all limB c sb))) ->
  b_bad sb = None -> (1 <= b_fuel sb)%nat -> QR (b_queue sb) qu ->
  exists items fin T, snd (p_run_all limB c sb) = map item_out items ++ [fin] /\ Unr items T /\ fin_rel2 sb qu limB T fin.
Proof.
  induction limB as [|k IH]; intros sb qu H HS Hb Hf HQ.
  - exists [], OLimit, []. split; [reflexivity|]. split; [constructor|]. intros lu limU Hl.
    assert (E : limU = O) by lia. subst limU. left. reflexivity.
  - assert (A : forall s x qb' qu, b_queue s = x :: qb' -> b_bad s = None -> (1 <= b_fuel s)%nat -> QR (b_queue s) qu ->
                nobad (snd (p_run_all (S k) c s)) ->
                ((okq (b_queue s) -> Safe s) \/ allgood (snd (p_run_all (S k) c s))) ->
                exists items fin T, snd (p_run_all (S k) c s) = map item_out items ++ [fin] /\ Unr items T /\ fin_rel2 s qu (S k) T fin).
    { clear sb qu H HS Hb Hf HQ. intros s x qb' qu Eq Hb Hf HQ Hg HS. rewrite Eq in HQ.
      assert (HS' : forall t o, x = QOk t o ->
                (okq qb' -> Safe (pset_last (pset_queue s qb') o)) \/ allgood (snd (p_run_all k c (pset_last (pset_queue s qb') o)))).
      { intros t o ->. destruct HS as [HS|HS].
        - left. intros Hoq. apply (Safe_recore s qb' o). apply HS. rewrite Eq. constructor; [reflexivity|exact Hoq].
        - right. intros o' Hin. apply HS. cbn [p_run_all]. rewrite (p_next_nonempty _ _ _ _ _ Eq).
          change (b_bad (pset_last (pset_queue s qb') o)) with (b_bad s). rewrite Hb.
          destruct (p_run_all k c (pset_last (pset_queue s qb') o)) as [st2 outs]. right. exact Hin. }
      clear HS. cbn [p_run_all] in *. destruct x as [t o|e].
      - specialize (HS' t o eq_refl). rewrite (p_next_nonempty _ _ _ _ _ Eq) in *.
        change (b_bad (pset_last (pset_queue s qb') o)) with (b_bad s) in *. rewrite Hb in *.
        destruct (QR_cons_inv _ _ _ _ HQ) as [q1 [u' [-> [Ho1 [Hn1 [HQ' Hmk]]]]]].
        destruct (IH (pset_last (pset_queue s qb') o) u') as [items [fin [T [E1 [E2 E3]]]]].
        + destruct (p_run_all k c (pset_last (pset_queue s qb') o)) as [st2 outs]. cbn [snd] in *. eapply nobad_tail, Hg.
        + exact HS'.
        + exact Hb.
        + exact Hf.
        + exact HQ'.
        + exists (QOk t o :: items), fin, (q1 ++ T). split; [|split].
          * destruct (p_run_all k c (pset_last (pset_queue s qb') o)) as [st2 outs]. cbn [snd] in *. rewrite E1. reflexivity.
          * apply Hmk, E2.
          * apply fin_rel2_drain; [exact Hb|exact Ho1|exact Hn1|]. eapply fin_rel2_ext; [|exact E3]. intros lu limU. reflexivity.
      - clear HS'. rewrite (p_next_err _ _ _ _ Eq) in *. change (b_bad (pset_queue s qb')) with (b_bad s) in *. rewrite Hb in *.
        destruct (QR_err_inv _ _ _ HQ) as [extra [Hoe ->]].
        exists [], (OErr e), []. split; [reflexivity|]. split; [constructor|]. exists extra. split; [exact Hoe|].
        assert (Hbase : forall l lim, UR2 (recore s [QErr e] l) lim [] (OErr e)).
        { intros l [|lim] Hn; [destruct Hn as [Hn|Hn]; [exfalso; apply Hn; left; reflexivity|cbn [length] in Hn; lia]|].
          cbn [p_run_all]. rewrite (p_next_err _ _ e []) by reflexivity.
          change (b_bad (pset_queue (recore s [QErr e] l) [])) with (b_bad s). rewrite Hb. reflexivity. }
        pose proof (drainR2 s Hb extra Hoe [QErr e] [] (OErr e) Hbase) as Hd. rewrite app_nil_r in Hd. exact Hd. }
    destruct (b_queue sb) as [|x qb'] eqn:Eq.
    + (* refill *)
      apply QR_nil_inv in HQ. subst qu.
      remember (p_read_next (b_fuel sb) c sb) as sbr eqn:Esbr.
      assert (Hbr : b_bad sbr = None).
      { destruct (b_bad sbr) as [b|] eqn:Ebr; [|reflexivity]. exfalso. cbn [p_run_all] in H.
        rewrite (p_next_empty _ _ Eq), <- Esbr in H.
        destruct (b_queue sbr) as [|[t o|e] q].
        - rewrite Ebr in H. exact (nobad_bad_out _ _ H).
        - change (b_bad (pset_last (pset_queue sbr q) o)) with (b_bad sbr) in H. rewrite Ebr in H. exact (nobad_bad_out _ _ H).
        - change (b_bad (pset_queue sbr q)) with (b_bad sbr) in H. rewrite Ebr in H. exact (nobad_bad_out _ _ H). }
      assert (Hsame : b_queue sbr <> [] -> p_run_all (S k) c sb = p_run_all (S k) c sbr).
      { intros Hne. cbn [p_run_all]. rewrite (p_next_refill c sb Eq), <- Esbr; [reflexivity|]. rewrite <- Esbr. exact Hne. }
      assert (Hsim : exists n qu', (forall Q l, usteps (S n) c (recore sb Q l) = recore sbr (Q ++ qu') l) /\ QR (b_queue sbr) qu' /\
                                    (okq (b_queue sbr) -> okq qu')).
      { rewrite Esbr in Hbr.
        destruct (proj1 (rn_bm_sim c (b_fuel sb)) sb Hbr) as [_ [new_b [Hqn Hs]]].
        rewrite <- Esbr in *. rewrite Eq in Hqn. cbn [app] in Hqn.
        assert (Hok : okq new_b -> exists n qu', (forall Q l, usteps (S n) c (recore sb Q l) = recore sbr (Q ++ qu') l) /\
                                                QR (b_queue sbr) qu' /\ (okq (b_queue sbr) -> okq qu')).
        { intros Ho. destruct (Hs Ho) as [_ [n [new_u [Hu HUnr]]]]. exists n, new_u. split; [exact Hu|]. rewrite Hqn.
          split; [left; exact HUnr|]. intros _. apply (Unr_tags _ _ HUnr). }
        destruct HS as [HS|HS].
        - rewrite Esbr in Hbr. destruct (proj1 (rn_bm_simS (b_fuel sb)) sb (HS (Forall_nil _)) Hbr) as [new_b' [Hqn' Hcase]].
          rewrite <- Esbr in *. rewrite Eq in Hqn'. cbn [app] in Hqn'.
          rewrite Hqn in Hqn'. subst new_b'.
          destruct Hcase as [Ho|[ok_b [e [S' [n [new_u [extra [Hnew [Hokb [Hoex [_ [HUnr Hu]]]]]]]]]]]]; [apply Hok, Ho|].
          exists n, (new_u ++ extra ++ [QErr e]). split; [exact Hu|]. rewrite Hqn. split.
          + right. exists ok_b, e, new_u, extra. split; [exact Hnew|]. split; [reflexivity|]. split; assumption.
          + intros Ho. exfalso. rewrite Hnew in Ho. apply okq_app in Ho. destruct Ho as [_ Ho].
            apply Forall_cons_iff in Ho. destruct Ho as [Ho _]. discriminate.
        - apply Hok. destruct new_b as [|y q]; [constructor|]. rewrite <- Hqn. apply (good_run_okq c (S k)).
          rewrite <- Hsame; [exact HS|rewrite Hqn; discriminate]. }
      destruct Hsim as [n [qu' [Hu [HQ' Hoq']]]].
      assert (Hrun : forall lu limU, snd (p_run_all limU (unbuffered c) (recore sb [] lu)) = snd (p_run_all limU (unbuffered c) (recore sbr qu' lu))).
      { intros lu limU. rewrite (run_ustepsE c limU (S n) (recore sb [] lu)); [|rewrite Hu; exact Hbr|exact Hf]. rewrite Hu. reflexivity. }
      assert (Hfr : b_fuel sbr = b_fuel sb).
      { pose proof (usteps_b_fuel c (S n) (recore sb [] 0)) as Hfu. rewrite (Hu [] 0) in Hfu. exact Hfu. }
      destruct (b_queue sbr) as [|y q] eqn:Eqr.
      * (* end of the run *)
        apply QR_nil_inv in HQ'. subst qu'.
        exists [], ONone, []. split; [|split; [constructor|]].
        -- cbn [p_run_all]. rewrite (p_next_empty _ _ Eq), <- Esbr, Eqr, Hbr. reflexivity.
        -- intros lu limU.
           specialize (Hu [] lu). cbn [usteps app] in Hu.
           assert (Hq1 : b_queue (ustep c (recore sb [] lu)) = []).
           { destruct (usteps_queue c n (ustep c (recore sb [] lu))) as [new' Hn']. rewrite Hu in Hn'. cbn [recore b_queue] in Hn'.
             symmetry in Hn'. apply app_eq_nil in Hn'. apply Hn'. }
           assert (Hb1 : b_bad (ustep c (recore sb [] lu)) = None).
           { apply (usteps_bad c n). rewrite Hu. exact Hbr. }
           destruct limU as [|limU]; [intros [Hn|Hn]; [exfalso; apply Hn; left; reflexivity|cbn [length] in Hn; lia]|].
           intros _. cbn [p_run_all]. rewrite (p_next_empty _ (recore sb [] lu)) by reflexivity.
           rewrite (read_next_unbuffered c (recore sb [] lu)) by exact Hf. rewrite Hq1, Hb1. reflexivity.
      * (* the buffered reader has queued y :: q: the run continues as from [sbr] *)
        assert (Hne : y :: q <> []) by discriminate. specialize (Hsame Hne).
        rewrite Hsame in *.
        destruct (A sbr y q qu' Eqr Hbr) as [items [fin [T [E1 [E2 E3]]]]]; [rewrite Hfr; exact Hf|rewrite Eqr; exact HQ'|exact H| |].
        -- destruct HS as [HS|HS]; [left|right; exact HS].
           intros Ho. rewrite Eqr in Ho. apply (Safe_steps sb (S n) sbr qu' (HS (Forall_nil _)) Hu (Hoq' Ho)).
        -- exists items, fin, T. split; [exact E1|]. split; [exact E2|]. eapply fin_rel2_ext; [|exact E3]. exact Hrun.
    + apply (A sb x qb' qu Eq Hb Hf); [rewrite Eq; exact HQ|exact H|rewrite Eq; exact HS].
Qed.

End Safe.

(* ------------------------------------------------------------------ shape of a drain *)
Lemma qtags_length T : okq T -> length (qtags T) = length T.
Proof.
  induction T as [|[t o|e] T IH]; intros Ho; [reflexivity| |].
  - apply Forall_cons_iff in Ho. rewrite qtags_cons. cbn [length]. f_equal. apply IH, Ho.
  - apply Forall_cons_iff in Ho. destruct Ho as [Ho _]. discriminate.
Qed.

(* a drain yields items and then exactly one other outcome *)
Lemma run_all_items c : forall lim st outs fin, snd (p_run_all lim c st) = outs ++ [fin] -> Forall is_item outs.
Proof.
  assert (S1 : forall (x : rout) outs fin, [x] = outs ++ [fin] -> Forall is_item outs).
  { intros x outs fin H. apply single_tail in H. destruct H as [-> _]. constructor. }
  induction lim as [|k IH]; intros st outs fin; cbn [p_run_all]; [apply S1|].
  destruct (p_next c st) as [st1 r]. destruct (b_bad st1); [apply S1|].
  destruct r as [t o|e|]; [|apply S1|apply S1].
  specialize (IH st1). destruct (p_run_all k c st1) as [st2 outs2]. cbn [snd] in *.
  destruct outs as [|x outs0]; [constructor|]. cbn [app]. intros H. injection H as <- H.
  constructor; [exact I|apply (IH outs0 fin), H].
Qed.

Lemma drain_items c input outs fin : p_run c input [RAll] = outs ++ [fin] -> Forall is_item outs.
Proof. rewrite p_run_RAll. apply run_all_items. Qed.

Lemma items_allgood outs : Forall is_item outs -> allgood (outs ++ [ONone]).
Proof.
  intros Hi o Hin. apply in_app_or in Hin. destruct Hin as [Hin|[<-|[]]]; [|exact I].
  rewrite Forall_forall in Hi. specialize (Hi o Hin). destruct o; try contradiction. exact I.
Qed.

Lemma allgood_nobad outs : allgood outs -> nobad outs.
Proof. intros H o Hin. specialize (H o Hin). split; intros ->; exact H. Qed.

Lemma items_from outs : Forall is_item outs -> outs = map item_out (out_items outs) /\ okq (out_items outs).
Proof.
  induction outs as [|o outs IH]; intros Hi; [split; [reflexivity|constructor]|].
  apply Forall_cons_iff in Hi. destruct Hi as [Ho Hi]. destruct (IH Hi) as [A B]. destruct o; try contradiction.
  cbn [out_items flat_map app map item_out]. split; [f_equal; exact A|constructor; [reflexivity|exact B]].
Qed.

(* ------------------------------------------------------------------ the general form *)
(* [run_u c input lim]: the drain of the configuration with nothing buffered, with the item limit [lim] (p_run uses 4|input|+64) *)
Definition run_u (c : cfg) (input : list N) (lim : nat) : list rout := snd (p_run_all lim (unbuffered c) (p_init input)).

Lemma run_u_p_run c input : run_u c input (4 * length input + 64) = p_run (unbuffered c) input [RAll].
Proof. unfold run_u. rewrite p_run_RAll. reflexivity. Qed.

Theorem buffered_run_outcome2 : forall c input,
  Safe c (p_init input) \/ allgood (p_run c input [RAll]) -> nobad (p_run c input [RAll]) ->
  exists items fin T, p_run c input [RAll] = map item_out items ++ [fin] /\ Unr items T /\
    match fin with
    | ONone => forall lim, ~ In OLimit (run_u c input lim) \/ (length T < lim)%nat -> run_u c input lim = map item_out T ++ [ONone]
    | OErr e => exists extra, okq extra /\
                  forall lim, ~ In OLimit (run_u c input lim) \/ (length (T ++ extra) < lim)%nat ->
                              run_u c input lim = map item_out (T ++ extra) ++ [OErr e]
    | OLimit => In OLimit (p_run (unbuffered c) input [RAll])
    | _ => False
    end.
Proof.
  intros c input HS Hnb. rewrite !p_run_RAll in *.
  destruct (run_simS c (4 * length input + 64) (p_init input) [] Hnb) as [items [fin [T [E1 [E2 E3]]]]].
  - destruct HS as [HS|HS]; [left; intros _; exact HS|right; exact HS].
  - reflexivity.
  - cbn [p_init b_fuel]. unfold default_fuel. lia.
  - left. constructor.
  - exists items, fin, T. split; [exact E1|]. split; [exact E2|]. unfold fin_rel2 in E3. destruct fin; try exact E3.
    + destruct E3 as [extra [Ho E3]]. exists extra. split; [exact Ho|]. intros lim. exact (E3 0 lim).
    + intros lim. exact (E3 0 lim).
    + exact (E3 0 (4 * length input + 64)%nat (le_n _)).
Qed.

(* ------------------------------------------------------------------ (1) the export: a buffered drain that ends with None *)
(* ANY configuration: when the buffered drain ends with None, the unbuffered drain (with whatever item limit) yields an
   unrolling of the buffered items and ends with None too, unless it is cut at its item limit; it is not cut when the limit
   exceeds the number of unrolled items *)
Theorem buffered_none_export : forall c input outs, p_run c input [RAll] = outs ++ [ONone] ->
  exists T, Unr (out_items outs) T /\ qtags T = flat (out_tags outs) /\ length T = length (flat (out_tags outs)) /\
    forall lim, ~ In OLimit (run_u c input lim) \/ (length (flat (out_tags outs)) < lim)%nat ->
                run_u c input lim = map item_out T ++ [ONone].
Proof.
  intros c input outs Hrun. pose proof (drain_items c input outs _ Hrun) as Hi.
  pose proof (items_allgood outs Hi) as Hg. rewrite <- Hrun in Hg.
  destruct (buffered_run_outcome2 c input (or_intror Hg) (allgood_nobad _ Hg)) as [items [fin [T [E1 [E2 E3]]]]].
  rewrite Hrun in E1. apply app_inj_tail in E1. destruct E1 as [E1 <-].
  destruct (Unr_tags _ _ E2) as [Hob [HoT Ht]].
  assert (Eo : out_items outs = items) by (rewrite E1; apply out_items_items, Hob).
  assert (Et : qtags T = flat (out_tags outs)) by (rewrite Ht, E1, out_tags_items; reflexivity).
  assert (El : length T = length (flat (out_tags outs))) by (rewrite <- Et; symmetry; apply qtags_length, HoT).
  exists T. rewrite Eo. split; [exact E2|]. split; [exact Et|]. split; [exact El|].
  intros lim Hl. apply E3. rewrite El. exact Hl.
Qed.

Theorem buffered_none_unbuffered_none : forall c input outs, p_run c input [RAll] = outs ++ [ONone] ->
  ~ In OLimit (p_run (unbuffered c) input [RAll]) \/ (length (flat (out_tags outs)) < 4 * length input + 64)%nat ->
  exists outsU, p_run (unbuffered c) input [RAll] = outsU ++ [ONone] /\ Forall is_item outsU /\
                Unr (out_items outs) (out_items outsU) /\ flat (out_tags outs) = out_tags outsU.
Proof.
  intros c input outs Hrun Hl. destruct (buffered_none_export c input outs Hrun) as [T [HU [Et [_ H]]]].
  rewrite <- run_u_p_run in *. specialize (H _ Hl). destruct (Unr_tags _ _ HU) as [_ [HoT _]].
  exists (map item_out T). split; [exact H|]. split; [apply items_are_items, HoT|].
  rewrite out_items_items by exact HoT. split; [exact HU|]. rewrite out_tags_items. symmetry. exact Et.
Qed.

(* with end-of-input closing: the two drains end with None together, provided the unbuffered one is not cut at its limit *)
Theorem none_iff : forall c input, c_emit_eof c = true -> nobad (p_run c input [RAll]) ->
  ~ In OLimit (p_run (unbuffered c) input [RAll]) ->
  ((exists outs, p_run c input [RAll] = outs ++ [ONone]) <-> (exists outsU, p_run (unbuffered c) input [RAll] = outsU ++ [ONone])).
Proof.
  intros c input He Hnb Hl. split.
  - intros [outs Hrun]. destruct (buffered_none_unbuffered_none c input outs Hrun (or_introl Hl)) as [outsU [H _]].
    exists outsU. exact H.
  - intros [outsU Hrun]. pose proof (drain_items _ _ _ _ Hrun) as Hi.
    destruct (clean_stays_clean_gen c input outsU He Hnb Hrun Hi) as [outs [H _]]. exists outs. exact H.
Qed.

(* ------------------------------------------------------------------ (2) C06: the end of the input closes everything *)
(* eof_closes_all of Proofs/Nesting.v for an arbitrary item limit *)
Lemma eof_closes_all_lim : forall c input lim,
  c_allow_id c = false -> c_allow_hier c = false -> c_buffered c = [] -> c_emit_eof c = true ->
  forall outs, snd (p_run_all lim c (p_init input)) = outs ++ [ONone] ->
  exists base det, chk (c_sp c) base false (out_tags outs) = Some ([], det).
Proof.
  intros c input lim Hid Hh Hbuf Heof outs Hq.
  destruct (p_run_all_J c Hid Hh Hbuf lim [] (p_init input) (JS_init _ _)) as [_ HJ].
  destruct (p_run_all_none c Hbuf Heof lim (p_init input) outs Hq) as [Hb [Hqe Hst]]. specialize (HJ Hb).
  unfold JS in HJ. rewrite Hqe, Hst, Hq, out_tags_app in HJ. cbn [qtags flat_map map out_tags app] in HJ.
  rewrite !app_nil_r in HJ. destruct HJ as [base [d [H _]]]. exists base, d. exact H.
Qed.

(* drain_items_pinned of Proofs/AuditNesting.v for an arbitrary item limit *)
Lemma drain_items_pinned_lim : forall c input lim,
  c_allow_id c = false -> c_allow_hier c = false -> c_buffered c = [] ->
  let items := out_tags (snd (p_run_all lim c (p_init input))) in
  (exists o, chk (c_sp c) [] false items = Some (o, false)) \/
  (exists pre o x rest, items = pre ++ map TEnd o ++ x :: rest /\ chk (c_sp c) [] false pre = Some (o, false) /\
     is_se x = true /\ all_ids (get_path (c_sp c) (tag_id x)) = true /\
     chk (c_sp c) (base_of (c_sp c) (tag_id x)) false items <> None).
Proof.
  intros c input lim Hid Hh Hbuf. cbn zeta. apply PG_pinned.
  destruct (p_run_all_PK c Hid Hh Hbuf lim [] (p_init input) (JS_init _ _) (PK_init _ _)) as [H _].
  rewrite out_tags_clean_run_all in H. exact H.
Qed.

(* pure checker facts: a sequence that is closed from some base is closed from the pinned base *)
Lemma closed_rooted sp base det tags x rest : chk sp base false tags = Some ([], det) ->
  tags = x :: rest -> is_se x = true -> get_path sp (tag_id x) = [] -> chk sp [] false tags = Some ([], true).
Proof.
  intros H E Hse Hp.
  assert (Hb : base = []) by (apply (chk_root_base sp base x rest Hse Hp); rewrite <- E, H; discriminate).
  subst base. rewrite H. f_equal. f_equal.
  rewrite E in H. cbn [chk] in H.
  assert (He : elem_chk sp [] false (tag_id x) = Some true \/ elem_chk sp [] false (tag_id x) = None).
  { unfold elem_chk. destruct (get_type sp (tag_id x)); [|right; reflexivity]. rewrite Hp. cbn. left. reflexivity. }
  destruct x as [id v|id|id|id cs]; try discriminate Hse; cbn [tag_id] in He;
    (destruct He as [He|He]; rewrite He in H; [apply chk_det_mono in H; exact H|discriminate H]).
Qed.

Lemma closed_pinned sp base det tags : chk sp base false tags = Some ([], det) ->
  ((exists o, chk sp [] false tags = Some (o, false)) \/
   (exists pre o x rest, tags = pre ++ map TEnd o ++ x :: rest /\ chk sp [] false pre = Some (o, false) /\
      is_se x = true /\ all_ids (get_path sp (tag_id x)) = true /\ chk sp (base_of sp (tag_id x)) false tags <> None)) ->
  chk sp [] false tags = Some ([], false) \/
  (exists pre o x rest, tags = pre ++ map TEnd o ++ x :: rest /\ chk sp [] false pre = Some (o, false) /\
     is_se x = true /\ all_ids (get_path sp (tag_id x)) = true /\
     chk sp (base_of sp (tag_id x)) false tags = Some ([], true)).
Proof.
  intros H HP.
  destruct HP as [[o HU]|[pre [o [x [rest [E [H1 [H2 [H3 H4]]]]]]]]].
  - left. pose proof (chk_rebase _ _ [] o HU base) as Hr. cbn [app] in Hr. rewrite Hr in H. injection H as A B.
    destruct o as [|x0 o']; [exact HU|discriminate A].
  - right. exists pre, o, x, rest. split; [exact E|]. split; [exact H1|]. split; [exact H2|]. split; [exact H3|].
    assert (Hfull : chk sp [] false (pre ++ map TEnd o) = Some ([], false)).
    { rewrite chk_app, H1. rewrite <- (app_nil_r o) at 1. apply chk_ends. }
    assert (Hb : base = base_of sp (tag_id x)).
    { apply (chk_base_is_path sp base _ x rest Hfull H2 H3). rewrite <- app_assoc, <- E, H. discriminate. }
    rewrite <- Hb, H. f_equal. f_equal.
    rewrite E, app_assoc, chk_app in H. pose proof (chk_rebase _ _ [] [] Hfull base) as Hr. cbn [app] in Hr. rewrite Hr in H.
    assert (He : elem_chk sp base false (tag_id x) = None \/ elem_chk sp base false (tag_id x) = Some true).
    { unfold elem_chk. destruct (get_type sp (tag_id x)); [|left; reflexivity]. rewrite H3. cbn [orb].
      destruct (path_matches _ _); [right|left]; reflexivity. }
    destruct x as [id v|id|id|id cs]; try discriminate H2; cbn [tag_id chk] in *;
      (destruct He as [He|He]; rewrite He in H; [discriminate H|apply chk_det_mono in H; exact H]).
Qed.

Section BufferedEof.
Variables (c : cfg) (input : list N) (outs : list rout).
Hypothesis Hid : c_allow_id c = false.
Hypothesis Hh : c_allow_hier c = false.
Hypothesis Heof : c_emit_eof c = true.
Hypothesis Hrun : p_run c input [RAll] = outs ++ [ONone].

(* the unbuffered drain with a sufficient item limit: an unrolling of the buffered items, then None *)
Lemma beof_unbuffered : exists T lim, run_u c input lim = map item_out T ++ [ONone] /\ out_tags (map item_out T) = flat (out_tags outs).
Proof.
  destruct (buffered_none_export c input outs Hrun) as [T [_ [Et [_ H]]]].
  exists T, (S (length (flat (out_tags outs)))). split; [apply H; right; lia|]. rewrite out_tags_items. exact Et.
Qed.

Lemma beof_closes_all : exists base det, chk (c_sp c) base false (flat (out_tags outs)) = Some ([], det).
Proof.
  destruct beof_unbuffered as [T [lim [Hu Et]]]. rewrite <- Et.
  exact (eof_closes_all_lim (unbuffered c) input lim Hid Hh eq_refl Heof _ Hu).
Qed.

Lemma beof_closes_all_rooted : forall x rest, flat (out_tags outs) = x :: rest -> is_se x = true ->
  get_path (c_sp c) (tag_id x) = [] -> chk (c_sp c) [] false (flat (out_tags outs)) = Some ([], true).
Proof.
  intros x rest E Hse Hp. destruct beof_closes_all as [base [det H]]. exact (closed_rooted _ _ _ _ x rest H E Hse Hp).
Qed.

Lemma beof_closes_all_rooted_first : forall y rest, out_tags outs = y :: rest -> (forall id, y <> TEnd id) ->
  get_path (c_sp c) (tag_id y) = [] -> chk (c_sp c) [] false (flat (out_tags outs)) = Some ([], true).
Proof.
  intros y rest E Hy Hp. destruct (flat_head y rest Hy) as [x [r [Ef [Hse Hid']]]].
  apply (beof_closes_all_rooted x r); [rewrite E; exact Ef|exact Hse|rewrite Hid'; exact Hp].
Qed.

Lemma beof_closes_all_pinned :
  chk (c_sp c) [] false (flat (out_tags outs)) = Some ([], false) \/
  (exists pre o x rest, flat (out_tags outs) = pre ++ map TEnd o ++ x :: rest /\ chk (c_sp c) [] false pre = Some (o, false) /\
     is_se x = true /\ all_ids (get_path (c_sp c) (tag_id x)) = true /\
     chk (c_sp c) (base_of (c_sp c) (tag_id x)) false (flat (out_tags outs)) = Some ([], true)).
Proof.
  destruct beof_closes_all as [base [det H]]. apply (closed_pinned _ _ _ _ H).
  destruct beof_unbuffered as [T [lim [Hu Et]]].
  pose proof (drain_items_pinned_lim (unbuffered c) input lim Hid Hh eq_refl) as HP. cbn zeta in HP.
  unfold run_u in Hu. rewrite Hu, out_tags_app in HP. cbn [out_tags flat_map] in HP. rewrite app_nil_r, Et in HP. exact HP.
Qed.

End BufferedEof.

(* ------------------------------------------------------------------ (3) without end-of-input closing: when is the start state safe *)
(* an unbuffered drain that ends with None has ended with a quiet step; its final stack is the stack after that step *)
Lemma run_none_final c : forall lim su outs, (1 <= b_fuel su)%nat ->
  snd (p_run_all lim (unbuffered c) su) = outs ++ [ONone] ->
  exists j, qs c (usteps j c su) /\ b_stack (fst (p_run_all lim (unbuffered c) su)) = b_stack (ustep c (usteps j c su)).
Proof.
  assert (S1 : forall (x : rout) outs, x <> ONone -> [x] = outs ++ [ONone] -> False).
  { intros x outs Hx H. apply single_tail in H. destruct H as [_ H]. exact (Hx H). }
  assert (Sb : forall b, bad_out b <> ONone) by (intros []; discriminate).
  assert (Tq : forall s Q l j, qs c (usteps j c (recore s Q l)) ->
             qs c (usteps j c s) /\ b_stack (ustep c (usteps j c (recore s Q l))) = b_stack (ustep c (usteps j c s))).
  { intros s Q l j. destruct (usteps_frame c j s) as [new E]. rewrite E. intros H. split; [apply (qs_recore c (usteps j c s) (Q ++ new) l), H|].
    destruct (ustep_queue c (usteps j c s)) as [new1 [_ Hfr]]. rewrite Hfr. reflexivity. }
  induction lim as [|k IH]; intros su outs Hf; cbn [p_run_all].
  - cbn [snd]. intros H. exfalso. apply (S1 OLimit outs); [discriminate|exact H].
  - destruct (b_queue su) as [|[t o|e] q] eqn:Eq.
    + rewrite (p_next_empty _ su Eq), (read_next_unbuffered c su Hf).
      destruct (b_queue (ustep c su)) as [|[t o|e] q] eqn:E1.
      * destruct (b_bad (ustep c su)) as [b|] eqn:Eb; cbn [fst snd]; intros H; [exfalso; exact (S1 _ _ (Sb b) H)|].
        exists O. cbn [usteps]. split; [|reflexivity]. split; [rewrite E1, Eq; reflexivity|exact Eb].
      * change (b_bad (pset_last (pset_queue (ustep c su) q) o)) with (b_bad (ustep c su)).
        destruct (b_bad (ustep c su)) as [b|] eqn:Eb; [cbn [fst snd]; intros H; exfalso; exact (S1 _ _ (Sb b) H)|].
        change (pset_last (pset_queue (ustep c su) q) o) with (recore (ustep c su) q o).
        specialize (IH (recore (ustep c su) q o)).
        destruct (p_run_all k (unbuffered c) (recore (ustep c su) q o)) as [st2 outs2]. cbn [fst snd] in *.
        destruct outs as [|x outs0]; cbn [app]; intros H; [discriminate H|]. injection H as _ H.
        destruct (IH outs0) as [j [Hj Hs]]; [cbn [recore b_fuel]; rewrite ustep_b_fuel; exact Hf|exact H|].
        destruct (Tq _ _ _ _ Hj) as [Hj' Hs']. exists (S j). cbn [usteps]. split; [exact Hj'|]. rewrite Hs, Hs'. reflexivity.
      * change (b_bad (pset_queue (ustep c su) q)) with (b_bad (ustep c su)).
        destruct (b_bad (ustep c su)) as [b|]; cbn [fst snd]; intros H; exfalso; [exact (S1 _ _ (Sb b) H)|].
        apply (S1 (OErr e) outs); [discriminate|exact H].
    + rewrite (p_next_nonempty _ su t o q Eq).
      change (b_bad (pset_last (pset_queue su q) o)) with (b_bad su).
      destruct (b_bad su) as [b|] eqn:Eb; [cbn [fst snd]; intros H; exfalso; exact (S1 _ _ (Sb b) H)|].
      change (pset_last (pset_queue su q) o) with (recore su q o).
      specialize (IH (recore su q o)).
      destruct (p_run_all k (unbuffered c) (recore su q o)) as [st2 outs2]. cbn [fst snd] in *.
      destruct outs as [|x outs0]; cbn [app]; intros H; [discriminate H|]. injection H as _ H.
      destruct (IH outs0) as [j [Hj Hs]]; [exact Hf|exact H|].
      destruct (Tq _ _ _ _ Hj) as [Hj' Hs']. exists j. split; [exact Hj'|]. rewrite Hs, Hs'. reflexivity.
    + rewrite (p_next_err _ su e q Eq). change (b_bad (pset_queue su q)) with (b_bad su).
      destruct (b_bad su) as [b|]; cbn [fst snd]; intros H; exfalso; [exact (S1 _ _ (Sb b) H)|].
      apply (S1 (OErr e) outs); [discriminate|exact H].
Qed.

Lemma run_ops_RAll_fst c lim st : fst (p_run_ops c lim st [RAll]) = fst (p_run_all lim c st).
Proof. cbn [p_run_ops]. destruct (p_run_all lim c st) as [st1 outs]. destruct (b_bad st1); reflexivity. Qed.

Lemma init_fuel input : (1 <= b_fuel (p_init input))%nat.
Proof. cbn [p_init b_fuel]. unfold default_fuel. lia. Qed.

(* the state in which the unbuffered drain ends *)
Definition final_u (c : cfg) (input : list N) : pst :=
  fst (p_run_ops (unbuffered c) (4 * length input + 64) (p_init input) [RAll]).

(* an unbuffered drain that ends with None and leaves no buffered master open: the start state is safe *)
Lemma Safe_of_final c input outsU : p_run (unbuffered c) input [RAll] = outsU ++ [ONone] ->
  nobuf c (b_stack (final_u c input)) -> Safe c (p_init input).
Proof.
  intros Hrun Hn n _ Hq. change (recore (p_init input) [] 0) with (p_init input) in *.
  rewrite p_run_RAll in Hrun. unfold final_u in Hn. rewrite run_ops_RAll_fst in Hn.
  destruct (run_none_final c _ _ _ (init_fuel input) Hrun) as [j [Hj Hs]]. rewrite Hs in Hn.
  rewrite (qs_same_stack c _ n j Hq Hj). exact Hn.
Qed.

(* an unbuffered drain that ends with an error: no quiet step before the error, so the start state is safe *)
Lemma Safe_of_error c input outsU e : p_run (unbuffered c) input [RAll] = outsU ++ [OErr e] -> Safe c (p_init input).
Proof.
  intros Hrun n Ho Hq. exfalso. change (recore (p_init input) [] 0) with (p_init input) in *.
  pose proof (drain_items _ _ _ _ Hrun) as Hi. rewrite p_run_RAll in Hrun.
  set (U := usteps n c (p_init input)) in *.
  assert (HbU : b_bad U = None) by (apply (ustep_bad c), Hq).
  assert (HfU : (1 <= b_fuel U)%nat) by (unfold U; rewrite usteps_b_fuel; apply init_fuel).
  rewrite (run_ustepsE c _ n (p_init input) HbU (init_fuel input)) in Hrun. fold U in Hrun.
  pose proof (drainR2 c U HbU (b_queue U) Ho [] [] ONone (UR2_quiet c U Hq HfU) (b_last U) (4 * length input + 64)%nat) as HR.
  rewrite !app_nil_r, recore_id in HR. unfold UR2 in HR. rewrite Hrun in HR.
  assert (Hnl : ~ In OLimit (outsU ++ [OErr e])) by (apply items_no_limit; [exact Hi|discriminate]).
  specialize (HR (or_introl Hnl)). apply app_inj_tail in HR. destruct HR as [_ HR]. discriminate HR.
Qed.

(* ------------------------------------------------------------------ the two directions, whatever c_emit_eof *)
(* THEOREM A': a clean unbuffered drain that leaves no buffered master open means a clean buffered drain *)
Theorem clean_stays_clean_open : forall c input outsU,
  nobad (p_run c input [RAll]) -> p_run (unbuffered c) input [RAll] = outsU ++ [ONone] ->
  nobuf c (b_stack (final_u c input)) ->
  exists outs, p_run c input [RAll] = outs ++ [ONone] /\ Forall is_item outs /\
               Unr (out_items outs) (out_items outsU) /\ flat (out_tags outs) = out_tags outsU.
Proof.
  intros c input outsU Hnb Hu Hn. pose proof (drain_items _ _ _ _ Hu) as Hi.
  assert (Hnl : ~ In OLimit (run_u c input (4 * length input + 64))).
  { rewrite run_u_p_run, Hu. apply items_no_limit; [exact Hi|discriminate]. }
  destruct (buffered_run_outcome2 c input (or_introl (Safe_of_final c input outsU Hu Hn)) Hnb) as [ib [fin [T [E1 [E2 E3]]]]].
  destruct (Unr_tags _ _ E2) as [Hob [HoT Ht]]. rewrite <- run_u_p_run in Hu.
  destruct fin; try contradiction.
  - exfalso. destruct E3 as [extra [_ E3]]. rewrite (E3 _ (or_introl Hnl)) in Hu. apply app_inj_tail in Hu. destruct Hu as [_ Hu]. discriminate.
  - rewrite (E3 _ (or_introl Hnl)) in Hu. apply app_inj_tail in Hu. destruct Hu as [Hu _]. subst outsU.
    exists (map item_out ib). split; [exact E1|]. split; [apply items_are_items, Hob|].
    rewrite !out_items_items by assumption. split; [exact E2|]. rewrite !out_tags_items. symmetry. exact Ht.
  - exfalso. apply Hnl. rewrite run_u_p_run. exact E3.
Qed.

(* THEOREM B': an unbuffered drain that ends in an error means a buffered drain that ends in the same error, after items
   whose unrolling is a prefix of the unbuffered items; no assumption on c_emit_eof *)
Theorem error_prefix_any : forall c input outsU e,
  nobad (p_run c input [RAll]) -> p_run (unbuffered c) input [RAll] = outsU ++ [OErr e] ->
  exists outs T extra, p_run c input [RAll] = outs ++ [OErr e] /\ Forall is_item outs /\
    Unr (out_items outs) T /\ out_items outsU = T ++ extra /\
    out_tags outsU = flat (out_tags outs) ++ qtags extra.
Proof.
  intros c input outsU e Hnb Hu. pose proof (drain_items _ _ _ _ Hu) as Hi.
  assert (Hnl : ~ In OLimit (run_u c input (4 * length input + 64))).
  { rewrite run_u_p_run, Hu. apply items_no_limit; [exact Hi|discriminate]. }
  destruct (buffered_run_outcome2 c input (or_introl (Safe_of_error c input outsU e Hu)) Hnb) as [ib [fin [T [E1 [E2 E3]]]]].
  destruct (Unr_tags _ _ E2) as [Hob [HoT Ht]]. rewrite <- run_u_p_run in Hu.
  destruct fin; try contradiction.
  - destruct E3 as [extra [Hoe E3]]. rewrite (E3 _ (or_introl Hnl)) in Hu. apply app_inj_tail in Hu. destruct Hu as [Hu Hee].
    injection Hee as ->. subst outsU.
    exists (map item_out ib), T, extra. split; [exact E1|]. split; [apply items_are_items, Hob|].
    assert (HoTe : okq (T ++ extra)) by (apply okq_app; split; assumption).
    rewrite !out_items_items by assumption. split; [exact E2|]. split; [reflexivity|].
    rewrite !out_tags_items, qtags_app, Ht. reflexivity.
  - exfalso. rewrite (E3 _ (or_introl Hnl)) in Hu. apply app_inj_tail in Hu. destruct Hu as [_ Hu]. discriminate.
  - exfalso. apply Hnl. rewrite run_u_p_run. exact E3.
Qed.

(* on well-formed bytes and a specification whose path ids are masters (no panic site, no budget outcome) *)
Theorem clean_stays_clean_open_wf : forall c input outsU,
  implied_ok (c_sp c) -> wf_bytes input -> p_run (unbuffered c) input [RAll] = outsU ++ [ONone] ->
  nobuf c (b_stack (final_u c input)) ->
  exists outs, p_run c input [RAll] = outs ++ [ONone] /\ Forall is_item outs /\ flat (out_tags outs) = out_tags outsU.
Proof.
  intros c input outsU Hsp Hw Hu Hn.
  destruct (clean_stays_clean_open c input outsU (wf_nobad c input _ Hsp Hw) Hu Hn) as [outs [A [B [_ D]]]].
  exists outs. split; [exact A|split; [exact B|exact D]].
Qed.

Theorem error_prefix_any_wf : forall c input outsU e,
  implied_ok (c_sp c) -> wf_bytes input -> p_run (unbuffered c) input [RAll] = outsU ++ [OErr e] ->
  exists outs rest, p_run c input [RAll] = outs ++ [OErr e] /\ Forall is_item outs /\
                    out_tags outsU = flat (out_tags outs) ++ rest.
Proof.
  intros c input outsU e Hsp Hw Hu.
  destruct (error_prefix_any c input outsU e (wf_nobad c input _ Hsp Hw) Hu) as [outs [T [extra [A [B [_ [_ D]]]]]]].
  exists outs, (qtags extra). split; [exact A|split; [exact B|exact D]].
Qed.

(* with end-of-input closing the drain with nothing buffered that ends with None leaves nothing open at all *)
Lemma eof_final_stack_empty : forall c input outsU, c_emit_eof c = true ->
  p_run (unbuffered c) input [RAll] = outsU ++ [ONone] -> b_stack (final_u c input) = [].
Proof.
  intros c input outsU He Hu. rewrite p_run_RAll in Hu. unfold final_u. rewrite run_ops_RAll_fst.
  apply (p_run_all_none (unbuffered c) eq_refl He _ _ _ Hu).
Qed.
