(* C20: when the asynchronous source delivers the whole input with its first read, the non-blocking iterator yields exactly
   the run of the abstract reader, i.e. what the blocking iterator yields (Refine.buffered_refines_pure). *)
From Ebml Require Import Base Tools Spec Reader Pure Proofs.Tactics Proofs.ReaderIO Proofs.Refine.

Lemma splitN_all : forall l k, N.of_nat (length l) <= k -> splitN k l = (l, []).
Proof.
  induction l as [|x l IH]; intros k Hk; cbn [splitN]; [reflexivity|].
  cbn [length] in Hk. destruct (N.eqb_spec k 0); [lia|]. rewrite IH by lia. reflexivity.
Qed.

(* feeding bytes into the cursor keeps the inner iterator well-formed and appends to its remaining input *)
Lemma feed_good a k s : Good (a_inner a) -> a_slen a = N.of_nat (length (a_src a)) -> k <= a_slen a ->
  Good (a_inner (feed a k s)) /\ b_bytes (Abs (a_inner (feed a k s))) = b_bytes (Abs (a_inner a)) ++ fst (splitN k (a_src a)) /\
  same_logic (a_inner (feed a k s)) (a_inner a) /\
  a_src (feed a k s) = snd (splitN k (a_src a)) /\ a_slen (feed a k s) = N.of_nat (length (a_src (feed a k s))) /\ a_script (feed a k s) = s.
Proof.
  intros [[Hw Hr] Hc] Hs Hk. unfold feed. rewrite Hs in Hk.
  destruct (splitN_app (a_src a) k Hk) as [Hab Hlen]. pose proof (splitN_snd_len (a_src a) k Hk) as Hsl.
  destruct (splitN k (a_src a)) as [x y]. cbn [fst snd] in *.
  split; [split; [split; cbn; [exact Hw|rewrite app_length; lia]|exact Hc]|].
  split; [cbn; unfold total; cbn; rewrite app_assoc; reflexivity|].
  split; [repeat split|]. split; [reflexivity|]. split; [cbn; lia|reflexivity].
Qed.

Lemma abs_of_bytes st st' : same_logic st' st -> b_bytes (Abs st') = b_bytes (Abs st) -> Abs st' = Abs st.
Proof. intros HL Hb. apply abs_same; [exact Hb|exact HL]. Qed.

(* once the source is exhausted and its script is empty, every further call is a blocking next() on the inner iterator *)
Lemma arun_exhausted c : forall limit a, Good (a_inner a) -> a_src a = [] -> a_slen a = 0 -> a_script a = [] ->
  arun limit c a = snd (p_run_all limit c (Abs (a_inner a))).
Proof.
  induction limit as [|l IH]; intros a HG Hsrc Hsl Hscr; cbn [arun p_run_all]; [reflexivity|].
  unfold anext. rewrite Hscr.
  assert (Hk : N.min 65536 (a_slen a) <= a_slen a) by lia.
  destruct (feed_good a (N.min 65536 (a_slen a)) [] HG ltac:(rewrite Hsl, Hsrc; reflexivity) Hk) as [HG1 [Hb1 [HL1 [Hs1 [Hl1 Hc1]]]]].
  set (a1 := feed a (N.min 65536 (a_slen a)) []) in *.
  rewrite Hsrc in Hb1, Hs1. cbn in Hb1. rewrite app_nil_r in Hb1.
  assert (HA1 : Abs (a_inner a1) = Abs (a_inner a)) by (apply abs_of_bytes; assumption).
  destruct (next_refines c (a_inner a1) HG1) as [HG2 [HA2 Hr2]]. rewrite HA1 in HA2, Hr2.
  destruct (next c (a_inner a1)) as [i r]. destruct (p_next c (Abs (a_inner a))) as [pi pr]. cbn [fst snd] in *. subst pi pr.
  cbn [a_inner Abs b_bad]. destruct (r_bad i); [reflexivity|].
  destruct r as [t o|e|]; try reflexivity.
  rewrite (IH {| a_inner := i; a_src := a_src a1; a_slen := a_slen a1; a_script := a_script a1 |}); cbn [a_inner a_src a_slen a_script].
  - destruct (p_run_all l c (Abs i)). reflexivity.
  - exact HG2.
  - rewrite Hs1. reflexivity.
  - rewrite Hl1, Hs1. reflexivity.
  - exact Hc1.
Qed.

Theorem async_first_read c input script n rest_script :
  (N.of_nat (length input) <= 65536) ->
  (script = [] \/ (script = Chunk n :: rest_script /\ N.of_nat (length input) <= n /\ rest_script = [])) ->
  run_async c script input = snd (p_run_all (4 * length input + 64) c (p_init input)).
Proof.
  intros Hlen Hscr. unfold run_async.
  set (limit := (4 * length input + 64)%nat).
  assert (HG0 : Good (a_inner (a_init script input))) by (split; [split; reflexivity|constructor]).
  assert (Hsl0 : a_slen (a_init script input) = N.of_nat (length (a_src (a_init script input)))) by reflexivity.
  (* the first call delivers everything *)
  assert (Hfirst : exists s', forall k, k = N.of_nat (length input) ->
            anext c (a_init script input) =
            (let (i, r) := next c (a_inner (feed (a_init script input) k s')) in
             ({| a_inner := i; a_src := a_src (feed (a_init script input) k s'); a_slen := a_slen (feed (a_init script input) k s');
                 a_script := a_script (feed (a_init script input) k s') |}, r)) /\ s' = []).
  { destruct Hscr as [->|[-> [Hn ->]]].
    - exists []. intros k ->. split; [|reflexivity]. unfold anext. cbn [a_script a_init a_slen].
      replace (N.min 65536 (N.of_nat (length input))) with (N.of_nat (length input)) by lia. reflexivity.
    - exists []. intros k ->. split; [|reflexivity]. unfold anext. cbn [a_script a_init a_slen].
      replace (N.min (N.min n 65536) (N.of_nat (length input))) with (N.of_nat (length input)) by lia. reflexivity. }
  destruct Hfirst as [s' Hf]. destruct (Hf _ eq_refl) as [Hanext ->]. clear Hf.
  destruct (feed_good (a_init script input) (N.of_nat (length input)) [] HG0 Hsl0 ltac:(cbn; lia)) as [HG1 [Hb1 [HL1 [Hs1 [Hl1 Hc1]]]]].
  set (a1 := feed (a_init script input) (N.of_nat (length input)) []) in *.
  cbn [a_init a_src] in Hb1, Hs1. rewrite (splitN_all input) in Hb1, Hs1 by lia. cbn [fst snd] in Hb1, Hs1.
  assert (HA1 : Abs (a_inner a1) = p_init input).
  { destruct HL1 as [H1 [H2 [H3 [H4 [H5 [H6 H7]]]]]]. unfold Abs, p_init. cbn [b_bytes Abs] in Hb1.
    rewrite Hb1, H1, H2, H3, H4, H5, H6, H7. cbn. reflexivity. }
  subst limit. replace (4 * length input + 64)%nat with (S (4 * length input + 63)) by lia.
  cbn [arun p_run_all]. rewrite Hanext.
  destruct (next_refines c (a_inner a1) HG1) as [HG2 [HA2 Hr2]]. rewrite HA1 in HA2, Hr2.
  destruct (next c (a_inner a1)) as [i r]. destruct (p_next c (p_init input)) as [pi pr]. cbn [fst snd] in *. subst pi pr.
  cbn [a_inner Abs b_bad]. destruct (r_bad i); [reflexivity|].
  destruct r as [t o|e|]; try reflexivity.
  rewrite (arun_exhausted c _ {| a_inner := i; a_src := a_src a1; a_slen := a_slen a1; a_script := a_script a1 |}); cbn [a_inner a_src a_slen a_script].
  - destruct (p_run_all _ c (Abs i)). reflexivity.
  - exact HG2.
  - exact Hs1.
  - rewrite Hl1, Hs1. reflexivity.
  - exact Hc1.
Qed.
