(* C04/C05: the refinement theorem of the buffered reader extended to sources that FAIL.  On a read script
   [pre ++ Fail code :: rest] with [calm pre], the buffered machine behaves exactly like the abstract reader (Pure.v) up to
   the moment the source error is reported: an I/O error never makes the reader emit a wrong item before it is reported.
   Method: (1) every function of the machine is parametric in the part of the script it does not consume - replacing every
   entry that is not calm (Fail, Pause, Chunk 0) by Chunk 1 commutes with a call that consumes only calm entries ([*_cpar],
   as in Proofs/Pauses.v), so such a call refines the abstract reader; (2) a call of next() that consumes the Fail leaves a
   queue [new0 ++ [QErr (RIo code)]] where new0 (the Ends it delivers first, a rolled-up buffered master) is a prefix of what
   the abstract reader queues in the same call ([rn_bm_fail]); (3) gluing along a run ([run_ops_fail]). *)
From Ebml Require Import Base Tools Spec Reader Pure Proofs.Tactics Proofs.BytesProofs Proofs.ReaderIO Proofs.Refine Proofs.NoPanic Proofs.Termination Proofs.Pauses Proofs.AuditIO.
From Coq Require Import Permutation.
Import ListNotations.
Local Open Scope N_scope.

Arguments vint_len : simpl never.
Arguments from_be : simpl never.
Arguments read_vint : simpl never.

(* ------------------------------------------------------------------ scripts: entries that are not calm *)
Definition ncalm_rd (x : rd) : nat := match x with Chunk n => if n =? 0 then 1%nat else O | _ => 1%nat end.
Fixpoint ncalm (s : list rd) : nat := match s with [] => O | x :: t => (ncalm_rd x + ncalm t)%nat end.
Definition cnt (st : rst) : nat := ncalm (r_script st).

(* the same script made calm: every entry that is not calm becomes a one-byte read *)
Definition cf_rd (x : rd) : rd := match x with Chunk n => if n =? 0 then Chunk 1 else Chunk n | _ => Chunk 1 end.
Definition cf (st : rst) : rst := set_script st (map cf_rd (r_script st)).

Lemma ncalm_app u v : ncalm (u ++ v) = (ncalm u + ncalm v)%nat.
Proof. induction u as [|x u IH]; cbn [app ncalm]; lia. Qed.

Lemma calm_ncalm s : calm s -> ncalm s = O.
Proof.
  induction 1 as [|x s Hx Hs IH]; [reflexivity|]. cbn [ncalm]. rewrite IH.
  destruct x as [n| |k]; cbn in Hx; try contradiction. cbn [ncalm_rd]. destruct (N.eqb_spec n 0); lia.
Qed.

Lemma calm_cf s : calm (map cf_rd s).
Proof.
  induction s as [|x s IH]; [constructor|]. cbn [map]. constructor; [|exact IH].
  destruct x as [n| |k]; cbn [cf_rd]; [destruct (N.eqb_spec n 0); cbn; lia|cbn; lia|cbn; lia].
Qed.

Lemma calm_fails s : calm s -> fails s = [].
Proof. induction 1 as [|x s Hx Hs IH]; [reflexivity|]. destruct x; cbn in Hx; try contradiction. exact IH. Qed.

Lemma sfx_cnt a b : sfx a b -> (cnt a <= cnt b)%nat.
Proof. intros [[u Hu] _]. unfold cnt. rewrite Hu, ncalm_app. lia. Qed.

Lemma abs_cf st : Abs (cf st) = Abs st. Proof. reflexivity. Qed.
Lemma good_cf st : WF st -> Good (cf st).
Proof. intros [Hw Hr]. split; [split; assumption|apply calm_cf]. Qed.

Lemma consume_cf st k : consume (cf st) k = cf (consume st k).
Proof. unfold consume. change (r_win (cf st)) with (r_win st). destruct (splitN k (r_win st)). reflexivity. Qed.

(* the script of a state reached by consuming only calm entries of [pre ++ Fail code :: rest] *)
Lemma script_calm_prefix code rest : forall u pre s', pre ++ Fail code :: rest = u ++ s' -> ncalm u = O -> calm pre ->
  exists pre', calm pre' /\ s' = pre' ++ Fail code :: rest.
Proof.
  induction u as [|x u IH]; intros pre s' E Hn Hc.
  - exists pre. split; [exact Hc|]. symmetry. exact E.
  - cbn [ncalm] in Hn. destruct pre as [|y pre]; cbn [app] in E; injection E as Exy E'.
    + subst x. cbn in Hn. lia.
    + apply Forall_cons_iff in Hc. destruct Hc as [_ Hc]. apply (IH pre s'); [exact E'|lia|exact Hc].
Qed.

Lemma script_nofail_prefix code rest : forall p pre s', pre ++ Fail code :: rest = p ++ s' -> fails p = [] -> calm pre -> ncalm p = O.
Proof.
  induction p as [|x p IH]; intros pre s' E Hf Hc; [reflexivity|].
  destruct pre as [|y pre]; cbn [app] in E; injection E as Exy E'; subst x.
  - cbn in Hf. discriminate Hf.
  - apply Forall_cons_iff in Hc. destruct Hc as [Hy Hp]. cbn [ncalm].
    destruct y as [n| |k]; cbn in Hy; try contradiction. cbn [fails] in Hf.
    rewrite (IH pre s' E' Hf Hp). cbn [ncalm_rd]. destruct (N.eqb_spec n 0); lia.
Qed.

Lemma script_fail_unique code rest : forall p pre code' s', pre ++ Fail code :: rest = p ++ Fail code' :: s' -> fails p = [] -> calm pre ->
  code' = code /\ s' = rest.
Proof.
  induction p as [|x p IH]; intros pre code' s' E Hf Hc.
  - destruct pre as [|y pre]; cbn [app] in E; injection E as Exy E'.
    + subst. split; reflexivity.
    + subst y. apply Forall_cons_iff in Hc. destruct Hc as [Hy _]. contradiction Hy.
  - destruct pre as [|y pre]; cbn [app] in E; injection E as Exy E'; subst x.
    + cbn in Hf. discriminate Hf.
    + apply Forall_cons_iff in Hc. destruct Hc as [Hy Hp].
      destruct y as [n| |k]; cbn in Hy; try contradiction. cbn [fails] in Hf. exact (IH pre code' s' E' Hf Hp).
Qed.

(* ------------------------------------------------------------------ parametricity of the machine in the unread script *)
Lemma private_read_cpar st room :
  sfx (fst (private_read st room)) st /\
  (cnt (fst (private_read st room)) = cnt st ->
   private_read (cf st) room = (cf (fst (private_read st room)), snd (private_read st room))).
Proof.
  destruct st as [win wlen off cap rest rlen script stk q last det bad fuel].
  unfold private_read, cnt, cf, deliver, set_script, upd_io, sfx.
  cbn [r_win r_wlen r_off r_cap r_rest r_rlen r_script r_stack r_queue r_last r_det r_bad r_fuel].
  destruct script as [|[n| |code] s]; cbn [map cf_rd ncalm ncalm_rd].
  - destruct (N.min room rlen =? 0); cbn [fst snd r_script r_fuel].
    + split; [split; [exists []; reflexivity|reflexivity]|reflexivity].
    + destruct (splitN (N.min room rlen) rest) as [a b]. cbn [fst snd r_script r_fuel].
      split; [split; [exists []; reflexivity|reflexivity]|reflexivity].
  - destruct (N.eqb_spec n 0) as [Hz|Hnz].
    + destruct (N.min (N.min n room) rlen =? 0); [|destruct (splitN (N.min (N.min n room) rlen) rest) as [a b]];
        cbn [fst snd r_script r_fuel]; (split; [split; [exists [Chunk n]; reflexivity|reflexivity]|intros H; lia]).
    + destruct (N.min (N.min n room) rlen =? 0); cbn [fst snd r_script r_fuel].
      * split; [split; [exists [Chunk n]; reflexivity|reflexivity]|reflexivity].
      * destruct (splitN (N.min (N.min n room) rlen) rest) as [a b]. cbn [fst snd r_script r_fuel].
        split; [split; [exists [Chunk n]; reflexivity|reflexivity]|reflexivity].
  - cbn [fst snd r_script r_fuel]. split; [split; [exists [Pause]; reflexivity|reflexivity]|intros H; lia].
  - cbn [fst snd r_script r_fuel]. split; [split; [exists [Fail code]; reflexivity|reflexivity]|intros H; lia].
Qed.

Lemma ensure_loop_cpar n : forall fuel st,
  sfx (fst (ensure_loop fuel n st)) st /\
  (cnt (fst (ensure_loop fuel n st)) = cnt st ->
   ensure_loop fuel n (cf st) = (cf (fst (ensure_loop fuel n st)), snd (ensure_loop fuel n st))).
Proof.
  induction fuel as [|f IH]; intros st.
  - cbn [ensure_loop fst snd]. split; [apply sfx_same; reflexivity|intros _; reflexivity].
  - cbn [ensure_loop]. change (r_wlen (cf st)) with (r_wlen st).
    destruct (n <=? r_wlen st); [split; [apply sfx_refl|intros _; reflexivity]|].
    change (set_cap (cf st) (N.max (r_cap (cf st)) n)) with (cf (set_cap st (N.max (r_cap st) n))).
    set (st1 := set_cap st (N.max (r_cap st) n)).
    change (r_cap (cf st1) - r_wlen (cf st1)) with (r_cap st1 - r_wlen st1).
    assert (S0 : sfx st1 st) by (apply sfx_same; reflexivity).
    assert (E0 : cnt st1 = cnt st) by reflexivity.
    destruct (private_read_cpar st1 (r_cap st1 - r_wlen st1)) as [S1 C1].
    destruct (private_read st1 (r_cap st1 - r_wlen st1)) as [st2 r2]. cbn [fst snd] in S1, C1.
    pose proof (sfx_cnt _ _ S1) as L1.
    destruct r2 as [[|]|e|].
    + destruct (IH st2) as [S2 C2]. pose proof (sfx_cnt _ _ S2) as L2.
      split; [eapply sfx_trans; [exact S2|eapply sfx_trans; [exact S1|exact S0]]|].
      intros Hn. rewrite C1 by lia. apply C2. lia.
    + cbn [fst snd]. split; [eapply sfx_trans; [exact S1|exact S0]|]. intros Hn. rewrite C1 by lia. reflexivity.
    + cbn [fst snd]. split; [eapply sfx_trans; [exact S1|exact S0]|]. intros Hn. rewrite C1 by lia. reflexivity.
    + cbn [fst snd]. split; [eapply sfx_trans; [exact S1|exact S0]|]. intros Hn. rewrite C1 by lia. reflexivity.
Qed.

Lemma ensure_cpar n st :
  sfx (fst (ensure n st)) st /\
  (cnt (fst (ensure n st)) = cnt st -> ensure n (cf st) = (cf (fst (ensure n st)), snd (ensure n st))).
Proof.
  unfold ensure. change (length (r_script (cf st))) with (length (map cf_rd (r_script st))). rewrite map_length.
  apply ensure_loop_cpar.
Qed.

Lemma peek_tag_id_cpar st :
  sfx (fst (peek_tag_id st)) st /\
  (cnt (fst (peek_tag_id st)) = cnt st -> peek_tag_id (cf st) = (cf (fst (peek_tag_id st)), snd (peek_tag_id st))).
Proof.
  rewrite peek_tag_id_fst. destruct (ensure_cpar 8 st) as [S1 C1]. split; [exact S1|]. intros Hn. specialize (C1 Hn).
  unfold peek_tag_id. rewrite C1. destruct (ensure 8 st) as [st1 [b|e|]]; cbn [fst snd]; try reflexivity.
  change (r_win (cf st1)) with (r_win st1). change (r_wlen (cf st1)) with (r_wlen st1).
  destruct (r_win st1) as [|b0 w]; [reflexivity|]. destruct (b0 =? 0); [reflexivity|].
  destruct (r_wlen st1 <? _); reflexivity.
Qed.

Lemma keeps_cnt a b : keeps a b -> cnt a = cnt b.
Proof. intros [H1 _]. unfold cnt. rewrite H1. reflexivity. Qed.

Lemma hier_step_cpar c st id ty :
  keeps (fst (hier_step c st id ty)) st /\
  hier_step c (cf st) id ty = (cf (fst (hier_step c st id ty)), snd (hier_step c st id ty)).
Proof.
  unfold hier_step. change (r_det (cf st)) with (r_det st). change (r_stack (cf st)) with (r_stack st).
  destruct (negb (c_allow_hier c) && _); [|split; [split; reflexivity|reflexivity]].
  destruct (r_det st) eqn:Ed.
  - change (r_det (cf st)) with (r_det st). change (r_stack (cf st)) with (r_stack st). rewrite Ed. cbn [andb].
    destruct (negb (validate_tag_path _ _ _)); (split; [split; reflexivity|reflexivity]).
  - destruct (all_ids _).
    + destruct (implied_stack _ _) as [stk|].
      * cbn [set_stack r_det r_stack andb cf set_script upd_io].
        destruct (negb (validate_tag_path _ _ _)); (split; [split; reflexivity|reflexivity]).
      * split; [split; reflexivity|reflexivity].
    + change (r_det (cf st)) with (r_det st). rewrite Ed. cbn [andb]. split; [split; reflexivity|reflexivity].
Qed.

Lemma hdr_tail_cpar c st id idl :
  keeps (fst (hdr_tail c st id idl)) st /\
  hdr_tail c (cf st) id idl = (cf (fst (hdr_tail c st id idl)), snd (hdr_tail c st id idl)).
Proof.
  unfold hdr_tail. change (r_win (cf st)) with (r_win st). change (r_off (cf st)) with (r_off st).
  destruct (read_vint _) as [[[size size_len]|]| |]; try (split; [split; reflexivity|reflexivity]).
  destruct (is_numeric _ && _); [split; [split; reflexivity|reflexivity]|].
  destruct (negb (c_allow_id c) && _); [split; [split; reflexivity|reflexivity]|].
  destruct (hier_step_cpar c st id (get_type (c_sp c) id)) as [K1 C1]. rewrite C1.
  destruct (hier_step c st id (get_type (c_sp c) id)) as [st1 e1]. cbn [fst snd] in *.
  destruct e1; [split; [exact K1|reflexivity]|].
  change (r_bad (cf st1)) with (r_bad st1). destruct (r_bad st1); [split; [exact K1|reflexivity]|].
  change (is_invalid_tag_size (cf st1)) with (is_invalid_tag_size st1).
  destruct (negb (c_allow_over c) && _); [split; [exact K1|reflexivity]|].
  destruct (c_max c) as [m|]; destruct (ebml_size size size_len) as [n|]; try destruct (m <? n);
    (split; [exact K1|reflexivity]).
Qed.

Lemma peek_header_cpar c st :
  sfx (fst (peek_header c st)) st /\
  (cnt (fst (peek_header c st)) = cnt st -> peek_header c (cf st) = (cf (fst (peek_header c st)), snd (peek_header c st))).
Proof.
  rewrite !peek_header_unfold.
  destruct (ensure_cpar 16 st) as [S1 C1]. destruct (ensure 16 st) as [st1 r1]. cbn [fst snd] in S1, C1.
  pose proof (sfx_cnt _ _ S1) as L1.
  destruct r1 as [b1|e1|].
  2:{ cbn [fst snd]. split; [exact S1|]. intros Hn. rewrite C1 by exact Hn. reflexivity. }
  2:{ cbn [fst snd]. split; [exact S1|]. intros Hn. rewrite C1 by exact Hn. reflexivity. }
  destruct (peek_tag_id_cpar st1) as [S2 C2]. destruct (peek_tag_id st1) as [st2 r2]. cbn [fst snd] in S2, C2.
  pose proof (sfx_cnt _ _ S2) as L2.
  destruct r2 as [[id idl]|e2|].
  2:{ cbn [fst snd]. split; [eapply sfx_trans; eassumption|]. intros Hn. rewrite C1 by lia. rewrite C2 by lia. reflexivity. }
  2:{ cbn [fst snd]. split; [eapply sfx_trans; eassumption|]. intros Hn. rewrite C1 by lia. rewrite C2 by lia. reflexivity. }
  destruct (hdr_tail_cpar c st2 id idl) as [K3 C3]. pose proof (keeps_cnt _ _ K3) as E3.
  split; [eapply sfx_trans; [apply keeps_sfx, K3|eapply sfx_trans; eassumption]|].
  intros Hn. rewrite C1 by lia. rewrite C2 by lia. exact C3.
Qed.

Lemma tag_tail_cpar c st ts h :
  sfx (fst (tag_tail c st ts h)) st /\
  (cnt (fst (tag_tail c st ts h)) = cnt st -> tag_tail c (cf st) ts h = (cf (fst (tag_tail c st ts h)), snd (tag_tail c st ts h))).
Proof.
  destruct h as [[[id ty] esz] hl]. unfold tag_tail. rewrite consume_cf.
  pose proof (consume_sfx st (N.of_nat hl)) as Sc. set (stc := consume st (N.of_nat hl)) in *.
  change (r_off (cf stc)) with (r_off stc).
  destruct ty as [[]|]; destruct esz as [size|]; cbv beta iota;
    try (split; [exact Sc|intros _; reflexivity]).
  all: change (set_cap (cf stc) (N.max (r_cap (cf stc)) size)) with (cf (set_cap stc (N.max (r_cap stc) size)));
    set (st1 := set_cap stc (N.max (r_cap stc) size));
    assert (S1 : sfx st1 st) by (eapply sfx_trans; [apply sfx_same; reflexivity|exact Sc]);
    destruct (ensure_cpar size st1) as [S2 C2]; destruct (ensure size st1) as [st2 r2]; cbn [fst snd] in S2, C2;
    pose proof (sfx_cnt _ _ S1) as L1; pose proof (sfx_cnt _ _ S2) as L2;
    assert (S3 : sfx st2 st) by (eapply sfx_trans; eassumption);
    destruct r2 as [[|]|e|];
    try (cbn [fst snd]; split; [exact S3|intros Hn; rewrite C2 by lia; reflexivity]).
  all: pose proof (consume_sfx st2 size) as S4; pose proof (sfx_cnt _ _ S4) as L4;
    assert (S5 : sfx (consume st2 size) st) by (eapply sfx_trans; eassumption).
  all: match goal with |- context [splitN ?k (r_win ?s)] => destruct (splitN k (r_win s)) as [raw rest'] eqn:Esp end.
  all: try match goal with |- context [arr_to_u64 ?r] => destruct (arr_to_u64 r) eqn:Ea end.
  all: try match goal with |- context [arr_to_i64 ?r] => destruct (arr_to_i64 r) eqn:Ea end.
  all: try match goal with |- context [arr_to_f64 ?r] => destruct (arr_to_f64 r) eqn:Ea end.
  all: try match goal with |- context [utf8_valid ?r] => destruct (utf8_valid r) eqn:Ea end.
  all: cbn [fst snd]; (split; [exact S5|]); intros Hn; rewrite C2 by lia;
    change (r_win (cf st2)) with (r_win st2); rewrite Esp, consume_cf, ?Ea; reflexivity.
Qed.

Lemma read_tag_cpar c st :
  sfx (fst (read_tag c st)) st /\
  (cnt (fst (read_tag c st)) = cnt st -> read_tag c (cf st) = (cf (fst (read_tag c st)), snd (read_tag c st))).
Proof.
  rewrite !read_tag_unfold. change (r_off (cf st)) with (r_off st).
  destruct (peek_header_cpar c st) as [S1 C1]. destruct (peek_header c st) as [st1 r1]. cbn [fst snd] in S1, C1.
  pose proof (sfx_cnt _ _ S1) as L1.
  destruct r1 as [h|e|].
  2:{ cbn [fst snd]. split; [exact S1|]. intros Hn. rewrite C1 by exact Hn. reflexivity. }
  2:{ cbn [fst snd]. split; [exact S1|]. intros Hn. rewrite C1 by exact Hn. reflexivity. }
  destruct (tag_tail_cpar c st1 (r_off st) h) as [S2 C2]. pose proof (sfx_cnt _ _ S2) as L2.
  split; [eapply sfx_trans; eassumption|]. intros Hn. rewrite C1 by lia. apply C2. lia.
Qed.

Lemma read_tag_checked_cpar c st :
  sfx (fst (read_tag_checked c st)) st /\
  (cnt (fst (read_tag_checked c st)) = cnt st ->
   read_tag_checked c (cf st) = (cf (fst (read_tag_checked c st)), snd (read_tag_checked c st))).
Proof.
  unfold read_tag_checked. change (r_wlen (cf st)) with (r_wlen st).
  destruct (r_wlen st =? 0).
  - destruct (ensure_cpar 1 st) as [S1 C1]. destruct (ensure 1 st) as [st1 r1]. cbn [fst snd] in S1, C1.
    pose proof (sfx_cnt _ _ S1) as L1.
    destruct r1 as [[|]|e|].
    2:{ cbn [fst snd]. split; [exact S1|]. intros Hn. rewrite C1 by exact Hn. reflexivity. }
    2:{ cbn [fst snd]. split; [exact S1|]. intros Hn. rewrite C1 by exact Hn. reflexivity. }
    2:{ cbn [fst snd]. split; [exact S1|]. intros Hn. rewrite C1 by exact Hn. reflexivity. }
    destruct (read_tag_cpar c st1) as [S2 C2]. destruct (read_tag c st1) as [st2 r2]. cbn [fst snd] in *.
    pose proof (sfx_cnt _ _ S2) as L2.
    split; [eapply sfx_trans; eassumption|]. intros Hn. rewrite C1 by lia. rewrite C2 by lia. reflexivity.
  - destruct (read_tag_cpar c st) as [S2 C2]. destruct (read_tag c st) as [st2 r2]. cbn [fst snd] in *.
    split; [exact S2|]. intros Hn. rewrite C2 by exact Hn. reflexivity.
Qed.

Lemma bm_finish_cpar tid ts pre st pos :
  keeps (bm_finish tid ts pre st pos) st /\ bm_finish tid ts pre (cf st) pos = cf (bm_finish tid ts pre st pos).
Proof.
  unfold bm_finish. change (r_queue (cf st)) with (r_queue st).
  destruct (nth_error (skipn pre (r_queue st)) (pos - pre)) as [[t o|e]|]; (split; [split; reflexivity|reflexivity]).
Qed.

Lemma rn_bm_cpar c : forall fuel,
  (forall st, sfx (read_next fuel c st) st /\
              (cnt (read_next fuel c st) = cnt st -> read_next fuel c (cf st) = cf (read_next fuel c st))) /\
  (forall tid ts pre pos st, sfx (buffer_master fuel c tid ts pre pos st) st /\
              (cnt (buffer_master fuel c tid ts pre pos st) = cnt st ->
               buffer_master fuel c tid ts pre pos (cf st) = cf (buffer_master fuel c tid ts pre pos st))).
Proof.
  induction fuel as [|f [IH1 IH2]].
  - split; intros; (split; [apply sfx_same; reflexivity|intros _; reflexivity]).
  - split.
    + intros st. rewrite !read_next_unfold. cbn zeta.
      change (exhausted_count (r_off (cf st)) (r_stack (cf st))) with (exhausted_count (r_off st) (r_stack st)).
      change (pop_frames (cf st) (exhausted_count (r_off st) (r_stack st))) with (cf (pop_frames st (exhausted_count (r_off st) (r_stack st)))).
      set (st1 := pop_frames st (exhausted_count (r_off st) (r_stack st))).
      assert (S0 : sfx st1 st) by (apply sfx_same; reflexivity). assert (E0 : cnt st1 = cnt st) by reflexivity.
      destruct (read_tag_checked_cpar c st1) as [S2 C2]. destruct (read_tag_checked c st1) as [st2 r2]. cbn [fst snd] in S2, C2.
      pose proof (sfx_cnt _ _ S2) as L2. assert (S3 : sfx st2 st) by (eapply sfx_trans; eassumption).
      destruct r2 as [[p|e|]|].
      * set (st3 := pop_frames st2 (count_ended (c_sp c) (tag_id (p_tag p)) (stack_view (r_stack st2)))).
        assert (E3 : cnt st3 = cnt st2) by reflexivity.
        assert (S4 : sfx st3 st) by (eapply sfx_trans; [apply sfx_same; reflexivity|exact S3]).
        assert (Hc : cnt st3 = cnt st -> read_tag_checked c (cf st1) = (cf st2, Some (Ok p))) by (intros Hn; apply C2; lia).
        destruct (p_tag p) eqn:Et; try (split; [exact S4|intros Hn; rewrite (Hc Hn); cbv beta iota; rewrite Et; reflexivity]).
        set (st4 := set_stack st3 _ (r_det st3)).
        assert (E4 : cnt st4 = cnt st3) by reflexivity.
        assert (S5 : sfx st4 st) by (eapply sfx_trans; [apply sfx_same; reflexivity|exact S4]).
        destruct (mem_id _ (c_buffered c)) eqn:Em.
        2:{ split; [exact S5|]. intros Hn. rewrite (Hc Hn). cbv beta iota. rewrite Et, Em. reflexivity. }
        destruct (IH2 (tag_id (TStart id)) (p_start p) (length (r_queue st4)) (length (r_queue st4)) st4) as [S6 C6].
        pose proof (sfx_cnt _ _ S6) as L6.
        split; [eapply sfx_trans; eassumption|].
        intros Hn. assert (Hn3 : cnt st3 = cnt st) by (pose proof (sfx_cnt _ _ S5); lia).
        rewrite (Hc Hn3). cbv beta iota. rewrite Et, Em.
        refine (eq_trans _ (C6 _)); [reflexivity|lia].
      * split; [exact S3|intros Hn; rewrite C2 by (change (cnt (push_q st2 [QErr e])) with (cnt st2) in Hn; lia); reflexivity].
      * split; [exact S3|intros Hn; rewrite C2 by (change (cnt (set_bad st2 BPanic)) with (cnt st2) in Hn; lia); reflexivity].
      * destruct (c_emit_eof c).
        -- split; [exact S3|intros Hn; rewrite C2 by (change (cnt (pop_frames st2 (length (r_stack st2)))) with (cnt st2) in Hn; lia); reflexivity].
        -- split; [exact S3|intros Hn; rewrite C2 by lia; reflexivity].
    + intros tid ts pre pos st. rewrite !buffer_master_unfold. cbn zeta. change (r_queue (cf st)) with (r_queue st).
      destruct (length (r_queue st) <=? pos)%nat.
      * destruct (IH1 st) as [S1 C1]. pose proof (sfx_cnt _ _ S1) as L1. set (st1 := read_next f c st) in *.
        destruct (r_bad st1) eqn:Eb.
        { split; [exact S1|]. intros Hn. rewrite C1 by exact Hn. change (r_bad (cf st1)) with (r_bad st1). rewrite Eb. reflexivity. }
        destruct (length (r_queue st1) <=? pos)%nat eqn:El.
        { split; [exact S1|]. intros Hn. rewrite C1 by exact Hn. change (r_bad (cf st1)) with (r_bad st1). rewrite Eb.
          change (r_queue (cf st1)) with (r_queue st1). rewrite El. reflexivity. }
        destruct (scan_queue tid (skipn pos (r_queue st1)) pos) as [p found] eqn:Es. destruct found.
        -- destruct (bm_finish_cpar tid ts pre st1 p) as [K2 C2]. pose proof (keeps_cnt _ _ K2) as E2.
           split; [eapply sfx_trans; [apply keeps_sfx, K2|exact S1]|]. intros Hn. rewrite C1 by lia.
           change (r_bad (cf st1)) with (r_bad st1). rewrite Eb. change (r_queue (cf st1)) with (r_queue st1). rewrite El, Es. exact C2.
        -- destruct (IH2 tid ts pre p st1) as [S2 C2]. pose proof (sfx_cnt _ _ S2) as L2.
           split; [eapply sfx_trans; eassumption|]. intros Hn. rewrite C1 by lia.
           change (r_bad (cf st1)) with (r_bad st1). rewrite Eb. change (r_queue (cf st1)) with (r_queue st1). rewrite El, Es. apply C2. lia.
      * destruct (scan_queue tid (skipn pos (r_queue st)) pos) as [p found] eqn:Es. destruct found.
        -- destruct (bm_finish_cpar tid ts pre st p) as [K2 C2]. split; [apply keeps_sfx, K2|intros _; exact C2].
        -- apply IH2.
Qed.

Lemma next_cpar c st :
  sfx (fst (next c st)) st /\
  (cnt (fst (next c st)) = cnt st -> next c (cf st) = (cf (fst (next c st)), snd (next c st))).
Proof.
  unfold next. change (r_queue (cf st)) with (r_queue st). change (r_fuel (cf st)) with (r_fuel st).
  assert (H : sfx (match r_queue st with [] => read_next (r_fuel st) c st | _ :: _ => st end) st /\
              (cnt (match r_queue st with [] => read_next (r_fuel st) c st | _ :: _ => st end) = cnt st ->
               match r_queue st with [] => read_next (r_fuel st) c (cf st) | _ :: _ => cf st end =
               cf (match r_queue st with [] => read_next (r_fuel st) c st | _ :: _ => st end))).
  { destruct (r_queue st); [apply rn_bm_cpar|split; [apply sfx_refl|intros _; reflexivity]]. }
  set (st1 := match r_queue st with [] => read_next (r_fuel st) c st | _ :: _ => st end) in *.
  destruct H as [S1 C1].
  assert (Hq : forall X, r_queue (cf X) = r_queue X) by reflexivity.
  destruct (r_queue st1) as [|[t o|e] q] eqn:Eq; cbn [fst snd].
  - split; [exact S1|]. intros Hn. rewrite (C1 Hn), Hq, Eq. reflexivity.
  - split; [eapply sfx_trans; [apply sfx_same; reflexivity|exact S1]|]. intros Hn.
    rewrite (C1 Hn), Hq, Eq. reflexivity.
  - split; [eapply sfx_trans; [apply sfx_same; reflexivity|exact S1]|]. intros Hn.
    rewrite (C1 Hn), Hq, Eq. reflexivity.
Qed.

Lemma recover_loop_cpar c : forall fuel st,
  sfx (fst (recover_loop fuel c st)) st /\
  (cnt (fst (recover_loop fuel c st)) = cnt st ->
   recover_loop fuel c (cf st) = (cf (fst (recover_loop fuel c st)), snd (recover_loop fuel c st))).
Proof.
  induction fuel as [|f IH]; intros st; cbn [recover_loop].
  - cbn [fst snd]. split; [apply sfx_same; reflexivity|intros _; reflexivity].
  - destruct (ensure_cpar 1 st) as [S1 C1]. destruct (ensure 1 st) as [st1 r1]. cbn [fst snd] in S1, C1.
    pose proof (sfx_cnt _ _ S1) as L1.
    destruct r1 as [[|]|e|].
    2:{ cbn [fst snd]. split; [exact S1|]. intros Hn. rewrite C1 by exact Hn. reflexivity. }
    2:{ cbn [fst snd]. split; [exact S1|]. intros Hn. rewrite C1 by exact Hn. reflexivity. }
    2:{ cbn [fst snd]. split; [eapply sfx_trans; [apply sfx_same; reflexivity|exact S1]|].
        intros Hn. rewrite C1 by exact Hn. reflexivity. }
    pose proof (consume_sfx st1 1) as Sc. set (st2 := consume st1 1) in *.
    assert (E2 : cnt st2 = cnt st1) by (unfold st2, consume; destruct (splitN 1 (r_win st1)); reflexivity).
    destruct (peek_header_cpar c st2) as [S3 C3]. destruct (peek_header c st2) as [st3 r3]. cbn [fst snd] in S3, C3.
    pose proof (sfx_cnt _ _ S3) as L3.
    assert (S4 : sfx st3 st) by (eapply sfx_trans; [exact S3|eapply sfx_trans; eassumption]).
    assert (Hc : cnt st3 = cnt st -> recover_loop (S f) c (cf st) =
                 match r3 with
                 | Ok _ => (cf st3, None)
                 | Panic => (set_bad (cf st3) BPanic, None)
                 | Err (RIo code) => (cf st3, Some (RIo code))
                 | Err _ => recover_loop f c (cf st3)
                 end).
    { intros Hn. cbn [recover_loop]. rewrite C1 by lia. rewrite consume_cf. fold st2. rewrite C3 by lia. reflexivity. }
    destruct r3 as [h|e|].
    + cbn [fst snd]. split; [exact S4|]. intros Hn. exact (Hc Hn).
    + destruct (IH st3) as [S5 C5]. pose proof (sfx_cnt _ _ S5) as L5.
      destruct e; cbn [fst snd];
        try (split; [eapply sfx_trans; eassumption|]; intros Hn; assert (Hn3 : cnt st3 = cnt st) by lia;
             eapply eq_trans; [exact (Hc Hn3)|apply C5; lia]).
      split; [exact S4|]. intros Hn. exact (Hc Hn).
    + cbn [fst snd]. split; [eapply sfx_trans; [apply sfx_same; reflexivity|exact S4]|]. intros Hn.
      change (cnt (set_bad st3 BPanic)) with (cnt st3) in Hn. exact (Hc Hn).
Qed.

Lemma try_recover_cpar c st :
  sfx (fst (try_recover c st)) st /\
  (cnt (fst (try_recover c st)) = cnt st -> try_recover c (cf st) = (cf (fst (try_recover c st)), snd (try_recover c st))).
Proof.
  unfold try_recover. change (r_fuel (cf st)) with (r_fuel st). change (r_off (cf st)) with (r_off st).
  destruct (recover_loop_cpar c (r_fuel st) st) as [S1 C1].
  destruct (recover_loop (r_fuel st) c st) as [st1 [e|]]; cbn [fst snd] in *.
  - split; [exact S1|]. intros Hn. rewrite (C1 Hn). reflexivity.
  - split; [eapply sfx_trans; [apply sfx_same; reflexivity|exact S1]|]. intros Hn.
    change (cnt (set_stack st1 (grow_frames (r_off st1 - r_off st) (r_stack st1)) (r_det st1))) with (cnt st1) in Hn.
    rewrite (C1 Hn). reflexivity.
Qed.

(* ------------------------------------------------------------------ r_bad: the refill loop never runs out of its budget while a Fail is ahead *)
Lemma deliver_bad st k s : r_bad (deliver st k s) = r_bad st.
Proof. unfold deliver. destruct (splitN k (r_rest st)). reflexivity. Qed.
Lemma consume_bad st k : r_bad (consume st k) = r_bad st.
Proof. unfold consume. destruct (splitN k (r_win st)). reflexivity. Qed.

Lemma ensure_loop_bad n : forall fuel st, fails (r_script st) <> [] -> (length (r_script st) < fuel)%nat ->
  r_bad (fst (ensure_loop fuel n st)) = r_bad st.
Proof.
  induction fuel as [|f IH]; intros st HF Hlen; [lia|]. cbn [ensure_loop].
  destruct (n <=? r_wlen st); [reflexivity|].
  set (st1 := set_cap st (N.max (r_cap st) n)).
  assert (Hs1 : r_script st1 = r_script st) by reflexivity. assert (Hb1 : r_bad st1 = r_bad st) by reflexivity.
  unfold private_read. rewrite Hs1. destruct (r_script st) as [|[m| |k] s] eqn:Es.
  - exfalso. apply HF. reflexivity.
  - destruct (_ =? 0); cbn [fst]; [exact Hb1|].
    rewrite IH; [rewrite deliver_bad; exact Hb1| |].
    + destruct (deliver_io st1 (N.min (N.min m (r_cap st1 - r_wlen st1)) (r_rlen st1)) s) as [_ ->]. exact HF.
    + destruct (deliver_io st1 (N.min (N.min m (r_cap st1 - r_wlen st1)) (r_rlen st1)) s) as [_ ->]. cbn [length] in Hlen. lia.
  - cbn [fst]. exact Hb1.
  - cbn [fst]. exact Hb1.
Qed.

Lemma ensure_bad n st : fails (r_script st) <> [] -> r_bad (fst (ensure n st)) = r_bad st.
Proof. intros HF. unfold ensure. apply ensure_loop_bad; [exact HF|lia]. Qed.

(* a step whose result is not the source's error leaves a Fail ahead *)
Lemma io_step_F {A} st st' (r : res rerr A) : io_step st st' r -> res_io r = None -> fails (r_script st) <> [] -> fails (r_script st') <> [].
Proof. intros [_ Ha] E HF. rewrite E in Ha. rewrite (adv_fails _ _ _ Ha) in HF. exact HF. Qed.

Lemma hier_step_bad c st id ty :
  r_bad (fst (hier_step c st id ty)) = r_bad st \/
  (snd (hier_step c st id ty) = None /\ exists b, r_bad (fst (hier_step c st id ty)) = Some b).
Proof.
  unfold hier_step. destruct (negb _ && _); [|left; reflexivity].
  destruct (r_det st).
  - destruct (_ && _); left; reflexivity.
  - destruct (all_ids _).
    + destruct (implied_stack _ _); [destruct (_ && _); left; reflexivity|].
      right. split; [reflexivity|]. cbn [fst set_bad r_bad]. destruct (r_bad st); eexists; reflexivity.
    + destruct (_ && _); left; reflexivity.
Qed.

Lemma hdr_tail_bad c st id idl :
  r_bad (fst (hdr_tail c st id idl)) = r_bad st \/ snd (hdr_tail c st id idl) = Panic.
Proof.
  unfold hdr_tail. destruct (read_vint _) as [[[size sl]|]|e|]; try (left; reflexivity); try (right; reflexivity).
  destruct (is_numeric _ && _); [left; reflexivity|].
  destruct (negb (c_allow_id c) && _); [left; reflexivity|].
  destruct (hier_step_bad c st id (get_type (c_sp c) id)) as [Hb|[Hn [b Hb]]];
    destruct (hier_step c st id (get_type (c_sp c) id)) as [st1 e1]; cbn [fst snd] in *.
  - destruct e1; [left; exact Hb|]. destruct (r_bad st1) eqn:Eb1; [right; reflexivity|].
    destruct (negb (c_allow_over c) && _); [left; cbn [fst]; congruence|].
    destruct (c_max c); destruct (ebml_size size sl); try destruct (_ <? _); left; cbn [fst]; congruence.
  - subst e1. rewrite Hb. right. reflexivity.
Qed.

Lemma peek_tag_id_bad st : fails (r_script st) <> [] -> r_bad (fst (peek_tag_id st)) = r_bad st.
Proof. intros HF. rewrite peek_tag_id_fst. apply ensure_bad, HF. Qed.

Lemma peek_header_bad c st : fails (r_script st) <> [] ->
  r_bad (fst (peek_header c st)) = r_bad st \/ snd (peek_header c st) = Panic.
Proof.
  intros HF. rewrite peek_header_unfold.
  pose proof (ensure_bad 16 st HF) as B1. pose proof (ensure_io 16 st) as I1.
  destruct (ensure 16 st) as [st1 [b|e|]]; cbn [fst snd] in *; try (left; exact B1).
  pose proof (io_step_F _ _ _ I1 eq_refl HF) as HF1.
  pose proof (peek_tag_id_bad st1 HF1) as B2. pose proof (peek_tag_id_io st1) as I2.
  destruct (peek_tag_id st1) as [st2 [[id idl]|e|]]; cbn [fst snd] in *; try (left; congruence).
  destruct (hdr_tail_bad c st2 id idl) as [B3|B3]; [left; congruence|right; exact B3].
Qed.

Lemma tag_tail_bad c st ts h : fails (r_script st) <> [] -> r_bad (fst (tag_tail c st ts h)) = r_bad st.
Proof.
  intros HF. destruct h as [[[id ty] esz] hl]. unfold tag_tail.
  pose proof (consume_bad st (N.of_nat hl)) as Bc. destruct (consume_io st (N.of_nat hl)) as [_ Sc].
  set (stc := consume st (N.of_nat hl)) in *.
  destruct esz as [size|]; [|destruct ty as [[]|]; cbn [fst]; exact Bc].
  set (st1 := set_cap stc (N.max (r_cap stc) size)).
  assert (HF1 : fails (r_script st1) <> []) by (change (r_script st1) with (r_script stc); rewrite Sc; exact HF).
  pose proof (ensure_bad size st1 HF1) as B2. change (r_bad st1) with (r_bad stc) in B2.
  destruct ty as [[]|]; try (cbn [fst]; exact Bc).
  all: destruct (ensure size st1) as [st2 [[|]|e|]]; cbn [fst snd] in *; try congruence.
  all: destruct (splitN size (r_win st2)) as [raw rest'].
  all: pose proof (consume_bad st2 size) as B3.
  all: try (destruct (arr_to_u64 raw); cbn [fst]; congruence).
  all: try (destruct (arr_to_i64 raw); cbn [fst]; congruence).
  all: try (destruct (arr_to_f64 raw); cbn [fst]; congruence).
  all: try (destruct (utf8_valid raw); cbn [fst]; congruence).
  all: cbn [fst]; congruence.
Qed.

Lemma read_tag_bad c st : fails (r_script st) <> [] ->
  r_bad (fst (read_tag c st)) = r_bad st \/ snd (read_tag c st) = Panic.
Proof.
  intros HF. rewrite read_tag_unfold. pose proof (peek_header_bad c st HF) as B1. pose proof (peek_header_io c st) as I1.
  destruct (peek_header c st) as [st1 [h|e|]]; cbn [fst snd] in *.
  - destruct B1 as [B1|B1]; [|discriminate B1].
    pose proof (io_step_F _ _ _ I1 eq_refl HF) as HF1.
    left. rewrite (tag_tail_bad c st1 (r_off st) h HF1). exact B1.
  - destruct B1 as [B1|B1]; [left; exact B1|discriminate B1].
  - right. reflexivity.
Qed.

Lemma read_tag_checked_bad c st : fails (r_script st) <> [] ->
  r_bad (fst (read_tag_checked c st)) = r_bad st \/ snd (read_tag_checked c st) = Some Panic.
Proof.
  intros HF. unfold read_tag_checked. destruct (r_wlen st =? 0).
  - pose proof (ensure_bad 1 st HF) as B1. pose proof (ensure_io 1 st) as I1.
    destruct (ensure 1 st) as [st1 [[|]|e|]]; cbn [fst snd] in *; try (left; exact B1).
    pose proof (io_step_F _ _ _ I1 eq_refl HF) as HF1.
    destruct (read_tag_bad c st1 HF1) as [B2|B2]; destruct (read_tag c st1) as [st2 r2]; cbn [fst snd] in *.
    + left. congruence.
    + right. rewrite B2. reflexivity.
  - destruct (read_tag_bad c st HF) as [B2|B2]; destruct (read_tag c st) as [st2 r2]; cbn [fst snd] in *.
    + left. exact B2.
    + right. rewrite B2. reflexivity.
Qed.

Lemma recover_loop_bad c : forall fuel st code', fails (r_script st) <> [] ->
  snd (recover_loop fuel c st) = Some (RIo code') -> r_bad (fst (recover_loop fuel c st)) = r_bad st.
Proof.
  induction fuel as [|f IH]; intros st code' HF; cbn [recover_loop]; [discriminate|].
  pose proof (ensure_bad 1 st HF) as B1. pose proof (ensure_io 1 st) as I1.
  destruct (ensure 1 st) as [st1 [[|]|e|]]; cbn [fst snd] in *; try discriminate; try (intros _; exact B1).
  pose proof (io_step_F _ _ _ I1 eq_refl HF) as HF1.
  pose proof (consume_bad st1 1) as Bc. destruct (consume_io st1 1) as [_ Sc]. set (st2 := consume st1 1) in *.
  assert (HF2 : fails (r_script st2) <> []) by (rewrite Sc; exact HF1).
  pose proof (peek_header_bad c st2 HF2) as B3. pose proof (peek_header_io c st2) as I3.
  destruct (peek_header c st2) as [st3 [h|e|]]; cbn [fst snd] in *; try discriminate.
  destruct B3 as [B3|B3]; [|discriminate B3].
  destruct e; cbn [fst snd]; try (intros Hr; rewrite (IH st3 code' (io_step_F _ _ _ I3 eq_refl HF2) Hr); congruence).
  intros _. congruence.
Qed.

Lemma try_recover_bad c st code' : fails (r_script st) <> [] ->
  snd (try_recover c st) = Some (RIo code') -> r_bad (fst (try_recover c st)) = r_bad st.
Proof.
  intros HF. unfold try_recover. pose proof (recover_loop_bad c (r_fuel st) st code' HF) as H.
  destruct (recover_loop (r_fuel st) c st) as [st1 [e|]]; cbn [fst snd] in *; [exact H|discriminate].
Qed.

(* ------------------------------------------------------------------ list facts *)
Lemma scan_queue_ge id : forall l pos p found, scan_queue id l pos = (p, found) -> (pos <= p)%nat.
Proof. intros l pos p found H. destruct (scan_queue_spec id l pos p found H) as [a [b [_ [-> _]]]]. lia. Qed.

(* where the scan stops depends only on the items up to that point *)
Lemma scan_queue_stop id : forall a pos x b b2, scan_queue id (a ++ x :: b) pos = ((pos + length a)%nat, true) ->
  scan_queue id (a ++ x :: b2) pos = ((pos + length a)%nat, true).
Proof.
  induction a as [|y a IH]; intros pos x b b2 H; cbn [app scan_queue length] in *.
  - destruct (qitem_is_err x || qitem_is_end_of id x); [exact H|].
    apply scan_queue_ge in H. lia.
  - destruct (qitem_is_err y || qitem_is_end_of id y).
    + inversion H. lia.
    + replace (pos + S (length a))%nat with (S pos + length a)%nat in * by lia. apply (IH (S pos) x b b2 H).
Qed.

Lemma bm_finish_qb tid ts pre st p kept ka x b' :
  r_queue st = kept ++ (ka ++ x :: b') -> length kept = pre -> (p - pre)%nat = length ka ->
  r_bad (bm_finish tid ts pre st p) = r_bad st /\
  r_queue (bm_finish tid ts pre st p) =
    match x with
    | QOk _ _ => kept ++ QOk (roll_up_children tid (qtags ka)) ts :: b'
    | QErr e => kept ++ [QErr e]
    end.
Proof.
  intros Hq Hk Hp. unfold bm_finish. rewrite Hq, Hp, <- Hk, skipn_length_app, firstn_length_app, nth_error_middle.
  destruct x as [t o|e]; [|split; reflexivity].
  rewrite firstn_length_app, skipn_S_middle. split; reflexivity.
Qed.

(* what one call of read_next appends to the queue starts with the Ends of the exhausted masters *)
Lemma read_next_ext c f X : exists more,
  r_queue (read_next (S f) c X) =
  (r_queue X ++ map end_item (firstn (exhausted_count (r_off X) (r_stack X)) (r_stack X))) ++ more.
Proof.
  rewrite read_next_unfold. cbn zeta.
  set (st0 := pop_frames X (exhausted_count (r_off X) (r_stack X))).
  change (r_queue X ++ map end_item (firstn (exhausted_count (r_off X) (r_stack X)) (r_stack X))) with (r_queue st0).
  destruct (read_tag_checked_io c st0) as [Hq2 _].
  destruct (read_tag_checked c st0) as [st2 [[p|e|]|]]; cbn [fst snd] in Hq2.
  - set (st3 := pop_frames st2 _).
    set (ends2 := map end_item (firstn (count_ended (c_sp c) (tag_id (p_tag p)) (stack_view (r_stack st2))) (r_stack st2))).
    assert (Hq3 : r_queue st3 = r_queue st0 ++ ends2) by (unfold st3; rewrite pop_frames_queue, Hq2; reflexivity).
    assert (Plain : exists more, r_queue (push_q st3 [QOk (p_tag p) (p_start p)]) = r_queue st0 ++ more).
    { exists (ends2 ++ [QOk (p_tag p) (p_start p)]). rewrite push_q_queue, Hq3, app_assoc. reflexivity. }
    destruct (p_tag p) as [|id0| |]; try exact Plain.
    destruct (mem_id _ _); [|exact Plain].
    set (st4 := set_stack st3 _ _).
    destruct (proj2 (rn_bm_io c f) (tag_id (TStart id0)) (p_start p) (length (r_queue st4)) st4 (le_n _)) as [new [Hqn _]].
    { rewrite skipn_all. constructor. }
    rewrite firstn_all in Hqn. exists (ends2 ++ new). rewrite Hqn. change (r_queue st4) with (r_queue st3).
    rewrite Hq3, app_assoc. reflexivity.
  - exists [QErr e]. rewrite push_q_queue, Hq2. reflexivity.
  - exists []. rewrite set_bad_queue, Hq2, app_nil_r. reflexivity.
  - destruct (c_emit_eof c).
    + eexists. rewrite pop_frames_queue, Hq2. reflexivity.
    + exists []. rewrite Hq2, app_nil_r. reflexivity.
Qed.

(* ================================================================== a script that fails once its calm part is used up *)
Section Fail.
Variables (code : N) (rest : list rd).

(* [InvF st]: cached lengths right, no panic site reached, and the unread script is [pre ++ Fail code :: rest] with [pre] calm:
   the Fail event has not been consumed *)
Definition InvF (st : rst) : Prop :=
  WF st /\ r_bad st = None /\ exists pre, calm pre /\ r_script st = pre ++ Fail code :: rest.

Lemma invF_F st : InvF st -> fails (r_script st) <> [].
Proof.
  intros [_ [_ [pre [Hc ->]]]]. rewrite fails_app, (calm_fails pre Hc). discriminate.
Qed.

Lemma invF_cnt st : InvF st -> cnt st = S (ncalm rest).
Proof. intros [_ [_ [pre [Hc Hs]]]]. unfold cnt. rewrite Hs, ncalm_app, (calm_ncalm pre Hc). reflexivity. Qed.

Lemma invF_next st st' : InvF st -> sfx st' st -> cnt st' = cnt st -> WF st' -> r_bad st' = None -> InvF st'.
Proof.
  intros [_ [_ [pre [Hc Hs]]]] [[u Hu] _] Hn HW Hb. split; [exact HW|]. split; [exact Hb|].
  unfold cnt in Hn. rewrite Hu, ncalm_app in Hn. rewrite Hs in Hu.
  apply (script_calm_prefix code rest u pre (r_script st') Hu); [lia|exact Hc].
Qed.

Lemma invF_same a b : buf_same a b -> r_bad a = r_bad b -> InvF b -> InvF a.
Proof.
  intros [H1 [H2 [H3 [H4 H5]]]] Hb [[Hw Hr] [Hbad Hs]]. unfold InvF, WF. rewrite H1, H2, H3, H4, H5, Hb. auto.
Qed.

(* whether a step consumed the Fail: if not, only calm entries were consumed; if so, it is [Fail code] *)
Lemma invF_adv st s' o : InvF st -> adv (r_script st) s' o ->
  (o = None /\ ncalm s' = cnt st) \/ (o = Some code /\ ncalm s' <> cnt st).
Proof.
  intros HI [p [Hf Hp]]. pose proof (invF_cnt st HI) as Hcnt. destruct HI as [_ [_ [pre [Hc Hs]]]]. rewrite Hs in Hp.
  destruct o as [code'|].
  - right. destruct (script_fail_unique code rest p pre code' s' Hp Hf Hc) as [-> ->]. split; [reflexivity|lia].
  - left. split; [reflexivity|]. pose proof (script_nofail_prefix code rest p pre s' Hp Hf Hc) as H0.
    unfold cnt. rewrite Hs, Hp, ncalm_app. lia.
Qed.

(* ------------------------------------------------------------------ calls that do not consume the Fail refine the abstract reader *)
Theorem next_refines_calmstep c st : WF st -> cnt (fst (next c st)) = cnt st ->
  WF (fst (next c st)) /\ Abs (fst (next c st)) = fst (p_next c (Abs st)) /\ snd (next c st) = snd (p_next c (Abs st)).
Proof.
  intros HW Hn. destruct (next_cpar c st) as [S1 C1]. specialize (C1 Hn).
  destruct (next_refines c (cf st) (good_cf st HW)) as [[HW1 _] [HA HR]].
  rewrite C1 in HW1, HA, HR. cbn [fst snd] in HW1, HA, HR. rewrite !abs_cf in HA.
  split; [exact HW1|]. split; [exact HA|exact HR].
Qed.

Theorem try_recover_refines_calmstep c st : WF st -> cnt (fst (try_recover c st)) = cnt st ->
  WF (fst (try_recover c st)) /\ Abs (fst (try_recover c st)) = fst (p_try_recover c (Abs st)) /\
  snd (try_recover c st) = snd (p_try_recover c (Abs st)).
Proof.
  intros HW Hn. destruct (try_recover_cpar c st) as [S1 C1]. specialize (C1 Hn).
  destruct (try_recover_refines c (cf st) (good_cf st HW)) as [[HW1 _] [HA HR]].
  rewrite C1 in HW1, HA, HR. cbn [fst snd] in HW1, HA, HR. rewrite !abs_cf in HA.
  split; [exact HW1|]. split; [exact HA|exact HR].
Qed.

(* ------------------------------------------------------------------ the call that consumes the Fail *)
(* read_next / buffer_master on the failing script, next to the same call on the script made calm (which is the abstract
   reader's call): when the Fail is consumed, what the call appended to the queue is [new0 ++ [QErr (RIo code)]] where new0
   holds no error and is a prefix of what the calm call appended; no panic site is reached *)
Lemma rn_bm_fail c : forall fuel,
  (forall st, InvF st -> cnt (read_next fuel c st) <> cnt st -> r_bad (read_next fuel c (cf st)) = None ->
     r_bad (read_next fuel c st) = None /\
     exists new0 more, noerr new0 /\
       r_queue (read_next fuel c st) = r_queue st ++ new0 ++ [QErr (RIo code)] /\
       r_queue (read_next fuel c (cf st)) = r_queue st ++ new0 ++ more) /\
  (forall tid ts pre st, InvF st -> (pre <= length (r_queue st))%nat -> noerr (skipn pre (r_queue st)) ->
     cnt (buffer_master fuel c tid ts pre (length (r_queue st)) st) <> cnt st ->
     r_bad (buffer_master fuel c tid ts pre (length (r_queue st)) (cf st)) = None ->
     r_bad (buffer_master fuel c tid ts pre (length (r_queue st)) st) = None /\
     exists new0 more, noerr new0 /\
       r_queue (buffer_master fuel c tid ts pre (length (r_queue st)) st) = firstn pre (r_queue st) ++ new0 ++ [QErr (RIo code)] /\
       r_queue (buffer_master fuel c tid ts pre (length (r_queue st)) (cf st)) = firstn pre (r_queue st) ++ new0 ++ more).
Proof.
  induction fuel as [|f [IH1 IH2]].
  - split; intros; exfalso; match goal with H : _ <> _ |- _ => apply H; reflexivity end.
  - split.
    + (* read_next *)
      intros st HI Hne HbC.
      remember (read_next (S f) c (cf st)) as C eqn:EC. pose proof EC as EC0.
      rewrite read_next_unfold in Hne |- *. cbn zeta in Hne |- *.
      rewrite read_next_unfold in EC. cbn zeta in EC.
      change (exhausted_count (r_off (cf st)) (r_stack (cf st))) with (exhausted_count (r_off st) (r_stack st)) in EC.
      change (pop_frames (cf st) (exhausted_count (r_off st) (r_stack st))) with (cf (pop_frames st (exhausted_count (r_off st) (r_stack st)))) in EC.
      set (ends := map end_item (firstn (exhausted_count (r_off st) (r_stack st)) (r_stack st))).
      set (st0 := pop_frames st (exhausted_count (r_off st) (r_stack st))) in *.
      assert (Hq0 : r_queue st0 = r_queue st ++ ends) by reflexivity.
      assert (HI0 : InvF st0) by (apply (invF_same st0 st); [repeat split|reflexivity|exact HI]).
      assert (Hc0 : cnt st0 = cnt st) by reflexivity.
      pose proof (invF_F st0 HI0) as HF0.
      destruct (read_tag_checked_cpar c st0) as [S2 C2]. destruct (read_tag_checked_io c st0) as [Hq2 Ha2].
      pose proof (read_tag_checked_bad c st0 HF0) as B2.
      pose proof (read_tag_checked_refines c (cf st0) (good_cf st0 (proj1 HI0))) as [[HW2 _] _].
      destruct (read_tag_checked c st0) as [st2 r2]. cbn [fst snd] in S2, C2, Hq2, Ha2, B2.
      destruct (invF_adv st0 _ _ HI0 Ha2) as [[Ho Hn2]|[Ho Hn2]].
      * (* the tag was read without meeting the Fail *)
        change (ncalm (r_script st2)) with (cnt st2) in Hn2. specialize (C2 Hn2). rewrite C2 in HW2, EC. cbn [fst] in HW2.
        assert (HW2' : WF st2) by exact HW2.
        destruct r2 as [[p|e|]|]; try (exfalso; apply Hne; exact Hn2).
        2:{ destruct (c_emit_eof c); exfalso; apply Hne; exact Hn2. }
        destruct B2 as [B2|B2]; [|discriminate B2].
        set (st3 := pop_frames st2 (count_ended (c_sp c) (tag_id (p_tag p)) (stack_view (r_stack st2)))) in *.
        set (ends2 := map end_item (firstn (count_ended (c_sp c) (tag_id (p_tag p)) (stack_view (r_stack st2))) (r_stack st2))).
        assert (Hq3 : r_queue st3 = (r_queue st ++ ends) ++ ends2) by (unfold st3; rewrite pop_frames_queue, Hq2, Hq0; reflexivity).
        cbv beta iota in EC.
        destruct (p_tag p) as [|id0| |] eqn:Et; try (exfalso; apply Hne; exact Hn2).
        destruct (mem_id (tag_id (TStart id0)) (c_buffered c)) eqn:Em; [|exfalso; apply Hne; exact Hn2].
        set (st4 := set_stack st3 ({| f_id := tag_id (TStart id0); f_size := p_size p; f_start := p_start p; f_data := p_data p |} :: r_stack st3) (r_det st3)) in *.
        assert (HI4 : InvF st4).
        { apply (invF_next st0 st4 HI0); [eapply sfx_trans; [apply sfx_same; reflexivity|exact S2]|exact Hn2|exact HW2'|].
          change (r_bad st4) with (r_bad st2). rewrite B2. apply HI0. }
        assert (Hne4 : cnt (buffer_master f c (tag_id (TStart id0)) (p_start p) (length (r_queue st4)) (length (r_queue st4)) st4) <> cnt st4).
        { change (cnt st4) with (cnt st2). rewrite Hn2. exact Hne. }
        assert (HbC4 : r_bad (buffer_master f c (tag_id (TStart id0)) (p_start p) (length (r_queue st4)) (length (r_queue st4)) (cf st4)) = None).
        { rewrite <- HbC, EC. reflexivity. }
        destruct (IH2 (tag_id (TStart id0)) (p_start p) (length (r_queue st4)) st4 HI4 (le_n _)) as [Hb [new0 [more [Hn0 [HqR HqC]]]]];
          [rewrite skipn_all; constructor|exact Hne4|exact HbC4|].
        split; [exact Hb|].
        exists (ends ++ ends2 ++ new0), more.
        split; [apply noerr_app; split; [apply noerr_ends|apply noerr_app; split; [apply noerr_ends|exact Hn0]]|].
        split.
        -- rewrite HqR, firstn_all. change (r_queue st4) with (r_queue st3). rewrite Hq3, <- !app_assoc. reflexivity.
        -- rewrite EC. refine (eq_trans HqC _). rewrite firstn_all. change (r_queue st4) with (r_queue st3).
           rewrite Hq3, <- !app_assoc. reflexivity.
      * (* the Fail was met while reading the tag *)
        destruct r2 as [[p|e|]|]; cbn [ores_io res_io] in Ho; try discriminate Ho.
        destruct e; cbn [err_io] in Ho; try discriminate Ho. injection Ho as ->.
        destruct B2 as [B2|B2]; [|discriminate B2].
        split; [change (r_bad (push_q st2 [QErr (RIo code)])) with (r_bad st2); rewrite B2; apply HI0|].
        destruct (read_next_ext c f (cf st)) as [more Hm].
        exists ends, more. split; [apply noerr_ends|].
        split; [rewrite push_q_queue, Hq2, Hq0, <- app_assoc; reflexivity|].
        rewrite EC0, Hm, <- app_assoc. reflexivity.
    + (* buffer_master *)
      intros tid ts pre st HI Hpre Hn Hne HbC.
      remember (buffer_master (S f) c tid ts pre (length (r_queue st)) (cf st)) as C eqn:EC.
      rewrite buffer_master_unfold in Hne |- *. rewrite Nat.leb_refl in Hne |- *. cbn zeta in Hne |- *.
      destruct (proj1 (rn_bm_io c f) st) as [new1 [Hq1 Hp1]].
      destruct (proj1 (rn_bm_cpar c f) st) as [S1 C1].
      destruct (proj1 (rn_bm_refines c f) (cf st) (good_cf st (proj1 HI))) as [[HW1 _] _].
      pose proof EC as EC'. rewrite buffer_master_unfold in EC'. change (r_queue (cf st)) with (r_queue st) in EC'.
      rewrite Nat.leb_refl in EC'. cbn zeta in EC'.
      set (st1 := read_next f c st) in *. set (cst1 := read_next f c (cf st)) in *.
      set (q := r_queue st) in *.
      assert (HbC1 : r_bad cst1 = None).
      { destruct (r_bad cst1) eqn:E; [|reflexivity]. rewrite EC' in HbC. rewrite E in HbC. discriminate HbC. }
      rewrite HbC1 in EC'.
      destruct (Nat.eq_dec (cnt st1) (cnt st)) as [Heq|Hneq].
      * (* this round did not meet the Fail *)
        specialize (C1 Heq). fold cst1 in C1.
        assert (HWs1 : WF st1) by (rewrite C1 in HW1; exact HW1).
        destruct (r_bad st1) eqn:Eb; [exfalso; apply Hne; exact Heq|].
        destruct (length (r_queue st1) <=? length q)%nat eqn:El; [exfalso; apply Hne; exact Heq|].
        rewrite C1 in EC'. change (r_queue (cf st1)) with (r_queue st1) in EC'. rewrite El in EC'.
        rewrite Hq1 in Hne, EC' |- *. rewrite skipn_length_app in Hne, EC' |- *.
        destruct (scan_queue tid new1 (length q)) as [p found] eqn:Es.
        destruct (scan_queue_spec _ _ _ _ _ Es) as [a [b [Hab [Hp [Hna Hf]]]]].
        destruct found.
        { exfalso. apply Hne. destruct (bm_finish_cpar tid ts pre st1 p) as [K2 _]. rewrite (keeps_cnt _ _ K2). exact Heq. }
        subst b. rewrite app_nil_r in Hab. subst a.
        assert (Hp' : p = length (r_queue st1)) by (rewrite Hq1, app_length; exact Hp).
        rewrite Hp' in Hne, EC' |- *.
        assert (Hpre1 : (pre <= length (r_queue st1))%nat) by (rewrite Hq1, app_length; lia).
        assert (Hn1 : noerr (skipn pre (r_queue st1))).
        { rewrite Hq1, skipn_app_le by exact Hpre. apply noerr_app. split; assumption. }
        assert (HI1 : InvF st1) by (apply (invF_next st st1 HI S1 Heq HWs1 Eb)).
        assert (Hne1 : cnt (buffer_master f c tid ts pre (length (r_queue st1)) st1) <> cnt st1) by (rewrite Heq; exact Hne).
        assert (HbCr : r_bad (buffer_master f c tid ts pre (length (r_queue st1)) (cf st1)) = None) by (rewrite <- HbC, EC'; reflexivity).
        destruct (IH2 tid ts pre st1 HI1 Hpre1 Hn1 Hne1 HbCr) as [Hb [new0 [more [Hn0 [HqR HqC]]]]].
        split; [exact Hb|]. exists new0, more. split; [exact Hn0|].
        assert (Hfi : firstn pre (r_queue st1) = firstn pre q) by (rewrite Hq1; apply firstn_app_le; exact Hpre).
        rewrite Hfi in HqR, HqC.
        split; [exact HqR|]. rewrite EC'. exact HqC.
      * (* this round met the Fail *)
        destruct (IH1 st HI Hneq HbC1) as [Hb1 [new0 [more [Hn0 [HqR HqC]]]]]. fold st1 in Hb1, HqR. fold cst1 in HqC. fold q in HqR, HqC.
        rewrite Hb1.
        assert (El : (length (r_queue st1) <=? length q)%nat = false).
        { apply Nat.leb_gt. rewrite HqR, !app_length. cbn [length]. lia. }
        rewrite El. rewrite HqR, skipn_length_app.
        destruct (scan_queue tid (new0 ++ [QErr (RIo code)]) (length q)) as [p found] eqn:Es.
        destruct (scan_queue_spec _ _ _ _ _ Es) as [a [b [Hab [Hp [Hna Hf]]]]].
        destruct found.
        2:{ exfalso. subst b. rewrite app_nil_r in Hab. subst a. apply noerr_app in Hna. destruct Hna as [_ Hna].
            inversion Hna as [|? ? Hx _]. discriminate Hx. }
        destruct Hf as [x [b' ->]].
        assert (Hlen : length (firstn pre q) = pre) by (apply firstn_length_le; exact Hpre).
        assert (Hidx : (p - pre)%nat = length (skipn pre q ++ a)) by (rewrite app_length, skipn_length; lia).
        destruct (last_split_cases _ _ _ _ _ Hab) as [[-> [-> ->]]|[b'' [-> Hn0']]].
        -- (* the error is the first thing the scan finds: nothing new is delivered before it *)
           assert (Hq1' : r_queue st1 = firstn pre q ++ ((skipn pre q ++ new0) ++ QErr (RIo code) :: [])).
           { rewrite HqR. rewrite <- (firstn_skipn pre q) at 1. rewrite <- !app_assoc. reflexivity. }
           destruct (bm_finish_qb tid ts pre st1 p _ _ _ _ Hq1' Hlen Hidx) as [Hbf Hqf].
           split; [rewrite Hbf; exact Hb1|].
           destruct (proj2 (rn_bm_io c (S f)) tid ts pre (cf st) Hpre Hn) as [newC [HqCC _]].
           change (r_queue (cf st)) with q in HqCC. rewrite <- EC in HqCC.
           exists [], newC. split; [constructor|]. split; [exact Hqf|exact HqCC].
        -- (* the End of the buffered master comes first: the master is delivered, then the error *)
           assert (Hx : exists t o, x = QOk t o).
           { rewrite Hn0' in Hn0. apply noerr_app in Hn0. destruct Hn0 as [_ Hn0]. inversion Hn0 as [|? ? Hx _].
             destruct x as [t o|e]; [eexists; eexists; reflexivity|discriminate Hx]. }
           destruct Hx as [t [o ->]].
           assert (Hq1' : r_queue st1 = firstn pre q ++ ((skipn pre q ++ a) ++ QOk t o :: (b'' ++ [QErr (RIo code)]))).
           { rewrite HqR, Hn0'. rewrite <- (firstn_skipn pre q) at 1. rewrite <- !app_assoc. reflexivity. }
           destruct (bm_finish_qb tid ts pre st1 p _ _ _ _ Hq1' Hlen Hidx) as [Hbf Hqf].
           split; [rewrite Hbf; exact Hb1|].
           assert (HqC' : r_queue cst1 = firstn pre q ++ ((skipn pre q ++ a) ++ QOk t o :: (b'' ++ more))).
           { rewrite HqC, Hn0'. rewrite <- (firstn_skipn pre q) at 1. rewrite <- !app_assoc. reflexivity. }
           assert (ElC : (length (r_queue cst1) <=? length q)%nat = false).
           { apply Nat.leb_gt. rewrite HqC, Hn0', !app_length. cbn [length]. lia. }
           rewrite ElC in EC'. rewrite HqC, skipn_length_app, Hn0' in EC'.
           rewrite <- app_assoc in EC'. cbn [app] in EC'.
           rewrite Hp, Hab in Es. rewrite (scan_queue_stop tid a (length q) (QOk t o) _ (b'' ++ more) Es) in EC'.
           rewrite <- Hp in EC'.
           assert (HqCq : q ++ a ++ QOk t o :: b'' ++ more = r_queue cst1).
           { rewrite HqC, Hn0', <- !app_assoc. reflexivity. }
           destruct (bm_finish_qb tid ts pre cst1 p _ _ _ _ HqC' Hlen Hidx) as [_ HqfC].
           exists (QOk (roll_up_children tid (qtags (skipn pre q ++ a))) ts :: b''), more.
           split; [constructor; [reflexivity|]; rewrite Hn0' in Hn0; apply noerr_app in Hn0; destruct Hn0 as [_ Hn0]; inversion Hn0; assumption|].
           split; [rewrite Hqf; reflexivity|].
           rewrite EC'. exact HqfC.
Qed.

(* ------------------------------------------------------------------ one call of next() *)
Lemma next_queued_eq c st x q : r_queue st = x :: q ->
  next c st = match x with QOk t off => (set_last (set_queue st q) off, NItem t off) | QErr e => (set_queue st q, NErr e) end.
Proof. intros Hq. unfold next. rewrite Hq. cbv zeta iota. rewrite Hq. destruct x; reflexivity. Qed.

Lemma p_next_queued_eq c st x q : b_queue st = x :: q ->
  p_next c st = match x with QOk t off => (pset_last (pset_queue st q) off, NItem t off) | QErr e => (pset_queue st q, NErr e) end.
Proof. intros Hq. unfold p_next. rewrite Hq. cbv zeta iota. rewrite Hq. destruct x; reflexivity. Qed.

(* phase 2: the Fail has been consumed by a call of next(); its error waits in the queue behind items that the abstract
   reader has queued as well *)
Definition Q2 (st : rst) (p : pst) : Prop :=
  exists qa more, r_queue st = qa ++ [QErr (RIo code)] /\ noerr qa /\ b_queue p = qa ++ more.

Definition Rel (st : rst) (p : pst) : Prop :=
  (InvF st /\ p = Abs st) \/ (Q2 st p /\ r_bad st = None /\ b_bad p = None).

Lemma rel_bad st p : Rel st p -> r_bad st = None /\ b_bad p = None.
Proof. intros [[[_ [Hb _]] ->]|[_ H]]; [split; exact Hb|exact H]. Qed.

Lemma next_phase1 c st : InvF st -> b_bad (fst (p_next c (Abs st))) = None ->
  (snd (next c st) = NErr (RIo code) /\ r_bad (fst (next c st)) = None) \/
  (snd (next c st) = snd (p_next c (Abs st)) /\ r_bad (fst (next c st)) = None /\ Rel (fst (next c st)) (fst (p_next c (Abs st)))).
Proof.
  intros HI HbP. destruct (Nat.eq_dec (cnt (fst (next c st))) (cnt st)) as [Heq|Hneq].
  - right. destruct (next_refines_calmstep c st (proj1 HI) Heq) as [HW1 [HA HR]].
    assert (Hb : r_bad (fst (next c st)) = None) by (rewrite <- HA in HbP; exact HbP).
    split; [exact HR|]. split; [exact Hb|]. left.
    split; [apply (invF_next st); [exact HI|apply next_cpar|exact Heq|exact HW1|exact Hb]|symmetry; exact HA].
  - destruct (r_queue st) as [|x q] eqn:Hq.
    2:{ exfalso. apply Hneq. destruct (next_queued c st x q Hq) as [Hs _]. unfold cnt. rewrite Hs. reflexivity. }
    destruct (proj1 (rn_bm_refines c (r_fuel st)) (cf st) (good_cf st (proj1 HI))) as [_ HA]. rewrite abs_cf in HA.
    unfold next in Hneq |- *. unfold p_next in HbP |- *. change (b_queue (Abs st)) with (r_queue st) in HbP |- *.
    change (b_fuel (Abs st)) with (r_fuel st) in HbP |- *. rewrite Hq in Hneq, HbP |- *. rewrite <- HA in HbP |- *.
    set (R1 := read_next (r_fuel st) c st) in *. set (C1 := read_next (r_fuel st) c (cf st)) in *.
    change (b_queue (Abs C1)) with (r_queue C1) in HbP |- *.
    assert (Hne1 : cnt R1 <> cnt st) by (intros E; apply Hneq; destruct (r_queue R1) as [|[? ?|?] ?]; exact E).
    assert (HbC : r_bad C1 = None) by (destruct (r_queue C1) as [|[? ?|?] ?]; exact HbP).
    destruct (proj1 (rn_bm_fail c (r_fuel st)) st HI Hne1 HbC) as [Hb1 [new0 [more [Hn0 [HqR HqC]]]]].
    fold R1 in Hb1, HqR. fold C1 in HqC. rewrite Hq in HqR, HqC. cbn [app] in HqR, HqC. rewrite HqR, HqC.
    destruct new0 as [|[t o|e] qa]; cbn [app fst snd].
    + left. split; [reflexivity|exact Hb1].
    + right. split; [reflexivity|]. split; [exact Hb1|]. right.
      split; [|split; [exact Hb1|exact HbC]].
      exists qa, more. split; [reflexivity|]. split; [inversion Hn0; assumption|reflexivity].
    + inversion Hn0 as [|? ? Hx _]. discriminate Hx.
Qed.

Lemma next_phase2 c st p : Q2 st p -> r_bad st = None -> b_bad p = None ->
  (snd (next c st) = NErr (RIo code) /\ r_bad (fst (next c st)) = None) \/
  (snd (next c st) = snd (p_next c p) /\ r_bad (fst (next c st)) = None /\ Rel (fst (next c st)) (fst (p_next c p))).
Proof.
  intros [qa [more [HqR [Hn HqP]]]] Hb HbP. destruct qa as [|[t o|e] qa]; cbn [app] in HqR, HqP.
  - left. rewrite (next_queued_eq c st _ _ HqR). split; [reflexivity|exact Hb].
  - right. rewrite (next_queued_eq c st _ _ HqR), (p_next_queued_eq c p _ _ HqP). cbn [fst snd].
    split; [reflexivity|]. split; [exact Hb|]. right. split; [|split; [exact Hb|exact HbP]].
    exists qa, more. split; [reflexivity|]. split; [inversion Hn; assumption|reflexivity].
  - inversion Hn as [|? ? Hx _]. discriminate Hx.
Qed.

Lemma next_rel c st p : Rel st p -> b_bad (fst (p_next c p)) = None ->
  (snd (next c st) = NErr (RIo code) /\ r_bad (fst (next c st)) = None) \/
  (snd (next c st) = snd (p_next c p) /\ r_bad (fst (next c st)) = None /\ Rel (fst (next c st)) (fst (p_next c p))).
Proof.
  intros [[HI ->]|[HQ [Hb HbP]]] H; [apply next_phase1; assumption|apply next_phase2; assumption].
Qed.

(* ------------------------------------------------------------------ runs *)
Definition nobad (outs : list rout) : Prop := ~ In OPanic outs /\ ~ In OFuel outs.

Lemma nobad_bad b l : nobad (bad_out b :: l) -> False.
Proof. intros [H1 H2]. destruct b; [apply H1|apply H2]; left; reflexivity. Qed.
Lemma nobad_tail o l : nobad (o :: l) -> nobad l.
Proof. intros [H1 H2]. split; intros H; [apply H1|apply H2]; right; exact H. Qed.
Lemma nobad_app a b : nobad (a ++ b) -> nobad a /\ nobad b.
Proof. intros [H1 H2]. split; split; intros H; [apply H1|apply H2|apply H1|apply H2]; apply in_or_app; auto. Qed.

Definition io_out (x : rout) : Prop := x = OErr (RIo code) \/ x = ORecErr (RIo code).

(* the source error is reported as outcome x after outcomes that the abstract reader yields as well *)
Definition FoundIO (outsR outsP : list rout) : Prop :=
  exists common x tail m, outsR = common ++ x :: tail /\ outsP = common ++ m /\ io_out x.

(* try_recover() is called (after the calls ops1) while the source error is still queued: up to that call the outcomes are
   those of the abstract reader *)
Definition FoundRec (c : cfg) (limit : nat) (st : rst) (ops : list rop) (outsR outsP : list rout) : Prop :=
  exists ops1 ops2 qa tail m, ops = ops1 ++ RRecover :: ops2 /\
    r_bad (fst (run_ops c limit st ops1)) = None /\
    r_queue (fst (run_ops c limit st ops1)) = qa ++ [QErr (RIo code)] /\ noerr qa /\
    outsR = snd (run_ops c limit st ops1) ++ tail /\ outsP = snd (run_ops c limit st ops1) ++ m.

Lemma run_all_fail c : forall limit st p, Rel st p -> nobad (snd (p_run_all limit c p)) ->
  (snd (run_all limit c st) = snd (p_run_all limit c p) /\
   Rel (fst (run_all limit c st)) (fst (p_run_all limit c p))) \/
  (r_bad (fst (run_all limit c st)) = None /\
   exists common m, snd (run_all limit c st) = common ++ [OErr (RIo code)] /\ snd (p_run_all limit c p) = common ++ m).
Proof.
  induction limit as [|l IH]; intros st p HR Hnb; cbn [run_all p_run_all] in *.
  - left. split; [reflexivity|exact HR].
  - pose proof (next_rel c st p HR) as HN.
    destruct (next c st) as [st1 r]. destruct (p_next c p) as [p1 pr]. cbn [fst snd] in HN.
    destruct (b_bad p1) as [b|] eqn:Eb; [exfalso; exact (nobad_bad b [] Hnb)|].
    destruct (HN eq_refl) as [[-> Hb1]|[-> [Hb1 HR1]]]; rewrite Hb1.
    + right. cbn [fst snd]. split; [exact Hb1|]. exists [], (snd (match pr with
        | NItem t off => let (st2, outs) := p_run_all l c p1 in (st2, OItem t off :: outs)
        | NErr e => (p1, [OErr e]) | NNone => (p1, [ONone]) end)). split; reflexivity.
    + destruct pr as [t o|e|]; try (left; split; [reflexivity|exact HR1]).
      specialize (IH st1 p1 HR1).
      destruct (run_all l c st1) as [st2 outs]. destruct (p_run_all l c p1) as [p2 pouts]. cbn [fst snd] in *.
      destruct (IH (nobad_tail _ _ Hnb)) as [[-> HR2]|[Hb2 [common [m [-> ->]]]]].
      * left. split; [reflexivity|exact HR2].
      * right. split; [exact Hb2|]. exists (OItem t o :: common), m. split; reflexivity.
Qed.

Lemma run_ops_fail c limit : forall ops st p, Rel st p -> nobad (snd (p_run_ops c limit p ops)) ->
  snd (run_ops c limit st ops) = snd (p_run_ops c limit p ops) \/
  FoundIO (snd (run_ops c limit st ops)) (snd (p_run_ops c limit p ops)) \/
  FoundRec c limit st ops (snd (run_ops c limit st ops)) (snd (p_run_ops c limit p ops)).
Proof.
  induction ops as [|op ops IH]; intros st p HR Hnb; [left; reflexivity|].
  destruct op.
  - (* next() *)
    cbn [run_ops p_run_ops] in Hnb |- *. unfold FoundRec.
    pose proof (next_rel c st p HR) as HN.
    destruct (next c st) as [st1 r] eqn:En. destruct (p_next c p) as [p1 pr]. cbn [fst snd] in HN.
    destruct (b_bad p1) as [b|] eqn:Eb; [exfalso; exact (nobad_bad b [] Hnb)|].
    destruct (HN eq_refl) as [[-> Hb1]|[-> [Hb1 HR1]]]; rewrite Hb1.
    + right. left. destruct (run_ops c limit st1 ops) as [st2 outs]. cbn [snd].
      exists [], (OErr (RIo code)), outs. eexists. split; [reflexivity|]. split; [reflexivity|left; reflexivity].
    + specialize (IH st1 p1 HR1). unfold FoundRec in IH.
      destruct (run_ops c limit st1 ops) as [st2 outs]. destruct (p_run_ops c limit p1 ops) as [p2 pouts]. cbn [fst snd] in *.
      destruct (IH (nobad_tail _ _ Hnb)) as [->|[[common [x [tail [m [-> [-> Hx]]]]]]|[ops1 [ops2 [qa [tail [m [-> [Hb2 [Hq2 [Hn2 [-> ->]]]]]]]]]]]].
      * left. reflexivity.
      * right. left. eexists (_ :: common), x, tail, m. split; [reflexivity|]. split; [reflexivity|exact Hx].
      * right. right. exists (RNext :: ops1), ops2, qa, tail, m. split; [reflexivity|].
        cbn [run_ops]. rewrite En, Hb1. destruct (run_ops c limit st1 ops1) as [st3 outs3]. cbn [fst snd] in *.
        split; [exact Hb2|]. split; [exact Hq2|]. split; [exact Hn2|]. split; reflexivity.
  - (* try_recover() *)
    destruct HR as [[HI ->]|[[qa [more [HqR [Hn HqP]]]] [Hb HbP]]].
    2:{ right. right. exists [], ops, qa. eexists. eexists. split; [reflexivity|]. cbn [run_ops fst snd app].
        split; [exact Hb|]. split; [exact HqR|]. split; [exact Hn|]. split; reflexivity. }
    cbn [run_ops p_run_ops] in Hnb |- *. unfold FoundRec.
    destruct (try_recover c st) as [st1 r] eqn:Et.
    destruct (Nat.eq_dec (cnt st1) (cnt st)) as [Heq|Hneq].
    + (* the Fail is not consumed *)
      destruct (try_recover_refines_calmstep c st (proj1 HI)) as [HW1 [HA HRr]]; [rewrite Et; exact Heq|].
      pose proof (proj1 (try_recover_cpar c st)) as S1. rewrite Et in HW1, HA, HRr, S1. cbn [fst snd] in HW1, HA, HRr, S1.
      destruct (p_try_recover c (Abs st)) as [p1 pr]. cbn [fst snd] in HA, HRr. subst p1 pr.
      change (b_bad (Abs st1)) with (r_bad st1) in Hnb |- *.
      destruct (r_bad st1) as [b|] eqn:Eb; [exfalso; exact (nobad_bad b [] Hnb)|].
      assert (HI1 : InvF st1) by (apply (invF_next st st1 HI S1 Heq HW1 Eb)).
      specialize (IH st1 (Abs st1) (or_introl (conj HI1 eq_refl))). unfold FoundRec in IH.
      destruct (run_ops c limit st1 ops) as [st2 outs]. destruct (p_run_ops c limit (Abs st1) ops) as [p2 pouts]. cbn [fst snd] in *.
      destruct (IH (nobad_tail _ _ Hnb)) as [->|[[common [x [tail [m [-> [-> Hx]]]]]]|[ops1 [ops2 [qa [tail [m [-> [Hb2 [Hq2 [Hn2 [-> ->]]]]]]]]]]]].
      * left. reflexivity.
      * right. left. eexists (_ :: common), x, tail, m. split; [reflexivity|]. split; [reflexivity|exact Hx].
      * right. right. exists (RRecover :: ops1), ops2, qa, tail, m. split; [reflexivity|].
        cbn [run_ops]. rewrite Et, Eb. destruct (run_ops c limit st1 ops1) as [st3 outs3]. cbn [fst snd] in *.
        split; [exact Hb2|]. split; [exact Hq2|]. split; [exact Hn2|]. split; reflexivity.
    + (* try_recover() consumes the Fail: it reports it *)
      destruct (try_recover_io c st) as [_ Ha]. rewrite Et in Ha. cbn [fst snd] in Ha.
      destruct (invF_adv st _ _ HI Ha) as [[_ Hc]|[Ho _]]; [exfalso; apply Hneq; exact Hc|].
      assert (Hr : r = Some (RIo code)).
      { destruct r as [e|]; cbn [oerr_io] in Ho; [|discriminate Ho]. destruct e; cbn [err_io] in Ho; try discriminate Ho.
        injection Ho as ->. reflexivity. }
      subst r. pose proof (try_recover_bad c st code (invF_F st HI)) as Hb1. rewrite Et in Hb1. cbn [fst snd] in Hb1.
      rewrite (Hb1 eq_refl). destruct HI as [_ [Hb _]]. rewrite Hb.
      right. left. destruct (run_ops c limit st1 ops) as [st2 outs]. cbn [snd].
      exists [], (ORecErr (RIo code)), outs. eexists. split; [reflexivity|]. split; [reflexivity|right; reflexivity].
  - (* drain *)
    cbn [run_ops p_run_ops] in Hnb |- *. unfold FoundRec.
    pose proof (run_all_fail c limit st p HR) as HA.
    destruct (run_all limit c st) as [st1 outs1] eqn:Ea. destruct (p_run_all limit c p) as [p1 pouts1]. cbn [fst snd] in HA.
    assert (Hnb1 : nobad pouts1).
    { destruct (b_bad p1); [exact Hnb|]. destruct (p_run_ops c limit p1 ops) as [p2 pouts2]. cbn [snd] in Hnb. apply nobad_app in Hnb. apply Hnb. }
    destruct (HA Hnb1) as [[-> HR1]|[Hb1 [common [m [-> ->]]]]].
    + destruct (rel_bad _ _ HR1) as [Hb1 HbP1]. rewrite Hb1, HbP1 in *.
      specialize (IH st1 p1 HR1). unfold FoundRec in IH.
      destruct (run_ops c limit st1 ops) as [st2 outs]. destruct (p_run_ops c limit p1 ops) as [p2 pouts]. cbn [fst snd] in *.
      destruct (IH (proj2 (nobad_app _ _ Hnb))) as [->|[[common [x [tail [m [-> [-> Hx]]]]]]|[ops1 [ops2 [qa [tail [m [-> [Hb2 [Hq2 [Hn2 [-> ->]]]]]]]]]]]].
      * left. reflexivity.
      * right. left. exists (pouts1 ++ common), x, tail, m. rewrite <- !app_assoc. split; [reflexivity|]. split; [reflexivity|exact Hx].
      * right. right. exists (RAll :: ops1), ops2, qa, tail, m. split; [reflexivity|].
        cbn [run_ops]. rewrite Ea, Hb1. destruct (run_ops c limit st1 ops1) as [st3 outs3]. cbn [fst snd] in *.
        rewrite <- !app_assoc. split; [exact Hb2|]. split; [exact Hq2|]. split; [exact Hn2|]. split; reflexivity.
    + rewrite Hb1. right. left. destruct (run_ops c limit st1 ops) as [st2 outs]. cbn [snd].
      exists common, (OErr (RIo code)), outs.
      exists (m ++ match b_bad p1 with Some _ => [] | None => snd (p_run_ops c limit p1 ops) end).
      split; [rewrite <- app_assoc; reflexivity|]. split; [|left; reflexivity].
      destruct (b_bad p1); [cbn [snd]; rewrite app_nil_r; reflexivity|].
      destruct (p_run_ops c limit p1 ops) as [p2 pouts2]. cbn [snd]. rewrite <- app_assoc. reflexivity.
Qed.

End Fail.

(* ------------------------------------------------------------------ the theorems *)
(* the abstract reader has no source, hence reports no source error *)
Lemma pure_no_io c input ops : ~ In OPanic (p_run c input ops) -> ~ In OFuel (p_run c input ops) ->
  outs_io (p_run c input ops) = [].
Proof.
  intros HP HF. assert (Hc : calm []) by constructor.
  pose proof (buffered_refines_pure c 0 [] input ops Hc) as E.
  pose proof (run_accounts_for_fails c 0 [] input ops) as H. rewrite E in H. specialize (H HP HF). cbn [fails] in H.
  apply Permutation_nil in H. apply app_eq_nil in H. apply H.
Qed.

Lemma outs_io_app a b : outs_io (a ++ b) = outs_io a ++ outs_io b.
Proof. apply flat_map_app. Qed.

(* C04/C05: a source that fails.  The read script is [pre ++ Fail code :: rest] with [pre] calm (every read before the failing
   one returns data while data remains); the abstract run reports neither a panic nor fuel exhaustion.  Then one of:
   (i)   the outcomes are exactly those of the abstract reader (the source error is never reported in this run: the Fail is
         not reached, or the run ends while the error is still queued);
   (ii)  outs = common ++ [e] ++ tail where common is a prefix of the abstract run, holds no source error, and e is the
         source error RIo code, reported by next() or by try_recover();
   (iii) the caller invokes try_recover() (after the calls ops1) while the source error is still queued behind items that
         next() has not delivered yet: the outcomes of ops1 are a prefix of the abstract run and hold no source error. *)
Theorem refines_until_io_error c cap0 pre code rest input ops : calm pre ->
  ~ In OPanic (p_run c input ops) -> ~ In OFuel (p_run c input ops) ->
  run_reader c cap0 (pre ++ Fail code :: rest) input ops = p_run c input ops \/
  (exists common e tail m,
     run_reader c cap0 (pre ++ Fail code :: rest) input ops = common ++ [e] ++ tail /\
     p_run c input ops = common ++ m /\ outs_io common = [] /\
     (e = OErr (RIo code) \/ e = ORecErr (RIo code))) \/
  (exists ops1 ops2 qa tail m, ops = ops1 ++ RRecover :: ops2 /\
     r_queue (fst (run_reader_st c cap0 (pre ++ Fail code :: rest) input ops1)) = qa ++ [QErr (RIo code)] /\ noerr qa /\
     run_reader c cap0 (pre ++ Fail code :: rest) input ops = run_reader c cap0 (pre ++ Fail code :: rest) input ops1 ++ tail /\
     p_run c input ops = run_reader c cap0 (pre ++ Fail code :: rest) input ops1 ++ m /\
     outs_io (run_reader c cap0 (pre ++ Fail code :: rest) input ops1) = []).
Proof.
  intros Hc HP HF. pose proof (pure_no_io c input ops HP HF) as Hio.
  unfold run_reader, run_reader_st, p_run in *.
  set (st0 := r_init cap0 (pre ++ Fail code :: rest) input).
  assert (HI : InvF code rest st0).
  { split; [split; reflexivity|]. split; [reflexivity|]. exists pre. split; [exact Hc|reflexivity]. }
  assert (HR : Rel code rest st0 (p_init input)) by (left; split; [exact HI|reflexivity]).
  destruct (run_ops_fail code rest c (4 * length input + 64) ops st0 (p_init input) HR (conj HP HF))
    as [E|[[common [x [tail [m [E1 [E2 Hx]]]]]]|[ops1 [ops2 [qa [tail [m [E0 [_ [Hq [Hn [E1 E2]]]]]]]]]]]].
  - left. exact E.
  - right. left. exists common, x, tail, m. split; [exact E1|]. split; [exact E2|]. split; [|exact Hx].
    rewrite E2, outs_io_app in Hio. apply app_eq_nil in Hio. apply Hio.
  - right. right. exists ops1, ops2, qa, tail, m. split; [exact E0|]. split; [exact Hq|]. split; [exact Hn|].
    split; [exact E1|]. split; [exact E2|]. rewrite E2, outs_io_app in Hio. apply app_eq_nil in Hio. apply Hio.
Qed.

(* without try_recover() among the calls, alternative (iii) does not arise *)
Corollary refines_until_io_error_next_only c cap0 pre code rest input ops : calm pre ->
  ~ In RRecover ops -> ~ In OPanic (p_run c input ops) -> ~ In OFuel (p_run c input ops) ->
  run_reader c cap0 (pre ++ Fail code :: rest) input ops = p_run c input ops \/
  (exists common e tail m,
     run_reader c cap0 (pre ++ Fail code :: rest) input ops = common ++ [e] ++ tail /\
     p_run c input ops = common ++ m /\ outs_io common = [] /\
     (e = OErr (RIo code) \/ e = ORecErr (RIo code))).
Proof.
  intros Hc Hno HP HF.
  destruct (refines_until_io_error c cap0 pre code rest input ops Hc HP HF) as [H|[H|[ops1 [ops2 [qa [tail [m [E _]]]]]]]];
    [left; exact H|right; exact H|].
  exfalso. apply Hno. rewrite E. apply in_or_app. right. left. reflexivity.
Qed.

(* the side conditions hold on every stream of bytes for every specification whose named parents are masters *)
Corollary refines_until_io_error_wf c cap0 pre code rest input ops : calm pre -> implied_ok (c_sp c) -> wf_bytes input ->
  run_reader c cap0 (pre ++ Fail code :: rest) input ops = p_run c input ops \/
  (exists common e tail m,
     run_reader c cap0 (pre ++ Fail code :: rest) input ops = common ++ [e] ++ tail /\
     p_run c input ops = common ++ m /\ outs_io common = [] /\
     (e = OErr (RIo code) \/ e = ORecErr (RIo code))) \/
  (exists ops1 ops2 qa tail m, ops = ops1 ++ RRecover :: ops2 /\
     r_queue (fst (run_reader_st c cap0 (pre ++ Fail code :: rest) input ops1)) = qa ++ [QErr (RIo code)] /\ noerr qa /\
     run_reader c cap0 (pre ++ Fail code :: rest) input ops = run_reader c cap0 (pre ++ Fail code :: rest) input ops1 ++ tail /\
     p_run c input ops = run_reader c cap0 (pre ++ Fail code :: rest) input ops1 ++ m /\
     outs_io (run_reader c cap0 (pre ++ Fail code :: rest) input ops1) = []).
Proof.
  intros Hc Hsp Hw. apply refines_until_io_error; [exact Hc| |].
  - intros Hin. pose proof (run_never_panics c input ops Hsp Hw) as H. rewrite Forall_forall in H. exact (H _ Hin eq_refl).
  - intros Hin. pose proof (run_never_out_of_fuel c input ops Hw) as H. rewrite Forall_forall in H. exact (H _ Hin eq_refl).
Qed.
