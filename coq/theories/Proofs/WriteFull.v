(* Masters written as one Full item: the same bytes as writing Start, children, End one by one (C09), and hence the same
   round trip (C01). *)
From Ebml Require Import Base Tools Spec Writer Reader Pure Encode.
From Ebml Require Import Proofs.Tactics Proofs.BytesProofs Proofs.VintProofs Proofs.DecodersProofs Proofs.SpecProofs Proofs.WriterProofs Proofs.PureProofs Proofs.RollUp Proofs.RoundTrip Proofs.WriteEnc.
Import ListNotations.
Local Open Scope N_scope.

(* the item a tree is written as when every master is given as Full *)
Fixpoint full_tag (t : rtree) : tag :=
  match t with
  | RLeaf id v _ _ => TElem id v
  | RNode id _ cs => TFull id ((fix go (l : list rtree) : list tag := match l with [] => [] | c :: l' => full_tag c :: go l' end) cs)
  end.
Lemma full_tag_node id sz cs : full_tag (RNode id sz cs) = TFull id (map full_tag cs).
Proof.
  cbn [full_tag].
  assert (H : (fix go (l : list rtree) : list tag := match l with [] => [] | c :: l' => full_tag c :: go l' end) cs = map full_tag cs).
  { induction cs as [|x l IH]; [reflexivity|]. cbn [map]. rewrite <- IH. reflexivity. }
  rewrite H. reflexivity.
Qed.

(* every master inside has a known size (the children of a Full are written with default options) *)
Fixpoint all_known (t : rtree) : Prop :=
  match t with
  | RLeaf _ _ _ _ => True
  | RNode _ sz cs => sz <> None /\ (fix all (l : list rtree) : Prop := match l with [] => True | x :: l' => all_known x /\ all l' end) cs
  end.
Lemma all_known_node id sz cs : all_known (RNode id sz cs) <-> sz <> None /\ Forall all_known cs.
Proof.
  cbn [all_known].
  assert (H : (fix all (l : list rtree) : Prop := match l with [] => True | x :: l' => all_known x /\ all l' end) cs <-> Forall all_known cs).
  { induction cs as [|x l IH]; [split; [constructor|trivial]|]. split.
    - intros [Hx Hl]. constructor; [exact Hx|apply IH, Hl].
    - intros HF. inversion HF as [|? ? Hx Hl]; subst. split; [exact Hx|apply IH, Hl]. }
  tauto.
Qed.

(* buffering a tree given as a Full item, with default options: its encoding is appended to the working buffer, nothing else
   changes *)
Definition Bfull (sp : spec) (t : rtree) : Prop :=
  forall ids st, wconf sp true ids t -> all_known t -> rev (open_ids (w_open st)) = ids ->
  buffer_tag sp (full_tag t) o_default st = (set_buf st (w_buf st ++ enc_tree t), WOk).

Lemma set_buf_eta st : set_buf st (w_buf st) = st.
Proof. destruct st; reflexivity. Qed.

Lemma children_full sp floor : forall cs, Forall (Bfull sp) cs -> forall ids st, Forall (wconf sp true ids) cs -> Forall all_known cs ->
  rev (open_ids (w_open st)) = ids -> (floor <= length (w_open st))%nat ->
  children_loop sp floor (map full_tag cs) st = (set_buf st (w_buf st ++ enc_forest cs), WOk).
Proof.
  induction cs as [|x l IH]; intros HB ids st Hc Hk Hi Hfl.
  - cbn [map children_loop enc_forest]. rewrite app_nil_r, set_buf_eta. reflexivity.
  - apply Forall_cons_iff in HB. destruct HB as [HBx HBl]. apply Forall_cons_iff in Hc. destruct Hc as [Hcx Hcl].
    apply Forall_cons_iff in Hk. destruct Hk as [Hkx Hkl].
    cbn [map]. unfold children_loop. fold (children_loop sp). rewrite (HBx ids st Hcx Hkx Hi). cbn [set_buf w_open].
    destruct (Nat.ltb_spec (length (w_open st)) floor); [lia|].
    rewrite (IH HBl ids (set_buf st (w_buf st ++ enc_tree x)) Hcl Hkl Hi Hfl). cbn [set_buf w_open w_buf w_dest w_script enc_forest].
    rewrite <- app_assoc. reflexivity.
Qed.

Lemma buffer_full sp : forall t, Bfull sp t.
Proof.
  induction t as [id v pl sl|id sz cs IH] using rtree_ind'; unfold Bfull; intros ids st Hc Hk Hi.
  - (* an element *)
    destruct Hc as [Hpath [ty [Hty [Hnm [Hshape [Hpl Hf]]]]]]. subst pl. cbn [full_tag].
    assert (Hsl : (1 <= sl <= 8)%nat) by (destruct Hf; assumption).
    assert (Hty2 : raw_type (TElem id v) (get_type sp id) = Some ty) by (rewrite Hty; apply raw_type_vshape, Hshape). rewrite buffer_tag_eq; raw_simpl. cbn [tag_id is_master_tag negb o_default o_unknown andb]. rewrite Hty2.
    assert (Hm : is_master_ty (Some ty) = false) by (destruct ty; try reflexivity; contradiction Hnm; reflexivity). rewrite Hm. cbn [andb].
    unfold should_validate; raw_simpl. cbn [tag_id]. rewrite Hty2.
    assert (Hv : match ty with DMaster => negb (is_end (TElem id v)) | _ => true end = true) by (destruct ty; reflexivity). rewrite Hv.
    rewrite (validate_chain sp id (w_open st) ids Hpath Hi). cbn [negb andb].
    unfold buffer_act; raw_simpl. cbn [o_unknown o_default tag_id]. rewrite Hty2.
    change (size_len_of o_default) with (wsl true sl).
    assert (Hw : write_element st id (Some ty) v (wsl true sl) =
                 (append (append st (id_bytes id)) (venc sl (N.of_nat (length (payload_of v))) ++ payload_of v), WOk)) by (apply write_leaf; assumption).
    destruct ty; try (contradiction Hnm; reflexivity); rewrite Hw; unfold append, set_buf; cbn [w_open w_buf w_dest w_script enc_tree]; rewrite <- !app_assoc; reflexivity.
  - (* a master given as Full *)
    apply wconf_node in Hc. destruct Hc as [Hpath [Hty [Hsz Hcs]]]. apply all_known_node in Hk. destruct Hk as [Hsn Hks].
    destruct sz as [sl|]; [|contradiction Hsn; reflexivity]. pose proof (Hsz sl eq_refl) as Hf.
    rewrite full_tag_node, buffer_tag_eq; raw_simpl. cbn [tag_id is_master_tag negb o_default o_unknown andb]. rewrite Hty. cbn [is_master_ty andb negb].
    unfold should_validate; raw_simpl. cbn [tag_id is_end negb]. rewrite Hty, (validate_chain sp id (w_open st) ids Hpath Hi). cbn [negb andb].
    unfold buffer_act; raw_simpl. cbn [o_unknown o_default tag_id]. rewrite Hty.
    change (size_len_of o_default) with O.
    set (st1 := start_tag st id 0).
    assert (Hi1 : rev (open_ids (w_open st1)) = ids ++ [id]) by (unfold st1, start_tag, open_ids in *; cbn [set_open w_open map rev fst]; rewrite Hi; reflexivity).
    assert (Hfl : (S (length (w_open st)) <= length (w_open st1))%nat) by (unfold st1, start_tag; cbn [set_open w_open length]; lia).
    rewrite (children_full sp _ cs IH (ids ++ [id]) st1 Hcs Hks Hi1 Hfl).
    unfold end_tag, st1, start_tag. cbn [set_buf set_open w_open w_buf]. rewrite N.eqb_refl, app_length.
    destruct (Nat.ltb_spec (length (w_buf st) + length (enc_forest cs)) (length (w_buf st))); [lia|].
    replace (length (w_buf st) + length (enc_forest cs) - length (w_buf st))%nat with (length (enc_forest cs)) by lia.
    fold (flen cs). change O with (wsl true sl). rewrite (size_to_vint_field true sl (flen cs) Hf).
    rewrite firstn_app, firstn_all, Nat.sub_diag, skipn_app, skipn_all, Nat.sub_diag. cbn [firstn skipn app]. rewrite app_nil_r.
    rewrite enc_tree_node. unfold set_buf, set_open. cbn [w_open w_buf w_dest w_script]. reflexivity.
Qed.

(* ------------------------------------------------------------------ one write call with a Full item *)
Definition top_opt (d : bool) (t : rtree) : wopts := match t with RLeaf _ _ _ sl => wopt d sl | RNode _ sz _ => node_opt d sz end.

(* conformance of a tree written as one item: the item's own options may ask for an explicit width or unknown size; everything
   inside a Full is written with default options *)
Definition fconf (sp : spec) (d : bool) (ids : list N) (t : rtree) : Prop :=
  match t with
  | RLeaf _ _ _ _ => wconf sp d ids t
  | RNode id sz cs =>
      get_path sp id = map PId ids /\ get_type sp id = Some DMaster /\ (forall sl, sz = Some sl -> field_ok d sl (flen cs)) /\
      Forall (wconf sp true (ids ++ [id])) cs /\ Forall all_known cs
  end.

Lemma write_full sp d t ids st : fconf sp d ids t -> w_script st = [] -> rev (open_ids (w_open st)) = ids ->
  (has_known (w_open st) = false -> w_buf st = []) ->
  exists st', wstep sp st (OpWrite (full_tag t) (top_opt d t)) = (st', WOk) /\ w_open st' = w_open st /\ w_script st' = [] /\
    image st' = image st ++ enc_tree t /\ (has_known (w_open st) = true -> w_dest st' = w_dest st) /\
    (has_known (w_open st) = false -> w_buf st' = []).
Proof.
  intros Hc Hs Hi Hinv. destruct t as [id v pl sl|id sz cs].
  - (* an element: as in write_tree *)
    destruct (write_tree sp d (RLeaf id v pl sl) ids st Hc Hs Hi Hinv) as [st' [[R1 R2] [O1 [S1 [I1 [K1 U1]]]]]].
    cbn [wops_tree wrun] in R1, R2. cbn [full_tag top_opt].
    destruct (wstep sp st (OpWrite (TElem id v) (wopt d sl))) as [s r] eqn:Es.
    assert (Hr : r = WOk) by (destruct r; cbn [snd] in R2; inversion R2 as [|? ? Hh _]; subst; try discriminate Hh; reflexivity).
    subst r. cbn [fst] in R1. subst s. exists st'. repeat split; assumption.
  - destruct Hc as [Hpath [Hty [Hsz [Hcs Hks]]]]. rewrite full_tag_node. cbn [top_opt].
    assert (Hval : w_validate sp id (w_open st) = true) by (apply (validate_chain sp id (w_open st) ids Hpath Hi)).
    assert (HB : Forall (Bfull sp) cs) by (apply Forall_forall; intros x _; apply buffer_full).
    destruct sz as [sl|].
    + pose proof (Hsz sl eq_refl) as Hf. assert (Hsl : (1 <= sl <= 8)%nat) by (destruct Hf; assumption).
      set (st1 := start_tag st id (wsl d sl)).
      assert (Hi1 : rev (open_ids (w_open st1)) = ids ++ [id]) by (unfold st1, start_tag, open_ids in *; cbn [set_open w_open map rev fst]; rewrite Hi; reflexivity).
      assert (Hfl : (S (length (w_open st)) <= length (w_open st1))%nat) by (unfold st1, start_tag; cbn [set_open w_open length]; lia).
      assert (Hb : buffer_tag sp (TFull id (map full_tag cs)) (wopt d sl) st =
                   (set_buf st (w_buf st ++ enc_tree (RNode id (Some sl) cs)), WOk)).
      { rewrite buffer_tag_eq; raw_simpl. cbn [tag_id is_master_tag negb]. rewrite Hty.
        assert (Hu : o_unknown (wopt d sl) = false) by (destruct d; reflexivity). rewrite Hu. cbn [andb is_master_ty negb].
        unfold should_validate; raw_simpl. cbn [tag_id is_end negb]. rewrite Hty, Hval. cbn [negb andb].
        unfold buffer_act; raw_simpl. rewrite Hu. cbn [tag_id]. rewrite Hty, (size_len_of_wopt d sl Hsl). fold st1.
        rewrite (children_full sp _ cs HB (ids ++ [id]) st1 Hcs Hks Hi1 Hfl).
        unfold end_tag, st1, start_tag. cbn [set_buf set_open w_open w_buf]. rewrite N.eqb_refl, app_length.
        destruct (Nat.ltb_spec (length (w_buf st) + length (enc_forest cs)) (length (w_buf st))); [lia|].
        replace (length (w_buf st) + length (enc_forest cs) - length (w_buf st))%nat with (length (enc_forest cs)) by lia.
        fold (flen cs). rewrite (size_to_vint_field d sl (flen cs) Hf).
        rewrite firstn_app, firstn_all, Nat.sub_diag, skipn_app, skipn_all, Nat.sub_diag. cbn [firstn skipn app]. rewrite app_nil_r.
        rewrite enc_tree_node. unfold set_buf, set_open. cbn [w_open w_buf w_dest w_script]. reflexivity. }
      destruct (write_step sp st _ _ _ Hb Hs) as [st' [Hstep [Ho [Hsc [Him [Hk Hu]]]]]]. cbn [set_buf w_open w_buf] in Ho, Him, Hk, Hu.
      exists st'. split; [exact Hstep|]. split; [exact Ho|]. split; [exact Hsc|]. split; [rewrite Him; unfold image; rewrite app_assoc; reflexivity|].
      split; [intros Hkn; apply Hk, Hkn|exact Hu].
    + set (st1 := start_unknown_size_tag st id).
      assert (Hi1 : rev (open_ids (w_open st1)) = ids ++ [id]) by (unfold st1, start_unknown_size_tag, open_ids in *; cbn [set_open set_buf w_open map rev fst]; rewrite Hi; reflexivity).
      assert (Hfl : (S (length (w_open st)) <= length (w_open st1))%nat) by (unfold st1, start_unknown_size_tag; cbn [set_open set_buf w_open length]; lia).
      assert (Hb : buffer_tag sp (TFull id (map full_tag cs)) opts_unknown st =
                   (set_buf st (w_buf st ++ enc_tree (RNode id None cs)), WOk)).
      { rewrite buffer_tag_eq; raw_simpl. cbn [tag_id is_master_tag negb opts_unknown o_unknown]. rewrite Hty. cbn [andb is_master_ty negb].
        unfold should_validate; raw_simpl. cbn [tag_id is_end negb]. rewrite Hty, Hval. cbn [negb andb].
        unfold buffer_act; raw_simpl. cbn [o_unknown opts_unknown tag_id]. fold st1.
        rewrite (children_full sp _ cs HB (ids ++ [id]) st1 Hcs Hks Hi1 Hfl).
        unfold end_tag, st1, start_unknown_size_tag. cbn [set_buf set_open w_open w_buf]. rewrite N.eqb_refl.
        rewrite enc_tree_node. unfold set_buf, set_open. cbn [w_open w_buf w_dest w_script]. rewrite <- !app_assoc. reflexivity. }
      destruct (write_step sp st _ _ _ Hb Hs) as [st' [Hstep [Ho [Hsc [Him [Hk Hu]]]]]]. cbn [set_buf w_open w_buf] in Ho, Him, Hk, Hu.
      exists st'. split; [exact Hstep|]. split; [exact Ho|]. split; [exact Hsc|]. split; [rewrite Him; unfold image; rewrite app_assoc; reflexivity|].
      split; [intros Hkn; apply Hk, Hkn|exact Hu].
Qed.

Definition fops (d : bool) (f : list rtree) : list wop := map (fun t => OpWrite (full_tag t) (top_opt d t)) f.

Lemma write_fulls sp d : forall l ids st, Forall (fconf sp d ids) l -> w_script st = [] -> rev (open_ids (w_open st)) = ids ->
  (has_known (w_open st) = false -> w_buf st = []) ->
  exists st', wrun_ok sp st (fops d l) st' /\ w_open st' = w_open st /\ w_script st' = [] /\ image st' = image st ++ enc_forest l /\
    (has_known (w_open st) = true -> w_dest st' = w_dest st) /\ (has_known (w_open st) = false -> w_buf st' = []).
Proof.
  induction l as [|x l IH]; intros ids st Hc Hs Hi Hinv.
  - exists st. split; [apply wrun_ok_nil|]. cbn [enc_forest]. rewrite app_nil_r. repeat split; auto.
  - apply Forall_cons_iff in Hc. destruct Hc as [Hcx Hcl].
    destruct (write_full sp d x ids st Hcx Hs Hi Hinv) as [st1 [R1 [O1 [S1 [I1 [K1 U1]]]]]].
    assert (Hinv1 : has_known (w_open st1) = false -> w_buf st1 = []) by (rewrite O1; exact U1).
    assert (Hi1 : rev (open_ids (w_open st1)) = ids) by (rewrite O1; exact Hi).
    destruct (IH ids st1 Hcl S1 Hi1 Hinv1) as [st2 [R2 [O2 [S2 [I2 [K2 U2]]]]]].
    exists st2. split; [cbn [fops map]; eapply wrun_ok_cons; [exact R1|exact R2]|].
    split; [congruence|]. split; [exact S2|]. split; [rewrite I2, I1; cbn [enc_forest]; rewrite app_assoc; reflexivity|].
    rewrite O1 in K2, U2. split; [intros Hk; rewrite (K2 Hk); exact (K1 Hk)|exact U2].
Qed.

(* C09: a document written as Full items gives exactly the structural encoding — the bytes the separate Start / children /
   End calls give (writer_encodes) *)
Theorem full_encodes sp d f : Forall (fconf sp d []) f ->
  Forall (fun r => fst r = WOk) (fst (run_writer sp (fops d f) [])) /\ snd (run_writer sp (fops d f) []) = enc_forest f.
Proof.
  intros Hc.
  destruct (write_fulls sp d f [] (w_init []) Hc eq_refl eq_refl (fun _ => eq_refl)) as [st' [[R1 R2] [_ [_ [Him [_ Hu]]]]]].
  unfold run_writer. destruct (wrun sp (w_init []) (fops d f)) as [st rs]. cbn [fst snd] in *. subst st'.
  split; [exact R2|]. unfold image in Him. rewrite (Hu eq_refl), app_nil_r in Him. exact Him.
Qed.

Lemma fconf_wconf sp t ids : fconf sp true ids t -> all_known t -> wconf sp true ids t.
Proof.
  destruct t as [id v pl sl|id sz cs]; intros H Hk; [exact H|]. destruct H as [Hp [Hty [Hsz [Hcs _]]]].
  apply wconf_node. split; [exact Hp|]. split; [exact Hty|]. split; [exact Hsz|exact Hcs].
Qed.

Theorem full_equals_separate sp f : Forall (fconf sp true []) f -> Forall all_known f ->
  snd (run_writer sp (fops true f) []) = snd (run_writer sp (wops_forest true f) []).
Proof.
  intros Hc Hk. destruct (full_encodes sp true f Hc) as [_ ->].
  assert (Hw : Forall (wconf sp true []) f).
  { rewrite Forall_forall in *. intros t Hin. apply fconf_wconf; [apply Hc, Hin|apply Hk, Hin]. }
  destruct (writer_encodes sp true f Hw) as [_ ->]. reflexivity.
Qed.

(* ------------------------------------------------------------------ the round trip with Full items *)
Lemma fconf_conf c d t ids : fconf (c_sp c) d ids t -> rconf c t -> conf c ids t.
Proof.
  destruct t as [id v pl sl|id sz cs]; intros Hf Hr; [apply (wconf_conf c d); assumption|].
  destruct Hf as [Hpath [Hty [Hsz [Hcs _]]]]. apply rconf_node in Hr. destruct Hr as [Hid [Hmax Hrs]]. apply conf_node.
  split; [exact Hid|]. split; [intros sl Hsl; destruct (Hsz sl Hsl) as [H1 [H2 _]]; split; assumption|].
  split; [exact Hty|]. split; [exact Hpath|]. split; [exact Hmax|].
  rewrite Forall_forall in *. intros x Hin. apply (wconf_conf c true); [apply Hcs, Hin|apply Hrs, Hin].
Qed.

Lemma flat_full_tag : forall t, flat [full_tag t] = tags_tree t.
Proof.
  induction t as [id v pl sl|id sz cs IH] using rtree_ind'; [reflexivity|].
  rewrite full_tag_node, tags_tree_node. unfold flat. cbn [flat_map]. rewrite app_nil_r, flat1_full. f_equal. f_equal.
  induction cs as [|x l IHl]; [reflexivity|]. apply Forall_cons_iff in IH. destruct IH as [Hx Hl].
  cbn [map tags_forest]. rewrite flat_cons, (IHl Hl). specialize Hx. unfold flat in Hx. cbn [flat_map] in Hx. rewrite app_nil_r in Hx. rewrite Hx. reflexivity.
Qed.

Lemma flat_full_tags : forall l, flat (map full_tag l) = tags_forest l.
Proof.
  induction l as [|x l IH]; [reflexivity|]. cbn [map tags_forest]. rewrite flat_cons, IH.
  pose proof (flat_full_tag x) as Hx. unfold flat in Hx. cbn [flat_map] in Hx. rewrite app_nil_r in Hx. rewrite Hx. reflexivity.
Qed.

(* C01 with masters given as Full: every call succeeds and the strict reader yields the Full items unrolled into Start,
   children, End *)
Theorem full_write_read_roundtrip c d f : strict c -> c_buffered c = [] -> c_emit_eof c = true ->
  Forall (fconf (c_sp c) d []) f -> Forall (rconf c) f ->
  Forall (fun r => fst r = WOk) (fst (run_writer (c_sp c) (fops d f) [])) /\
  map out_tag (p_run c (snd (run_writer (c_sp c) (fops d f) [])) [RAll]) = map Some (flat (map full_tag f)) ++ [None].
Proof.
  intros Hs Hb He Hw Hr. destruct (full_encodes (c_sp c) d f Hw) as [Hok Henc]. split; [exact Hok|].
  rewrite Henc, flat_full_tags. apply reader_roundtrip_tags; try assumption.
  rewrite Forall_forall in *. intros t Hin. apply (fconf_conf c d t []); [apply Hw, Hin|apply Hr, Hin].
Qed.
