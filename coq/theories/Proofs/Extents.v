(* C06, byte ranges: with oversized children not tolerated and nothing buffered,
   (1) the cursor never runs past the end of an open known-size master ([contained]), the declared ranges of the open
       known-size masters are nested along the stack ([nested]) and every open master's content starts at or before the
       cursor ([started]); the three hold in the initial state and are preserved by next() and by every successful
       try_recover() (which enlarges every open known-size master by exactly the skipped distance).  A try_recover() that
       fails has run to the end of the input without finding a tag and without enlarging anything: from then on only
       [started], [nested] and "no input is left" hold.
   (2) every successfully read tag lies inside the range of every open known-size master, and the declared range of a
       known-size master Start lies inside them too (this is what the oversize check tests);
   (3) the Ends that read_next queues before it reads a tag belong to masters whose range ends exactly at the cursor, and
       every open known-size master whose range ends at the cursor is among them; the Ends queued because of the element
       just read (count_ended) all belong to unknown-size masters;
   (4) run level: an independent checker [chk_ext] over the yielded (tag, offset) items and the input bytes - it decodes the
       header at each item's offset, keeps the open masters with the ends of their declared ranges and the cursor, and tests
       (2) and (3) - accepts the items every run yields before its first error or try_recover call. *)
From Ebml Require Import Base Tools Spec Reader Pure Proofs.Tactics Proofs.ReaderIO Proofs.Refine Proofs.PureProofs
  Proofs.RoundTrip Proofs.Nesting Proofs.BufferSim Proofs.Tiling.

Arguments vint_len : simpl never.
Arguments read_vint : simpl never.

(* ------------------------------------------------------------------ ranges of frames *)
(* [within hi f]: the offset [hi] is not past the end of the declared range of [f] (no constraint for an unknown size) *)
Definition within (hi : N) (f : frame) : Prop :=
  match f_size f with SKnown n => hi <= f_data f + n | SUnknown => True end.

Definition started_stk (off : N) (stk : list frame) : Prop := Forall (fun f => f_data f <= off) stk.

(* innermost first: the range of each known-size frame ends no later than the range of every known-size frame below it *)
Fixpoint nested_stk (stk : list frame) : Prop :=
  match stk with
  | [] => True
  | f :: tl => (forall n, f_size f = SKnown n -> Forall (within (f_data f + n)) tl) /\ nested_stk tl
  end.

Definition contained (st : pst) : Prop := Forall (within (b_off st)) (b_stack st).
Definition started (st : pst) : Prop := started_stk (b_off st) (b_stack st).
Definition nested (st : pst) : Prop := nested_stk (b_stack st).

(* the frames of implied ancestors *)
Definition blank (f : frame) : Prop := f_size f = SUnknown /\ f_data f = 0.

Definition ksize (e : esize) : N := match e with SKnown n => n | SUnknown => 0 end.

Lemma within_le lo hi f : lo <= hi -> within hi f -> within lo f.
Proof. unfold within. destruct (f_size f); [lia|auto]. Qed.

Lemma within_blank hi f : blank f -> within hi f.
Proof. intros [H _]. unfold within. rewrite H. exact I. Qed.

Lemma Forall_within_le lo hi stk : lo <= hi -> Forall (within hi) stk -> Forall (within lo) stk.
Proof. intros Hle H. eapply Forall_impl; [|exact H]. intros f. apply within_le, Hle. Qed.

Lemma Forall_within_blank hi stk : Forall blank stk -> Forall (within hi) stk.
Proof. intros H. eapply Forall_impl; [|exact H]. intros f. apply within_blank. Qed.

Lemma started_stk_mono off off' stk : off <= off' -> started_stk off stk -> started_stk off' stk.
Proof. intros Hle H. eapply Forall_impl; [|exact H]. cbv beta. intros f Hf. lia. Qed.

Lemma started_stk_blank off stk : Forall blank stk -> started_stk off stk.
Proof. intros H. eapply Forall_impl; [|exact H]. intros f [_ Hd]. rewrite Hd. lia. Qed.

Lemma nested_stk_blank stk : Forall blank stk -> nested_stk stk.
Proof.
  induction stk as [|f tl IH]; intros H; [exact I|]. apply Forall_cons_iff in H. destruct H as [[Hf _] Ht].
  cbn [nested_stk]. split; [|apply IH, Ht]. intros n Hn. rewrite Hf in Hn. discriminate.
Qed.

Lemma nested_stk_app_blank stk extra : nested_stk stk -> Forall blank extra -> nested_stk (stk ++ extra).
Proof.
  intros H He. induction stk as [|f tl IH]; cbn [app]; [apply nested_stk_blank, He|].
  cbn [nested_stk] in *. destruct H as [Hf Ht]. split; [|apply IH, Ht].
  intros n Hn. apply Forall_app. split; [apply Hf, Hn|apply Forall_within_blank, He].
Qed.

Lemma nested_stk_skipn : forall k stk, nested_stk stk -> nested_stk (skipn k stk).
Proof.
  induction k as [|k IH]; intros stk H; [exact H|]. destruct stk as [|f tl]; [exact H|].
  cbn [skipn]. apply IH. cbn [nested_stk] in H. apply H.
Qed.

(* ------------------------------------------------------------------ grow_frames *)
Definition grow1 (d : N) (f : frame) : frame :=
  match f_size f with
  | SKnown n => {| f_id := f_id f; f_size := SKnown (n + d); f_start := f_start f; f_data := f_data f |}
  | SUnknown => f
  end.

Lemma grow_frames_map d stk : grow_frames d stk = map (grow1 d) stk.
Proof. reflexivity. Qed.

Lemma grow1_data d f : f_data (grow1 d f) = f_data f.
Proof. unfold grow1. destruct (f_size f); reflexivity. Qed.

(* enlarging a frame by [d] moves the end of its range by exactly [d] *)
Lemma within_grow hi d f : within hi f -> within (hi + d) (grow1 d f).
Proof.
  unfold within, grow1. destruct (f_size f) as [n|] eqn:E; cbn [f_size f_data]; [lia|]. rewrite E. auto.
Qed.

Lemma contained_grow off d stk : Forall (within off) stk -> Forall (within (off + d)) (grow_frames d stk).
Proof.
  intros H. rewrite grow_frames_map. apply Forall_map. eapply Forall_impl; [|exact H]. intros f. apply within_grow.
Qed.

Lemma started_grow off d stk : started_stk off stk -> started_stk off (grow_frames d stk).
Proof.
  intros H. rewrite grow_frames_map. unfold started_stk. apply Forall_map. eapply Forall_impl; [|exact H].
  cbv beta. intros f Hf. rewrite grow1_data. exact Hf.
Qed.

Lemma nested_grow d stk : nested_stk stk -> nested_stk (grow_frames d stk).
Proof.
  rewrite grow_frames_map. induction stk as [|f tl IH]; intros H; [exact I|].
  cbn [map nested_stk] in *. destruct H as [Hf Ht]. split; [|apply IH, Ht].
  intros n' Hn'. unfold grow1 in *. destruct (f_size f) as [n|] eqn:E.
  - cbn [f_size f_data] in *. injection Hn' as <-.
    assert (Hq : f_data f + (n + d) = f_data f + n + d) by lia. rewrite Hq.
    apply Forall_map. eapply Forall_impl; [|exact (Hf n eq_refl)]. intros g. apply within_grow.
  - rewrite E in Hn'. discriminate.
Qed.

(* ------------------------------------------------------------------ the stack only gains implied ancestors *)
Definition ext_of (stk stk' : list frame) : Prop := exists extra, stk' = stk ++ extra /\ Forall blank extra.

Lemma ext_refl stk : ext_of stk stk.
Proof. exists []. split; [symmetry; apply app_nil_r|constructor]. Qed.

Lemma ext_trans a b c : ext_of a b -> ext_of b c -> ext_of a c.
Proof.
  intros [x [-> Hx]] [y [-> Hy]]. exists (x ++ y). split; [symmetry; apply app_assoc|]. apply Forall_app. split; assumption.
Qed.

Lemma within_ext hi stk stk' : ext_of stk stk' -> Forall (within hi) stk -> Forall (within hi) stk'.
Proof. intros [x [-> Hx]] H. apply Forall_app. split; [exact H|apply Forall_within_blank, Hx]. Qed.

Lemma started_ext off stk stk' : ext_of stk stk' -> started_stk off stk -> started_stk off stk'.
Proof. intros [x [-> Hx]] H. apply Forall_app. split; [exact H|apply started_stk_blank, Hx]. Qed.

Lemma nested_ext stk stk' : ext_of stk stk' -> nested_stk stk -> nested_stk stk'.
Proof. intros [x [-> Hx]] H. apply nested_stk_app_blank; assumption. Qed.

Lemma implied_stack_blank sp p stk : implied_stack sp p = Some stk -> Forall blank stk.
Proof.
  unfold implied_stack. destruct (forallb _ p); [|discriminate]. intros H. inversion H; subst. clear H.
  apply Forall_rev. induction p as [|x p IH]; [constructor|]. cbn [flat_map]. apply Forall_app. split; [|exact IH].
  destruct x; [constructor; [split; reflexivity|constructor]|constructor].
Qed.

Lemma p_hier_step_ext c st id ty : ext_of (b_stack st) (b_stack (fst (p_hier_step c st id ty))).
Proof.
  unfold p_hier_step. destruct (negb _ && _); [|apply ext_refl].
  destruct (b_det st) eqn:Ed; [destruct (_ && _); apply ext_refl|].
  destruct (all_ids _); [|destruct (_ && _); apply ext_refl].
  destruct (implied_stack _ _) as [stk|] eqn:Ei.
  - assert (H : ext_of (b_stack st) (b_stack (pset_stack st (b_stack st ++ stk) true))).
    { exists stk. split; [reflexivity|eapply implied_stack_blank, Ei]. }
    destruct (_ && _); exact H.
  - apply ext_refl.
Qed.

Lemma p_header_ext c st : ext_of (b_stack st) (b_stack (fst (p_header c st))).
Proof.
  rewrite p_header_unfold. destruct (p_tag_id st) as [[id idl]|e|]; try apply ext_refl.
  unfold p_hdr_tail. destruct (read_vint _) as [[[size sl]|]|e1|]; try apply ext_refl.
  destruct (is_numeric _ && _); [apply ext_refl|]. destruct (negb (c_allow_id c) && _); [apply ext_refl|].
  pose proof (p_hier_step_ext c st id (get_type (c_sp c) id)) as Hq.
  destruct (p_hier_step _ _ _ _) as [st1 [e1|]]; cbn [fst] in *; [exact Hq|].
  destruct (b_bad st1); [exact Hq|]. destruct (_ && _); [exact Hq|].
  destruct (c_max c); destruct (ebml_size size sl); try destruct (_ <? _); exact Hq.
Qed.

(* ------------------------------------------------------------------ the oversize check *)
Lemma invalid_size_within st size : p_invalid_tag_size st size = false <-> Forall (within (b_off st + size)) (b_stack st).
Proof.
  unfold p_invalid_tag_size. induction (b_stack st) as [|f tl IH]; cbn [existsb].
  - split; [constructor|reflexivity].
  - rewrite orb_false_iff, Forall_cons_iff, IH. apply and_iff_compat_r. unfold within.
    destruct (f_size f) as [n|]; [|tauto].
    destruct (N.ltb_spec (f_data f + n) (b_off st + size)) as [Hlt|Hge].
    + split; [discriminate|lia].
    + split; [intros _; exact Hge|reflexivity].
Qed.

(* a header is accepted only if header and declared payload fit into every open known-size master *)
Lemma p_header_fits c st st1 id ty esz hl : c_allow_over c = false -> p_header c st = (st1, Ok (id, ty, esz, hl)) ->
  Forall (within (b_off st + N.of_nat hl + ksize esz)) (b_stack st1).
Proof.
  intros Hov. rewrite p_header_unfold. destruct (p_tag_id st) as [[id0 idl]|e0|]; try discriminate.
  unfold p_hdr_tail. destruct (read_vint _) as [[[size sl]|]|e1|]; try discriminate.
  destruct (is_numeric _ && _); [discriminate|]. destruct (negb (c_allow_id c) && _); [discriminate|].
  destruct (p_hier_step_pos c st id0 (get_type (c_sp c) id0)) as [_ Ho].
  destruct (p_hier_step _ _ _ _) as [st2 [e1|]]; [discriminate|]. cbn [fst] in Ho. destruct (b_bad st2); [discriminate|].
  rewrite Hov. cbn [negb andb]. remember (ebml_size size sl) as esz0 eqn:Eesz.
  destruct (p_invalid_tag_size st2 _) eqn:Einv; [discriminate|].
  intros H. assert (E : (st2, esz0, (idl + sl)%nat) = (st1, esz, hl)).
  { destruct (c_max c); destruct esz0; try destruct (_ <? _); try discriminate; inversion H; reflexivity. }
  injection E as <- <- <-. apply invalid_size_within in Einv. rewrite Ho in Einv.
  unfold ksize. rewrite <- N.add_assoc. exact Einv.
Qed.

(* the cursor after read_tag: past the header, and not past the declared payload *)
Lemma p_tag_tail_bound c st ts id ty esz hl st' r : p_tag_tail c st ts (id, ty, esz, hl) = (st', r) ->
  b_off st + N.of_nat hl <= b_off st' /\ b_off st' <= b_off st + N.of_nat hl + ksize esz.
Proof.
  unfold p_tag_tail.
  assert (Fin : forall s r0, b_off st + N.of_nat hl <= b_off s /\ b_off s <= b_off st + N.of_nat hl + ksize esz ->
            (s, r0) = (st', r) -> b_off st + N.of_nat hl <= b_off st' /\ b_off st' <= b_off st + N.of_nat hl + ksize esz).
  { intros s r0 Hs Hq. inversion Hq; subst. exact Hs. }
  assert (A : b_off st + N.of_nat hl <= b_off (pconsume st (N.of_nat hl)) /\
              b_off (pconsume st (N.of_nat hl)) <= b_off st + N.of_nat hl + ksize esz) by (cbn [pconsume b_off]; lia).
  destruct ty as [[]|]; try (apply Fin; exact A);
    (destruct esz as [size|]; [|apply Fin; exact A]); (destruct (_ <? size); [apply Fin; exact A|]);
    assert (B : b_off st + N.of_nat hl <= b_off (pconsume (pconsume st (N.of_nat hl)) size) /\
                b_off (pconsume (pconsume st (N.of_nat hl)) size) <= b_off st + N.of_nat hl + ksize (SKnown size))
      by (cbn [pconsume b_off ksize]; lia).
  - destruct (arr_to_u64 _); apply Fin; exact B.
  - destruct (arr_to_i64 _); apply Fin; exact B.
  - destruct (utf8_valid _); apply Fin; exact B.
  - apply Fin; exact B.
  - destruct (arr_to_f64 _); apply Fin; exact B.
  - apply Fin; exact B.
Qed.

(* read_tag, whatever its outcome: the cursor moves forward, the stack only gains implied ancestors, the cursor stays inside
   the open known-size masters, and a tag that was read lies inside them together with its declared range *)
Lemma p_read_tag_ext c st st' r : c_allow_over c = false -> p_read_tag c st = (st', r) ->
  b_off st <= b_off st' /\ ext_of (b_stack st) (b_stack st') /\ (contained st -> contained st') /\
  (forall p, r = Ok p -> Forall (within (p_data p + ksize (p_size p))) (b_stack st')).
Proof.
  intros Hov. rewrite p_read_tag_unfold.
  pose proof (p_header_ext c st) as Hx. destruct (p_header_pos c st) as [_ Ho].
  destruct (p_header c st) as [st1 [[[[id ty] esz] hl]|e|]] eqn:Eh; cbn [fst] in *.
  - intros Ht. pose proof (p_header_fits _ _ _ _ _ _ _ Hov Eh) as Hf.
    destruct (p_tag_tail_facts _ _ _ _ _ _ _ _ _ Ht) as [A _].
    destruct (p_tag_tail_bound _ _ _ _ _ _ _ _ _ Ht) as [B1 B2].
    split; [lia|]. split; [rewrite A; exact Hx|]. split.
    + intros _. unfold contained. rewrite A. eapply Forall_within_le; [|exact Hf]. lia.
    + intros p ->. destruct (p_tag_tail_size _ _ _ _ _ _ _ _ _ Ht) as [S1 S2]. rewrite A, S1, S2, Ho. exact Hf.
  - intros H. injection H as <- <-. split; [lia|]. split; [exact Hx|]. split; [|discriminate].
    unfold contained. rewrite Ho. apply within_ext, Hx.
  - intros H. injection H as <- <-. split; [lia|]. split; [exact Hx|]. split; [|discriminate].
    unfold contained. rewrite Ho. apply within_ext, Hx.
Qed.

(* ------------------------------------------------------------------ steps that keep the three properties *)
Definition step_ok (st st' : pst) : Prop :=
  b_off st <= b_off st' /\ (started st -> started st') /\ (nested st -> nested st') /\ (contained st -> contained st').

Lemma step_ok_refl st : step_ok st st.
Proof. split; [lia|]. split; [auto|]. split; auto. Qed.

Lemma step_ok_trans a b c : step_ok a b -> step_ok b c -> step_ok a c.
Proof.
  intros [A1 [A2 [A3 A4]]] [B1 [B2 [B3 B4]]]. split; [lia|]. split; [auto|]. split; auto.
Qed.

(* same cursor, a suffix of the stack *)
Lemma step_ok_sub st st' k : b_off st' = b_off st -> b_stack st' = skipn k (b_stack st) -> step_ok st st'.
Proof.
  intros Ho Hs. unfold step_ok, started, nested, contained, started_stk. rewrite Ho, Hs.
  split; [lia|]. split; [apply forall_skipn|]. split; [apply nested_stk_skipn|apply forall_skipn].
Qed.

Lemma step_ok_same st st' : b_off st' = b_off st -> b_stack st' = b_stack st -> step_ok st st'.
Proof. intros Ho Hs. apply (step_ok_sub st st' 0); [exact Ho|exact Hs]. Qed.

Lemma step_ok_pop st k : step_ok st (ppop_frames st k).
Proof. apply (step_ok_sub _ _ k); reflexivity. Qed.

Lemma p_read_tag_step c st : c_allow_over c = false -> step_ok st (fst (p_read_tag c st)).
Proof.
  intros Hov. destruct (p_read_tag c st) as [st' r] eqn:Er. cbn [fst].
  destruct (p_read_tag_ext _ _ _ _ Hov Er) as [Ho [Hx [Hc _]]].
  split; [exact Ho|]. split; [|split; [|exact Hc]].
  - intros H. unfold started in *. eapply started_ext; [exact Hx|]. eapply started_stk_mono; [exact Ho|exact H].
  - intros H. unfold nested in *. eapply nested_ext; [exact Hx|exact H].
Qed.

(* opening a master whose content starts at the cursor and whose declared range fits into the open known-size masters *)
Lemma step_ok_push st fr : f_data fr = b_off st ->
  (forall n, f_size fr = SKnown n -> Forall (within (f_data fr + n)) (b_stack st)) ->
  step_ok st (pset_stack st (fr :: b_stack st) (b_det st)).
Proof.
  intros Hd Hf. unfold step_ok, started, nested, contained, started_stk. cbn [pset_stack b_off b_stack nested_stk].
  split; [lia|]. split; [|split].
  - intros H. constructor; [lia|exact H].
  - intros H. split; [exact Hf|exact H].
  - intros H. constructor; [|exact H]. unfold within. destruct (f_size fr); [lia|exact I].
Qed.

(* ------------------------------------------------------------------ read_next / next *)
Lemma p_read_next_step c : c_allow_over c = false -> c_buffered c = [] -> forall fuel st,
  step_ok st (p_read_next fuel c st).
Proof.
  intros Hov Hbuf. destruct fuel as [|f]; intros st.
  - cbn [p_read_next]. apply step_ok_same; reflexivity.
  - rewrite p_read_next_unfold. cbn zeta.
    set (st1 := ppop_frames st _). assert (H1 : step_ok st st1) by apply step_ok_pop.
    unfold p_read_tag_checked. destruct (b_bytes st1) as [|b0 bl] eqn:Eb.
    + destruct (c_emit_eof c); [|exact H1]. eapply step_ok_trans; [exact H1|apply step_ok_pop].
    + pose proof (p_read_tag_step c st1 Hov) as H2.
      destruct (p_read_tag c st1) as [st2 r2] eqn:Er. cbn [fst] in H2.
      assert (H12 : step_ok st st2) by (eapply step_ok_trans; eassumption).
      destruct r2 as [p|e|].
      * destruct (p_read_tag_ext _ _ _ _ Hov Er) as [_ [_ [_ Hfit]]]. specialize (Hfit p eq_refl).
        destruct (p_read_tag_mirrors _ _ _ _ Er) as [_ [idl [hl [payload [_ [_ [_ [_ [Hd [Ho Hm]]]]]]]]]].
        set (st3 := ppop_frames st2 _).
        assert (H3 : step_ok st st3) by (eapply step_ok_trans; [exact H12|apply step_ok_pop]).
        destruct (p_tag p) as [id v|id|id|id cs] eqn:Ep; try contradiction; cbn [tag_id].
        -- eapply step_ok_trans; [exact H3|]. apply step_ok_same; reflexivity.
        -- rewrite Hbuf. cbn [mem_id existsb]. destruct Hm as [_ ->]. cbn [length] in Ho.
           eapply step_ok_trans; [exact H3|]. eapply step_ok_trans; [|apply step_ok_same; reflexivity].
           apply (step_ok_push st3 {| f_id := id; f_size := p_size p; f_start := p_start p; f_data := p_data p |}).
           ++ cbn [f_data]. change (b_off st3) with (b_off st2). lia.
           ++ cbn [f_size f_data]. intros m Hm. change (b_stack st3) with (skipn (count_ended (c_sp c) id (stack_view (b_stack st2))) (b_stack st2)).
              apply forall_skipn. rewrite Hm in Hfit. exact Hfit.
      * eapply step_ok_trans; [exact H12|]. apply step_ok_same; reflexivity.
      * eapply step_ok_trans; [exact H12|]. apply step_ok_same; reflexivity.
Qed.

Lemma p_next_step c st : c_allow_over c = false -> c_buffered c = [] -> step_ok st (fst (p_next c st)).
Proof.
  intros Hov Hbuf. unfold p_next.
  assert (H1 : step_ok st (match b_queue st with [] => p_read_next (b_fuel st) c st | _ :: _ => st end)).
  { destruct (b_queue st); [apply p_read_next_step; assumption|apply step_ok_refl]. }
  set (st1 := match b_queue st with [] => _ | _ => _ end) in *.
  destruct (b_queue st1) as [|[t o|e] q]; cbn [fst]; [exact H1| |];
    (eapply step_ok_trans; [exact H1|]; apply step_ok_same; reflexivity).
Qed.

(* once the input is used up nothing is consumed any more *)
Lemma p_read_next_dead c fuel st : b_bytes st = [] -> b_bytes (p_read_next fuel c st) = [].
Proof.
  intros E. destruct fuel as [|f]; [exact E|]. rewrite p_read_next_unfold. cbn zeta.
  set (st1 := ppop_frames st _). unfold p_read_tag_checked. change (b_bytes st1) with (b_bytes st). rewrite E.
  destruct (c_emit_eof c); exact E.
Qed.

Lemma p_next_dead c st : b_bytes st = [] -> b_bytes (fst (p_next c st)) = [].
Proof.
  intros E. unfold p_next.
  assert (H1 : b_bytes (match b_queue st with [] => p_read_next (b_fuel st) c st | _ :: _ => st end) = []).
  { destruct (b_queue st); [apply p_read_next_dead, E|exact E]. }
  set (st1 := match b_queue st with [] => _ | _ => _ end) in *.
  destruct (b_queue st1) as [|[t o|e] q]; exact H1.
Qed.

(* ------------------------------------------------------------------ try_recover *)
Lemma p_recover_loop_facts c : forall fuel st,
  b_off st <= b_off (fst (p_recover_loop fuel c st)) /\
  ext_of (b_stack st) (b_stack (fst (p_recover_loop fuel c st))) /\
  (b_bytes st = [] -> b_bytes (fst (p_recover_loop fuel c st)) = []) /\
  (forall e, snd (p_recover_loop fuel c st) = Some e -> b_bytes (fst (p_recover_loop fuel c st)) = []).
Proof.
  induction fuel as [|f IH]; intros st; cbn [p_recover_loop].
  - cbn [fst snd pset_bad b_off b_stack b_bytes]. split; [lia|]. split; [apply ext_refl|]. split; [auto|discriminate].
  - destruct (b_bytes st) as [|b0 tl] eqn:Eb.
    + cbn [fst snd]. split; [lia|]. split; [apply ext_refl|]. split; [intros _; exact Eb|intros _ _; exact Eb].
    + destruct (p_header_pos c (pconsume st 1)) as [_ Ho]. pose proof (p_header_ext c (pconsume st 1)) as Hx.
      destruct (p_header c (pconsume st 1)) as [st2 [h|e|]]; cbn [fst snd] in *; cbn [pconsume b_off b_stack] in Ho, Hx.
      * split; [lia|]. split; [exact Hx|]. split; discriminate.
      * destruct (IH st2) as [A [B [_ D]]]. split; [lia|]. split; [eapply ext_trans; eassumption|]. split; [discriminate|exact D].
      * cbn [pset_bad b_off b_stack b_bytes]. split; [lia|]. split; [exact Hx|]. split; discriminate.
Qed.

(* a successful try_recover keeps everything; a failed one has used up the input *)
Lemma p_try_recover_facts c st :
  b_off st <= b_off (fst (p_try_recover c st)) /\
  (started st -> started (fst (p_try_recover c st))) /\
  (nested st -> nested (fst (p_try_recover c st))) /\
  (snd (p_try_recover c st) = None -> contained st -> contained (fst (p_try_recover c st))) /\
  (b_bytes st = [] -> b_bytes (fst (p_try_recover c st)) = []) /\
  (forall e, snd (p_try_recover c st) = Some e -> b_bytes (fst (p_try_recover c st)) = []).
Proof.
  unfold p_try_recover. destruct (p_recover_loop_facts c (b_fuel st) st) as [Ho [Hx [Hb He]]].
  destruct (p_recover_loop (b_fuel st) c st) as [st1 [e|]]; cbn [fst snd] in *.
  - split; [exact Ho|]. split; [|split; [|split; [discriminate|split; [exact Hb|exact He]]]].
    + intros H. unfold started in *. eapply started_ext; [exact Hx|]. eapply started_stk_mono; eassumption.
    + intros H. unfold nested in *. eapply nested_ext; eassumption.
  - unfold started, nested, contained. cbn [pset_stack b_off b_stack b_bytes].
    split; [exact Ho|]. split; [|split; [|split; [|split; [exact Hb|discriminate]]]].
    + intros H. apply started_grow. eapply started_ext; [exact Hx|]. eapply started_stk_mono; eassumption.
    + intros H. apply nested_grow. eapply nested_ext; eassumption.
    + intros _ H. apply (Forall_within_le _ (b_off st + (b_off st1 - b_off st))); [lia|].
      apply contained_grow. eapply within_ext; eassumption.
Qed.

(* ------------------------------------------------------------------ the invariants *)
(* [CInv]: the state of a reader none of whose try_recover calls has failed; [WInv]: the state of any reader *)
Definition CInv (st : pst) : Prop := started st /\ nested st /\ contained st.
Definition WInv (st : pst) : Prop := started st /\ nested st /\ (contained st \/ b_bytes st = []).

Lemma CInv_W st : CInv st -> WInv st.
Proof. intros [A [B C]]. split; [exact A|]. split; [exact B|left; exact C]. Qed.

Lemma WInv_C st : WInv st -> b_bytes st <> [] -> CInv st.
Proof. intros [A [B [C|C]]] H; [|contradiction]. split; [exact A|]. split; assumption. Qed.

Lemma CInv_init input : CInv (p_init input).
Proof. split; [constructor|]. split; [exact I|constructor]. Qed.

Lemma p_next_C c st : c_allow_over c = false -> c_buffered c = [] -> CInv st -> CInv (fst (p_next c st)).
Proof.
  intros Hov Hbuf [A [B C]]. destruct (p_next_step c st Hov Hbuf) as [_ [SA [SB SC]]].
  split; [apply SA, A|]. split; [apply SB, B|apply SC, C].
Qed.

Lemma p_next_W c st : c_allow_over c = false -> c_buffered c = [] -> WInv st -> WInv (fst (p_next c st)).
Proof.
  intros Hov Hbuf [A [B C]]. destruct (p_next_step c st Hov Hbuf) as [_ [SA [SB SC]]].
  split; [apply SA, A|]. split; [apply SB, B|]. destruct C as [C|C]; [left; apply SC, C|right; apply p_next_dead, C].
Qed.

Lemma p_try_recover_C c st : CInv st -> snd (p_try_recover c st) = None -> CInv (fst (p_try_recover c st)).
Proof.
  intros [A [B C]] Hr. destruct (p_try_recover_facts c st) as [_ [SA [SB [SC _]]]].
  split; [apply SA, A|]. split; [apply SB, B|apply SC; assumption].
Qed.

Lemma p_try_recover_W c st : WInv st -> WInv (fst (p_try_recover c st)).
Proof.
  intros [A [B C]]. destruct (p_try_recover_facts c st) as [_ [SA [SB [SC [SD SE]]]]].
  split; [apply SA, A|]. split; [apply SB, B|].
  destruct (snd (p_try_recover c st)) as [e|] eqn:Er; [right; apply (SE e eq_refl)|].
  destruct C as [C|C]; [left; apply SC; [reflexivity|exact C]|right; apply SD, C].
Qed.

(* ------------------------------------------------------------------ runs *)
Definition rec_failed (o : rout) : bool := match o with ORecErr _ => true | _ => false end.

Section ExtRuns.
Variable c : cfg.
Hypothesis Hov : c_allow_over c = false.
Hypothesis Hbuf : c_buffered c = [].

Lemma p_run_all_pres (P : pst -> Prop) : (forall st, P st -> P (fst (p_next c st))) ->
  forall limit st, P st -> P (fst (p_run_all limit c st)).
Proof.
  intros Hn. induction limit as [|l IH]; intros st HP; cbn [p_run_all]; [exact HP|].
  pose proof (Hn st HP) as H1. destruct (p_next c st) as [st1 r]. cbn [fst] in H1.
  destruct (b_bad st1); [exact H1|]. destruct r as [t o|e|]; [|exact H1|exact H1].
  specialize (IH st1 H1). destruct (p_run_all l c st1) as [st2 outs]. exact IH.
Qed.

Lemma p_run_all_no_rec : forall limit st, existsb rec_failed (snd (p_run_all limit c st)) = false.
Proof.
  induction limit as [|l IH]; intros st; cbn [p_run_all]; [reflexivity|].
  destruct (p_next c st) as [st1 r]. destruct (b_bad st1) as [b|]; [destruct b; reflexivity|].
  destruct r as [t o|e|]; [|reflexivity|reflexivity].
  specialize (IH st1). destruct (p_run_all l c st1) as [st2 outs]. cbn [snd existsb rec_failed orb] in *. exact IH.
Qed.

Lemma p_run_ops_W limit : forall ops st, WInv st -> WInv (fst (p_run_ops c limit st ops)).
Proof.
  induction ops as [|op ops IH]; intros st HW; cbn [p_run_ops]; [exact HW|]. destruct op.
  - pose proof (p_next_W c st Hov Hbuf HW) as H1. destruct (p_next c st) as [st1 r]. cbn [fst] in H1.
    destruct (b_bad st1); [exact H1|]. specialize (IH st1 H1). destruct (p_run_ops c limit st1 ops) as [st2 outs]. exact IH.
  - pose proof (p_try_recover_W c st HW) as H1. destruct (p_try_recover c st) as [st1 r]. cbn [fst] in H1.
    destruct (b_bad st1); [exact H1|]. specialize (IH st1 H1). destruct (p_run_ops c limit st1 ops) as [st2 outs]. exact IH.
  - pose proof (p_run_all_pres WInv (fun s => p_next_W c s Hov Hbuf) limit st HW) as H1.
    destruct (p_run_all limit c st) as [st1 outs1]. cbn [fst] in H1.
    destruct (b_bad st1); [exact H1|]. specialize (IH st1 H1). destruct (p_run_ops c limit st1 ops) as [st2 outs]. exact IH.
Qed.

(* as long as no try_recover call has failed *)
Lemma p_run_ops_C limit : forall ops st, CInv st ->
  existsb rec_failed (snd (p_run_ops c limit st ops)) = false -> b_bad (fst (p_run_ops c limit st ops)) = None ->
  CInv (fst (p_run_ops c limit st ops)).
Proof.
  induction ops as [|op ops IH]; intros st HC; cbn [p_run_ops]; [intros _ _; exact HC|]. destruct op.
  - pose proof (p_next_C c st Hov Hbuf HC) as H1. destruct (p_next c st) as [st1 r]. cbn [fst] in H1.
    destruct (b_bad st1) eqn:Eb; [cbn [fst]; intros _ Hq; rewrite Eb in Hq; discriminate|].
    specialize (IH st1 H1). destruct (p_run_ops c limit st1 ops) as [st2 outs]. cbn [fst snd existsb] in *.
    intros Hq. apply orb_false_iff in Hq. apply IH, Hq.
  - pose proof (p_try_recover_C c st HC) as H1. destruct (p_try_recover c st) as [st1 r]. cbn [fst snd] in H1.
    destruct (b_bad st1) eqn:Eb; [cbn [fst]; intros _ Hq; rewrite Eb in Hq; discriminate|].
    specialize (IH st1). destruct (p_run_ops c limit st1 ops) as [st2 outs]. cbn [fst snd existsb] in *.
    intros Hq. apply orb_false_iff in Hq. destruct Hq as [Hr Hq]. destruct r as [e|]; [discriminate Hr|].
    apply IH; [apply H1; reflexivity|exact Hq].
  - pose proof (p_run_all_pres CInv (fun s => p_next_C c s Hov Hbuf) limit st HC) as H1.
    pose proof (p_run_all_no_rec limit st) as Hn.
    destruct (p_run_all limit c st) as [st1 outs1]. cbn [fst snd] in H1, Hn.
    destruct (b_bad st1) eqn:Eb; [cbn [fst]; intros _ Hq; rewrite Eb in Hq; discriminate|].
    specialize (IH st1 H1). destruct (p_run_ops c limit st1 ops) as [st2 outs]. cbn [fst snd] in *.
    rewrite existsb_app, Hn. cbn [orb]. exact IH.
Qed.

End ExtRuns.

(* the states a reader can be in: everything next() and try_recover() can make of the initial state *)
Inductive Reach (c : cfg) (input : list N) : pst -> Prop :=
| Reach_init : Reach c input (p_init input)
| Reach_next st : Reach c input st -> Reach c input (fst (p_next c st))
| Reach_recover st : Reach c input st -> Reach c input (fst (p_try_recover c st)).

Lemma p_run_ops_reach c input limit : forall ops st, Reach c input st -> Reach c input (fst (p_run_ops c limit st ops)).
Proof.
  assert (HA : forall st, Reach c input st -> Reach c input (fst (p_run_all limit c st))).
  { intros st. apply (p_run_all_pres c (Reach c input)). intros s. apply Reach_next. }
  induction ops as [|op ops IH]; intros st HR; cbn [p_run_ops]; [exact HR|]. destruct op.
  - pose proof (Reach_next _ _ _ HR) as H1. destruct (p_next c st) as [st1 r]. cbn [fst] in H1.
    destruct (b_bad st1); [exact H1|]. specialize (IH st1 H1). destruct (p_run_ops c limit st1 ops) as [st2 outs]. exact IH.
  - pose proof (Reach_recover _ _ _ HR) as H1. destruct (p_try_recover c st) as [st1 r]. cbn [fst] in H1.
    destruct (b_bad st1); [exact H1|]. specialize (IH st1 H1). destruct (p_run_ops c limit st1 ops) as [st2 outs]. exact IH.
  - pose proof (HA st HR) as H1. destruct (p_run_all limit c st) as [st1 outs1]. cbn [fst] in H1.
    destruct (b_bad st1); [exact H1|]. specialize (IH st1 H1). destruct (p_run_ops c limit st1 ops) as [st2 outs]. exact IH.
Qed.

(* ================================================================== Theorem 1 *)
Theorem reach_invariant c input st : c_allow_over c = false -> c_buffered c = [] -> Reach c input st -> WInv st.
Proof.
  intros Hov Hbuf. induction 1 as [|st _ IH|st _ IH].
  - apply CInv_W, CInv_init.
  - apply p_next_W; assumption.
  - apply p_try_recover_W; assumption.
Qed.

(* the state a run ends in (and so, every state it passes through: the runs of the prefixes of [ops]) *)
Theorem run_invariant c input ops : c_allow_over c = false -> c_buffered c = [] ->
  WInv (fst (p_run_ops c (4 * length input + 64) (p_init input) ops)).
Proof. intros Hov Hbuf. apply p_run_ops_W; [exact Hov|exact Hbuf|apply CInv_W, CInv_init]. Qed.

(* input left, or no failed try_recover: the cursor is inside every open known-size master *)
Theorem run_contained c input ops : c_allow_over c = false -> c_buffered c = [] ->
  let st := fst (p_run_ops c (4 * length input + 64) (p_init input) ops) in
  (b_bytes st <> [] -> contained st) /\
  (existsb rec_failed (p_run c input ops) = false -> b_bad st = None -> contained st).
Proof.
  intros Hov Hbuf st. split.
  - intros Hb. apply (WInv_C st); [apply run_invariant; assumption|exact Hb].
  - intros Hr Hbad. apply (p_run_ops_C c Hov Hbuf _ ops (p_init input) (CInv_init _) Hr Hbad).
Qed.

(* the same in one statement *)
Theorem run_ranges c input ops : c_allow_over c = false -> c_buffered c = [] ->
  let st := fst (p_run_ops c (4 * length input + 64) (p_init input) ops) in
  started st /\ nested st /\ (b_bytes st <> [] -> contained st) /\
  (existsb rec_failed (p_run c input ops) = false -> b_bad st = None -> contained st).
Proof.
  intros Hov Hbuf st. destruct (run_invariant c input ops Hov Hbuf) as [A [B _]].
  destruct (run_contained c input ops Hov Hbuf) as [C D]. split; [exact A|]. split; [exact B|]. split; [exact C|exact D].
Qed.

Theorem run_reach c input ops : Reach c input (fst (p_run_ops c (4 * length input + 64) (p_init input) ops)).
Proof. apply p_run_ops_reach, Reach_init. Qed.

(* the step form: what each operation does to the three properties *)
Theorem CInv_preserved c st : c_allow_over c = false -> c_buffered c = [] -> CInv st ->
  CInv (fst (p_next c st)) /\
  (snd (p_try_recover c st) = None -> CInv (fst (p_try_recover c st))) /\
  (forall e, snd (p_try_recover c st) = Some e ->
     started (fst (p_try_recover c st)) /\ nested (fst (p_try_recover c st)) /\ b_bytes (fst (p_try_recover c st)) = []).
Proof.
  intros Hov Hbuf HC. split; [apply p_next_C; assumption|]. split; [apply p_try_recover_C, HC|].
  intros e He. destruct HC as [A [B _]]. destruct (p_try_recover_facts c st) as [_ [SA [SB [_ [_ SE]]]]].
  split; [apply SA, A|]. split; [apply SB, B|apply (SE e He)].
Qed.

(* ================================================================== Theorem 2 *)
(* a tag that read_tag accepts: its bytes [p_start, cursor) and, for a master of known size, its whole declared range lie
   inside the range of every open known-size master; no hypothesis on the cursor is needed for this *)
Theorem tag_inside c st st' p : c_allow_over c = false -> started st -> p_read_tag c st = (st', Ok p) ->
  p_start p = b_off st /\ p_start p <= p_data p /\ b_off st' <= p_data p + ksize (p_size p) /\
  (forall id, p_tag p = TStart id -> b_off st' = p_data p) /\
  (forall id v, p_tag p = TElem id v -> exists m, p_size p = SKnown m /\ b_off st' = p_data p + m) /\
  ext_of (b_stack st) (b_stack st') /\
  forall f n, In f (b_stack st') -> f_size f = SKnown n ->
    f_data f <= p_start p /\ b_off st' <= f_data f + n /\ p_data p + ksize (p_size p) <= f_data f + n.
Proof.
  intros Hov Hst Er. destruct (p_read_tag_ext _ _ _ _ Hov Er) as [_ [Hx [_ Hfit]]]. specialize (Hfit p eq_refl).
  destruct (p_read_tag_mirrors _ _ _ _ Er) as [Hs [idl [hl [payload [_ [_ [_ [_ [Hd [Ho Hm]]]]]]]]]].
  assert (HS : forall id, p_tag p = TStart id -> b_off st' = p_data p).
  { intros id E. rewrite E in Hm. destruct Hm as [_ ->]. cbn [length] in Ho. lia. }
  assert (HE : forall id v, p_tag p = TElem id v -> exists m, p_size p = SKnown m /\ b_off st' = p_data p + m).
  { intros id v E. rewrite E in Hm. destruct Hm as [_ [_ Hsz]]. exists (N.of_nat (length payload)). split; [exact Hsz|lia]. }
  assert (Hle : b_off st' <= p_data p + ksize (p_size p)).
  { destruct (p_tag p) as [id v|id|id|id cs] eqn:Ep; try contradiction.
    - destruct (HE id v eq_refl) as [m [E1 E2]]. rewrite E1, E2. cbn [ksize]. lia.
    - rewrite (HS id eq_refl). lia. }
  split; [exact Hs|]. split; [lia|]. split; [exact Hle|]. split; [exact HS|]. split; [exact HE|]. split; [exact Hx|].
  intros f n Hin Hn.
  assert (Hst' : started_stk (b_off st) (b_stack st')) by (eapply started_ext; eassumption).
  unfold started_stk in Hst'. rewrite Forall_forall in Hst', Hfit.
  pose proof (Hst' f Hin) as H1. pose proof (Hfit f Hin) as H2. unfold within in H2. rewrite Hn in H2.
  split; [lia|]. split; lia.
Qed.

(* ================================================================== Theorem 3 *)
Lemma exh_pos off : forall stk, (0 < exhausted_count off stk)%nat -> exists g, In g stk /\ frame_exhausted off g = true.
Proof.
  induction stk as [|f tl IH]; cbn [exhausted_count]; [intros H; inversion H|].
  destruct (Nat.ltb_spec 0 (exhausted_count off tl)) as [Hp|Hz].
  - intros _. destruct (IH Hp) as [g [Hg He]]. exists g. split; [right; exact Hg|exact He].
  - destruct (frame_exhausted off f) eqn:Ef; [|intros H; inversion H]. intros _. exists f. split; [left; reflexivity|exact Ef].
Qed.

(* the frames popped before a tag is read: with the cursor inside all open known-size masters and nested ranges, every
   known-size one among them ends exactly at the cursor *)
Theorem end_at_exhaustion off : forall stk, Forall (within off) stk -> nested_stk stk ->
  forall f n, In f (firstn (exhausted_count off stk) stk) -> f_size f = SKnown n -> f_data f + n = off.
Proof.
  induction stk as [|f tl IH]; intros Hc Hn g n; cbn [exhausted_count]; [intros []|].
  apply Forall_cons_iff in Hc. destruct Hc as [Hcf Hct]. cbn [nested_stk] in Hn. destruct Hn as [Hnf Hnt].
  destruct (Nat.ltb_spec 0 (exhausted_count off tl)) as [Hp|Hz].
  - cbn [firstn]. intros [<-|Hin] Hg; [|apply (IH Hct Hnt g n Hin Hg)].
    destruct (exh_pos off tl Hp) as [h [Hh He]]. specialize (Hnf n Hg). rewrite Forall_forall in Hnf.
    pose proof (Hnf h Hh) as Hw. unfold within in Hw, Hcf. unfold frame_exhausted in He. rewrite Hg in Hcf.
    destruct (f_size h) as [m|]; [|discriminate]. apply N.leb_le in He. lia.
  - destruct (frame_exhausted off f) eqn:Ef; [|intros []]. cbn [firstn]. intros [<-|[]] Hg.
    unfold within in Hcf. unfold frame_exhausted in Ef. rewrite Hg in Hcf, Ef. apply N.leb_le in Ef. lia.
Qed.

(* conversely every open known-size master whose range has ended is popped, and the ones that stay open have not ended *)
Theorem exhausted_is_popped off stk f n : In f stk -> f_size f = SKnown n -> f_data f + n <= off ->
  In f (firstn (exhausted_count off stk) stk).
Proof.
  intros Hin Hn Hle. rewrite <- (firstn_skipn (exhausted_count off stk) stk) in Hin. apply in_app_or in Hin.
  destruct Hin as [Hin|Hin]; [exact Hin|]. pose proof (exh_rest off stk) as Hr. rewrite Forall_forall in Hr.
  specialize (Hr f Hin). unfold frame_exhausted in Hr. rewrite Hn in Hr. apply N.leb_gt in Hr. lia.
Qed.

Theorem not_popped_open off stk f n : In f (skipn (exhausted_count off stk) stk) -> f_size f = SKnown n -> off < f_data f + n.
Proof.
  intros Hin Hn. pose proof (exh_rest off stk) as Hr. rewrite Forall_forall in Hr.
  specialize (Hr f Hin). unfold frame_exhausted in Hr. rewrite Hn in Hr. apply N.leb_gt in Hr. exact Hr.
Qed.

(* the masters an element ends by its place in the hierarchy are all of unknown size *)
Lemma count_ended_unknown sp tid : forall stk,
  Forall (fun f => f_size f = SUnknown) (firstn (count_ended sp tid (stack_view stk)) stk).
Proof.
  induction stk as [|f tl IH]; [constructor|]. cbn [stack_view map count_ended].
  change (map (fun f0 : frame => (f_id f0, frame_known f0)) tl) with (stack_view tl).
  unfold frame_known. destruct (f_size f) eqn:E; [constructor|].
  destruct (0 <? _)%nat; [cbn [firstn]; constructor; [exact E|exact IH]|].
  destruct (is_ended_by _ _ _); cbn [firstn]; constructor; [exact E|constructor].
Qed.

(* what one read_next call appends to the queue: the Ends of the exhausted masters; then, depending on what read_tag finds,
   the Ends of the unknown-size masters the tag ends followed by the tag, or an error, or nothing (a panic site), or at the end
   of the input the Ends of everything still open (if so configured) *)
Lemma p_read_next_queue c f st : c_buffered c = [] ->
  let k1 := exhausted_count (b_off st) (b_stack st) in
  let st1 := ppop_frames st k1 in
  b_queue st1 = b_queue st ++ map end_item (firstn k1 (b_stack st)) /\
  b_queue (p_read_next (S f) c st) = b_queue st1 ++
    match p_read_tag_checked c st1 with
    | (st2, Some (Ok p)) =>
        map end_item (firstn (count_ended (c_sp c) (tag_id (p_tag p)) (stack_view (b_stack st2))) (b_stack st2)) ++
        [QOk (p_tag p) (p_start p)]
    | (st2, Some (Err e)) => [QErr e]
    | (st2, Some Panic) => []
    | (st2, None) => if c_emit_eof c then map end_item (b_stack st1) else []
    end.
Proof.
  intros Hbuf k1 st1. split; [reflexivity|]. rewrite p_read_next_unfold. cbn zeta. fold k1. fold st1.
  unfold p_read_tag_checked. destruct (b_bytes st1).
  - destruct (c_emit_eof c); [|symmetry; apply app_nil_r].
    cbn [ppop_frames ppush_q pset_queue pset_stack b_queue b_stack]. rewrite firstn_all. reflexivity.
  - pose proof (p_read_tag_queue c st1) as Hq. destruct (p_read_tag c st1) as [st2 [p|e|]]; cbn [fst] in Hq.
    + destruct (p_tag p) as [id v|id|id|id cs]; cbn [tag_id]; try rewrite Hbuf; cbn [mem_id existsb];
        cbn [ppop_frames ppush_q pset_queue pset_stack b_queue b_stack]; rewrite Hq, <- app_assoc; reflexivity.
    + cbn [ppush_q pset_queue b_queue]. rewrite Hq. reflexivity.
    + cbn [pset_bad b_queue]. rewrite Hq. symmetry. apply app_nil_r.
Qed.

(* ================================================================== Theorems 2 and 3 for one read_next call *)
(* [st]: the state in which read_next is called; [st1]: after the exhausted masters have been popped.  Every known-size master
   popped at that point ends exactly at the cursor; every known-size master that stays open ends after the cursor; the tag
   then read begins inside each of them, ends inside, and so does its declared range. *)
Theorem read_next_extents c st : c_allow_over c = false -> started st -> nested st -> contained st ->
  let k1 := exhausted_count (b_off st) (b_stack st) in
  let st1 := ppop_frames st k1 in
  (forall f n, In f (firstn k1 (b_stack st)) -> f_size f = SKnown n -> f_data f + n = b_off st) /\
  (forall f n, In f (b_stack st) -> f_size f = SKnown n -> f_data f + n = b_off st -> In f (firstn k1 (b_stack st))) /\
  (forall st2 p, p_read_tag c st1 = (st2, Ok p) ->
     forall f n, In f (b_stack st2) -> f_size f = SKnown n ->
       f_data f <= p_start p /\ p_start p < f_data f + n /\ b_off st2 <= f_data f + n /\
       p_data p + ksize (p_size p) <= f_data f + n).
Proof.
  intros Hov Hst Hne Hco k1 st1. split; [|split].
  - apply end_at_exhaustion; assumption.
  - intros f n Hin Hn He. apply (exhausted_is_popped _ _ f n Hin Hn). lia.
  - intros st2 p Er f n Hin Hn.
    assert (Hst1 : started st1) by (apply (step_ok_pop st k1), Hst).
    destruct (tag_inside c st1 st2 p Hov Hst1 Er) as [Hs [_ [_ [_ [_ [[extra [Hx Hb]] Hall]]]]]].
    destruct (Hall f n Hin Hn) as [A [B C]]. split; [exact A|]. split; [|split; assumption].
    rewrite Hx in Hin. apply in_app_or in Hin. destruct Hin as [Hin|Hin].
    + rewrite Hs. change (b_off st1) with (b_off st). apply (not_popped_open _ (b_stack st)); [exact Hin|exact Hn].
    + rewrite Forall_forall in Hb. destruct (Hb f Hin) as [Hu _]. rewrite Hu in Hn. discriminate.
Qed.

(* ================================================================== run level: an independent checker *)
(* The checker reads the items of a run (tag, offset) against the input bytes.  For each Start / element item it decodes the
   header found in the input at the item's offset: its length and the declared size.  It keeps the chain of open masters
   (id, offset of the Start item, end of the declared range if the size is known), innermost first, and the cursor (the end
   of the bytes the last Start / element item occupies: the header of a master, header and payload of an element).  It
   accepts
     - a Start / element item only if it begins at the cursor, strictly before the end of every open known-size master, and
       its bytes - for a master of known size its whole declared range - end at or before the end of each of them;
     - an End item only if it names the innermost open master and its offset and, when that master's size is known, the
       cursor is exactly the end of its range (or the input is used up: the Ends at the end of a truncated input);
   a Start pushes, an End pops.  Full items do not occur when nothing is buffered. *)
Definition hdr_at (input : list N) (o : N) : option (nat * esize) :=
  let bytes := skipn (N.to_nat o) input in
  match dec_id bytes with
  | Some (_, idl) =>
      match read_vint (firstn 8 (skipn idl bytes)) with
      | Ok (Some (size, sl)) => Some ((idl + sl)%nat, ebml_size size sl)
      | _ => None
      end
  | None => None
  end.

Definition entry : Type := (N * N * option N)%type.

Definition ends_after (x : N) (open : list entry) : bool :=
  forallb (fun e : entry => match snd e with Some hi => x <? hi | None => true end) open.
Definition ends_at_or_after (x : N) (open : list entry) : bool :=
  forallb (fun e : entry => match snd e with Some hi => x <=? hi | None => true end) open.

Fixpoint chk_ext (input : list N) (open : list entry) (cur : N) (items : list (tag * N)) : option (list entry * N) :=
  match items with
  | [] => Some (open, cur)
  | (TStart id, o) :: rest =>
      match hdr_at input o with
      | Some (hl, esz) =>
          let data := o + N.of_nat hl in
          if (o =? cur) && ends_after o open && ends_at_or_after (data + ksize esz) open
          then chk_ext input ((id, o, match esz with SKnown n => Some (data + n) | SUnknown => None end) :: open) data rest
          else None
      | None => None
      end
  | (TElem id _, o) :: rest =>
      match hdr_at input o with
      | Some (hl, SKnown n) =>
          if (o =? cur) && ends_after o open && ends_at_or_after (o + N.of_nat hl + n) open
          then chk_ext input open (o + N.of_nat hl + n) rest
          else None
      | _ => None
      end
  | (TEnd id, o) :: rest =>
      match open with
      | (i, o', hi) :: open' =>
          if (i =? id) && (o' =? o) &&
             match hi with Some e => (cur =? e) || (N.of_nat (length input) <=? cur) | None => true end
          then chk_ext input open' cur rest
          else None
      | [] => None
      end
  | (TFull _ _, _) :: _ => None
  end.

Lemma chk_ext_app input : forall a b open cur,
  chk_ext input open cur (a ++ b) =
  match chk_ext input open cur a with Some (o, c) => chk_ext input o c b | None => None end.
Proof.
  induction a as [|[t o] a IH]; intros b open cur; [reflexivity|].
  cbn [app chk_ext]. destruct t as [id v|id|id|id cs].
  - destruct (hdr_at input o) as [[hl [n|]]|]; try reflexivity. destruct (_ && _); [apply IH|reflexivity].
  - destruct (hdr_at input o) as [[hl esz]|]; [|reflexivity]. cbv zeta. destruct (_ && _); [apply IH|reflexivity].
  - destruct open as [|[[i o'] hi] open']; [reflexivity|]. destruct (_ && _); [apply IH|reflexivity].
  - reflexivity.
Qed.

Lemma chk_ext_prefix input a b open cur : chk_ext input open cur (a ++ b) <> None -> chk_ext input open cur a <> None.
Proof. rewrite chk_ext_app. destruct (chk_ext input open cur a); [discriminate|auto]. Qed.

(* implied ancestors of a mid-document start: offset 0, no known range *)
Definition nobase (base : list entry) : Prop := Forall (fun e : entry => snd (fst e) = 0 /\ snd e = None) base.

Lemma ends_after_base x open base : nobase base -> ends_after x (open ++ base) = ends_after x open.
Proof.
  intros Hb. unfold ends_after. rewrite forallb_app.
  replace (forallb _ base) with true; [apply andb_true_r|]. symmetry. apply forallb_forall. intros e He.
  unfold nobase in Hb. rewrite Forall_forall in Hb. destruct (Hb e He) as [_ ->]. reflexivity.
Qed.

Lemma ends_at_or_after_base x open base : nobase base -> ends_at_or_after x (open ++ base) = ends_at_or_after x open.
Proof.
  intros Hb. unfold ends_at_or_after. rewrite forallb_app.
  replace (forallb _ base) with true; [apply andb_true_r|]. symmetry. apply forallb_forall. intros e He.
  unfold nobase in Hb. rewrite Forall_forall in Hb. destruct (Hb e He) as [_ ->]. reflexivity.
Qed.

Lemma chk_ext_rebase input : forall items open cur open' cur', chk_ext input open cur items = Some (open', cur') ->
  forall base, nobase base -> chk_ext input (open ++ base) cur items = Some (open' ++ base, cur').
Proof.
  induction items as [|[t o] items IH]; intros open cur open' cur'; cbn [chk_ext].
  - intros H base _. inversion H; reflexivity.
  - destruct t as [id v|id|id|id cs].
    + destruct (hdr_at input o) as [[hl [n|]]|]; try discriminate. intros H base Hb.
      rewrite (ends_after_base _ _ _ Hb), (ends_at_or_after_base _ _ _ Hb).
      destruct (_ && _); [apply IH; assumption|discriminate].
    + destruct (hdr_at input o) as [[hl esz]|]; [|discriminate]. cbv zeta. intros H base Hb.
      rewrite (ends_after_base _ _ _ Hb), (ends_at_or_after_base _ _ _ Hb).
      destruct (_ && _); [|discriminate]. apply (IH (_ :: open)); assumption.
    + destruct open as [|[[i o'] hi] open1]; [discriminate|]. cbn [app]. destruct (_ && _); [apply IH|discriminate].
    + discriminate.
Qed.

Definition fend (f : frame) : option N := match f_size f with SKnown n => Some (f_data f + n) | SUnknown => None end.
Definition frx (f : frame) : entry := (f_id f, f_start f, fend f).

Lemma ends_after_frx x stk : (forall f n, In f stk -> f_size f = SKnown n -> x < f_data f + n) -> ends_after x (map frx stk) = true.
Proof.
  intros H. unfold ends_after. apply forallb_forall. intros e He. apply in_map_iff in He. destruct He as [f [<- Hf]].
  cbn [frx snd]. unfold fend. destruct (f_size f) as [n|] eqn:E; [apply N.ltb_lt, (H f n Hf E)|reflexivity].
Qed.

Lemma ends_at_or_after_frx x stk : Forall (within x) stk -> ends_at_or_after x (map frx stk) = true.
Proof.
  intros H. unfold ends_at_or_after. apply forallb_forall. intros e He. apply in_map_iff in He. destruct He as [f [<- Hf]].
  rewrite Forall_forall in H. specialize (H f Hf). unfold within in H.
  cbn [frx snd]. unfold fend. destruct (f_size f) as [n|]; [apply N.leb_le, H|reflexivity].
Qed.

Section Checker.
Variable input : list N.

(* the Ends of popped frames: a known-size one must end at the cursor, unless the input is used up *)
Lemma chk_ext_ends : forall a b cur,
  (forall f n, In f a -> f_size f = SKnown n -> f_data f + n = cur \/ N.of_nat (length input) <= cur) ->
  chk_ext input (map frx a ++ b) cur (all_q (map end_item a)) = Some (b, cur).
Proof.
  induction a as [|f a IH]; intros b cur H; [reflexivity|].
  cbn [map app all_q flat_map end_item frx chk_ext]. rewrite !N.eqb_refl. cbn [andb].
  assert (Hq : match fend f with Some e => (cur =? e) || (N.of_nat (length input) <=? cur) | None => true end = true).
  { unfold fend. destruct (f_size f) as [n|] eqn:E; [|reflexivity].
    destruct (H f n (or_introl eq_refl) E) as [<-|Hle]; [rewrite N.eqb_refl; reflexivity|].
    apply orb_true_iff. right. apply N.leb_le, Hle. }
  rewrite Hq. apply IH. intros g n Hg. apply H. right. exact Hg.
Qed.

(* ------------------------------------------------------------------ the invariant *)
(* [em]: the items handed out so far; the checker accepts them and the queued items and ends with the reader's stack *)
Definition XK (em : list (tag * N)) (st : pst) (cur : N) : Prop :=
  exists base, nobase base /\ chk_ext input base 0 (em ++ all_q (b_queue st)) = Some (map frx (b_stack st), cur) /\
               (b_det st = false -> base = []).

(* and, unless an error is queued (or a panic site / the recursion budget was hit), with the reader's cursor, at which the
   remaining input sits *)
Definition XI (em : list (tag * N)) (st : pst) : Prop :=
  exists cur, XK em st cur /\
    (b_bad st = None -> okq (b_queue st) -> cur = b_off st /\ b_bytes st = skipn (N.to_nat (b_off st)) input).

Lemma XK_same em st st' cur :
  b_stack st' = b_stack st -> b_queue st' = b_queue st -> b_det st' = b_det st -> XK em st cur -> XK em st' cur.
Proof. unfold XK. intros -> -> ->. auto. Qed.

Lemma XK_pop em st k cur :
  (forall f n, In f (firstn k (b_stack st)) -> f_size f = SKnown n -> f_data f + n = cur \/ N.of_nat (length input) <= cur) ->
  XK em st cur -> XK em (ppop_frames st k) cur.
Proof.
  intros Hk [base [Hz [H Hd]]]. exists base. unfold ppop_frames, ppush_q. cbn [pset_queue pset_stack b_queue b_stack b_det].
  split; [exact Hz|]. split; [|exact Hd].
  rewrite all_q_app, app_assoc, chk_ext_app, H.
  rewrite <- (firstn_skipn k (b_stack st)) at 1. rewrite map_app. apply chk_ext_ends, Hk.
Qed.

Lemma XK_push_err em st e cur : XK em st cur -> XK em (ppush_q st [QErr e]) cur.
Proof.
  intros [base [Hz [H Hd]]]. exists base. unfold ppush_q. cbn [pset_queue b_queue b_stack b_det].
  rewrite all_q_app. cbn [all_q flat_map]. rewrite !app_nil_r. split; [exact Hz|split; [exact H|exact Hd]].
Qed.

Lemma XK_push_elem em st id v cur hl n :
  hdr_at input cur = Some (hl, SKnown n) ->
  ends_after cur (map frx (b_stack st)) = true -> ends_at_or_after (cur + N.of_nat hl + n) (map frx (b_stack st)) = true ->
  XK em st cur -> XK em (ppush_q st [QOk (TElem id v) cur]) (cur + N.of_nat hl + n).
Proof.
  intros Hh Ha Hb [base [Hz [H Hd]]]. exists base. unfold ppush_q. cbn [pset_queue b_queue b_stack b_det].
  rewrite all_q_app, app_assoc, chk_ext_app, H. split; [exact Hz|]. split; [|exact Hd].
  cbn [all_q flat_map app chk_ext]. rewrite Hh, N.eqb_refl, Ha, Hb. reflexivity.
Qed.

Lemma XK_push_start em st fr cur hl :
  f_start fr = cur -> hdr_at input cur = Some (hl, f_size fr) -> f_data fr = cur + N.of_nat hl ->
  ends_after cur (map frx (b_stack st)) = true ->
  ends_at_or_after (f_data fr + ksize (f_size fr)) (map frx (b_stack st)) = true ->
  XK em st cur ->
  XK em (ppush_q (pset_stack st (fr :: b_stack st) (b_det st)) [QOk (TStart (f_id fr)) (f_start fr)]) (f_data fr).
Proof.
  intros Hs Hh Hdt Ha Hb [base [Hz [H Hd]]]. exists base. unfold ppush_q. cbn [pset_queue pset_stack b_queue b_stack b_det].
  rewrite all_q_app, app_assoc, chk_ext_app, H. split; [exact Hz|]. split; [|exact Hd].
  cbn [all_q flat_map app chk_ext]. rewrite Hs, Hh. cbv zeta. rewrite <- Hdt, N.eqb_refl, Ha, Hb. cbn [andb map frx].
  unfold frx, fend. rewrite Hs. reflexivity.
Qed.

Lemma implied_stack_nobase sp p stk : implied_stack sp p = Some stk -> nobase (map frx stk).
Proof.
  unfold implied_stack. destruct (forallb _ p); [|discriminate]. intros H. inversion H; subst. clear H.
  unfold nobase. rewrite map_rev. apply Forall_rev.
  induction p as [|x p IH]; [constructor|]. cbn [flat_map]. rewrite map_app. apply Forall_app. split; [|exact IH].
  destruct x; [constructor; [split; reflexivity|constructor]|constructor].
Qed.

Lemma XK_seed em st stk cur : XK em st cur -> b_det st = false -> nobase (map frx stk) ->
  XK em (pset_stack st (b_stack st ++ stk) true) cur.
Proof.
  intros [base [Hz [H Hd]]] Ed Hs. rewrite (Hd Ed) in H. exists (map frx stk). cbn [pset_stack b_queue b_stack b_det].
  split; [exact Hs|]. split; [|discriminate]. rewrite map_app. apply (chk_ext_rebase _ _ [] _ _ _ H _ Hs).
Qed.

Lemma p_hier_step_XK c em st id ty cur : XK em st cur -> XK em (fst (p_hier_step c st id ty)) cur.
Proof.
  intros HK. unfold p_hier_step. destruct (negb _ && _); [|exact HK].
  destruct (b_det st) eqn:Ed; [destruct (_ && _); exact HK|].
  destruct (all_ids _); [|destruct (_ && _); exact HK].
  destruct (implied_stack _ _) as [stk|] eqn:Ei.
  - assert (H : XK em (pset_stack st (b_stack st ++ stk) true) cur).
    { apply XK_seed; [exact HK|exact Ed|eapply implied_stack_nobase, Ei]. }
    destruct (_ && _); exact H.
  - cbn [fst]. eapply XK_same; [| | |exact HK]; reflexivity.
Qed.

Lemma p_header_XK c em st cur : XK em st cur -> XK em (fst (p_header c st)) cur.
Proof.
  intros HK. rewrite p_header_unfold. destruct (p_tag_id st) as [[id idl]|e|]; try exact HK.
  unfold p_hdr_tail. destruct (read_vint _) as [[[size sl]|]|e1|]; try exact HK.
  destruct (is_numeric _ && _); [exact HK|]. destruct (negb (c_allow_id c) && _); [exact HK|].
  pose proof (p_hier_step_XK c em st id (get_type (c_sp c) id) cur HK) as Hq.
  destruct (p_hier_step _ _ _ _) as [st1 [e1|]]; cbn [fst] in *; [exact Hq|].
  destruct (b_bad st1); [exact Hq|]. destruct (_ && _); [exact Hq|].
  destruct (c_max c); destruct (ebml_size size sl); try destruct (_ <? _); exact Hq.
Qed.

Lemma p_read_tag_XK c em st cur : XK em st cur -> XK em (fst (p_read_tag c st)) cur.
Proof.
  intros HK. rewrite p_read_tag_unfold. pose proof (p_header_XK c em st cur HK) as Hq.
  destruct (p_header c st) as [st1 [[[[id ty] esz] hl]|e|]]; cbn [fst] in *; try exact Hq.
  destruct (p_tag_tail c st1 (b_off st) (id, ty, esz, hl)) as [st2 r] eqn:Et.
  destruct (p_tag_tail_facts _ _ _ _ _ _ _ _ _ Et) as [A [B [C _]]]. cbn [fst].
  eapply XK_same; eassumption.
Qed.

(* the header the checker decodes at an item's offset is the header the reader decoded *)
Lemma hdr_at_read c st st' p : p_read_tag c st = (st', Ok p) -> b_bytes st = skipn (N.to_nat (b_off st)) input ->
  exists hl, hdr_at input (b_off st) = Some (hl, p_size p) /\ p_data p = b_off st + N.of_nat hl.
Proof.
  intros Er Hb. destruct (p_read_tag_header _ _ _ _ Er) as [idl [size [sl [Hid [Hv [Hd Hsz]]]]]].
  exists (idl + sl)%nat. split; [|exact Hd]. unfold hdr_at. cbv zeta. rewrite <- Hb, (p_tag_id_dec _ _ _ Hid), Hv, Hsz. reflexivity.
Qed.

Lemma skipn_add {A} : forall a n (l : list A), skipn (a + n) l = skipn n (skipn a l).
Proof.
  induction a as [|a IH]; intros n l; [reflexivity|]. destruct l as [|x l]; [destruct n; reflexivity|]. apply IH.
Qed.

Lemma skipn_advance (l l' seg : list N) off : l = skipn (N.to_nat off) input -> l = seg ++ l' ->
  l' = skipn (N.to_nat (off + N.of_nat (length seg))) input.
Proof.
  intros H1 H2. replace (N.to_nat (off + N.of_nat (length seg))) with (N.to_nat off + length seg)%nat by lia.
  rewrite skipn_add, <- H1, H2, skipn_app, skipn_all, Nat.sub_diag. reflexivity.
Qed.

Lemma skipn_nil_len off : skipn (N.to_nat off) input = [] -> N.of_nat (length input) <= off.
Proof. intros H. pose proof (skipn_length (N.to_nat off) input) as Hl. rewrite H in Hl. cbn [length] in Hl. lia. Qed.

(* ------------------------------------------------------------------ read_next / next *)
Lemma p_read_next_X c em : c_allow_over c = false -> c_buffered c = [] -> forall fuel st,
  XI em st -> CInv st -> b_bad st = None -> okq (b_queue st) -> XI em (p_read_next fuel c st).
Proof.
  intros Hov Hbuf. destruct fuel as [|f]; intros st [cur [HK Hcl]] [Hst [Hne Hco]] Hb Ho.
  - cbn [p_read_next]. exists cur. split; [eapply XK_same; [| | |exact HK]; reflexivity|].
    intros Hq. exfalso. exact (pset_bad_bad st BFuel Hq).
  - destruct (Hcl Hb Ho) as [-> Hbytes]. clear Hcl.
    destruct (read_next_extents c st Hov Hst Hne Hco) as [Hpop [_ Hin]]. cbv zeta in Hpop, Hin.
    rewrite p_read_next_unfold. cbn zeta.
    set (k1 := exhausted_count (b_off st) (b_stack st)) in *. set (st1 := ppop_frames st k1) in *.
    assert (H1 : XK em st1 (b_off st)).
    { apply XK_pop; [|exact HK]. intros g n Hg Hn. left. apply (Hpop g n Hg Hn). }
    unfold p_read_tag_checked. destruct (b_bytes st1) as [|b0 bl] eqn:Eb.
    + assert (Hlen : N.of_nat (length input) <= b_off st).
      { apply skipn_nil_len. rewrite <- Hbytes. exact Eb. }
      destruct (c_emit_eof c).
      * exists (b_off st). split; [apply XK_pop; [intros g n _ _; right; exact Hlen|exact H1]|].
        intros _ _. split; [reflexivity|exact Hbytes].
      * exists (b_off st). split; [exact H1|]. intros _ _. split; [reflexivity|exact Hbytes].
    + pose proof (p_read_tag_XK c em st1 (b_off st) H1) as H2. pose proof (p_read_tag_queue c st1) as Hq.
      destruct (p_read_tag c st1) as [st2 r2] eqn:Er. cbn [fst] in H2, Hq.
      destruct r2 as [p|e|].
      * assert (Hst1 : started st1) by (apply (step_ok_pop st k1), Hst).
        destruct (tag_inside c st1 st2 p Hov Hst1 Er) as [Hs [_ [_ [HS [HE _]]]]].
        change (b_off st1) with (b_off st) in Hs.
        destruct (hdr_at_read c st1 st2 p Er Hbytes) as [hl [Hh Hd]]. change (b_off st1) with (b_off st) in Hh, Hd.
        destruct (p_read_tag_tiles _ _ _ _ Er) as [seg [Hsb [Hso _]]]. change (b_off st1) with (b_off st) in Hso.
        assert (Hbytes2 : b_bytes st2 = skipn (N.to_nat (b_off st2)) input).
        { rewrite Hso. eapply skipn_advance; [exact Hbytes|exact Hsb]. }
        destruct (p_read_tag_ext _ _ _ _ Hov Er) as [_ [_ [_ Hfit]]]. specialize (Hfit p eq_refl).
        destruct (p_read_tag_mirrors _ _ _ _ Er) as [_ [idl0 [hl0 [payload [_ [_ [_ [_ [_ [_ Hm]]]]]]]]]].
        set (k2 := count_ended (c_sp c) (tag_id (p_tag p)) (stack_view (b_stack st2))). set (st3 := ppop_frames st2 k2).
        assert (H3 : XK em st3 (b_off st)).
        { apply XK_pop; [|exact H2]. intros g n Hg Hn.
          pose proof (count_ended_unknown (c_sp c) (tag_id (p_tag p)) (b_stack st2)) as Hu. rewrite Forall_forall in Hu.
          rewrite (Hu g Hg) in Hn. discriminate. }
        assert (Ha : ends_after (b_off st) (map frx (b_stack st3)) = true).
        { assert (HF : Forall (fun g => forall n, f_size g = SKnown n -> b_off st < f_data g + n) (b_stack st2)).
          { apply Forall_forall. intros g Hg n Hn. destruct (Hin st2 p eq_refl g n Hg Hn) as [_ [A _]]. rewrite Hs in A. exact A. }
          apply (forall_skipn _ k2) in HF. rewrite Forall_forall in HF.
          apply ends_after_frx. intros g n Hg Hn. apply (HF g Hg n Hn). }
        assert (Hbb : ends_at_or_after (p_data p + ksize (p_size p)) (map frx (b_stack st3)) = true).
        { apply ends_at_or_after_frx. apply (forall_skipn _ k2). exact Hfit. }
        destruct (p_tag p) as [id v|id|id|id cs] eqn:Ep; try contradiction; cbn [tag_id].
        -- destruct (HE id v eq_refl) as [m [Esz Eo]]. rewrite Esz in Hh, Hbb. cbn [ksize] in Hbb.
           exists (b_off st2). split; [|intros _ _; split; [reflexivity|exact Hbytes2]].
           rewrite Hs. replace (b_off st2) with (b_off st + N.of_nat hl + m) by lia.
           apply XK_push_elem; [exact Hh|exact Ha| |exact H3].
           replace (b_off st + N.of_nat hl + m) with (p_data p + m) by lia. exact Hbb.
        -- rewrite Hbuf. cbn [mem_id existsb].
           exists (p_data p). split; [|intros _ _; split; [symmetry; exact (HS id eq_refl)|exact Hbytes2]].
           apply (XK_push_start em st3 {| f_id := id; f_size := p_size p; f_start := p_start p; f_data := p_data p |} (b_off st) hl);
             cbn [f_start f_size f_data]; assumption.
      * exists (b_off st). split; [apply XK_push_err, H2|]. intros _ Hok. cbn [ppush_q pset_queue b_queue] in Hok.
        apply okq_app in Hok. destruct Hok as [_ Hok]. inversion Hok; discriminate.
      * exists (b_off st). split; [eapply XK_same; [| | |exact H2]; reflexivity|].
        intros Hq2. exfalso. exact (pset_bad_bad st2 BPanic Hq2).
Qed.

Lemma p_next_X c em st : c_allow_over c = false -> c_buffered c = [] -> XI em st -> CInv st -> b_bad st = None ->
  match snd (p_next c st) with
  | NItem t o => XI (em ++ [(t, o)]) (fst (p_next c st))
  | NNone => XI em (fst (p_next c st))
  | NErr _ => True
  end.
Proof.
  intros Hov Hbuf HX HC Hb. unfold p_next.
  assert (H1 : XI em (match b_queue st with [] => p_read_next (b_fuel st) c st | _ :: _ => st end)).
  { destruct (b_queue st) eqn:Eq; [|exact HX]. apply p_read_next_X; try assumption. rewrite Eq. constructor. }
  set (st1 := match b_queue st with [] => _ | _ => _ end) in *.
  destruct H1 as [cur [[base [Hz [H Hd]]] Hcl]].
  destruct (b_queue st1) as [|[t o|e] q] eqn:Eq; cbn [fst snd].
  - exists cur. split; [exists base; rewrite Eq; split; [exact Hz|split; [exact H|exact Hd]]|].
    intros A B. apply Hcl; [exact A|constructor].
  - exists cur. split.
    + exists base. cbn [pset_last pset_queue b_queue b_stack b_det]. split; [exact Hz|]. split; [|exact Hd].
      cbn [all_q flat_map] in H. rewrite <- app_assoc. exact H.
    + cbn [pset_last pset_queue b_queue b_bad b_off b_bytes]. intros A B. apply Hcl; [exact A|constructor; [reflexivity|exact B]].
  - exact I.
Qed.

(* ------------------------------------------------------------------ runs *)
Definition accepted_ext (items : list (tag * N)) : Prop := exists base, nobase base /\ chk_ext input base 0 items <> None.

Lemma accepted_ext_prefix a b : accepted_ext (a ++ b) -> accepted_ext a.
Proof. intros [base [Hz H]]. exists base. split; [exact Hz|eapply chk_ext_prefix, H]. Qed.

Lemma XI_accepted em st : XI em st -> accepted_ext em.
Proof.
  intros [cur [[base [Hz [H _]]] _]]. exists base. split; [exact Hz|]. eapply chk_ext_prefix. rewrite H. discriminate.
Qed.

Lemma out_pairs_item t o outs : out_pairs (OItem t o :: outs) = (t, o) :: out_pairs outs.
Proof. reflexivity. Qed.

Section XRuns.
Variable c : cfg.
Hypothesis Hov : c_allow_over c = false.
Hypothesis Hbuf : c_buffered c = [].

Lemma p_run_all_X : forall limit em st, XI em st -> CInv st -> b_bad st = None ->
  accepted_ext (em ++ out_pairs (clean_prefix (snd (p_run_all limit c st)))) /\
  (forallb clean (snd (p_run_all limit c st)) = true -> b_bad (fst (p_run_all limit c st)) = None ->
   XI (em ++ out_pairs (snd (p_run_all limit c st))) (fst (p_run_all limit c st))).
Proof.
  induction limit as [|l IH]; intros em st HX HC Hb; cbn [p_run_all].
  - cbn [fst snd clean_prefix clean out_pairs out_items flat_map all_q app]. rewrite app_nil_r.
    split; [eapply XI_accepted, HX|intros _ _; exact HX].
  - pose proof (p_next_X c em st Hov Hbuf HX HC Hb) as H1. pose proof (p_next_C c st Hov Hbuf HC) as HC1.
    destruct (p_next c st) as [st1 r]. cbn [fst snd] in H1, HC1.
    destruct (b_bad st1) as [b|] eqn:Eb.
    { cbn [fst snd clean_prefix forallb]. rewrite clean_bad_out. cbn [out_pairs out_items flat_map all_q andb]. rewrite app_nil_r.
      split; [eapply XI_accepted, HX|discriminate]. }
    destruct r as [t o|e|].
    + specialize (IH _ _ H1 HC1 Eb). destruct (p_run_all l c st1) as [st2 outs]. cbn [fst snd] in *.
      cbn [clean_prefix clean forallb andb]. rewrite !out_pairs_item.
      change ((t, o) :: ?x) with ([(t, o)] ++ x). rewrite !app_assoc. exact IH.
    + cbn [fst snd clean_prefix clean forallb andb out_pairs out_items flat_map all_q]. rewrite app_nil_r.
      split; [eapply XI_accepted, HX|discriminate].
    + cbn [fst snd clean_prefix clean forallb andb out_pairs out_items flat_map all_q app]. rewrite app_nil_r.
      split; [eapply XI_accepted, H1|intros _ _; exact H1].
Qed.

Lemma p_run_ops_X limit : forall ops em st, XI em st -> CInv st -> b_bad st = None ->
  accepted_ext (em ++ out_pairs (clean_prefix (snd (p_run_ops c limit st ops)))).
Proof.
  induction ops as [|op ops IH]; intros em st HX HC Hb; cbn [p_run_ops].
  - cbn [snd clean_prefix out_pairs out_items flat_map all_q]. rewrite app_nil_r. eapply XI_accepted, HX.
  - destruct op.
    + pose proof (p_next_X c em st Hov Hbuf HX HC Hb) as H1. pose proof (p_next_C c st Hov Hbuf HC) as HC1.
      destruct (p_next c st) as [st1 r]. cbn [fst snd] in H1, HC1.
      destruct (b_bad st1) as [b|] eqn:Eb.
      { cbn [snd clean_prefix]. rewrite clean_bad_out. cbn [out_pairs out_items flat_map all_q]. rewrite app_nil_r.
        eapply XI_accepted, HX. }
      destruct r as [t o|e|].
      * specialize (IH _ _ H1 HC1 Eb). destruct (p_run_ops c limit st1 ops) as [st2 outs]. cbn [snd] in *.
        cbn [clean_prefix clean]. rewrite out_pairs_item.
        change ((t, o) :: ?x) with ([(t, o)] ++ x). rewrite app_assoc. exact IH.
      * destruct (p_run_ops c limit st1 ops) as [st2 outs]. cbn [snd clean_prefix clean out_pairs out_items flat_map all_q].
        rewrite app_nil_r. eapply XI_accepted, HX.
      * specialize (IH _ _ H1 HC1 Eb). destruct (p_run_ops c limit st1 ops) as [st2 outs]. cbn [snd] in *.
        cbn [clean_prefix clean]. exact IH.
    + destruct (p_try_recover c st) as [st1 r]. destruct (b_bad st1) as [b|].
      { cbn [snd clean_prefix]. rewrite clean_bad_out. cbn [out_pairs out_items flat_map all_q]. rewrite app_nil_r.
        eapply XI_accepted, HX. }
      destruct (p_run_ops c limit st1 ops) as [st2 outs].
      destruct r as [e|]; cbn [snd clean_prefix clean out_pairs out_items flat_map all_q]; rewrite app_nil_r; eapply XI_accepted, HX.
    + destruct (p_run_all_X limit em st HX HC Hb) as [Ha Hj].
      pose proof (p_run_all_pres c CInv (fun s => p_next_C c s Hov Hbuf) limit st HC) as HC1.
      destruct (p_run_all limit c st) as [st1 outs1]. cbn [fst snd] in *.
      destruct (b_bad st1) eqn:Eb; [exact Ha|].
      specialize (IH (em ++ out_pairs outs1) st1). destruct (p_run_ops c limit st1 ops) as [st2 outs]. cbn [snd] in *.
      rewrite clean_prefix_app. destruct (forallb clean outs1); [|exact Ha].
      rewrite out_pairs_app, app_assoc. apply IH; [apply Hj; reflexivity|exact HC1|exact Eb].
Qed.

End XRuns.

Lemma XI_init : XI [] (p_init input).
Proof.
  exists 0. split; [exists []; split; [constructor|split; reflexivity]|]. intros _ _. split; reflexivity.
Qed.

End Checker.

(* C06, byte ranges at run level: for every input and every sequence of operations, with oversized children not tolerated and
   nothing buffered, the checker accepts the items yielded before the first error (or try_recover call): each Start / element
   item begins where the previous one's bytes end, strictly inside every enclosing known-size master, and ends - a known-size
   master with its whole declared range - inside each of them; each End names the innermost open master, and the End of a
   known-size master comes exactly when the cursor has reached the end of its range (or the input is used up) *)
Theorem run_extents : forall c input ops, c_allow_over c = false -> c_buffered c = [] ->
  exists base, nobase base /\ chk_ext input base 0 (out_pairs (clean_prefix (p_run c input ops))) <> None.
Proof.
  intros c input ops Hov Hbuf. unfold p_run.
  apply (p_run_ops_X input c Hov Hbuf _ ops [] (p_init input)); [apply XI_init|apply CInv_init|reflexivity].
Qed.

(* a whole drain: all its items *)
Theorem run_all_extents : forall c input, c_allow_over c = false -> c_buffered c = [] ->
  exists base, nobase base /\ chk_ext input base 0 (out_pairs (p_run c input [RAll])) <> None.
Proof.
  intros c input Hov Hbuf. pose proof (run_extents c input [RAll] Hov Hbuf) as H.
  unfold out_pairs in *. rewrite p_run_RAll in *. rewrite clean_prefix_run_all in H. exact H.
Qed.
