(* C06, byte ranges over WHOLE runs, errors and recoveries included.
   [chk_ext_run input open cur outs fin] judges the full outcome list of a run against the input bytes.  On an item it is
   the checker [chk_ext] of Proofs/Extents.v (one item).  At a non-clean outcome it allows exactly what the reader does:
     OErr      the cursor moves forward (the offending element is consumed) and stays inside every open known-size master,
               unless the input is used up;
     ORecOk    the end of EVERY open known-size master grows by one and the same distance d > 0, the cursor moves forward by
               at least d, and lies inside every (grown) open known-size master, unless the input is used up;
     ORecErr   the cursor moves forward to (or past) the end of the input: from then on the Ends of open known-size masters
               come late (the End clause of [chk_ext] accepts them because the input is used up) and no Start / element
               item can be accepted any more (no header can be decoded at or past the end of the input);
     ONone, OLimit, OPanic, OFuel   nothing changes.
   The relation is existential in the jumps (the outcome list does not say how far the cursor moved), so the judgement is a
   Prop with the final checker state [fin] as last argument instead of an option.
   The whole-run theorem needs one side condition on the outcome list, [rec_sync]: every try_recover outcome directly
   follows an error, a None or another try_recover outcome (or is the first outcome), i.e. try_recover is not called
   while items the reader has already parsed are still waiting in its queue.  Without it the statement is false
   (C06_whole_run_stale_counterexample, C06_whole_run_stale_recovered_counterexample in Props/C06.v): the queued items
   are handed out AFTER the recovery although they were parsed before it. *)
From Ebml Require Import Base Tools Spec Reader Pure Proofs.Tactics Proofs.ReaderIO Proofs.Refine Proofs.PureProofs
  Proofs.AsyncAhead Proofs.RoundTrip Proofs.Nesting Proofs.BufferSim Proofs.Tiling Proofs.Extents.

Arguments vint_len : simpl never.
Arguments read_vint : simpl never.

(* ------------------------------------------------------------------ the relaxed checker *)
Definition grow_entry (d : N) (e : entry) : entry :=
  (fst e, match snd e with Some hi => Some (hi + d) | None => None end).

Definition xstate : Type := (list entry * N)%type.

Definition ext_step (input : list N) (o : rout) (s s' : xstate) : Prop :=
  match o with
  | OItem t off => chk_ext input (fst s) (snd s) [(t, off)] = Some s'
  | OErr _ => fst s' = fst s /\ snd s <= snd s' /\
              (ends_at_or_after (snd s') (fst s') = true \/ N.of_nat (length input) <= snd s')
  | ORecOk => exists d, 0 < d /\ fst s' = map (grow_entry d) (fst s) /\ snd s + d <= snd s' /\
              (ends_at_or_after (snd s') (fst s') = true \/ N.of_nat (length input) <= snd s')
  | ORecErr _ => fst s' = fst s /\ snd s <= snd s' /\ N.of_nat (length input) <= snd s'
  | _ => s' = s
  end.

Fixpoint chk_ext_run (input : list N) (open : list entry) (cur : N) (outs : list rout) (fin : xstate) : Prop :=
  match outs with
  | [] => fin = (open, cur)
  | o :: rest => exists s', ext_step input o (open, cur) s' /\ chk_ext_run input (fst s') (snd s') rest fin
  end.

(* try_recover outcomes come only when the reader's queue is known to be empty *)
Fixpoint rec_sync (busy : bool) (outs : list rout) : bool :=
  match outs with
  | [] => true
  | o :: r =>
      match o with
      | ORecOk | ORecErr _ => negb busy && rec_sync false r
      | OErr _ | ONone => rec_sync false r
      | _ => rec_sync true r
      end
  end.

Lemma chk_ext_run_app input : forall a b open cur fin,
  chk_ext_run input open cur (a ++ b) fin <->
  exists s, chk_ext_run input open cur a s /\ chk_ext_run input (fst s) (snd s) b fin.
Proof.
  induction a as [|o a IH]; intros b open cur fin; cbn [app chk_ext_run].
  - split.
    + intros H. exists (open, cur). split; [reflexivity|exact H].
    + intros [s [-> H]]. exact H.
  - split.
    + intros [s' [Hs H]]. apply IH in H. destruct H as [s [H1 H2]]. exists s. split; [exists s'; split; assumption|exact H2].
    + intros [s [[s' [Hs H1]] H2]]. exists s'. split; [exact Hs|]. apply IH. exists s. split; assumption.
Qed.

Definition items_out (l : list (tag * N)) : list rout := map (fun x => OItem (fst x) (snd x)) l.

Lemma chk_ext_cons input x l open cur :
  chk_ext input open cur (x :: l) = match chk_ext input open cur [x] with Some (o, c) => chk_ext input o c l | None => None end.
Proof. exact (chk_ext_app input [x] l open cur). Qed.

(* on items the relaxed checker is the checker of Proofs/Extents.v *)
Lemma chk_ext_run_items input : forall l open cur fin,
  chk_ext_run input open cur (items_out l) fin <-> chk_ext input open cur l = Some fin.
Proof.
  induction l as [|[t o] l IH]; intros open cur fin.
  - cbn [items_out map chk_ext_run chk_ext]. split; [intros ->; reflexivity|intros H; inversion H; reflexivity].
  - change (items_out ((t, o) :: l)) with (OItem t o :: items_out l). cbn [chk_ext_run]. rewrite chk_ext_cons.
    unfold ext_step. cbn [fst snd]. split.
    + intros [[o' c'] [Hs H]]. rewrite Hs. apply IH. exact H.
    + destruct (chk_ext input open cur [(t, o)]) as [[o' c']|]; [|discriminate]. intros H.
      exists (o', c'). split; [reflexivity|apply IH; exact H].
Qed.

Lemma grow_nobase d base : nobase base -> map (grow_entry d) base = base.
Proof.
  induction base as [|e l IH]; intros H; [reflexivity|]. apply Forall_cons_iff in H. destruct H as [[_ He] Hl].
  cbn [map]. rewrite (IH Hl). f_equal. destruct e as [a b]. cbn [snd] in He. subst b. reflexivity.
Qed.

Lemma ext_step_rebase input o op c op' c' base : nobase base ->
  ext_step input o (op, c) (op', c') -> ext_step input o (op ++ base, c) (op' ++ base, c').
Proof.
  intros Hb. destruct o; unfold ext_step; cbn [fst snd]; try (intros H; inversion H; reflexivity).
  - intros H. apply (chk_ext_rebase input _ _ _ _ _ H _ Hb).
  - intros [-> [H1 H2]]. split; [reflexivity|]. split; [exact H1|]. rewrite ends_at_or_after_base by exact Hb. exact H2.
  - intros [d [H0 [-> [H1 H2]]]]. exists d. rewrite map_app, (grow_nobase d base Hb). split; [exact H0|]. split; [reflexivity|]. split; [exact H1|].
    rewrite ends_at_or_after_base by exact Hb. exact H2.
  - intros [-> H]. split; [reflexivity|exact H].
Qed.

Lemma chk_ext_run_rebase input base : nobase base -> forall outs op c op' c',
  chk_ext_run input op c outs (op', c') -> chk_ext_run input (op ++ base) c outs (op' ++ base, c').
Proof.
  intros Hb. induction outs as [|o outs IH]; intros op c op' c'; cbn [chk_ext_run].
  - intros H. inversion H. reflexivity.
  - intros [[o1 c1] [Hs H]]. exists (o1 ++ base, c1). split; [apply ext_step_rebase; assumption|].
    cbn [fst snd] in *. apply IH, H.
Qed.

Lemma splitN_snd_skipn : forall l k, snd (splitN k l) = skipn (N.to_nat k) l.
Proof.
  induction l as [|x l IH]; intros k; cbn [splitN]; [destruct (N.to_nat k); reflexivity|].
  destruct (N.eqb_spec k 0) as [->|Hk]; [reflexivity|]. specialize (IH (N.pred k)).
  destruct (splitN (N.pred k) l) as [a b]. cbn [snd] in *.
  replace (N.to_nat k) with (Datatypes.S (N.to_nat (N.pred k))) by lia. cbn [skipn]. exact IH.
Qed.

Lemma frx_grow d stk : map frx (grow_frames d stk) = map (grow_entry d) (map frx stk).
Proof.
  rewrite grow_frames_map, !map_map. apply map_ext. intros f. unfold frx, fend, grow1, grow_entry.
  destruct (f_size f) as [n|] eqn:E; cbn [f_id f_start f_size f_data fst snd].
  - rewrite N.add_assoc. reflexivity.
  - rewrite E. reflexivity.
Qed.

Section RunChecker.
Variable input : list N.

(* ------------------------------------------------------------------ the invariant *)
(* [em]: the outcomes handed out so far; the relaxed checker accepts them followed by the queued items and ends with the
   reader's stack *)
Definition XKr (em : list rout) (st : pst) (cur : N) : Prop :=
  exists base, nobase base /\
    chk_ext_run input base 0 (em ++ items_out (all_q (b_queue st))) (map frx (b_stack st), cur) /\
    (b_det st = false -> base = []).

Lemma XKr_trans em st st' cur cur' : b_det st' = b_det st ->
  (forall o c, chk_ext input o c (all_q (b_queue st)) = Some (map frx (b_stack st), cur) ->
               chk_ext input o c (all_q (b_queue st')) = Some (map frx (b_stack st'), cur')) ->
  XKr em st cur -> XKr em st' cur'.
Proof.
  intros Hd Hf [base [Hz [H Hb]]]. exists base. split; [exact Hz|]. split; [|rewrite Hd; exact Hb].
  apply chk_ext_run_app in H. destruct H as [[o c] [H1 H2]]. apply chk_ext_run_app. exists (o, c). split; [exact H1|].
  cbn [fst snd] in *. apply chk_ext_run_items. apply Hf. apply chk_ext_run_items. exact H2.
Qed.

Lemma XKr_same em st st' cur :
  b_stack st' = b_stack st -> b_queue st' = b_queue st -> b_det st' = b_det st -> XKr em st cur -> XKr em st' cur.
Proof. intros Hs Hq Hd. apply XKr_trans; [exact Hd|]. intros o c. rewrite Hs, Hq. auto. Qed.

Lemma XKr_pop em st k cur :
  (forall f n, In f (firstn k (b_stack st)) -> f_size f = SKnown n -> f_data f + n = cur \/ N.of_nat (length input) <= cur) ->
  XKr em st cur -> XKr em (ppop_frames st k) cur.
Proof.
  intros Hk. apply XKr_trans; [reflexivity|]. intros o c H.
  unfold ppop_frames, ppush_q. cbn [pset_queue pset_stack b_queue b_stack].
  rewrite all_q_app, chk_ext_app, H. rewrite <- (firstn_skipn k (b_stack st)) at 1. rewrite map_app. apply chk_ext_ends, Hk.
Qed.

Lemma XKr_push_err em st e cur : XKr em st cur -> XKr em (ppush_q st [QErr e]) cur.
Proof.
  apply XKr_trans; [reflexivity|]. intros o c H. unfold ppush_q. cbn [pset_queue b_queue b_stack].
  rewrite all_q_app. cbn [all_q flat_map]. rewrite !app_nil_r. exact H.
Qed.

Lemma XKr_push_elem em st id v cur hl n :
  hdr_at input cur = Some (hl, SKnown n) ->
  ends_after cur (map frx (b_stack st)) = true -> ends_at_or_after (cur + N.of_nat hl + n) (map frx (b_stack st)) = true ->
  XKr em st cur -> XKr em (ppush_q st [QOk (TElem id v) cur]) (cur + N.of_nat hl + n).
Proof.
  intros Hh Ha Hb. apply XKr_trans; [reflexivity|]. intros o c H. unfold ppush_q. cbn [pset_queue b_queue b_stack].
  rewrite all_q_app, chk_ext_app, H. cbn [all_q flat_map app chk_ext]. rewrite Hh, N.eqb_refl, Ha, Hb. reflexivity.
Qed.

Lemma XKr_push_start em st fr cur hl :
  f_start fr = cur -> hdr_at input cur = Some (hl, f_size fr) -> f_data fr = cur + N.of_nat hl ->
  ends_after cur (map frx (b_stack st)) = true ->
  ends_at_or_after (f_data fr + ksize (f_size fr)) (map frx (b_stack st)) = true ->
  XKr em st cur ->
  XKr em (ppush_q (pset_stack st (fr :: b_stack st) (b_det st)) [QOk (TStart (f_id fr)) (f_start fr)]) (f_data fr).
Proof.
  intros Hs Hh Hdt Ha Hb. apply XKr_trans; [reflexivity|]. intros o c H.
  unfold ppush_q. cbn [pset_queue pset_stack b_queue b_stack].
  rewrite all_q_app, chk_ext_app, H.
  cbn [all_q flat_map app chk_ext]. rewrite Hs, Hh. cbv zeta. rewrite <- Hdt, N.eqb_refl, Ha, Hb. cbn [andb map frx].
  unfold frx, fend. rewrite Hs. reflexivity.
Qed.

Lemma XKr_seed em st stk cur : XKr em st cur -> b_det st = false -> nobase (map frx stk) ->
  XKr em (pset_stack st (b_stack st ++ stk) true) cur.
Proof.
  intros [base [Hz [H Hd]]] Ed Hs. rewrite (Hd Ed) in H. exists (map frx stk). cbn [pset_stack b_queue b_stack b_det].
  split; [exact Hs|]. split; [|discriminate]. rewrite map_app.
  exact (chk_ext_run_rebase input (map frx stk) Hs _ [] 0 _ _ H).
Qed.

Lemma p_hier_step_XKr c em st id ty cur : XKr em st cur -> XKr em (fst (p_hier_step c st id ty)) cur.
Proof.
  intros HK. unfold p_hier_step. destruct (negb _ && _); [|exact HK].
  destruct (b_det st) eqn:Ed; [destruct (_ && _); exact HK|].
  destruct (all_ids _); [|destruct (_ && _); exact HK].
  destruct (implied_stack _ _) as [stk|] eqn:Ei.
  - assert (H : XKr em (pset_stack st (b_stack st ++ stk) true) cur).
    { apply XKr_seed; [exact HK|exact Ed|eapply implied_stack_nobase, Ei]. }
    destruct (_ && _); exact H.
  - cbn [fst]. eapply XKr_same; [| | |exact HK]; reflexivity.
Qed.

Lemma p_header_XKr c em st cur : XKr em st cur -> XKr em (fst (p_header c st)) cur.
Proof.
  intros HK. rewrite p_header_unfold. destruct (p_tag_id st) as [[id idl]|e|]; try exact HK.
  unfold p_hdr_tail. destruct (read_vint _) as [[[size sl]|]|e1|]; try exact HK.
  destruct (is_numeric _ && _); [exact HK|]. destruct (negb (c_allow_id c) && _); [exact HK|].
  pose proof (p_hier_step_XKr c em st id (get_type (c_sp c) id) cur HK) as Hq.
  destruct (p_hier_step _ _ _ _) as [st1 [e1|]]; cbn [fst] in *; [exact Hq|].
  destruct (b_bad st1); [exact Hq|]. destruct (_ && _); [exact Hq|].
  destruct (c_max c); destruct (ebml_size size sl); try destruct (_ <? _); exact Hq.
Qed.

Lemma p_read_tag_XKr c em st cur : XKr em st cur -> XKr em (fst (p_read_tag c st)) cur.
Proof.
  intros HK. rewrite p_read_tag_unfold. pose proof (p_header_XKr c em st cur HK) as Hq.
  destruct (p_header c st) as [st1 [[[[id ty] esz] hl]|e|]]; cbn [fst] in *; try exact Hq.
  destruct (p_tag_tail c st1 (b_off st) (id, ty, esz, hl)) as [st2 r] eqn:Et.
  destruct (p_tag_tail_facts _ _ _ _ _ _ _ _ _ Et) as [A [B [C _]]]. cbn [fst].
  eapply XKr_same; eassumption.
Qed.

(* ------------------------------------------------------------------ the remaining input sits at the cursor, always *)
Definition sync (st : pst) : Prop := b_bytes st = skipn (N.to_nat (b_off st)) input.

Lemma pconsume_sync st k : sync st -> sync (pconsume st k).
Proof.
  unfold sync. cbn [pconsume b_bytes b_off]. intros ->. rewrite splitN_snd_skipn.
  replace (N.to_nat (b_off st + k)) with (N.to_nat (b_off st) + N.to_nat k)%nat by lia. symmetry. apply skipn_add.
Qed.

Lemma p_header_sync c st : sync st -> sync (fst (p_header c st)).
Proof. unfold sync. destruct (p_header_pos c st) as [-> ->]. auto. Qed.

Lemma p_tag_tail_sync c st ts h : sync st -> sync (fst (p_tag_tail c st ts h)).
Proof.
  intros H. destruct h as [[[id ty] esz] hl]. unfold p_tag_tail.
  pose proof (pconsume_sync st (N.of_nat hl) H) as A.
  destruct ty as [[]|]; try exact A;
    (destruct esz as [size|]; [|exact A]); (destruct (_ <? size); [exact A|]);
    pose proof (pconsume_sync _ size A) as B.
  - destruct (arr_to_u64 _); exact B.
  - destruct (arr_to_i64 _); exact B.
  - destruct (utf8_valid _); exact B.
  - exact B.
  - destruct (arr_to_f64 _); exact B.
  - exact B.
Qed.

Lemma p_read_tag_sync c st : sync st -> sync (fst (p_read_tag c st)).
Proof.
  intros H. rewrite p_read_tag_unfold. pose proof (p_header_sync c st H) as Hq.
  destruct (p_header c st) as [st1 [h|e|]]; cbn [fst] in *; [apply p_tag_tail_sync, Hq|exact Hq|exact Hq].
Qed.

Lemma p_recover_loop_R c em cur : forall fuel st, XKr em st cur -> sync st ->
  XKr em (fst (p_recover_loop fuel c st)) cur /\ sync (fst (p_recover_loop fuel c st)) /\
  b_queue (fst (p_recover_loop fuel c st)) = b_queue st.
Proof.
  induction fuel as [|f IH]; intros st HK Hs; cbn [p_recover_loop].
  - cbn [fst]. split; [eapply XKr_same; [| | |exact HK]; reflexivity|]. split; [exact Hs|reflexivity].
  - destruct (b_bytes st) eqn:Eb; [cbn [fst]; split; [exact HK|split; [exact Hs|reflexivity]]|].
    assert (H1 : XKr em (pconsume st 1) cur) by (eapply XKr_same; [| | |exact HK]; reflexivity).
    pose proof (pconsume_sync st 1 Hs) as S1.
    pose proof (p_header_XKr c em _ cur H1) as H2. pose proof (p_header_sync c _ S1) as S2.
    pose proof (p_header_queue c (pconsume st 1)) as Q2.
    destruct (p_header c (pconsume st 1)) as [st2 [h|e|]]; cbn [fst] in *.
    + split; [exact H2|]. split; [exact S2|exact Q2].
    + destruct (IH st2 H2 S2) as [A [B C]]. split; [exact A|]. split; [exact B|]. rewrite C. exact Q2.
    + split; [eapply XKr_same; [| | |exact H2]; reflexivity|]. split; [exact S2|exact Q2].
Qed.

(* a successful try_recover has skipped at least one byte *)
Lemma p_recover_loop_strict c : forall fuel st, snd (p_recover_loop fuel c st) = None ->
  b_bad (fst (p_recover_loop fuel c st)) = None -> b_off st < b_off (fst (p_recover_loop fuel c st)).
Proof.
  induction fuel as [|f IH]; intros st; cbn [p_recover_loop].
  - cbn [fst snd]. intros _ Hq. exfalso. exact (pset_bad_bad st BFuel Hq).
  - destruct (b_bytes st); [discriminate|].
    destruct (p_header_pos c (pconsume st 1)) as [_ Ho].
    destruct (p_header c (pconsume st 1)) as [st2 [h|e|]]; cbn [fst snd] in *; cbn [pconsume b_off] in Ho.
    + intros _ _. lia.
    + intros A B. specialize (IH st2 A B). lia.
    + intros _ Hq. exfalso. exact (pset_bad_bad st2 BPanic Hq).
Qed.

(* [XIr]: as long as the reader is not dead (panic site / recursion budget): the checker's cursor is at or before the
   reader's, and equal to it unless an error is queued; the remaining input sits at the reader's cursor *)
Definition XIr (em : list rout) (st : pst) : Prop :=
  b_bad st = None ->
  exists cur, XKr em st cur /\ sync st /\ cur <= b_off st /\ (okq (b_queue st) -> cur = b_off st).

(* ------------------------------------------------------------------ read_next / next *)
Lemma p_read_next_XR c em : c_allow_over c = false -> c_buffered c = [] -> forall fuel st,
  XIr em st -> WInv st -> b_bad st = None -> okq (b_queue st) ->
  XIr em (p_read_next fuel c st) /\ elast (b_queue (p_read_next fuel c st)).
Proof.
  intros Hov Hbuf. destruct fuel as [|f]; intros st HX HW Hb Ho.
  - cbn [p_read_next]. split; [intros Hq; exfalso; exact (pset_bad_bad st BFuel Hq)|apply okq_elast, Ho].
  - destruct (HX Hb) as [cur [HK [Hbytes [_ Hc]]]]. specialize (Hc Ho). subst cur. clear HX.
    destruct HW as [Hst [Hne Hco]]. split.
    2:{ destruct (p_read_next_queue c f st Hbuf) as [Q1 Q2]. cbv zeta in Q1, Q2. rewrite Q2, Q1.
        assert (Hoq : okq (b_queue st ++ map end_item (firstn (exhausted_count (b_off st) (b_stack st)) (b_stack st)))).
        { apply okq_app. split; [exact Ho|apply okq_ends]. }
        apply elast_okq_app; [exact Hoq|].
        destruct (p_read_tag_checked c _) as [st2 [[p|e|]|]].
        - apply okq_elast, okq_app. split; [apply okq_ends|constructor; [reflexivity|constructor]].
        - apply elast_single.
        - exact I.
        - destruct (c_emit_eof c); [apply okq_elast, okq_ends|exact I]. }
    rewrite p_read_next_unfold. cbn zeta.
    set (k1 := exhausted_count (b_off st) (b_stack st)). set (st1 := ppop_frames st k1).
    assert (Hpop : forall g n, In g (firstn k1 (b_stack st)) -> f_size g = SKnown n ->
              f_data g + n = b_off st \/ N.of_nat (length input) <= b_off st).
    { intros g n Hg Hn. destruct Hco as [Hco|Hco].
      - left. apply (end_at_exhaustion (b_off st) (b_stack st) Hco Hne g n Hg Hn).
      - right. apply skipn_nil_len. unfold sync in Hbytes. rewrite <- Hbytes. exact Hco. }
    assert (H1 : XKr em st1 (b_off st)) by (apply XKr_pop; assumption).
    unfold p_read_tag_checked. destruct (b_bytes st1) as [|b0 bl] eqn:Eb.
    + assert (Hlen : N.of_nat (length input) <= b_off st).
      { apply skipn_nil_len. unfold sync in Hbytes. rewrite <- Hbytes. exact Eb. }
      destruct (c_emit_eof c).
      * intros _. exists (b_off st). split; [apply XKr_pop; [intros g n _ _; right; exact Hlen|exact H1]|].
        split; [exact Hbytes|]. split; [cbn; lia|intros _; reflexivity].
      * intros _. exists (b_off st). split; [exact H1|]. split; [exact Hbytes|]. split; [cbn; lia|intros _; reflexivity].
    + assert (Hco' : contained st).
      { destruct Hco as [Hco|Hco]; [exact Hco|]. change (b_bytes st1) with (b_bytes st) in Eb. rewrite Hco in Eb. discriminate. }
      destruct (read_next_extents c st Hov Hst Hne Hco') as [_ [_ Hin]]. cbv zeta in Hin. fold k1 in Hin. fold st1 in Hin.
      pose proof (p_read_tag_XKr c em st1 (b_off st) H1) as H2. pose proof (p_read_tag_queue c st1) as Hq.
      assert (Hbytes1 : sync st1) by exact Hbytes.
      pose proof (p_read_tag_sync c st1 Hbytes1) as Hbytes2.
      destruct (p_read_tag c st1) as [st2 r2] eqn:Er. cbn [fst] in H2, Hq, Hbytes2.
      destruct (p_read_tag_ext _ _ _ _ Hov Er) as [Hfw [_ [_ Hfit]]]. change (b_off st1) with (b_off st) in Hfw.
      destruct r2 as [p|e|].
      * assert (Hst1 : started st1) by (apply (step_ok_pop st k1), Hst).
        destruct (tag_inside c st1 st2 p Hov Hst1 Er) as [Hs [_ [_ [HS [HE _]]]]].
        change (b_off st1) with (b_off st) in Hs.
        destruct (hdr_at_read input c st1 st2 p Er Hbytes) as [hl [Hh Hd]]. change (b_off st1) with (b_off st) in Hh, Hd.
        specialize (Hfit p eq_refl).
        destruct (p_read_tag_mirrors _ _ _ _ Er) as [_ [idl0 [hl0 [payload [_ [_ [_ [_ [_ [_ Hm]]]]]]]]]].
        set (k2 := count_ended (c_sp c) (tag_id (p_tag p)) (stack_view (b_stack st2))). set (st3 := ppop_frames st2 k2).
        assert (H3 : XKr em st3 (b_off st)).
        { apply XKr_pop; [|exact H2]. intros g n Hg Hn.
          pose proof (count_ended_unknown (c_sp c) (tag_id (p_tag p)) (b_stack st2)) as Hu. rewrite Forall_forall in Hu.
          rewrite (Hu g Hg) in Hn. discriminate. }
        assert (Ha : ends_after (b_off st) (map frx (b_stack st3)) = true).
        { assert (HF : Forall (fun g => forall n, f_size g = SKnown n -> b_off st < f_data g + n) (b_stack st2)).
          { apply Forall_forall. intros g Hg n Hn. destruct (Hin st2 p eq_refl g n Hg Hn) as [_ [A _]]. rewrite Hs in A. exact A. }
          apply (forall_skipn _ k2) in HF. rewrite Forall_forall in HF.
          apply ends_after_frx. intros g n Hg Hn. apply (HF g Hg n Hn). }
        assert (Hbb : ends_at_or_after (p_data p + ksize (p_size p)) (map frx (b_stack st3)) = true).
        { apply ends_at_or_after_frx. apply (forall_skipn _ k2). exact Hfit. }
        destruct (p_tag p) as [id v|id|id|id cs] eqn:Ep; try contradiction; cbn [tag_id].
        -- destruct (HE id v eq_refl) as [m [Esz Eo]]. rewrite Esz in Hh, Hbb. cbn [ksize] in Hbb.
           intros _. exists (b_off st2). split; [|split; [exact Hbytes2|split; [cbn; lia|intros _; reflexivity]]].
           rewrite Hs. replace (b_off st2) with (b_off st + N.of_nat hl + m) by lia.
           apply XKr_push_elem; [exact Hh|exact Ha| |exact H3].
           replace (b_off st + N.of_nat hl + m) with (p_data p + m) by lia. exact Hbb.
        -- rewrite Hbuf. cbn [mem_id existsb].
           intros _. exists (p_data p).
           split; [|split; [exact Hbytes2|split; [rewrite <- (HS id eq_refl); cbn; lia|intros _; symmetry; exact (HS id eq_refl)]]].
           apply (XKr_push_start em st3 {| f_id := id; f_size := p_size p; f_start := p_start p; f_data := p_data p |} (b_off st) hl);
             cbn [f_start f_size f_data]; assumption.
      * intros _. exists (b_off st). split; [apply XKr_push_err, H2|]. split; [exact Hbytes2|]. split; [exact Hfw|].
        intros Hok. cbn [ppush_q pset_queue b_queue] in Hok.
        apply okq_app in Hok. destruct Hok as [_ Hok]. inversion Hok; discriminate.
      * intros Hq2. exfalso. exact (pset_bad_bad st2 BPanic Hq2).
Qed.

Definition nres_out (r : nres) : rout := match r with NItem t off => OItem t off | NErr e => OErr e | NNone => ONone end.

(* the run-level invariant *)
Definition RI (em : list rout) (st : pst) : Prop := XIr em st /\ WInv st /\ elast (b_queue st).

Lemma p_next_XR c em st : c_allow_over c = false -> c_buffered c = [] -> RI em st -> b_bad st = None ->
  RI (em ++ [nres_out (snd (p_next c st))]) (fst (p_next c st)) /\
  match snd (p_next c st) with NItem _ _ => True | _ => b_queue (fst (p_next c st)) = [] end.
Proof.
  intros Hov Hbuf [HX [HW HE]] Hb. pose proof (p_next_W c st Hov Hbuf HW) as HW1. unfold p_next in *.
  assert (H1 : XIr em (match b_queue st with [] => p_read_next (b_fuel st) c st | _ :: _ => st end) /\
               elast (b_queue (match b_queue st with [] => p_read_next (b_fuel st) c st | _ :: _ => st end))).
  { destruct (b_queue st) eqn:Eq; [|split; [exact HX|change (elast (b_queue st)); rewrite Eq; exact HE]].
    apply p_read_next_XR; try assumption. rewrite Eq. constructor. }
  set (st1 := match b_queue st with [] => _ | _ => _ end) in *. destruct H1 as [HX1 HE1].
  destruct (b_queue st1) as [|[t o|e] q] eqn:Eq; cbn [fst snd nres_out] in *.
  - split; [|exact Eq]. split; [|split; [exact HW1|rewrite Eq; exact I]].
    intros Hb1. destruct (HX1 Hb1) as [cur [[base [Hz [H Hd]]] Hcl]]. exists cur. split; [|exact Hcl].
    exists base. split; [exact Hz|]. split; [|exact Hd]. rewrite Eq in *. cbn [all_q flat_map items_out map] in *.
    rewrite app_nil_r in *. apply chk_ext_run_app. exists (map frx (b_stack st1), cur). split; [exact H|].
    cbn [chk_ext_run fst snd]. exists (map frx (b_stack st1), cur). split; reflexivity.
  - split; [|exact I]. split; [|split; [exact HW1|cbn [pset_last pset_queue b_queue]; exact (proj2 HE1)]].
    intros Hb1. destruct (HX1 Hb1) as [cur [[base [Hz [H Hd]]] [Hs [Hle Hc]]]]. exists cur. split.
    + exists base. cbn [pset_last pset_queue b_queue b_stack b_det]. split; [exact Hz|]. split; [|exact Hd].
      rewrite Eq in H. rewrite <- app_assoc. exact H.
    + cbn [pset_last pset_queue b_queue b_off]. split; [exact Hs|]. split; [exact Hle|].
      intros Hq. apply Hc. rewrite Eq. constructor; [reflexivity|exact Hq].
  - destruct HE1 as [Hq0 _]. specialize (Hq0 eq_refl). subst q. split; [|reflexivity].
    split; [|split; [exact HW1|exact I]].
    intros Hb1. destruct (HX1 Hb1) as [cur [[base [Hz [H Hd]]] [Hs [Hle _]]]]. exists (b_off st1). split.
    + exists base. cbn [pset_queue b_queue b_stack b_det]. split; [exact Hz|]. split; [|exact Hd].
      rewrite Eq in H. cbn [all_q flat_map items_out map app] in *. rewrite app_nil_r in *.
      apply chk_ext_run_app. exists (map frx (b_stack st1), cur). split; [exact H|].
      cbn [chk_ext_run fst snd]. exists (map frx (b_stack st1), b_off st1). split; [|reflexivity].
      unfold ext_step. cbn [fst snd]. split; [reflexivity|]. split; [exact Hle|].
      destruct HW1 as [_ [_ [Hco|Hco]]].
      * left. apply ends_at_or_after_frx. exact Hco.
      * right. apply skipn_nil_len. unfold sync in Hs. rewrite <- Hs. exact Hco.
    + cbn [pset_queue b_queue b_off]. split; [exact Hs|]. split; [lia|intros _; reflexivity].
Qed.

Definition rec_out (r : option rerr) : rout := match r with None => ORecOk | Some e => ORecErr e end.

Lemma p_try_recover_XR c em st : RI em st -> b_bad st = None -> b_queue st = [] ->
  RI (em ++ [rec_out (snd (p_try_recover c st))]) (fst (p_try_recover c st)) /\ b_queue (fst (p_try_recover c st)) = [].
Proof.
  intros [HX [HW HE]] Hb Hq. pose proof (p_try_recover_W c st HW) as HW1.
  destruct (HX Hb) as [cur [HK [Hs [_ Hc]]]]. rewrite Hq in Hc. specialize (Hc (Forall_nil _)). subst cur.
  unfold p_try_recover in *.
  destruct (p_recover_loop_R c em (b_off st) (b_fuel st) st HK Hs) as [HK1 [Hs1 Hq1]].
  pose proof (p_recover_loop_forward c (b_fuel st) st) as Hfw.
  destruct (p_recover_loop_facts c (b_fuel st) st) as [_ [_ [_ He]]].
  pose proof (p_recover_loop_strict c (b_fuel st) st) as Hstrict.
  destruct (p_recover_loop (b_fuel st) c st) as [st1 [e|]]; cbn [fst snd rec_out] in *; rewrite Hq in Hq1.
  - split; [|exact Hq1]. split; [|split; [exact HW1|rewrite Hq1; exact I]].
    intros Hb1. exists (b_off st1). split; [|split; [exact Hs1|split; [lia|intros _; reflexivity]]].
    destruct HK1 as [base [Hz [H Hd]]]. exists base. split; [exact Hz|]. split; [|exact Hd].
    rewrite Hq1 in *. cbn [all_q flat_map items_out map] in *. rewrite app_nil_r in *.
    apply chk_ext_run_app. exists (map frx (b_stack st1), b_off st). split; [exact H|].
    cbn [chk_ext_run fst snd]. exists (map frx (b_stack st1), b_off st1). split; [|reflexivity].
    unfold ext_step. cbn [fst snd]. split; [reflexivity|]. split; [exact Hfw|].
    apply skipn_nil_len. unfold sync in Hs1. rewrite <- Hs1. exact (He e eq_refl).
  - cbn [pset_stack b_queue]. split; [|exact Hq1]. split; [|split; [exact HW1|change (elast (b_queue st1)); rewrite Hq1; exact I]].
    intros Hb1. exists (b_off st1). cbn [pset_stack b_off b_queue]. split; [|split; [exact Hs1|split; [lia|intros _; reflexivity]]].
    destruct HK1 as [base [Hz [H Hd]]]. exists base. cbn [pset_stack b_queue b_stack b_det]. split; [exact Hz|]. split; [|exact Hd].
    rewrite Hq1 in *. cbn [all_q flat_map items_out map] in *. rewrite app_nil_r in *.
    apply chk_ext_run_app. exists (map frx (b_stack st1), b_off st). split; [exact H|].
    cbn [chk_ext_run fst snd].
    exists (map frx (grow_frames (b_off st1 - b_off st) (b_stack st1)), b_off st1). split; [|reflexivity].
    specialize (Hstrict eq_refl Hb1).
    unfold ext_step. cbn [fst snd]. exists (b_off st1 - b_off st). split; [lia|]. split; [apply frx_grow|]. split; [lia|].
    destruct HW1 as [_ [_ [Hco|Hco]]].
    + left. apply ends_at_or_after_frx. exact Hco.
    + right. apply skipn_nil_len. unfold sync in Hs1. rewrite <- Hs1. exact Hco.
Qed.

(* ------------------------------------------------------------------ runs *)
Definition accepted_run (outs : list rout) : Prop := exists base fin, nobase base /\ chk_ext_run input base 0 outs fin.

Lemma RI_accepted em st : RI em st -> b_bad st = None -> accepted_run em.
Proof.
  intros [HX _] Hb. destruct (HX Hb) as [cur [[base [Hz [H _]]] _]]. apply chk_ext_run_app in H.
  destruct H as [s [H _]]. exists base, s. split; assumption.
Qed.

Lemma accepted_snoc_id em o : (forall s, ext_step input o s s) -> accepted_run em -> accepted_run (em ++ [o]).
Proof.
  intros Hid [base [[fo fc] [Hz H]]]. exists base, (fo, fc). split; [exact Hz|]. apply chk_ext_run_app. exists (fo, fc). split; [exact H|].
  cbn [chk_ext_run fst snd]. exists (fo, fc). split; [apply Hid|reflexivity].
Qed.

Lemma bad_out_id b s : ext_step input (bad_out b) s s.
Proof. destruct b; reflexivity. Qed.

Lemma XKr_snoc_id em o st cur : (forall s, ext_step input o s s) -> XKr em st cur -> XKr (em ++ [o]) st cur.
Proof.
  intros Hid [base [Hz [H Hd]]]. exists base. split; [exact Hz|]. split; [|exact Hd].
  apply chk_ext_run_app in H. destruct H as [[so sc] [H1 H2]]. rewrite <- app_assoc. apply chk_ext_run_app. exists (so, sc). split; [exact H1|].
  cbn [app chk_ext_run fst snd] in *. exists (so, sc). split; [apply Hid|exact H2].
Qed.

Lemma RI_snoc_id em o st : (forall s, ext_step input o s s) -> RI em st -> RI (em ++ [o]) st.
Proof.
  intros Hid [HX HR]. split; [|exact HR]. intros Hb. destruct (HX Hb) as [cur [HK Hc]]. exists cur.
  split; [apply XKr_snoc_id; assumption|exact Hc].
Qed.

Section XRuns.
Variable c : cfg.
Hypothesis Hov : c_allow_over c = false.
Hypothesis Hbuf : c_buffered c = [].

Lemma p_run_all_XR : forall limit em st, RI em st -> b_bad st = None ->
  accepted_run (em ++ snd (p_run_all limit c st)) /\
  (b_bad (fst (p_run_all limit c st)) = None ->
   RI (em ++ snd (p_run_all limit c st)) (fst (p_run_all limit c st)) /\
   exists busy', (forall busy r, rec_sync busy (snd (p_run_all limit c st) ++ r) = rec_sync busy' r) /\
                 (busy' = false -> b_queue (fst (p_run_all limit c st)) = [])).
Proof.
  induction limit as [|l IH]; intros em st HR Hb; cbn [p_run_all].
  - cbn [fst snd]. split; [apply accepted_snoc_id; [reflexivity|eapply RI_accepted; eassumption]|].
    intros _. split; [apply RI_snoc_id; [reflexivity|exact HR]|]. exists true. split; [reflexivity|discriminate].
  - destruct (p_next_XR c em st Hov Hbuf HR Hb) as [H1 H2].
    destruct (p_next c st) as [st1 r]. cbn [fst snd] in H1, H2.
    destruct (b_bad st1) as [b|] eqn:Eb.
    { cbn [fst snd]. split; [apply accepted_snoc_id; [apply bad_out_id|eapply RI_accepted; eassumption]|].
      intros Hq. rewrite Eb in Hq. discriminate. }
    destruct r as [t o|e|]; cbn [nres_out] in H1.
    + specialize (IH _ _ H1 Eb). destruct (p_run_all l c st1) as [st2 outs]. cbn [fst snd] in *.
      change (OItem t o :: outs) with ([OItem t o] ++ outs). rewrite app_assoc. destruct IH as [A B]. split; [exact A|].
      intros Hq. destruct (B Hq) as [B1 [busy' [B2 B3]]]. split; [exact B1|]. exists busy'. split; [|exact B3].
      intros busy r. cbn [app rec_sync]. apply B2.
    + cbn [fst snd]. split; [eapply RI_accepted; eassumption|]. intros _. split; [exact H1|].
      exists false. split; [reflexivity|intros _; exact H2].
    + cbn [fst snd]. split; [eapply RI_accepted; eassumption|]. intros _. split; [exact H1|].
      exists false. split; [reflexivity|intros _; exact H2].
Qed.

Lemma p_run_ops_XR limit : forall ops em st busy, RI em st -> b_bad st = None -> (busy = false -> b_queue st = []) ->
  rec_sync busy (snd (p_run_ops c limit st ops)) = true -> accepted_run (em ++ snd (p_run_ops c limit st ops)).
Proof.
  induction ops as [|op ops IH]; intros em st busy HR Hb Hbusy; cbn [p_run_ops].
  - intros _. cbn [snd]. rewrite app_nil_r. eapply RI_accepted; eassumption.
  - destruct op.
    + destruct (p_next_XR c em st Hov Hbuf HR Hb) as [H1 H2].
      destruct (p_next c st) as [st1 r]. cbn [fst snd] in H1, H2.
      destruct (b_bad st1) as [b|] eqn:Eb.
      { intros _. cbn [snd]. apply accepted_snoc_id; [apply bad_out_id|eapply RI_accepted; eassumption]. }
      specialize (IH (em ++ [nres_out r]) st1 (match r with NItem _ _ => true | _ => false end) H1 Eb).
      destruct (p_run_ops c limit st1 ops) as [st2 outs]. cbn [snd] in *.
      change (?x :: outs) with ([x] ++ outs). rewrite app_assoc.
      destruct r as [t o|e|]; cbn [nres_out app rec_sync] in *; intros Hs; apply IH; try exact Hs;
        try discriminate; intros _; exact H2.
    + destruct (p_try_recover c st) as [st1 r] eqn:Etr.
      destruct (b_bad st1) as [b|] eqn:Eb.
      { intros _. cbn [snd]. apply accepted_snoc_id; [apply bad_out_id|eapply RI_accepted; eassumption]. }
      specialize (IH (em ++ [rec_out r]) st1 false).
      destruct (p_run_ops c limit st1 ops) as [st2 outs]. cbn [snd] in *.
      change (?x :: outs) with ([x] ++ outs). rewrite app_assoc.
      intros Hs.
      assert (Hs' : negb busy && rec_sync false outs = true) by (destruct r; exact Hs).
      apply andb_true_iff in Hs'. destruct Hs' as [Hn Hs']. destruct busy; [discriminate Hn|].
      destruct (p_try_recover_XR c em st HR Hb (Hbusy eq_refl)) as [A B]. rewrite Etr in A, B. cbn [fst snd] in A, B.
      destruct r; cbn [rec_out] in *; (apply IH; [exact A|exact Eb|intros _; exact B|exact Hs']).
    + destruct (p_run_all_XR limit em st HR Hb) as [Ha Hj].
      destruct (p_run_all limit c st) as [st1 outs1]. cbn [fst snd] in *.
      destruct (b_bad st1) eqn:Eb; [intros _; exact Ha|].
      destruct (Hj eq_refl) as [J1 [busy' [J2 J3]]].
      specialize (IH (em ++ outs1) st1 busy' J1 Eb J3). destruct (p_run_ops c limit st1 ops) as [st2 outs]. cbn [snd] in *.
      rewrite J2, app_assoc. exact IH.
Qed.

End XRuns.

Lemma RI_init : RI [] (p_init input).
Proof.
  split; [|split; [apply CInv_W, CInv_init|exact I]].
  intros _. exists 0. split; [exists []; split; [constructor|split; reflexivity]|].
  split; [reflexivity|]. split; [cbn; lia|intros _; reflexivity].
Qed.

End RunChecker.

(* C06, byte ranges over whole runs: with oversized children not tolerated and nothing buffered, for every input and every
   sequence of operations in which try_recover is never called while parsed items are still queued ([rec_sync]), the
   relaxed checker accepts the complete outcome list, errors and recoveries included *)
Theorem whole_run_extents : forall c input ops, c_allow_over c = false -> c_buffered c = [] ->
  rec_sync false (p_run c input ops) = true ->
  exists base fin, nobase base /\ chk_ext_run input base 0 (p_run c input ops) fin.
Proof.
  intros c input ops Hov Hbuf Hs. unfold p_run in *.
  apply (p_run_ops_XR input c Hov Hbuf _ ops [] (p_init input) false); [apply RI_init|reflexivity|reflexivity|exact Hs].
Qed.

(* ------------------------------------------------------------------ the relaxed checker is not vacuous; examples *)
(* a Start / element item is accepted only at the cursor and strictly before the end of every open known-size master *)
Lemma ext_step_item_begins input t o open cur s : is_se t = true -> ext_step input (OItem t o) (open, cur) s ->
  o = cur /\ ends_after o open = true.
Proof.
  unfold ext_step. cbn [fst snd chk_ext]. destruct t as [id v|id|id|id cs]; try discriminate; intros _.
  - destruct (hdr_at input o) as [[hl [n|]]|]; try discriminate.
    destruct (N.eqb_spec o cur) as [->|]; [|discriminate]. destruct (ends_after cur open); [split; reflexivity|discriminate].
  - destruct (hdr_at input o) as [[hl esz]|]; [|discriminate]. cbv zeta.
    destruct (N.eqb_spec o cur) as [->|]; [|discriminate]. destruct (ends_after cur open); [split; reflexivity|discriminate].
Qed.

Ltac step_item H :=
  let s := fresh "s" in let E := fresh "E" in
  destruct H as [s [E H]]; vm_compute in E; injection E as <-; cbn [fst snd] in H.

Definition xr_sp : spec :=
  [ {| e_id := 129; e_ty := DMaster; e_path := [] |}; {| e_id := 130; e_ty := DMaster; e_path := [PId 129] |};
    {| e_id := 16641; e_ty := DUInt; e_path := [PId 129; PId 130] |} ].
Definition xr_cfg : cfg :=
  {| c_sp := xr_sp; c_allow_id := false; c_allow_hier := false; c_allow_over := false; c_max := Some 4000000000;
     c_buffered := []; c_emit_eof := true |}.
Definition xr_late : list N := [129; 134; 130; 255; 65; 1; 129; 5; 65; 1; 129; 6].
Definition xr_rec : list N := [129; 142; 130; 255; 65; 1; 129; 5; 65; 1; 137; 65; 1; 129; 6; 65; 1; 129; 7].
Definition xr_stale : list N := [129; 134; 130; 255; 65; 1; 129; 5; 129; 128; 255; 129; 128].

Lemma whole_run_reject_ex :
  (forall fin, ~ chk_ext_run xr_late [] 0
     [OItem (TStart 129) 0; OItem (TStart 130) 2; OItem (TElem 16641 (VU 5)) 4; OErr (RHierarchy 16641 None);
      OItem (TElem 16641 (VU 6)) 8] fin) /\
  chk_ext_run xr_late [] 0
     [OItem (TStart 129) 0; OItem (TStart 130) 2; OItem (TElem 16641 (VU 5)) 4; OErr (RHierarchy 16641 None);
      OItem (TEnd 130) 2; OItem (TEnd 129) 0; OItem (TElem 16641 (VU 6)) 8] ([], 12).
Proof.
  split.
  - intros fin H. do 3 step_item H. destruct H as [[o1 c1] [[E1 _] H]]. cbn [fst snd] in *. subst o1.
    destruct H as [s [E _]]. apply ext_step_item_begins in E; [|reflexivity]. destruct E as [_ E]. vm_compute in E. discriminate.
  - cbn [chk_ext_run]. do 3 (eexists; split; [vm_compute; reflexivity|cbn [fst snd]]).
    exists ([(130, 2, None); (129, 0, Some 8)], 8). split; [split; [reflexivity|split; [cbn [fst snd]; lia|left; reflexivity]]|cbn [fst snd]].
    do 3 (eexists; split; [vm_compute; reflexivity|cbn [fst snd]]). reflexivity.
Qed.

Lemma whole_run_accept_ex :
  p_run xr_cfg xr_rec [RAll; RRecover; RAll] =
    [OItem (TStart 129) 0; OItem (TStart 130) 2; OItem (TElem 16641 (VU 5)) 4; OErr (RInvalidTagData 8 16641); ORecOk;
     OItem (TElem 16641 (VU 6)) 11; OItem (TElem 16641 (VU 7)) 15; OItem (TEnd 130) 2; OItem (TEnd 129) 0; ONone] /\
  rec_sync false (p_run xr_cfg xr_rec [RAll; RRecover; RAll]) = true /\
  chk_ext_run xr_rec [] 0 (p_run xr_cfg xr_rec [RAll; RRecover; RAll]) ([], 19) /\
  (forall fin, ~ chk_ext_run xr_rec [] 0
     [OItem (TStart 129) 0; OItem (TStart 130) 2; OItem (TElem 16641 (VU 5)) 4; OErr (RInvalidTagData 8 16641);
      OItem (TElem 16641 (VU 6)) 11; OItem (TElem 16641 (VU 7)) 15] fin).
Proof.
  assert (Hrun : p_run xr_cfg xr_rec [RAll; RRecover; RAll] =
    [OItem (TStart 129) 0; OItem (TStart 130) 2; OItem (TElem 16641 (VU 5)) 4; OErr (RInvalidTagData 8 16641); ORecOk;
     OItem (TElem 16641 (VU 6)) 11; OItem (TElem 16641 (VU 7)) 15; OItem (TEnd 130) 2; OItem (TEnd 129) 0; ONone])
    by (vm_compute; reflexivity).
  split; [exact Hrun|]. rewrite Hrun. split; [reflexivity|]. split.
  - cbn [chk_ext_run]. do 3 (eexists; split; [vm_compute; reflexivity|cbn [fst snd]]).
    exists ([(130, 2, None); (129, 0, Some 16)], 8). split; [split; [reflexivity|split; [cbn [fst snd]; lia|left; reflexivity]]|cbn [fst snd]].
    exists ([(130, 2, None); (129, 0, Some 19)], 11). split; [exists 3; split; [lia|split; [reflexivity|split; [cbn [fst snd]; lia|left; reflexivity]]]|cbn [fst snd]].
    do 4 (eexists; split; [vm_compute; reflexivity|cbn [fst snd]]).
    eexists; split; [reflexivity|cbn [fst snd]]. reflexivity.
  - intros fin H. do 3 step_item H. destruct H as [[o1 c1] [[E1 _] H]]. cbn [fst snd] in *. subst o1.
    destruct H as [s [E H]]. pose proof E as E'. apply ext_step_item_begins in E'; [|reflexivity]. destruct E' as [<- _].
    vm_compute in E. injection E as <-. cbn [fst snd] in H.
    destruct H as [s [E _]]. vm_compute in E. discriminate.
Qed.

Lemma whole_run_stale_ex :
  p_run xr_cfg xr_stale [RNext; RNext; RNext; RNext; RRecover; RAll] =
    [OItem (TStart 129) 0; OItem (TStart 130) 2; OItem (TElem 16641 (VU 5)) 4; OItem (TEnd 130) 2;
     ORecErr (REof 13 None None None); OItem (TEnd 129) 0; OItem (TStart 129) 8; OItem (TEnd 129) 8; ONone] /\
  rec_sync false (p_run xr_cfg xr_stale [RNext; RNext; RNext; RNext; RRecover; RAll]) = false /\
  (forall fin, ~ chk_ext_run xr_stale [] 0 (p_run xr_cfg xr_stale [RNext; RNext; RNext; RNext; RRecover; RAll]) fin).
Proof.
  assert (Hrun : p_run xr_cfg xr_stale [RNext; RNext; RNext; RNext; RRecover; RAll] =
    [OItem (TStart 129) 0; OItem (TStart 130) 2; OItem (TElem 16641 (VU 5)) 4; OItem (TEnd 130) 2;
     ORecErr (REof 13 None None None); OItem (TEnd 129) 0; OItem (TStart 129) 8; OItem (TEnd 129) 8; ONone])
    by (vm_compute; reflexivity).
  split; [exact Hrun|]. rewrite Hrun. split; [reflexivity|].
  intros fin H. do 4 step_item H. destruct H as [[o1 c1] [[E1 [_ E3]] H]]. cbn [fst snd] in *. subst o1.
  destruct H as [s [E H]]. unfold ext_step in E. cbn [fst snd chk_ext] in E.
  match type of E with (if ?b then _ else _) = _ => destruct b end; [|discriminate]. injection E as <-. cbn [fst snd] in H.
  destruct H as [s [E _]]. apply ext_step_item_begins in E; [|reflexivity]. destruct E as [E _].
  unfold xr_stale in E3. cbn [length] in E3. lia.
Qed.

Definition xr_stale2 : list N := [129; 134; 130; 255; 65; 1; 129; 5; 129; 135; 255; 130; 255; 65; 1; 129; 7].

Lemma whole_run_stale_ok_ex :
  p_run xr_cfg xr_stale2 [RNext; RNext; RNext; RNext; RRecover; RAll] =
    [OItem (TStart 129) 0; OItem (TStart 130) 2; OItem (TElem 16641 (VU 5)) 4; OItem (TEnd 130) 2; ORecOk;
     OItem (TEnd 129) 0; OItem (TStart 129) 8; OItem (TStart 130) 11; OItem (TElem 16641 (VU 7)) 13;
     OItem (TEnd 130) 11; OItem (TEnd 129) 8; ONone] /\
  rec_sync false (p_run xr_cfg xr_stale2 [RNext; RNext; RNext; RNext; RRecover; RAll]) = false /\
  (forall fin, ~ chk_ext_run xr_stale2 [] 0 (p_run xr_cfg xr_stale2 [RNext; RNext; RNext; RNext; RRecover; RAll]) fin).
Proof.
  assert (Hrun : p_run xr_cfg xr_stale2 [RNext; RNext; RNext; RNext; RRecover; RAll] =
    [OItem (TStart 129) 0; OItem (TStart 130) 2; OItem (TElem 16641 (VU 5)) 4; OItem (TEnd 130) 2; ORecOk;
     OItem (TEnd 129) 0; OItem (TStart 129) 8; OItem (TStart 130) 11; OItem (TElem 16641 (VU 7)) 13;
     OItem (TEnd 130) 11; OItem (TEnd 129) 8; ONone])
    by (vm_compute; reflexivity).
  split; [exact Hrun|]. rewrite Hrun. split; [reflexivity|].
  intros fin H. do 4 step_item H. destruct H as [[o1 c1] [[d [D0 [E1 [E2 _]]]] H]]. cbn [fst snd] in *. subst o1.
  cbn [map grow_entry fst snd] in H.
  destruct H as [s [E H]]. unfold ext_step in E. cbn [fst snd chk_ext] in E. unfold grow_entry in E. cbn [fst snd] in E.
  match type of E with (if ?b then _ else _) = _ => destruct b end; [|discriminate]. injection E as <-. cbn [fst snd] in H.
  destruct H as [s [E _]]. apply ext_step_item_begins in E; [|reflexivity]. destruct E as [E _]. lia.
Qed.
