(* C01, writer half: the calls that write a document tag by tag produce exactly its structural encoding [enc_forest]. *)
From Ebml Require Import Base Tools Spec Writer Reader Pure Encode.
From Ebml Require Import Proofs.Tactics Proofs.BytesProofs Proofs.VintProofs Proofs.DecodersProofs Proofs.SpecProofs Proofs.WriterProofs Proofs.PureProofs Proofs.RoundTrip.
Import ListNotations.
Local Open Scope N_scope.

Definition image (st : wst) : list N := w_dest st ++ w_buf st.

(* a width the writer produces for a size: the explicit one, or the smallest one under default options *)
Definition field_ok (d : bool) (sl : nat) (size : N) : Prop :=
  (1 <= sl <= 8)%nat /\ size < 2 ^ (7 * N.of_nat sl) - 1 /\ (d = true -> sl = find_size_len size 1 7).

Definition wsl (d : bool) (sl : nat) : nat := if d then O else sl.

Lemma size_len_of_wopt d sl : (1 <= sl <= 8)%nat -> size_len_of (wopt d sl) = wsl d sl.
Proof.
  intros H. destruct d; [reflexivity|]. unfold wopt, opts_known, size_len_of, wsl. cbn [o_len].
  destruct (Nat.leb_spec 1 sl); [|lia]. destruct (Nat.leb_spec sl 8); [reflexivity|lia].
Qed.

Lemma size_to_vint_field d sl size : field_ok d sl size -> size_to_vint size (wsl d sl) = Some (venc sl size).
Proof.
  intros [Hsl [Hlt Hd]]. unfold size_to_vint.
  assert (Hlen : match wsl d sl with O => find_size_len size 1 7 | _ => wsl d sl end = sl).
  { destruct d; cbn [wsl]; [symmetry; apply Hd; reflexivity|]. destruct sl; [lia|reflexivity]. }
  rewrite Hlen. destruct (N.leb_spec (2 ^ (7 * N.of_nat sl) - 1) size); [lia|].
  rewrite lor_marker by lia. reflexivity.
Qed.

Lemma find_size_len_small n : n < 127 -> find_size_len n 1 7 = 1%nat.
Proof. intros H. cbn [find_size_len]. change (2 ^ (7 * N.of_nat 1) - 1) with 127. destruct (N.ltb_spec n 127); [reflexivity|lia]. Qed.

Lemma small_field d sl n : field_ok d sl n -> n <= 8 -> small_size_field (wsl d sl) n = Ok (venc sl n).
Proof.
  intros [Hsl [Hlt Hd]] Hn. destruct d; cbn [wsl].
  - rewrite (Hd eq_refl), find_size_len_small by lia. cbn [small_size_field]. unfold venc.
    change (2 ^ (7 * N.of_nat 1)) with 128. rewrite be_bytes_S_hd. cbn [be_bytes]. change (256 ^ N.of_nat 0) with 1.
    rewrite N.div_1_r, N.mod_small by lia. f_equal. f_equal. lia.
  - unfold small_size_field. destruct sl as [|w]; [lia|]. rewrite as_vint_with_length_ok by lia. reflexivity.
Qed.

(* the value has the shape the declared type writes *)
Definition vshape (ty : dtype) (v : value) : Prop :=
  match ty, v with
  | DUInt, VU _ | DSInt, VI _ | DFloat, VF _ | DUtf8, VS _ | DBinary, VB _ => True
  | _, _ => False
  end.

Lemma raw_type_vshape id ty v : vshape ty v -> raw_type (TElem id v) (Some ty) = Some ty.
Proof. destruct ty, v; cbn [vshape]; intros H; try contradiction H; reflexivity. Qed.

Lemma payload_len_small ty v : vshape ty v -> ty = DUInt \/ ty = DSInt \/ ty = DFloat -> N.of_nat (length (payload_of v)) <= 8.
Proof.
  intros Hs Ht. destruct ty, v; cbn in Hs; try contradiction; try (destruct Ht as [Ht|[Ht|Ht]]; discriminate Ht); cbn [payload_of]; rewrite be_bytes_length.
  - unfold uint_width. destruct (n <? 2 ^ 8); [lia|]. destruct (n <? 2 ^ 16); [lia|]. destruct (n <? 2 ^ 32); lia.
  - unfold sint_width. destruct (_ && _); [lia|]. destruct (_ && _); [lia|]. destruct (_ && _); lia.
  - lia.
Qed.

Lemma write_leaf st id ty v d sl : ty <> DMaster -> vshape ty v -> field_ok d sl (N.of_nat (length (payload_of v))) ->
  write_element st id (Some ty) v (wsl d sl) =
    (append (append st (id_bytes id)) (venc sl (N.of_nat (length (payload_of v))) ++ payload_of v), WOk).
Proof.
  intros Hnm Hs Hf.
  destruct ty, v; cbn in Hs; try contradiction; try (contradiction Hnm; reflexivity); unfold write_element, write_payload.
  - pose proof (payload_len_small DUInt (VU n) I (or_introl eq_refl)) as Hl. cbn [payload_of] in *. rewrite be_bytes_length in *.
    rewrite (small_field d sl _ Hf Hl). reflexivity.
  - pose proof (payload_len_small DSInt (VI z) I (or_intror (or_introl eq_refl))) as Hl. cbn [payload_of] in *. rewrite be_bytes_length in *.
    rewrite (small_field d sl _ Hf Hl). reflexivity.
  - cbn [payload_of] in *. unfold sized_field. rewrite (size_to_vint_field d sl _ Hf). reflexivity.
  - cbn [payload_of] in *. unfold sized_field. rewrite (size_to_vint_field d sl _ Hf). reflexivity.
  - cbn [payload_of] in *. rewrite be_bytes_length in Hf. change (N.of_nat 8) with 8 in Hf.
    rewrite (small_field d sl 8 Hf) by lia. rewrite be_bytes_length. reflexivity.
Qed.

(* ---- conformance as the writer needs it *)
Fixpoint wconf (sp : spec) (d : bool) (ids : list N) (t : rtree) : Prop :=
  match t with
  | RLeaf id v pl sl =>
      get_path sp id = map PId ids /\
      exists ty, get_type sp id = Some ty /\ ty <> DMaster /\ vshape ty v /\ pl = payload_of v /\ field_ok d sl (N.of_nat (length pl))
  | RNode id sz cs =>
      get_path sp id = map PId ids /\ get_type sp id = Some DMaster /\ (forall sl, sz = Some sl -> field_ok d sl (flen cs)) /\
      (fix all (l : list rtree) : Prop := match l with [] => True | x :: l' => wconf sp d (ids ++ [id]) x /\ all l' end) cs
  end.

Lemma wconf_node sp d ids id sz cs : wconf sp d ids (RNode id sz cs) <->
  get_path sp id = map PId ids /\ get_type sp id = Some DMaster /\ (forall sl, sz = Some sl -> field_ok d sl (flen cs)) /\
  Forall (wconf sp d (ids ++ [id])) cs.
Proof.
  cbn [wconf].
  assert (H : (fix all (l : list rtree) : Prop := match l with [] => True | x :: l' => wconf sp d (ids ++ [id]) x /\ all l' end) cs
              <-> Forall (wconf sp d (ids ++ [id])) cs).
  { induction cs as [|x l IH]; [split; [constructor|trivial]|]. split.
    - intros [Hx Hl]. constructor; [exact Hx|apply IH, Hl].
    - intros HF. inversion HF as [|? ? Hx Hl]; subst. split; [exact Hx|apply IH, Hl]. }
  tauto.
Qed.

(* ---- runs in which every call succeeds *)
Definition wrun_ok (sp : spec) (st : wst) (ops : list wop) (st' : wst) : Prop :=
  fst (wrun sp st ops) = st' /\ Forall (fun r => fst r = WOk) (snd (wrun sp st ops)).

Lemma wrun_ok_nil sp st : wrun_ok sp st [] st.
Proof. split; [reflexivity|constructor]. Qed.

Lemma wrun_ok_cons sp st op ops st1 st2 : wstep sp st op = (st1, WOk) -> wrun_ok sp st1 ops st2 -> wrun_ok sp st (op :: ops) st2.
Proof.
  intros Hs [H1 H2]. unfold wrun_ok. cbn [wrun]. rewrite Hs. destruct (wrun sp st1 ops) as [s rs]. cbn [fst snd] in *.
  split; [exact H1|constructor; [reflexivity|exact H2]].
Qed.

Lemma wrun_ok_app sp : forall a st b st1 st2, wrun_ok sp st a st1 -> wrun_ok sp st1 b st2 -> wrun_ok sp st (a ++ b) st2.
Proof.
  induction a as [|op a IH]; intros st b st1 st2 [H1 H2] Hb.
  - cbn in H1. subst st1. exact Hb.
  - cbn [app]. cbn [wrun] in H1, H2. destruct (wstep sp st op) as [s r] eqn:Es.
    assert (Hr : r = WOk).
    { destruct r; [reflexivity| |]; [destruct (wrun sp s a); cbn [snd] in H2|cbn [snd] in H2]; inversion H2 as [|? ? Hh _]; subst; discriminate Hh. }
    subst r. apply (wrun_ok_cons sp st op (a ++ b) s st2 Es). apply (IH s b st1 st2); [|exact Hb].
    unfold wrun_ok. destruct (wrun sp s a) as [s' rs]. cbn [fst snd] in *. split; [exact H1|inversion H2; assumption].
Qed.

(* ---- one write call on a destination that accepts everything *)
Lemma flush_acc st : w_script st = [] ->
  flush_if_streaming st =
    (if has_known (w_open st) then st else {| w_open := w_open st; w_buf := []; w_dest := w_dest st ++ w_buf st; w_script := [] |}, WOk).
Proof.
  intros Hs. unfold flush_if_streaming. destruct (has_known (w_open st)); [reflexivity|].
  rewrite (private_flush_acc st Hs). reflexivity.
Qed.

Lemma write_step sp st t o st1 : buffer_tag sp t o st = (st1, WOk) -> w_script st = [] ->
  exists st', wstep sp st (OpWrite t o) = (st', WOk) /\ w_open st' = w_open st1 /\ w_script st' = [] /\
    image st' = w_dest st ++ w_buf st1 /\ (has_known (w_open st1) = true -> w_dest st' = w_dest st /\ w_buf st' = w_buf st1) /\
    (has_known (w_open st1) = false -> w_buf st' = []).
Proof.
  intros Hb Hs. destruct (buffer_dest sp t o st st1 WOk Hb) as [Hd Hsc]. rewrite Hs in Hsc.
  cbn [wstep]. unfold write_advanced. rewrite Hb, (flush_acc st1 Hsc). eexists. split; [reflexivity|].
  unfold image. destruct (has_known (w_open st1)); cbn [w_open w_script w_dest w_buf].
  - rewrite Hd. repeat split; try assumption; discriminate.
  - rewrite Hd, app_nil_r. repeat split; discriminate.
Qed.

Lemma validate_chain sp id o ids : get_path sp id = map PId ids -> rev (open_ids o) = ids -> w_validate sp id o = true.
Proof.
  intros Hp Hi. unfold w_validate, validate_tag_path.
  rewrite count_ended_all_known by (apply Forall_forall; intros x Hx; apply in_map_iff in Hx; destruct Hx as [y [<- _]]; reflexivity).
  cbn [skipn]. rewrite map_map. cbn [fst]. unfold open_ids in Hi. rewrite Hi, Hp. apply path_matches_ids.
Qed.

Definition Wtree (sp : spec) (d : bool) (t : rtree) : Prop :=
  forall ids st, wconf sp d ids t -> w_script st = [] -> rev (open_ids (w_open st)) = ids -> (has_known (w_open st) = false -> w_buf st = []) ->
  exists st', wrun_ok sp st (wops_tree d t) st' /\ w_open st' = w_open st /\ w_script st' = [] /\ image st' = image st ++ enc_tree t /\
    (has_known (w_open st) = true -> w_dest st' = w_dest st) /\ (has_known (w_open st) = false -> w_buf st' = []).

Lemma write_forest sp d : forall l, Forall (Wtree sp d) l -> forall ids st, Forall (wconf sp d ids) l -> w_script st = [] ->
  rev (open_ids (w_open st)) = ids -> (has_known (w_open st) = false -> w_buf st = []) ->
  exists st', wrun_ok sp st (wops_forest d l) st' /\ w_open st' = w_open st /\ w_script st' = [] /\ image st' = image st ++ enc_forest l /\
    (has_known (w_open st) = true -> w_dest st' = w_dest st) /\ (has_known (w_open st) = false -> w_buf st' = []).
Proof.
  induction l as [|x l IH]; intros HW ids st Hc Hs Hi Hinv.
  - exists st. split; [apply wrun_ok_nil|]. cbn [enc_forest]. rewrite app_nil_r. repeat split; auto.
  - inversion HW as [|? ? HWx HWl]; subst. inversion Hc as [|? ? Hcx Hcl]; subst.
    destruct (HWx _ st Hcx Hs eq_refl Hinv) as [st1 [R1 [O1 [S1 [I1 [K1 U1]]]]]].
    assert (Hinv1 : has_known (w_open st1) = false -> w_buf st1 = []) by (rewrite O1; exact U1).
    assert (Hi1 : rev (open_ids (w_open st1)) = rev (open_ids (w_open st))) by (rewrite O1; reflexivity).
    destruct (IH HWl _ st1 Hcl S1 Hi1 Hinv1) as [st2 [R2 [O2 [S2 [I2 [K2 U2]]]]]].
    exists st2. split; [cbn [wops_forest]; eapply wrun_ok_app; eassumption|].
    split; [congruence|]. split; [exact S2|]. split; [rewrite I2, I1; cbn [enc_forest]; rewrite app_assoc; reflexivity|].
    rewrite O1 in K2, U2. split; [intros Hk; rewrite (K2 Hk); exact (K1 Hk)|exact U2].
Qed.

Lemma wops_tree_node d id sz cs :
  wops_tree d (RNode id sz cs) = OpWrite (TStart id) (node_opt d sz) :: wops_forest d cs ++ [OpWrite (TEnd id) o_default].
Proof.
  cbn [wops_tree].
  assert (H : (fix go (l : list rtree) : list wop := match l with [] => [] | c :: l' => wops_tree d c ++ go l' end) cs = wops_forest d cs).
  { induction cs as [|x l IH]; [reflexivity|]. cbn [wops_forest]. rewrite <- IH. reflexivity. }
  rewrite H. reflexivity.
Qed.

Lemma end_step sp st id : get_type sp id = Some DMaster -> buffer_tag sp (TEnd id) o_default st = end_tag st id.
Proof.
  intros Hty. rewrite buffer_tag_eq; raw_simpl. cbn [tag_id o_default o_unknown is_master_tag negb andb]. rewrite Hty. cbn [is_master_ty andb negb].
  unfold should_validate; raw_simpl. cbn [tag_id is_end negb]. rewrite Hty. cbn [andb]. unfold buffer_act; raw_simpl. cbn [o_unknown o_default tag_id]. rewrite Hty. reflexivity.
Qed.

Lemma write_tree sp d : forall t, Wtree sp d t.
Proof.
  induction t as [id v pl sl|id sz cs IH] using rtree_ind'; unfold Wtree; intros ids st Hc Hs Hi Hinv.
  - (* an element *)
    destruct Hc as [Hpath [ty [Hty [Hnm [Hshape [Hpl Hf]]]]]]. subst pl.
    assert (Hsl : (1 <= sl <= 8)%nat) by (destruct Hf; assumption).
    assert (Hb : buffer_tag sp (TElem id v) (wopt d sl) st =
                 (append (append st (id_bytes id)) (venc sl (N.of_nat (length (payload_of v))) ++ payload_of v), WOk)).
    { assert (Hty2 : raw_type (TElem id v) (get_type sp id) = Some ty) by (rewrite Hty; apply raw_type_vshape, Hshape). rewrite buffer_tag_eq; raw_simpl. cbn [tag_id is_master_tag negb]. rewrite Hty2.
      assert (Hu : o_unknown (wopt d sl) = false) by (destruct d; reflexivity). rewrite Hu. cbn [andb].
      assert (Hm : is_master_ty (Some ty) = false) by (destruct ty; try reflexivity; contradiction Hnm; reflexivity). rewrite Hm. cbn [andb].
      unfold should_validate; raw_simpl. cbn [tag_id]. rewrite Hty2.
      assert (Hv : match ty with DMaster => negb (is_end (TElem id v)) | _ => true end = true) by (destruct ty; reflexivity). rewrite Hv.
      rewrite (validate_chain sp id (w_open st) ids Hpath Hi). cbn [negb andb].
      unfold buffer_act; raw_simpl. rewrite Hu. cbn [tag_id]. rewrite Hty2, (size_len_of_wopt d sl Hsl).
      destruct ty; try (contradiction Hnm; reflexivity); apply write_leaf; assumption. }
    destruct (write_step sp st _ _ _ Hb Hs) as [st' [Hstep [Ho [Hsc [Him [Hk Hu]]]]]].
    cbn [append set_buf w_open w_buf] in Ho, Him, Hk, Hu.
    exists st'. split; [cbn [wops_tree]; eapply wrun_ok_cons; [exact Hstep|apply wrun_ok_nil]|].
    split; [exact Ho|]. split; [exact Hsc|]. split; [rewrite Him; unfold image; cbn [enc_tree]; rewrite <- !app_assoc; reflexivity|].
    split; [intros Hkn; apply Hk, Hkn|exact Hu].
  - (* a master *)
    apply wconf_node in Hc. destruct Hc as [Hpath [Hty [Hsz Hcs]]]. rewrite wops_tree_node.
    assert (Hval : w_validate sp id (w_open st) = true) by (apply (validate_chain sp id (w_open st) ids Hpath Hi)).
    destruct sz as [sl|].
    + (* known size: the children are held back, the header is inserted in front of them at the End *)
      pose proof (Hsz sl eq_refl) as Hf. assert (Hsl : (1 <= sl <= 8)%nat) by (destruct Hf; assumption).
      assert (Hb : buffer_tag sp (TStart id) (wopt d sl) st = (start_tag st id (wsl d sl), WOk)).
      { rewrite buffer_tag_eq; raw_simpl. cbn [tag_id is_master_tag negb]. rewrite Hty.
        assert (Hu : o_unknown (wopt d sl) = false) by (destruct d; reflexivity). rewrite Hu. cbn [andb is_master_ty].
        unfold should_validate; raw_simpl. cbn [tag_id is_end negb]. rewrite Hty, Hval. cbn [negb andb].
        unfold buffer_act; raw_simpl. rewrite Hu. cbn [tag_id]. rewrite Hty, (size_len_of_wopt d sl Hsl). reflexivity. }
      destruct (write_step sp st _ _ _ Hb Hs) as [st1 [Hstep1 [Ho1 [Hsc1 [Him1 [Hk1 _]]]]]].
      cbn [start_tag set_open w_open w_buf] in Ho1, Him1, Hk1.
      assert (Hkn1 : has_known (w_open st1) = true) by (rewrite Ho1; reflexivity).
      destruct (Hk1 eq_refl) as [Hd1 Hb1].
      assert (Hi1 : rev (open_ids (w_open st1)) = ids ++ [id]) by (rewrite Ho1; unfold open_ids in *; cbn [map rev fst]; rewrite Hi; reflexivity).
      assert (Hinv1 : has_known (w_open st1) = false -> w_buf st1 = []) by (rewrite Hkn1; discriminate).
      destruct (write_forest sp d cs IH _ st1 Hcs Hsc1 Hi1 Hinv1) as [st2 [R2 [O2 [S2 [I2 [K2 _]]]]]].
      pose proof (K2 Hkn1) as Hd2.
      assert (Hb2 : w_buf st2 = w_buf st ++ enc_forest cs).
      { unfold image in I2. rewrite Hd2, Hb1, <- app_assoc in I2. apply app_inv_head in I2. exact I2. }
      (* the End *)
      assert (He : buffer_tag sp (TEnd id) o_default st2 =
                   (set_open (set_buf st2 (w_buf st ++ id_bytes id ++ venc sl (flen cs) ++ enc_forest cs)) (w_open st), WOk)).
      { rewrite (end_step sp st2 id Hty). unfold end_tag. rewrite O2, Ho1. rewrite N.eqb_refl, Hb2, app_length.
        destruct (Nat.ltb_spec (length (w_buf st) + length (enc_forest cs)) (length (w_buf st))); [lia|].
        replace (length (w_buf st) + length (enc_forest cs) - length (w_buf st))%nat with (length (enc_forest cs)) by lia.
        fold (flen cs). rewrite (size_to_vint_field d sl (flen cs) Hf).
        rewrite firstn_app, firstn_all, Nat.sub_diag, skipn_app, skipn_all, Nat.sub_diag. cbn [firstn skipn app]. rewrite app_nil_r. reflexivity. }
      destruct (write_step sp st2 _ _ _ He S2) as [st3 [Hstep3 [Ho3 [Hsc3 [Him3 [Hk3 Hu3]]]]]].
      cbn [set_open set_buf w_open w_buf] in Ho3, Him3, Hk3, Hu3.
      exists st3. split.
      { eapply wrun_ok_cons; [exact Hstep1|]. eapply wrun_ok_app; [exact R2|]. eapply wrun_ok_cons; [exact Hstep3|apply wrun_ok_nil]. }
      split; [exact Ho3|]. split; [exact Hsc3|]. split.
      { rewrite Him3, Hd2, Hd1. unfold image. rewrite enc_tree_node, <- !app_assoc. reflexivity. }
      split; [intros Hkn; destruct (Hk3 Hkn) as [Hd3 _]; rewrite Hd3, Hd2, Hd1; reflexivity|exact Hu3].
    + (* unknown size: the header goes out at once *)
      assert (Hb : buffer_tag sp (TStart id) opts_unknown st = (start_unknown_size_tag st id, WOk)).
      { rewrite buffer_tag_eq; raw_simpl. cbn [tag_id is_master_tag negb opts_unknown o_unknown]. rewrite Hty. cbn [andb is_master_ty negb].
        unfold should_validate; raw_simpl. cbn [tag_id is_end negb]. rewrite Hty, Hval. cbn [negb andb].
        unfold buffer_act; raw_simpl. cbn [o_unknown opts_unknown]. reflexivity. }
      destruct (write_step sp st _ _ _ Hb Hs) as [st1 [Hstep1 [Ho1 [Hsc1 [Him1 [Hk1 Hu1]]]]]].
      cbn [start_unknown_size_tag set_open set_buf w_open w_buf] in Ho1, Him1, Hk1, Hu1.
      assert (Hkn1 : has_known (w_open st1) = has_known (w_open st)) by (rewrite Ho1; reflexivity).
      assert (Hi1 : rev (open_ids (w_open st1)) = ids ++ [id]) by (rewrite Ho1; unfold open_ids in *; cbn [map rev fst]; rewrite Hi; reflexivity).
      assert (Hinv1 : has_known (w_open st1) = false -> w_buf st1 = []) by (rewrite Ho1; exact Hu1).
      destruct (write_forest sp d cs IH _ st1 Hcs Hsc1 Hi1 Hinv1) as [st2 [R2 [O2 [S2 [I2 [K2 U2]]]]]].
      assert (He : buffer_tag sp (TEnd id) o_default st2 = (set_open st2 (w_open st), WOk)).
      { rewrite (end_step sp st2 id Hty). unfold end_tag. rewrite O2, Ho1. rewrite N.eqb_refl. reflexivity. }
      destruct (write_step sp st2 _ _ _ He S2) as [st3 [Hstep3 [Ho3 [Hsc3 [Him3 [Hk3 Hu3]]]]]].
      cbn [set_open w_open w_buf] in Ho3, Him3, Hk3, Hu3.
      exists st3. split.
      { eapply wrun_ok_cons; [exact Hstep1|]. eapply wrun_ok_app; [exact R2|]. eapply wrun_ok_cons; [exact Hstep3|apply wrun_ok_nil]. }
      split; [exact Ho3|]. split; [exact Hsc3|]. split.
      { rewrite Him3. fold (image st2). rewrite I2, Him1, enc_tree_node. unfold image. rewrite <- !app_assoc. reflexivity. }
      split; [|exact Hu3].
      intros Hkn. destruct (Hk3 Hkn) as [Hd3 _]. rewrite Hd3. rewrite Hkn1 in K2. rewrite (K2 Hkn). destruct (Hk1 Hkn) as [Hx _]. exact Hx.
Qed.

(* ---- the whole document *)
Theorem writer_encodes sp d f : Forall (wconf sp d []) f ->
  Forall (fun r => fst r = WOk) (fst (run_writer sp (wops_forest d f) [])) /\ snd (run_writer sp (wops_forest d f) []) = enc_forest f.
Proof.
  intros Hc.
  assert (HW : Forall (Wtree sp d) f) by (apply Forall_forall; intros t _; apply write_tree).
  destruct (write_forest sp d f HW [] (w_init []) Hc eq_refl eq_refl (fun _ => eq_refl)) as [st' [[R1 R2] [_ [_ [Him [_ Hu]]]]]].
  unfold run_writer. destruct (wrun sp (w_init []) (wops_forest d f)) as [st rs]. cbn [fst snd] in *. subst st'.
  split; [exact R2|]. unfold image in Him. rewrite (Hu eq_refl), app_nil_r in Him. exact Him.
Qed.

Lemma op_tags_tree d : forall t, map op_tag (wops_tree d t) = map Some (tags_tree t).
Proof.
  induction t as [id v pl sl|id sz cs IH] using rtree_ind'; [reflexivity|].
  rewrite wops_tree_node, tags_tree_node. cbn [map op_tag]. f_equal. rewrite !map_app. cbn [map op_tag]. f_equal.
  induction cs as [|x l IHl]; [reflexivity|]. inversion IH as [|? ? Hx Hl]; subst.
  cbn [wops_forest tags_forest]. rewrite !map_app, Hx, (IHl Hl). reflexivity.
Qed.

Lemma op_tags_forest d : forall l, map op_tag (wops_forest d l) = map Some (tags_forest l).
Proof. induction l as [|x l IH]; [reflexivity|]. cbn [wops_forest tags_forest]. rewrite !map_app, op_tags_tree, IH. reflexivity. Qed.

(* ---- what the reader additionally needs: well-formed ids, values in range, valid UTF-8, sizes within the limit *)
Definition vok (v : value) : Prop :=
  match v with
  | VU n => n < 2 ^ 64
  | VI z => (- 2 ^ 63 <= z < 2 ^ 63)%Z
  | VF b => b < 2 ^ 64
  | VS bs => wf_bytes bs /\ utf8_valid bs = true
  | VB bs => wf_bytes bs
  | VRaw bs => wf_bytes bs
  end.

Fixpoint rconf (c : cfg) (t : rtree) : Prop :=
  match t with
  | RLeaf id v pl sl => idok id /\ vok v /\ size_ok c (SKnown (N.of_nat (length pl)))
  | RNode id sz cs =>
      idok id /\ size_ok c (node_esz sz cs) /\
      (fix all (l : list rtree) : Prop := match l with [] => True | x :: l' => rconf c x /\ all l' end) cs
  end.

Lemma rconf_node c id sz cs : rconf c (RNode id sz cs) <-> idok id /\ size_ok c (node_esz sz cs) /\ Forall (rconf c) cs.
Proof.
  cbn [rconf].
  assert (H : (fix all (l : list rtree) : Prop := match l with [] => True | x :: l' => rconf c x /\ all l' end) cs <-> Forall (rconf c) cs).
  { induction cs as [|x l IH]; [split; [constructor|trivial]|]. split.
    - intros [Hx Hl]. constructor; [exact Hx|apply IH, Hl].
    - intros HF. inversion HF as [|? ? Hx Hl]; subst. split; [exact Hx|apply IH, Hl]. }
  tauto.
Qed.

Lemma payload_decodes ty v : vshape ty v -> vok v -> decodes (Some ty) (payload_of v) v /\ wf_bytes (payload_of v).
Proof.
  intros Hs Hv. destruct ty, v; cbn in Hs; try contradiction; cbn [decodes payload_of vok] in *.
  - split; [apply writer_uint_inverted, Hv|apply be_bytes_wf].
  - split; [apply writer_sint_inverted, Hv|apply be_bytes_wf].
  - destruct Hv as [Hw Hu]. split; [split; [reflexivity|exact Hu]|exact Hw].
  - split; [reflexivity|exact Hv].
  - split; [apply writer_float_inverted, Hv|apply be_bytes_wf].
Qed.

Lemma wconf_conf c d : forall t ids, wconf (c_sp c) d ids t -> rconf c t -> conf c ids t.
Proof.
  induction t as [id v pl sl|id sz cs IH] using rtree_ind'; intros ids Hw Hr.
  - destruct Hw as [Hpath [ty [Hty [Hnm [Hshape [Hpl [Hsl [Hlt _]]]]]]]]. destruct Hr as [Hid [Hv Hmax]]. subst pl.
    destruct (payload_decodes ty v Hshape Hv) as [Hdec Hwf]. cbn [conf].
    split; [exact Hid|]. split; [exact Hsl|]. split; [exact Hlt|]. split; [exact Hwf|].
    split; [exists ty; split; [exact Hty|split; [exact Hnm|exact Hdec]]|]. split; [exact Hpath|exact Hmax].
  - apply wconf_node in Hw. apply rconf_node in Hr. apply conf_node.
    destruct Hw as [Hpath [Hty [Hsz Hcs]]]. destruct Hr as [Hid [Hmax Hrs]].
    split; [exact Hid|]. split; [intros sl Hsl; destruct (Hsz sl Hsl) as [H1 [H2 _]]; split; assumption|].
    split; [exact Hty|]. split; [exact Hpath|]. split; [exact Hmax|].
    clear Hsz Hmax. induction cs as [|x l IHl]; [constructor|].
    inversion IH as [|? ? Hx Hl]; subst. inversion Hcs as [|? ? Hcx Hcl]; subst. inversion Hrs as [|? ? Hrx Hrl]; subst.
    constructor; [apply Hx; assumption|apply IHl; assumption].
Qed.

(* C01: what the writer emits for a conforming tag sequence reads back as exactly that tag sequence *)
Theorem write_read_roundtrip c d f : strict c -> c_buffered c = [] -> c_emit_eof c = true ->
  Forall (wconf (c_sp c) d []) f -> Forall (rconf c) f ->
  Forall (fun r => fst r = WOk) (fst (run_writer (c_sp c) (wops_forest d f) [])) /\
  map out_tag (p_run c (snd (run_writer (c_sp c) (wops_forest d f) [])) [RAll]) = map op_tag (wops_forest d f) ++ [None].
Proof.
  intros Hs Hb He Hw Hr. destruct (writer_encodes (c_sp c) d f Hw) as [Hok Henc]. split; [exact Hok|].
  rewrite Henc, op_tags_forest. apply reader_roundtrip_tags; try assumption.
  rewrite Forall_forall in *. intros t Hin. apply (wconf_conf c d t []); [apply Hw, Hin|apply Hr, Hin].
Qed.
