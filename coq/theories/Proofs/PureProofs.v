(* Parse-level facts about the abstract reader (Model/Pure.v); by Refine.buffered_refines_pure they hold for the buffered
   machine on every source that never pauses or fails.  C13 (tolerance switches), C03 (offsets), C05 (totality parts). *)
From Ebml Require Import Base Tools Spec Reader Pure Proofs.Tactics Proofs.ReaderIO Proofs.Refine.

Arguments vint_len : simpl never.
Arguments read_vint : simpl never.

(* ------------------------------------------------------------------ C13: which errors can occur *)
Definition is_cid (e : rerr) : bool := match e with RInvalidTagId _ _ => true | _ => false end.
Definition is_hier (e : rerr) : bool := match e with RHierarchy _ _ => true | _ => false end.
Definition is_over (e : rerr) : bool := match e with ROversized _ _ _ => true | _ => false end.

(* an error the configuration permits: a tolerated class never shows up *)
Definition allowed (c : cfg) (e : rerr) : Prop :=
  (c_allow_id c = true -> is_cid e = false) /\ (c_allow_hier c = true -> is_hier e = false) /\ (c_allow_over c = true -> is_over e = false).

Lemma allowed_other c e : is_cid e = false -> is_hier e = false -> is_over e = false -> allowed c e.
Proof. intros. repeat split; auto. Qed.

Lemma allowed_over c e : c_allow_over c = false -> is_cid e = false -> is_hier e = false -> allowed c e.
Proof. intros H H1 H2. split; [auto|]. split; [auto|rewrite H; discriminate]. Qed.
Lemma allowed_hier c e : c_allow_hier c = false -> is_cid e = false -> is_over e = false -> allowed c e.
Proof. intros H H1 H2. split; [auto|]. split; [rewrite H; discriminate|auto]. Qed.
Lemma allowed_cid c e : c_allow_id c = false -> is_hier e = false -> is_over e = false -> allowed c e.
Proof. intros H H1 H2. split; [rewrite H; discriminate|]. split; auto. Qed.

Lemma p_tag_id_err st e : p_tag_id st = Err e -> exists o, e = REof o None None None.
Proof.
  unfold p_tag_id. destruct (b_bytes st) as [|b0 tl]; [intros H; inversion H; eexists; reflexivity|].
  destruct (b0 =? 0); [discriminate|]. destruct (_ <? _); intros H; inversion H. eexists; reflexivity.
Qed.

Lemma p_hier_step_err c st id ty st' e : p_hier_step c st id ty = (st', Some e) -> c_allow_hier c = false /\ is_cid e = false /\ is_over e = false.
Proof.
  unfold p_hier_step. destruct (c_allow_hier c); cbn [negb andb]; [intros H; inversion H|].
  destruct ty; cbn [andb]; [|intros H; inversion H].
  destruct (b_det st).
  - destruct (_ && _); intros H; inversion H; subst. repeat split.
  - destruct (all_ids _).
    + destruct (implied_stack _ _); [destruct (_ && _)|]; intros H; inversion H; subst; repeat split.
    + destruct (_ && _); intros H; inversion H; subst. repeat split.
Qed.

Lemma p_header_err c st st' e : p_header c st = (st', Err e) -> allowed c e.
Proof.
  rewrite p_header_unfold. destruct (p_tag_id st) as [[id idl]|e0|] eqn:Et.
  - unfold p_hdr_tail. destruct (read_vint _) as [[[size sl]|]|e1|]; try (intros H; inversion H; subst; apply allowed_other; reflexivity).
    destruct (is_numeric _ && _); [intros H; inversion H; subst; apply allowed_other; reflexivity|].
    destruct (c_allow_id c) eqn:Eid; cbn [negb andb].
    + destruct (p_hier_step c st id (get_type (c_sp c) id)) as [st1 [e1|]] eqn:Eh.
      * intros H; inversion H; subst. destruct (p_hier_step_err _ _ _ _ _ _ Eh) as [Hh [H1 H2]].
        apply allowed_hier; assumption.
      * destruct (b_bad st1); [discriminate|].
        destruct (c_allow_over c) eqn:Eo; cbn [negb andb].
        -- destruct (c_max c); destruct (ebml_size size sl); try destruct (_ <? _); intros H; inversion H; subst; apply allowed_other; reflexivity.
        -- destruct (p_invalid_tag_size _ _).
           ++ intros H; inversion H; subst. apply allowed_over; [exact Eo|reflexivity|reflexivity].
           ++ destruct (c_max c); destruct (ebml_size size sl); try destruct (_ <? _); intros H; inversion H; subst; apply allowed_other; reflexivity.
    + destruct (get_type (c_sp c) id) eqn:Ety.
      * destruct (p_hier_step c st id (Some d)) as [st1 [e1|]] eqn:Eh.
        -- intros H; inversion H; subst. destruct (p_hier_step_err _ _ _ _ _ _ Eh) as [Hh [H1 H2]].
           apply allowed_hier; assumption.
        -- destruct (b_bad st1); [discriminate|].
           destruct (c_allow_over c) eqn:Eo; cbn [negb andb].
           ++ destruct (c_max c); destruct (ebml_size size sl); try destruct (_ <? _); intros H; inversion H; subst; apply allowed_other; reflexivity.
           ++ destruct (p_invalid_tag_size _ _).
              ** intros H; inversion H; subst. apply allowed_over; [exact Eo|reflexivity|reflexivity].
              ** destruct (c_max c); destruct (ebml_size size sl); try destruct (_ <? _); intros H; inversion H; subst; apply allowed_other; reflexivity.
      * intros H; inversion H; subst. apply allowed_cid; [exact Eid|reflexivity|reflexivity].
  - intros H; inversion H; subst. destruct (p_tag_id_err _ _ Et) as [o ->]. apply allowed_other; reflexivity.
  - discriminate.
Qed.

Lemma p_read_tag_err c st st' e : p_read_tag c st = (st', Err e) -> allowed c e.
Proof.
  rewrite p_read_tag_unfold. destruct (p_header c st) as [st1 [[[[id ty] esz] hl]|e0|]] eqn:Eh.
  - unfold p_tag_tail. destruct ty as [[]|]; try discriminate;
      (destruct esz as [size|]; [|intros H; inversion H; subst; apply allowed_other; reflexivity]);
      (destruct (_ <? size); [intros H; inversion H; subst; apply allowed_other; reflexivity|]);
      try discriminate;
      try (destruct (arr_to_u64 _); intros H; inversion H; subst; apply allowed_other; reflexivity);
      try (destruct (arr_to_i64 _); intros H; inversion H; subst; apply allowed_other; reflexivity);
      try (destruct (arr_to_f64 _); intros H; inversion H; subst; apply allowed_other; reflexivity);
      try (destruct (utf8_valid _); intros H; inversion H; subst; apply allowed_other; reflexivity).
  - intros H; inversion H; subst. eapply p_header_err, Eh.
  - discriminate.
Qed.

(* in strict mode (unknown ids not tolerated) no raw tag is produced *)
Fixpoint no_raw (t : tag) : Prop :=
  match t with
  | TElem _ (VRaw _) => False
  | TFull _ cs => (fix all (l : list tag) : Prop := match l with [] => True | c :: l' => no_raw c /\ all l' end) cs
  | _ => True
  end.

Lemma p_header_type c st st' id ty esz hl : c_allow_id c = false -> p_header c st = (st', Ok (id, ty, esz, hl)) -> ty <> None.
Proof.
  intros Hid. rewrite p_header_unfold. destruct (p_tag_id st) as [[id0 idl]|e0|]; try discriminate.
  unfold p_hdr_tail. destruct (read_vint _) as [[[size sl]|]|e1|]; try discriminate.
  destruct (is_numeric _ && _); [discriminate|]. rewrite Hid. cbn [negb andb].
  destruct (get_type (c_sp c) id0) eqn:Ety; [|discriminate].
  destruct (p_hier_step _ _ _ _) as [st1 [e1|]]; [discriminate|]. destruct (b_bad st1); [discriminate|].
  destruct (_ && _); [discriminate|].
  destruct (c_max c); destruct (ebml_size size sl); try destruct (_ <? _); intros H; inversion H; subst; discriminate.
Qed.

Lemma p_read_tag_no_raw c st st' p : c_allow_id c = false -> p_read_tag c st = (st', Ok p) -> no_raw (p_tag p).
Proof.
  intros Hid. rewrite p_read_tag_unfold. destruct (p_header c st) as [st1 [[[[id ty] esz] hl]|e0|]] eqn:Eh; try discriminate.
  pose proof (p_header_type c st st1 id ty esz hl Hid Eh) as Hty.
  unfold p_tag_tail. destruct ty as [[]|]; [| | | | | |contradiction]; try (intros H; inversion H; subst; exact I);
    (destruct esz as [size|]; [|discriminate]); (destruct (_ <? size); [discriminate|]);
    try (destruct (arr_to_u64 _); intros H; inversion H; subst; exact I);
    try (destruct (arr_to_i64 _); intros H; inversion H; subst; exact I);
    try (destruct (arr_to_f64 _); intros H; inversion H; subst; exact I);
    try (destruct (utf8_valid _); intros H; inversion H; subst; exact I);
    intros H; inversion H; subst; exact I.
Qed.

(* ---- the emission queue only ever holds permitted errors and (in strict mode) no raw tags *)
Definition qitem_ok (c : cfg) (q : qitem) : Prop :=
  match q with QErr e => allowed c e | QOk t _ => c_allow_id c = false -> no_raw t end.
Definition queue_ok (c : cfg) (st : pst) : Prop := Forall (qitem_ok c) (b_queue st).

Lemma no_raw_full id cs : no_raw (TFull id cs) <-> Forall no_raw cs.
Proof.
  cbn [no_raw]. induction cs as [|x cs IH]; [split; [constructor|auto]|].
  split; [intros [H1 H2]; constructor; [exact H1|apply IH, H2]|intros H; inversion H; subst; split; [assumption|apply IH; assumption]].
Qed.

Lemma split_child_forall (P : tag -> Prop) cid : forall l depth, Forall P l ->
  Forall P (fst (split_child cid depth l)) /\ Forall P (snd (split_child cid depth l)).
Proof.
  induction l as [|x l IH]; intros depth H; cbn [split_child]; [split; constructor|].
  inversion H as [|? ? Hx Hl]; subst.
  destruct (tag_id x =? cid).
  - destruct x; try (destruct (IH depth Hl) as [A B]; destruct (split_child cid depth l); cbn [fst snd] in *; split; [constructor; assumption|assumption]).
    + destruct (IH (S depth) Hl) as [A B]. destruct (split_child cid (S depth) l); cbn [fst snd] in *. split; [constructor; assumption|assumption].
    + destruct depth as [|d]; [split; [constructor|exact Hl]|].
      destruct (IH d Hl) as [A B]. destruct (split_child cid d l); cbn [fst snd] in *. split; [constructor; assumption|assumption].
  - destruct (IH depth Hl) as [A B]. destruct (split_child cid depth l); cbn [fst snd] in *. split; [constructor; assumption|assumption].
Qed.

Lemma roll_up_no_raw : forall fuel l, Forall no_raw l -> Forall no_raw (roll_up fuel l).
Proof.
  induction fuel as [|f IH]; intros l H; cbn [roll_up]; [exact H|].
  destruct l as [|x l]; [constructor|]. inversion H as [|? ? Hx Hl]; subst.
  destruct x; try (constructor; [assumption|apply IH; assumption]).
  destruct (split_child_forall no_raw id l O Hl) as [A B]. destruct (split_child id O l) as [sub rest]. cbn [fst snd] in *.
  constructor; [apply no_raw_full, IH, A|apply IH, B].
Qed.

Lemma qtags_no_raw c l : c_allow_id c = false -> Forall (qitem_ok c) l -> Forall no_raw (qtags l).
Proof.
  intros Hid. induction 1 as [|q l Hq _ IH]; cbn; [constructor|].
  destruct q as [t o|e]; cbn; [constructor; [apply Hq, Hid|exact IH]|exact IH].
Qed.

Lemma forall_firstn {A} (P : A -> Prop) n l : Forall P l -> Forall P (firstn n l).
Proof. revert l; induction n; intros l H; cbn; [constructor|]. destruct l; [constructor|]. inversion H; subst. constructor; auto. Qed.
Lemma forall_skipn {A} (P : A -> Prop) n l : Forall P l -> Forall P (skipn n l).
Proof. revert l; induction n; intros l H; cbn; [exact H|]. destruct l; [constructor|]. inversion H; subst. auto. Qed.
Lemma forall_nth {A} (P : A -> Prop) l n x : Forall P l -> nth_error l n = Some x -> P x.
Proof. intros H Hn. apply nth_error_In in Hn. rewrite Forall_forall in H. auto. Qed.

Lemma p_bm_finish_ok c tid ts pre st pos : queue_ok c st -> queue_ok c (p_bm_finish tid ts pre st pos).
Proof.
  intros H. unfold p_bm_finish, queue_ok in *.
  destruct (nth_error (skipn pre (b_queue st)) (pos - pre)) as [[t o|e]|] eqn:En; cbn [pset_queue pset_bad b_queue].
  - apply Forall_app. split; [apply forall_firstn, H|]. apply Forall_app. split; [|apply forall_skipn, forall_skipn, H].
    constructor; [|constructor]. intros Hid. unfold roll_up_children. apply no_raw_full, roll_up_no_raw.
    eapply qtags_no_raw; [exact Hid|]. apply forall_firstn, forall_skipn, H.
  - apply Forall_app. split; [apply forall_firstn, H|]. constructor; [|constructor].
    eapply (forall_nth (qitem_ok c)); [apply forall_skipn, H|exact En].
  - exact H.
Qed.

Lemma p_hier_step_queue c st id ty : b_queue (fst (p_hier_step c st id ty)) = b_queue st.
Proof.
  unfold p_hier_step. destruct (negb _ && _); [|reflexivity].
  destruct (b_det st); [destruct (_ && _); reflexivity|].
  destruct (all_ids _); [destruct (implied_stack _ _); [destruct (_ && _)|]; reflexivity|destruct (_ && _); reflexivity].
Qed.

Lemma p_header_queue c st : b_queue (fst (p_header c st)) = b_queue st.
Proof.
  rewrite p_header_unfold. destruct (p_tag_id st) as [[id idl]|e|]; try reflexivity.
  unfold p_hdr_tail. destruct (read_vint _) as [[[size sl]|]|e1|]; try reflexivity.
  destruct (is_numeric _ && _); [reflexivity|]. destruct (negb (c_allow_id c) && _); [reflexivity|].
  pose proof (p_hier_step_queue c st id (get_type (c_sp c) id)) as Hq.
  destruct (p_hier_step _ _ _ _) as [st1 [e1|]]; cbn [fst] in *; [exact Hq|].
  destruct (b_bad st1); [exact Hq|]. destruct (_ && _); [exact Hq|].
  destruct (c_max c); destruct (ebml_size size sl); try destruct (_ <? _); exact Hq.
Qed.

Lemma p_read_tag_queue c st : b_queue (fst (p_read_tag c st)) = b_queue st.
Proof.
  rewrite p_read_tag_unfold. pose proof (p_header_queue c st) as Hq.
  destruct (p_header c st) as [st1 [[[[id ty] esz] hl]|e|]]; cbn [fst] in *; try exact Hq.
  unfold p_tag_tail. destruct ty as [[]|]; try exact Hq;
    (destruct esz as [size|]; [|exact Hq]); (destruct (_ <? size); [exact Hq|]);
    try (destruct (arr_to_u64 _); exact Hq); try (destruct (arr_to_i64 _); exact Hq);
    try (destruct (arr_to_f64 _); exact Hq); try (destruct (utf8_valid _); exact Hq); exact Hq.
Qed.

Lemma queue_ok_same c st st' : b_queue st' = b_queue st -> queue_ok c st -> queue_ok c st'.
Proof. unfold queue_ok. intros ->. auto. Qed.

Lemma queue_ok_push c st items : queue_ok c st -> Forall (qitem_ok c) items -> queue_ok c (ppush_q st items).
Proof. intros H Hi. unfold queue_ok, ppush_q. cbn. apply Forall_app. split; assumption. Qed.

Lemma queue_ok_pop c st k : queue_ok c st -> queue_ok c (ppop_frames st k).
Proof.
  intros H. unfold ppop_frames. apply queue_ok_push; [exact H|].
  apply Forall_forall. intros q Hq. apply in_map_iff in Hq. destruct Hq as [f [<- _]]. cbn. intros _. exact I.
Qed.

Lemma rn_bm_queue_ok c : forall fuel,
  (forall st, queue_ok c st -> queue_ok c (p_read_next fuel c st)) /\
  (forall tid ts pre pos st, queue_ok c st -> queue_ok c (p_buffer_master fuel c tid ts pre pos st)).
Proof.
  induction fuel as [|f [IH1 IH2]].
  - split; intros; assumption.
  - split.
    + intros st H. rewrite p_read_next_unfold. cbn zeta.
      set (st1 := ppop_frames st _). assert (H1 : queue_ok c st1) by (apply queue_ok_pop, H).
      unfold p_read_tag_checked. destruct (b_bytes st1) eqn:Eb.
      * destruct (c_emit_eof c); [apply queue_ok_pop, H1|exact H1].
      * pose proof (p_read_tag_queue c st1) as Hq.
        destruct (p_read_tag c st1) as [st2 r2] eqn:Er. cbn [fst] in Hq.
        assert (H2 : queue_ok c st2) by (eapply queue_ok_same; eassumption).
        destruct r2 as [p|e|].
        -- assert (Hitem : Forall (qitem_ok c) [QOk (p_tag p) (p_start p)]).
           { constructor; [|constructor]. intros Hid. eapply p_read_tag_no_raw; eassumption. }
           destruct (p_tag p) eqn:Ep; try (apply queue_ok_push; [apply queue_ok_pop, H2|exact Hitem]).
           destruct (mem_id _ _).
           ++ apply IH2. eapply queue_ok_same; [|apply queue_ok_pop, H2]. reflexivity.
           ++ apply queue_ok_push; [|exact Hitem]. eapply queue_ok_same; [|apply queue_ok_pop, H2]. reflexivity.
        -- apply queue_ok_push; [exact H2|]. constructor; [|constructor]. eapply p_read_tag_err, Er.
        -- exact H2.
    + intros tid ts pre pos st H. rewrite p_buffer_master_unfold. cbn zeta.
      destruct (_ <=? pos)%nat.
      * pose proof (IH1 st H) as H1. destruct (b_bad (p_read_next f c st)); [exact H1|].
        destruct (_ <=? pos)%nat.
        -- apply queue_ok_push; [exact H1|]. constructor; [|constructor]. apply allowed_other; reflexivity.
        -- destruct (scan_queue _ _ _) as [p [|]]; [apply p_bm_finish_ok, H1|apply IH2, H1].
      * destruct (scan_queue _ _ _) as [p [|]]; [apply p_bm_finish_ok, H|apply IH2, H].
Qed.

Definition rout_ok (c : cfg) (o : rout) : Prop :=
  match o with
  | OItem t _ => c_allow_id c = false -> no_raw t
  | OErr e | ORecErr e => allowed c e
  | _ => True
  end.

Lemma p_next_ok c st : queue_ok c st ->
  queue_ok c (fst (p_next c st)) /\
  match snd (p_next c st) with NItem t _ => c_allow_id c = false -> no_raw t | NErr e => allowed c e | NNone => True end.
Proof.
  intros H. unfold p_next.
  assert (H1 : queue_ok c (match b_queue st with [] => p_read_next (b_fuel st) c st | _ :: _ => st end)).
  { destruct (b_queue st); [apply rn_bm_queue_ok, H|exact H]. }
  set (st1 := match b_queue st with [] => _ | _ => _ end) in *. unfold queue_ok in H1.
  destruct (b_queue st1) as [|[t o|e] q] eqn:Eq; cbn [fst snd].
  - split; [unfold queue_ok; rewrite Eq; constructor|exact I].
  - inversion H1; subst. split; [exact H4|exact H3].
  - inversion H1; subst. split; [exact H4|exact H3].
Qed.

Lemma p_recover_loop_ok c : forall fuel st, queue_ok c st ->
  queue_ok c (fst (p_recover_loop fuel c st)) /\ (forall e, snd (p_recover_loop fuel c st) = Some e -> allowed c e).
Proof.
  induction fuel as [|f IH]; intros st H; cbn [p_recover_loop].
  - split; [exact H|discriminate].
  - destruct (b_bytes st) eqn:Eb.
    + split; [exact H|]. intros e He. inversion He; subst. apply allowed_other; reflexivity.
    + pose proof (p_header_queue c (pconsume st 1)) as Hq.
      destruct (p_header c (pconsume st 1)) as [st2 [h|e|]]; cbn [fst snd] in *.
      * split; [eapply queue_ok_same; [exact Hq|exact H]|discriminate].
      * apply IH. eapply queue_ok_same; [exact Hq|exact H].
      * split; [eapply queue_ok_same; [exact Hq|exact H]|discriminate].
Qed.

Lemma p_try_recover_ok c st : queue_ok c st ->
  queue_ok c (fst (p_try_recover c st)) /\ (forall e, snd (p_try_recover c st) = Some e -> allowed c e).
Proof.
  intros H. unfold p_try_recover. destruct (p_recover_loop_ok c (b_fuel st) st H) as [H1 H2].
  destruct (p_recover_loop (b_fuel st) c st) as [st1 [e|]]; cbn [fst snd] in *.
  - split; [exact H1|intros e0 He; inversion He; subst; apply H2; reflexivity].
  - split; [exact H1|discriminate].
Qed.

Lemma p_run_all_ok c : forall limit st, queue_ok c st ->
  queue_ok c (fst (p_run_all limit c st)) /\ Forall (rout_ok c) (snd (p_run_all limit c st)).
Proof.
  induction limit as [|l IH]; intros st H; cbn [p_run_all].
  - split; [exact H|repeat constructor].
  - destruct (p_next_ok c st H) as [H1 Hr]. destruct (p_next c st) as [st1 r]. cbn [fst snd] in *.
    destruct (b_bad st1) as [b|]; [split; [exact H1|destruct b; repeat constructor]|].
    destruct r as [t o|e|].
    + destruct (IH st1 H1) as [H2 Ho]. destruct (p_run_all l c st1) as [st2 outs]. cbn [fst snd] in *.
      split; [exact H2|constructor; [exact Hr|exact Ho]].
    + split; [exact H1|constructor; [exact Hr|constructor]].
    + split; [exact H1|repeat constructor].
Qed.

Lemma p_run_ops_ok c limit : forall ops st, queue_ok c st -> Forall (rout_ok c) (snd (p_run_ops c limit st ops)).
Proof.
  induction ops as [|op ops IH]; intros st H; cbn [p_run_ops]; [constructor|]. destruct op.
  - destruct (p_next_ok c st H) as [H1 Hr]. destruct (p_next c st) as [st1 r]. cbn [fst snd] in *.
    destruct (b_bad st1) as [b|]; [destruct b; repeat constructor|].
    specialize (IH st1 H1). destruct (p_run_ops c limit st1 ops) as [st2 outs]. cbn [snd] in *.
    constructor; [destruct r; exact Hr|exact IH].
  - destruct (p_try_recover_ok c st H) as [H1 Hr]. destruct (p_try_recover c st) as [st1 r]. cbn [fst snd] in *.
    destruct (b_bad st1) as [b|]; [destruct b; repeat constructor|].
    specialize (IH st1 H1). destruct (p_run_ops c limit st1 ops) as [st2 outs]. cbn [snd] in *.
    constructor; [destruct r as [e|]; [apply Hr; reflexivity|exact I]|exact IH].
  - destruct (p_run_all_ok c limit st H) as [H1 Ho]. destruct (p_run_all limit c st) as [st1 outs1]. cbn [fst snd] in *.
    destruct (b_bad st1); [exact Ho|].
    specialize (IH st1 H1). destruct (p_run_ops c limit st1 ops) as [st2 outs]. cbn [snd] in *.
    apply Forall_app. split; assumption.
Qed.

(* C13: for every input and every sequence of next()/try_recover() calls, no reported error belongs to a tolerated class, and
   in strict mode no successful item is (or contains) a raw tag *)
Theorem run_respects_tolerances c input ops : Forall (rout_ok c) (p_run c input ops).
Proof. unfold p_run. apply p_run_ops_ok. unfold queue_ok. cbn. constructor. Qed.

Corollary buffered_run_respects_tolerances c cap0 script input ops : calm script ->
  Forall (rout_ok c) (run_reader c cap0 script input ops).
Proof. intros Hc. rewrite buffered_refines_pure by exact Hc. apply run_respects_tolerances. Qed.

(* ------------------------------------------------------------------ C03: items mirror the bytes at their offsets *)
(* the documented decoding of a payload for a declared type *)
Definition decodes (ty : option dtype) (payload : list N) (v : value) : Prop :=
  match ty, v with
  | Some DUInt, VU n => arr_to_u64 payload = Ok n
  | Some DSInt, VI z => arr_to_i64 payload = Ok z
  | Some DFloat, VF b => arr_to_f64 payload = Ok b
  | Some DUtf8, VS bs => bs = payload /\ utf8_valid payload = true
  | Some DBinary, VB bs => bs = payload
  | None, VRaw bs => bs = payload
  | _, _ => False
  end.

Lemma pconsume_bytes st k : k <= blen st ->
  b_bytes st = fst (splitN k (b_bytes st)) ++ b_bytes (pconsume st k) /\ N.of_nat (length (fst (splitN k (b_bytes st)))) = k /\
  b_off (pconsume st k) = b_off st + k.
Proof.
  intros Hk. unfold blen in Hk. destruct (splitN_app (b_bytes st) k Hk) as [Hab Hlen].
  split; [symmetry; exact Hab|]. split; [exact Hlen|reflexivity].
Qed.

Lemma p_hier_step_pos c st id ty : b_bytes (fst (p_hier_step c st id ty)) = b_bytes st /\ b_off (fst (p_hier_step c st id ty)) = b_off st.
Proof.
  unfold p_hier_step. destruct (negb _ && _); [|split; reflexivity].
  destruct (b_det st); [destruct (_ && _); split; reflexivity|].
  destruct (all_ids _); [destruct (implied_stack _ _); [destruct (_ && _)|]; split; reflexivity|destruct (_ && _); split; reflexivity].
Qed.

Lemma p_tag_id_len st id idl : p_tag_id st = Ok (id, idl) -> (idl <= length (b_bytes st))%nat.
Proof.
  unfold p_tag_id, blen. destruct (b_bytes st) as [|b0 tl] eqn:Eb; [discriminate|].
  destruct (b0 =? 0); [intros Hq; inversion Hq; cbn; lia|].
  destruct (N.ltb_spec (N.of_nat (length (b0 :: tl))) (N.of_nat (vint_len b0))) as [Hs|Hl]; [discriminate|].
  intros Hq; inversion Hq; subst. lia.
Qed.

(* a successful header: the id is the one found at the cursor, the header occupies hl bytes of the input that are present *)
Lemma p_header_ok_facts c st st' id ty esz hl : p_header c st = (st', Ok (id, ty, esz, hl)) ->
  b_bytes st' = b_bytes st /\ b_off st' = b_off st /\ ty = get_type (c_sp c) id /\
  exists idl size sl, p_tag_id st = Ok (id, idl) /\ read_vint (firstn 8 (skipn idl (b_bytes st))) = Ok (Some (size, sl)) /\
                      hl = (idl + sl)%nat /\ esz = ebml_size size sl /\ N.of_nat hl <= blen st.
Proof.
  rewrite p_header_unfold. destruct (p_tag_id st) as [[id0 idl]|e0|] eqn:Et; try discriminate.
  unfold p_hdr_tail. destruct (read_vint _) as [[[size sl]|]|e1|] eqn:Ev; try discriminate.
  destruct (is_numeric _ && _); [discriminate|]. destruct (negb (c_allow_id c) && _); [discriminate|].
  destruct (p_hier_step_pos c st id0 (get_type (c_sp c) id0)) as [Hb Ho].
  destruct (p_hier_step _ _ _ _) as [st1 [e1|]]; [discriminate|]. cbn [fst] in *. destruct (b_bad st1); [discriminate|].
  destruct (_ && _); [discriminate|].
  assert (Hlen : N.of_nat (idl + sl) <= blen st).
  { apply read_vint_len in Ev. rewrite firstn_length, skipn_length in Ev. unfold blen.
    pose proof (p_tag_id_len _ _ _ Et). lia. }
  destruct (c_max c); destruct (ebml_size size sl) eqn:Ee; try destruct (_ <? _); intros H; inversion H; subst;
    (split; [exact Hb|split; [exact Ho|split; [reflexivity|exists idl, size, sl; repeat split; try assumption; try reflexivity; congruence]]]).
Qed.

(* C03 for one tag: the item's offset is the cursor; the id at that offset is the item's id; the value is the documented
   decoding of the payload that follows the header; and the cursor advances exactly over header (+ payload) *)
Theorem p_read_tag_mirrors c st st' p : p_read_tag c st = (st', Ok p) ->
  p_start p = b_off st /\
  exists idl hl payload,
    p_tag_id st = Ok (tag_id (p_tag p), idl) /\ (idl <= hl)%nat /\
    b_bytes st = firstn hl (b_bytes st) ++ payload ++ b_bytes st' /\ length (firstn hl (b_bytes st)) = hl /\
    p_data p = b_off st + N.of_nat hl /\
    b_off st' = b_off st + N.of_nat hl + N.of_nat (length payload) /\
    match p_tag p with
    | TStart id => get_type (c_sp c) id = Some DMaster /\ payload = []
    | TElem id v => get_type (c_sp c) id <> Some DMaster /\ decodes (get_type (c_sp c) id) payload v /\ p_size p = SKnown (N.of_nat (length payload))
    | _ => False
    end.
Proof.
  rewrite p_read_tag_unfold. destruct (p_header c st) as [st1 [[[[id ty] esz] hl]|e0|]] eqn:Eh; try discriminate.
  destruct (p_header_ok_facts _ _ _ _ _ _ _ Eh) as [Hb [Ho [Hty [idl [size [sl [Et [Ev [Hhl [Hesz Hlen]]]]]]]]]].
  unfold p_tag_tail.
  assert (Hlen1 : N.of_nat hl <= blen st1) by (unfold blen in *; rewrite Hb; exact Hlen).
  destruct (pconsume_bytes st1 (N.of_nat hl) Hlen1) as [Hsplit [Hfl Hoff]].
  set (stc := pconsume st1 (N.of_nat hl)) in *.
  assert (Hhead : fst (splitN (N.of_nat hl) (b_bytes st1)) = firstn hl (b_bytes st)).
  { rewrite <- Hb. rewrite Hsplit at 2. rewrite firstn_app. replace (hl - length (fst (splitN (N.of_nat hl) (b_bytes st1))))%nat with O by lia.
    cbn. rewrite app_nil_r. rewrite firstn_all2 by lia. reflexivity. }
  assert (Hfn : length (firstn hl (b_bytes st)) = hl) by (rewrite <- Hhead; lia).
  assert (Master : forall t, t = TStart id -> get_type (c_sp c) id = Some DMaster ->
            (stc, @Ok rerr ptag {| p_tag := t; p_size := esz; p_start := b_off st; p_data := b_off stc |}) = (st', Ok p) ->
            p_start p = b_off st /\ exists idl hl payload, p_tag_id st = Ok (tag_id (p_tag p), idl) /\ (idl <= hl)%nat /\
              b_bytes st = firstn hl (b_bytes st) ++ payload ++ b_bytes st' /\ length (firstn hl (b_bytes st)) = hl /\
              p_data p = b_off st + N.of_nat hl /\ b_off st' = b_off st + N.of_nat hl + N.of_nat (length payload) /\
              match p_tag p with TStart id => get_type (c_sp c) id = Some DMaster /\ payload = []
              | TElem id v => get_type (c_sp c) id <> Some DMaster /\ decodes (get_type (c_sp c) id) payload v /\ p_size p = SKnown (N.of_nat (length payload))
              | _ => False end).
  { intros t -> Hm H. inversion H; subst st' p. cbn [p_start p_tag p_data tag_id]. split; [reflexivity|].
    exists idl, hl, []. split; [exact Et|]. split; [lia|]. split; [cbn [app]; rewrite <- Hhead, <- Hb; exact Hsplit|].
    split; [exact Hfn|]. split; [congruence|]. split; [cbn [length]; rewrite Hoff, Ho; lia|]. split; [exact Hm|reflexivity]. }
  destruct ty as [[]|] eqn:Ety; try (apply Master; [reflexivity|congruence]).
  all: destruct esz as [n|] eqn:Ees; [|discriminate].
  all: destruct (N.ltb_spec (blen stc) n) as [|Hge]; [discriminate|].
  all: destruct (pconsume_bytes stc n Hge) as [Hsplit2 [Hfl2 Hoff2]].
  all: set (raw := fst (splitN n (b_bytes stc))) in *.
  all: assert (Fin : forall v, decodes (get_type (c_sp c) id) raw v ->
            (pconsume stc n, @Ok rerr ptag {| p_tag := TElem id v; p_size := SKnown n; p_start := b_off st; p_data := b_off stc |}) = (st', Ok p) ->
            p_start p = b_off st /\ exists idl hl payload, p_tag_id st = Ok (tag_id (p_tag p), idl) /\ (idl <= hl)%nat /\
              b_bytes st = firstn hl (b_bytes st) ++ payload ++ b_bytes st' /\ length (firstn hl (b_bytes st)) = hl /\
              p_data p = b_off st + N.of_nat hl /\ b_off st' = b_off st + N.of_nat hl + N.of_nat (length payload) /\
              match p_tag p with TStart id => get_type (c_sp c) id = Some DMaster /\ payload = []
              | TElem id v => get_type (c_sp c) id <> Some DMaster /\ decodes (get_type (c_sp c) id) payload v /\ p_size p = SKnown (N.of_nat (length payload))
              | _ => False end)
    by (intros v Hdec H; inversion H; subst st' p; cbn [p_start p_tag p_data p_size tag_id]; split; [reflexivity|];
        exists idl, hl, raw; split; [exact Et|]; split; [lia|];
        split; [rewrite <- Hhead, <- Hb, <- Hsplit2; exact Hsplit|]; split; [exact Hfn|]; split; [congruence|];
        split; [rewrite Hoff2, Hoff, Ho; lia|]; split; [rewrite <- Hty; discriminate|]; split; [exact Hdec|rewrite Hfl2; reflexivity]).
  - destruct (arr_to_u64 raw) eqn:Ea; try discriminate. apply Fin. rewrite <- Hty. exact Ea.
  - destruct (arr_to_i64 raw) eqn:Ea; try discriminate. apply Fin. rewrite <- Hty. exact Ea.
  - destruct (utf8_valid raw) eqn:Ea; try discriminate. apply Fin. rewrite <- Hty. split; [reflexivity|exact Ea].
  - apply Fin. rewrite <- Hty. reflexivity.
  - destruct (arr_to_f64 raw) eqn:Ea; try discriminate. apply Fin. rewrite <- Hty. exact Ea.
  - apply Fin. rewrite <- Hty. reflexivity.
Qed.

(* ------------------------------------------------------------------ C14 / C05: recovery only moves forward *)
Lemma p_header_pos c st : b_bytes (fst (p_header c st)) = b_bytes st /\ b_off (fst (p_header c st)) = b_off st.
Proof.
  rewrite p_header_unfold. destruct (p_tag_id st) as [[id idl]|e|]; try (split; reflexivity).
  unfold p_hdr_tail. destruct (read_vint _) as [[[size sl]|]|e1|]; try (split; reflexivity).
  destruct (is_numeric _ && _); [split; reflexivity|]. destruct (negb (c_allow_id c) && _); [split; reflexivity|].
  pose proof (p_hier_step_pos c st id (get_type (c_sp c) id)) as Hq.
  destruct (p_hier_step _ _ _ _) as [st1 [e1|]]; cbn [fst] in *; [exact Hq|].
  destruct (b_bad st1); [exact Hq|]. destruct (_ && _); [exact Hq|].
  destruct (c_max c); destruct (ebml_size size sl); try destruct (_ <? _); exact Hq.
Qed.

Lemma p_recover_loop_forward c : forall fuel st, b_off st <= b_off (fst (p_recover_loop fuel c st)).
Proof.
  induction fuel as [|f IH]; intros st; cbn [p_recover_loop]; [cbn; lia|].
  destruct (b_bytes st); [cbn; lia|].
  destruct (p_header_pos c (pconsume st 1)) as [_ Ho].
  destruct (p_header c (pconsume st 1)) as [st2 [h|e|]]; cbn [fst] in *.
  - rewrite Ho. cbn. lia.
  - specialize (IH st2). rewrite Ho in IH. cbn in IH. lia.
  - cbn. rewrite Ho. cbn. lia.
Qed.

Theorem try_recover_forward c st : b_off st <= b_off (fst (p_try_recover c st)).
Proof.
  unfold p_try_recover. pose proof (p_recover_loop_forward c (b_fuel st) st) as H.
  destruct (p_recover_loop (b_fuel st) c st) as [st1 [e|]]; cbn [fst] in *; exact H.
Qed.

(* try_recover fails only by reporting the end of the input (the buffered machine can additionally report a source error) *)
Theorem try_recover_errors c st e : snd (p_try_recover c st) = Some e -> exists o, e = REof o None None None.
Proof.
  unfold p_try_recover.
  assert (H : forall fuel s e0, snd (p_recover_loop fuel c s) = Some e0 -> exists o, e0 = REof o None None None).
  { induction fuel as [|f IH]; intros s e0; cbn [p_recover_loop]; [discriminate|].
    destruct (b_bytes s); [intros H; inversion H; eexists; reflexivity|].
    destruct (p_header c (pconsume s 1)) as [st2 [h|e1|]]; cbn [snd]; try discriminate. apply IH. }
  specialize (H (b_fuel st) st). destruct (p_recover_loop (b_fuel st) c st) as [st1 [e1|]]; cbn [snd] in *; [|discriminate].
  intros Hq; inversion Hq; subst. apply H. reflexivity.
Qed.
