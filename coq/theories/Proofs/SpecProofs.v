(* C11 / C07: the path matcher decides the declarative pattern semantics; the closing count is the declarative
   closing rule; validation = matching against the chain that remains after closing. *)
From Ebml Require Import Base Tools Spec Proofs.Tactics.

Definition in_range (k : nat) (mn mx : option N) : Prop :=
  optN_default 0 mn <= N.of_nat k /\ match mx with Some m => N.of_nat k <= m | None => True end.

(* The declared path read as a pattern over the chain of open masters (outermost first): each named parent matches exactly
   that master, each placeholder (min-max) matches between min and max arbitrary masters, the whole chain is consumed. *)
Inductive Matches : list part -> list N -> Prop :=
| M_nil : Matches [] []
| M_id : forall id p c, Matches p c -> Matches (PId id :: p) (id :: c)
| M_glob : forall mn mx p skip c, in_range (length skip) mn mx -> Matches p c -> Matches (PGlobal mn mx :: p) (skip ++ c).

Lemma path_matches_spec : forall p c, path_matches p c = true <-> Matches p c.
Proof.
  induction p as [|h p IH]; intros c.
  - destruct c; cbn; split; intros H; try discriminate; try constructor. inversion H.
  - destruct h as [id|mn mx].
    + cbn [path_matches]. destruct c as [|d c].
      * split; intros H; [discriminate|inversion H].
      * rewrite Bool.andb_true_iff, N.eqb_eq, IH. split.
        -- intros [-> H]. constructor. exact H.
        -- intros H. inversion H; subst. split; [reflexivity|assumption].
    + cbn [path_matches].
      set (avail := N.of_nat (length c)).
      set (lo := optN_default 0 mn).
      set (hi := match mx with Some m => N.min m avail | None => avail end).
      destruct (N.ltb_spec hi lo) as [Hlt|Hle].
      * split; [discriminate|]. intros H. exfalso. inversion H as [| |mn' mx' p' skip c' [Hlo Hhi] Hm]; subst.
        fold lo in Hlo. subst avail hi. rewrite app_length in Hlt. destruct mx; lia.
      * rewrite existsb_exists. split.
        -- intros [k [Hin Hk]]. apply in_seq in Hin. apply IH in Hk.
           rewrite <- (firstn_skipn k c). apply M_glob; [|exact Hk].
           assert (Hkhi : N.of_nat k <= hi) by lia.
           assert (Hka : (k <= length c)%nat) by (subst hi avail; destruct mx; lia).
           rewrite firstn_length_le by exact Hka. split; [fold lo; lia|].
           subst hi. destruct mx; [lia|exact I].
        -- intros H. inversion H as [| |mn' mx' p' skip c' [Hlo Hhi] Hm]; subst.
           exists (length skip). split.
           ++ apply in_seq. fold lo in Hlo. subst avail hi. rewrite app_length in Hle |- *. destruct mx; lia.
           ++ apply IH. rewrite skipn_app, skipn_all, Nat.sub_diag. cbn. exact Hm.
Qed.

(* ------------------------------------------------------------------ closing rule *)
(* [closes sp tid stk k]: the k innermost open masters are all of unknown size and the outermost of them is ended by tid *)
Definition closes (sp : spec) (tid : N) (stk : list (N * bool)) (k : nat) : Prop :=
  (k <= length stk)%nat /\ Forall (fun f => snd f = false) (firstn k stk) /\
  (k = O \/ exists id, nth_error stk (k - 1) = Some (id, false) /\ is_ended_by sp id tid = true).

Lemma count_ended_closes sp tid : forall stk, closes sp tid stk (count_ended sp tid stk).
Proof.
  induction stk as [|[id known] tl IH]; cbn [count_ended].
  - split; [cbn; lia|split; [constructor|left; reflexivity]].
  - destruct known.
    + split; [cbn; lia|split; [constructor|left; reflexivity]].
    + destruct IH as [Hlen [Hall Hlast]].
      destruct (Nat.ltb_spec 0 (count_ended sp tid tl)) as [Hpos|Hz].
      * split; [cbn [length]; lia|split; [cbn [firstn]; constructor; [reflexivity|exact Hall]|]].
        right. destruct Hlast as [E|[i [Hn He]]]; [lia|]. exists i. split; [|exact He].
        replace (S (count_ended sp tid tl) - 1)%nat with (S (count_ended sp tid tl - 1)) by lia. exact Hn.
      * destruct (is_ended_by sp id tid) eqn:E.
        -- split; [cbn; lia|split; [cbn; constructor; [reflexivity|constructor]|]]. right. exists id. split; [reflexivity|exact E].
        -- split; [cbn; lia|split; [constructor|left; reflexivity]].
Qed.

Lemma count_ended_max sp tid : forall stk k, closes sp tid stk k -> (k <= count_ended sp tid stk)%nat.
Proof.
  induction stk as [|[id known] tl IH]; intros k [Hlen [Hall Hlast]].
  - cbn in Hlen. lia.
  - destruct k as [|k]; [lia|]. cbn [firstn] in Hall. inversion Hall as [|? ? Hk Hall']; subst. cbn in Hk. subst known.
    cbn [count_ended].
    destruct Hlast as [E|[i [Hn He]]]; [discriminate|].
    destruct k as [|k].
    + cbn in Hn. inversion Hn; subst. destruct (Nat.ltb_spec 0 (count_ended sp tid tl)); [lia|]. rewrite He. lia.
    + assert (Hc : closes sp tid tl (S k)).
      { split; [cbn in Hlen; lia|split; [exact Hall'|]]. right. exists i. split; [|exact He].
        replace (S (S k) - 1)%nat with (S (S k - 1)) in Hn by lia. exact Hn. }
      apply IH in Hc. destruct (Nat.ltb_spec 0 (count_ended sp tid tl)); lia.
Qed.

(* nothing is closed when the innermost open master has a known size (in particular: the writer's view) *)
Lemma count_ended_all_known sp tid stk : Forall (fun f => snd f = true) stk -> count_ended sp tid stk = O.
Proof. intros H. destruct stk as [|[id k] tl]; [reflexivity|]. inversion H; subst. cbn in *. subst. reflexivity. Qed.

(* global elements (declared path = one placeholder) never close a master whose path names its parents *)
Lemma validate_spec sp tid stk :
  validate_tag_path sp tid stk = true <->
  Matches (get_path sp tid) (rev (map fst (skipn (count_ended sp tid stk) stk))).
Proof. unfold validate_tag_path. apply path_matches_spec. Qed.

Lemma matches_root c : Matches [] c <-> c = [].
Proof. split; intros H; [inversion H; reflexivity|subst; constructor]. Qed.
