(* C17: the buffer length of the reader model never exceeds max(initial capacity, 16, size limit) — for every input, every
   configuration with a size limit, and every source script (pauses and I/O faults included). *)
From Ebml Require Import Base Tools Spec Reader Pure Proofs.Tactics Proofs.ReaderIO Proofs.Refine.

Arguments vint_len : simpl never.
Arguments read_vint : simpl never.

Section Bound.
Variable B : N.

Definition capok (st : rst) : Prop := r_cap st <= B.

Lemma private_read_cap st room : r_cap (fst (private_read st room)) = r_cap st.
Proof.
  unfold private_read. destruct (r_script st) as [|[n| |cd] s]; cbn [fst].
  - destruct (_ =? 0); [reflexivity|]. unfold deliver. destruct (splitN _ _). reflexivity.
  - destruct (_ =? 0); [reflexivity|]. unfold deliver. destruct (splitN _ _). reflexivity.
  - reflexivity.
  - reflexivity.
Qed.

Lemma ensure_loop_cap n : n <= B -> forall fuel st, capok st -> capok (fst (ensure_loop fuel n st)).
Proof.
  intros Hn. induction fuel as [|f IH]; intros st Hc; cbn [ensure_loop]; [exact Hc|].
  destruct (n <=? r_wlen st); [exact Hc|].
  set (st1 := set_cap st (N.max (r_cap st) n)).
  assert (Hc1 : capok st1) by (unfold capok, st1; cbn; unfold capok in Hc; lia).
  pose proof (private_read_cap st1 (r_cap st1 - r_wlen st1)) as Hp.
  destruct (private_read st1 (r_cap st1 - r_wlen st1)) as [st2 r2]. cbn [fst] in Hp.
  assert (Hc2 : capok st2) by (unfold capok in *; rewrite Hp; exact Hc1).
  destruct r2 as [[|]|e|]; cbn [fst]; try exact Hc2. apply IH, Hc2.
Qed.

Lemma ensure_cap n st : n <= B -> capok st -> capok (fst (ensure n st)).
Proof. intros Hn Hc. unfold ensure. apply ensure_loop_cap; assumption. Qed.

Hypothesis B16 : 16 <= B.

Lemma peek_tag_id_cap st : capok st -> capok (fst (peek_tag_id st)).
Proof.
  intros Hc. unfold peek_tag_id. pose proof (ensure_cap 8 st ltac:(lia) Hc) as H1.
  destruct (ensure 8 st) as [st1 [b|e|]]; cbn [fst] in *; try exact H1.
  destruct (r_win st1) as [|b0 w]; [exact H1|]. destruct (b0 =? 0); [exact H1|]. destruct (_ <? _); exact H1.
Qed.

Lemma hier_step_cap c st id ty : r_cap (fst (hier_step c st id ty)) = r_cap st.
Proof.
  unfold hier_step. destruct (negb _ && _); [|reflexivity].
  destruct (r_det st); [destruct (_ && _); reflexivity|].
  destruct (all_ids _); [destruct (implied_stack _ _); [destruct (_ && _); reflexivity|reflexivity]|destruct (_ && _); reflexivity].
Qed.

Lemma hdr_tail_cap c st id id_len : r_cap (fst (hdr_tail c st id id_len)) = r_cap st.
Proof.
  unfold hdr_tail. destruct (read_vint _) as [[[size sl]|]|e|]; try reflexivity.
  destruct (is_numeric _ && _); [reflexivity|]. destruct (negb (c_allow_id c) && _); [reflexivity|].
  pose proof (hier_step_cap c st id (get_type (c_sp c) id)) as Hh.
  destruct (hier_step c st id (get_type (c_sp c) id)) as [st1 [e1|]]; cbn [fst] in *; [exact Hh|].
  destruct (r_bad st1); [exact Hh|]. destruct (negb (c_allow_over c) && _); [exact Hh|].
  destruct (c_max c); destruct (ebml_size size sl); try destruct (_ <? _); exact Hh.
Qed.

(* a header whose declared size exceeds the limit is never accepted *)
Lemma hdr_tail_size_ok c st id id_len id' ty n hl m :
  snd (hdr_tail c st id id_len) = Ok (id', ty, SKnown n, hl) -> c_max c = Some m -> n <= m.
Proof.
  unfold hdr_tail. intros H Hm. destruct (read_vint _) as [[[size sl]|]|e|]; try discriminate.
  destruct (is_numeric _ && _); [discriminate|]. destruct (negb (c_allow_id c) && _); [discriminate|].
  destruct (hier_step c st id (get_type (c_sp c) id)) as [st1 [e1|]]; [discriminate|].
  destruct (r_bad st1); [discriminate|]. destruct (negb (c_allow_over c) && _); [discriminate|].
  rewrite Hm in H. destruct (ebml_size size sl) as [n0|]; [|discriminate].
  destruct (N.ltb_spec m n0); [discriminate|]. cbn in H. inversion H; subst. assumption.
Qed.

Lemma peek_header_cap c st : capok st -> capok (fst (peek_header c st)).
Proof.
  intros Hc. rewrite peek_header_unfold. pose proof (ensure_cap 16 st B16 Hc) as H1.
  destruct (ensure 16 st) as [st1 [b|e|]]; cbn [fst] in *; try exact H1.
  pose proof (peek_tag_id_cap st1 H1) as H2.
  destruct (peek_tag_id st1) as [st2 [[id idl]|e|]]; cbn [fst] in *; try exact H2.
  unfold capok. rewrite hdr_tail_cap. exact H2.
Qed.

Lemma peek_header_size_ok c st id ty n hl m :
  snd (peek_header c st) = Ok (id, ty, SKnown n, hl) -> c_max c = Some m -> n <= m.
Proof.
  rewrite peek_header_unfold. intros H Hm.
  destruct (ensure 16 st) as [st1 [b|e|]]; try discriminate.
  destruct (peek_tag_id st1) as [st2 [[id2 idl]|e|]]; try discriminate.
  eapply hdr_tail_size_ok; eassumption.
Qed.

Variable c : cfg.
Variable m : N.
Hypothesis Hmax : c_max c = Some m.
Hypothesis Bm : m <= B.

Lemma consume_cap st k : r_cap (consume st k) = r_cap st.
Proof. unfold consume. destruct (splitN k (r_win st)). reflexivity. Qed.

Lemma read_tag_cap st : capok st -> capok (fst (read_tag c st)).
Proof.
  intros Hc. rewrite read_tag_unfold. pose proof (peek_header_cap c st Hc) as H1.
  pose proof (peek_header_size_ok c st) as Hsz.
  destruct (peek_header c st) as [st1 [[[[id ty] esz] hl]|e|]]; cbn [fst snd] in *; try exact H1.
  unfold tag_tail. set (stc := consume st1 (N.of_nat hl)).
  assert (Hcc : capok stc) by (unfold capok, stc; rewrite consume_cap; exact H1).
  assert (Master : forall p, capok (fst (stc, @Ok rerr ptag p))) by (intros; exact Hcc).
  destruct esz as [size|].
  2:{ destruct ty as [[]|]; cbn [fst]; exact Hcc. }
  assert (Hsize : size <= B) by (specialize (Hsz id ty size hl m eq_refl Hmax); lia).
  set (st2 := set_cap stc (N.max (r_cap stc) size)).
  assert (Hc2 : capok st2) by (unfold capok, st2 in *; cbn; lia).
  pose proof (ensure_cap size st2 Hsize Hc2) as H3.
  destruct ty as [[]|]; try exact Hcc.
  all: destruct (ensure size st2) as [st3 [[|]|e|]]; cbn [fst] in *; try exact H3.
  all: destruct (splitN size (r_win st3)) as [raw rest'].
  all: assert (Hc4 : capok (consume st3 size)) by (unfold capok; rewrite consume_cap; exact H3).
  all: try (destruct (arr_to_u64 raw); exact Hc4).
  all: try (destruct (arr_to_i64 raw); exact Hc4).
  all: try (destruct (arr_to_f64 raw); exact Hc4).
  all: try (destruct (utf8_valid raw); exact Hc4).
  all: exact Hc4.
Qed.

Lemma read_tag_checked_cap st : capok st -> capok (fst (read_tag_checked c st)).
Proof.
  intros Hc. unfold read_tag_checked. destruct (r_wlen st =? 0).
  - pose proof (ensure_cap 1 st ltac:(lia) Hc) as H1.
    destruct (ensure 1 st) as [st1 [[|]|e|]]; cbn [fst] in *; try exact H1.
    pose proof (read_tag_cap st1 H1). destruct (read_tag c st1). exact H.
  - pose proof (read_tag_cap st Hc). destruct (read_tag c st). exact H.
Qed.

Lemma capok_logic a b : r_cap a = r_cap b -> capok b -> capok a.
Proof. unfold capok. intros ->. auto. Qed.

Lemma rn_bm_cap : forall fuel,
  (forall st, capok st -> capok (read_next fuel c st)) /\
  (forall tid ts pre pos st, capok st -> capok (buffer_master fuel c tid ts pre pos st)).
Proof.
  induction fuel as [|f [IH1 IH2]].
  - split; intros; assumption.
  - split.
    + intros st Hc. rewrite read_next_unfold. cbn zeta.
      set (st1 := pop_frames st _). assert (H1 : capok st1) by exact Hc.
      pose proof (read_tag_checked_cap st1 H1) as H2.
      destruct (read_tag_checked c st1) as [st2 [[p|e|]|]]; cbn [fst] in H2; try exact H2.
      * destruct (p_tag p); try exact H2. destruct (mem_id _ _); [|exact H2]. apply IH2. exact H2.
      * destruct (c_emit_eof c); exact H2.
    + intros tid ts pre pos st Hc. rewrite buffer_master_unfold. cbn zeta.
      assert (Fin : forall s p, capok s -> capok (bm_finish tid ts pre s p)).
      { intros s p Hs. unfold bm_finish. destruct (nth_error _ _) as [[? ?|?]|]; exact Hs. }
      destruct (_ <=? pos)%nat.
      * pose proof (IH1 st Hc) as H1. destruct (r_bad (read_next f c st)); [exact H1|].
        destruct (_ <=? pos)%nat; [exact H1|]. destruct (scan_queue _ _ _) as [p [|]]; [apply Fin, H1|apply IH2, H1].
      * destruct (scan_queue _ _ _) as [p [|]]; [apply Fin, Hc|apply IH2, Hc].
Qed.

Lemma next_cap st : capok st -> capok (fst (next c st)).
Proof.
  intros Hc. unfold next.
  assert (H1 : capok (match r_queue st with [] => read_next (r_fuel st) c st | _ :: _ => st end)).
  { destruct (r_queue st); [apply rn_bm_cap, Hc|exact Hc]. }
  set (st1 := match r_queue st with [] => _ | _ => _ end) in *.
  destruct (r_queue st1) as [|[t o|e] q]; exact H1.
Qed.

Lemma recover_loop_cap : forall fuel st, capok st -> capok (fst (recover_loop fuel c st)).
Proof.
  induction fuel as [|f IH]; intros st Hc; cbn [recover_loop]; [exact Hc|].
  pose proof (ensure_cap 1 st ltac:(lia) Hc) as H1.
  destruct (ensure 1 st) as [st1 [[|]|e|]]; cbn [fst] in *; try exact H1.
  assert (H2 : capok (consume st1 1)) by (unfold capok; rewrite consume_cap; exact H1).
  pose proof (peek_header_cap c _ H2) as H3.
  destruct (peek_header c (consume st1 1)) as [st3 [h|e|]]; cbn [fst] in *; try exact H3. destruct e; cbn [fst]; try (apply IH, H3). exact H3.
Qed.

Lemma try_recover_cap st : capok st -> capok (fst (try_recover c st)).
Proof.
  intros Hc. unfold try_recover. pose proof (recover_loop_cap (r_fuel st) st Hc) as H1.
  destruct (recover_loop (r_fuel st) c st) as [st1 [e|]]; exact H1.
Qed.

Lemma run_all_cap : forall limit st, capok st -> capok (fst (run_all limit c st)).
Proof.
  induction limit as [|l IH]; intros st Hc; cbn [run_all]; [exact Hc|].
  pose proof (next_cap st Hc) as H1. destruct (next c st) as [st1 r1]. cbn [fst] in H1.
  destruct (r_bad st1); [exact H1|]. destruct r1 as [t o|e|]; try exact H1.
  pose proof (IH st1 H1). destruct (run_all l c st1). exact H.
Qed.

Lemma run_ops_cap limit : forall ops st, capok st -> capok (fst (run_ops c limit st ops)).
Proof.
  induction ops as [|op ops IH]; intros st Hc; cbn [run_ops]; [exact Hc|]. destruct op.
  - pose proof (next_cap st Hc) as H1. destruct (next c st) as [st1 r1]. cbn [fst] in H1.
    destruct (r_bad st1); [exact H1|]. pose proof (IH st1 H1). destruct (run_ops c limit st1 ops). exact H.
  - pose proof (try_recover_cap st Hc) as H1. destruct (try_recover c st) as [st1 r1]. cbn [fst] in H1.
    destruct (r_bad st1); [exact H1|]. pose proof (IH st1 H1). destruct (run_ops c limit st1 ops). exact H.
  - pose proof (run_all_cap limit st Hc) as H1. destruct (run_all limit c st) as [st1 o1]. cbn [fst] in H1.
    destruct (r_bad st1); [exact H1|]. pose proof (IH st1 H1). destruct (run_ops c limit st1 ops). exact H.
Qed.

End Bound.

Theorem cap_bounded c m cap0 script input ops : c_max c = Some m ->
  fst (run_reader_cap c cap0 script input ops) <= N.max (N.max cap0 16) m.
Proof.
  intros Hm. unfold run_reader_cap.
  pose proof (run_ops_cap (N.max (N.max cap0 16) m) ltac:(lia) c m Hm ltac:(lia) (4 * length input + 64) ops (r_init cap0 script input)) as H.
  unfold run_reader_st. destruct (run_ops c _ (r_init cap0 script input) ops) as [st outs]. cbn [fst] in *.
  apply H. unfold capok. cbn. lia.
Qed.

(* the size check comes before any allocation or read for the payload: a header is validated with at most a 16-byte buffer
   request, and a declared size above the limit is never accepted *)
Theorem header_allocates_16 c st : r_cap (fst (peek_header c st)) <= N.max (r_cap st) 16.
Proof.
  pose proof (peek_header_cap (N.max (r_cap st) 16) ltac:(lia) c st) as H. apply H. unfold capok. lia.
Qed.
