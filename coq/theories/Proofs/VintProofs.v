(* Unsigned vint codec: encoder characterisation, decoder characterisation, round trip. *)
From Ebml Require Import Base Tools Proofs.Tactics Proofs.BytesProofs.

(* Specification-level encoding of value [v] on [L] bytes: marker bit at position 7L. *)
Definition enc (L : nat) (v : N) : list N := be_bytes L (v + 2 ^ (7 * N.of_nat L)).

Lemma lor_marker L v : v < 2 ^ (7 * L) -> N.lor v (2 ^ (7 * L)) = v + 2 ^ (7 * L).
Proof.
  intros H.
  assert (Hland : N.land v (2 ^ (7 * L)) = 0).
  { apply N.bits_inj_0. intros n. rewrite N.land_spec, N.pow2_bits_eqb.
    destruct (N.eqb_spec (7*L) n) as [<-|]; [|apply Bool.andb_false_r].
    rewrite Bool.andb_true_r. destruct (N.eq_dec v 0) as [->|Hv]; [apply N.bits_0|].
    apply N.bits_above_log2. apply N.log2_lt_pow2; lia. }
  rewrite <- N.lxor_lor by exact Hland. symmetry. apply N.add_nocarry_lxor. exact Hland.
Qed.

Lemma as_vint_no_check_enc L v : v < 2 ^ (7 * N.of_nat L) -> as_vint_no_check L v = enc L v.
Proof. intros H. unfold as_vint_no_check, enc. now rewrite lor_marker. Qed.

Lemma enc_length L v : length (enc L v) = L.
Proof. apply be_bytes_length. Qed.

Lemma enc_wf L v : wf_bytes (enc L v).
Proof. apply be_bytes_wf. Qed.

(* ------------------------------------------------------------ first byte *)

Lemma log2_byte b0 : 0 < b0 < 256 -> N.log2 b0 <= 7.
Proof.
  intros H. assert (N.log2 b0 < 8); [|lia]. apply N.log2_lt_pow2; [lia|]. change (2^8) with 256. lia.
Qed.

Lemma vint_len_range b0 : 0 < b0 < 256 -> (1 <= vint_len b0 <= 8)%nat.
Proof. intros H. pose proof (log2_byte b0 H). unfold vint_len. lia. Qed.

(* value announced by a well-formed byte string that starts with a complete vint *)
Lemma read_vint_char b0 tl :
  wf_bytes (b0 :: tl) -> b0 <> 0 -> (vint_len b0 <= length (b0 :: tl))%nat ->
  exists v, read_vint (b0 :: tl) = Ok (Some (v, vint_len b0))
            /\ v < 2 ^ (7 * N.of_nat (vint_len b0))
            /\ firstn (vint_len b0) (b0 :: tl) = enc (vint_len b0) v.
Proof.
  intros Hwf Hb0 Hlen. inversion Hwf as [|? ? Hb Htl]; subst.
  assert (Hb0' : 0 < b0 < 256) by lia.
  pose proof (log2_byte b0 Hb0') as Hlg.
  pose proof (N.log2_spec b0 ltac:(lia)) as [Hlo Hhi].
  set (k := N.log2 b0) in *. rewrite N.pow_succ_r' in Hhi.
  unfold read_vint. destruct (N.eqb_spec b0 0) as [E|_]; [contradiction|].
  set (len := vint_len b0) in *.
  assert (Hlenk : N.of_nat len = 8 - k) by (unfold len, vint_len; fold k; lia).
  destruct (Nat.ltb_spec (length (b0 :: tl)) len) as [E|_]; [lia|].
  replace (8 - N.of_nat len) with k by lia.
  destruct (N.ltb_spec b0 (2 ^ k)) as [E|_]; [lia|].
  set (rest := firstn (len - 1) tl).
  assert (Hrl : length rest = (len - 1)%nat).
  { unfold rest. rewrite firstn_length. cbn [length] in Hlen. lia. }
  assert (Hrwf : wf_bytes rest) by (apply wf_firstn; exact Htl).
  pose proof (from_be_bound rest Hrwf) as Hrb. rewrite Hrl in Hrb.
  rewrite from_be_acc_split, Hrl.
  set (p := 256 ^ N.of_nat (len - 1)) in *.
  set (r := from_be rest) in *.
  assert (Hp : 2 ^ k * p = 2 ^ (7 * N.of_nat len)).
  { unfold p. rewrite pow256, <- N.pow_add_r. f_equal. lia. }
  assert (Hv : (b0 - 2 ^ k) * p + r < 2 ^ (7 * N.of_nat len)).
  { rewrite <- Hp. set (q := 2 ^ k) in *. nia. }
  assert (H56 : 2 ^ (7 * N.of_nat len) <= 2 ^ 56) by (apply N.pow_le_mono_r; lia).
  destruct (N.leb_spec two64 ((b0 - 2 ^ k) * p + r)) as [E|_].
  { exfalso. unfold two64 in E. change (2 ^ 56) with 72057594037927936 in H56. lia. }
  exists ((b0 - 2 ^ k) * p + r). split; [reflexivity|]. split; [exact Hv|].
  unfold enc. rewrite <- Hp.
  replace ((b0 - 2 ^ k) * p + r + 2 ^ k * p) with (b0 * p + r) by (set (q := 2 ^ k) in *; nia).
  assert (Hfirst : firstn len (b0 :: tl) = b0 :: rest).
  { unfold rest. destruct len as [|l']; [lia|]. cbn [firstn]. replace (S l' - 1)%nat with l' by lia. reflexivity. }
  rewrite Hfirst.
  assert (Hfb : from_be (b0 :: rest) = b0 * p + r).
  { unfold from_be, from_be_acc. cbn [fold_left]. fold (from_be_acc (0 * 256 + b0) rest).
    rewrite from_be_acc_split, Hrl. fold p r. lia. }
  rewrite <- Hfb.
  replace len with (length (b0 :: rest)) at 1 by (cbn [length]; lia).
  symmetry. apply be_from_be. constructor; assumption.
Qed.

Lemma enc_hd (w : nat) v : (S w <= 8)%nat -> v < 2 ^ (7 * N.of_nat (S w)) ->
  exists b0 tl, enc (S w) v = b0 :: tl /\ 0 < b0 < 256 /\ vint_len b0 = S w.
Proof.
  intros HL Hv. unfold enc. rewrite be_bytes_S_hd.
  set (m := 2 ^ (7 * N.of_nat (S w))) in *. set (p := 256 ^ N.of_nat w).
  assert (Hp : p = 2 ^ (8 * N.of_nat w)) by apply pow256.
  assert (Hm : m = 2 ^ (8 - N.of_nat (S w)) * p).
  { unfold m. rewrite Hp, <- N.pow_add_r. f_equal. lia. }
  set (q := 2 ^ (8 - N.of_nat (S w))) in *.
  assert (Hq1 : 1 <= q). { pose proof (N.pow_nonzero 2 (8 - N.of_nat (S w)) ltac:(lia)) as H. fold q in H. lia. }
  assert (Hq128 : q <= 128). { unfold q. change 128 with (2^7). apply N.pow_le_mono_r; lia. }
  assert (Hp0 : 0 < p). { pose proof (N.pow_nonzero 256 (N.of_nat w) ltac:(lia)) as H. fold p in H. lia. }
  assert (Hdiv : (v + m) / p = q + v / p). { rewrite Hm. rewrite N.div_add by lia. apply N.add_comm. }
  assert (Hvp : v / p < q). { apply N.div_lt_upper_bound; lia. }
  eexists. eexists. split; [reflexivity|].
  rewrite Hdiv. set (d := v / p) in *.
  rewrite N.mod_small by lia. split; [lia|].
  unfold vint_len.
  assert (Hlog : N.log2 (q + d) = 8 - N.of_nat (S w)).
  { apply (N.log2_unique' _ _ d); fold q; [apply N.le_0_l|split; [apply N.le_0_l|exact Hvp]|reflexivity]. }
  rewrite Hlog. lia.
Qed.

(* the canonical encoding is the only byte string the decoder maps to (v, L) *)
Lemma enc_inj L v v' : v < 2 ^ (7 * N.of_nat L) -> v' < 2 ^ (7 * N.of_nat L) -> enc L v = enc L v' -> v = v'.
Proof.
  intros Hv Hv' E. destruct L as [|w].
  - change (N.of_nat 0) with 0 in *. rewrite N.mul_0_r, N.pow_0_r in *. lia.
  - unfold enc in E. apply (f_equal from_be) in E. rewrite !from_be_be in E.
    assert (H2 : 2 * 2 ^ (7 * N.of_nat (S w)) <= 256 ^ N.of_nat (S w)).
    { rewrite pow256. rewrite <- N.pow_succ_r'. apply N.pow_le_mono_r; lia. }
    rewrite !N.mod_small in E by lia. lia.
Qed.

Theorem decode_encode L v rest : (1 <= L <= 8)%nat -> v < 2 ^ (7 * N.of_nat L) -> wf_bytes rest ->
  read_vint (enc L v ++ rest) = Ok (Some (v, L)).
Proof.
  intros HL Hv Hrest. destruct L as [|w]; [lia|].
  destruct (enc_hd w v ltac:(lia) Hv) as (b0 & tl & Henc & Hb0 & Hlen).
  pose proof (enc_length (S w) v) as Hel. pose proof (enc_wf (S w) v) as Hewf.
  rewrite Henc in *. cbn [app].
  destruct (read_vint_char b0 (tl ++ rest)) as (v' & Hr & Hv' & Hfirst).
  - change (b0 :: tl ++ rest) with ((b0 :: tl) ++ rest). apply wf_app; assumption.
  - lia.
  - rewrite Hlen. cbn [length] in *. rewrite app_length. lia.
  - rewrite Hr, Hlen. rewrite Hlen in Hfirst, Hv'.
    change (b0 :: tl ++ rest) with ((b0 :: tl) ++ rest) in Hfirst.
    rewrite firstn_app, Hel, Nat.sub_diag in Hfirst. rewrite firstn_O, app_nil_r in Hfirst.
    rewrite firstn_all2 in Hfirst by lia. rewrite <- Henc in Hfirst.
    apply enc_inj in Hfirst; [|assumption..]. now subst.
Qed.

(* ------------------------------------------------------------ encoders *)

Lemma as_vint_with_length_ok L v : (1 <= L <= 8)%nat -> v < 2 ^ (7 * N.of_nat L) ->
  as_vint_with_length L v = Ok (enc L v).
Proof.
  intros HL Hv. unfold as_vint_with_length.
  replace ((1 <=? L)%nat && (L <=? 8)%nat) with true by lia.
  unfold check_size_u64. replace (N.of_nat L * 7) with (7 * N.of_nat L) by lia.
  destruct (N.leb_spec (2 ^ (7 * N.of_nat L)) v); [lia|]. cbn. now rewrite as_vint_no_check_enc.
Qed.

Lemma as_vint_with_length_overflow L v : (1 <= L <= 8)%nat -> 2 ^ (7 * N.of_nat L) <= v ->
  as_vint_with_length L v = Err (WriteVintOverflow v).
Proof.
  intros HL Hv. unfold as_vint_with_length.
  replace ((1 <=? L)%nat && (L <=? 8)%nat) with true by lia.
  unfold check_size_u64. replace (N.of_nat L * 7) with (7 * N.of_nat L) by lia.
  destruct (N.leb_spec (2 ^ (7 * N.of_nat L)) v); [reflexivity|lia].
Qed.

Lemma as_vint_overflow v : 2 ^ 56 <= v -> as_vint v = Err (WriteVintOverflow v).
Proof.
  intros H. unfold as_vint, check_size_u64. change (N.of_nat 8 * 7) with 56.
  destruct (N.leb_spec (2 ^ 56) v); [reflexivity|lia].
Qed.

Lemma as_vint_shortest v : v < 2 ^ 56 ->
  exists L, as_vint v = Ok (enc L v) /\ (1 <= L <= 8)%nat /\ v < 2 ^ (7 * N.of_nat L)
            /\ (L = 1%nat \/ 2 ^ (7 * (N.of_nat L - 1)) <= v).
Proof.
  intros H. unfold as_vint, check_size_u64. change (N.of_nat 8 * 7) with 56.
  destruct (N.leb_spec (2 ^ 56) v); [lia|]. cbn [bind].
  assert (Hcase : forall L, (1 <= L <= 8)%nat -> v < 2 ^ (7 * N.of_nat L) ->
            (L = 1%nat \/ 2 ^ (7 * (N.of_nat L - 1)) <= v) ->
            exists L', (Ok (as_vint_no_check L v) : tres (list N)) = Ok (enc L' v) /\ (1 <= L' <= 8)%nat /\ v < 2 ^ (7 * N.of_nat L')
            /\ (L' = 1%nat \/ 2 ^ (7 * (N.of_nat L' - 1)) <= v)).
  { intros L HL Hv Hmin. exists L. rewrite as_vint_no_check_enc by assumption. auto. }
  destruct (N.ltb_spec v (2 ^ 7)). { apply Hcase; [lia|assumption|now left]. }
  destruct (N.ltb_spec v (2 ^ 14)). { apply Hcase; [lia|assumption|right; assumption]. }
  destruct (N.ltb_spec v (2 ^ 21)). { apply Hcase; [lia|assumption|right; assumption]. }
  destruct (N.ltb_spec v (2 ^ 28)). { apply Hcase; [lia|assumption|right; assumption]. }
  destruct (N.ltb_spec v (2 ^ 35)). { apply Hcase; [lia|assumption|right; assumption]. }
  destruct (N.ltb_spec v (2 ^ 42)). { apply Hcase; [lia|assumption|right; assumption]. }
  destruct (N.ltb_spec v (2 ^ 49)). { apply Hcase; [lia|assumption|right; assumption]. }
  apply Hcase; [lia|assumption|right; assumption].
Qed.

(* ------------------------------------------------------------ decoder *)

Lemma read_vint_nopanic buf : wf_bytes buf -> read_vint buf <> Panic.
Proof.
  intros Hwf. destruct buf as [|b0 tl]; [discriminate|].
  destruct (N.eq_dec b0 0) as [->|Hb0]; [discriminate|].
  destruct (Nat.ltb_spec (length (b0 :: tl)) (vint_len b0)) as [Hlt|Hge].
  - unfold read_vint. destruct (N.eqb_spec b0 0); [contradiction|].
    destruct (Nat.ltb_spec (length (b0 :: tl)) (vint_len b0)); [discriminate|lia].
  - destruct (read_vint_char b0 tl Hwf Hb0 Hge) as (v & Hr & _). rewrite Hr. discriminate.
Qed.

Lemma read_vint_need_more buf : wf_bytes buf ->
  (read_vint buf = Ok None <->
   buf = [] \/ exists b0 tl, buf = b0 :: tl /\ b0 <> 0 /\ (length buf < vint_len b0)%nat).
Proof.
  intros Hwf. destruct buf as [|b0 tl].
  - split; [now left|reflexivity].
  - split.
    + intros H. right. exists b0, tl. split; [reflexivity|].
      destruct (N.eq_dec b0 0) as [->|Hb0]; [discriminate H|]. split; [exact Hb0|].
      destruct (Nat.ltb_spec (length (b0 :: tl)) (vint_len b0)) as [Hlt|Hge]; [exact Hlt|].
      destruct (read_vint_char b0 tl Hwf Hb0 Hge) as (v & Hr & _). rewrite Hr in H. discriminate.
    + intros [H|(b & t & E & Hb0 & Hlt)]; [discriminate|]. inversion E; subst b t.
      unfold read_vint. destruct (N.eqb_spec b0 0); [contradiction|].
      destruct (Nat.ltb_spec (length (b0 :: tl)) (vint_len b0)); [reflexivity|lia].
Qed.

Lemma read_vint_some buf v n : wf_bytes buf -> read_vint buf = Ok (Some (v, n)) ->
  (1 <= n <= 8)%nat /\ (n <= length buf)%nat /\ v < 2 ^ (7 * N.of_nat n) /\ firstn n buf = enc n v.
Proof.
  intros Hwf H. destruct buf as [|b0 tl]; [discriminate|].
  destruct (N.eq_dec b0 0) as [->|Hb0]; [discriminate|].
  inversion Hwf as [|? ? Hb _]; subst.
  destruct (Nat.ltb_spec (length (b0 :: tl)) (vint_len b0)) as [Hlt|Hge].
  - unfold read_vint in H. destruct (N.eqb_spec b0 0); [contradiction|].
    destruct (Nat.ltb_spec (length (b0 :: tl)) (vint_len b0)); [discriminate|lia].
  - destruct (read_vint_char b0 tl Hwf Hb0 Hge) as (v' & Hr & Hv' & Hf). rewrite Hr in H.
    inversion H; subst. pose proof (vint_len_range b0 ltac:(lia)). auto.
Qed.

Lemma read_vint_err buf e : read_vint buf = Err e ->
  e = ReadVintOverflow /\ exists tl, buf = 0 :: tl.
Proof.
  destruct buf as [|b0 tl]; [discriminate|]. unfold read_vint.
  destruct (N.eqb_spec b0 0) as [->|].
  - intros H; inversion H. split; [reflexivity|eauto].
  - destruct (_ <? _)%nat; [discriminate|]. destruct (_ <? _); [discriminate|]. destruct (_ <=? _); discriminate.
Qed.

(* ------------------------------------------------------------ is_vint *)

Lemma is_vint_spec v : is_vint v = true <->
  exists n, (1 <= n <= 8)%nat /\ 2 ^ (7 * N.of_nat n) <= v < 2 ^ (7 * N.of_nat n + 1).
Proof.
  unfold is_vint. destruct (N.eqb_spec v 0) as [->|Hv].
  - split; [discriminate|]. intros (n & Hn & Hlo & _).
    pose proof (N.pow_nonzero 2 (7 * N.of_nat n) ltac:(lia)). lia.
  - pose proof (N.log2_spec v ltac:(lia)) as [Hlo Hhi]. set (lg := N.log2 v) in *.
    split.
    + intros H. exists (N.to_nat (lg / 7)).
      assert (lg = 7 * (lg / 7)) by lia.
      replace (N.of_nat (N.to_nat (lg / 7))) with (lg / 7) by lia.
      split; [lia|]. replace (7 * (lg / 7)) with lg by lia. rewrite N.add_1_r. auto.
    + intros (n & Hn & Hnlo & Hnhi). rewrite N.add_1_r in Hnhi.
      assert (lg = 7 * N.of_nat n). { unfold lg. apply N.log2_unique; [lia|auto]. }
      lia.
Qed.
