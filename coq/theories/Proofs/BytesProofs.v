(* Lemmas about big-endian byte strings. *)
From Ebml Require Import Base Proofs.Tactics.

Lemma be_bytes_length w : forall v, length (be_bytes w v) = w.
Proof. induction w; intros; cbn; [reflexivity|]. rewrite app_length, IHw. cbn. lia. Qed.

Lemma be_bytes_wf w : forall v, wf_bytes (be_bytes w v).
Proof.
  induction w; intros; cbn; [constructor|]. apply Forall_app. split; [apply IHw|].
  constructor; [|constructor]. apply N.mod_lt. lia.
Qed.

Lemma from_be_acc_app acc a b : from_be_acc acc (a ++ b) = from_be_acc (from_be_acc acc a) b.
Proof. unfold from_be_acc. apply fold_left_app. Qed.

Lemma from_be_acc_be w : forall v acc, v < 256 ^ N.of_nat w ->
  from_be_acc acc (be_bytes w v) = acc * 256 ^ N.of_nat w + v.
Proof.
  induction w as [|w IH]; intros v acc Hv.
  - cbn. change (N.of_nat 0) with 0 in *. rewrite N.pow_0_r in *. unfold from_be_acc. cbn. lia.
  - cbn [be_bytes]. unfold from_be_acc in *. rewrite fold_left_app. cbn [fold_left].
    rewrite Nsucc_of_nat, N.pow_succ_r' in *.
    rewrite IH.
    + set (p := 256 ^ N.of_nat w) in *. lia.
    + set (p := 256 ^ N.of_nat w) in *. lia.
Qed.

(* the accumulator form splits into accumulator and plain value *)
Lemma from_be_acc_split l : forall acc, from_be_acc acc l = acc * 256 ^ N.of_nat (length l) + from_be l.
Proof.
  unfold from_be. induction l as [|b l IH]; intros acc.
  - cbn. change (N.of_nat 0) with 0. rewrite N.pow_0_r. unfold from_be_acc. cbn. lia.
  - unfold from_be_acc in *. cbn [fold_left length]. rewrite IH. rewrite (IH (0 * 256 + b)).
    rewrite Nsucc_of_nat, N.pow_succ_r'. set (p := 256 ^ N.of_nat (length l)). lia.
Qed.

Lemma from_be_bound l : wf_bytes l -> from_be l < 256 ^ N.of_nat (length l).
Proof.
  induction l as [|b l IH] using rev_ind; intros H.
  - cbn. unfold from_be, from_be_acc. cbn. change (N.of_nat 0) with 0. rewrite N.pow_0_r. lia.
  - apply Forall_app in H. destruct H as [Hl Hb]. inversion Hb as [|? ? Hb' _]; subst.
    unfold from_be in *. rewrite from_be_acc_app. unfold from_be_acc at 1. cbn [fold_left].
    fold (from_be_acc 0 l). rewrite app_length. cbn [length].
    replace (N.of_nat (length l + 1)) with (N.succ (N.of_nat (length l))) by lia.
    rewrite N.pow_succ_r'. specialize (IH Hl). set (p := 256 ^ N.of_nat (length l)) in *.
    set (x := from_be_acc 0 l) in *. lia.
Qed.

Lemma zfrom_be_acc_split l : forall acc,
  zfrom_be_acc acc l = (acc * 256 ^ Z.of_nat (length l) + Z.of_N (from_be l))%Z.
Proof.
  unfold from_be. induction l as [|b l IH]; intros acc.
  - cbn. unfold from_be_acc. cbn. change (Z.of_nat 0) with 0%Z. rewrite Z.pow_0_r. lia.
  - unfold zfrom_be_acc, from_be_acc in *. cbn [fold_left length]. rewrite IH.
    fold (from_be_acc (0 * 256 + b) l). rewrite from_be_acc_split. fold (from_be_acc 0 l).
    fold (from_be l).
    replace (Z.of_nat (S (length l))) with (Z.succ (Z.of_nat (length l))) by lia.
    rewrite Z.pow_succ_r by lia.
    replace (Z.of_N ((0 * 256 + b) * 256 ^ N.of_nat (length l) + from_be l))
      with (Z.of_N b * 256 ^ Z.of_nat (length l) + Z.of_N (from_be l))%Z.
    + set (p := (256 ^ Z.of_nat (length l))%Z). lia.
    + rewrite N2Z.inj_add, N2Z.inj_mul, N2Z.inj_pow. rewrite nat_N_Z.
      replace (0 * 256 + b) with b by lia. reflexivity.
Qed.

(* be_bytes of (S w): first byte is v / 256^w *)
Lemma be_bytes_S_hd w : forall v, be_bytes (S w) v = (v / 256 ^ N.of_nat w) mod 256 :: be_bytes w v.
Proof.
  induction w as [|w IH]; intros v.
  - cbn. change (N.of_nat 0) with 0. rewrite N.pow_0_r, N.div_1_r. reflexivity.
  - change (be_bytes (S (S w)) v) with (be_bytes (S w) (v / 256) ++ [v mod 256]).
    rewrite IH. cbn [app be_bytes]. f_equal.
    rewrite Nsucc_of_nat, N.pow_succ_r'.
    rewrite N.div_div by (try apply N.pow_nonzero; lia). reflexivity.
Qed.

(* be_bytes only sees the value modulo 256^w *)
Lemma be_bytes_add_mul w : forall a b, be_bytes w (a + b * 256 ^ N.of_nat w) = be_bytes w a.
Proof.
  induction w as [|w IH]; intros a b; [reflexivity|].
  cbn [be_bytes]. rewrite Nsucc_of_nat, N.pow_succ_r'.
  replace (a + b * (256 * 256 ^ N.of_nat w)) with (a + (b * 256 ^ N.of_nat w) * 256) by lia.
  rewrite N.div_add by lia. rewrite N.mod_add by lia. now rewrite IH.
Qed.

Lemma be_bytes_mod w v : be_bytes w v = be_bytes w (v mod 256 ^ N.of_nat w).
Proof.
  assert (Hp : 256 ^ N.of_nat w <> 0) by (apply N.pow_nonzero; lia).
  rewrite (N.div_mod v (256 ^ N.of_nat w)) at 1 by exact Hp.
  rewrite N.add_comm, (N.mul_comm (256 ^ N.of_nat w)). apply be_bytes_add_mul.
Qed.

Lemma from_be_be w v : from_be (be_bytes w v) = v mod 256 ^ N.of_nat w.
Proof.
  rewrite be_bytes_mod. unfold from_be. rewrite from_be_acc_be.
  - lia.
  - apply N.mod_lt. apply N.pow_nonzero. lia.
Qed.

(* a byte string is the big-endian form of its value *)
Lemma be_from_be l : wf_bytes l -> be_bytes (length l) (from_be l) = l.
Proof.
  induction l as [|b l IH] using rev_ind; intros H; [reflexivity|].
  apply Forall_app in H. destruct H as [Hl Hb]. inversion Hb as [|? ? Hb' _]; subst.
  rewrite app_length. cbn [length]. rewrite Nat.add_1_r. cbn [be_bytes].
  unfold from_be. rewrite from_be_acc_app. unfold from_be_acc at 1 3. cbn [fold_left].
  fold (from_be_acc 0 l). fold (from_be l).
  set (x := from_be l) in *.
  replace ((x * 256 + b) / 256) with x by (clear - Hb'; lia).
  replace ((x * 256 + b) mod 256) with b by (clear - Hb'; lia).
  subst x.
  now rewrite IH.
Qed.

Lemma wf_firstn n : forall l, wf_bytes l -> wf_bytes (firstn n l).
Proof.
  unfold wf_bytes. induction n as [|n IH]; intros l H; [constructor|].
  destruct l as [|x l]; [constructor|]. inversion H; subst. cbn. constructor; [assumption|]. now apply IH.
Qed.

Lemma wf_skipn n : forall l, wf_bytes l -> wf_bytes (skipn n l).
Proof.
  unfold wf_bytes. induction n as [|n IH]; intros l H; [exact H|].
  destruct l as [|x l]; [constructor|]. inversion H; subst. cbn. now apply IH.
Qed.

Lemma wf_app a b : wf_bytes a -> wf_bytes b -> wf_bytes (a ++ b).
Proof. intros. apply Forall_app. split; assumption. Qed.

Lemma pow256 n : 256 ^ n = 2 ^ (8 * n).
Proof. change 256 with (2 ^ 8). now rewrite <- N.pow_mul_r. Qed.
