(* C06: in strict mode (unknown ids and hierarchy errors not tolerated, nothing buffered) the successfully emitted tags of
   every run of the abstract reader form a well-nested, hierarchy-valid sequence: every End closes the most recent open Start
   (or, when those are used up, an implied ancestor of the first placeholder-free element), and every element's declared path
   matches the chain of masters open when it is emitted.  The judgement is an independent checker [chk] over the tag
   sequence; the reader is shown to maintain "the checker accepts everything emitted or queued so far, and its state is the
   reader's stack". *)
From Ebml Require Import Base Tools Spec Reader Pure Proofs.Tactics Proofs.ReaderIO Proofs.Refine Proofs.PureProofs.

Arguments vint_len : simpl never.
Arguments read_vint : simpl never.

(* ------------------------------------------------------------------ the checker *)
(* [open]: ids of the masters currently open, innermost first.  [det]: an element with a placeholder-free path has been seen
   (from then on the chain of open masters is fully known and every element is judged against it).
   Element check: the id is known to the specification; once [det] holds its declared path must match the open chain
   (outermost first).  Returns the new [det]. *)
Definition elem_chk (sp : spec) (open : list N) (det : bool) (id : N) : option bool :=
  match get_type sp id with
  | None => None
  | Some _ =>
      if det || all_ids (get_path sp id) then
        if path_matches (get_path sp id) (rev open) then Some true else None
      else Some false
  end.

Fixpoint chk (sp : spec) (open : list N) (det : bool) (items : list tag) : option (list N * bool) :=
  match items with
  | [] => Some (open, det)
  | TEnd id :: rest =>
      match open with
      | o :: open' => if o =? id then chk sp open' det rest else None
      | [] => None
      end
  | TStart id :: rest =>
      match elem_chk sp open det id with
      | Some det' => chk sp (id :: open) det' rest
      | None => None
      end
  | TElem id _ :: rest =>
      match elem_chk sp open det id with
      | Some det' => chk sp open det' rest
      | None => None
      end
  | TFull _ _ :: _ => None
  end.

(* the tags of all successful items of a run, in order *)
Definition out_tags (outs : list rout) : list tag :=
  flat_map (fun o => match o with OItem t _ => [t] | _ => [] end) outs.

Lemma out_tags_app a b : out_tags (a ++ b) = out_tags a ++ out_tags b.
Proof. unfold out_tags. apply flat_map_app. Qed.

(* ------------------------------------------------------------------ algebra of the checker *)
Lemma chk_app sp : forall a b open det,
  chk sp open det (a ++ b) = match chk sp open det a with Some (o, d) => chk sp o d b | None => None end.
Proof.
  induction a as [|t a IH]; intros b open det; [reflexivity|].
  cbn [app chk]. destruct t as [id v|id|id|id cs].
  - destruct (elem_chk sp open det id); [apply IH|reflexivity].
  - destruct (elem_chk sp open det id); [apply IH|reflexivity].
  - destruct open as [|o open']; [reflexivity|]. destruct (o =? id); [apply IH|reflexivity].
  - reflexivity.
Qed.

Lemma chk_prefix sp a b open det : chk sp open det (a ++ b) <> None -> chk sp open det a <> None.
Proof. rewrite chk_app. destruct (chk sp open det a); [discriminate|auto]. Qed.

Lemma elem_chk_true sp open id d : elem_chk sp open true id = Some d -> d = true.
Proof.
  unfold elem_chk. destruct (get_type sp id); [|discriminate]. cbn [orb].
  destruct (path_matches _ _); [|discriminate]. intros H; inversion H; reflexivity.
Qed.

Lemma chk_det_mono sp : forall items open o d, chk sp open true items = Some (o, d) -> d = true.
Proof.
  induction items as [|t items IH]; intros open o d; cbn [chk].
  - intros H; inversion H; reflexivity.
  - destruct t as [id v|id|id|id cs].
    + destruct (elem_chk sp open true id) as [d'|] eqn:E; [|discriminate]. apply elem_chk_true in E. subst d'. apply IH.
    + destruct (elem_chk sp open true id) as [d'|] eqn:E; [|discriminate]. apply elem_chk_true in E. subst d'. apply IH.
    + destruct open as [|x open']; [discriminate|]. destruct (x =? id); [apply IH|discriminate].
    + discriminate.
Qed.

(* while [det] is false no path is looked at: the open chain can sit on top of any base *)
Lemma elem_chk_false sp open id : elem_chk sp open false id = Some false -> forall open', elem_chk sp open' false id = Some false.
Proof.
  unfold elem_chk. destruct (get_type sp id); [|discriminate]. cbn [orb].
  destruct (all_ids _); [|reflexivity]. destruct (path_matches _ _); discriminate.
Qed.

Lemma chk_rebase sp : forall items open open', chk sp open false items = Some (open', false) ->
  forall base, chk sp (open ++ base) false items = Some (open' ++ base, false).
Proof.
  induction items as [|t items IH]; intros open open'; cbn [chk].
  - intros H base. inversion H; reflexivity.
  - destruct t as [id v|id|id|id cs].
    + destruct (elem_chk sp open false id) as [[|]|] eqn:E; [| |discriminate].
      * intros H. apply chk_det_mono in H. discriminate.
      * intros H base. rewrite (elem_chk_false _ _ _ E). apply IH, H.
    + destruct (elem_chk sp open false id) as [[|]|] eqn:E; [| |discriminate].
      * intros H. apply chk_det_mono in H. discriminate.
      * intros H base. rewrite (elem_chk_false _ _ _ E). apply (IH (id :: open)), H.
    + destruct open as [|x open1]; [discriminate|]. cbn [app]. destruct (x =? id); [|discriminate].
      intros H base. apply IH, H.
    + discriminate.
Qed.

Lemma chk_ends sp d : forall a b, chk sp (a ++ b) d (map TEnd a) = Some (b, d).
Proof.
  induction a as [|x a IH]; intros b; [reflexivity|].
  cbn [app map chk]. rewrite N.eqb_refl. apply IH.
Qed.

(* ------------------------------------------------------------------ the invariant *)
(* [items]: everything emitted or queued so far; [ids]: the reader's stack; [det]: its has-determined-path flag.
   The checker, started from some base (the implied ancestors, present only once the reader has determined its path), accepts
   the items and ends with exactly the reader's stack as its open chain. *)
Definition inv (sp : spec) (items : list tag) (ids : list N) (det : bool) : Prop :=
  exists base d, chk sp base false items = Some (ids, d) /\ (d = true -> det = true) /\ (det = false -> base = []).

Lemma inv_ends sp items a b det : inv sp items (a ++ b) det -> inv sp (items ++ map TEnd a) b det.
Proof.
  intros [base [d [H [H1 H2]]]]. exists base, d. split; [|split; assumption].
  rewrite chk_app, H. apply chk_ends.
Qed.

Lemma inv_seed sp items ids extra : inv sp items ids false -> inv sp items (ids ++ extra) true.
Proof.
  intros [base [d [H [H1 H2]]]]. rewrite (H2 eq_refl) in H.
  destruct d; [discriminate (H1 eq_refl)|].
  exists extra, false. split; [|split; [discriminate|discriminate]].
  apply (chk_rebase sp items [] ids H extra).
Qed.

Lemma inv_elem_chk sp items ids det id :
  inv sp items ids det -> get_type sp id <> None ->
  (det = true -> path_matches (get_path sp id) (rev ids) = true) ->
  (det = false -> all_ids (get_path sp id) = false) ->
  exists base d d', chk sp base false items = Some (ids, d) /\ elem_chk sp ids d id = Some d' /\
                    (d' = true -> det = true) /\ (det = false -> base = []).
Proof.
  intros [base [d [H [H1 H2]]]] Hty Hpm Hai. exists base, d.
  unfold elem_chk. destruct (get_type sp id); [|contradiction].
  destruct det.
  - rewrite (Hpm eq_refl). destruct (d || all_ids _); eexists; (split; [exact H|split; [reflexivity|split; [reflexivity|exact H2]]]).
  - rewrite (Hai eq_refl). destruct d; [discriminate (H1 eq_refl)|]. cbn [orb].
    exists false. split; [exact H|split; [reflexivity|split; [discriminate|exact H2]]].
Qed.

Lemma inv_start sp items ids det id :
  inv sp items ids det -> get_type sp id <> None ->
  (det = true -> path_matches (get_path sp id) (rev ids) = true) ->
  (det = false -> all_ids (get_path sp id) = false) ->
  inv sp (items ++ [TStart id]) (id :: ids) det.
Proof.
  intros HI Hty Hpm Hai. destruct (inv_elem_chk _ _ _ _ _ HI Hty Hpm Hai) as [base [d [d' [H [He [H1 H2]]]]]].
  exists base, d'. split; [|split; assumption]. rewrite chk_app, H. cbn [chk]. rewrite He. reflexivity.
Qed.

Lemma inv_elem sp items ids det id v :
  inv sp items ids det -> get_type sp id <> None ->
  (det = true -> path_matches (get_path sp id) (rev ids) = true) ->
  (det = false -> all_ids (get_path sp id) = false) ->
  inv sp (items ++ [TElem id v]) ids det.
Proof.
  intros HI Hty Hpm Hai. destruct (inv_elem_chk _ _ _ _ _ HI Hty Hpm Hai) as [base [d [d' [H [He [H1 H2]]]]]].
  exists base, d'. split; [|split; assumption]. rewrite chk_app, H. cbn [chk]. rewrite He. reflexivity.
Qed.

(* ------------------------------------------------------------------ the invariant on reader states *)
(* [em]: the tags handed out so far *)
Definition JS (sp : spec) (em : list tag) (st : pst) : Prop :=
  inv sp (em ++ qtags (b_queue st)) (map f_id (b_stack st)) (b_det st).

Lemma qtags_app a b : qtags (a ++ b) = qtags a ++ qtags b.
Proof. unfold qtags. apply flat_map_app. Qed.

Lemma qtags_ends l : qtags (map end_item l) = map TEnd (map f_id l).
Proof. induction l as [|f l IH]; [reflexivity|]. cbn [map]. rewrite <- IH. reflexivity. Qed.

Lemma JS_same sp em st st' :
  b_stack st' = b_stack st -> b_queue st' = b_queue st -> b_det st' = b_det st -> JS sp em st -> JS sp em st'.
Proof. unfold JS. intros -> -> ->. auto. Qed.

Lemma JS_pop sp em st k : JS sp em st -> JS sp em (ppop_frames st k).
Proof.
  unfold JS, ppop_frames, ppush_q. cbn [pset_queue pset_stack b_queue b_stack b_det]. intros H.
  rewrite qtags_app, qtags_ends, app_assoc. apply inv_ends. rewrite <- map_app, firstn_skipn. exact H.
Qed.

Lemma JS_push_err sp em st e : JS sp em st -> JS sp em (ppush_q st [QErr e]).
Proof.
  unfold JS, ppush_q. cbn [pset_queue b_queue b_stack b_det]. intros H.
  rewrite qtags_app. cbn [qtags flat_map]. rewrite !app_nil_r. exact H.
Qed.

Lemma JS_push_elem sp em st id v off :
  JS sp em st -> get_type sp id <> None ->
  (b_det st = true -> path_matches (get_path sp id) (rev (map f_id (b_stack st))) = true) ->
  (b_det st = false -> all_ids (get_path sp id) = false) ->
  JS sp em (ppush_q st [QOk (TElem id v) off]).
Proof.
  unfold JS, ppush_q. cbn [pset_queue b_queue b_stack b_det]. intros H Hty Hpm Hai.
  rewrite qtags_app. cbn [qtags flat_map]. rewrite app_nil_r, app_assoc. apply inv_elem; assumption.
Qed.

Lemma JS_push_start sp em st f off :
  JS sp em st -> get_type sp (f_id f) <> None ->
  (b_det st = true -> path_matches (get_path sp (f_id f)) (rev (map f_id (b_stack st))) = true) ->
  (b_det st = false -> all_ids (get_path sp (f_id f)) = false) ->
  JS sp em (ppush_q (pset_stack st (f :: b_stack st) (b_det st)) [QOk (TStart (f_id f)) off]).
Proof.
  unfold JS, ppush_q. cbn [pset_queue pset_stack b_queue b_stack b_det map]. intros H Hty Hpm Hai.
  rewrite qtags_app. cbn [qtags flat_map]. rewrite app_nil_r, app_assoc. apply inv_start; assumption.
Qed.

(* what a successful header in strict mode says about its id, in terms of the state it leaves behind *)
Definition hfacts (sp : spec) (st : pst) (id : N) : Prop :=
  get_type sp id <> None /\
  (b_det st = true -> validate_tag_path sp id (stack_view (b_stack st)) = true) /\
  (b_det st = false -> all_ids (get_path sp id) = false).

Lemma hfacts_same sp st st' id : b_stack st' = b_stack st -> b_det st' = b_det st -> hfacts sp st id -> hfacts sp st' id.
Proof. unfold hfacts. intros -> ->. auto. Qed.

(* the path was validated against exactly the stack that remains after the count_ended pops *)
Lemma hfacts_pop sp st id : hfacts sp st id ->
  let st3 := ppop_frames st (count_ended sp id (stack_view (b_stack st))) in
  (b_det st3 = true -> path_matches (get_path sp id) (rev (map f_id (b_stack st3))) = true) /\
  (b_det st3 = false -> all_ids (get_path sp id) = false).
Proof.
  intros [_ [Hv Ha]]. cbn zeta. unfold ppop_frames, ppush_q. cbn [pset_queue pset_stack b_stack b_det].
  split; [|exact Ha]. intros Hd. specialize (Hv Hd). unfold validate_tag_path in Hv.
  unfold stack_view in Hv at 2. rewrite skipn_map, map_map in Hv. cbn [fst] in Hv. exact Hv.
Qed.

(* ------------------------------------------------------------------ header *)
Lemma p_hier_step_J c em st id ty st1 r : p_hier_step c st id ty = (st1, r) -> JS (c_sp c) em st ->
  JS (c_sp c) em st1 /\
  (r = None -> b_bad st1 = None -> c_allow_hier c = false -> ty <> None ->
     (b_det st1 = true -> validate_tag_path (c_sp c) id (stack_view (b_stack st1)) = true) /\
     (b_det st1 = false -> all_ids (get_path (c_sp c) id) = false)).
Proof.
  unfold p_hier_step. intros H HJ. destruct (c_allow_hier c); cbn [negb andb] in H.
  { inversion H; subst. split; [exact HJ|]. intros _ _ Hq. discriminate Hq. }
  destruct ty as [ty|]; cbn [andb] in H.
  2:{ inversion H; subst. split; [exact HJ|]. intros _ _ _ Hq. contradiction. }
  destruct (b_det st) eqn:Ed.
  - destruct (validate_tag_path (c_sp c) id (stack_view (b_stack st))) eqn:Ev; rewrite Ed in H; cbn [andb negb] in H; inversion H; subst.
    + split; [exact HJ|]. intros _ _ _ _. split; [intros _; exact Ev|rewrite Ed; discriminate].
    + split; [exact HJ|]. discriminate.
  - destruct (all_ids (get_path (c_sp c) id)) eqn:Ea.
    + destruct (implied_stack (c_sp c) (get_path (c_sp c) id)) as [stk|].
      * assert (HJ1 : JS (c_sp c) em (pset_stack st (b_stack st ++ stk) true)).
        { unfold JS in *. cbn [pset_stack b_queue b_stack b_det]. rewrite map_app. apply inv_seed. rewrite <- Ed. exact HJ. }
        cbn [pset_stack b_det b_stack] in H.
        destruct (validate_tag_path (c_sp c) id (stack_view (b_stack st ++ stk))) eqn:Ev; cbn [andb negb] in H; inversion H; subst.
        -- split; [exact HJ1|]. intros _ _ _ _. cbn [pset_stack b_det b_stack]. split; [intros _; exact Ev|discriminate].
        -- split; [exact HJ1|]. discriminate.
      * inversion H; subst. split; [eapply JS_same; [| | |exact HJ]; reflexivity|].
        intros _ Hb. cbn [pset_bad b_bad] in Hb. destruct (b_bad st); discriminate.
    + rewrite Ed in H. cbn [andb] in H. inversion H; subst. split; [exact HJ|].
      intros _ _ _ _. split; [rewrite Ed; discriminate|reflexivity].
Qed.

Lemma p_header_J c em st st1 r : c_allow_id c = false -> c_allow_hier c = false ->
  p_header c st = (st1, r) -> JS (c_sp c) em st ->
  JS (c_sp c) em st1 /\ (forall id ty esz hl, r = Ok (id, ty, esz, hl) -> hfacts (c_sp c) st1 id).
Proof.
  intros Hid Hh H HJ. rewrite p_header_unfold in H.
  assert (Exit : forall r0, (forall x, r0 <> Ok x) -> (st, r0) = (st1, r) ->
            JS (c_sp c) em st1 /\ (forall id ty esz hl, r = Ok (id, ty, esz, hl) -> hfacts (c_sp c) st1 id)).
  { intros r0 Hr0 Hq. inversion Hq; subst. split; [exact HJ|]. intros id ty esz hl Hr. exfalso. eapply Hr0, Hr. }
  destruct (p_tag_id st) as [[id0 idl]|e0|]; try ((refine (Exit _ _ H); intros ?; discriminate)).
  unfold p_hdr_tail in H. destruct (read_vint _) as [[[size sl]|]|e1|]; try ((refine (Exit _ _ H); intros ?; discriminate)).
  destruct (is_numeric _ && _); [(refine (Exit _ _ H); intros ?; discriminate)|]. rewrite Hid in H. cbn [negb andb] in H.
  destruct (get_type (c_sp c) id0) as [ty0|] eqn:Ety; [|(refine (Exit _ _ H); intros ?; discriminate)].
  destruct (p_hier_step c st id0 (Some ty0)) as [st2 r2] eqn:Eh.
  destruct (p_hier_step_J _ _ _ _ _ _ _ Eh HJ) as [HJ2 Hf].
  assert (Exit2 : forall r0, (forall x, r0 <> Ok x) -> (st2, r0) = (st1, r) ->
            JS (c_sp c) em st1 /\ (forall id ty esz hl, r = Ok (id, ty, esz, hl) -> hfacts (c_sp c) st1 id)).
  { intros r0 Hr0 Hq. inversion Hq; subst. split; [exact HJ2|]. intros id ty esz hl Hr. exfalso. eapply Hr0, Hr. }
  destruct r2 as [e2|]; [(refine (Exit2 _ _ H); intros ?; discriminate)|].
  destruct (b_bad st2) eqn:Eb; [(refine (Exit2 _ _ H); intros ?; discriminate)|].
  assert (Hf2 : hfacts (c_sp c) st2 id0).
  { destruct (Hf eq_refl eq_refl Hh ltac:(discriminate)) as [A B]. split; [rewrite Ety; discriminate|split; assumption]. }
  destruct (_ && _); [(refine (Exit2 _ _ H); intros ?; discriminate)|].
  destruct (c_max c); destruct (ebml_size size sl); try destruct (_ <? _); try ((refine (Exit2 _ _ H); intros ?; discriminate));
    inversion H; subst; (split; [exact HJ2|]); intros id ty esz hl Hr; inversion Hr; subst; exact Hf2.
Qed.

(* ------------------------------------------------------------------ read_tag *)
Definition is_se (t : tag) : bool := match t with TElem _ _ | TStart _ => true | _ => false end.

Lemma p_tag_tail_facts c st ts id ty esz hl st' r : p_tag_tail c st ts (id, ty, esz, hl) = (st', r) ->
  b_stack st' = b_stack st /\ b_queue st' = b_queue st /\ b_det st' = b_det st /\
  (forall p, r = Ok p -> tag_id (p_tag p) = id /\ is_se (p_tag p) = true).
Proof.
  unfold p_tag_tail.
  assert (Fin : forall s r0, b_stack s = b_stack st -> b_queue s = b_queue st -> b_det s = b_det st ->
            (forall p, r0 = Ok p -> tag_id (p_tag p) = id /\ is_se (p_tag p) = true) -> (s, r0) = (st', r) ->
            b_stack st' = b_stack st /\ b_queue st' = b_queue st /\ b_det st' = b_det st /\
            (forall p, r = Ok p -> tag_id (p_tag p) = id /\ is_se (p_tag p) = true)).
  { intros s r0 A B C D Hq. inversion Hq; subst. split; [exact A|split; [exact B|split; [exact C|exact D]]]. }
  assert (OkP : forall t sz a b, tag_id t = id -> is_se t = true ->
            forall p, @Ok rerr ptag {| p_tag := t; p_size := sz; p_start := a; p_data := b |} = Ok p -> tag_id (p_tag p) = id /\ is_se (p_tag p) = true).
  { intros t sz a b Ht Hs p Hp. injection Hp as <-. cbn [p_tag]. split; assumption. }
  assert (ErrP : forall e p, @Err rerr ptag e = Ok p -> tag_id (p_tag p) = id /\ is_se (p_tag p) = true) by (intros; discriminate).
  assert (PanP : forall p, @Panic rerr ptag = Ok p -> tag_id (p_tag p) = id /\ is_se (p_tag p) = true) by (intros; discriminate).
  destruct ty as [[]|]; try (apply Fin; try reflexivity; apply OkP; reflexivity);
    (destruct esz as [size|]; [|apply Fin; try reflexivity; apply ErrP]);
    (destruct (_ <? size); [apply Fin; try reflexivity; apply ErrP|]).
  - destruct (arr_to_u64 _); apply Fin; try reflexivity; first [apply OkP; reflexivity|apply ErrP|apply PanP].
  - destruct (arr_to_i64 _); apply Fin; try reflexivity; first [apply OkP; reflexivity|apply ErrP|apply PanP].
  - destruct (utf8_valid _); apply Fin; try reflexivity; first [apply OkP; reflexivity|apply ErrP|apply PanP].
  - apply Fin; try reflexivity; apply OkP; reflexivity.
  - destruct (arr_to_f64 _); apply Fin; try reflexivity; first [apply OkP; reflexivity|apply ErrP|apply PanP].
  - apply Fin; try reflexivity; apply OkP; reflexivity.
Qed.

Lemma p_read_tag_J c em st st2 r : c_allow_id c = false -> c_allow_hier c = false ->
  p_read_tag c st = (st2, r) -> JS (c_sp c) em st ->
  JS (c_sp c) em st2 /\ (forall p, r = Ok p -> hfacts (c_sp c) st2 (tag_id (p_tag p)) /\ is_se (p_tag p) = true).
Proof.
  intros Hid Hh H HJ. rewrite p_read_tag_unfold in H.
  destruct (p_header c st) as [st1 r1] eqn:Eh. destruct (p_header_J _ _ _ _ _ Hid Hh Eh HJ) as [HJ1 Hf].
  destruct r1 as [[[[id ty] esz] hl]|e|].
  - destruct (p_tag_tail_facts _ _ _ _ _ _ _ _ _ H) as [A [B [C D]]].
    split; [eapply JS_same; eassumption|]. intros p Hp. destruct (D p Hp) as [D1 D2]. split; [|exact D2].
    rewrite D1. eapply hfacts_same; [exact A|exact C|]. eapply Hf. reflexivity.
  - inversion H; subst. split; [exact HJ1|discriminate].
  - inversion H; subst. split; [exact HJ1|discriminate].
Qed.

(* ------------------------------------------------------------------ read_next *)
Lemma p_read_next_J c em : c_allow_id c = false -> c_allow_hier c = false -> c_buffered c = [] ->
  forall fuel st, JS (c_sp c) em st -> JS (c_sp c) em (p_read_next fuel c st).
Proof.
  intros Hid Hh Hbuf. destruct fuel as [|f]; intros st HJ.
  - cbn [p_read_next]. eapply JS_same; [| | |exact HJ]; reflexivity.
  - rewrite p_read_next_unfold. cbn zeta.
    set (st1 := ppop_frames st _). assert (H1 : JS (c_sp c) em st1) by (apply JS_pop, HJ).
    unfold p_read_tag_checked. destruct (b_bytes st1) eqn:Eb.
    + destruct (c_emit_eof c); [apply JS_pop, H1|exact H1].
    + destruct (p_read_tag c st1) as [st2 r2] eqn:Er.
      destruct (p_read_tag_J _ _ _ _ _ Hid Hh Er H1) as [H2 Hf].
      destruct r2 as [p|e|].
      * destruct (Hf p eq_refl) as [Hfa Hse].
        pose proof (hfacts_pop _ _ _ Hfa) as Hpop. cbn zeta in Hpop.
        set (st3 := ppop_frames st2 _) in *. assert (H3 : JS (c_sp c) em st3) by (apply JS_pop, H2).
        destruct Hpop as [Hpm Hai]. destruct Hfa as [Hty _].
        destruct (p_tag p) as [id v|id|id|id cs] eqn:Ep; try discriminate Hse; cbn [tag_id] in *.
        -- apply JS_push_elem; assumption.
        -- rewrite Hbuf. cbn [mem_id existsb].
           apply (JS_push_start (c_sp c) em st3 {| f_id := id; f_size := p_size p; f_start := p_start p; f_data := p_data p |} (p_start p));
             cbn [f_id]; assumption.
      * apply JS_push_err, H2.
      * eapply JS_same; [| | |exact H2]; reflexivity.
Qed.

(* ------------------------------------------------------------------ next / try_recover *)
Definition nres_tags (r : nres) : list tag := match r with NItem t _ => [t] | _ => [] end.

Lemma p_next_J c em st : c_allow_id c = false -> c_allow_hier c = false -> c_buffered c = [] ->
  JS (c_sp c) em st -> JS (c_sp c) (em ++ nres_tags (snd (p_next c st))) (fst (p_next c st)).
Proof.
  intros Hid Hh Hbuf HJ. unfold p_next.
  assert (H1 : JS (c_sp c) em (match b_queue st with [] => p_read_next (b_fuel st) c st | _ :: _ => st end)).
  { destruct (b_queue st); [apply p_read_next_J; assumption|exact HJ]. }
  set (st1 := match b_queue st with [] => _ | _ => _ end) in *. unfold JS in H1.
  destruct (b_queue st1) as [|[t o|e] q] eqn:Eq; cbn [fst snd nres_tags].
  - rewrite app_nil_r. unfold JS. rewrite Eq. exact H1.
  - unfold JS. cbn [pset_last pset_queue b_queue b_stack b_det]. cbn [qtags flat_map] in H1.
    rewrite <- app_assoc. exact H1.
  - rewrite app_nil_r. unfold JS. cbn [pset_queue b_queue b_stack b_det]. cbn [qtags flat_map app] in H1. exact H1.
Qed.

Lemma p_recover_loop_J c em : c_allow_id c = false -> c_allow_hier c = false ->
  forall fuel st, JS (c_sp c) em st -> JS (c_sp c) em (fst (p_recover_loop fuel c st)).
Proof.
  intros Hid Hh. induction fuel as [|f IH]; intros st HJ; cbn [p_recover_loop].
  - cbn [fst]. eapply JS_same; [| | |exact HJ]; reflexivity.
  - destruct (b_bytes st) eqn:Eb; [exact HJ|].
    assert (HJ0 : JS (c_sp c) em (pconsume st 1)) by (eapply JS_same; [| | |exact HJ]; reflexivity).
    destruct (p_header c (pconsume st 1)) as [st2 r] eqn:Eh.
    destruct (p_header_J _ _ _ _ _ Hid Hh Eh HJ0) as [HJ2 _].
    destruct r as [h|e|]; cbn [fst].
    + exact HJ2.
    + apply IH, HJ2.
    + eapply JS_same; [| | |exact HJ2]; reflexivity.
Qed.

Lemma grow_frames_ids d stk : map f_id (grow_frames d stk) = map f_id stk.
Proof.
  unfold grow_frames. rewrite map_map. apply map_ext. intros f. destruct (f_size f); reflexivity.
Qed.

Lemma p_try_recover_J c em st : c_allow_id c = false -> c_allow_hier c = false ->
  JS (c_sp c) em st -> JS (c_sp c) em (fst (p_try_recover c st)).
Proof.
  intros Hid Hh HJ. unfold p_try_recover. pose proof (p_recover_loop_J c em Hid Hh (b_fuel st) st HJ) as H.
  destruct (p_recover_loop (b_fuel st) c st) as [st1 [e|]]; cbn [fst] in *; [exact H|].
  unfold JS in *. cbn [pset_stack b_queue b_stack b_det]. rewrite grow_frames_ids. exact H.
Qed.

(* ------------------------------------------------------------------ runs *)
Definition accepted (sp : spec) (items : list tag) : Prop := exists base, chk sp base false items <> None.

Lemma accepted_prefix sp a b : accepted sp (a ++ b) -> accepted sp a.
Proof. intros [base H]. exists base. eapply chk_prefix, H. Qed.

Lemma JS_accepted sp em st : JS sp em st -> accepted sp em.
Proof. intros [base [d [H _]]]. exists base. eapply chk_prefix. rewrite H. discriminate. Qed.

Section Runs.
Variable c : cfg.
Hypothesis Hid : c_allow_id c = false.
Hypothesis Hh : c_allow_hier c = false.
Hypothesis Hbuf : c_buffered c = [].

(* a run that is cut short by a panic site or the recursion budget may have taken one more item off the queue than it
   reports: what it reports is still accepted *)
Lemma p_run_all_J : forall limit em st, JS (c_sp c) em st ->
  accepted (c_sp c) (em ++ out_tags (snd (p_run_all limit c st))) /\
  (b_bad (fst (p_run_all limit c st)) = None ->
   JS (c_sp c) (em ++ out_tags (snd (p_run_all limit c st))) (fst (p_run_all limit c st))).
Proof.
  induction limit as [|l IH]; intros em st HJ; cbn [p_run_all].
  - cbn [fst snd out_tags flat_map]. rewrite app_nil_r. split; [eapply JS_accepted, HJ|intros _; exact HJ].
  - pose proof (p_next_J c em st Hid Hh Hbuf HJ) as H1. destruct (p_next c st) as [st1 r]. cbn [fst snd] in H1.
    destruct (b_bad st1) as [b|] eqn:Eb.
    { cbn [fst snd]. replace (out_tags [bad_out b]) with (@nil tag) by (destruct b; reflexivity).
      rewrite app_nil_r. split; [|rewrite Eb; discriminate].
      eapply accepted_prefix, JS_accepted, H1. }
    destruct r as [t o|e|]; cbn [nres_tags] in H1.
    + specialize (IH _ _ H1). destruct (p_run_all l c st1) as [st2 outs]. cbn [fst snd] in *.
      cbn [out_tags flat_map] in *. rewrite <- app_assoc in IH. exact IH.
    + cbn [fst snd out_tags flat_map app]. split; [eapply JS_accepted, H1|intros _; exact H1].
    + cbn [fst snd out_tags flat_map app]. split; [eapply JS_accepted, H1|intros _; exact H1].
Qed.

Lemma p_run_ops_J limit : forall ops em st, JS (c_sp c) em st ->
  accepted (c_sp c) (em ++ out_tags (snd (p_run_ops c limit st ops))).
Proof.
  induction ops as [|op ops IH]; intros em st HJ; cbn [p_run_ops].
  - cbn [snd out_tags flat_map]. rewrite app_nil_r. eapply JS_accepted, HJ.
  - destruct op.
    + pose proof (p_next_J c em st Hid Hh Hbuf HJ) as H1. destruct (p_next c st) as [st1 r]. cbn [fst snd] in H1.
      destruct (b_bad st1) as [b|].
      { cbn [snd]. replace (out_tags [bad_out b]) with (@nil tag) by (destruct b; reflexivity).
        rewrite app_nil_r. eapply accepted_prefix, JS_accepted, H1. }
      specialize (IH _ _ H1). destruct (p_run_ops c limit st1 ops) as [st2 outs]. cbn [snd] in *.
      destruct r as [t o|e|]; cbn [nres_tags out_tags flat_map app] in *.
      * rewrite <- app_assoc in IH. exact IH.
      * rewrite app_nil_r in IH. exact IH.
      * rewrite app_nil_r in IH. exact IH.
    + pose proof (p_try_recover_J c em st Hid Hh HJ) as H1. destruct (p_try_recover c st) as [st1 r]. cbn [fst] in H1.
      destruct (b_bad st1) as [b|].
      { cbn [snd]. replace (out_tags [bad_out b]) with (@nil tag) by (destruct b; reflexivity).
        rewrite app_nil_r. eapply JS_accepted, H1. }
      specialize (IH _ _ H1). destruct (p_run_ops c limit st1 ops) as [st2 outs]. cbn [snd] in *.
      destruct r as [e|]; cbn [out_tags flat_map app] in *; exact IH.
    + destruct (p_run_all_J limit em st HJ) as [Ha Hj]. destruct (p_run_all limit c st) as [st1 outs1]. cbn [fst snd] in *.
      destruct (b_bad st1); [exact Ha|].
      specialize (IH _ _ (Hj eq_refl)). destruct (p_run_ops c limit st1 ops) as [st2 outs]. cbn [snd] in *.
      rewrite out_tags_app, app_assoc. exact IH.
Qed.

End Runs.

Lemma JS_init sp input : JS sp [] (p_init input).
Proof. exists [], false. cbn. split; [reflexivity|split; [discriminate|reflexivity]]. Qed.

(* C06: every End closes the innermost open master; every Start/element has a known id and, once the document path is
   determined, a declared path that matches the chain of open masters; no other kind of item occurs *)
Theorem strict_items_well_nested : forall c input ops,
  c_allow_id c = false -> c_allow_hier c = false -> c_buffered c = [] ->
  exists base, chk (c_sp c) base false (out_tags (p_run c input ops)) <> None.
Proof.
  intros c input ops Hid Hh Hbuf. unfold p_run.
  apply (p_run_ops_J c Hid Hh Hbuf _ ops [] (p_init input)). apply JS_init.
Qed.

(* ------------------------------------------------------------------ end of input closes everything *)
(* next() answers None only when the queue is empty after read_next, which with emit-at-eof means that read_next found the end
   of the input with no master left open (had one been open, its End would have been queued) *)
Lemma p_read_next_quiet c : c_buffered c = [] -> c_emit_eof c = true -> forall fuel st,
  b_queue (p_read_next fuel c st) = [] -> b_bad (p_read_next fuel c st) = None -> b_stack (p_read_next fuel c st) = [].
Proof.
  intros Hbuf Heof. destruct fuel as [|f]; intros st.
  - cbn [p_read_next pset_bad b_bad]. intros _ Hb. destruct (b_bad st); discriminate.
  - rewrite p_read_next_unfold. cbn zeta. set (st1 := ppop_frames st _).
    unfold p_read_tag_checked. destruct (b_bytes st1) eqn:Eb.
    + rewrite Heof. unfold ppop_frames, ppush_q. cbn [pset_queue pset_stack b_queue b_stack]. intros _ _. apply skipn_all.
    + destruct (p_read_tag c st1) as [st2 [p|e|]].
      * destruct (p_tag p) as [id v|id|id|id cs]; cbn [tag_id]; try rewrite Hbuf; cbn [mem_id existsb];
          unfold ppush_q; cbn [pset_queue b_queue]; intros Hq; apply app_eq_nil in Hq; destruct Hq as [_ Hq]; discriminate.
      * unfold ppush_q; cbn [pset_queue b_queue]; intros Hq; apply app_eq_nil in Hq; destruct Hq as [_ Hq]; discriminate.
      * cbn [pset_bad b_bad]. intros _ Hb. destruct (b_bad st2); discriminate.
Qed.

Lemma p_next_none c st : c_buffered c = [] -> c_emit_eof c = true ->
  snd (p_next c st) = NNone -> b_bad (fst (p_next c st)) = None ->
  b_queue (fst (p_next c st)) = [] /\ b_stack (fst (p_next c st)) = [].
Proof.
  intros Hbuf Heof. unfold p_next. destruct (b_queue st) as [|q0 ql] eqn:Eq.
  - destruct (b_queue (p_read_next (b_fuel st) c st)) as [|[t o|e] q] eqn:E1; cbn [fst snd]; try discriminate.
    intros _ Hb. split; [exact E1|]. apply p_read_next_quiet; assumption.
  - rewrite Eq. destruct q0 as [t o|e]; cbn [snd]; discriminate.
Qed.

Lemma single_tail {A} (x y : A) outs : [x] = outs ++ [y] -> outs = [] /\ x = y.
Proof. intros H. destruct (app_inj_tail [] outs x y H) as [A1 A2]. split; [symmetry; exact A1|exact A2]. Qed.

Lemma p_run_all_none c : c_buffered c = [] -> c_emit_eof c = true -> forall limit st outs,
  snd (p_run_all limit c st) = outs ++ [ONone] ->
  b_bad (fst (p_run_all limit c st)) = None /\ b_queue (fst (p_run_all limit c st)) = [] /\ b_stack (fst (p_run_all limit c st)) = [].
Proof.
  intros Hbuf Heof. induction limit as [|l IH]; intros st outs; cbn [p_run_all].
  - cbn [snd]. intros H. apply single_tail in H. destruct H as [_ H]. discriminate.
  - pose proof (p_next_none c st Hbuf Heof) as Hn. destruct (p_next c st) as [st1 r]. cbn [fst snd] in Hn.
    destruct (b_bad st1) as [b|] eqn:Eb.
    { cbn [snd]. intros H. apply single_tail in H. destruct H as [_ H]. destruct b; discriminate. }
    destruct r as [t o|e|].
    + specialize (IH st1). destruct (p_run_all l c st1) as [st2 outs2]. cbn [fst snd] in *.
      destruct outs as [|x outs0]; cbn [app]; intros H; [discriminate|].
      injection H as _ H. apply (IH outs0), H.
    + cbn [snd]. intros H. apply single_tail in H. destruct H as [_ H]. discriminate.
    + cbn [fst snd]. intros _. destruct (Hn eq_refl eq_refl) as [A B]. split; [exact Eb|split; assumption].
Qed.

(* C06, end of input: when the complete run over the input ends with None (no error, no cut), the checker's open chain is
   empty after the last item: every master that was opened, and every implied ancestor, has received its End *)
Theorem eof_closes_all : forall c input,
  c_allow_id c = false -> c_allow_hier c = false -> c_buffered c = [] -> c_emit_eof c = true ->
  forall outs, p_run c input [RAll] = outs ++ [ONone] ->
  exists base det, chk (c_sp c) base false (out_tags outs) = Some ([], det).
Proof.
  intros c input Hid Hh Hbuf Heof outs. unfold p_run. cbn [p_run_ops].
  set (limit := (4 * length input + 64)%nat).
  destruct (p_run_all_J c Hid Hh Hbuf limit [] (p_init input) (JS_init _ _)) as [_ HJ].
  pose proof (p_run_all_none c Hbuf Heof limit (p_init input) outs) as Hn.
  destruct (p_run_all limit c (p_init input)) as [st1 outs1]. cbn [fst snd] in *.
  assert (Hs : snd (match b_bad st1 with Some _ => (st1, outs1) | None => (st1, outs1 ++ []) end) = outs1).
  { destruct (b_bad st1); cbn [snd]; [reflexivity|apply app_nil_r]. }
  rewrite Hs. intros Hq. destruct (Hn Hq) as [Hb [Hqe Hst]]. specialize (HJ Hb).
  unfold JS in HJ. rewrite Hqe, Hst, Hq, out_tags_app in HJ. cbn [qtags flat_map map out_tags app] in HJ.
  rewrite !app_nil_r in HJ. destruct HJ as [base [d [H _]]]. exists base, d. exact H.
Qed.
