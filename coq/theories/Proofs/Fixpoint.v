(* C02: reading a conforming document, writing the tags back with default options and reading again is a fixpoint. *)
From Ebml Require Import Base Tools Spec Writer Reader Pure Encode.
From Ebml Require Import Proofs.Tactics Proofs.BytesProofs Proofs.VintProofs Proofs.DecodersProofs Proofs.SpecProofs Proofs.WriterProofs Proofs.PureProofs Proofs.RoundTrip Proofs.WriteEnc.
Import ListNotations.
Local Open Scope N_scope.

(* ------------------------------------------------------------------ decoded values are in range *)
Lemma pow256_pow2 n : 256 ^ N.of_nat n = 2 ^ (8 * N.of_nat n).
Proof. change 256 with (2 ^ 8). rewrite <- N.pow_mul_r. reflexivity. Qed.

Lemma from_be_lt64 a : wf_bytes a -> (length a <= 8)%nat -> from_be a < 2 ^ 64.
Proof.
  intros Hw Hl. pose proof (from_be_bound a Hw) as Hb. rewrite pow256_pow2 in Hb.
  assert (H : 2 ^ (8 * N.of_nat (length a)) <= 2 ^ 64) by (apply N.pow_le_mono_r; lia). lia.
Qed.

Lemma u64_range a n : wf_bytes a -> arr_to_u64 a = Ok n -> n < 2 ^ 64.
Proof.
  intros Hw H. unfold arr_to_u64 in H. destruct (Nat.ltb_spec 8 (length a)); [discriminate|]. injection H as <-. apply from_be_lt64; assumption.
Qed.

Lemma i64_range a z : wf_bytes a -> arr_to_i64 a = Ok z -> (- 2 ^ 63 <= z < 2 ^ 63)%Z.
Proof.
  intros Hw H. unfold arr_to_i64 in H. destruct (Nat.ltb_spec 8 (length a)) as [|Hl]; [discriminate|].
  destruct a as [|b0 tl]; [injection H as <-; lia|].
  pose proof (from_be_lt64 _ Hw Hl) as H64. pose proof (from_be_bound _ Hw) as Hb. rewrite pow256_pow2 in Hb.
  assert (Hb0 : b0 < 256) by (inversion Hw; assumption).
  assert (Hwt : wf_bytes tl) by (inversion Hw; assumption).
  pose proof (from_be_bound _ Hwt) as Hbt. rewrite pow256_pow2 in Hbt.
  rewrite from_be_cons in *. rewrite pow256_pow2 in *. cbn [length] in *.
  set (L := length tl) in *. set (v := from_be tl) in *.
  assert (HP : 2 ^ (8 * N.of_nat (S L)) = 256 * 2 ^ (8 * N.of_nat L)).
  { replace (8 * N.of_nat (S L)) with (8 + 8 * N.of_nat L) by lia. rewrite N.pow_add_r. reflexivity. }
  assert (HL : 2 ^ (8 * N.of_nat L) <= 2 ^ 56) by (apply N.pow_le_mono_r; lia).
  assert (HL1 : 0 < 2 ^ (8 * N.of_nat L)) by (apply N.neq_0_lt_0, N.pow_nonzero; lia).
  change (2 ^ 56) with 72057594037927936 in HL. change (2 ^ 64) with 18446744073709551616 in H64.
  destruct (N.ltb_spec 127 b0) as [Hneg|Hpos].
  - destruct (Nat.eqb_spec (S L) 8) as [E8|N8].
    + injection H as <-. unfold of_u64. destruct (N.ltb_spec (b0 * 2 ^ (8 * N.of_nat L) + v) 9223372036854775808); lia.
    + injection H as <-.
      assert (HZ : (2 ^ (8 * Z.of_nat (S L)) = Z.of_N (2 ^ (8 * N.of_nat (S L))))%Z).
      { rewrite N2Z.inj_pow. f_equal; lia. }
      change (Z.pos (Pos.of_succ_nat L)) with (Z.of_nat (S L)). rewrite HZ, HP.
      assert (HL7 : 2 ^ (8 * N.of_nat L) <= 2 ^ 48) by (apply N.pow_le_mono_r; lia).
      change (2 ^ 48) with 281474976710656 in HL7. nia.
  - injection H as <-.
    assert (b0 * 2 ^ (8 * N.of_nat L) + v < 128 * 2 ^ (8 * N.of_nat L)) by nia. nia.
Qed.

Lemma lor_lt a b n : a < 2 ^ n -> b < 2 ^ n -> N.lor a b < 2 ^ n.
Proof.
  intros Ha Hb. destruct (N.eq_dec (N.lor a b) 0) as [E|NE]; [rewrite E; apply N.neq_0_lt_0, N.pow_nonzero; lia|].
  apply N.log2_lt_pow2; [lia|]. rewrite N.log2_lor.
  destruct (N.eq_dec a 0) as [Ea|Na]; destruct (N.eq_dec b 0) as [Eb|Nb]; subst; try (rewrite N.lor_0_l in NE || rewrite N.lor_0_r in NE); try contradiction.
  - cbn [N.log2]. rewrite N.max_0_l. apply N.log2_lt_pow2; lia.
  - change (N.log2 0) with 0. rewrite N.max_0_r. apply N.log2_lt_pow2; lia.
  - apply N.max_lub_lt; apply N.log2_lt_pow2; lia.
Qed.

Lemma widen32_range x : x < 2 ^ 32 -> widen32 x < 2 ^ 64.
Proof.
  intros Hx. unfold widen32.
  set (s := x / 2 ^ 31). set (e := (x / 2 ^ 23) mod 256). set (m := x mod 2 ^ 23).
  assert (Hs : s <= 1).
  { unfold s. assert (x / 2 ^ 31 < 2); [|lia]. apply N.div_lt_upper_bound; [discriminate|]. change (2 ^ 31 * 2) with (2 ^ 32). exact Hx. }
  assert (He : e < 256) by (apply N.mod_lt; discriminate).
  assert (Hm : m < 2 ^ 23) by (apply N.mod_lt; discriminate).
  change (2 ^ 23) with 8388608 in Hm. change (2 ^ 64) with 18446744073709551616. change (2 ^ 63) with 9223372036854775808.
  change (2 ^ 52) with 4503599627370496. change (2 ^ 29) with 536870912.
  destruct (N.eqb_spec e 255) as [E255|N255].
  - destruct (N.eqb_spec m 0); [nia|].
    assert (Hl : N.lor (m * 536870912) (2 ^ 51) < 2 ^ 52).
    { apply lor_lt; [change (2 ^ 52) with 4503599627370496; nia|apply N.pow_lt_mono_r; lia]. }
    change (2 ^ 52) with 4503599627370496 in Hl. nia.
  - destruct (N.eqb_spec e 0) as [E0|N0].
    + destruct (N.eqb_spec m 0) as [M0|NM0]; [nia|].
      set (k := N.log2 m).
      assert (Hk : 2 ^ k <= m < 2 ^ N.succ k) by (apply N.log2_spec; lia).
      assert (Hk22 : k < 23) by (apply N.log2_lt_pow2; [lia|exact Hm]).
      assert (Hp : 2 ^ k * 2 ^ (52 - k) = 4503599627370496).
      { rewrite <- N.pow_add_r. replace (k + (52 - k)) with 52 by lia. reflexivity. }
      rewrite N.pow_succ_r' in Hk.
      assert (Hq : (m - 2 ^ k) * 2 ^ (52 - k) < 4503599627370496).
      { rewrite <- Hp. apply N.mul_lt_mono_pos_r; [apply N.neq_0_lt_0, N.pow_nonzero; lia|lia]. }
      nia.
    + nia.
Qed.

Lemma f64_range a b : wf_bytes a -> arr_to_f64 a = Ok b -> b < 2 ^ 64.
Proof.
  intros Hw H. unfold arr_to_f64 in H. destruct (Nat.eqb_spec (length a) 4) as [E4|N4].
  - injection H as <-. apply widen32_range. pose proof (from_be_bound a Hw) as Hb. rewrite E4 in Hb. exact Hb.
  - destruct (Nat.eqb_spec (length a) 8) as [E8|N8]; [|discriminate]. injection H as <-. apply from_be_lt64; [exact Hw|lia].
Qed.

Lemma decodes_shape ty pl v : wf_bytes pl -> ty <> DMaster -> decodes (Some ty) pl v -> vshape ty v /\ vok v.
Proof.
  intros Hw Hnm Hd. destruct ty, v; cbn [decodes] in Hd; try contradiction; cbn [vshape vok].
  - split; [exact I|eapply u64_range; eassumption].
  - split; [exact I|eapply i64_range; eassumption].
  - destruct Hd as [-> Hu]. split; [exact I|split; assumption].
  - subst bs. split; [exact I|exact Hw].
  - split; [exact I|eapply f64_range; eassumption].
Qed.

(* ------------------------------------------------------------------ the canonical re-encoding: what the writer emits
   for the same tags under default options (smallest size widths, the writer's payload encodings, every master of known size) *)
Definition min_sl (size : N) : nat := find_size_len size 1 7.
Fixpoint canon (t : rtree) : rtree :=
  match t with
  | RLeaf id v _ _ => RLeaf id v (payload_of v) (min_sl (N.of_nat (length (payload_of v))))
  | RNode id _ cs => let cs' := map canon cs in RNode id (Some (min_sl (flen cs'))) cs'
  end.

(* sizes of the re-encoding: below the largest size a size field can carry, and within the reader's limit *)
Fixpoint sized (c : cfg) (t : rtree) : Prop :=
  match t with
  | RLeaf _ _ pl _ => N.of_nat (length pl) < 2 ^ 56 - 1 /\ size_ok c (SKnown (N.of_nat (length pl)))
  | RNode _ _ cs => flen cs < 2 ^ 56 - 1 /\ size_ok c (SKnown (flen cs)) /\
                    (fix all (l : list rtree) : Prop := match l with [] => True | x :: l' => sized c x /\ all l' end) cs
  end.

Lemma sized_node c id sz cs : sized c (RNode id sz cs) <-> flen cs < 2 ^ 56 - 1 /\ size_ok c (SKnown (flen cs)) /\ Forall (sized c) cs.
Proof.
  cbn [sized].
  assert (H : (fix all (l : list rtree) : Prop := match l with [] => True | x :: l' => sized c x /\ all l' end) cs <-> Forall (sized c) cs).
  { induction cs as [|x l IH]; [split; [constructor|trivial]|]. split.
    - intros [Hx Hl]. constructor; [exact Hx|apply IH, Hl].
    - intros HF. inversion HF as [|? ? Hx Hl]; subst. split; [exact Hx|apply IH, Hl]. }
  tauto.
Qed.

Lemma min_sl_field size : size < 2 ^ 56 - 1 -> field_ok true (min_sl size) size.
Proof.
  intros H. unfold min_sl. pose proof (find_size_len_spec size 7 1 eq_refl (le_n 1)) as Hs. cbn zeta in Hs. destruct Hs as [Hr Hlt].
  split; [lia|]. split; [|reflexivity].
  destruct (Nat.eq_dec (find_size_len size 1 7) 8) as [E|NE]; [rewrite E; exact H|apply Hlt; lia].
Qed.

Lemma canon_node id sz cs : canon (RNode id sz cs) = RNode id (Some (min_sl (flen (map canon cs)))) (map canon cs).
Proof. reflexivity. Qed.

Lemma canon_conf c : forall t ids, conf c ids t -> sized c (canon t) -> wconf (c_sp c) true ids (canon t) /\ rconf c (canon t).
Proof.
  induction t as [id v pl sl|id sz cs IH] using rtree_ind'; intros ids Hc Hs.
  - destruct Hc as [Hid [_ [_ [Hwf [[ty [Hty [Hnm Hdec]]] [Hpath _]]]]]]. cbn [canon] in *. destruct Hs as [Hlt Hmax].
    destruct (decodes_shape ty pl v Hwf Hnm Hdec) as [Hshape Hvok]. split.
    + split; [exact Hpath|]. exists ty. split; [exact Hty|]. split; [exact Hnm|]. split; [exact Hshape|]. split; [reflexivity|].
      apply min_sl_field, Hlt.
    + split; [exact Hid|]. split; [exact Hvok|exact Hmax].
  - apply conf_node in Hc. destruct Hc as [Hid [_ [Hty [Hpath [_ Hcs]]]]]. rewrite canon_node in *.
    apply sized_node in Hs. destruct Hs as [Hlt [Hmax Hss]].
    assert (Hall : Forall (fun t => wconf (c_sp c) true (ids ++ [id]) t /\ rconf c t) (map canon cs)).
    { clear Hlt Hmax. induction cs as [|x l IHl]; [constructor|]. cbn [map] in *.
      inversion IH as [|? ? Hx Hl]; subst. inversion Hcs as [|? ? Hcx Hcl]; subst. inversion Hss as [|? ? Hsx Hsl]; subst.
      constructor; [apply Hx; assumption|apply IHl; assumption]. }
    split.
    + apply wconf_node. split; [exact Hpath|]. split; [exact Hty|]. split.
      * intros sl' Hsl. injection Hsl as <-. apply min_sl_field, Hlt.
      * eapply Forall_impl; [|exact Hall]. intros t [H1 _]. exact H1.
    + apply rconf_node. split; [exact Hid|]. split; [exact Hmax|]. eapply Forall_impl; [|exact Hall]. intros t [_ H2]. exact H2.
Qed.

Lemma canon_tags : forall t, tags_tree (canon t) = tags_tree t.
Proof.
  induction t as [id v pl sl|id sz cs IH] using rtree_ind'; [reflexivity|].
  rewrite canon_node, !tags_tree_node. f_equal. f_equal.
  induction cs as [|x l IHl]; [reflexivity|]. inversion IH as [|? ? Hx Hl]; subst. cbn [map tags_forest]. rewrite Hx, (IHl Hl). reflexivity.
Qed.

Lemma canon_tags_forest : forall l, tags_forest (map canon l) = tags_forest l.
Proof. induction l as [|x l IH]; [reflexivity|]. cbn [map tags_forest]. rewrite canon_tags, IH. reflexivity. Qed.

Definition default_write (t : tag) : wop := OpWrite t o_default.

Lemma canon_ops : forall t, wops_tree true (canon t) = map default_write (tags_tree t).
Proof.
  induction t as [id v pl sl|id sz cs IH] using rtree_ind'; [reflexivity|].
  rewrite canon_node, wops_tree_node, tags_tree_node. cbn [map node_opt wopt]. unfold default_write at 1. f_equal.
  rewrite map_app. cbn [map]. f_equal.
  induction cs as [|x l IHl]; [reflexivity|]. inversion IH as [|? ? Hx Hl]; subst.
  cbn [map wops_forest tags_forest]. rewrite map_app, Hx, (IHl Hl). reflexivity.
Qed.

Lemma canon_ops_forest : forall l, wops_forest true (map canon l) = map default_write (tags_forest l).
Proof. induction l as [|x l IH]; [reflexivity|]. cbn [map wops_forest tags_forest]. rewrite map_app, canon_ops, IH. reflexivity. Qed.

(* the tags of a run, in order *)
Fixpoint run_tags (outs : list rout) : list tag :=
  match outs with [] => [] | OItem t _ :: r => t :: run_tags r | _ :: r => run_tags r end.

Lemma run_tags_app a b : run_tags (a ++ b) = run_tags a ++ run_tags b.
Proof. induction a as [|x a IH]; [reflexivity|]. destruct x; cbn [app run_tags]; rewrite ?IH; reflexivity. Qed.

Lemma run_tags_items : forall t off, run_tags (items_tree off t) = tags_tree t.
Proof.
  induction t as [id v pl sl|id sz cs IH] using rtree_ind'; intros off; [reflexivity|].
  rewrite items_tree_node, tags_tree_node. cbn [run_tags]. f_equal. rewrite run_tags_app. cbn [run_tags]. f_equal.
  set (o1 := off + N.of_nat (hdr_len (RNode id sz cs))). clearbody o1. revert o1.
  induction cs as [|x l IHl]; intros o1; [reflexivity|]. inversion IH as [|? ? Hx Hl]; subst.
  cbn [items_forest tags_forest]. rewrite run_tags_app, Hx, (IHl Hl). reflexivity.
Qed.

Lemma run_tags_items_forest : forall l off, run_tags (items_forest off l) = tags_forest l.
Proof. induction l as [|x l IH]; intros off; [reflexivity|]. cbn [items_forest tags_forest]. rewrite run_tags_app, run_tags_items, IH. reflexivity. Qed.

(* C02 on conforming documents: whatever encoding choices the document makes (padded integers, 4-byte floats, empty integer
   payloads, wide or unknown size fields), the tags the strict reader yields are accepted by the writer under default options
   and its output reads back as the same tags *)
Theorem read_write_read c f : strict c -> c_buffered c = [] -> c_emit_eof c = true -> Forall (conf c []) f ->
  Forall (sized c) (map canon f) ->
  let first := p_run c (enc_forest f) [RAll] in
  let written := run_writer (c_sp c) (map default_write (run_tags first)) [] in
  Forall (fun r => fst r = WOk) (fst written) /\
  snd written = enc_forest (map canon f) /\
  map out_tag (p_run c (snd written) [RAll]) = map out_tag first.
Proof.
  intros Hs Hb He Hc Hsz. cbn zeta.
  rewrite (reader_roundtrip c f Hs Hb He Hc), run_tags_app, run_tags_items_forest. cbn [run_tags]. rewrite app_nil_r.
  rewrite <- canon_ops_forest.
  assert (Hcc : Forall (fun t => wconf (c_sp c) true [] t /\ rconf c t) (map canon f)).
  { clear Hs Hb He. induction f as [|x l IH]; [constructor|]. cbn [map] in *.
    inversion Hc as [|? ? Hx Hl]; subst. inversion Hsz as [|? ? Hsx Hsl]; subst.
    constructor; [apply canon_conf; assumption|apply IH; assumption]. }
  assert (Hw : Forall (wconf (c_sp c) true []) (map canon f)) by (eapply Forall_impl; [|exact Hcc]; intros t [H1 _]; exact H1).
  assert (Hr : Forall (rconf c) (map canon f)) by (eapply Forall_impl; [|exact Hcc]; intros t [_ H2]; exact H2).
  destruct (writer_encodes (c_sp c) true (map canon f) Hw) as [Hok Henc].
  split; [exact Hok|]. split; [exact Henc|].
  rewrite Henc. rewrite reader_roundtrip_tags; try assumption.
  - rewrite canon_tags_forest, map_app, items_tags_forest. reflexivity.
  - rewrite Forall_forall in *. intros t Hin. apply (wconf_conf c true t []); [apply Hw, Hin|apply Hr, Hin].
Qed.
