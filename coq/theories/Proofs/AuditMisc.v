(* Audit follow-up for C18 and C07.
   Part 1 (C18): a readable characterisation of "the derive macro accepts the declaration" (Model/Derive.v):
   derive_full d = Some pvs  <->  every variant is well-attributed, ids are distinct, and every declared path ends in a master that
   declares the path before it.
   Part 2 (C18): a RawTag carrying a declared non-binary id is written as is (repair D27; it used to reach the writer's "Bad
   specification implementation" panic) - the concrete scenarios; the general theorems are in Proofs/WriterNoPanic.v.
   Part 3 (C07): the all-known-size re-encoding of a conforming document conforms, PROVIDED the whole document fits an 8-byte size
   field and the configured maximum element size ([fits]); so the second [conf] hypothesis of encoding_choices_irrelevant follows from
   the first for g := map known_tree f.  Without [fits] the statement is false (c_max limits known sizes but not unknown-size
   masters): known_conf_counterexample. *)
From Ebml Require Import Base Tools Spec Writer Reader Pure Encode Derive Proofs.Tactics Proofs.SpecProofs Proofs.PureProofs
  Proofs.RoundTrip Proofs.DeriveProofs.
From Coq Require Import Lia List NArith.
Import ListNotations.
Local Open Scope N_scope.

(* ================================================================== Part 1: accepted declarations *)


Definition attr_ids (l : list attr) : list N :=
  flat_map (fun a => match a with AId i => [i] | _ => [] end) l.
Definition attr_types (l : list attr) : list (option dtype) :=
  flat_map (fun a => match a with AType t => [t] | _ => [] end) l.
Definition attr_paths (l : list attr) : list (list ppart) :=
  flat_map (fun a => match a with APath p => [p] | _ => [] end) l.

(* ------------------------------------------------------------------ check_parts *)

(* readable form of [check_parts names false p] *)
Definition parts_ok (names : list N) (p : list ppart) : Prop :=
  (forall n, In (PPIdent n) p -> In n names) /\
  (forall mn mx, In (PPGlobal mn mx) p -> fits_u64 mn = true /\ fits_u64 mx = true /\ mx <> Some 0) /\
  (forall pre a1 a2 b1 b2 post, p <> pre ++ PPGlobal a1 a2 :: PPGlobal b1 b2 :: post).

Lemma parts_ok_tail names x p : parts_ok names (x :: p) -> parts_ok names p.
Proof.
  intros [H1 [H2 H3]]. split; [|split].
  - intros n Hn. apply H1. now right.
  - intros mn mx Hm. apply (H2 mn mx). now right.
  - intros pre a1 a2 b1 b2 post ->. now apply (H3 (x :: pre) a1 a2 b1 b2 post).
Qed.

Lemma parts_ok_check names : forall p b, parts_ok names p ->
  match p with PPGlobal _ _ :: _ => b = false | _ => True end -> check_parts names b p = true.
Proof.
  induction p as [|x p IH]; intros b Hok Hb. reflexivity.
  pose proof (parts_ok_tail _ _ _ Hok) as Htl. destruct Hok as [H1 [H2 H3]].
  destruct x as [n|mn mx]; cbn [check_parts].
  - rewrite (IH false Htl) by (destruct p as [|[|]]; auto). rewrite andb_true_r.
    apply existsb_eqb_in, H1. now left.
  - destruct (H2 mn mx (or_introl eq_refl)) as [F1 [F2 F3]]. subst b. rewrite F1, F2.
    rewrite IH; [|assumption|].
    + destruct (optN_eqb mx (Some 0)) eqn:E; [|reflexivity]. apply optN_eqb_eq in E. contradiction.
    + destruct p as [|[|b1 b2] post]; auto. exfalso. now apply (H3 [] mn mx b1 b2 post).
Qed.

Lemma check_parts_iff names p : check_parts names false p = true <-> parts_ok names p.
Proof.
  split.
  - intro H. split; [|split].
    + intros n Hn. eapply check_parts_ident; eauto.
    + intros mn mx Hm. split; [|split].
      * destruct (fits_u64 mn) eqn:E; [reflexivity|].
        rewrite (check_parts_overflow names p false mn mx Hm) in H; [discriminate|]. now rewrite E.
      * destruct (fits_u64 mx) eqn:E; [reflexivity|].
        rewrite (check_parts_overflow names p false mn mx Hm) in H; [discriminate|]. now rewrite E, andb_false_r.
      * intros ->. now rewrite (check_parts_max0 names p false mn Hm) in H.
    + intros pre a1 a2 b1 b2 post ->. now rewrite check_parts_adjacent in H.
  - intro H. apply parts_ok_check. assumption. now destruct p as [|[|]].
Qed.

(* ------------------------------------------------------------------ scan_attrs, exactly *)

(* one slot of the accumulator: [old] before the scan, [new] after it, [l] the attributes of
   that kind met by the scan, [ok] the per-attribute check *)
Definition slot {A B} (ok : B -> option A) (old : option A) (l : list B) (new : option A) : Prop :=
  match old with
  | Some _ => l = [] /\ new = old
  | None => match l with [] => new = None | [x] => ok x = new /\ new <> None | _ => False end
  end.

Lemma slot_nil {A B} (ok : B -> option A) old new : slot ok old [] new <-> new = old.
Proof. unfold slot. destruct old; tauto. Qed.

Lemma slot_cons {A B} (ok : B -> option A) old x l new : slot ok old (x :: l) new <->
  match old, ok x with None, Some y => slot ok (Some y) l new | _, _ => False end.
Proof.
  unfold slot. destruct old.
  - split; [intros [C _]; discriminate | tauto].
  - destruct l as [|z l]; destruct (ok x); split; intro H; try tauto; destruct H as [H1 H2];
      try discriminate; subst; try congruence; (split; [reflexivity | first [reflexivity | discriminate]]).
Qed.

Definition ok_id (i : N) : option N := if i <=? u64_max then Some i else None.
Definition ok_ty (t : option dtype) : option dtype := t.
Definition ok_path (names : list N) (p : list ppart) : option (list ppart) :=
  match p with [] => None | _ => if check_parts names false p then Some p else None end.

Lemma scan_attrs_iff names : forall l a a', scan_attrs names a l = Some a' <->
  slot ok_id (a_id a) (attr_ids l) (a_id a') /\
  slot ok_ty (a_ty a) (attr_types l) (a_ty a') /\
  slot (ok_path names) (a_path a) (attr_paths l) (a_path a').
Proof.
  induction l as [|x l IH]; intros a a'.
  - cbn [scan_attrs attr_ids attr_types attr_paths flat_map]. rewrite !slot_nil.
    destruct a, a'; simpl. split.
    + intro H; inversion H; auto.
    + intros [-> [-> ->]]. reflexivity.
  - destruct x as [i|t|p|]; cbn [scan_attrs attr_step attr_ids attr_types attr_paths flat_map app];
      try rewrite slot_cons.
    + unfold ok_id. destruct (a_id a); [split; [discriminate|tauto]|].
      destruct (i <=? u64_max); [|split; [discriminate|tauto]]. now rewrite IH.
    + unfold ok_ty. destruct (a_ty a); [split; [discriminate|tauto]|].
      destruct t; [|split; [discriminate|tauto]]. now rewrite IH.
    + destruct (a_path a); [split; [discriminate|tauto]|].
      destruct p as [|y p]; [split; [discriminate|cbn [ok_path]; tauto]|]. cbn [ok_path].
      destruct (check_parts names false (y :: p)); [|split; [discriminate|tauto]]. now rewrite IH.
    + apply IH.
Qed.

(* ------------------------------------------------------------------ variant_from_syn *)

(* exactly one #[id] (fitting u64), exactly one #[data_type] (a recognised type), at most one
   #[doc_path] (non-empty, well-formed parts) *)
Definition variant_ok (names : list N) (v : variant) (pv : pvariant) : Prop :=
  pv_name pv = v_name v /\
  attr_ids (v_attrs v) = [pv_id pv] /\ pv_id pv <= u64_max /\
  attr_types (v_attrs v) = [Some (pv_ty pv)] /\
  match pv_path pv with
  | None => attr_paths (v_attrs v) = []
  | Some p => attr_paths (v_attrs v) = [p] /\ p <> [] /\ parts_ok names p
  end.

Lemma slot_id l i : slot ok_id None l (Some i) <-> l = [i] /\ i <= u64_max.
Proof.
  unfold slot, ok_id. destruct l as [|x [|y l]].
  - split; [discriminate | intros [C _]; discriminate].
  - destruct (x <=? u64_max) eqn:E; split.
    + intros [H _]. inversion H; subst. apply N.leb_le in E. auto.
    + intros [H _]. inversion H; subst. split; [reflexivity|discriminate].
    + intros [C _]. discriminate.
    + intros [H L]. inversion H; subst. apply N.leb_le in L. congruence.
  - split; [tauto | intros [C _]; discriminate].
Qed.

Lemma slot_ty l t : slot ok_ty None l (Some t) <-> l = [Some t].
Proof.
  unfold slot, ok_ty. destruct l as [|x [|y l]].
  - split; discriminate.
  - split; [intros [-> _]; reflexivity | intro H; inversion H; split; [reflexivity|discriminate]].
  - split; [tauto | discriminate].
Qed.

Lemma slot_path names l o : slot (ok_path names) None l o <->
  match o with None => l = [] | Some p => l = [p] /\ p <> [] /\ parts_ok names p end.
Proof.
  unfold slot. destruct l as [|x [|y l]].
  - destruct o; split; try discriminate; auto. intros [C _]. discriminate.
  - unfold ok_path. destruct o as [p|]; [rewrite <- (check_parts_iff names)|];
      (destruct x as [|z x]; [|destruct (check_parts names false (z :: x)) eqn:E]); split;
      try (intros [C _]; discriminate); try discriminate; try tauto.
    + intros [H [Hn _]]. inversion H; subst. now elim Hn.
    + intros [H _]. inversion H; subst. split; [reflexivity|]. split; [discriminate | assumption].
    + intros [H _]. inversion H; subst. split; [reflexivity | discriminate].
    + intros [H [_ C]]. inversion H; subst. congruence.
  - destruct o; split; try tauto; try discriminate. intros [C _]. discriminate.
Qed.

Lemma from_syn_iff names v pv : variant_from_syn names v = Some pv <-> variant_ok names v pv.
Proof.
  unfold variant_ok. rewrite <- slot_path, <- slot_ty.
  assert (Hid : attr_ids (v_attrs v) = [pv_id pv] /\ pv_id pv <= u64_max <->
                slot ok_id None (attr_ids (v_attrs v)) (Some (pv_id pv))) by (symmetry; apply slot_id).
  pose proof (scan_attrs_iff names (v_attrs v) acc0
                {| a_id := Some (pv_id pv); a_ty := Some (pv_ty pv); a_path := pv_path pv |}) as S.
  cbn [a_id a_ty a_path acc0] in S. unfold variant_from_syn. split.
  - destruct (scan_attrs names acc0 (v_attrs v)) as [a|] eqn:E; [|discriminate].
    destruct (a_id a) as [i|] eqn:Ei; [|discriminate]. destruct (a_ty a) as [t|] eqn:Et; [|discriminate].
    intro H; inversion H; subst; clear H. cbn [pv_name pv_id pv_ty pv_path] in *.
    destruct a as [ai at_ ap]; cbn [a_id a_ty a_path] in *; subst. tauto.
  - intros [Hn H]. assert (E : scan_attrs names acc0 (v_attrs v) =
      Some {| a_id := Some (pv_id pv); a_ty := Some (pv_ty pv); a_path := pv_path pv |}) by (apply S; tauto).
    rewrite E. cbn [a_id a_ty a_path]. rewrite <- Hn. now destruct pv.
Qed.

(* ------------------------------------------------------------------ validate_all *)

(* one (non-recursive) step of validate_path: the last identifier of the path names (the last
   variant of that name wins) a master whose own declared path is exactly the part of the path
   before that identifier *)
Definition parent_ok (pvs : list pvariant) (o : pvariant) : Prop :=
  match pv_path o with
  | None => True
  | Some parts =>
      match last_ident parts with
      | None => True
      | Some (k, n) => exists parent, lookup_name pvs n = Some parent /\ pv_ty parent = DMaster /\
                                      path_or_empty parent = firstn k parts
      end
  end.

Lemma parent_ok_validate pvs : Forall (parent_ok pvs) pvs -> forall fuel o,
  In o pvs -> (length (path_or_empty o) < fuel)%nat -> validate_path pvs fuel o = true.
Proof.
  intro HF. rewrite Forall_forall in HF.
  induction fuel as [|fuel IH]; intros o Hin Hlen. lia.
  pose proof (HF o Hin) as Ho. unfold parent_ok in Ho. unfold path_or_empty in Hlen.
  cbn [validate_path]. destruct (pv_path o) as [parts|]; [|reflexivity].
  destruct (last_ident parts) as [[k n]|] eqn:Hl; [|reflexivity].
  destruct Ho as [parent [L1 [L2 L3]]]. rewrite L1, L2, L3.
  destruct (last_ident_some _ _ _ Hl) as [pre [post [Hparts [Hpre [_ Hf]]]]].
  assert (Hk : (k < length parts)%nat).
  { rewrite Hparts, app_length. cbn [length]. lia. }
  assert (Hfl : length (firstn k parts) = k) by (rewrite firstn_length; lia).
  rewrite Hfl, Nat.eqb_refl. cbn [dtype_eqb andb].
  replace (list_eqb ppart_eqb (firstn k parts) (firstn k parts)) with true
    by (symmetry; now apply (list_eqb_eq ppart_eqb ppart_eqb_eq)).
  apply IH. now apply (lookup_name_in _ _ _ L1). rewrite L3, Hfl. lia.
Qed.

Lemma validate_all_iff pvs : validate_all pvs = true <-> Forall (parent_ok pvs) pvs.
Proof.
  unfold validate_all. rewrite forallb_forall, Forall_forall. split.
  - intros H o Hin. specialize (H o Hin). unfold parent_ok.
    destruct (pv_path o) as [parts|] eqn:Hp; [|exact I].
    destruct (last_ident parts) as [[k n]|] eqn:Hl; [|exact I].
    destruct (validate_path_step _ _ _ _ _ _ H Hp Hl) as [parent [L1 [L2 [L3 _]]]]. eauto.
  - intros H o Hin. destruct (pv_path o) as [p|] eqn:Hp; [|reflexivity].
    apply parent_ok_validate; [now apply Forall_forall | assumption |].
    unfold path_or_empty. rewrite Hp. lia.
Qed.

(* ------------------------------------------------------------------ the whole macro *)

Lemma map_opt_iff {A B} (f : A -> option B) (R : A -> B -> Prop) :
  (forall x y, f x = Some y <-> R x y) -> forall l r, map_opt f l = Some r <-> Forall2 R l r.
Proof.
  intro HR. induction l as [|x l IH]; intro r; cbn [map_opt].
  - split; intro H; inversion H; [constructor | reflexivity].
  - split.
    + destruct (f x) as [y|] eqn:E; [|discriminate]. destruct (map_opt f l) as [r'|]; [|discriminate].
      intro H; inversion H; subst. constructor. now apply HR. now apply IH.
    + intro H; inversion H; subst. rewrite (proj2 (HR _ _) H2), (proj2 (IH _) H4). reflexivity.
Qed.

Theorem derive_full_iff d pvs : derive_full d = Some pvs <->
  Forall2 (variant_ok (names_of d)) (with_globals d) pvs /\ NoDup (map pv_id pvs) /\
  Forall (parent_ok pvs) pvs.
Proof.
  unfold derive_full. fold (names_of d).
  rewrite <- (map_opt_iff _ _ (from_syn_iff (names_of d))), <- has_dup_false, <- validate_all_iff.
  destruct (map_opt (variant_from_syn (names_of d)) (with_globals d)) as [r|].
  - split.
    + destruct (has_dup (map pv_id r)) eqn:E1; [discriminate|].
      destruct (validate_all r) eqn:E2; [|discriminate]. intro H; inversion H; subst. auto.
    + intros [H [E1 E2]]. inversion H; subst. now rewrite E1, E2.
  - split; [discriminate | intros [C _]; discriminate].
Qed.

(* the macro accepts a declaration exactly when its variants (plus Crc32 and Void) can be read
   as well-attributed parsed variants with distinct ids and consistent parent paths *)
Theorem accepted_iff d : derive d <> None <->
  exists pvs, Forall2 (variant_ok (names_of d)) (with_globals d) pvs /\ NoDup (map pv_id pvs) /\
              Forall (parent_ok pvs) pvs.
Proof.
  unfold derive. destruct (derive_full d) as [pvs|] eqn:E.
  - split; [|discriminate]. intros _. exists pvs. now apply derive_full_iff.
  - split; [congruence|]. intros [pvs H]. apply derive_full_iff in H. congruence.
Qed.

(* ================================================================== Part 2: RawTag with a declared id, handed to the writer *)
Definition test_sp : spec := match derive test_decl with Some s => s | None => [] end.

(* RawTag(id, data) answers as_binary only.  Since the repair D27 the writer writes such a tag as is whatever type its id is declared
   with (Writer.raw_type).  With the repository's test specification: id 0x4101 is declared UnsignedInt (written inside its parent 0x81)
   and 0x81 Master: id, size, data are appended, no hierarchy check, no panic (before the repair both panicked); 0xa1 is declared
   Binary: treated as the declared binary element (here rejected only because it is not allowed at the root); an undeclared id is
   written as a raw element.  The last line: a whole run Start(0x81), RawTag(0x4101,[1]), End(0x81) and the bytes delivered *)
Lemma writer_raw_written_ex :
  buffer_tag test_sp (TElem 0x4101 (VRaw [1])) o_default (fst (buffer_tag test_sp (TStart 0x81) o_default (w_init []))) =
    ({| w_open := [(0x81, WKnown 0, O)]; w_buf := [0x41; 0x01; 0x81; 1]; w_dest := []; w_script := [] |}, WOk) /\
  buffer_tag test_sp (TElem 0x81 (VRaw [])) o_default (w_init []) =
    ({| w_open := []; w_buf := [0x81; 0x80]; w_dest := []; w_script := [] |}, WOk) /\
  buffer_tag test_sp (TElem 0xa1 (VRaw [1])) o_default (w_init []) = (w_init [], WErr (EUnexpectedTag 0xa1 [])) /\
  buffer_tag test_sp (TElem 0x4242 (VRaw [1])) o_default (w_init []) =
    ({| w_open := []; w_buf := [0x42; 0x42; 0x81; 1]; w_dest := []; w_script := [] |}, WOk) /\
  run_writer test_sp [OpWrite (TStart 0x81) o_default; OpWrite (TElem 0x4101 (VRaw [1])) o_default; OpWrite (TEnd 0x81) o_default] [] =
    ([(WOk, 0%nat); (WOk, 0%nat); (WOk, 6%nat)], [0x81; 0x84; 0x41; 0x01; 0x81; 1]).
Proof. vm_compute. repeat split; reflexivity. Qed.

(* ================================================================== Part 3: all-known re-encoding *)
(* every unknown-size master re-encoded with a known size in an 8-byte size field (same length as the unknown-size marker,
   so no offset moves); everything else unchanged *)
Fixpoint known_tree (t : rtree) : rtree :=
  match t with
  | RLeaf _ _ _ _ => t
  | RNode id sz cs => RNode id (Some (match sz with Some sl => sl | None => 8%nat end)) (map known_tree cs)
  end.

Lemma known_tree_len t : length (enc_tree (known_tree t)) = length (enc_tree t).
Proof.
  induction t as [id v pl sl|id sz cs IH] using rtree_ind'; [reflexivity|].
  cbn [known_tree]. rewrite !enc_tree_node.
  assert (Hf : length (enc_forest (map known_tree cs)) = length (enc_forest cs)).
  { induction IH as [|x l Hx _ IHl]; [reflexivity|]. cbn [map enc_forest]. rewrite !app_length, Hx, IHl. reflexivity. }
  rewrite !app_length, Hf, venc_length. destruct sz as [sl|]; [rewrite venc_length|]; reflexivity.
Qed.

Lemma known_tree_tlen t : tlen (known_tree t) = tlen t.
Proof. unfold tlen. rewrite known_tree_len. reflexivity. Qed.

Lemma known_forest_flen f : flen (map known_tree f) = flen f.
Proof. induction f as [|x l IH]; [reflexivity|]. cbn [map]. rewrite !flen_cons, known_tree_tlen, IH. reflexivity. Qed.

Lemma known_tree_tags t : tags_tree (known_tree t) = tags_tree t.
Proof.
  induction t as [id v pl sl|id sz cs IH] using rtree_ind'; [reflexivity|].
  cbn [known_tree tags_tree]. do 2 f_equal.
  induction IH as [|x l Hx _ IHl]; [reflexivity|]. cbn [map]. rewrite Hx, IHl. reflexivity.
Qed.

Lemma known_forest_tags f : tags_forest (map known_tree f) = tags_forest f.
Proof. induction f as [|x l IH]; [reflexivity|]. cbn [map tags_forest]. rewrite known_tree_tags, IH. reflexivity. Qed.

(* the size of the whole document fits an 8-byte size field and the configured maximum element size *)
Definition fits (c : cfg) (n : N) : Prop := n < 2 ^ 56 - 1 /\ match c_max c with Some m => n <= m | None => True end.

Lemma fits_le c m n : fits c n -> m <= n -> fits c m.
Proof. unfold fits. intros [H1 H2] Hle. split; [lia|]. destruct (c_max c); [lia|exact I]. Qed.

Lemma known_forest_conf_aux c : forall f ids,
  Forall (fun t => forall ids, conf c ids t -> fits c (tlen t) -> conf c ids (known_tree t)) f ->
  Forall (conf c ids) f -> fits c (flen f) -> Forall (conf c ids) (map known_tree f).
Proof.
  induction f as [|x l IH]; intros ids HP Hc Hfit; [constructor|].
  apply Forall_cons_iff in HP. destruct HP as [Hx Hl]. apply Forall_cons_iff in Hc. destruct Hc as [Hcx Hcl].
  rewrite flen_cons in Hfit. cbn [map]. constructor.
  - apply Hx; [exact Hcx|]. apply (fits_le c _ _ Hfit). lia.
  - apply IH; [exact Hl|exact Hcl|]. apply (fits_le c _ _ Hfit). lia.
Qed.

Lemma known_tree_conf c : forall t ids, conf c ids t -> fits c (tlen t) -> conf c ids (known_tree t).
Proof.
  induction t as [id v pl sl|id sz cs IH] using rtree_ind'; intros ids H Hfit; [exact H|].
  cbn [known_tree]. apply conf_node in H. destruct H as [Hid [Hsz [Hty [Hpath [Hmax Hcs]]]]].
  assert (Hfc : fits c (flen cs)). { apply (fits_le c _ _ Hfit). rewrite tlen_node. lia. }
  apply conf_node. rewrite known_forest_flen.
  split; [exact Hid|]. split; [|split; [exact Hty|]; split; [exact Hpath|]; split].
  - intros sl' E. destruct sz as [sl|]; inversion E; subst sl'; [apply Hsz; reflexivity|].
    split; [lia|]. change (7 * N.of_nat 8) with 56. apply Hfc.
  - unfold size_ok, node_esz. rewrite known_forest_flen. exact (proj2 Hfc).
  - apply known_forest_conf_aux; assumption.
Qed.

Theorem known_forest_conf c ids f : Forall (conf c ids) f -> fits c (flen f) -> Forall (conf c ids) (map known_tree f).
Proof.
  intros Hc Hfit. apply known_forest_conf_aux; [|exact Hc|exact Hfit].
  apply Forall_forall. intros t _ ids'. apply known_tree_conf.
Qed.

Theorem known_reencoding_same_tags c f : strict c -> c_buffered c = [] -> c_emit_eof c = true ->
  Forall (conf c []) f -> fits c (flen f) ->
  map out_tag (p_run c (enc_forest f) [RAll]) = map out_tag (p_run c (enc_forest (map known_tree f)) [RAll]).
Proof.
  intros H1 H2 H3 Hf Hfit. apply encoding_choices_irrelevant; try assumption.
  - apply known_forest_conf; assumption.
  - symmetry. apply known_forest_tags.
Qed.

(* the [fits] hypothesis cannot be dropped: a conforming document with an unknown-size master whose body (4 bytes) exceeds
   c_max = 3; its all-known re-encoding does not conform, and the reader rejects it (RInvalidSize) *)
Definition cx_sp := [ {| e_id := 129; e_ty := DMaster; e_path := [] |}; {| e_id := 16641; e_ty := DUInt; e_path := [PId 129] |} ].
Definition cx_c : cfg := {| c_sp := cx_sp; c_allow_id := false; c_allow_hier := false; c_allow_over := false; c_max := Some 3; c_buffered := []; c_emit_eof := true |}.
Definition cx_doc : list rtree := [RNode 129 None [RLeaf 16641 (VU 5) [5] 1%nat]].

Example known_conf_counterexample :
  Forall (conf cx_c []) cx_doc /\ ~ Forall (conf cx_c []) (map known_tree cx_doc) /\
  map out_tag (p_run cx_c (enc_forest cx_doc) [RAll]) <> map out_tag (p_run cx_c (enc_forest (map known_tree cx_doc)) [RAll]).
Proof.
  assert (I1 : idok 129) by (exists 1%nat, 1%N; repeat split; cbn; lia).
  assert (I2 : idok 16641) by (exists 2%nat, 257%N; repeat split; cbn; lia).
  split; [|split].
  - constructor; [|constructor]. apply conf_node.
    split; [exact I1|]. split; [intros sl E; discriminate E|]. split; [reflexivity|]. split; [reflexivity|]. split; [exact I|].
    constructor; [|constructor]. cbn [conf].
    split; [exact I2|]. split; [lia|]. split; [vm_compute; reflexivity|]. split; [repeat constructor; lia|].
    split; [exists DUInt; split; [reflexivity|split; [discriminate|vm_compute; reflexivity]]|].
    split; [reflexivity|vm_compute; discriminate].
  - intros H. apply Forall_cons_iff in H. destruct H as [H _]. cbn [known_tree map] in H. apply conf_node in H.
    destruct H as [_ [_ [_ [_ [H _]]]]]. vm_compute in H. apply H. reflexivity.
  - vm_compute. discriminate.
Qed.

Example known_conf_counterexample_run :
  p_run cx_c (enc_forest cx_doc) [RAll] = [OItem (TStart 129) 0; OItem (TElem 16641 (VU 5)) 9; OItem (TEnd 129) 0; ONone] /\
  p_run cx_c (enc_forest (map known_tree cx_doc)) [RAll] = [OErr (RInvalidSize 0 129 4)].
Proof. split; vm_compute; reflexivity. Qed.
