(* Signed vint codec: relation to the unsigned codec, round trip. *)
From Ebml Require Import Base Tools Proofs.Tactics Proofs.BytesProofs Proofs.VintProofs.

Lemma lor_pow2 v k : v < 2 ^ k -> N.lor v (2 ^ k) = v + 2 ^ k.
Proof.
  intros H.
  assert (Hland : N.land v (2 ^ k) = 0).
  { apply N.bits_inj_0. intros n. rewrite N.land_spec, N.pow2_bits_eqb.
    destruct (N.eqb_spec k n) as [<-|]; [|apply Bool.andb_false_r].
    rewrite Bool.andb_true_r. destruct (N.eq_dec v 0) as [->|Hv]; [apply N.bits_0|].
    apply N.bits_above_log2. apply N.log2_lt_pow2; lia. }
  rewrite <- N.lxor_lor by exact Hland. symmetry. apply N.add_nocarry_lxor. exact Hland.
Qed.

(* two's complement of z on 7L bits, then the unsigned encoding *)
Definition senc (L : nat) (z : Z) : list N := enc L (Z.to_N (z mod 2 ^ (7 * Z.of_nat L))).

(* sign extension from 7L bits *)
Definition sext (L : nat) (v : N) : Z :=
  if v <? 2 ^ (7 * N.of_nat L - 1) then Z.of_N v else (Z.of_N v - 2 ^ (7 * Z.of_nat L))%Z.

Lemma pow2_split a b : (0 <= a <= b)%Z -> (2 ^ b = 2 ^ a * 2 ^ (b - a))%Z.
Proof. intros H. rewrite <- Z.pow_add_r by lia. f_equal. lia. Qed.

Lemma as_vint_no_check_i64_senc L z : (1 <= L <= 8)%nat ->
  (- 2 ^ (7 * Z.of_nat L - 1) <= z < 2 ^ (7 * Z.of_nat L - 1))%Z ->
  as_vint_no_check_i64 z L = senc L z.
Proof.
  intros HL H. unfold as_vint_no_check_i64, senc, enc, to_u64.
  set (k := (7 * Z.of_nat L)%Z) in *.
  assert (Hk : (7 <= k <= 56)%Z) by lia.
  assert (Hm : (2 ^ k = 2 * 2 ^ (k - 1))%Z). { rewrite <- Z.pow_succ_r by lia. f_equal. lia. }
  assert (H64 : (18446744073709551616 = 2 ^ k * 2 ^ (64 - k))%Z).
  { change 18446744073709551616%Z with (2 ^ 64)%Z. apply pow2_split. lia. }
  assert (Hp0 : (0 < 2 ^ (k - 1))%Z) by (apply Z.pow_pos_nonneg; lia).
  assert (Hc0 : (0 < 2 ^ (64 - k))%Z) by (apply Z.pow_pos_nonneg; lia).
  assert (HkN : 7 * N.of_nat L = Z.to_N k) by lia.
  rewrite HkN.
  destruct (Z.ltb_spec z 0) as [Hz|Hz].
  - f_equal.
    (* u mod 2^(k+1) = z + 2^(k+1) = (z mod 2^k) + 2^k *)
    assert (E1 : (z mod 2 ^ k = z + 2 ^ k)%Z).
    { symmetry. apply (Z.mod_unique _ _ (-1)); lia. }
    assert (E2 : (z mod 18446744073709551616 = z + 18446744073709551616)%Z).
    { symmetry. apply (Z.mod_unique _ _ (-1)); [|lia]. left. set (c := (2 ^ (64 - k))%Z) in *. nia. }
    rewrite E1, E2.
    apply N2Z.inj. rewrite N2Z.inj_mod, N2Z.inj_add, !N2Z.inj_pow, N2Z.inj_add, !Z2N.id by lia.
    change (Z.of_N 2) with 2%Z. change (Z.of_N 1) with 1%Z.
    rewrite Z.pow_add_r, Z.pow_1_r by lia.
    symmetry. apply (Z.mod_unique _ _ (2 ^ (64 - k - 1) - 1)).
    + left. lia.
    + assert (Hc : (2 ^ (64 - k) = 2 * 2 ^ (64 - k - 1))%Z).
      { rewrite <- Z.pow_succ_r by lia. f_equal. lia. }
      set (c' := (2 ^ (64 - k - 1))%Z) in *. set (m := (2 ^ k)%Z) in *. nia.
  - f_equal.
    rewrite (Z.mod_small z (2 ^ k)) by lia.
    rewrite Z.mod_small by (set (c := (2 ^ (64 - k))%Z) in *; nia).
    apply lor_pow2. apply N2Z.inj_lt. rewrite N2Z.inj_pow, !Z2N.id by lia. change (Z.of_N 2) with 2%Z. lia.
Qed.

(* ---------------------------------------------------------- decoder *)

Definition bytes256 : list N := map N.of_nat (seq 0 256).

Lemma byte_cases (P : N -> bool) : forallb P bytes256 = true -> forall b, b < 256 -> P b = true.
Proof.
  intros H b Hb. rewrite forallb_forall in H. apply H. unfold bytes256.
  apply in_map_iff. exists (N.to_nat b). split; [lia|]. apply in_seq. lia.
Qed.

(* start value of the signed decoder, from the first byte (lengths 1-7) *)
Definition start_ok (b0 : N) : bool :=
  if b0 =? 0 then true else
  let len := vint_len b0 in
  if (len =? 8)%nat then true else
  let k := 8 - N.of_nat len in
  let neg := N.testbit b0 (7 - N.of_nat len) in
  let s0 := if neg then Z.lor (Z.of_N b0) (- 2 ^ (8 - Z.of_nat len))%Z
            else Z.of_N (N.land b0 (N.ones (8 - N.of_nat len))) in
  Bool.eqb neg (2 ^ (k - 1) <=? b0 - 2 ^ k) &&
  (s0 =? Z.of_N (b0 - 2 ^ k) - (if neg then 2 ^ Z.of_N k else 0))%Z.

Lemma start_ok_all b0 : b0 < 256 -> start_ok b0 = true.
Proof. apply byte_cases. vm_compute. reflexivity. Qed.

Definition map_signed (r : tres (option (N * nat))) : tres (option (Z * nat)) :=
  match r with
  | Ok (Some (v, L)) => Ok (Some (sext L v, L))
  | Ok None => Ok None
  | Err e => Err e
  | Panic => Panic
  end.

Lemma read_signed_vint_unsigned buf : wf_bytes buf ->
  read_signed_vint buf = map_signed (read_vint buf).
Proof.
  intros Hwf. destruct buf as [|b0 tl]; [reflexivity|].
  inversion Hwf as [|? ? Hb Htl]; subst.
  destruct (N.eq_dec b0 0) as [->|Hb0]; [reflexivity|].
  destruct (Nat.ltb_spec (length (b0 :: tl)) (vint_len b0)) as [Hlt|Hge].
  { unfold read_signed_vint, read_vint. destruct (N.eqb_spec b0 0); [contradiction|].
    destruct (Nat.ltb_spec (length (b0 :: tl)) (vint_len b0)); [reflexivity|lia]. }
  (* re-derive the unsigned value in closed form *)
  assert (Hb0' : 0 < b0 < 256) by lia.
  pose proof (log2_byte b0 Hb0') as Hlg.
  pose proof (N.log2_spec b0 ltac:(lia)) as [Hlo Hhi].
  pose proof (start_ok_all b0 Hb) as Hst. unfold start_ok in Hst.
  unfold read_signed_vint, read_vint.
  destruct (N.eqb_spec b0 0) as [E|_]; [contradiction|].
  set (len := vint_len b0) in *.
  set (k := N.log2 b0) in *. rewrite N.pow_succ_r' in Hhi.
  assert (Hlenk : N.of_nat len = 8 - k) by (unfold len, vint_len; fold k; lia).
  destruct (Nat.ltb_spec (length (b0 :: tl)) len) as [E|_]; [lia|].
  replace (8 - N.of_nat len) with k in * by lia.
  destruct (N.ltb_spec b0 (2 ^ k)) as [E|_]; [lia|].
  set (rest := firstn (len - 1) tl).
  assert (Hrl : length rest = (len - 1)%nat).
  { unfold rest. rewrite firstn_length. cbn [length] in Hge. lia. }
  assert (Hrwf : wf_bytes rest) by (apply wf_firstn; exact Htl).
  pose proof (from_be_bound rest Hrwf) as Hrb. rewrite Hrl in Hrb.
  rewrite from_be_acc_split, zfrom_be_acc_split, Hrl.
  set (p := 256 ^ N.of_nat (len - 1)) in *.
  set (r := from_be rest) in *.
  assert (Hp : 2 ^ k * p = 2 ^ (7 * N.of_nat len)).
  { unfold p. rewrite pow256, <- N.pow_add_r. f_equal. lia. }
  assert (HpZ : (256 ^ Z.of_nat (len - 1))%Z = Z.of_N p).
  { unfold p. rewrite N2Z.inj_pow, nat_N_Z. reflexivity. }
  rewrite HpZ.
  assert (Hv : (b0 - 2 ^ k) * p + r < 2 ^ (7 * N.of_nat len)).
  { rewrite <- Hp. set (q := 2 ^ k) in *. nia. }
  assert (H56 : 2 ^ (7 * N.of_nat len) <= 2 ^ 56) by (apply N.pow_le_mono_r; lia).
  destruct (N.leb_spec two64 ((b0 - 2 ^ k) * p + r)) as [E|_].
  { exfalso. unfold two64 in E. change (2 ^ 56) with 72057594037927936 in H56. lia. }
  cbn [map_signed]. do 3 f_equal. unfold sext.
  assert (Hpz : (2 ^ (7 * Z.of_nat len))%Z = Z.of_N (2 ^ k * p)).
  { rewrite Hp, N2Z.inj_pow, N2Z.inj_mul, nat_N_Z. reflexivity. }
  rewrite Hpz.
  destruct (Nat.eqb_spec len 8) as [E8|N8].
  - (* eight bytes: b0 = 1, sign from the next byte *)
    assert (k = 0) by lia. subst k. rewrite H in *. change (2 ^ 0) with 1 in *.
    assert (b0 = 1) by lia. subst b0.
    assert (Hp56 : p = 2 ^ 56). { unfold p. rewrite E8. reflexivity. }
    replace (7 * N.of_nat len - 1) with 55 by lia.
    destruct tl as [|b1 tl']; [cbn [length] in Hge; lia|].
    inversion Htl as [|? ? Hb1 Htl']; subst.
    assert (Hr : r = b1 * 2 ^ 48 + from_be (firstn 6 tl') /\ from_be (firstn 6 tl') < 2 ^ 48).
    { unfold r, rest. rewrite E8. change (8 - 1)%nat with 7%nat. change (firstn 7 (b1 :: tl')) with (b1 :: firstn 6 tl'). unfold from_be at 1. unfold from_be_acc. cbn [fold_left].
      fold (from_be_acc (0 * 256 + b1) (firstn 6 tl')). rewrite from_be_acc_split.
      assert (length (firstn 6 tl') = 6%nat).
      { rewrite firstn_length. cbn [length] in Hge. lia. }
      rewrite H0. pose proof (from_be_bound (firstn 6 tl') (wf_firstn 6 tl' Htl')) as Hb6. rewrite H0 in Hb6.
      change (256 ^ N.of_nat 6) with (2 ^ 48) in *. split; [lia|exact Hb6]. }
    destruct Hr as [Hr Hr6]. set (r6 := from_be (firstn 6 tl')) in *.
    assert (Htb : N.testbit b1 7 = (128 <=? b1)).
    { apply (byte_cases (fun b => Bool.eqb (N.testbit b 7) (128 <=? b))) in Hb1; [|vm_compute; reflexivity].
      apply eqb_prop in Hb1. exact Hb1. }
    rewrite Htb. rewrite Hp56 in *.
    change (2 ^ 56) with 72057594037927936 in *. change (2 ^ 55) with 36028797018963968 in *.
    change (2 ^ 48) with 281474976710656 in *.
    destruct (N.leb_spec 128 b1); destruct (N.ltb_spec ((1 - 1) * 72057594037927936 + r) 36028797018963968); try lia.
    + change (Z.lor (Z.of_N 1) (- 2 ^ (8 - Z.of_nat len))) with (Z.lor 1 (- 2 ^ (8 - Z.of_nat len))).
      rewrite E8. change (Z.lor 1 (- 2 ^ (8 - Z.of_nat 8)))%Z with (-1)%Z. lia.
    + change (N.land 1 (N.ones 0)) with 0. lia.
  - replace ((len =? 8)%nat) with false in * by lia.
    apply andb_prop in Hst. destruct Hst as [Hneg Hs0]. apply eqb_prop in Hneg.
    replace (7 - N.of_nat len) with (k - 1) in * by lia.
    replace (8 - Z.of_nat len)%Z with (Z.of_N k) in * by lia.
    set (neg := N.testbit b0 (k - 1)) in *.
    apply Z.eqb_eq in Hs0.
    match type of Hs0 with ?s = _ => set (s0 := s) in * end.
    assert (Hk1 : 2 ^ k = 2 * 2 ^ (k - 1)).
    { rewrite <- N.pow_succ_r'. f_equal. lia. }
    assert (Hhalf : 2 ^ (7 * N.of_nat len - 1) = 2 ^ (k - 1) * p).
    { unfold p. rewrite pow256, <- N.pow_add_r. f_equal. lia. }
    rewrite Hhalf. rewrite Hs0.
    set (q := 2 ^ (k - 1)) in *. set (u0 := b0 - 2 ^ k) in *.
    assert (HqZ : (2 ^ Z.of_N k)%Z = Z.of_N (2 * q)).
    { rewrite <- Hk1. rewrite N2Z.inj_pow. reflexivity. }
    rewrite HqZ. rewrite Hneg.
    destruct (N.leb_spec q u0); destruct (N.ltb_spec (u0 * p + r) (q * p)); try nia.
Qed.

(* ---------------------------------------------------------- round trip *)

Lemma sext_senc L z : (1 <= L <= 8)%nat ->
  (- 2 ^ (7 * Z.of_nat L - 1) <= z < 2 ^ (7 * Z.of_nat L - 1))%Z ->
  sext L (Z.to_N (z mod 2 ^ (7 * Z.of_nat L))) = z.
Proof.
  intros HL H. unfold sext.
  set (k := (7 * Z.of_nat L)%Z) in *.
  assert (Hm : (2 ^ k = 2 * 2 ^ (k - 1))%Z). { rewrite <- Z.pow_succ_r by lia. f_equal. lia. }
  assert (Hp0 : (0 < 2 ^ (k - 1))%Z) by (apply Z.pow_pos_nonneg; lia).
  assert (Hh : Z.of_N (2 ^ (7 * N.of_nat L - 1)) = (2 ^ (k - 1))%Z).
  { rewrite N2Z.inj_pow. change (Z.of_N 2) with 2%Z. f_equal. lia. }
  destruct (Z.ltb_spec z 0) as [Hz|Hz].
  - assert (E1 : (z mod 2 ^ k = z + 2 ^ k)%Z) by (symmetry; apply (Z.mod_unique _ _ (-1)); lia).
    rewrite E1. destruct (N.ltb_spec (Z.to_N (z + 2 ^ k)) (2 ^ (7 * N.of_nat L - 1))); lia.
  - rewrite Z.mod_small by lia.
    destruct (N.ltb_spec (Z.to_N z) (2 ^ (7 * N.of_nat L - 1))); lia.
Qed.

Lemma senc_value_bound L z : (1 <= L)%nat -> Z.to_N (z mod 2 ^ (7 * Z.of_nat L)) < 2 ^ (7 * N.of_nat L).
Proof.
  intros HL. assert (H0 : (0 < 2 ^ (7 * Z.of_nat L))%Z) by (apply Z.pow_pos_nonneg; lia).
  pose proof (Z.mod_pos_bound z _ H0) as Hb.
  apply N2Z.inj_lt. rewrite N2Z.inj_pow, Z2N.id by lia. change (Z.of_N 2) with 2%Z.
  replace (Z.of_N (7 * N.of_nat L)) with (7 * Z.of_nat L)%Z by lia. lia.
Qed.

Lemma senc_length L z : length (senc L z) = L.
Proof. apply enc_length. Qed.

Theorem signed_decode_encode L z rest : (1 <= L <= 8)%nat ->
  (- 2 ^ (7 * Z.of_nat L - 1) <= z < 2 ^ (7 * Z.of_nat L - 1))%Z -> wf_bytes rest ->
  read_signed_vint (senc L z ++ rest) = Ok (Some (z, L)).
Proof.
  intros HL H Hrest. rewrite read_signed_vint_unsigned by (apply wf_app; [apply enc_wf|exact Hrest]).
  unfold senc. rewrite decode_encode; [|lia|apply senc_value_bound; lia|exact Hrest].
  cbn [map_signed]. now rewrite sext_senc.
Qed.

Theorem signed_fixed_ok L z : (1 <= L <= 8)%nat ->
  (- 2 ^ (7 * Z.of_nat L - 1) < z < 2 ^ (7 * Z.of_nat L - 1))%Z ->
  as_signed_vint_with_length L z = Ok (senc L z).
Proof.
  intros HL H. unfold as_signed_vint_with_length.
  replace ((1 <=? L)%nat && (L <=? 8)%nat) with true by lia.
  unfold check_size_i64. replace (Z.of_nat L * 7 - 1)%Z with (7 * Z.of_nat L - 1)%Z by lia.
  destruct (Z.leb_spec z (- 2 ^ (7 * Z.of_nat L - 1))); [lia|].
  destruct (Z.leb_spec (2 ^ (7 * Z.of_nat L - 1)) z); [lia|]. cbn [orb bind].
  rewrite as_vint_no_check_i64_senc; [reflexivity|lia|lia].
Qed.

Theorem signed_fixed_reject L z : (1 <= L <= 8)%nat ->
  (z <= - 2 ^ (7 * Z.of_nat L - 1) \/ 2 ^ (7 * Z.of_nat L - 1) <= z)%Z ->
  as_signed_vint_with_length L z = Err (WriteSignedVintOverflow z).
Proof.
  intros HL H. unfold as_signed_vint_with_length.
  replace ((1 <=? L)%nat && (L <=? 8)%nat) with true by lia.
  unfold check_size_i64. replace (Z.of_nat L * 7 - 1)%Z with (7 * Z.of_nat L - 1)%Z by lia.
  destruct (Z.leb_spec z (- 2 ^ (7 * Z.of_nat L - 1))); [reflexivity|].
  destruct (Z.leb_spec (2 ^ (7 * Z.of_nat L - 1)) z); [reflexivity|lia].
Qed.

Lemma find_signed_len_spec z : forall fuel L, fits_signed z (L + fuel) = true ->
  let R := find_signed_len z L fuel in
  (L <= R <= L + fuel)%nat /\ fits_signed z R = true /\ forall L', (L <= L' < R)%nat -> fits_signed z L' = false.
Proof.
  induction fuel as [|f IH]; intros L Hfit; cbn [find_signed_len].
  - rewrite Nat.add_0_r in Hfit. split; [lia|]. split; [exact Hfit|]. intros; lia.
  - destruct (fits_signed z L) eqn:E.
    + split; [lia|]. split; [exact E|]. intros; lia.
    + replace (L + S f)%nat with (S L + f)%nat in Hfit by lia.
      destruct (IH (S L) Hfit) as (Hr & Hf & Hmin). split; [lia|]. split; [exact Hf|].
      intros L' HL'. destruct (Nat.eq_dec L' L) as [->|]; [exact E|]. apply Hmin. lia.
Qed.

Lemma find_signed_len_more z : forall f L, fits_signed z (L + f) = true ->
  find_signed_len z L (S f) = find_signed_len z L f.
Proof.
  induction f as [|f IH]; intros L Hfit.
  - cbn [find_signed_len]. rewrite Nat.add_0_r in Hfit. now rewrite Hfit.
  - change (find_signed_len z L (S (S f))) with (if fits_signed z L then L else find_signed_len z (S L) (S f)).
    change (find_signed_len z L (S f)) with (if fits_signed z L then L else find_signed_len z (S L) f).
    destruct (fits_signed z L); [reflexivity|].
    apply IH. now replace (S L + f)%nat with (L + S f)%nat by lia.
Qed.

Theorem signed_default_ok z : (- 2 ^ 55 < z < 2 ^ 55)%Z ->
  exists L, as_signed_vint z = Ok (senc L z) /\ (1 <= L <= 8)%nat /\ fits_signed z L = true
            /\ forall L', (1 <= L' < L)%nat -> fits_signed z L' = false.
Proof.
  intros H. unfold as_signed_vint, check_size_i64. change (Z.of_nat 8 * 7 - 1)%Z with 55%Z.
  destruct (Z.leb_spec z (- 2 ^ 55)); [lia|]. destruct (Z.leb_spec (2 ^ 55) z); [lia|]. cbn [orb bind].
  assert (Hfit8 : fits_signed z (1 + 7) = true).
  { unfold fits_signed. change (7 * Z.of_nat (1 + 7) - 1)%Z with 55%Z. lia. }
  destruct (find_signed_len_spec z 7 1 Hfit8) as (Hr & Hf & Hmin). cbn zeta in *.
  (* the code's loop runs for lengths 1..8: fuel 8 from 1 stops where fuel 7 does *)
  assert (E : find_signed_len z 1 8 = find_signed_len z 1 7) by (apply find_signed_len_more; exact Hfit8).
  rewrite E. set (L := find_signed_len z 1 7) in *.
  exists L. replace (L <=? 8)%nat with true by lia.
  split; [|split; [lia|split; [exact Hf|exact Hmin]]].
  rewrite as_vint_no_check_i64_senc; [reflexivity|lia|]. unfold fits_signed in Hf. lia.
Qed.

Theorem signed_default_reject z : (z <= - 2 ^ 55 \/ 2 ^ 55 <= z)%Z ->
  as_signed_vint z = Err (WriteSignedVintOverflow z).
Proof.
  intros H. unfold as_signed_vint, check_size_i64. change (Z.of_nat 8 * 7 - 1)%Z with 55%Z.
  destruct (Z.leb_spec z (- 2 ^ 55)); [reflexivity|]. destruct (Z.leb_spec (2 ^ 55) z); [reflexivity|lia].
Qed.

(* signed and unsigned decoders agree on the consumed length and on everything but the value *)
Theorem signed_len_agree buf : wf_bytes buf ->
  match read_vint buf, read_signed_vint buf with
  | Ok (Some (_, n)), Ok (Some (_, n')) => n = n'
  | Ok None, Ok None => True
  | Err e, Err e' => e = e'
  | _, _ => False
  end.
Proof.
  intros Hwf. rewrite read_signed_vint_unsigned by exact Hwf.
  pose proof (read_vint_nopanic buf Hwf) as Hnp.
  destruct (read_vint buf) as [[[v n]|]|e|]; cbn [map_signed]; auto.
Qed.
