(* C08: the run with buffered masters is the unbuffered run rolled up.  A buffered read_next step is simulated by one or more
   steps of the reader with an empty buffered set; the items it queues, with every Full item unrolled ([Unr]: Start and End at
   the offset of the Full item, the children recursively by [flat]), are the items those steps queue.
   Structure: (1) the parse never looks at the queue (frame lemmas over [recore]); (2) [Tr]: the queued items are a trace of
   the stack, from which the children of a buffered master are well nested ([Bal]) and scan_queue finds the End of that very
   master ([Tr_split]); (3) [rn_bm_sim]: the mutual simulation of read_next / buffer_master on the fuel; (4) the unbuffered
   run does not depend on when it refills its queue ([run_usteps]); (5) whole runs ([run_sim]) and the theorems. *)
From Ebml Require Import Base Tools Spec Reader Pure Proofs.Tactics Proofs.ReaderIO Proofs.Refine Proofs.PureProofs
  Proofs.NoPanic Proofs.RollUp Proofs.Nesting.

Arguments vint_len : simpl never.
Arguments read_vint : simpl never.

Definition unbuffered (c : cfg) : cfg :=
  {| c_sp := c_sp c; c_allow_id := c_allow_id c; c_allow_hier := c_allow_hier c; c_allow_over := c_allow_over c;
     c_max := c_max c; c_buffered := []; c_emit_eof := c_emit_eof c |}.

(* ------------------------------------------------------------------ the parse does not look at the queue *)
(* [recore s q l]: the parse position, stack and flags of [s] with another queue and last-offset *)
Definition recore (s : pst) (q : list qitem) (l : N) : pst :=
  {| b_bytes := b_bytes s; b_off := b_off s; b_stack := b_stack s; b_queue := q; b_last := l; b_det := b_det s;
     b_bad := b_bad s; b_fuel := b_fuel s |}.

Lemma recore_id s : recore s (b_queue s) (b_last s) = s.
Proof. destruct s; reflexivity. Qed.

Lemma p_hier_step_frame c s Q l id ty :
  p_hier_step c (recore s Q l) id ty = (recore (fst (p_hier_step c s id ty)) Q l, snd (p_hier_step c s id ty)).
Proof.
  unfold p_hier_step. destruct (negb _ && _); [|reflexivity].
  cbn [recore b_det b_stack]. destruct (b_det s) eqn:Ed.
  - cbn [recore b_det b_stack]. rewrite Ed. destruct (_ && _); reflexivity.
  - destruct (all_ids _).
    + destruct (implied_stack _ _); [|reflexivity]. cbn [pset_stack recore b_det b_stack]. destruct (_ && _); reflexivity.
    + cbn [recore b_det b_stack]. rewrite Ed. reflexivity.
Qed.

Lemma p_header_frame c s Q l :
  p_header c (recore s Q l) = (recore (fst (p_header c s)) Q l, snd (p_header c s)).
Proof.
  rewrite !p_header_unfold. change (p_tag_id (recore s Q l)) with (p_tag_id s).
  destruct (p_tag_id s) as [[id idl]|e|]; try reflexivity.
  unfold p_hdr_tail. cbn [recore b_bytes b_off].
  destruct (read_vint _) as [[[size sl]|]|e1|]; try reflexivity.
  destruct (is_numeric _ && _); [reflexivity|]. destruct (negb (c_allow_id c) && _); [reflexivity|].
  change {| b_bytes := b_bytes s; b_off := b_off s; b_stack := b_stack s; b_queue := Q; b_last := l; b_det := b_det s;
            b_bad := b_bad s; b_fuel := b_fuel s |} with (recore s Q l).
  rewrite p_hier_step_frame.
  destruct (p_hier_step c s id (get_type (c_sp c) id)) as [st1 [e1|]]; cbn [fst snd]; [reflexivity|].
  cbn [recore b_bad]. destruct (b_bad st1); [reflexivity|].
  change (p_invalid_tag_size (recore st1 Q l)) with (p_invalid_tag_size st1).
  destruct (_ && _); [reflexivity|].
  destruct (c_max c); destruct (ebml_size size sl); try destruct (_ <? _); reflexivity.
Qed.

Lemma p_tag_tail_frame c s Q l ts h :
  p_tag_tail c (recore s Q l) ts h = (recore (fst (p_tag_tail c s ts h)) Q l, snd (p_tag_tail c s ts h)).
Proof.
  destruct h as [[[id ty] esz] hl]. unfold p_tag_tail.
  change (pconsume (recore s Q l) (N.of_nat hl)) with (recore (pconsume s (N.of_nat hl)) Q l).
  set (s1 := pconsume s (N.of_nat hl)).
  change (b_off (recore s1 Q l)) with (b_off s1). change (blen (recore s1 Q l)) with (blen s1).
  change (b_bytes (recore s1 Q l)) with (b_bytes s1).
  destruct ty as [[]|]; try reflexivity;
    (destruct esz as [size|]; [|reflexivity]); (destruct (_ <? size); [reflexivity|]);
    change (pconsume (recore s1 Q l) size) with (recore (pconsume s1 size) Q l);
    try (destruct (arr_to_u64 _); reflexivity); try (destruct (arr_to_i64 _); reflexivity);
    try (destruct (arr_to_f64 _); reflexivity); try (destruct (utf8_valid _); reflexivity); reflexivity.
Qed.

Lemma p_read_tag_frame c s Q l :
  p_read_tag c (recore s Q l) = (recore (fst (p_read_tag c s)) Q l, snd (p_read_tag c s)).
Proof.
  rewrite !p_read_tag_unfold, p_header_frame. change (b_off (recore s Q l)) with (b_off s).
  destruct (p_header c s) as [st1 [h|e|]]; cbn [fst snd]; try reflexivity.
  apply p_tag_tail_frame.
Qed.

Lemma p_read_tag_checked_frame c s Q l :
  p_read_tag_checked c (recore s Q l) = (recore (fst (p_read_tag_checked c s)) Q l, snd (p_read_tag_checked c s)).
Proof.
  unfold p_read_tag_checked. change (b_bytes (recore s Q l)) with (b_bytes s).
  destruct (b_bytes s); [reflexivity|]. rewrite p_read_tag_frame.
  destruct (p_read_tag c s) as [s2 r]. reflexivity.
Qed.

(* the parse is the same for the configuration without buffered masters *)
Lemma p_read_tag_checked_unbuffered c s : p_read_tag_checked (unbuffered c) s = p_read_tag_checked c s.
Proof. reflexivity. Qed.

(* ------------------------------------------------------------------ what reading a tag does to the stack and the flags *)
(* the stack only grows at its outer end (implied ancestors), the bad flag is never cleared *)
Definition eff (s s' : pst) : Prop :=
  (exists extra, b_stack s' = b_stack s ++ extra) /\ (b_bad s' = None -> b_bad s = None) /\ b_fuel s' = b_fuel s.

Lemma eff_refl s : eff s s.
Proof. split; [exists []; rewrite app_nil_r; reflexivity|split; [auto|reflexivity]]. Qed.

Lemma eff_same s s1 s2 : b_stack s2 = b_stack s1 -> b_bad s2 = b_bad s1 -> b_fuel s2 = b_fuel s1 -> eff s s1 -> eff s s2.
Proof. intros H1 H2 H3 [A [B C]]. unfold eff. rewrite H1, H2, H3. split; [exact A|split; assumption]. Qed.

Lemma p_hier_step_eff c s id ty : eff s (fst (p_hier_step c s id ty)).
Proof.
  unfold p_hier_step. destruct (negb _ && _); [|apply eff_refl].
  destruct (b_det s); [destruct (_ && _); apply eff_refl|].
  destruct (all_ids _); [|destruct (_ && _); apply eff_refl].
  destruct (implied_stack _ _) as [stk|].
  - assert (H : eff s (pset_stack s (b_stack s ++ stk) true)) by (split; [exists stk; reflexivity|split; [cbn; auto|reflexivity]]).
    destruct (_ && _); exact H.
  - cbn [fst]. split; [exists []; rewrite app_nil_r; reflexivity|split; [|reflexivity]]. cbn [pset_bad b_bad]. destruct (b_bad s); discriminate.
Qed.

Lemma p_header_eff c s : eff s (fst (p_header c s)).
Proof.
  rewrite p_header_unfold. destruct (p_tag_id s) as [[id idl]|e|]; try apply eff_refl.
  unfold p_hdr_tail. destruct (read_vint _) as [[[size sl]|]|e1|]; try apply eff_refl.
  destruct (is_numeric _ && _); [apply eff_refl|]. destruct (negb (c_allow_id c) && _); [apply eff_refl|].
  pose proof (p_hier_step_eff c s id (get_type (c_sp c) id)) as Hq.
  destruct (p_hier_step _ _ _ _) as [st1 [e1|]]; cbn [fst] in *; [exact Hq|].
  destruct (b_bad st1); [exact Hq|]. destruct (_ && _); [exact Hq|].
  destruct (c_max c); destruct (ebml_size size sl); try destruct (_ <? _); exact Hq.
Qed.

Lemma p_read_tag_eff c s : eff s (fst (p_read_tag c s)) /\ (forall p, snd (p_read_tag c s) = Ok p -> is_se (p_tag p) = true).
Proof.
  rewrite p_read_tag_unfold. pose proof (p_header_eff c s) as Hq.
  destruct (p_header c s) as [st1 [[[[id ty] esz] hl]|e|]] eqn:Eh; cbn [fst snd] in *; try (split; [exact Hq|discriminate]).
  destruct (p_tag_tail c st1 (b_off s) (id, ty, esz, hl)) as [st2 r] eqn:Et.
  destruct (p_tag_tail_facts _ _ _ _ _ _ _ _ _ Et) as [A [_ [_ D]]]. cbn [fst snd].
  assert (Hb : b_bad st2 = b_bad st1 /\ b_fuel st2 = b_fuel st1).
  { revert Et. unfold p_tag_tail. intros Et.
    destruct ty as [[]|]; try (inversion Et; split; reflexivity);
    (destruct esz as [size|]; [|inversion Et; split; reflexivity]); (destruct (_ <? size); [inversion Et; split; reflexivity|]);
    try (destruct (arr_to_u64 _); inversion Et; split; reflexivity); try (destruct (arr_to_i64 _); inversion Et; split; reflexivity);
    try (destruct (arr_to_f64 _); inversion Et; split; reflexivity); try (destruct (utf8_valid _); inversion Et; split; reflexivity);
    inversion Et; split; reflexivity. }
  split; [eapply eff_same; [exact A|apply Hb|apply Hb|exact Hq]|]. intros p Hp. apply D, Hp.
Qed.

(* ------------------------------------------------------------------ one step of the reader without buffered masters *)
Definition ustep (c : cfg) (st : pst) : pst := p_read_next 1 (unbuffered c) st.

Fixpoint usteps (n : nat) (c : cfg) (st : pst) : pst :=
  match n with O => st | S k => usteps k c (ustep c st) end.

Lemma usteps_add c : forall a b st, usteps (a + b) c st = usteps b c (usteps a c st).
Proof. induction a as [|a IH]; intros b st; [reflexivity|]. cbn [Nat.add usteps]. apply IH. Qed.

Lemma ustep_fuel f c st : p_read_next (S f) (unbuffered c) st = ustep c st.
Proof.
  unfold ustep. rewrite !p_read_next_unfold. cbn zeta.
  destruct (p_read_tag_checked _ _) as [s2 [[p|e|]|]]; reflexivity.
Qed.

Lemma ustep_recore c s Q l : ustep c (recore s Q l) =
    let k1 := exhausted_count (b_off s) (b_stack s) in
    let s1 := ppop_frames s k1 in
    let Q1 := Q ++ map end_item (firstn k1 (b_stack s)) in
    match p_read_tag_checked c s1 with
    | (s2, Some (Ok p)) =>
        let k2 := count_ended (c_sp c) (tag_id (p_tag p)) (stack_view (b_stack s2)) in
        let s3 := ppop_frames s2 k2 in
        let Q3 := Q1 ++ map end_item (firstn k2 (b_stack s2)) in
        match p_tag p with
        | TStart _ => recore (pset_stack s3 ({| f_id := tag_id (p_tag p); f_size := p_size p; f_start := p_start p; f_data := p_data p |} :: b_stack s3) (b_det s3))
                             (Q3 ++ [QOk (p_tag p) (p_start p)]) l
        | _ => recore s3 (Q3 ++ [QOk (p_tag p) (p_start p)]) l
        end
    | (s2, Some (Err e)) => recore s2 (Q1 ++ [QErr e]) l
    | (s2, Some Panic) => recore (pset_bad s2 BPanic) Q1 l
    | (s2, None) => if c_emit_eof c then recore (ppop_frames s2 (length (b_stack s2))) (Q1 ++ map end_item (firstn (length (b_stack s2)) (b_stack s2))) l
                    else recore s2 Q1 l
    end.
Proof.
  unfold ustep. rewrite p_read_next_unfold. cbn zeta.
  change (ppop_frames (recore s Q l) (exhausted_count (b_off (recore s Q l)) (b_stack (recore s Q l))))
    with (recore (ppop_frames s (exhausted_count (b_off s) (b_stack s))) (Q ++ map end_item (firstn (exhausted_count (b_off s) (b_stack s)) (b_stack s))) l).
  rewrite p_read_tag_checked_unbuffered, p_read_tag_checked_frame.
  destruct (p_read_tag_checked c _) as [s2 [[p|e|]|]]; cbn [fst snd]; reflexivity.
Qed.

(* ------------------------------------------------------------------ queues without error items *)
Definition okq (q : list qitem) : Prop := Forall (fun x => qitem_is_err x = false) q.

Lemma okq_app a b : okq (a ++ b) <-> okq a /\ okq b.
Proof. apply Forall_app. Qed.

Lemma okq_ends l : okq (map end_item l).
Proof. apply Forall_forall. intros x Hx. apply in_map_iff in Hx. destruct Hx as [f [<- _]]. reflexivity. Qed.

Lemma okq_nil_tags q : okq q -> qtags q = [] -> q = [].
Proof. destruct q as [|[t o|e] q]; [reflexivity| |]; intros H; [discriminate|inversion H; discriminate]. Qed.

Lemma no_full_app a b : no_full a -> no_full b -> no_full (a ++ b).
Proof. induction a as [|t a IH]; [auto|]. destruct t; cbn [app no_full]; auto. Qed.

Lemma no_full_ends l : no_full (map TEnd l).
Proof. induction l; [exact I|exact IHl]. Qed.

Lemma no_full_qends l : no_full (qtags (map end_item l)).
Proof. rewrite qtags_ends. apply no_full_ends. Qed.

(* ------------------------------------------------------------------ traces of the stack *)
(* [Tr B S l S']: the successful items [l] lead from stack [S] to stack [S']: an End item (with the offset of its frame) pops
   the innermost frame, a Start (of a master that is not buffered) pushes one, elements and Full items leave the stack alone;
   implied ancestors may appear at the outer end *)
Inductive Tr (B : list N) : list frame -> list qitem -> list frame -> Prop :=
| Tr_nil S : Tr B S [] S
| Tr_end f S l S' : Tr B S l S' -> Tr B (f :: S) (end_item f :: l) S'
| Tr_start f S l S' : mem_id (f_id f) B = false -> Tr B (f :: S) l S' -> Tr B S (QOk (TStart (f_id f)) (f_start f) :: l) S'
| Tr_elem id v o S l S' : Tr B S l S' -> Tr B S (QOk (TElem id v) o :: l) S'
| Tr_full id cs o S l S' : Tr B S l S' -> Tr B S (QOk (TFull id cs) o :: l) S'
| Tr_impl extra S l S' : Tr B (S ++ extra) l S' -> Tr B S l S'.

Lemma Tr_app B S l1 S1 l2 S2 : Tr B S l1 S1 -> Tr B S1 l2 S2 -> Tr B S (l1 ++ l2) S2.
Proof.
  induction 1 as [S|f S l S' _ IH|f S l S' Hm _ IH|id v o S l S' _ IH|id cs o S l S' _ IH|extra S l S' _ IH]; intros H2; cbn [app].
  - exact H2.
  - apply Tr_end, IH, H2.
  - apply Tr_start; [exact Hm|apply IH, H2].
  - apply Tr_elem, IH, H2.
  - apply Tr_full, IH, H2.
  - eapply Tr_impl, IH, H2.
Qed.

Lemma Tr_ends B : forall p S, Tr B (p ++ S) (map end_item p) S.
Proof. induction p as [|f p IH]; intros S; [apply Tr_nil|]. cbn [app map]. apply Tr_end, IH. Qed.

Lemma Tr_pop B S k : Tr B S (map end_item (firstn k S)) (skipn k S).
Proof. rewrite <- (firstn_skipn k S) at 1. apply Tr_ends. Qed.

(* the tags queued since some master was opened, with the masters [open] (innermost first) opened since and not yet closed *)
Fixpoint Opn (open : list N) (l : list tag) : Prop :=
  match open with
  | [] => Bal l
  | a :: open' => exists l0 body, l = l0 ++ TStart a :: body /\ Opn open' l0 /\ Bal body
  end.

Lemma Opn_bal : forall open l b, Opn open l -> Bal b -> Opn open (l ++ b).
Proof.
  destruct open as [|a open]; intros l b H Hb; cbn [Opn] in *.
  - apply bal_app; assumption.
  - destruct H as [l0 [body [-> [H0 H1]]]]. exists l0, (body ++ b). rewrite <- app_assoc. cbn [app].
    split; [reflexivity|split; [exact H0|apply bal_app; assumption]].
Qed.

Lemma Opn_start open l a : Opn open l -> Opn (a :: open) (l ++ [TStart a]).
Proof. intros H. exists l, []. split; [reflexivity|split; [exact H|constructor]]. Qed.

Lemma Opn_end open l a : Opn (a :: open) l -> Opn open (l ++ [TEnd a]).
Proof.
  intros [l0 [body [-> [H0 H1]]]]. rewrite <- app_assoc. cbn [app]. apply Opn_bal; [exact H0|].
  apply (Bal_group a body []); [exact H1|constructor].
Qed.

Definition is_end_of (tid : N) (t : tag) : bool := match t with TEnd i => i =? tid | _ => false end.
Definition no_end (tid : N) (l : list tag) : Prop := Forall (fun t => is_end_of tid t = false) l.

Lemma mem_id_diff a b B : mem_id a B = false -> mem_id b B = true -> a <> b.
Proof. intros H1 H2 ->. congruence. Qed.

(* the first End of a buffered master [F] queued while only unbuffered masters were opened above it closes [F] itself (and
   carries the offset of [F]); what was queued before is well nested, what follows is a trace from the stack below [F] *)
Lemma Tr_split B S l S' : Tr B S l S' -> forall above F S0 l1 o l2,
  S = above ++ F :: S0 -> Forall (fun f => mem_id (f_id f) B = false) above -> mem_id (f_id F) B = true ->
  l = l1 ++ QOk (TEnd (f_id F)) o :: l2 -> no_end (f_id F) (qtags l1) ->
  (forall l0, Opn (map f_id above) l0 -> Bal (l0 ++ qtags l1)) /\ o = f_start F /\ exists extra, Tr B (S0 ++ extra) l2 S'.
Proof.
  induction 1 as [S|f S l S' HT IH|f S l S' Hm _ IH|id v o' S l S' _ IH|id cs o' S l S' _ IH|extra S l S' _ IH];
    intros above F S0 l1 o l2 HS Hab HF Hl Hne.
  - destruct l1; discriminate.
  - destruct above as [|g above].
    + cbn [app] in HS. injection HS as -> ->. destruct l1 as [|x l1].
      * cbn [app] in Hl. unfold end_item in Hl. injection Hl as <- ->. split; [|split; [reflexivity|]].
        -- intros l0 H0. rewrite app_nil_r. exact H0.
        -- exists []. rewrite app_nil_r. exact HT.
      * cbn [app] in Hl. injection Hl as <- _. cbn [end_item qtags flat_map app] in Hne.
        inversion Hne as [|? ? Hx _]. cbn [is_end_of] in Hx. rewrite N.eqb_refl in Hx. discriminate.
    + cbn [app] in HS. injection HS as -> ->. inversion Hab as [|? ? Hg Hab']; subst.
      destruct l1 as [|x l1].
      * cbn [app] in Hl. unfold end_item in Hl. injection Hl as Hid _ _. exfalso. apply (mem_id_diff _ _ _ Hg HF). exact Hid.
      * cbn [app] in Hl. injection Hl as <- ->. cbn [end_item qtags flat_map app] in Hne. inversion Hne as [|? ? _ Hne']; subst.
        destruct (IH above F S0 l1 o l2 eq_refl Hab' HF eq_refl Hne') as [A Bx]. split; [|exact Bx].
        intros l0 H0. cbn [map] in H0. apply Opn_end in H0. specialize (A _ H0). rewrite <- app_assoc in A. exact A.
  - destruct l1 as [|t l1]; [discriminate|]. cbn [app] in Hl. injection Hl as <- ->. cbn [qtags flat_map app] in Hne.
    inversion Hne as [|? ? _ Hne']; subst.
    destruct (IH (f :: above) F S0 l1 o l2 eq_refl (Forall_cons _ Hm Hab) HF eq_refl Hne') as [A Bx]. split; [|exact Bx].
    intros l0 H0. apply (Opn_start _ _ (f_id f)) in H0. specialize (A _ H0). rewrite <- app_assoc in A. exact A.
  - destruct l1 as [|t l1]; [discriminate|]. cbn [app] in Hl. injection Hl as <- ->. cbn [qtags flat_map app] in Hne.
    inversion Hne as [|? ? _ Hne']; subst.
    destruct (IH above F S0 l1 o l2 eq_refl Hab HF eq_refl Hne') as [A Bx]. split; [|exact Bx].
    intros l0 H0. assert (H1 : Opn (map f_id above) (l0 ++ [TElem id v])) by (apply Opn_bal; [exact H0|repeat constructor]).
    specialize (A _ H1). rewrite <- app_assoc in A. exact A.
  - destruct l1 as [|t l1]; [discriminate|]. cbn [app] in Hl. injection Hl as <- ->. cbn [qtags flat_map app] in Hne.
    inversion Hne as [|? ? _ Hne']; subst.
    destruct (IH above F S0 l1 o l2 eq_refl Hab HF eq_refl Hne') as [A Bx]. split; [|exact Bx].
    intros l0 H0. assert (H1 : Opn (map f_id above) (l0 ++ [TFull id cs])) by (apply Opn_bal; [exact H0|repeat constructor]).
    specialize (A _ H1). rewrite <- app_assoc in A. exact A.
  - subst S. destruct (IH above F (S0 ++ extra) l1 o l2) as [A [Ho [extra' Bx]]]; try assumption.
    { rewrite <- app_assoc. reflexivity. }
    split; [exact A|]. split; [exact Ho|]. exists (extra ++ extra'). rewrite app_assoc. exact Bx.
Qed.

(* ------------------------------------------------------------------ scan_queue *)
Lemma scan_head_false tid x : qitem_is_err x || qitem_is_end_of tid x = false ->
  qitem_is_err x = false /\ no_end tid (qtags [x]).
Proof.
  destruct x as [t o|e]; cbn [qitem_is_err qitem_is_end_of orb]; [|discriminate].
  intros H. split; [reflexivity|]. cbn [qtags flat_map app]. constructor; [|constructor]. destruct t; try reflexivity. exact H.
Qed.

Lemma scan_not_found tid : forall q pos p, scan_queue tid q pos = (p, false) ->
  p = (pos + length q)%nat /\ okq q /\ no_end tid (qtags q).
Proof.
  induction q as [|x q IH]; intros pos p H; cbn [scan_queue] in H.
  - inversion H; subst. split; [cbn; lia|split; constructor].
  - destruct (qitem_is_err x || qitem_is_end_of tid x) eqn:E; [discriminate|].
    destruct (scan_head_false _ _ E) as [A Bx]. destruct (IH _ _ H) as [C [D G]].
    split; [cbn [length]; lia|]. split; [constructor; assumption|].
    change (x :: q) with ([x] ++ q). rewrite qtags_app. apply Forall_app. split; assumption.
Qed.

Lemma scan_found tid : forall q pos p, scan_queue tid q pos = (p, true) ->
  exists a x b, q = a ++ x :: b /\ p = (pos + length a)%nat /\ okq a /\ no_end tid (qtags a) /\
                qitem_is_err x || qitem_is_end_of tid x = true.
Proof.
  induction q as [|x q IH]; intros pos p H; cbn [scan_queue] in H; [discriminate|].
  destruct (qitem_is_err x || qitem_is_end_of tid x) eqn:E.
  - inversion H; subst. exists [], x, q. split; [reflexivity|]. split; [cbn; lia|]. split; [constructor|]. split; [constructor|exact E].
  - destruct (scan_head_false _ _ E) as [A Bx]. destruct (IH _ _ H) as [a [y [b [-> [C [D [G K]]]]]]].
    exists (x :: a), y, b. split; [reflexivity|]. split; [cbn [length]; lia|]. split; [constructor; assumption|].
    split; [|exact K]. change (x :: a) with ([x] ++ a). rewrite qtags_app. apply Forall_app. split; assumption.
Qed.

Lemma skipn_app_exact {A} (a b : list A) : skipn (length a) (a ++ b) = b.
Proof. induction a; [reflexivity|assumption]. Qed.
Lemma firstn_app_exact {A} (a b : list A) : firstn (length a) (a ++ b) = a.
Proof. induction a as [|x a IH]; [reflexivity|]. cbn [length app firstn]. f_equal. exact IH. Qed.

(* ------------------------------------------------------------------ one buffered step, case by case *)
Lemma p_read_tag_checked_facts c s :
  eff s (fst (p_read_tag_checked c s)) /\ b_queue (fst (p_read_tag_checked c s)) = b_queue s /\
  (forall p, snd (p_read_tag_checked c s) = Some (Ok p) -> is_se (p_tag p) = true).
Proof.
  unfold p_read_tag_checked. destruct (b_bytes s).
  - cbn [fst snd]. split; [apply eff_refl|split; [reflexivity|discriminate]].
  - pose proof (p_read_tag_eff c s) as [A Bx]. pose proof (p_read_tag_queue c s) as Hq.
    destruct (p_read_tag c s) as [s2 r]. cbn [fst snd] in *. split; [exact A|split; [exact Hq|]].
    intros p Hp. injection Hp as Hp. apply Bx, Hp.
Qed.


Lemma Tr_step B S k1 extra S2 k2 l S' :
  S2 = skipn k1 S ++ extra -> Tr B (skipn k2 S2) l S' ->
  Tr B S ((map end_item (firstn k1 S) ++ map end_item (firstn k2 S2)) ++ l) S'.
Proof.
  intros HS HT. rewrite <- app_assoc. eapply Tr_app; [apply Tr_pop|]. apply (Tr_impl B extra). rewrite <- HS.
  eapply Tr_app; [apply Tr_pop|exact HT].
Qed.

Lemma rn_cases f c sb :
  (exists new, p_read_next (S f) c sb = ustep c sb /\
      (forall Q l, ustep c (recore sb Q l) = recore (ustep c sb) (Q ++ new) l) /\
      no_full (qtags new) /\
      (b_bad (ustep c sb) = None -> b_bad sb = None) /\
      (okq new -> Tr (c_buffered c) (b_stack sb) new (b_stack (ustep c sb))))
  \/
  (exists ends st4 F S1, mem_id (f_id F) (c_buffered c) = true /\
      p_read_next (S f) c sb = p_buffer_master f c (f_id F) (f_start F) (length (b_queue st4)) (length (b_queue st4)) st4 /\
      (forall Q l, ustep c (recore sb Q l) = recore st4 (Q ++ ends ++ [QOk (TStart (f_id F)) (f_start F)]) l) /\
      b_queue st4 = b_queue sb ++ ends /\ no_full (qtags ends) /\ okq ends /\
      b_stack st4 = F :: S1 /\ Tr (c_buffered c) (b_stack sb) ends S1 /\
      (b_bad st4 = None -> b_bad sb = None)).
Proof.
  remember (exhausted_count (b_off sb) (b_stack sb)) as k1 eqn:Ek1.
  remember (ppop_frames sb k1) as s1 eqn:Es1.
  assert (HU : forall Q l, ustep c (recore sb Q l) = _) by (intros Q l; rewrite ustep_recore; cbn zeta; rewrite <- Ek1, <- Es1; reflexivity).
  assert (HS : ustep c sb = _) by (unfold ustep; rewrite p_read_next_unfold; cbn zeta; rewrite p_read_tag_checked_unbuffered, <- Ek1, <- Es1; cbn [unbuffered c_sp c_emit_eof c_buffered]; reflexivity).
  assert (HB : p_read_next (S f) c sb = _) by (rewrite p_read_next_unfold; cbn zeta; rewrite <- Ek1, <- Es1; reflexivity).
  assert (Hq1 : b_queue s1 = b_queue sb ++ map end_item (firstn k1 (b_stack sb))) by (subst s1; reflexivity).
  assert (Hs1 : b_stack s1 = skipn k1 (b_stack sb)) by (subst s1; reflexivity).
  assert (Hb1 : b_bad s1 = b_bad sb) by (subst s1; reflexivity).
  destruct (p_read_tag_checked_facts c s1) as [[[extra Hst2] [Hbad2 _]] [Hq2 Hse]].
  destruct (p_read_tag_checked c s1) as [s2 r]. cbn [fst snd] in *.
  rewrite Hs1 in Hst2. rewrite Hb1 in Hbad2. clear Hs1 Hb1.
  set (e1 := map end_item (firstn k1 (b_stack sb))) in *.
  destruct r as [[p|e|]|].
  - specialize (Hse p eq_refl).
    remember (count_ended (c_sp c) (tag_id (p_tag p)) (stack_view (b_stack s2))) as k2 eqn:Ek2.
    set (e2 := map end_item (firstn k2 (b_stack s2))) in *.
    destruct (p_tag p) as [id v|id|id|id cs] eqn:Ep; try discriminate Hse; cbn [tag_id] in *.
    + left. exists (e1 ++ e2 ++ [QOk (TElem id v) (p_start p)]).
      split; [rewrite HB, HS; reflexivity|]. split; [|split; [|split]].
      * intros Q l. rewrite HU, HS. unfold recore, ppush_q, ppop_frames. cbn. rewrite <- !app_assoc. reflexivity.
      * rewrite !qtags_app. apply no_full_app; [apply no_full_qends|apply no_full_app; [apply no_full_qends|exact I]].
      * rewrite HS. cbn. exact Hbad2.
      * intros _. rewrite HS. cbn [ppush_q ppop_frames pset_queue pset_stack b_stack].
        rewrite app_assoc. apply (Tr_step _ _ _ extra (b_stack s2)); [exact Hst2|]. apply Tr_elem, Tr_nil.
    + destruct (mem_id id (c_buffered c)) eqn:Em.
      * right.
        exists (e1 ++ e2), (pset_stack (ppop_frames s2 k2) ({| f_id := id; f_size := p_size p; f_start := p_start p; f_data := p_data p |} :: b_stack (ppop_frames s2 k2)) (b_det (ppop_frames s2 k2))),
               {| f_id := id; f_size := p_size p; f_start := p_start p; f_data := p_data p |}, (skipn k2 (b_stack s2)).
        cbn [f_id f_start]. split; [exact Em|]. split; [exact HB|]. split; [|split; [|split; [|split; [|split; [|split]]]]].
        -- intros Q l. rewrite HU. unfold recore, ppush_q, ppop_frames. cbn. rewrite <- !app_assoc. reflexivity.
        -- cbn. rewrite Hq2, Hq1, <- app_assoc. reflexivity.
        -- rewrite !qtags_app. apply no_full_app; apply no_full_qends.
        -- apply okq_app. split; apply okq_ends.
        -- reflexivity.
        -- rewrite <- (app_nil_r (e1 ++ e2)). apply (Tr_step _ _ _ extra (b_stack s2)); [exact Hst2|apply Tr_nil].
        -- cbn. exact Hbad2.
      * left. exists (e1 ++ e2 ++ [QOk (TStart id) (p_start p)]).
        split; [rewrite HB, HS; reflexivity|]. split; [|split; [|split]].
        -- intros Q l. rewrite HU, HS. unfold recore, ppush_q, ppop_frames. cbn. rewrite <- !app_assoc. reflexivity.
        -- rewrite !qtags_app. apply no_full_app; [apply no_full_qends|apply no_full_app; [apply no_full_qends|exact I]].
        -- rewrite HS. cbn. exact Hbad2.
        -- intros _. rewrite HS. cbn [ppush_q ppop_frames pset_queue pset_stack b_stack].
           rewrite app_assoc. apply (Tr_step _ _ _ extra (b_stack s2)); [exact Hst2|].
           apply (Tr_start _ {| f_id := id; f_size := p_size p; f_start := p_start p; f_data := p_data p |}); [exact Em|apply Tr_nil].
  - left. exists (e1 ++ [QErr e]). split; [rewrite HB, HS; reflexivity|]. split; [|split; [|split]].
    + intros Q l. rewrite HU, HS. unfold recore, ppush_q. cbn. rewrite <- !app_assoc. reflexivity.
    + rewrite qtags_app. cbn [qtags flat_map]. rewrite app_nil_r. apply no_full_qends.
    + rewrite HS. cbn. exact Hbad2.
    + intros Ho. apply okq_app in Ho. destruct Ho as [_ Ho]. inversion Ho; discriminate.
  - left. exists e1. split; [rewrite HB, HS; reflexivity|]. split; [|split; [|split]].
    + intros Q l. rewrite HU, HS. reflexivity.
    + apply no_full_qends.
    + rewrite HS. cbn. destruct (b_bad s2); discriminate.
    + intros _. rewrite HS. cbn [pset_bad b_stack]. rewrite <- (app_nil_r e1).
      eapply Tr_app; [apply Tr_pop|]. apply (Tr_impl _ extra). rewrite <- Hst2. apply Tr_nil.
  - destruct (c_emit_eof c).
    + left. exists (e1 ++ map end_item (firstn (length (b_stack s2)) (b_stack s2))).
      split; [rewrite HB, HS; reflexivity|]. split; [|split; [|split]].
      * intros Q l. rewrite HU, HS. unfold recore, ppush_q, ppop_frames. cbn. rewrite <- !app_assoc. reflexivity.
      * rewrite !qtags_app. apply no_full_app; apply no_full_qends.
      * rewrite HS. cbn. exact Hbad2.
      * intros _. rewrite HS. cbn [ppush_q ppop_frames pset_queue pset_stack b_stack].
        rewrite <- (app_nil_r (e1 ++ _)). apply (Tr_step _ _ _ extra (b_stack s2)); [exact Hst2|apply Tr_nil].
    + left. exists e1. split; [rewrite HB, HS; reflexivity|]. split; [|split; [|split]].
      * intros Q l. rewrite HU, HS. unfold recore. cbn. f_equal.
      * apply no_full_qends.
      * rewrite HS. exact Hbad2.
      * intros _. rewrite HS. rewrite <- (app_nil_r e1).
        eapply Tr_app; [apply Tr_pop|]. apply (Tr_impl _ extra). rewrite <- Hst2. apply Tr_nil.
Qed.


(* ------------------------------------------------------------------ unrolling Full items, with offsets *)
(* [Unr b u]: the item sequence [u] is [b] with every top-level Full item replaced by its Start (at the offset of the Full item),
   items whose tags are the recursive unrolling of its children, and its End (at the same offset); other items are the same *)
Definition not_full (t : tag) : Prop := match t with TFull _ _ => False | _ => True end.

Inductive Unr : list qitem -> list qitem -> Prop :=
| Unr_nil : Unr [] []
| Unr_same t o b u : not_full t -> Unr b u -> Unr (QOk t o :: b) (QOk t o :: u)
| Unr_full tid cs o mid b u : okq mid -> qtags mid = flat cs -> Unr b u ->
    Unr (QOk (TFull tid cs) o :: b) (QOk (TStart tid) o :: mid ++ QOk (TEnd tid) o :: u).

Lemma qtags_cons t o q : qtags (QOk t o :: q) = t :: qtags q.
Proof. reflexivity. Qed.

Lemma Unr_app a ua b ub : Unr a ua -> Unr b ub -> Unr (a ++ b) (ua ++ ub).
Proof.
  induction 1 as [|t o a ua Hn _ IH|tid cs o mid a ua Hm Hq _ IH]; intros Hb; cbn [app].
  - exact Hb.
  - apply Unr_same; [exact Hn|apply IH, Hb].
  - rewrite <- app_assoc. cbn [app]. apply Unr_full; [exact Hm|exact Hq|apply IH, Hb].
Qed.

Lemma Unr_app_inv : forall a b u, Unr (a ++ b) u -> exists ua ub, u = ua ++ ub /\ Unr a ua /\ Unr b ub.
Proof.
  induction a as [|x a IH]; intros b u H.
  - exists [], u. split; [reflexivity|split; [constructor|exact H]].
  - cbn [app] in H. inversion H as [|t o b0 u0 Hn H0|tid cs o mid b0 u0 Hm Hq H0]; subst.
    + destruct (IH _ _ H0) as [ua [ub [-> [A Bx]]]]. exists (QOk t o :: ua), ub.
      split; [reflexivity|split; [apply Unr_same; assumption|exact Bx]].
    + destruct (IH _ _ H0) as [ua [ub [-> [A Bx]]]]. exists (QOk (TStart tid) o :: mid ++ QOk (TEnd tid) o :: ua), ub.
      split; [cbn [app]; rewrite <- app_assoc; reflexivity|split; [apply Unr_full; assumption|exact Bx]].
Qed.

Lemma Unr_refl : forall q, okq q -> no_full (qtags q) -> Unr q q.
Proof.
  induction q as [|[t o|e] q IH]; intros Ho Hn; [constructor| |inversion Ho; discriminate].
  inversion Ho as [|? ? _ Ho']; subst. cbn [qtags flat_map app] in Hn.
  destruct t; try contradiction; (apply Unr_same; [exact I|apply IH; [exact Ho'|exact Hn]]).
Qed.

Lemma Unr_tags b u : Unr b u -> okq b /\ okq u /\ qtags u = flat (qtags b).
Proof.
  induction 1 as [|t o b u Hn _ [A [Bx C]]|tid cs o mid b u Hm Hq _ [A [Bx C]]].
  - split; [constructor|split; [constructor|reflexivity]].
  - split; [constructor; [reflexivity|exact A]|]. split; [constructor; [reflexivity|exact Bx]|].
    rewrite !qtags_cons, flat_cons, <- C. destruct t; try contradiction; reflexivity.
  - split; [constructor; [reflexivity|exact A]|]. split.
    + constructor; [reflexivity|]. apply okq_app. split; [exact Hm|constructor; [reflexivity|exact Bx]].
    + rewrite !qtags_cons, qtags_app, qtags_cons, flat_cons, flat1_full, Hq, C.
      cbn [app]. rewrite <- app_assoc. reflexivity.
Qed.

Lemma Unr_nil_inv u : Unr [] u -> u = [].
Proof. intros H. inversion H. reflexivity. Qed.

Lemma Unr_cons_inv t o b u : Unr (QOk t o :: b) u ->
  exists q1 u', u = q1 ++ u' /\ okq q1 /\ Unr b u' /\ forall b' T', Unr b' T' -> Unr (QOk t o :: b') (q1 ++ T').
Proof.
  intros H. inversion H as [|t0 o0 b0 u0 Hn H0|tid cs o0 mid b0 u0 Hm Hq H0]; subst.
  - exists [QOk t o], u0. split; [reflexivity|]. split; [constructor; [reflexivity|constructor]|]. split; [exact H0|].
    intros b' T' H'. apply Unr_same; assumption.
  - exists (QOk (TStart tid) o :: mid ++ [QOk (TEnd tid) o]), u0. split; [cbn [app]; rewrite <- app_assoc; reflexivity|].
    split; [constructor; [reflexivity|apply okq_app; split; [exact Hm|constructor; [reflexivity|constructor]]]|]. split; [exact H0|].
    intros b' T' H'. cbn [app]. rewrite <- app_assoc. cbn [app]. apply Unr_full; assumption.
Qed.

(* ------------------------------------------------------------------ the simulation *)
Lemma nth_error_app_exact {A} (a : list A) x b : nth_error (a ++ x :: b) (length a) = Some x.
Proof. induction a; [reflexivity|assumption]. Qed.
Lemma skipn_S_app_exact {A} (a : list A) x b : skipn (S (length a)) (a ++ x :: b) = b.
Proof. induction a; [reflexivity|assumption]. Qed.

Lemma recore_q s q q' l : q = q' -> recore s q l = recore s q' l.
Proof. intros ->. reflexivity. Qed.

(* a buffered read_next whose new items are all successful is simulated by n+1 unbuffered steps; the items it queues,
   unrolled, are the items those steps queue; and they are a trace of the stack *)
Definition RNP (c : cfg) (fuel : nat) : Prop := forall sb,
  b_bad (p_read_next fuel c sb) = None ->
  b_bad sb = None /\
  exists new_b, b_queue (p_read_next fuel c sb) = b_queue sb ++ new_b /\
    (okq new_b ->
       Tr (c_buffered c) (b_stack sb) new_b (b_stack (p_read_next fuel c sb)) /\
       exists n new_u, (forall Q l, usteps (S n) c (recore sb Q l) = recore (p_read_next fuel c sb) (Q ++ new_u) l) /\
                       Unr new_b new_u).

(* buffer_master for the open buffered master [F] (below it the stack [S0]), with the children [ch] queued so far *)
Definition BMP (c : cfg) (fuel : nat) : Prop := forall F S0 kept ch st,
  mem_id (f_id F) (c_buffered c) = true ->
  b_queue st = kept ++ ch -> okq ch -> no_end (f_id F) (qtags ch) -> Tr (c_buffered c) (F :: S0) ch (b_stack st) ->
  b_bad (p_buffer_master fuel c (f_id F) (f_start F) (length kept) (length (b_queue st)) st) = None ->
  b_bad st = None /\
  exists tail, b_queue (p_buffer_master fuel c (f_id F) (f_start F) (length kept) (length (b_queue st)) st) = kept ++ tail /\
    (okq tail ->
       Tr (c_buffered c) S0 tail (b_stack (p_buffer_master fuel c (f_id F) (f_start F) (length kept) (length (b_queue st)) st)) /\
       exists n new_u, (forall Q l, usteps n c (recore st Q l) =
                                    recore (p_buffer_master fuel c (f_id F) (f_start F) (length kept) (length (b_queue st)) st) (Q ++ new_u) l) /\
                       forall uch, Unr ch uch -> Unr tail (QOk (TStart (f_id F)) (f_start F) :: uch ++ new_u)).

Lemma end_item_is tid t o : qitem_is_err (QOk t o) || qitem_is_end_of tid (QOk t o) = true -> t = TEnd tid.
Proof.
  cbn [qitem_is_err qitem_is_end_of orb]. destruct t; try discriminate. intros H. apply N.eqb_eq in H. subst. reflexivity.
Qed.

Lemma rn_bm_sim c : forall fuel, RNP c fuel /\ BMP c fuel.
Proof.
  induction fuel as [|f [IHRN IHBM]].
  - split.
    + intros sb Hb. cbn [p_read_next pset_bad b_bad] in Hb. destruct (b_bad sb); discriminate.
    + intros F S0 kept ch st _ _ _ _ _ Hb. cbn [p_buffer_master pset_bad b_bad] in Hb. destruct (b_bad st); discriminate.
  - split.
    + intros sb.
      destruct (rn_cases f c sb) as [[new [E1 [E2 [E3 [E4 E5]]]]] | [ends [st4 [F [S1 [Em [E1 [E2 [E3 [E4 [E5 [E6 [E7 E8]]]]]]]]]]]]];
        rewrite E1; intros Hb.
      * split; [apply E4, Hb|]. exists new. split.
        -- pose proof (E2 (b_queue sb) (b_last sb)) as H. rewrite recore_id in H. rewrite H. reflexivity.
        -- intros Ho. split; [apply E5, Ho|]. exists O, new. split; [intros Q l; cbn [usteps]; apply E2|].
           apply Unr_refl; assumption.
      * assert (Hq0 : b_queue st4 = b_queue st4 ++ []) by (rewrite app_nil_r; reflexivity).
        assert (HT0 : Tr (c_buffered c) (F :: S1) [] (b_stack st4)) by (rewrite E6; apply Tr_nil).
        destruct (IHBM F S1 (b_queue st4) [] st4 Em Hq0 (Forall_nil _) (Forall_nil _) HT0 Hb) as [Hb4 [tail [Hq Hsim]]].
        split; [apply E8, Hb4|]. exists (ends ++ tail). split; [rewrite Hq, E3, app_assoc; reflexivity|].
        intros Ho. apply okq_app in Ho. destruct Ho as [Ho1 Ho2]. destruct (Hsim Ho2) as [HT [n [new_u [Hu HUnr]]]].
        split; [eapply Tr_app; [exact E7|exact HT]|].
        exists n, (ends ++ [QOk (TStart (f_id F)) (f_start F)] ++ new_u). split.
        -- intros Q l. cbn [usteps]. rewrite E2, Hu. apply recore_q. rewrite <- !app_assoc. reflexivity.
        -- apply Unr_app; [apply Unr_refl; assumption|]. apply (HUnr [] Unr_nil).
    + intros F S0 kept ch st Em Hq Hoc Hne HT. rewrite p_buffer_master_unfold. cbn zeta. rewrite Nat.leb_refl.
      destruct (b_bad (p_read_next f c st)) eqn:Eb1; [intros Hb; rewrite Eb1 in Hb; discriminate|].
      destruct (IHRN st Eb1) as [Hbst [new1 [Hq1 Hsim1]]].
      remember (p_read_next f c st) as st1 eqn:Est1.
      destruct (Nat.leb_spec (length (b_queue st1)) (length (b_queue st))) as [Hle|Hgt].
      * intros _. split; [exact Hbst|]. exists (ch ++ new1 ++ [QErr (REof (f_start F) (Some (f_id F)) None None)]).
        split; [cbn [ppush_q pset_queue b_queue]; rewrite Hq1, Hq, <- !app_assoc; reflexivity|].
        intros Ho. exfalso. apply okq_app in Ho. destruct Ho as [_ Ho]. apply okq_app in Ho. destruct Ho as [_ Ho].
        inversion Ho; discriminate.
      * replace (skipn (length (b_queue st)) (b_queue st1)) with new1 by (rewrite Hq1, skipn_app_exact; reflexivity).
        destruct (scan_queue (f_id F) new1 (length (b_queue st))) as [p found] eqn:Es. destruct found.
        -- destruct (scan_found _ _ _ _ Es) as [a [x [b [Hn1 [Hp [Hoa [Hnea Hx]]]]]]]. subst new1 p.
           assert (Hq1' : b_queue st1 = kept ++ (ch ++ a) ++ x :: b) by (rewrite Hq1, Hq, <- !app_assoc; reflexivity).
           unfold p_bm_finish. rewrite Hq1', firstn_app_exact, skipn_app_exact.
           replace (length (b_queue st) + length a - length kept)%nat with (length (ch ++ a)) by (rewrite Hq, !app_length; lia).
           rewrite nth_error_app_exact, firstn_app_exact, skipn_S_app_exact.
           destruct x as [t o|e].
           ++ apply end_item_is in Hx. subst t. intros _. split; [exact Hbst|].
              exists (QOk (roll_up_children (f_id F) (qtags (ch ++ a))) (f_start F) :: b). split; [reflexivity|].
              intros Ho. assert (Hob : okq b) by (inversion Ho; assumption).
              assert (Hon : okq (a ++ QOk (TEnd (f_id F)) o :: b)) by (apply okq_app; split; [exact Hoa|constructor; [reflexivity|exact Hob]]).
              destruct (Hsim1 Hon) as [HT1 [n [new_u [Hu HUnr]]]].
              assert (HTall : Tr (c_buffered c) (F :: S0) ((ch ++ a) ++ QOk (TEnd (f_id F)) o :: b) (b_stack st1)).
              { rewrite <- app_assoc. eapply Tr_app; [exact HT|exact HT1]. }
              assert (Hne2 : no_end (f_id F) (qtags (ch ++ a))) by (rewrite qtags_app; apply Forall_app; split; assumption).
              destruct (Tr_split _ _ _ _ HTall [] F S0 _ _ _ eq_refl (Forall_nil _) Em eq_refl Hne2) as [HBal [Hoff [extra HTb]]].
              specialize (HBal [] Bal_nil). cbn [app] in HBal. subst o.
              split.
              ** cbn [pset_queue b_stack]. unfold roll_up_children. apply Tr_full, (Tr_impl _ extra), HTb.
              ** exists (S n), new_u. split; [intros Q l; rewrite Hu; reflexivity|].
                 intros uch Huch. destruct (Unr_app_inv _ _ _ HUnr) as [ua [ub' [-> [Hua Hub']]]].
                 inversion Hub' as [|t0 o0 b0 ub Hn0 Hub|]; subst.
                 destruct (Unr_tags _ _ Huch) as [_ [Houch Htch]]. destruct (Unr_tags _ _ Hua) as [_ [Houa Hta]].
                 unfold roll_up_children. rewrite app_assoc. apply Unr_full; [apply okq_app; split; assumption| |exact Hub].
                 rewrite roll_up_flat; [|lia|exact HBal]. rewrite !qtags_app, flat_app, Htch, Hta. reflexivity.
           ++ intros _. split; [exact Hbst|]. exists [QErr e]. split; [reflexivity|]. intros Ho. inversion Ho; discriminate.
        -- destruct (scan_not_found _ _ _ _ Es) as [Hp [Hon Hnen]]. subst p.
           replace (length (b_queue st) + length new1)%nat with (length (b_queue st1)) by (rewrite Hq1, app_length; reflexivity).
           intros Hb.
           assert (Hq1' : b_queue st1 = kept ++ (ch ++ new1)) by (rewrite Hq1, Hq, <- app_assoc; reflexivity).
           destruct (Hsim1 Hon) as [HT1 [n1 [nu1 [Hu1 HUnr1]]]].
           assert (Hoc2 : okq (ch ++ new1)) by (apply okq_app; split; assumption).
           assert (Hne2 : no_end (f_id F) (qtags (ch ++ new1))) by (rewrite qtags_app; apply Forall_app; split; assumption).
           assert (HT2 : Tr (c_buffered c) (F :: S0) (ch ++ new1) (b_stack st1)) by (eapply Tr_app; eassumption).
           destruct (IHBM F S0 kept (ch ++ new1) st1 Em Hq1' Hoc2 Hne2 HT2 Hb) as [_ [tail [Hqt Hsim2]]].
           split; [exact Hbst|]. exists tail. split; [exact Hqt|]. intros Ho.
           destruct (Hsim2 Ho) as [HT3 [n2 [nu2 [Hu2 HUnr2]]]]. split; [exact HT3|].
           exists (S n1 + n2)%nat, (nu1 ++ nu2). split.
           ++ intros Q l. rewrite usteps_add, Hu1, Hu2, app_assoc. reflexivity.
           ++ intros uch Huch. rewrite app_assoc. apply HUnr2. apply Unr_app; assumption.
Qed.

(* ------------------------------------------------------------------ facts about unbuffered steps *)
Lemma ustep_frame c s : exists new,
  (forall Q l, ustep c (recore s Q l) = recore (ustep c s) (Q ++ new) l) /\ (b_bad (ustep c s) = None -> b_bad s = None).
Proof.
  destruct (rn_cases 0 (unbuffered c) s) as [[new [_ [E2 [_ [E4 _]]]]] | [ends [st4 [F [S1 [Em _]]]]]].
  - exists new. split; [exact E2|exact E4].
  - discriminate Em.
Qed.

Lemma ustep_queue c s : exists new, b_queue (ustep c s) = b_queue s ++ new /\
  (forall Q l, ustep c (recore s Q l) = recore (ustep c s) (Q ++ new) l).
Proof.
  destruct (ustep_frame c s) as [new [E _]]. exists new. split; [|exact E].
  pose proof (E (b_queue s) (b_last s)) as H. rewrite recore_id in H. rewrite H. reflexivity.
Qed.

Lemma ustep_bad c s : b_bad (ustep c s) = None -> b_bad s = None.
Proof. destruct (ustep_frame c s) as [new [_ E]]. exact E. Qed.

Lemma ustep_b_fuel c s : b_fuel (ustep c s) = b_fuel s.
Proof.
  unfold ustep. rewrite p_read_next_unfold. cbn zeta.
  set (s1 := ppop_frames s _).
  destruct (p_read_tag_checked_facts (unbuffered c) s1) as [[_ [_ Hf]] _].
  destruct (p_read_tag_checked (unbuffered c) s1) as [s2 [[p|e|]|]]; cbn [fst] in Hf.
  - destruct (p_tag p); exact Hf.
  - exact Hf.
  - exact Hf.
  - destruct (c_emit_eof (unbuffered c)); exact Hf.
Qed.

(* a step that queues nothing has found the end of the input; so does every later step *)
Lemma ustep_at_eof c u : b_bytes u = [] -> (c_emit_eof c = true -> b_stack u = []) ->
  (c_emit_eof c = false -> firstn (exhausted_count (b_off u) (b_stack u)) (b_stack u) = []) ->
  b_queue (ustep c u) = b_queue u /\ b_bad (ustep c u) = b_bad u.
Proof.
  intros Hb He Hn. unfold ustep. rewrite p_read_next_unfold. cbn zeta. unfold p_read_tag_checked.
  change (b_bytes (ppop_frames u (exhausted_count (b_off u) (b_stack u)))) with (b_bytes u). rewrite Hb.
  cbn [unbuffered c_emit_eof]. destruct (c_emit_eof c).
  - rewrite (He eq_refl). cbn. rewrite ?(He eq_refl). cbn. rewrite !app_nil_r. split; reflexivity.
  - cbn [ppop_frames ppush_q pset_queue pset_stack b_queue b_bad]. rewrite (Hn eq_refl). cbn [map]. rewrite app_nil_r. split; reflexivity.
Qed.

Lemma ustep_quiet_shape c s : b_queue (ustep c s) = b_queue s -> b_bad (ustep c s) = None ->
  b_bytes (ustep c s) = [] /\ (c_emit_eof c = true -> b_stack (ustep c s) = []) /\
  (c_emit_eof c = false -> firstn (exhausted_count (b_off (ustep c s)) (b_stack (ustep c s))) (b_stack (ustep c s)) = []).
Proof.
  unfold ustep. rewrite p_read_next_unfold. cbn zeta.
  set (k1 := exhausted_count (b_off s) (b_stack s)). set (s1 := ppop_frames s k1).
  unfold p_read_tag_checked. change (b_bytes s1) with (b_bytes s). destruct (b_bytes s) eqn:Eb.
  - cbn [unbuffered c_emit_eof]. destruct (c_emit_eof c).
    + intros _ _. split; [exact Eb|]. split; [|discriminate]. intros _. cbn [ppop_frames ppush_q pset_queue pset_stack b_stack]. apply skipn_all.
    + intros Hq _. split; [exact Eb|]. split; [discriminate|]. intros _.
      cbn [s1 ppop_frames ppush_q pset_queue pset_stack b_stack b_queue b_off] in *.
      assert (Hf : firstn k1 (b_stack s) = []).
      { rewrite <- (app_nil_r (b_queue s)) in Hq at 2. apply app_inv_head in Hq. destruct (firstn k1 (b_stack s)); [reflexivity|discriminate]. }
      assert (Hs : skipn k1 (b_stack s) = b_stack s) by (rewrite <- (firstn_skipn k1 (b_stack s)) at 2; rewrite Hf; reflexivity).
      rewrite Hs. exact Hf.
  - pose proof (p_read_tag_queue (unbuffered c) s1) as Hq2.
    destruct (p_read_tag (unbuffered c) s1) as [s2 [p|e|]]; cbn [fst] in Hq2.
    + intros Hq _. exfalso.
      assert (Hl : forall st x, b_queue st = b_queue s2 -> b_queue (ppush_q (ppop_frames st (count_ended (c_sp (unbuffered c)) (tag_id (p_tag p)) (stack_view (b_stack s2)))) [x]) = b_queue s -> False).
      { intros st x Hst H. cbn [ppop_frames ppush_q pset_queue pset_stack b_queue] in H. rewrite Hst, Hq2 in H.
        cbn [s1 ppop_frames ppush_q pset_queue pset_stack b_queue] in H.
        apply (f_equal (@length _)) in H. rewrite !app_length in H. cbn [length] in H. lia. }
      destruct (p_tag p); (eapply (Hl s2); [reflexivity|exact Hq]).
    + intros Hq _. exfalso. cbn [ppush_q pset_queue b_queue] in Hq. rewrite Hq2 in Hq.
      cbn [s1 ppop_frames ppush_q pset_queue pset_stack b_queue] in Hq.
      apply (f_equal (@length _)) in Hq. rewrite !app_length in Hq. cbn [length] in Hq. lia.
    + intros _ Hb. cbn [pset_bad b_bad] in Hb. destruct (b_bad s2); discriminate.
Qed.

Lemma ustep_idem c s : b_queue (ustep c s) = b_queue s -> b_bad (ustep c s) = None ->
  b_queue (ustep c (ustep c s)) = b_queue s /\ b_bad (ustep c (ustep c s)) = None.
Proof.
  intros Hq Hb. destruct (ustep_quiet_shape c s Hq Hb) as [A [Bx C]].
  destruct (ustep_at_eof c (ustep c s) A Bx C) as [D E]. rewrite D, E. split; assumption.
Qed.

Lemma usteps_queue c : forall n s, exists new, b_queue (usteps n c s) = b_queue s ++ new.
Proof.
  induction n as [|n IH]; intros s; cbn [usteps].
  - exists []. rewrite app_nil_r. reflexivity.
  - destruct (IH (ustep c s)) as [new2 H2]. destruct (ustep_queue c s) as [new1 [H1 _]].
    exists (new1 ++ new2). rewrite H2, H1, app_assoc. reflexivity.
Qed.

Lemma usteps_bad c : forall n s, b_bad (usteps n c s) = None -> b_bad s = None.
Proof. induction n as [|n IH]; intros s H; cbn [usteps] in H; [exact H|]. apply (ustep_bad c), IH, H. Qed.

Lemma usteps_b_fuel c : forall n s, b_fuel (usteps n c s) = b_fuel s.
Proof. induction n as [|n IH]; intros s; cbn [usteps]; [reflexivity|]. rewrite IH. apply ustep_b_fuel. Qed.

(* ------------------------------------------------------------------ next() *)
Lemma p_next_nonempty c st t o q : b_queue st = QOk t o :: q -> p_next c st = (pset_last (pset_queue st q) o, NItem t o).
Proof. intros H. unfold p_next. rewrite H. cbn beta iota zeta. rewrite H. reflexivity. Qed.

Lemma p_next_err c st e q : b_queue st = QErr e :: q -> p_next c st = (pset_queue st q, NErr e).
Proof. intros H. unfold p_next. rewrite H. cbn beta iota zeta. rewrite H. reflexivity. Qed.

Lemma p_next_empty c st : b_queue st = [] ->
  p_next c st = match b_queue (p_read_next (b_fuel st) c st) with
                | [] => (p_read_next (b_fuel st) c st, NNone)
                | QOk t off :: q => (pset_last (pset_queue (p_read_next (b_fuel st) c st) q) off, NItem t off)
                | QErr e :: q => (pset_queue (p_read_next (b_fuel st) c st) q, NErr e)
                end.
Proof. intros H. unfold p_next. rewrite H. reflexivity. Qed.

Lemma read_next_unbuffered c st : (1 <= b_fuel st)%nat -> p_read_next (b_fuel st) (unbuffered c) st = ustep c st.
Proof. intros H. destruct (b_fuel st); [lia|apply ustep_fuel]. Qed.

(* ------------------------------------------------------------------ the unbuffered run does not care when it refills *)
Lemma run_ustep c : forall lim su, okq (b_queue (ustep c su)) -> b_bad (ustep c su) = None -> (1 <= b_fuel su)%nat ->
  snd (p_run_all lim (unbuffered c) su) = snd (p_run_all lim (unbuffered c) (ustep c su)).
Proof.
  induction lim as [|k IH]; intros su Ho Hb Hf; [reflexivity|].
  cbn [p_run_all]. destruct (ustep_queue c su) as [new [Hq Hfr]].
  destruct (b_queue su) as [|x q] eqn:Eq.
  - rewrite (p_next_empty _ su Eq), (read_next_unbuffered c su Hf). cbn [app] in Hq.
    destruct new as [|y new'].
    + rewrite Hq, Hb. cbn [snd].
      assert (Hq' : b_queue (ustep c su) = b_queue su) by (rewrite Hq, Eq; reflexivity).
      destruct (ustep_idem c su Hq' Hb) as [A Bx]. rewrite Eq in A.
      rewrite (p_next_empty _ (ustep c su) Hq), (read_next_unbuffered c (ustep c su)) by (rewrite ustep_b_fuel; exact Hf).
      rewrite A, Bx. reflexivity.
    + rewrite Hq. rewrite Hq in Ho. destruct y as [t o|e]; [|inversion Ho; discriminate].
      rewrite (p_next_nonempty _ (ustep c su) t o new' Hq). reflexivity.
  - rewrite Hq in Ho. cbn [app] in Ho, Hq. destruct x as [t o|e]; [|inversion Ho; discriminate].
    rewrite (p_next_nonempty _ su t o q Eq), (p_next_nonempty _ (ustep c su) t o (q ++ new) Hq).
    assert (E : pset_last (pset_queue (ustep c su) (q ++ new)) o = ustep c (pset_last (pset_queue su q) o)).
    { change (pset_last (pset_queue su q) o) with (recore su q o). rewrite Hfr. reflexivity. }
    rewrite E.
    assert (Hb0 : b_bad su = None) by (apply (ustep_bad c), Hb).
    change (b_bad (pset_last (pset_queue su q) o)) with (b_bad su). rewrite Hb0.
    assert (Hb1 : b_bad (ustep c (pset_last (pset_queue su q) o)) = None) by (rewrite <- E; exact Hb).
    rewrite Hb1.
    assert (Ho1 : okq (b_queue (ustep c (pset_last (pset_queue su q) o)))) by (rewrite <- E; inversion Ho; assumption).
    pose proof (IH _ Ho1 Hb1 Hf) as HI.
    destruct (p_run_all k (unbuffered c) (pset_last (pset_queue su q) o)) as [a1 o1].
    destruct (p_run_all k (unbuffered c) (ustep c (pset_last (pset_queue su q) o))) as [a2 o2].
    cbn [snd] in *. rewrite HI. reflexivity.
Qed.

Lemma run_usteps c lim : forall n su, okq (b_queue (usteps n c su)) -> b_bad (usteps n c su) = None -> (1 <= b_fuel su)%nat ->
  snd (p_run_all lim (unbuffered c) su) = snd (p_run_all lim (unbuffered c) (usteps n c su)).
Proof.
  induction n as [|n IH]; intros su Ho Hb Hf; cbn [usteps] in *; [reflexivity|].
  rewrite <- IH; [|exact Ho|exact Hb|rewrite ustep_b_fuel; exact Hf].
  apply run_ustep; [|apply usteps_bad in Hb; exact Hb|exact Hf].
  destruct (usteps_queue c n (ustep c su)) as [new H]. rewrite H in Ho. apply okq_app in Ho. apply Ho.
Qed.

(* ------------------------------------------------------------------ whole runs *)
Definition good (o : rout) : Prop := match o with OItem _ _ | ONone => True | _ => False end.

(* the successful items of a run with their offsets *)
Definition out_items (outs : list rout) : list qitem :=
  flat_map (fun o => match o with OItem t off => [QOk t off] | _ => [] end) outs.

Lemma out_items_tags outs : qtags (out_items outs) = out_tags outs.
Proof.
  induction outs as [|o outs IH]; [reflexivity|]. destruct o; cbn [out_items out_tags flat_map app]; try exact IH.
  rewrite qtags_cons. f_equal. exact IH.
Qed.

(* [T] is what the unbuffered run from [su] yields, cut only if that run hits its item limit *)
Definition UG (c : cfg) (su : pst) (lim : nat) (T : list qitem) : Prop :=
  exists rest, T = out_items (snd (p_run_all lim (unbuffered c) su)) ++ rest /\
               (~ In OLimit (snd (p_run_all lim (unbuffered c) su)) -> rest = []).

Lemma drain c s T : b_bad s = None -> forall q1, okq q1 -> forall q2, (forall l lim, UG c (recore s q2 l) lim T) ->
  forall l lim, UG c (recore s (q1 ++ q2) l) lim (q1 ++ T).
Proof.
  intros Hb. induction q1 as [|x q1 IH]; intros Ho q2 H l lim; [apply H|].
  destruct x as [t o|e]; [|inversion Ho; discriminate]. inversion Ho as [|? ? _ Ho']; subst.
  destruct lim as [|lim].
  - exists ((QOk t o :: q1) ++ T). split; [reflexivity|]. intros Hn. exfalso. apply Hn. left. reflexivity.
  - unfold UG. cbn [p_run_all app]. rewrite (p_next_nonempty _ _ t o (q1 ++ q2)) by reflexivity.
    change (b_bad (pset_last (pset_queue (recore s (QOk t o :: q1 ++ q2) l) (q1 ++ q2)) o)) with (b_bad s). rewrite Hb.
    change (pset_last (pset_queue (recore s (QOk t o :: q1 ++ q2) l) (q1 ++ q2)) o) with (recore s (q1 ++ q2) o).
    destruct (IH Ho' q2 H o lim) as [rest [E1 E2]].
    destruct (p_run_all lim (unbuffered c) (recore s (q1 ++ q2) o)) as [st2 outs]. cbn [snd] in *.
    exists rest. split.
    + cbn [out_items flat_map app]. f_equal. exact E1.
    + intros Hn. apply E2. intros Hin. apply Hn. right. exact Hin.
Qed.

Lemma bad_out_not_good b : ~ good (bad_out b).
Proof. destruct b; exact (fun x => x). Qed.

Lemma good_run_okq c : forall lim st, (forall o, In o (snd (p_run_all lim c st)) -> good o) -> okq (b_queue st).
Proof.
  induction lim as [|k IH]; intros st H.
  - exfalso. apply (H OLimit). left. reflexivity.
  - cbn [p_run_all] in H. destruct (b_queue st) as [|[t o|e] q] eqn:Eq; [constructor| |].
    + rewrite (p_next_nonempty _ _ _ _ _ Eq) in H.
      change (b_bad (pset_last (pset_queue st q) o)) with (b_bad st) in H.
      destruct (b_bad st) as [b|].
      { exfalso. apply (bad_out_not_good b), H. left. reflexivity. }
      specialize (IH (pset_last (pset_queue st q) o)).
      destruct (p_run_all k c (pset_last (pset_queue st q) o)) as [st2 outs]. cbn [snd] in *.
      constructor; [reflexivity|]. apply IH. intros o' Hin. apply H. right. exact Hin.
    + exfalso. rewrite (p_next_err _ _ _ _ Eq) in H. destruct (b_bad (pset_queue st q)) as [b|].
      * apply (bad_out_not_good b), H. left. reflexivity.
      * apply (H (OErr e)). left. reflexivity.
Qed.

Lemma run_sim c : forall limB sb qu,
  (forall o, In o (snd (p_run_all limB c sb)) -> good o) ->
  b_bad sb = None -> (1 <= b_fuel sb)%nat -> Unr (b_queue sb) qu ->
  exists T, Unr (out_items (snd (p_run_all limB c sb))) T /\ forall lu limU, UG c (recore sb qu lu) limU T.
Proof.
  induction limB as [|k IH]; intros sb qu H Hb Hf HU.
  - exfalso. apply (H OLimit). left. reflexivity.
  - assert (A : forall s t o qb' qu, b_queue s = QOk t o :: qb' -> b_bad s = None -> (1 <= b_fuel s)%nat ->
                Unr (b_queue s) qu ->
                (forall o', In o' (snd (p_run_all k c (pset_last (pset_queue s qb') o))) -> good o') ->
                exists T, Unr (QOk t o :: out_items (snd (p_run_all k c (pset_last (pset_queue s qb') o)))) T /\
                          forall lu limU, UG c (recore s qu lu) limU T).
    { clear sb qu H Hb Hf HU. intros s t o qb' qu Eq Hb Hf HU Hg.
      rewrite Eq in HU. destruct (Unr_cons_inv _ _ _ _ HU) as [q1 [u' [-> [Ho1 [HU' Hmk]]]]].
      destruct (IH (pset_last (pset_queue s qb') o) u' Hg Hb Hf HU') as [T' [HT' HUG]].
      exists (q1 ++ T'). split; [apply Hmk, HT'|]. intros lu limU.
      apply drain; [exact Hb|exact Ho1|]. intros l lim. apply (HUG l lim). }
    cbn [p_run_all] in *. destruct (b_queue sb) as [|[t o|e] qb'] eqn:Eq.
    + (* refill *)
      apply Unr_nil_inv in HU. subst qu.
      rewrite (p_next_empty _ _ Eq) in *.
      remember (p_read_next (b_fuel sb) c sb) as sbr eqn:Esbr.
      assert (Hbr : b_bad sbr = None).
      { destruct (b_bad sbr) as [b|] eqn:Ebr; [|reflexivity]. exfalso.
        destruct (b_queue sbr) as [|[t o|e] q].
        - rewrite Ebr in H. apply (bad_out_not_good b), H. left. reflexivity.
        - change (b_bad (pset_last (pset_queue sbr q) o)) with (b_bad sbr) in H. rewrite Ebr in H.
          apply (bad_out_not_good b), H. left. reflexivity.
        - change (b_bad (pset_queue sbr q)) with (b_bad sbr) in H. rewrite Ebr in H.
          apply (bad_out_not_good b), H. left. reflexivity. }
      destruct (rn_bm_sim c (b_fuel sb)) as [HRN _]. rewrite Esbr in Hbr.
      destruct (HRN sb Hbr) as [_ [new_b [Hqn Hsim]]]. rewrite <- Esbr in *. rewrite Eq in Hqn. cbn [app] in Hqn.
      destruct (b_queue sbr) as [|[t o|e] q] eqn:Eqr.
      * (* end of the run *)
        rewrite Hbr. cbn [snd out_items flat_map]. subst new_b.
        destruct (Hsim (Forall_nil _)) as [_ [n [new_u [Hu HUnr]]]].
        apply Unr_nil_inv in HUnr. subst new_u.
        exists []. split; [constructor|]. intros lu limU.
        specialize (Hu [] lu). cbn [usteps app] in Hu.
        assert (Hq1 : b_queue (ustep c (recore sb [] lu)) = []).
        { destruct (usteps_queue c n (ustep c (recore sb [] lu))) as [new' Hn']. rewrite Hu in Hn'. cbn [recore b_queue] in Hn'.
          symmetry in Hn'. apply app_eq_nil in Hn'. apply Hn'. }
        assert (Hb1 : b_bad (ustep c (recore sb [] lu)) = None).
        { apply (usteps_bad c n). rewrite Hu. exact Hbr. }
        destruct limU as [|limU]; [exists []; split; [reflexivity|intros _; reflexivity]|].
        exists []. unfold UG. cbn [p_run_all]. rewrite (p_next_empty _ (recore sb [] lu)) by reflexivity.
        rewrite (read_next_unbuffered c (recore sb [] lu)) by exact Hf. rewrite Hq1, Hb1. cbn [snd out_items flat_map app].
        split; [reflexivity|intros _; reflexivity].
      * (* the buffered reader has queued t :: q *)
        change (b_bad (pset_last (pset_queue sbr q) o)) with (b_bad sbr) in *. rewrite Hbr in *.
        assert (Hg : forall o', In o' (snd (p_run_all k c (pset_last (pset_queue sbr q) o))) -> good o').
        { intros o' Hin. apply H. destruct (p_run_all k c (pset_last (pset_queue sbr q) o)) as [st2 outs]. right. exact Hin. }
        pose proof (good_run_okq c k _ Hg) as Hoq2. cbn [pset_last pset_queue b_queue] in Hoq2.
        assert (Hon : okq new_b) by (subst new_b; constructor; [reflexivity|exact Hoq2]).
        destruct (Hsim Hon) as [_ [n [new_u [Hu HUnr]]]].
        destruct (Unr_tags _ _ HUnr) as [_ [Hou _]].
        assert (Hfr : b_fuel sbr = b_fuel sb).
        { pose proof (usteps_b_fuel c (S n) (recore sb [] 0)) as Hfu. rewrite (Hu [] 0) in Hfu. exact Hfu. }
        destruct (A sbr t o q new_u Eqr Hbr) as [T [HT HUG]]; [rewrite Hfr; exact Hf|rewrite Eqr, Hqn; exact HUnr|exact Hg|].
        exists T. split.
        -- destruct (p_run_all k c (pset_last (pset_queue sbr q) o)) as [st2 outs]. exact HT.
        -- intros lu limU. specialize (Hu [] lu). cbn [app] in Hu. specialize (HUG lu limU).
           unfold UG in *. rewrite (run_usteps c limU (S n) (recore sb [] lu)); [|rewrite Hu; exact Hou|rewrite Hu; exact Hbr|exact Hf].
           rewrite Hu. exact HUG.
      * exfalso. destruct (b_bad (pset_queue sbr q)) as [b|].
        -- apply (bad_out_not_good b), H. left. reflexivity.
        -- apply (H (OErr e)). left. reflexivity.
    + rewrite (p_next_nonempty _ _ _ _ _ Eq) in *.
      change (b_bad (pset_last (pset_queue sb qb') o)) with (b_bad sb) in *. rewrite Hb in *.
      assert (Hg : forall o', In o' (snd (p_run_all k c (pset_last (pset_queue sb qb') o))) -> good o').
      { intros o' Hin. apply H. destruct (p_run_all k c (pset_last (pset_queue sb qb') o)) as [st2 outs]. right. exact Hin. }
      rewrite <- Eq in HU.
      destruct (A sb t o qb' qu Eq Hb Hf HU Hg) as [T [HT HUG]]. exists T. split; [|exact HUG].
      destruct (p_run_all k c (pset_last (pset_queue sb qb') o)) as [st2 outs]. exact HT.
    + exfalso. rewrite (p_next_err _ _ _ _ Eq) in H. destruct (b_bad (pset_queue sb qb')) as [b|].
      * apply (bad_out_not_good b), H. left. reflexivity.
      * apply (H (OErr e)). left. reflexivity.
Qed.

Lemma p_run_RAll c input : p_run c input [RAll] = snd (p_run_all (4 * length input + 64) c (p_init input)).
Proof.
  unfold p_run. cbn [p_run_ops]. destruct (p_run_all _ c (p_init input)) as [st1 outs].
  destruct (b_bad st1); cbn [snd]; [reflexivity|apply app_nil_r].
Qed.

(* a run that stops at its item limit has yielded exactly that many items *)
Lemma run_limit_length c : forall lim st, In OLimit (snd (p_run_all lim c st)) -> length (out_tags (snd (p_run_all lim c st))) = lim.
Proof.
  induction lim as [|k IH]; intros st; [reflexivity|]. cbn [p_run_all].
  destruct (p_next c st) as [st1 r]. destruct (b_bad st1) as [b|].
  - cbn [snd]. intros [H|[]]. destruct b; discriminate.
  - destruct r as [t o|e|].
    + specialize (IH st1). destruct (p_run_all k c st1) as [st2 outs]. cbn [snd] in *.
      intros [H|H]; [discriminate|]. cbn [out_tags flat_map app length]. f_equal. apply IH, H.
    + cbn [snd]. intros [H|[]]. discriminate.
    + cbn [snd]. intros [H|[]]. discriminate.
Qed.

(* C08 with offsets, general form: when the run with buffered masters completes (every outcome is an item or the final None: no
   error, no panic site, no budget or item-limit outcome), its items with every Full item unrolled -- Start and End at the
   offset of the Full item, which is the offset of the master's Start; every other item unchanged -- are the items of the
   run of the same reader with nothing buffered; that run can fall short only by being cut at its own item limit (it yields
   more items). *)
Theorem buffered_run_unrolls_items_upto_limit : forall c input,
  let outs := p_run c input [RAll] in
  (forall o, In o outs -> match o with OItem _ _ | ONone => True | _ => False end) ->
  exists T rest, Unr (out_items outs) T /\ T = out_items (p_run (unbuffered c) input [RAll]) ++ rest /\
                 (~ In OLimit (p_run (unbuffered c) input [RAll]) -> rest = []).
Proof.
  intros c input outs H. subst outs. rewrite !p_run_RAll in *.
  destruct (run_sim c (4 * length input + 64) (p_init input) [] H) as [T [HT HUG]].
  - reflexivity.
  - cbn [p_init b_fuel]. unfold default_fuel. lia.
  - constructor.
  - destruct (HUG 0 (4 * length input + 64)%nat) as [rest [E1 E2]]. exists T, rest. split; [exact HT|split; [exact E1|exact E2]].
Qed.

Theorem buffered_run_unrolls_items : forall c input,
  let outs := p_run c input [RAll] in
  (forall o, In o outs -> match o with OItem _ _ | ONone => True | _ => False end) ->
  ~ In OLimit (p_run (unbuffered c) input [RAll]) ->
  Unr (out_items outs) (out_items (p_run (unbuffered c) input [RAll])).
Proof.
  intros c input outs H Hl. destruct (buffered_run_unrolls_items_upto_limit c input H) as [T [rest [HT [E1 E2]]]].
  fold outs in HT. rewrite (E2 Hl), app_nil_r in E1. subst T. exact HT.
Qed.

(* the same on tags *)
Theorem buffered_run_unrolls_upto_limit : forall c input,
  let outs := p_run c input [RAll] in
  (forall o, In o outs -> match o with OItem _ _ | ONone => True | _ => False end) ->
  exists rest, flat (out_tags outs) = out_tags (p_run (unbuffered c) input [RAll]) ++ rest /\
               (~ In OLimit (p_run (unbuffered c) input [RAll]) -> rest = []).
Proof.
  intros c input outs H. destruct (buffered_run_unrolls_items_upto_limit c input H) as [T [rest [HT [E1 E2]]]].
  fold outs in HT. destruct (Unr_tags _ _ HT) as [_ [_ Ht]]. exists (qtags rest). split.
  - rewrite <- out_items_tags, <- Ht, E1, qtags_app, out_items_tags. reflexivity.
  - intros Hl. rewrite (E2 Hl). reflexivity.
Qed.

Theorem buffered_run_unrolls : forall c input,
  let outs := p_run c input [RAll] in
  (forall o, In o outs -> match o with OItem _ _ | ONone => True | _ => False end) ->
  ~ In OLimit (p_run (unbuffered c) input [RAll]) ->
  flat (out_tags outs) = out_tags (p_run (unbuffered c) input [RAll]).
Proof.
  intros c input outs H Hl. destruct (buffered_run_unrolls_upto_limit c input H) as [rest [E1 E2]].
  fold outs in E1. rewrite E1, (E2 Hl), app_nil_r. reflexivity.
Qed.

(* the item limit is no obstacle when the unrolled sequence is shorter than the limit of a run (4 * input length + 64) *)
Lemma short_no_limit c input :
  let outs := p_run c input [RAll] in
  (forall o, In o outs -> match o with OItem _ _ | ONone => True | _ => False end) ->
  (length (flat (out_tags outs)) < 4 * length input + 64)%nat ->
  ~ In OLimit (p_run (unbuffered c) input [RAll]).
Proof.
  intros outs H Hlen Hin.
  destruct (buffered_run_unrolls_upto_limit c input H) as [rest [E1 _]]. fold outs in E1.
  rewrite p_run_RAll in Hin, E1. apply run_limit_length in Hin. rewrite E1, app_length, Hin in Hlen. lia.
Qed.

Theorem buffered_run_unrolls_short : forall c input,
  let outs := p_run c input [RAll] in
  (forall o, In o outs -> match o with OItem _ _ | ONone => True | _ => False end) ->
  (length (flat (out_tags outs)) < 4 * length input + 64)%nat ->
  flat (out_tags outs) = out_tags (p_run (unbuffered c) input [RAll]).
Proof. intros c input outs H Hlen. apply buffered_run_unrolls; [exact H|apply short_no_limit; assumption]. Qed.

Theorem buffered_run_unrolls_items_short : forall c input,
  let outs := p_run c input [RAll] in
  (forall o, In o outs -> match o with OItem _ _ | ONone => True | _ => False end) ->
  (length (flat (out_tags outs)) < 4 * length input + 64)%nat ->
  Unr (out_items outs) (out_items (p_run (unbuffered c) input [RAll])).
Proof. intros c input outs H Hlen. apply buffered_run_unrolls_items; [exact H|apply short_no_limit; assumption]. Qed.
