(* C04: on a source that never pauses or fails the buffered reader machine (Reader.v) computes exactly what the abstract
   reader (Pure.v) computes on the remaining input — whatever the read chunking and the buffer capacity. *)
From Ebml Require Import Base Tools Spec Reader Pure Proofs.Tactics Proofs.ReaderIO.

Arguments vint_len : simpl never.
Arguments from_be : simpl never.
Arguments read_vint : simpl never.

Definition Abs (st : rst) : pst :=
  {| b_bytes := total st; b_off := r_off st; b_stack := r_stack st; b_queue := r_queue st; b_last := r_last st;
     b_det := r_det st; b_bad := r_bad st; b_fuel := r_fuel st |}.

Definition Good (st : rst) : Prop := WF st /\ calm (r_script st).

Lemma abs_same st st' : total st' = total st -> same_logic st' st -> Abs st' = Abs st.
Proof. intros Ht [H1 [H2 [H3 [H4 [H5 [H6 H7]]]]]]. unfold Abs. rewrite Ht, H1, H2, H3, H4, H5, H6, H7. reflexivity. Qed.

(* ---- list facts *)
Lemma splitN_fst_app : forall l k r, k <= N.of_nat (length l) -> fst (splitN k (l ++ r)) = fst (splitN k l).
Proof.
  induction l as [|x l IH]; intros k r Hk.
  - cbn in Hk. assert (k = 0) by lia. subst. destruct r; reflexivity.
  - cbn [app splitN]. destruct (N.eqb_spec k 0); [reflexivity|].
    cbn [length] in Hk. specialize (IH (N.pred k) r). destruct (splitN (N.pred k) (l ++ r)), (splitN (N.pred k) l).
    cbn in *. rewrite IH by lia. reflexivity.
Qed.

Lemma splitN_snd_app : forall l k r, k <= N.of_nat (length l) -> snd (splitN k (l ++ r)) = snd (splitN k l) ++ r.
Proof.
  induction l as [|x l IH]; intros k r Hk.
  - cbn in Hk. assert (k = 0) by lia. subst. destruct r; reflexivity.
  - cbn [app splitN]. destruct (N.eqb_spec k 0); [reflexivity|].
    cbn [length] in Hk. specialize (IH (N.pred k) r). destruct (splitN (N.pred k) (l ++ r)), (splitN (N.pred k) l).
    cbn in *. apply IH. lia.
Qed.

Lemma splitN_snd_len l k : k <= N.of_nat (length l) -> N.of_nat (length (snd (splitN k l))) = N.of_nat (length l) - k.
Proof. intros H. destruct (splitN_app l k H) as [Hab Hl]. rewrite <- Hab at 2. rewrite app_length. lia. Qed.

Lemma consume_refines st k : Good st -> k <= r_wlen st ->
  Good (consume st k) /\ Abs (consume st k) = pconsume (Abs st) k /\
  r_wlen (consume st k) = r_wlen st - k /\ r_rlen (consume st k) = r_rlen st /\ r_cap (consume st k) = r_cap st /\
  r_script (consume st k) = r_script st.
Proof.
  intros [[Hw Hr] Hc] Hk. unfold consume. rewrite Hw in Hk.
  pose proof (splitN_snd_len (r_win st) k Hk) as Hlen. pose proof (splitN_snd_app (r_win st) k (r_rest st) Hk) as Happ.
  destruct (splitN k (r_win st)) as [a b] eqn:Es. cbn [snd] in *.
  split; [split; [split; cbn; [lia|exact Hr]|exact Hc]|].
  split; [|cbn; repeat split; lia].
  unfold Abs, pconsume, total. cbn. rewrite Happ. reflexivity.
Qed.

(* ---- availability of the first n bytes in the window *)
Definition Av (n : N) (st : rst) : Prop := n <= r_wlen st \/ r_rlen st = 0.

Lemma rest_nil st : WF st -> r_rlen st = 0 -> r_rest st = [].
Proof. intros [_ Hr] H. rewrite Hr in H. destruct (r_rest st); [reflexivity|cbn in H; lia]. Qed.

Lemma av_firstn st n k : WF st -> Av n st -> N.of_nat k <= n -> firstn k (r_win st) = firstn k (total st).
Proof.
  intros HWF [Hn|Hr] Hk; unfold total.
  - destruct HWF as [Hw _]. rewrite firstn_app. replace (k - length (r_win st))%nat with O by lia. cbn. rewrite app_nil_r. reflexivity.
  - rewrite (rest_nil st HWF Hr), app_nil_r. reflexivity.
Qed.

Lemma av_wlen_lt st n m : WF st -> Av n st -> m <= n -> (r_wlen st <? m) = (N.of_nat (length (total st)) <? m).
Proof.
  intros HWF Hav Hm. pose proof (total_len st HWF) as Ht. destruct Hav as [Hn|Hr].
  - destruct (N.ltb_spec (r_wlen st) m), (N.ltb_spec (N.of_nat (length (total st))) m); try reflexivity; lia.
  - rewrite Ht, Hr, N.add_0_r. reflexivity.
Qed.

Lemma av_win_case st n : WF st -> Av n st -> 1 <= n ->
  match r_win st with [] => total st = [] | b :: _ => exists tl, total st = b :: tl end.
Proof.
  intros HWF Hav Hn. unfold total. destruct (r_win st) as [|b w] eqn:E.
  - destruct Hav as [H|H]; [destruct HWF as [Hw _]; rewrite E in Hw; cbn in Hw; lia|rewrite (rest_nil st HWF H); reflexivity].
  - eexists. reflexivity.
Qed.

Lemma ensure_view n st : Good st ->
  Good (fst (ensure n st)) /\ Abs (fst (ensure n st)) = Abs st /\ snd (ensure n st) = Ok (n <=? blen (Abs st)) /\
  Av n (fst (ensure n st)) /\ r_wlen st <= r_wlen (fst (ensure n st)) /\ r_rlen (fst (ensure n st)) <= r_rlen st /\
  r_cap st <= r_cap (fst (ensure n st)) /\ r_cap (fst (ensure n st)) <= N.max (r_cap st) n.
Proof.
  intros [HWF Hc]. pose proof (ensure_calm n st HWF Hc) as [W' [C' [T' [L' [C1 [C2 [Wl [_ Hcase]]]]]]]].
  pose proof (ensure_answer n st HWF Hc) as Ha.
  pose proof (total_len st HWF) as Ht. pose proof (total_len _ W') as Ht'. rewrite T' in Ht'.
  split; [split; assumption|]. split; [apply abs_same; assumption|].
  split; [rewrite Ha; unfold blen, Abs; cbn; rewrite Ht; reflexivity|].
  split; [destruct Hcase as [[_ H]|[_ [_ H]]]; [left; exact H|right; exact H]|].
  split; [exact Wl|]. split; [lia|]. split; assumption.
Qed.

Lemma av_ensure n m st : Good st -> Av n st -> Av n (fst (ensure m st)).
Proof.
  intros HG Hav. destruct (ensure_view m st HG) as [_ [_ [_ [_ [Hw [Hr _]]]]]].
  destruct Hav as [H|H]; [left; lia|right; lia].
Qed.

Lemma av_le n m st : Av n st -> m <= n -> Av m st.
Proof. intros [H|H] Hm; [left; lia|right; exact H]. Qed.

(* ---- peek_tag_id *)
Lemma vint_len_le8 b : (vint_len b <= 8)%nat.
Proof. unfold vint_len. lia. Qed.

Lemma peek_tag_id_refines st : Good st ->
  Good (fst (peek_tag_id st)) /\ Abs (fst (peek_tag_id st)) = Abs st /\ snd (peek_tag_id st) = p_tag_id (Abs st) /\
  (forall n, Av n st -> Av n (fst (peek_tag_id st))) /\ Av 8 (fst (peek_tag_id st)) /\
  r_cap st <= r_cap (fst (peek_tag_id st)) /\ r_cap (fst (peek_tag_id st)) <= N.max (r_cap st) 8 /\
  (forall id len, snd (peek_tag_id st) = Ok (id, len) -> N.of_nat len <= r_wlen (fst (peek_tag_id st)) /\ (len <= 8)%nat).
Proof.
  intros HG. unfold peek_tag_id.
  destruct (ensure_view 8 st HG) as [HG1 [HA1 [Hans [Hav [Hw [Hr [Hc1 Hc2]]]]]]].
  pose proof (fun n => av_ensure n 8 st HG) as Hmono.
  destruct (ensure 8 st) as [st1 r1]. cbn [fst snd] in *. rewrite Hans.
  destruct HG1 as [W1 C1].
  pose proof (av_win_case st1 8 W1 Hav ltac:(lia)) as Hcase.
  assert (Hp : p_tag_id (Abs st) = p_tag_id (Abs st1)) by (rewrite HA1; reflexivity). rewrite Hp. clear Hp.
  unfold p_tag_id. cbn [Abs b_bytes b_off].
  destruct (r_win st1) as [|b0 w] eqn:Ew.
  - rewrite Hcase. cbn [fst snd]. unfold eof_err.
    split; [split; assumption|]. split; [exact HA1|]. split; [reflexivity|]. split; [exact Hmono|]. split; [exact Hav|].
    split; [exact Hc1|]. split; [exact Hc2|]. intros id len H; discriminate.
  - destruct Hcase as [tl Htl]. rewrite Htl.
    destruct (N.eqb_spec b0 0).
    + cbn [fst snd]. split; [split; assumption|]. split; [exact HA1|]. split; [reflexivity|]. split; [exact Hmono|]. split; [exact Hav|].
      split; [exact Hc1|]. split; [exact Hc2|]. intros id len H. inversion H; subst. split; [|lia].
      destruct W1 as [Hw1 _]. rewrite Hw1, Ew. cbn. lia.
    + pose proof (vint_len_le8 b0) as Hl8.
      assert (Hlt : (r_wlen st1 <? N.of_nat (vint_len b0)) = (blen (Abs st1) <? N.of_nat (vint_len b0))).
      { unfold blen, Abs. cbn. apply (av_wlen_lt st1 8); [exact W1|exact Hav|lia]. }
      rewrite Hlt. unfold blen. cbn [Abs b_bytes]. rewrite Htl.
      destruct (N.ltb_spec (N.of_nat (length (b0 :: tl))) (N.of_nat (vint_len b0))) as [Hshort|Hlong].
      * cbn [fst snd]. unfold eof_err. split; [split; assumption|]. split; [exact HA1|]. split; [reflexivity|]. split; [exact Hmono|]. split; [exact Hav|].
        split; [exact Hc1|]. split; [exact Hc2|]. intros id len H; discriminate.
      * cbn [fst snd]. rewrite <- Ew. rewrite (av_firstn st1 8 (vint_len b0) W1 Hav) by lia. rewrite Htl.
        split; [split; assumption|]. split; [exact HA1|]. split; [reflexivity|]. split; [exact Hmono|]. split; [exact Hav|].
        split; [exact Hc1|]. split; [exact Hc2|]. intros id len H. inversion H; subst. split; [|exact Hl8].
        rewrite <- Htl in Hlong. destruct Hav as [H8|H0]; [lia|].
        pose proof (total_len st1 W1). lia.
Qed.

(* ---- peek_valid_tag_header: the part after the id has been read, on both machines *)
Definition hier_step (c : cfg) (st : rst) (id : N) (ty : option dtype) : rst * option rerr :=
    if negb (c_allow_hier c) && match ty with None => false | Some _ => true end then
      let st1 :=
        if r_det st then Some st else
        let p := get_path (c_sp c) id in
        if all_ids p then
          match implied_stack (c_sp c) p with
          | Some stk => Some (set_stack st (r_stack st ++ stk) true)
          | None => None
          end
        else Some st in
      match st1 with
      | None => (set_bad st BPanic, None)
      | Some st1 =>
          if r_det st1 && negb (validate_tag_path (c_sp c) id (stack_view (r_stack st1)))
          then (st1, Some (RHierarchy id (match r_stack st1 with f :: _ => Some (f_id f) | [] => None end)))
          else (st1, None)
      end
    else (st, None).

Definition hdr_tail (c : cfg) (st : rst) (id : N) (id_len : nat) : rst * res rerr (N * option dtype * esize * nat) :=
  let ty := get_type (c_sp c) id in
  let pos := r_off st in
  match read_vint (firstn 8 (skipn id_len (r_win st))) with
  | Panic => (st, Panic)
  | Err _ => (st, Err (RInvalidTagData pos id))
  | Ok None => (st, Err (eof_err st (Some id)))
  | Ok (Some (size, size_len)) =>
  if is_numeric ty && (8 <? size) then (st, Err (RInvalidTagData pos id)) else
  let esz := ebml_size size size_len in
  let header_len := (id_len + size_len)%nat in
  if negb (c_allow_id c) && match ty with None => true | Some _ => false end then (st, Err (RInvalidTagId pos id)) else
  match hier_step c st id ty with
  | (st, Some e) => (st, Err e)
  | (st, None) =>
  match r_bad st with Some _ => (st, Panic) | None =>
  let known_size := match esz with SKnown n => n | SUnknown => 0 end in
  if negb (c_allow_over c) && is_invalid_tag_size st (N.of_nat header_len + known_size)
  then (st, Err (ROversized pos id known_size)) else
  match c_max c, esz with
  | Some m, SKnown n => if m <? n then (st, Err (RInvalidSize pos id n)) else (st, Ok (id, ty, esz, header_len))
  | _, _ => (st, Ok (id, ty, esz, header_len))
  end
  end end end.

Lemma peek_header_unfold c st0 :
  peek_header c st0 =
  match ensure 16 st0 with
  | (st, Err e) => (st, Err e)
  | (st, Panic) => (st, Panic)
  | (st, Ok _) =>
    match peek_tag_id st with
    | (st, Err e) => (st, Err e)
    | (st, Panic) => (st, Panic)
    | (st, Ok (id, id_len)) => hdr_tail c st id id_len
    end
  end.
Proof. reflexivity. Qed.

Definition p_hier_step (c : cfg) (st : pst) (id : N) (ty : option dtype) : pst * option rerr :=
    if negb (c_allow_hier c) && match ty with None => false | Some _ => true end then
      let st1 :=
        if b_det st then Some st else
        let p := get_path (c_sp c) id in
        if all_ids p then
          match implied_stack (c_sp c) p with
          | Some stk => Some (pset_stack st (b_stack st ++ stk) true)
          | None => None
          end
        else Some st in
      match st1 with
      | None => (pset_bad st BPanic, None)
      | Some st1 =>
          if b_det st1 && negb (validate_tag_path (c_sp c) id (stack_view (b_stack st1)))
          then (st1, Some (RHierarchy id (match b_stack st1 with f :: _ => Some (f_id f) | [] => None end)))
          else (st1, None)
      end
    else (st, None).

Definition p_hdr_tail (c : cfg) (st : pst) (id : N) (id_len : nat) : pst * res rerr (N * option dtype * esize * nat) :=
  let ty := get_type (c_sp c) id in
  let pos := b_off st in
  match read_vint (firstn 8 (skipn id_len (b_bytes st))) with
  | Panic => (st, Panic)
  | Err _ => (st, Err (RInvalidTagData pos id))
  | Ok None => (st, Err (REof pos (Some id) None None))
  | Ok (Some (size, size_len)) =>
  if is_numeric ty && (8 <? size) then (st, Err (RInvalidTagData pos id)) else
  let esz := ebml_size size size_len in
  let header_len := (id_len + size_len)%nat in
  if negb (c_allow_id c) && match ty with None => true | Some _ => false end then (st, Err (RInvalidTagId pos id)) else
  match p_hier_step c st id ty with
  | (st, Some e) => (st, Err e)
  | (st, None) =>
  match b_bad st with Some _ => (st, Panic) | None =>
  let known_size := match esz with SKnown n => n | SUnknown => 0 end in
  if negb (c_allow_over c) && p_invalid_tag_size st (N.of_nat header_len + known_size)
  then (st, Err (ROversized pos id known_size)) else
  match c_max c, esz with
  | Some m, SKnown n => if m <? n then (st, Err (RInvalidSize pos id n)) else (st, Ok (id, ty, esz, header_len))
  | _, _ => (st, Ok (id, ty, esz, header_len))
  end
  end end end.

Lemma p_header_unfold c st :
  p_header c st = match p_tag_id st with
                  | Err e => (st, Err e)
                  | Panic => (st, Panic)
                  | Ok (id, id_len) => p_hdr_tail c st id id_len
                  end.
Proof. reflexivity. Qed.

(* states that differ from st only in the parse logic (stack, det, bad) *)
Definition io_same (a b : rst) : Prop :=
  r_win a = r_win b /\ r_wlen a = r_wlen b /\ r_rest a = r_rest b /\ r_rlen a = r_rlen b /\ r_cap a = r_cap b /\
  r_script a = r_script b /\ r_off a = r_off b /\ r_queue a = r_queue b /\ r_last a = r_last b /\ r_fuel a = r_fuel b.

Lemma io_same_refl a : io_same a a. Proof. repeat split. Qed.

Lemma io_same_good a b : io_same a b -> Good b -> Good a.
Proof. intros [H1 [H2 [H3 [H4 [H5 [H6 _]]]]]] [[Hw Hr] Hc]. unfold Good, WF. rewrite H1, H2, H3, H4, H6. auto. Qed.

Lemma hier_step_refines c st id ty :
  io_same (fst (hier_step c st id ty)) st /\
  Abs (fst (hier_step c st id ty)) = fst (p_hier_step c (Abs st) id ty) /\
  snd (hier_step c st id ty) = snd (p_hier_step c (Abs st) id ty).
Proof.
  unfold hier_step, p_hier_step. cbn [Abs b_det b_stack].
  destruct (negb (c_allow_hier c) && _); [|split; [apply io_same_refl|split; reflexivity]].
  destruct (r_det st) eqn:Ed.
  - cbn [Abs b_det b_stack]. rewrite Ed. cbn [andb].
    destruct (negb (validate_tag_path _ _ _)); (split; [apply io_same_refl|split; reflexivity]).
  - destruct (all_ids _).
    + destruct (implied_stack _ _) as [stk|].
      * cbn [set_stack pset_stack Abs b_det b_stack r_det r_stack andb].
        destruct (negb (validate_tag_path _ _ _)); (split; [repeat split|split; reflexivity]).
      * split; [repeat split|split; reflexivity].
    + cbn [Abs b_det b_stack]. rewrite Ed. cbn [andb]. split; [apply io_same_refl|split; reflexivity].
Qed.

Lemma read_vint_len buf v n : read_vint buf = Ok (Some (v, n)) -> (n <= length buf)%nat.
Proof.
  Local Transparent read_vint. unfold read_vint. destruct buf as [|b0 tl]; [discriminate|].
  destruct (b0 =? 0); [discriminate|].
  destruct (Nat.ltb_spec (length (b0 :: tl)) (vint_len b0)) as [Hs|Hl]; [discriminate|].
  destruct (b0 <? _); [discriminate|]. destruct (two64 <=? _); [discriminate|].
  intros Hq; inversion Hq; subst. assumption.
Qed.

Lemma window_header_bytes st id_len : WF st -> Av 16 st -> N.of_nat id_len <= r_wlen st -> (id_len <= 8)%nat ->
  firstn 8 (skipn id_len (r_win st)) = firstn 8 (skipn id_len (total st)).
Proof.
  intros HWF Hav Hid H8. unfold total. destruct HWF as [Hw Hr].
  rewrite skipn_app. replace (id_len - length (r_win st))%nat with O by lia. cbn [skipn].
  destruct Hav as [H16|H0].
  - rewrite firstn_app. replace (8 - length (skipn id_len (r_win st)))%nat with O by (rewrite skipn_length; lia).
    cbn. rewrite app_nil_r. reflexivity.
  - rewrite Hr in H0. destruct (r_rest st); [rewrite app_nil_r; reflexivity|cbn in H0; lia].
Qed.

Lemma hdr_tail_refines c st id id_len : WF st -> Av 16 st -> N.of_nat id_len <= r_wlen st -> (id_len <= 8)%nat ->
  io_same (fst (hdr_tail c st id id_len)) st /\
  Abs (fst (hdr_tail c st id id_len)) = fst (p_hdr_tail c (Abs st) id id_len) /\
  snd (hdr_tail c st id id_len) = snd (p_hdr_tail c (Abs st) id id_len) /\
  (forall r, snd (hdr_tail c st id id_len) = Ok r -> N.of_nat (snd r) <= r_wlen st).
Proof.
  intros HWF Hav Hid H8. unfold hdr_tail, p_hdr_tail. cbn [Abs b_bytes b_off].
  rewrite (window_header_bytes st id_len HWF Hav Hid H8).
  destruct (read_vint (firstn 8 (skipn id_len (total st)))) as [[[size size_len]|]| |] eqn:Ev;
    try (split; [apply io_same_refl|split; [reflexivity|split; [reflexivity|intros rr Hrr; discriminate]]]).
  destruct (is_numeric _ && _); [split; [apply io_same_refl|split; [reflexivity|split; [reflexivity|intros rr Hrr; discriminate]]]|].
  destruct (negb (c_allow_id c) && _); [split; [apply io_same_refl|split; [reflexivity|split; [reflexivity|intros rr Hrr; discriminate]]]|].
  destruct (hier_step_refines c st id (get_type (c_sp c) id)) as [Hio [Habs Hres]].
  destruct (hier_step c st id (get_type (c_sp c) id)) as [st1 e1]. destruct (p_hier_step c (Abs st) id (get_type (c_sp c) id)) as [pst1 pe1].
  cbn [fst snd] in *. subst pst1 pe1.
  destruct e1; [split; [exact Hio|split; [reflexivity|split; [reflexivity|intros rr Hrr; discriminate]]]|].
  cbn [Abs b_bad]. destruct (r_bad st1); [split; [exact Hio|split; [reflexivity|split; [reflexivity|intros rr Hrr; discriminate]]]|].
  assert (Hinv : forall sz, p_invalid_tag_size (Abs st1) sz = is_invalid_tag_size st1 sz) by reflexivity.
  rewrite Hinv.
  assert (Hlen : N.of_nat (id_len + size_len) <= r_wlen st).
  { apply read_vint_len in Ev. rewrite <- (window_header_bytes st id_len HWF Hav Hid H8) in Ev.
    rewrite firstn_length, skipn_length in Ev. destruct HWF as [Hw _]. lia. }
  assert (Hoff : r_off st1 = r_off st) by apply Hio.
  destruct (negb (c_allow_over c) && _); [rewrite ?Hoff; split; [exact Hio|split; [reflexivity|split; [reflexivity|intros rr Hrr; discriminate]]]|].
  destruct (c_max c) as [m|]; destruct (ebml_size size size_len) as [n|];
    try destruct (m <? n); rewrite ?Hoff;
    (split; [exact Hio|split; [reflexivity|split; [reflexivity|intros rr Hrr; first [discriminate|inversion Hrr; subst; cbn; exact Hlen]]]]).
Qed.

Lemma peek_header_refines c st : Good st ->
  Good (fst (peek_header c st)) /\
  Abs (fst (peek_header c st)) = fst (p_header c (Abs st)) /\
  snd (peek_header c st) = snd (p_header c (Abs st)) /\
  (forall r, snd (peek_header c st) = Ok r -> N.of_nat (snd r) <= r_wlen (fst (peek_header c st))) /\
  r_cap st <= r_cap (fst (peek_header c st)) /\ r_cap (fst (peek_header c st)) <= N.max (r_cap st) 16.
Proof.
  intros HG. rewrite peek_header_unfold, p_header_unfold.
  destruct (ensure_view 16 st HG) as [HG1 [HA1 [Hans [Hav1 [_ [_ [Hc1a Hc1b]]]]]]].
  destruct (ensure 16 st) as [st1 r1]. cbn [fst snd] in *. subst r1.
  destruct (peek_tag_id_refines st1 HG1) as [HG2 [HA2 [Hres [Hmono [_ [Hc2a [Hc2b Hlen]]]]]]].
  specialize (Hmono 16 Hav1).
  destruct (peek_tag_id st1) as [st2 r2]. cbn [fst snd] in *.
  rewrite <- HA1, <- Hres.
  destruct r2 as [[id id_len]|e|].
  - destruct (Hlen id id_len eq_refl) as [Hl1 Hl2].
    destruct HG2 as [W2 C2].
    destruct (hdr_tail_refines c st2 id id_len W2 Hmono Hl1 Hl2) as [Hio [Habs [Hr Hhl]]].
    pose proof (io_same_good _ _ Hio (conj W2 C2)) as HG3.
    destruct Hio as [_ [Hwl [_ [_ [Hcap _]]]]].
    rewrite <- HA2.
    split; [exact HG3|]. split; [exact Habs|]. split; [exact Hr|].
    split; [intros r Hq; rewrite Hwl; apply Hhl, Hq|]. rewrite Hcap. split; lia.
  - cbn [fst snd]. split; [exact HG2|]. split; [rewrite HA2; reflexivity|]. split; [reflexivity|].
    split; [intros r Hq; discriminate|]. split; lia.
  - cbn [fst snd]. split; [exact HG2|]. split; [rewrite HA2; reflexivity|]. split; [reflexivity|].
    split; [intros r Hq; discriminate|]. split; lia.
Qed.

(* ---- read_tag *)
Definition tag_tail (c : cfg) (st : rst) (tag_start : N) (h : N * option dtype * esize * nat) : rst * res rerr ptag :=
  let '(id, ty, esz, header_len) := h in
  let st := consume st (N.of_nat header_len) in
  let data_start := r_off st in
  let mk (st : rst) (t : tag) := (st, Ok {| p_tag := t; p_size := esz; p_start := tag_start; p_data := data_start |}) in
  match ty with
  | Some DMaster => mk st (TStart id)
  | _ =>
    match esz with
    | SUnknown => (st, Err (RInvalidTagData tag_start id))
    | SKnown size =>
      let st := set_cap st (N.max (r_cap st) size) in
      match ensure size st with
      | (st, Err e) => (st, Err e)
      | (st, Panic) => (st, Panic)
      | (st, Ok false) => (st, Err (REof tag_start (Some id) (Some size) (Some (r_win st))))
      | (st, Ok true) =>
        let (raw, _) := splitN size (r_win st) in
        let st := consume st size in
        match ty with
        | Some DUInt => match arr_to_u64 raw with Ok v => mk st (TElem id (VU v)) | Err _ => (st, Err (RTagData id KU64)) | Panic => (st, Panic) end
        | Some DSInt => match arr_to_i64 raw with Ok v => mk st (TElem id (VI v)) | Err _ => (st, Err (RTagData id KI64)) | Panic => (st, Panic) end
        | Some DUtf8 => if utf8_valid raw then mk st (TElem id (VS raw)) else (st, Err (RTagData id KUtf8))
        | Some DBinary => mk st (TElem id (VB raw))
        | Some DFloat => match arr_to_f64 raw with Ok v => mk st (TElem id (VF v)) | Err _ => (st, Err (RTagData id KF64)) | Panic => (st, Panic) end
        | Some DMaster => mk st (TStart id)
        | None => mk st (TElem id (VRaw raw))
        end
      end
    end
  end.

Lemma read_tag_unfold c st0 :
  read_tag c st0 = match peek_header c st0 with
                   | (st, Err e) => (st, Err e)
                   | (st, Panic) => (st, Panic)
                   | (st, Ok h) => tag_tail c st (r_off st0) h
                   end.
Proof. unfold read_tag, tag_tail. destruct (peek_header c st0) as [st [[[[id ty] esz] hl]|e|]]; reflexivity. Qed.

Definition p_tag_tail (c : cfg) (st : pst) (tag_start : N) (h : N * option dtype * esize * nat) : pst * res rerr ptag :=
  let '(id, ty, esz, header_len) := h in
  let st := pconsume st (N.of_nat header_len) in
  let data_start := b_off st in
  let mk (st : pst) (t : tag) := (st, Ok {| p_tag := t; p_size := esz; p_start := tag_start; p_data := data_start |}) in
  match ty with
  | Some DMaster => mk st (TStart id)
  | _ =>
    match esz with
    | SUnknown => (st, Err (RInvalidTagData tag_start id))
    | SKnown size =>
      if blen st <? size then (st, Err (REof tag_start (Some id) (Some size) (Some (b_bytes st)))) else
        let raw := fst (splitN size (b_bytes st)) in
        let st := pconsume st size in
        match ty with
        | Some DUInt => match arr_to_u64 raw with Ok v => mk st (TElem id (VU v)) | Err _ => (st, Err (RTagData id KU64)) | Panic => (st, Panic) end
        | Some DSInt => match arr_to_i64 raw with Ok v => mk st (TElem id (VI v)) | Err _ => (st, Err (RTagData id KI64)) | Panic => (st, Panic) end
        | Some DUtf8 => if utf8_valid raw then mk st (TElem id (VS raw)) else (st, Err (RTagData id KUtf8))
        | Some DBinary => mk st (TElem id (VB raw))
        | Some DFloat => match arr_to_f64 raw with Ok v => mk st (TElem id (VF v)) | Err _ => (st, Err (RTagData id KF64)) | Panic => (st, Panic) end
        | Some DMaster => mk st (TStart id)
        | None => mk st (TElem id (VRaw raw))
        end
    end
  end.

Lemma p_read_tag_unfold c st0 :
  p_read_tag c st0 = match p_header c st0 with
                     | (st, Err e) => (st, Err e)
                     | (st, Panic) => (st, Panic)
                     | (st, Ok h) => p_tag_tail c st (b_off st0) h
                     end.
Proof. unfold p_read_tag, p_tag_tail. destruct (p_header c st0) as [st [[[[id ty] esz] hl]|e|]]; reflexivity. Qed.

Lemma set_cap_good st cp : Good st -> Good (set_cap st cp) /\ Abs (set_cap st cp) = Abs st.
Proof.
  intros [HWF Hc]. destruct (set_cap_facts st cp HWF) as [W [T [L [S _]]]].
  split; [split; [exact W|rewrite S; exact Hc]|apply abs_same; assumption].
Qed.

(* the payload part: after the header has been consumed *)
Lemma payload_refines st size : Good st ->
  let stc := set_cap st (N.max (r_cap st) size) in
  let st1 := fst (ensure size stc) in
  Good st1 /\ Abs st1 = Abs st /\ snd (ensure size stc) = Ok (size <=? blen (Abs st)) /\
  (snd (ensure size stc) = Ok false -> r_win st1 = b_bytes (Abs st)) /\
  (snd (ensure size stc) = Ok true -> size <= r_wlen st1 /\ fst (splitN size (r_win st1)) = fst (splitN size (b_bytes (Abs st)))) /\
  r_cap st <= r_cap st1 /\ r_cap st1 <= N.max (r_cap st) size.
Proof.
  intros HG. cbn zeta. destruct (set_cap_good st (N.max (r_cap st) size) HG) as [HGc HAc].
  destruct (ensure_view size _ HGc) as [HG1 [HA1 [Hans [Hav [_ [_ [Hc1 Hc2]]]]]]].
  set (st1 := fst (ensure size (set_cap st (N.max (r_cap st) size)))) in *.
  rewrite HAc in *. unfold set_cap, upd_io in Hc1, Hc2. cbn [r_cap] in Hc1, Hc2.
  split; [exact HG1|]. split; [congruence|]. split; [exact Hans|].
  destruct HG1 as [W1 C1].
  assert (Hb : b_bytes (Abs st) = total st1) by (rewrite <- HA1; reflexivity).
  split; [|split; [|split; lia]].
  - intros Hf. rewrite Hans in Hf. inversion Hf as [Hq]. destruct (N.leb_spec size (blen (Abs st))); [discriminate|].
    destruct Hav as [Hle|H0].
    + exfalso. unfold blen in *. rewrite Hb in *. pose proof (total_len st1 W1). lia.
    + rewrite Hb. unfold total. rewrite (rest_nil st1 W1 H0), app_nil_r. reflexivity.
  - intros Ht. rewrite Hans in Ht. inversion Ht as [Hq]. destruct (N.leb_spec size (blen (Abs st))); [|discriminate].
    assert (Hsz : size <= r_wlen st1).
    { destruct Hav as [Hle|H0]; [exact Hle|]. unfold blen in *. rewrite Hb in *. pose proof (total_len st1 W1). lia. }
    split; [exact Hsz|]. rewrite Hb. unfold total. symmetry. apply splitN_fst_app. destruct W1 as [Hw _]. lia.
Qed.

Lemma tag_tail_refines c st ts h : Good st -> N.of_nat (snd h) <= r_wlen st ->
  Good (fst (tag_tail c st ts h)) /\ Abs (fst (tag_tail c st ts h)) = fst (p_tag_tail c (Abs st) ts h) /\
  snd (tag_tail c st ts h) = snd (p_tag_tail c (Abs st) ts h) /\
  r_cap st <= r_cap (fst (tag_tail c st ts h)) /\
  r_cap (fst (tag_tail c st ts h)) <= N.max (r_cap st) (match snd (fst h) with SKnown n => match snd (fst (fst h)) with Some DMaster => 0 | _ => n end | SUnknown => 0 end).
Proof.
  intros HG Hhl. destruct h as [[[id ty] esz] hl]. cbn [snd fst] in *. unfold tag_tail, p_tag_tail.
  destruct (consume_refines st (N.of_nat hl) HG Hhl) as [HGc [HAc [_ [_ [Hcapc _]]]]].
  set (stc := consume st (N.of_nat hl)) in *. rewrite <- HAc.
  assert (Hoff : b_off (Abs stc) = r_off stc) by reflexivity. rewrite Hoff.
  assert (Master : forall t, Good (fst (stc, @Ok rerr ptag t)) /\ Abs (fst (stc, @Ok rerr ptag t)) = fst (Abs stc, @Ok rerr ptag t) /\
                             snd (stc, @Ok rerr ptag t) = snd (Abs stc, @Ok rerr ptag t) /\ r_cap st <= r_cap stc /\ r_cap stc <= N.max (r_cap st) 0).
  { intros t. cbn [fst snd]. split; [exact HGc|]. split; [reflexivity|]. split; [reflexivity|]. lia. }
  destruct esz as [size|].
  2:{ destruct ty as [[]|]; try apply Master; cbn [fst snd]; (split; [exact HGc|]; split; [reflexivity|]; split; [reflexivity|]; lia). }
  destruct (payload_refines stc size HGc) as [HG1 [HA1 [Hans [Hfalse [Htrue [Hc1 Hc2]]]]]]. cbn zeta in *.
  destruct (ensure size (set_cap stc (N.max (r_cap stc) size))) as [st1 r1]. cbn [fst snd] in *. subst r1.
  assert (Hcmp : (blen (Abs stc) <? size) = negb (size <=? blen (Abs stc))).
  { destruct (N.ltb_spec (blen (Abs stc)) size), (N.leb_spec size (blen (Abs stc))); try reflexivity; lia. }
  rewrite Hcmp.
  destruct (size <=? blen (Abs stc)) eqn:Ecmp; cbn [negb].
  - destruct (Htrue eq_refl) as [Hsz Hraw].
    destruct (consume_refines st1 size HG1 Hsz) as [HG2 [HA2 [_ [_ [Hcap2 _]]]]].
    rewrite HA1 in HA2.
    destruct (splitN size (r_win st1)) as [raw rest'] eqn:Es. cbn [fst] in Hraw. rewrite <- Hraw.
    set (st2 := consume st1 size) in *. rewrite <- HA2.
    assert (Fin : forall (r : res rerr ptag), Good (fst (st2, r)) /\ Abs (fst (st2, r)) = fst (Abs st2, r) /\ snd (st2, r) = snd (Abs st2, r) /\
                    r_cap st <= r_cap st2 /\ r_cap st2 <= N.max (r_cap st) size).
    { intros r. cbn [fst snd]. split; [exact HG2|]. split; [reflexivity|]. split; [reflexivity|]. lia. }
    destruct ty as [[]|]; try (eapply (fun H => proj1 (conj H I)); first [apply Master|apply Fin]).
    all: try (destruct (arr_to_u64 raw); apply Fin).
    all: try (destruct (arr_to_i64 raw); apply Fin).
    all: try (destruct (arr_to_f64 raw); apply Fin).
    all: try (destruct (utf8_valid raw); apply Fin).
    all: try (destruct (Master (TStart id)) as [M1 [M2 [M3 [M4 M5]]]]; repeat split; try assumption; lia).
  - rewrite (Hfalse eq_refl).
    destruct ty as [[]|]; try apply Master; cbn [fst snd]; (split; [exact HG1|]; split; [exact HA1|]; split; [reflexivity|]; lia).
Qed.

Lemma read_tag_refines c st : Good st ->
  Good (fst (read_tag c st)) /\ Abs (fst (read_tag c st)) = fst (p_read_tag c (Abs st)) /\
  snd (read_tag c st) = snd (p_read_tag c (Abs st)).
Proof.
  intros HG. rewrite read_tag_unfold, p_read_tag_unfold.
  destruct (peek_header_refines c st HG) as [HG1 [HA1 [Hr [Hhl _]]]].
  destruct (peek_header c st) as [st1 r1]. destruct (p_header c (Abs st)) as [pst1 pr1]. cbn [fst snd] in *. subst pst1 pr1.
  destruct r1 as [h|e|]; [|split; [exact HG1|split; reflexivity]|split; [exact HG1|split; reflexivity]].
  destruct (tag_tail_refines c st1 (r_off st) h HG1 (Hhl h eq_refl)) as [H1 [H2 [H3 _]]].
  split; [exact H1|]. split; [exact H2|exact H3].
Qed.

(* ---- the buffering fields *)
Definition buf_same (a b : rst) : Prop :=
  r_win a = r_win b /\ r_wlen a = r_wlen b /\ r_rest a = r_rest b /\ r_rlen a = r_rlen b /\ r_script a = r_script b.

Lemma buf_same_good a b : buf_same a b -> Good b -> Good a.
Proof. intros [H1 [H2 [H3 [H4 H5]]]] [[Hw Hr] Hc]. unfold Good, WF. rewrite H1, H2, H3, H4, H5. auto. Qed.

Lemma good_set_stack st stk det : Good st -> Good (set_stack st stk det).
Proof. apply buf_same_good. repeat split. Qed.
Lemma good_set_queue st q : Good st -> Good (set_queue st q).
Proof. apply buf_same_good. repeat split. Qed.
Lemma good_set_last st l : Good st -> Good (set_last st l).
Proof. apply buf_same_good. repeat split. Qed.
Lemma good_set_bad st b : Good st -> Good (set_bad st b).
Proof. apply buf_same_good. repeat split. Qed.
Lemma good_push_q st items : Good st -> Good (push_q st items).
Proof. apply good_set_queue. Qed.
Lemma good_pop_frames st k : Good st -> Good (pop_frames st k).
Proof. intros H. unfold pop_frames. apply good_push_q, good_set_stack, H. Qed.

Lemma abs_pop_frames st k : Abs (pop_frames st k) = ppop_frames (Abs st) k.
Proof. reflexivity. Qed.
Lemma abs_push_q st items : Abs (push_q st items) = ppush_q (Abs st) items.
Proof. reflexivity. Qed.
Lemma abs_set_bad st b : Abs (set_bad st b) = pset_bad (Abs st) b.
Proof. reflexivity. Qed.
Lemma abs_set_stack st stk det : Abs (set_stack st stk det) = pset_stack (Abs st) stk det.
Proof. reflexivity. Qed.
Lemma abs_set_queue st q : Abs (set_queue st q) = pset_queue (Abs st) q.
Proof. reflexivity. Qed.

Lemma read_tag_checked_refines c st : Good st ->
  Good (fst (read_tag_checked c st)) /\ Abs (fst (read_tag_checked c st)) = fst (p_read_tag_checked c (Abs st)) /\
  snd (read_tag_checked c st) = snd (p_read_tag_checked c (Abs st)).
Proof.
  intros HG. unfold read_tag_checked, p_read_tag_checked. cbn [Abs b_bytes].
  destruct (N.eqb_spec (r_wlen st) 0) as [Hz|Hnz].
  - destruct (ensure_view 1 st HG) as [HG1 [HA1 [Hans [Hav _]]]].
    destruct (ensure 1 st) as [st1 r1]. cbn [fst snd] in *. subst r1.
    unfold blen in *. cbn [Abs b_bytes] in *.
    destruct (total st) as [|b tl] eqn:Et.
    + cbn [length]. replace (1 <=? N.of_nat 0) with false by reflexivity. cbn [fst snd].
      split; [exact HG1|]. split; [rewrite HA1; unfold Abs; rewrite Et; reflexivity|reflexivity].
    + cbn [length]. replace (1 <=? N.of_nat (S (length tl))) with true by (symmetry; apply N.leb_le; lia).
      destruct (read_tag_refines c st1 HG1) as [H1 [H2 H3]].
      destruct (read_tag c st1) as [st2 r2]. cbn [fst snd] in *.
      assert (HA : Abs st1 = Abs st) by exact HA1. rewrite HA in H2, H3.
      assert (Hb : b_bytes (Abs st) = b :: tl) by (cbn; exact Et).
      destruct (p_read_tag c (Abs st)) as [pst2 pr2]. cbn [fst snd] in *.
      split; [exact H1|]. split; [exact H2|rewrite H3; reflexivity].
  - destruct (total st) as [|b tl] eqn:Et.
    + exfalso. destruct HG as [[Hw _] _]. unfold total in Et. destruct (r_win st); [cbn in Hw; lia|discriminate].
    + destruct (read_tag_refines c st HG) as [H1 [H2 H3]].
      destruct (read_tag c st) as [st2 r2]. destruct (p_read_tag c (Abs st)) as [pst2 pr2]. cbn [fst snd] in *.
      split; [exact H1|]. split; [exact H2|rewrite H3; reflexivity].
Qed.

(* ---- read_next / buffer_master *)
Definition bm_finish (tid tag_start : N) (pre : nat) (st : rst) (position : nat) : rst :=
      let kept := firstn pre (r_queue st) in
      let children := skipn pre (r_queue st) in
      let split_to := (position - pre)%nat in
      match nth_error children split_to with
      | None => set_bad st BPanic
      | Some (QOk _ _) =>
          let full := roll_up_children tid (qtags (firstn split_to children)) in
          set_queue st (kept ++ [QOk full tag_start] ++ skipn (S split_to) children)
      | Some (QErr e) => set_queue st (kept ++ [QErr e])
      end.

Definition p_bm_finish (tid tag_start : N) (pre : nat) (st : pst) (position : nat) : pst :=
      let kept := firstn pre (b_queue st) in
      let children := skipn pre (b_queue st) in
      let split_to := (position - pre)%nat in
      match nth_error children split_to with
      | None => pset_bad st BPanic
      | Some (QOk _ _) =>
          let full := roll_up_children tid (qtags (firstn split_to children)) in
          pset_queue st (kept ++ [QOk full tag_start] ++ skipn (S split_to) children)
      | Some (QErr e) => pset_queue st (kept ++ [QErr e])
      end.

Lemma bm_finish_refines tid ts pre st pos : Good st ->
  Good (bm_finish tid ts pre st pos) /\ Abs (bm_finish tid ts pre st pos) = p_bm_finish tid ts pre (Abs st) pos.
Proof.
  intros HG. unfold bm_finish, p_bm_finish. cbn [Abs b_queue].
  destruct (nth_error (skipn pre (r_queue st)) (pos - pre)) as [[t o|e]|].
  - split; [apply good_set_queue, HG|reflexivity].
  - split; [apply good_set_queue, HG|reflexivity].
  - split; [apply good_set_bad, HG|reflexivity].
Qed.

Lemma buffer_master_unfold f c tid ts pre position st :
  buffer_master (S f) c tid ts pre position st =
    if (length (r_queue st) <=? position)%nat then
      let st1 := read_next f c st in
      match r_bad st1 with Some _ => st1 | None =>
      if (length (r_queue st1) <=? position)%nat then
        push_q st1 [QErr (REof ts (Some tid) None None)]
      else
        let (p, found) := scan_queue tid (skipn position (r_queue st1)) position in
        if found then bm_finish tid ts pre st1 p else buffer_master f c tid ts pre p st1
      end
    else
      let (p, found) := scan_queue tid (skipn position (r_queue st)) position in
      if found then bm_finish tid ts pre st p else buffer_master f c tid ts pre p st.
Proof. reflexivity. Qed.

Lemma p_buffer_master_unfold f c tid ts pre position st :
  p_buffer_master (S f) c tid ts pre position st =
    if (length (b_queue st) <=? position)%nat then
      let st1 := p_read_next f c st in
      match b_bad st1 with Some _ => st1 | None =>
      if (length (b_queue st1) <=? position)%nat then
        ppush_q st1 [QErr (REof ts (Some tid) None None)]
      else
        let (p, found) := scan_queue tid (skipn position (b_queue st1)) position in
        if found then p_bm_finish tid ts pre st1 p else p_buffer_master f c tid ts pre p st1
      end
    else
      let (p, found) := scan_queue tid (skipn position (b_queue st)) position in
      if found then p_bm_finish tid ts pre st p else p_buffer_master f c tid ts pre p st.
Proof. reflexivity. Qed.

Lemma read_next_unfold f c st :
  read_next (S f) c st =
    let st := pop_frames st (exhausted_count (r_off st) (r_stack st)) in
    match read_tag_checked c st with
    | (st, Some (Ok p)) =>
        let tid := tag_id (p_tag p) in
        let st := pop_frames st (count_ended (c_sp c) tid (stack_view (r_stack st))) in
        match p_tag p with
        | TStart _ =>
            let st := set_stack st ({| f_id := tid; f_size := p_size p; f_start := p_start p; f_data := p_data p |} :: r_stack st) (r_det st) in
            if mem_id tid (c_buffered c) then buffer_master f c tid (p_start p) (length (r_queue st)) (length (r_queue st)) st
            else push_q st [QOk (p_tag p) (p_start p)]
        | _ => push_q st [QOk (p_tag p) (p_start p)]
        end
    | (st, Some (Err e)) => push_q st [QErr e]
    | (st, Some Panic) => set_bad st BPanic
    | (st, None) => if c_emit_eof c then pop_frames st (length (r_stack st)) else st
    end.
Proof. reflexivity. Qed.

Lemma p_read_next_unfold f c st :
  p_read_next (S f) c st =
    let st := ppop_frames st (exhausted_count (b_off st) (b_stack st)) in
    match p_read_tag_checked c st with
    | (st, Some (Ok p)) =>
        let tid := tag_id (p_tag p) in
        let st := ppop_frames st (count_ended (c_sp c) tid (stack_view (b_stack st))) in
        match p_tag p with
        | TStart _ =>
            let st := pset_stack st ({| f_id := tid; f_size := p_size p; f_start := p_start p; f_data := p_data p |} :: b_stack st) (b_det st) in
            if mem_id tid (c_buffered c) then p_buffer_master f c tid (p_start p) (length (b_queue st)) (length (b_queue st)) st
            else ppush_q st [QOk (p_tag p) (p_start p)]
        | _ => ppush_q st [QOk (p_tag p) (p_start p)]
        end
    | (st, Some (Err e)) => ppush_q st [QErr e]
    | (st, Some Panic) => pset_bad st BPanic
    | (st, None) => if c_emit_eof c then ppop_frames st (length (b_stack st)) else st
    end.
Proof. reflexivity. Qed.

Lemma rn_bm_refines c : forall fuel,
  (forall st, Good st -> Good (read_next fuel c st) /\ Abs (read_next fuel c st) = p_read_next fuel c (Abs st)) /\
  (forall tid ts pre pos st, Good st ->
     Good (buffer_master fuel c tid ts pre pos st) /\ Abs (buffer_master fuel c tid ts pre pos st) = p_buffer_master fuel c tid ts pre pos (Abs st)).
Proof.
  induction fuel as [|f [IH1 IH2]].
  - split; intros; (split; [apply good_set_bad; assumption|reflexivity]).
  - split.
    + intros st HG. rewrite read_next_unfold, p_read_next_unfold. cbn zeta.
      set (st1 := pop_frames st (exhausted_count (r_off st) (r_stack st))).
      assert (HG1 : Good st1) by (apply good_pop_frames, HG).
      change (ppop_frames (Abs st) (exhausted_count (b_off (Abs st)) (b_stack (Abs st)))) with (Abs st1).
      destruct (read_tag_checked_refines c st1 HG1) as [HG2 [HA2 Hr2]].
      destruct (read_tag_checked c st1) as [st2 r2]. destruct (p_read_tag_checked c (Abs st1)) as [pst2 pr2].
      cbn [fst snd] in *. subst pst2 pr2.
      destruct r2 as [[p|e|]|].
      * set (st3 := pop_frames st2 (count_ended (c_sp c) (tag_id (p_tag p)) (stack_view (r_stack st2)))).
        assert (HG3 : Good st3) by (apply good_pop_frames, HG2).
        change (ppop_frames (Abs st2) (count_ended (c_sp c) (tag_id (p_tag p)) (stack_view (b_stack (Abs st2))))) with (Abs st3).
        destruct (p_tag p); try (split; [apply good_push_q, HG3|reflexivity]).
        set (st4 := set_stack st3 _ _).
        assert (HG4 : Good st4) by (apply good_set_stack, HG3).
        destruct (mem_id _ _); [|split; [apply good_push_q, HG4|reflexivity]].
        apply (IH2 _ _ _ _ st4 HG4).
      * split; [apply good_push_q, HG2|reflexivity].
      * split; [apply good_set_bad, HG2|reflexivity].
      * destruct (c_emit_eof c); [split; [apply good_pop_frames, HG2|reflexivity]|split; [exact HG2|reflexivity]].
    + intros tid ts pre pos st HG. rewrite buffer_master_unfold, p_buffer_master_unfold. cbn zeta. cbn [Abs b_queue].
      destruct (length (r_queue st) <=? pos)%nat.
      * destruct (IH1 st HG) as [HG1 HA1]. rewrite <- HA1. cbn [Abs b_bad b_queue].
        destruct (r_bad (read_next f c st)); [split; [exact HG1|reflexivity]|].
        destruct (length (r_queue (read_next f c st)) <=? pos)%nat; [split; [apply good_push_q, HG1|reflexivity]|].
        destruct (scan_queue tid _ pos) as [p found]. destruct found.
        -- apply bm_finish_refines, HG1.
        -- apply IH2, HG1.
      * destruct (scan_queue tid _ pos) as [p found]. destruct found.
        -- apply bm_finish_refines, HG.
        -- apply IH2, HG.
Qed.

(* ---- next / try_recover *)
Lemma next_refines c st : Good st ->
  Good (fst (next c st)) /\ Abs (fst (next c st)) = fst (p_next c (Abs st)) /\ snd (next c st) = snd (p_next c (Abs st)).
Proof.
  intros HG. unfold next, p_next. cbn [Abs b_queue b_fuel].
  assert (H : Good (match r_queue st with [] => read_next (r_fuel st) c st | _ :: _ => st end) /\
              Abs (match r_queue st with [] => read_next (r_fuel st) c st | _ :: _ => st end) =
              match r_queue st with [] => p_read_next (r_fuel st) c (Abs st) | _ :: _ => Abs st end).
  { destruct (r_queue st); [apply rn_bm_refines, HG|split; [exact HG|reflexivity]]. }
  destruct H as [HG1 HA1]. rewrite <- HA1.
  set (st1 := match r_queue st with [] => read_next (r_fuel st) c st | _ :: _ => st end) in *.
  cbn [Abs b_queue]. destruct (r_queue st1) as [|[t o|e] q].
  - split; [exact HG1|split; reflexivity].
  - split; [apply good_set_last, good_set_queue, HG1|split; reflexivity].
  - split; [apply good_set_queue, HG1|split; reflexivity].
Qed.

(* the abstract header check never reports a source error (it has no source) *)
Lemma p_header_no_io c st st' code : p_header c st = (st', Err (RIo code)) -> False.
Proof.
  rewrite p_header_unfold. unfold p_tag_id.
  destruct (b_bytes st) as [|b0 tl] eqn:Eb; [intros H; inversion H|].
  assert (Hx : forall id idl, p_hdr_tail c st id idl = (st', Err (RIo code)) -> False).
  { intros id idl. unfold p_hdr_tail. destruct (read_vint _) as [[[size sl]|]|e1|]; try (intros H; inversion H; fail).
    destruct (is_numeric _ && _); [intros H; inversion H|]. destruct (negb (c_allow_id c) && _); [intros H; inversion H|].
    destruct (p_hier_step c st id (get_type (c_sp c) id)) as [st1 [e1|]] eqn:Eh.
    - intros H. inversion H; subst. unfold p_hier_step in Eh. destruct (negb (c_allow_hier c) && _); [|inversion Eh].
      destruct (b_det st).
      + destruct (_ && _); inversion Eh.
      + destruct (all_ids _); [destruct (implied_stack _ _); [destruct (_ && _)|]|destruct (_ && _)]; inversion Eh.
    - destruct (b_bad st1); [intros H; inversion H|]. destruct (negb (c_allow_over c) && _); [intros H; inversion H|].
      destruct (c_max c); destruct (ebml_size size sl); try destruct (_ <? _); intros H; inversion H. }
  destruct (b0 =? 0); [apply Hx|]. destruct (_ <? _); [intros H; inversion H|apply Hx].
Qed.

Lemma recover_loop_refines c : forall fuel st, Good st ->
  Good (fst (recover_loop fuel c st)) /\ Abs (fst (recover_loop fuel c st)) = fst (p_recover_loop fuel c (Abs st)) /\
  snd (recover_loop fuel c st) = snd (p_recover_loop fuel c (Abs st)).
Proof.
  induction fuel as [|f IH]; intros st HG; cbn [recover_loop p_recover_loop].
  - split; [apply good_set_bad, HG|split; reflexivity].
  - destruct (ensure_view 1 st HG) as [HG1 [HA1 [Hans [Hav _]]]].
    destruct (ensure 1 st) as [st1 r1]. cbn [fst snd] in *. subst r1. unfold blen. cbn [Abs b_bytes].
    destruct (total st) as [|b tl] eqn:Et.
    + cbn [length]. replace (1 <=? N.of_nat 0) with false by reflexivity. cbn [fst snd]. unfold eof_err.
      split; [exact HG1|]. split; [exact HA1|].
      assert (Ho : r_off st1 = r_off st) by (change (b_off (Abs st1) = b_off (Abs st)); rewrite HA1; reflexivity).
      rewrite Ho. reflexivity.
    + cbn [length]. replace (1 <=? N.of_nat (S (length tl))) with true by (symmetry; apply N.leb_le; lia).
      assert (Hw1 : 1 <= r_wlen st1).
      { destruct Hav as [H|H]; [exact H|]. destruct HG1 as [W1 _]. pose proof (total_len st1 W1) as Htl.
        assert (Ht1 : total st1 = b :: tl) by (change (b_bytes (Abs st1) = b :: tl); rewrite HA1; exact Et).
        rewrite Ht1 in Htl. cbn [length] in Htl. lia. }
      destruct (consume_refines st1 1 HG1 Hw1) as [HG2 [HA2 _]]. rewrite HA1 in HA2.
      set (st2 := consume st1 1) in *.
      destruct (peek_header_refines c st2 HG2) as [HG3 [HA3 [Hr3 _]]].
      rewrite HA2 in HA3, Hr3.
      destruct (peek_header c st2) as [st3 r3].
      destruct (p_header c (pconsume (Abs st) 1)) as [pst3 pr3] eqn:Eph. cbn [fst snd] in *. subst pst3 pr3.
      destruct r3 as [h|e|].
      * split; [exact HG3|split; reflexivity].
      * destruct e; try (apply IH, HG3). exfalso. eapply p_header_no_io, Eph.
      * split; [apply good_set_bad, HG3|split; reflexivity].
Qed.

Lemma try_recover_refines c st : Good st ->
  Good (fst (try_recover c st)) /\ Abs (fst (try_recover c st)) = fst (p_try_recover c (Abs st)) /\
  snd (try_recover c st) = snd (p_try_recover c (Abs st)).
Proof.
  intros HG. unfold try_recover, p_try_recover. cbn [Abs b_fuel b_off].
  destruct (recover_loop_refines c (r_fuel st) st HG) as [HG1 [HA1 Hr1]].
  destruct (recover_loop (r_fuel st) c st) as [st1 r1]. destruct (p_recover_loop (r_fuel st) c (Abs st)) as [pst1 pr1].
  cbn [fst snd] in *. subst pst1 pr1.
  destruct r1; [split; [exact HG1|split; reflexivity]|].
  split; [apply good_set_stack, HG1|split; reflexivity].
Qed.

(* ---- whole runs *)
Lemma run_all_refines c : forall limit st, Good st ->
  Good (fst (run_all limit c st)) /\ Abs (fst (run_all limit c st)) = fst (p_run_all limit c (Abs st)) /\
  snd (run_all limit c st) = snd (p_run_all limit c (Abs st)).
Proof.
  induction limit as [|l IH]; intros st HG; cbn [run_all p_run_all].
  - split; [exact HG|split; reflexivity].
  - destruct (next_refines c st HG) as [HG1 [HA1 Hr1]].
    destruct (next c st) as [st1 r1]. destruct (p_next c (Abs st)) as [pst1 pr1]. cbn [fst snd] in *. subst pst1 pr1.
    cbn [Abs b_bad]. destruct (r_bad st1); [split; [exact HG1|split; reflexivity]|].
    destruct r1 as [t o|e|]; try (split; [exact HG1|split; reflexivity]).
    destruct (IH st1 HG1) as [HG2 [HA2 Hr2]].
    destruct (run_all l c st1) as [st2 outs]. destruct (p_run_all l c (Abs st1)) as [pst2 pouts]. cbn [fst snd] in *. subst pst2 pouts.
    split; [exact HG2|split; reflexivity].
Qed.

Lemma run_ops_refines c limit : forall ops st, Good st ->
  Good (fst (run_ops c limit st ops)) /\ Abs (fst (run_ops c limit st ops)) = fst (p_run_ops c limit (Abs st) ops) /\
  snd (run_ops c limit st ops) = snd (p_run_ops c limit (Abs st) ops).
Proof.
  induction ops as [|op ops IH]; intros st HG; cbn [run_ops p_run_ops].
  - split; [exact HG|split; reflexivity].
  - destruct op.
    + destruct (next_refines c st HG) as [HG1 [HA1 Hr1]].
      destruct (next c st) as [st1 r1]. destruct (p_next c (Abs st)) as [pst1 pr1]. cbn [fst snd] in *. subst pst1 pr1.
      cbn [Abs b_bad]. destruct (r_bad st1); [split; [exact HG1|split; reflexivity]|].
      destruct (IH st1 HG1) as [HG2 [HA2 Hr2]].
      destruct (run_ops c limit st1 ops) as [st2 outs]. destruct (p_run_ops c limit (Abs st1) ops) as [pst2 pouts]. cbn [fst snd] in *. subst pst2 pouts.
      split; [exact HG2|split; reflexivity].
    + destruct (try_recover_refines c st HG) as [HG1 [HA1 Hr1]].
      destruct (try_recover c st) as [st1 r1]. destruct (p_try_recover c (Abs st)) as [pst1 pr1]. cbn [fst snd] in *. subst pst1 pr1.
      cbn [Abs b_bad]. destruct (r_bad st1); [split; [exact HG1|split; reflexivity]|].
      destruct (IH st1 HG1) as [HG2 [HA2 Hr2]].
      destruct (run_ops c limit st1 ops) as [st2 outs]. destruct (p_run_ops c limit (Abs st1) ops) as [pst2 pouts]. cbn [fst snd] in *. subst pst2 pouts.
      split; [exact HG2|split; reflexivity].
    + destruct (run_all_refines c limit st HG) as [HG1 [HA1 Hr1]].
      destruct (run_all limit c st) as [st1 outs1]. destruct (p_run_all limit c (Abs st)) as [pst1 pouts1]. cbn [fst snd] in *. subst pst1 pouts1.
      cbn [Abs b_bad]. destruct (r_bad st1); [split; [exact HG1|split; reflexivity]|].
      destruct (IH st1 HG1) as [HG2 [HA2 Hr2]].
      destruct (run_ops c limit st1 ops) as [st2 outs]. destruct (p_run_ops c limit (Abs st1) ops) as [pst2 pouts]. cbn [fst snd] in *. subst pst2 pouts.
      split; [exact HG2|split; reflexivity].
Qed.

(* C04: for every configuration, input, initial capacity and read script that never pauses or fails, the buffered reader
   yields exactly the run of the abstract reader on the input — hence the same items, offsets and errors as any other such
   capacity and script *)
Theorem buffered_refines_pure c cap0 script input ops : calm script ->
  run_reader c cap0 script input ops = p_run c input ops.
Proof.
  intros Hc. unfold run_reader, run_reader_st, p_run.
  assert (HG : Good (r_init cap0 script input)) by (split; [split; reflexivity|exact Hc]).
  destruct (run_ops_refines c (4 * length input + 64) ops _ HG) as [_ [_ Hr]].
  rewrite Hr. reflexivity.
Qed.

Corollary chunking_capacity_independent c cap1 cap2 s1 s2 input ops : calm s1 -> calm s2 ->
  run_reader c cap1 s1 input ops = run_reader c cap2 s2 input ops.
Proof. intros H1 H2. rewrite !buffered_refines_pure by assumption. reflexivity. Qed.
