(* C09, arbitrary mixes: at every master of the document independently choose whether it is written as one Full item (then
   everything inside it is part of that item: default options, known sizes) or as Start, children (each again presented by
   its own choice), End.  Every such presentation gives the structural encoding [enc_forest], hence all of them give the
   same bytes. *)
From Ebml Require Import Base Tools Spec Writer Reader Pure Encode.
From Ebml Require Import Proofs.Tactics Proofs.BytesProofs Proofs.VintProofs Proofs.DecodersProofs Proofs.SpecProofs Proofs.WriterProofs Proofs.PureProofs Proofs.RollUp Proofs.RoundTrip Proofs.WriteEnc Proofs.WriteFull.
Import ListNotations.
Local Open Scope N_scope.

(* a presentation of a tree: for a master, either one Full item, or separate calls with a presentation for every child
   (children without a presentation of their own are given as Full; elements ignore their presentation) *)
Inductive pres : Type := PFull | PSep (children : list pres).

Definition phd (ps : list pres) : pres := match ps with [] => PFull | p :: _ => p end.

(* the write calls for tree [t] under presentation [p] *)
Fixpoint pops (d : bool) (t : rtree) (p : pres) {struct t} : list wop :=
  match t with
  | RLeaf id v _ sl => [OpWrite (TElem id v) (wopt d sl)]
  | RNode id sz cs =>
      match p with
      | PFull => [OpWrite (full_tag t) (node_opt d sz)]
      | PSep ps =>
          OpWrite (TStart id) (node_opt d sz) ::
          (fix go (l : list rtree) (ps : list pres) {struct l} : list wop :=
             match l with [] => [] | c :: l' => pops d c (phd ps) ++ go l' (tl ps) end) cs ps ++
          [OpWrite (TEnd id) o_default]
      end
  end.
Fixpoint pops_forest (d : bool) (l : list rtree) (ps : list pres) {struct l} : list wop :=
  match l with [] => [] | c :: l' => pops d c (phd ps) ++ pops_forest d l' (tl ps) end.

Lemma pops_leaf d id v pl sl p : pops d (RLeaf id v pl sl) p = wops_tree d (RLeaf id v pl sl).
Proof. reflexivity. Qed.

Lemma pops_full d id sz cs : pops d (RNode id sz cs) PFull = [OpWrite (full_tag (RNode id sz cs)) (top_opt d (RNode id sz cs))].
Proof. reflexivity. Qed.

Lemma pops_sep d id sz cs ps :
  pops d (RNode id sz cs) (PSep ps) = OpWrite (TStart id) (node_opt d sz) :: pops_forest d cs ps ++ [OpWrite (TEnd id) o_default].
Proof.
  cbn [pops].
  assert (H : forall l qs, (fix go (l : list rtree) (ps : list pres) {struct l} : list wop :=
                 match l with [] => [] | c :: l' => pops d c (phd ps) ++ go l' (tl ps) end) l qs = pops_forest d l qs).
  { induction l as [|x l IH]; intros qs; [reflexivity|]. cbn [pops_forest]. rewrite <- IH. reflexivity. }
  rewrite H. reflexivity.
Qed.

(* ---- conformance of a tree under a presentation: a separately written master has its own options (explicit width / default
   by [d], or unknown size) and so have its children; a master given as Full has its own header like that, and everything
   inside it is written with default options and known sizes *)
Fixpoint pconf (sp : spec) (d : bool) (ids : list N) (t : rtree) (p : pres) {struct t} : Prop :=
  match t with
  | RLeaf _ _ _ _ => wconf sp d ids t
  | RNode id sz cs =>
      match p with
      | PFull => fconf sp d ids t
      | PSep ps =>
          get_path sp id = map PId ids /\ get_type sp id = Some DMaster /\ (forall sl, sz = Some sl -> field_ok d sl (flen cs)) /\
          (fix all (l : list rtree) (ps : list pres) {struct l} : Prop :=
             match l with [] => True | x :: l' => pconf sp d (ids ++ [id]) x (phd ps) /\ all l' (tl ps) end) cs ps
      end
  end.
Fixpoint pconf_forest (sp : spec) (d : bool) (ids : list N) (l : list rtree) (ps : list pres) {struct l} : Prop :=
  match l with [] => True | x :: l' => pconf sp d ids x (phd ps) /\ pconf_forest sp d ids l' (tl ps) end.

Lemma pconf_leaf sp d ids id v pl sl p : pconf sp d ids (RLeaf id v pl sl) p = wconf sp d ids (RLeaf id v pl sl).
Proof. reflexivity. Qed.

Lemma pconf_full sp d ids id sz cs : pconf sp d ids (RNode id sz cs) PFull = fconf sp d ids (RNode id sz cs).
Proof. reflexivity. Qed.

Lemma pconf_sep sp d ids id sz cs ps : pconf sp d ids (RNode id sz cs) (PSep ps) <->
  get_path sp id = map PId ids /\ get_type sp id = Some DMaster /\ (forall sl, sz = Some sl -> field_ok d sl (flen cs)) /\
  pconf_forest sp d (ids ++ [id]) cs ps.
Proof.
  cbn [pconf].
  assert (H : forall l qs, (fix all (l : list rtree) (ps : list pres) {struct l} : Prop :=
                 match l with [] => True | x :: l' => pconf sp d (ids ++ [id]) x (phd ps) /\ all l' (tl ps) end) l qs
              = pconf_forest sp d (ids ++ [id]) l qs).
  { induction l as [|x l IH]; intros qs; [reflexivity|]. cbn [pconf_forest]. rewrite <- IH. reflexivity. }
  rewrite H. tauto.
Qed.

(* ---- the two extreme presentations *)
Fixpoint all_sep (t : rtree) : pres :=
  match t with
  | RLeaf _ _ _ _ => PFull
  | RNode _ _ cs => PSep ((fix go (l : list rtree) : list pres := match l with [] => [] | c :: l' => all_sep c :: go l' end) cs)
  end.
Lemma all_sep_node id sz cs : all_sep (RNode id sz cs) = PSep (map all_sep cs).
Proof.
  cbn [all_sep].
  assert (H : (fix go (l : list rtree) : list pres := match l with [] => [] | c :: l' => all_sep c :: go l' end) cs = map all_sep cs).
  { induction cs as [|x l IH]; [reflexivity|]. cbn [map]. rewrite <- IH. reflexivity. }
  rewrite H. reflexivity.
Qed.

Lemma pops_all_sep d : forall t, pops d t (all_sep t) = wops_tree d t.
Proof.
  induction t as [id v pl sl|id sz cs IH] using rtree_ind'; [reflexivity|].
  rewrite all_sep_node, pops_sep, wops_tree_node. f_equal. f_equal.
  induction cs as [|x l IHl]; [reflexivity|]. apply Forall_cons_iff in IH. destruct IH as [Hx Hl].
  cbn [map pops_forest wops_forest phd tl]. rewrite Hx, (IHl Hl). reflexivity.
Qed.

Lemma pops_forest_all_sep d : forall l, pops_forest d l (map all_sep l) = wops_forest d l.
Proof. induction l as [|x l IH]; [reflexivity|]. cbn [map pops_forest wops_forest phd tl]. rewrite pops_all_sep, IH. reflexivity. Qed.

Lemma pconf_all_sep sp d : forall t ids, pconf sp d ids t (all_sep t) <-> wconf sp d ids t.
Proof.
  induction t as [id v pl sl|id sz cs IH] using rtree_ind'; intros ids; [reflexivity|].
  rewrite all_sep_node, pconf_sep, wconf_node.
  assert (H : pconf_forest sp d (ids ++ [id]) cs (map all_sep cs) <-> Forall (wconf sp d (ids ++ [id])) cs).
  { induction cs as [|x l IHl]; [split; [constructor|intros _; exact I]|]. apply Forall_cons_iff in IH. destruct IH as [Hx Hl].
    cbn [map pconf_forest phd tl]. rewrite Forall_cons_iff, (Hx (ids ++ [id])), (IHl Hl). reflexivity. }
  rewrite H. reflexivity.
Qed.

Lemma pconf_forest_all_sep sp d ids : forall l, pconf_forest sp d ids l (map all_sep l) <-> Forall (wconf sp d ids) l.
Proof.
  induction l as [|x l IH]; [split; [constructor|intros _; exact I]|].
  cbn [map pconf_forest phd tl]. rewrite Forall_cons_iff, pconf_all_sep, IH. reflexivity.
Qed.

Lemma pops_forest_nil d : forall l, pops_forest d l [] = fops d l.
Proof.
  induction l as [|x l IH]; [reflexivity|]. cbn [pops_forest phd tl fops map]. fold (fops d l). rewrite IH.
  destruct x as [id v pl sl|id sz cs]; reflexivity.
Qed.

Lemma pconf_forest_nil sp d ids : forall l, pconf_forest sp d ids l [] <-> Forall (fconf sp d ids) l.
Proof.
  induction l as [|x l IH]; [split; [constructor|intros _; exact I]|].
  cbn [pconf_forest phd tl]. rewrite Forall_cons_iff, IH. destruct x as [id v pl sl|id sz cs]; reflexivity.
Qed.

(* ---- the postcondition of writing one tree under a presentation, from any writer state: that of [Wtree] *)
Definition Wpres (sp : spec) (d : bool) (t : rtree) (p : pres) : Prop :=
  forall ids st, pconf sp d ids t p -> w_script st = [] -> rev (open_ids (w_open st)) = ids -> (has_known (w_open st) = false -> w_buf st = []) ->
  exists st', wrun_ok sp st (pops d t p) st' /\ w_open st' = w_open st /\ w_script st' = [] /\ image st' = image st ++ enc_tree t /\
    (has_known (w_open st) = true -> w_dest st' = w_dest st) /\ (has_known (w_open st) = false -> w_buf st' = []).

Lemma write_pres_forest sp d : forall l, Forall (fun t => forall p, Wpres sp d t p) l -> forall ps ids st, pconf_forest sp d ids l ps ->
  w_script st = [] -> rev (open_ids (w_open st)) = ids -> (has_known (w_open st) = false -> w_buf st = []) ->
  exists st', wrun_ok sp st (pops_forest d l ps) st' /\ w_open st' = w_open st /\ w_script st' = [] /\ image st' = image st ++ enc_forest l /\
    (has_known (w_open st) = true -> w_dest st' = w_dest st) /\ (has_known (w_open st) = false -> w_buf st' = []).
Proof.
  induction l as [|x l IH]; intros HW ps ids st Hc Hs Hi Hinv.
  - exists st. split; [apply wrun_ok_nil|]. cbn [enc_forest]. rewrite app_nil_r. repeat split; auto.
  - apply Forall_cons_iff in HW. destruct HW as [HWx HWl]. cbn [pconf_forest] in Hc. destruct Hc as [Hcx Hcl].
    destruct (HWx (phd ps) ids st Hcx Hs Hi Hinv) as [st1 [R1 [O1 [S1 [I1 [K1 U1]]]]]].
    assert (Hinv1 : has_known (w_open st1) = false -> w_buf st1 = []) by (rewrite O1; exact U1).
    assert (Hi1 : rev (open_ids (w_open st1)) = ids) by (rewrite O1; exact Hi).
    destruct (IH HWl (tl ps) ids st1 Hcl S1 Hi1 Hinv1) as [st2 [R2 [O2 [S2 [I2 [K2 U2]]]]]].
    exists st2. split; [cbn [pops_forest]; eapply wrun_ok_app; eassumption|].
    split; [congruence|]. split; [exact S2|]. split; [rewrite I2, I1; cbn [enc_forest]; rewrite app_assoc; reflexivity|].
    rewrite O1 in K2, U2. split; [intros Hk; rewrite (K2 Hk); exact (K1 Hk)|exact U2].
Qed.

Lemma write_pres sp d : forall t p, Wpres sp d t p.
Proof.
  induction t as [id v pl sl|id sz cs IH] using rtree_ind'; intros p; unfold Wpres; intros ids st Hc Hs Hi Hinv.
  - (* an element: the presentation does not matter *)
    rewrite pops_leaf. rewrite pconf_leaf in Hc. exact (write_tree sp d (RLeaf id v pl sl) ids st Hc Hs Hi Hinv).
  - destruct p as [|ps].
    + (* a master given as one Full item *)
      rewrite pops_full. rewrite pconf_full in Hc.
      destruct (write_full sp d (RNode id sz cs) ids st Hc Hs Hi Hinv) as [st' [Hstep [Ho [Hsc [Him [Hk Hu]]]]]].
      exists st'. split; [eapply wrun_ok_cons; [exact Hstep|apply wrun_ok_nil]|].
      split; [exact Ho|]. split; [exact Hsc|]. split; [exact Him|]. split; [exact Hk|exact Hu].
    + (* a master written as Start, children, End: as in write_tree, the children by the induction hypothesis *)
      apply pconf_sep in Hc. destruct Hc as [Hpath [Hty [Hsz Hcs]]]. rewrite pops_sep.
      assert (Hval : w_validate sp id (w_open st) = true) by (apply (validate_chain sp id (w_open st) ids Hpath Hi)).
      destruct sz as [sl|].
      * (* known size: the children are held back, the header is inserted in front of them at the End *)
        pose proof (Hsz sl eq_refl) as Hf. assert (Hsl : (1 <= sl <= 8)%nat) by (destruct Hf; assumption).
        assert (Hb : buffer_tag sp (TStart id) (wopt d sl) st = (start_tag st id (wsl d sl), WOk)).
        { rewrite buffer_tag_eq; raw_simpl. cbn [tag_id is_master_tag negb]. rewrite Hty.
          assert (Hu : o_unknown (wopt d sl) = false) by (destruct d; reflexivity). rewrite Hu. cbn [andb is_master_ty].
          unfold should_validate; raw_simpl. cbn [tag_id is_end negb]. rewrite Hty, Hval. cbn [negb andb].
          unfold buffer_act; raw_simpl. rewrite Hu. cbn [tag_id]. rewrite Hty, (size_len_of_wopt d sl Hsl). reflexivity. }
        cbn [node_opt].
        destruct (write_step sp st _ _ _ Hb Hs) as [st1 [Hstep1 [Ho1 [Hsc1 [Him1 [Hk1 _]]]]]].
        cbn [start_tag set_open w_open w_buf] in Ho1, Him1, Hk1.
        assert (Hkn1 : has_known (w_open st1) = true) by (rewrite Ho1; reflexivity).
        destruct (Hk1 eq_refl) as [Hd1 Hb1].
        assert (Hi1 : rev (open_ids (w_open st1)) = ids ++ [id]) by (rewrite Ho1; unfold open_ids in *; cbn [map rev fst]; rewrite Hi; reflexivity).
        assert (Hinv1 : has_known (w_open st1) = false -> w_buf st1 = []) by (rewrite Hkn1; discriminate).
        destruct (write_pres_forest sp d cs IH ps _ st1 Hcs Hsc1 Hi1 Hinv1) as [st2 [R2 [O2 [S2 [I2 [K2 _]]]]]].
        pose proof (K2 Hkn1) as Hd2.
        assert (Hb2 : w_buf st2 = w_buf st ++ enc_forest cs).
        { unfold image in I2. rewrite Hd2, Hb1, <- app_assoc in I2. apply app_inv_head in I2. exact I2. }
        assert (He : buffer_tag sp (TEnd id) o_default st2 =
                     (set_open (set_buf st2 (w_buf st ++ id_bytes id ++ venc sl (flen cs) ++ enc_forest cs)) (w_open st), WOk)).
        { rewrite (end_step sp st2 id Hty). unfold end_tag. rewrite O2, Ho1. rewrite N.eqb_refl, Hb2, app_length.
          destruct (Nat.ltb_spec (length (w_buf st) + length (enc_forest cs)) (length (w_buf st))); [lia|].
          replace (length (w_buf st) + length (enc_forest cs) - length (w_buf st))%nat with (length (enc_forest cs)) by lia.
          fold (flen cs). rewrite (size_to_vint_field d sl (flen cs) Hf).
          rewrite firstn_app, firstn_all, Nat.sub_diag, skipn_app, skipn_all, Nat.sub_diag. cbn [firstn skipn app]. rewrite app_nil_r. reflexivity. }
        destruct (write_step sp st2 _ _ _ He S2) as [st3 [Hstep3 [Ho3 [Hsc3 [Him3 [Hk3 Hu3]]]]]].
        cbn [set_open set_buf w_open w_buf] in Ho3, Him3, Hk3, Hu3.
        exists st3. split.
        { eapply wrun_ok_cons; [exact Hstep1|]. eapply wrun_ok_app; [exact R2|]. eapply wrun_ok_cons; [exact Hstep3|apply wrun_ok_nil]. }
        split; [exact Ho3|]. split; [exact Hsc3|]. split.
        { rewrite Him3, Hd2, Hd1. unfold image. rewrite enc_tree_node, <- !app_assoc. reflexivity. }
        split; [intros Hkn; destruct (Hk3 Hkn) as [Hd3 _]; rewrite Hd3, Hd2, Hd1; reflexivity|exact Hu3].
      * (* unknown size: the header goes out at once *)
        assert (Hb : buffer_tag sp (TStart id) opts_unknown st = (start_unknown_size_tag st id, WOk)).
        { rewrite buffer_tag_eq; raw_simpl. cbn [tag_id is_master_tag negb opts_unknown o_unknown]. rewrite Hty. cbn [andb is_master_ty negb].
          unfold should_validate; raw_simpl. cbn [tag_id is_end negb]. rewrite Hty, Hval. cbn [negb andb].
          unfold buffer_act; raw_simpl. cbn [o_unknown opts_unknown]. reflexivity. }
        cbn [node_opt].
        destruct (write_step sp st _ _ _ Hb Hs) as [st1 [Hstep1 [Ho1 [Hsc1 [Him1 [Hk1 Hu1]]]]]].
        cbn [start_unknown_size_tag set_open set_buf w_open w_buf] in Ho1, Him1, Hk1, Hu1.
        assert (Hkn1 : has_known (w_open st1) = has_known (w_open st)) by (rewrite Ho1; reflexivity).
        assert (Hi1 : rev (open_ids (w_open st1)) = ids ++ [id]) by (rewrite Ho1; unfold open_ids in *; cbn [map rev fst]; rewrite Hi; reflexivity).
        assert (Hinv1 : has_known (w_open st1) = false -> w_buf st1 = []) by (rewrite Ho1; exact Hu1).
        destruct (write_pres_forest sp d cs IH ps _ st1 Hcs Hsc1 Hi1 Hinv1) as [st2 [R2 [O2 [S2 [I2 [K2 U2]]]]]].
        assert (He : buffer_tag sp (TEnd id) o_default st2 = (set_open st2 (w_open st), WOk)).
        { rewrite (end_step sp st2 id Hty). unfold end_tag. rewrite O2, Ho1. rewrite N.eqb_refl. reflexivity. }
        destruct (write_step sp st2 _ _ _ He S2) as [st3 [Hstep3 [Ho3 [Hsc3 [Him3 [Hk3 Hu3]]]]]].
        cbn [set_open w_open w_buf] in Ho3, Him3, Hk3, Hu3.
        exists st3. split.
        { eapply wrun_ok_cons; [exact Hstep1|]. eapply wrun_ok_app; [exact R2|]. eapply wrun_ok_cons; [exact Hstep3|apply wrun_ok_nil]. }
        split; [exact Ho3|]. split; [exact Hsc3|]. split.
        { rewrite Him3. fold (image st2). rewrite I2, Him1, enc_tree_node. unfold image. rewrite <- !app_assoc. reflexivity. }
        split; [|exact Hu3].
        intros Hkn. destruct (Hk3 Hkn) as [Hd3 _]. rewrite Hd3. rewrite Hkn1 in K2. rewrite (K2 Hkn). destruct (Hk1 Hkn) as [Hx _]. exact Hx.
Qed.

(* ---- the whole document: whatever the presentation, every call succeeds and the bytes are the structural encoding *)
Theorem mixed_encodes sp d f ps : pconf_forest sp d [] f ps ->
  Forall (fun r => fst r = WOk) (fst (run_writer sp (pops_forest d f ps) [])) /\
  snd (run_writer sp (pops_forest d f ps) []) = enc_forest f.
Proof.
  intros Hc.
  assert (HW : Forall (fun t => forall p, Wpres sp d t p) f) by (apply Forall_forall; intros t _; apply write_pres).
  destruct (write_pres_forest sp d f HW ps [] (w_init []) Hc eq_refl eq_refl (fun _ => eq_refl)) as [st' [[R1 R2] [_ [_ [Him [_ Hu]]]]]].
  unfold run_writer. destruct (wrun sp (w_init []) (pops_forest d f ps)) as [st rs]. cbn [fst snd] in *. subst st'.
  split; [exact R2|]. unfold image in Him. rewrite (Hu eq_refl), app_nil_r in Him. exact Him.
Qed.

(* two presentations of the same document give the same bytes *)
Corollary presentation_irrelevant sp d f ps1 ps2 : pconf_forest sp d [] f ps1 -> pconf_forest sp d [] f ps2 ->
  snd (run_writer sp (pops_forest d f ps1) []) = snd (run_writer sp (pops_forest d f ps2) []).
Proof.
  intros H1 H2. destruct (mixed_encodes sp d f ps1 H1) as [_ ->]. destruct (mixed_encodes sp d f ps2 H2) as [_ ->]. reflexivity.
Qed.

(* the earlier theorems are the two extreme presentations *)
Corollary mixed_all_separate sp d f : Forall (wconf sp d []) f ->
  pops_forest d f (map all_sep f) = wops_forest d f /\ pconf_forest sp d [] f (map all_sep f).
Proof. intros H. split; [apply pops_forest_all_sep|apply pconf_forest_all_sep, H]. Qed.

Corollary mixed_all_full sp d f : Forall (fconf sp d []) f ->
  pops_forest d f [] = fops d f /\ pconf_forest sp d [] f [].
Proof. intros H. split; [apply pops_forest_nil|apply pconf_forest_nil, H]. Qed.

(* any conforming mix gives the bytes of the all-separate presentation *)
Corollary mixed_equals_separate sp d f ps : pconf_forest sp d [] f ps -> Forall (wconf sp d []) f ->
  snd (run_writer sp (pops_forest d f ps) []) = snd (run_writer sp (wops_forest d f) []).
Proof.
  intros H1 H2. destruct (mixed_encodes sp d f ps H1) as [_ ->]. destruct (writer_encodes sp d f H2) as [_ ->]. reflexivity.
Qed.
