(* Audit follow-up for the writer properties C19, C10, C09: run-level form of "a rejected write leaves no trace", the failing
   flush that does leave one, byte-level accounts of what flush()/into_inner() and the streaming calls deliver, and concrete
   documents that satisfy the hypotheses of the document-level C09 theorems. *)
From Ebml Require Import Base Tools Spec Writer Reader Pure Encode Proofs.Tactics Proofs.SpecProofs Proofs.WriterProofs
  Proofs.RoundTrip Proofs.WriteEnc Proofs.WriteFull Proofs.WriteMixed.

(* ------------------------------------------------------------------ C19: run level *)

(* a run splits at any point that was reached without a panic *)
Lemma wrun_app sp : forall ops1 st st1 rs1 ops, wrun sp st ops1 = (st1, rs1) -> Forall (fun r => fst r <> WPanic) rs1 ->
  wrun sp st (ops1 ++ ops) = (fst (wrun sp st1 ops), rs1 ++ snd (wrun sp st1 ops)).
Proof.
  induction ops1 as [|a ops1 IH]; intros st st1 rs1 ops H Hf.
  - cbn [wrun] in H. inversion H; subst. cbn [app]. destruct (wrun sp st1 ops). reflexivity.
  - cbn [app wrun] in *. destruct (wstep sp st a) as [st' r] eqn:Ea. destruct r.
    + destruct (wrun sp st' ops1) as [st2 rs] eqn:E1. inversion H; subst; clear H.
      apply Forall_cons_iff in Hf. destruct Hf as [_ Hf]. rewrite (IH _ _ _ ops E1 Hf). reflexivity.
    + destruct (wrun sp st' ops1) as [st2 rs] eqn:E1. inversion H; subst; clear H.
      apply Forall_cons_iff in Hf. destruct Hf as [_ Hf]. rewrite (IH _ _ _ ops E1 Hf). reflexivity.
    + inversion H; subst. apply Forall_cons_iff in Hf. destruct Hf as [Hf _]. exfalso. apply Hf. reflexivity.
Qed.

(* flush()/into_inner(): private_flush fails only with an I/O error, and a failure to close an open master restores the state *)
Theorem flush_atomic st st' e : flush st = (st', WErr e) -> (forall x, e <> EIo x) -> st' = st.
Proof.
  unfold flush. intros H Hio. destruct (end_all _ _) as [st1 r1]. destruct r1.
  - apply private_flush_err in H. destruct H as [x ->]. exfalso. eapply Hio. reflexivity.
  - inversion H; subst. reflexivity.
  - inversion H.
Qed.

(* the only restriction on the call: a write_raw() payload must be shorter than 2^56-1 bytes (longer ones cannot exist) *)
Definition raw_exists (op : wop) : Prop :=
  match op with
  | OpRaw _ data => N.of_nat (length data) < 2 ^ 56 - 1
  | _ => True
  end.

Theorem wstep_atomic sp st op st' e : raw_exists op -> wstep sp st op = (st', WErr e) -> (forall x, e <> EIo x) -> st' = st.
Proof.
  destruct op as [t o|t|id data| |]; cbn [raw_exists wstep]; intros Hc H Hio.
  - eapply write_advanced_atomic; eassumption.
  - eapply write_advanced_atomic; eassumption.
  - destruct (write_raw_no_reject _ _ _ _ _ Hc H) as [x ->]. exfalso. eapply Hio. reflexivity.
  - eapply flush_atomic; eassumption.
  - eapply flush_atomic; eassumption.
Qed.

Theorem wrun_insert_rejected sp st0 ops1 op ops2 st1 rs1 st1' e :
  wrun sp st0 ops1 = (st1, rs1) -> Forall (fun r => fst r <> WPanic) rs1 -> raw_exists op ->
  wstep sp st1 op = (st1', WErr e) -> (forall x, e <> EIo x) ->
  st1' = st1 /\
  wrun sp st0 (ops1 ++ ops2) = (fst (wrun sp st1 ops2), rs1 ++ snd (wrun sp st1 ops2)) /\
  wrun sp st0 (ops1 ++ op :: ops2) = (fst (wrun sp st1 ops2), rs1 ++ (WErr e, length (w_dest st1)) :: snd (wrun sp st1 ops2)).
Proof.
  intros Hr Hf Hc Hs Hio. pose proof (wstep_atomic _ _ _ _ _ Hc Hs Hio) as E. subst st1'.
  split; [reflexivity|]. split; [apply wrun_app; assumption|].
  rewrite (wrun_app sp ops1 st0 st1 rs1 (op :: ops2) Hr Hf). rewrite (wrun_skip sp st1 op ops2 e Hs). reflexivity.
Qed.

(* ------------------------------------------------------------------ C10: what the destination receives *)

(* private_flush (fix D28): the open masters are untouched; the working buffer splits into the part [del] the destination took, which is
   appended to the destination, and the rest, which stays in the working buffer; the rest is empty when the call succeeds; otherwise
   the error is an I/O error and the rest has at least one byte ([write_all_split], [private_flush_split]: Proofs/WriterProofs.v) *)
Theorem private_flush_bytes st st' r : private_flush st = (st', r) ->
  w_open st' = w_open st /\
  exists del rest, w_buf st = del ++ rest /\ w_dest st' = w_dest st ++ del /\ w_buf st' = rest /\
                   (r = WOk -> rest = []) /\ (r <> WOk -> rest <> [] /\ exists x, r = WErr (EIo x)).
Proof. exact (private_flush_split st st' r). Qed.

Lemma flush_conserves st st' : private_flush st = (st', WOk) -> w_dest st' = w_dest st ++ w_buf st.
Proof.
  intros H. destruct (private_flush_bytes _ _ _ H) as [_ [del [rest [Hd [Hdest [_ [Hn _]]]]]]].
  rewrite (Hn eq_refl), app_nil_r in Hd. rewrite Hd. exact Hdest.
Qed.

(* a successful write call that leaves no known-size master open hands over exactly the working buffer as it is after
   buffering the tag *)
Theorem write_delivers sp st t o st' : write_advanced sp st t o = (st', WOk) -> has_known (w_open st') = false ->
  exists st1, buffer_tag sp t o st = (st1, WOk) /\ w_open st' = w_open st1 /\ w_buf st' = [] /\ w_dest st' = w_dest st ++ w_buf st1.
Proof.
  unfold write_advanced. intros H Hk. destruct (buffer_tag sp t o st) as [st1 r1] eqn:Eb.
  destruct (buffer_dest sp t o st st1 r1 Eb) as [Hd _].
  destruct r1; try (inversion H; fail). exists st1. split; [reflexivity|].
  unfold flush_if_streaming in H. destruct (has_known (w_open st1)) eqn:Ek.
  - inversion H; subst. rewrite Ek in Hk. discriminate.
  - destruct (private_flush_facts _ _ _ H) as [_ [Hb Ho]]. split; [exact Ho|]. split; [exact (Hb eq_refl)|].
    rewrite (flush_conserves _ _ H), Hd. reflexivity.
Qed.

Theorem raw_delivers st id data st' : write_raw st id data = (st', WOk) -> has_known (w_open st') = false ->
  exists field, size_to_vint (N.of_nat (length data)) O = Some field /\ w_open st' = w_open st /\ w_buf st' = [] /\
                w_dest st' = w_dest st ++ w_buf st ++ id_bytes id ++ field ++ data.
Proof.
  unfold write_raw, write_payload, sized_field. intros H Hk.
  destruct (size_to_vint (N.of_nat (length data)) O) as [f|]; [|inversion H]. exists f. split; [reflexivity|].
  unfold flush_if_streaming, append, set_buf in H. cbn [w_open w_buf w_dest w_script] in H.
  destruct (has_known (w_open st)) eqn:Ek.
  - inversion H; subst. cbn [w_open] in Hk. rewrite Ek in Hk. discriminate.
  - destruct (private_flush_facts _ _ _ H) as [_ [Hb Ho]]. split; [exact Ho|]. split; [exact (Hb eq_refl)|].
    rewrite (flush_conserves _ _ H). cbn [w_dest w_buf]. rewrite <- !app_assoc. reflexivity.
Qed.

(* write_raw while a known-size master is open hands nothing over *)
Lemma raw_held st id data st' r : write_raw st id data = (st', r) -> has_known (w_open st') = true -> w_dest st' = w_dest st.
Proof.
  unfold write_raw. destruct (write_payload st id 0 _ data) as [st1 r1] eqn:Ep.
  pose proof (write_payload_dest _ _ _ _ _ _ _ Ep) as [Hd _].
  destruct r1.
  - intros H Hk. destruct (flush_if_streaming_facts _ _ _ H) as [_ [Ho [Hsame _]]]. rewrite <- Ho in Hsame. rewrite (Hsame Hk). exact Hd.
  - intros H; inversion H; subst. intros _. exact Hd.
  - intros H; inversion H; subst. intros _. exact Hd.
Qed.

(* the working buffer after closing every open master, innermost first: each known-size master gets its id and its size field
   (the bytes buffered since its start, in the width it was started with) spliced in at its start; unknown-size masters need
   nothing.  None: some size does not fit its width (or a start offset lies beyond the buffer, which never happens) *)
Fixpoint closed_buf (open : list (N * wsize * nat)) (buf : list N) : option (list N) :=
  match open with
  | [] => Some buf
  | (_, WUnknown, _) :: rest => closed_buf rest buf
  | (id, WKnown start, sl) :: rest =>
      if (length buf <? start)%nat then None else
      match size_to_vint (N.of_nat (length buf - start)) sl with
      | None => None
      | Some sv => closed_buf rest (firstn start buf ++ id_bytes id ++ sv ++ skipn start buf)
      end
  end.

Lemma end_all_closed : forall fuel st st1, (length (w_open st) <= fuel)%nat -> end_all fuel st = (st1, WOk) ->
  closed_buf (w_open st) (w_buf st) = Some (w_buf st1) /\ w_open st1 = [] /\ w_dest st1 = w_dest st /\ w_script st1 = w_script st.
Proof.
  induction fuel as [|f IH]; intros st st1 Hlen H; cbn [end_all] in H.
  - inversion H; subst. destruct (w_open st1); [|cbn in Hlen; lia]. repeat split; reflexivity.
  - destruct (w_open st) as [|[[id sz] sl] rest] eqn:Eo.
    { inversion H; subst. rewrite Eo. repeat split; reflexivity. }
    destruct (end_tag st id) as [st2 r2] eqn:Ee. destruct r2; try (inversion H; fail).
    unfold end_tag in Ee. rewrite Eo, N.eqb_refl in Ee. cbn [closed_buf].
    destruct sz as [start|].
    + destruct (length (w_buf st) <? start)%nat; [inversion Ee|].
      destruct (size_to_vint _ sl) as [sv|]; [|inversion Ee]. inversion Ee; subst; clear Ee.
      cbn [set_open set_buf w_open w_buf w_dest w_script] in *.
      apply IH in H; [cbn [set_open set_buf w_open w_buf w_dest w_script] in H; exact H|cbn [set_open set_buf w_open]; cbn [length] in Hlen; lia].
    + inversion Ee; subst; clear Ee. apply IH in H; [cbn [set_open set_buf w_open w_buf w_dest w_script] in H; exact H|cbn [set_open w_open]; cbn [length] in Hlen; lia].
Qed.

(* flush()/into_inner() that succeeds: the destination receives exactly the working buffer with every open master closed;
   nothing stays open or buffered *)
Theorem flush_bytes st st' : flush st = (st', WOk) ->
  exists b, closed_buf (w_open st) (w_buf st) = Some b /\ w_dest st' = w_dest st ++ b /\ w_open st' = [] /\ w_buf st' = [].
Proof.
  unfold flush. intros H. destruct (end_all _ _) as [st1 r1] eqn:Ee. destruct r1; try (inversion H; fail).
  destruct (end_all_closed _ _ _ (le_n _) Ee) as [Hc [Ho [Hd _]]]. exists (w_buf st1). split; [exact Hc|].
  destruct (private_flush_facts _ _ _ H) as [_ [Hb Ho']]. rewrite (flush_conserves _ _ H), Hd, Ho', Ho.
  split; [reflexivity|]. split; [reflexivity|exact (Hb eq_refl)].
Qed.

(* the masters still open after closing as many as possible are a suffix of those open before *)
Lemma end_all_err : forall fuel st st1 e, end_all fuel st = (st1, WErr e) ->
  e = ESize /\ w_dest st1 = w_dest st /\ w_open st1 <> [] /\ exists closed, w_open st = closed ++ w_open st1.
Proof.
  induction fuel as [|f IH]; intros st st1 e H; cbn [end_all] in H; [inversion H|].
  destruct (w_open st) as [|[[id sz] sl] rest] eqn:Eo; [inversion H|].
  destruct (end_tag st id) as [st2 r2] eqn:Ee. destruct r2.
  - apply IH in H. destruct H as [He [Hd [Hne [closed Hc]]]].
    unfold end_tag in Ee. rewrite Eo, N.eqb_refl in Ee.
    assert (Ho2 : w_open st2 = rest /\ w_dest st2 = w_dest st).
    { destruct sz as [start|].
      - destruct (length (w_buf st) <? start)%nat; [inversion Ee|]. destruct (size_to_vint _ sl); inversion Ee; subst. split; reflexivity.
      - inversion Ee; subst. split; reflexivity. }
    destruct Ho2 as [Ho2 Hd2]. split; [exact He|]. split; [congruence|]. split; [exact Hne|].
    exists ((id, sz, sl) :: closed). rewrite <- Ho2, Hc. reflexivity.
  - inversion H; subst; clear H. unfold end_tag in Ee. rewrite Eo, N.eqb_refl in Ee.
    destruct sz as [start|]; [|inversion Ee].
    destruct (length (w_buf st) <? start)%nat; [inversion Ee|]. destruct (size_to_vint _ sl); inversion Ee; subst.
    split; [reflexivity|]. split; [reflexivity|]. rewrite Eo. split; [discriminate|]. exists []. reflexivity.
  - inversion H.
Qed.

(* flush()/into_inner() that fails: either closing some master fails because its size does not fit the width it was started
   with - then the whole state is what it was before the call (fix D26); or the destination fails - then every master has been
   closed, a proper prefix [del] of the closed buffer has been delivered and the rest is still in the working buffer (fix D28) *)
Theorem flush_failure st st' e : flush st = (st', WErr e) ->
  (e = ESize /\ st' = st) \/
  (exists x, e = EIo x /\ w_open st' = [] /\
     exists b del rest, closed_buf (w_open st) (w_buf st) = Some b /\ b = del ++ rest /\ rest <> [] /\
                        w_dest st' = w_dest st ++ del /\ w_buf st' = rest).
Proof.
  unfold flush. intros H. destruct (end_all _ _) as [st1 r1] eqn:Ee. destruct r1.
  - right. destruct (end_all_closed _ _ _ (le_n _) Ee) as [Hc [Ho [Hd _]]].
    destruct (private_flush_bytes _ _ _ H) as [Ho' [del [rest [Hs [Hdest [Hb [_ He]]]]]]].
    assert (Hne : WErr e <> WOk) by discriminate. destruct (He Hne) as [Hl [x Hx]]. inversion Hx; subst e.
    exists x. split; [reflexivity|]. split; [rewrite Ho'; exact Ho|].
    exists (w_buf st1), del, rest. split; [exact Hc|]. split; [exact Hs|]. split; [exact Hl|].
    split; [rewrite Hdest, Hd; reflexivity|exact Hb].
  - left. inversion H; subst; clear H. apply end_all_err in Ee. split; [apply Ee|reflexivity].
  - inversion H.
Qed.

(* after an I/O failure the bytes of the closed buffer are all still there: destination ++ working buffer = old destination ++ closed buffer *)
Theorem flush_failure_conserves st st' x : flush st = (st', WErr (EIo x)) ->
  exists b, closed_buf (w_open st) (w_buf st) = Some b /\ w_dest st' ++ w_buf st' = w_dest st ++ b.
Proof.
  intros H. destruct (flush_failure _ _ _ H) as [[C _]|[y [_ [_ [b [del [rest [Hc [Hb [_ [Hd Hr]]]]]]]]]]]; [discriminate C|].
  exists b. split; [exact Hc|]. rewrite Hd, Hr, Hb, app_assoc. reflexivity.
Qed.

(* ------------------------------------------------------------------ C19: a flush that cannot close a master *)
Definition aw_sp : spec :=
  [ {| e_id := 129; e_ty := DMaster; e_path := [] |}; {| e_id := 16643; e_ty := DMaster; e_path := [PId 129] |};
    {| e_id := 16641; e_ty := DUInt; e_path := [PId 129] |}; {| e_id := 16642; e_ty := DBinary; e_path := [PId 129; PId 16643] |} ].
Definition aw_pre : list wop :=
  [ OpWrite (TStart 129) {| o_len := Some 1%nat; o_unknown := false |}; OpWrite (TStart 16643) o_default;
    OpWrite (TElem 16642 (VB (repeat 0 130))) o_default ].
Definition aw_later : wop := OpWrite (TElem 16642 (VB [1])) o_default.

Lemma flush_rejected_example :
  let st := fst (wrun aw_sp (w_init []) aw_pre) in
  wstep aw_sp st OpFlush = (st, WErr ESize) /\ wstep aw_sp st OpIntoInner = (st, WErr ESize) /\
  open_ids (w_open st) = [16643; 129] /\ length (w_buf st) = 134%nat /\
  map fst (snd (wrun aw_sp (w_init []) (aw_pre ++ [aw_later]))) = [WOk; WOk; WOk; WOk] /\
  map fst (snd (wrun aw_sp (w_init []) (aw_pre ++ [OpFlush; aw_later]))) = [WOk; WOk; WOk; WErr ESize; WOk] /\
  fst (wrun aw_sp (w_init []) (aw_pre ++ [OpFlush; aw_later])) = fst (wrun aw_sp (w_init []) (aw_pre ++ [aw_later])).
Proof. vm_compute. repeat split; reflexivity. Qed.

(* an I/O failure inside a streaming write: of the 9 buffered header bytes 2 were delivered, the other 7 are still buffered; the next
   successful call that hands bytes over (a flush, or a streaming write) delivers them first *)
Lemma io_retained_example :
  let u := {| o_len := None; o_unknown := true |} in
  let st := fst (wstep aw_sp (w_init [WAcc 2; WFail 5]) (OpWrite (TStart 129) u)) in
  snd (wstep aw_sp (w_init [WAcc 2; WFail 5]) (OpWrite (TStart 129) u)) = WErr (EIo (IoCode 5)) /\
  w_dest st = [129; 1] /\ w_buf st = [255; 255; 255; 255; 255; 255; 255] /\ open_ids (w_open st) = [129] /\
  wstep aw_sp st OpFlush = (fst (wstep aw_sp (fst (wstep aw_sp (w_init []) (OpWrite (TStart 129) u))) OpFlush), WOk) /\
  w_dest (fst (wstep aw_sp st OpFlush)) = [129; 1; 255; 255; 255; 255; 255; 255; 255] /\
  run_writer aw_sp [OpWrite (TStart 129) u; OpWrite (TElem 16641 (VU 5)) o_default] [WAcc 2; WFail 5] =
    ([(WErr (EIo (IoCode 5)), 2%nat); (WOk, 13%nat)], [129; 1; 255; 255; 255; 255; 255; 255; 255; 65; 1; 129; 5]) /\
  run_writer aw_sp [OpWrite (TStart 129) u; OpWrite (TElem 16641 (VU 5)) o_default] [] =
    ([(WOk, 9%nat); (WOk, 13%nat)], [129; 1; 255; 255; 255; 255; 255; 255; 255; 65; 1; 129; 5]).
Proof. vm_compute. repeat split; reflexivity. Qed.

(* ------------------------------------------------------------------ C09: the hypotheses of the document-level theorems hold
   for concrete documents *)
Definition c09_sp : spec :=
  [ {| e_id := 129; e_ty := DMaster; e_path := [] |};
    {| e_id := 16644; e_ty := DUInt; e_path := [PId 129] |};
    {| e_id := 16643; e_ty := DMaster; e_path := [PId 129] |};
    {| e_id := 16642; e_ty := DBinary; e_path := [PId 129; PId 16643] |};
    {| e_id := 16647; e_ty := DMaster; e_path := [PId 129; PId 16643] |};
    {| e_id := 16648; e_ty := DUInt; e_path := [PId 129; PId 16643; PId 16647] |};
    {| e_id := 16645; e_ty := DMaster; e_path := [PId 129] |};
    {| e_id := 16646; e_ty := DUtf8; e_path := [PId 129; PId 16645] |} ].

(* the document of C09_mixed_ex, its top master with unknown size (sz = None) or a known size in a 1-byte field *)
Definition c09_doc (sz : option nat) : list rtree :=
  [ RNode 129 sz
      [ RLeaf 16644 (VU 5) [5%N] 1%nat;
        RNode 16643 (Some 1%nat) [ RLeaf 16642 (VB [7%N; 8%N]) [7%N; 8%N] 1%nat;
                                   RNode 16647 (Some 1%nat) [ RLeaf 16648 (VU 300) [1%N; 44%N] 1%nat ] ];
        RNode 16645 (Some 1%nat) [ RLeaf 16646 (VS [104%N; 105%N]) [104%N; 105%N] 1%nat ] ] ].
Definition c09_mixed : list pres := [PSep [PFull; PFull; PSep [PFull]]].

(* explicit widths (d = false): a 3-byte size field for the top master, 4- and 2-byte ones for the elements, an unknown-size
   master in between *)
Definition c09_wide : list rtree :=
  [ RNode 129 (Some 3%nat) [ RLeaf 16644 (VU 5) [5%N] 2%nat;
                             RNode 16643 None [ RLeaf 16642 (VB [7%N; 8%N]) [7%N; 8%N] 4%nat ] ] ].
(* explicit width for the Full item itself, defaults inside *)
Definition c09_wide_full : list rtree :=
  [ RNode 129 (Some 3%nat) [ RLeaf 16644 (VU 5) [5%N] 1%nat;
                             RNode 16643 (Some 1%nat) [ RLeaf 16642 (VB [7%N; 8%N]) [7%N; 8%N] 1%nat ] ] ].

Ltac c09_t := repeat match goal with
 | |- _ /\ _ => split
 | |- Forall _ [] => constructor
 | |- Forall _ (_ :: _) => constructor
 | |- exists _, _ => eexists
 | |- True => exact I
 | |- vshape _ _ => exact I
 | |- field_ok _ _ _ => unfold field_ok
 | |- wconf _ _ _ _ => cbn [wconf]
 | |- fconf _ _ _ _ => cbn [fconf]
 | |- all_known _ => cbn [all_known]
 | |- forall _, _ => intro
 | H : Some _ = Some _ |- _ => inversion H; subst; clear H
 | H : None = Some _ |- _ => discriminate H
 | H : false = true |- _ => discriminate H
 | |- (_ <= _)%nat => lia
 | |- _ <> _ => discriminate
 | |- _ = _ => vm_compute; reflexivity
 | |- _ < _ => vm_compute; reflexivity
 end.

Lemma c09_sep_conf : forall sz, sz = None \/ sz = Some 1%nat -> Forall (wconf c09_sp true []) (c09_doc sz).
Proof. intros sz [->| ->]; unfold c09_doc; cbn [wconf]; c09_t. Qed.
Lemma c09_sep_wide_conf : Forall (wconf c09_sp false []) c09_wide.
Proof. unfold c09_wide. cbn [wconf]. c09_t. Qed.
Lemma c09_full_conf : forall sz, sz = None \/ sz = Some 1%nat -> Forall (fconf c09_sp true []) (c09_doc sz).
Proof. intros sz [->| ->]; unfold c09_doc; c09_t. Qed.
Lemma c09_full_wide_conf : Forall (fconf c09_sp false []) c09_wide_full.
Proof. unfold c09_wide_full. c09_t. Qed.
Lemma c09_all_known : Forall all_known (c09_doc (Some 1%nat)).
Proof. unfold c09_doc. c09_t. Qed.
Lemma c09_mixed_conf : pconf_forest c09_sp true [] (c09_doc None) c09_mixed /\
  pconf_forest c09_sp true [] (c09_doc None) (map all_sep (c09_doc None)) /\ pconf_forest c09_sp true [] (c09_doc None) [].
Proof. unfold c09_doc, c09_mixed. cbn [pconf_forest pconf fconf wconf all_known all_sep map phd tl]. c09_t. Qed.
