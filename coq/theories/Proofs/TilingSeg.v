(* C03, segmented tiling over whole runs (nothing buffered, any tolerance settings), errors and recoveries included.
   Every step of the reader (next, successful or not, and try_recover) leaves the remaining bytes a suffix of the previous
   remaining bytes and advances the cursor by exactly the number of bytes dropped ([Adv]).  On top of that the tiling
   invariant of Proofs/Tiling.v is generalised: the non-End items read so far are grouped in stretches; each stretch tiles a
   contiguous part of the input, consecutive stretches are separated by a gap (the bytes a failed read consumed and the bytes
   try_recover skipped), a new stretch is opened at each non-clean outcome, and nothing overlaps. *)
From Ebml Require Import Base Tools Spec Reader Pure Proofs.Tactics Proofs.ReaderIO Proofs.Refine Proofs.PureProofs
  Proofs.VintProofs Proofs.RollUp Proofs.Nesting Proofs.BufferSim Proofs.Tiling.

Arguments vint_len : simpl never.
Arguments read_vint : simpl never.

(* ------------------------------------------------------------------ cursor / remaining-bytes coherence *)
(* [Adv st st']: the remaining bytes of [st'] are a suffix of those of [st]; the cursor advanced by the dropped length *)
Definition Adv (st st' : pst) : Prop :=
  exists d, b_bytes st = d ++ b_bytes st' /\ b_off st' = b_off st + N.of_nat (length d).

Lemma Adv_same st st' : b_bytes st' = b_bytes st -> b_off st' = b_off st -> Adv st st'.
Proof. intros A B. exists []. rewrite A, B. cbn [app length]. split; [reflexivity|lia]. Qed.

Lemma Adv_refl st : Adv st st.
Proof. apply Adv_same; reflexivity. Qed.

Lemma Adv_trans a b c0 : Adv a b -> Adv b c0 -> Adv a c0.
Proof.
  intros [d1 [A1 B1]] [d2 [A2 B2]]. exists (d1 ++ d2). split.
  - rewrite A1, A2, app_assoc. reflexivity.
  - rewrite B2, B1, app_length. lia.
Qed.

Lemma Adv_consume st k : k <= blen st -> Adv st (pconsume st k).
Proof.
  intros Hk. destruct (pconsume_bytes st k Hk) as [A [B C]]. exists (fst (splitN k (b_bytes st))).
  split; [exact A|]. rewrite C. lia.
Qed.

Lemma p_tag_tail_adv c st ts id ty esz hl : N.of_nat hl <= blen st -> Adv st (fst (p_tag_tail c st ts (id, ty, esz, hl))).
Proof.
  intros Hl. unfold p_tag_tail.
  assert (A1 : Adv st (pconsume st (N.of_nat hl))) by (apply Adv_consume, Hl).
  set (st1 := pconsume st (N.of_nat hl)) in *.
  assert (A2 : forall size, (blen st1 <? size) = false -> Adv st (pconsume st1 size)).
  { intros size E. eapply Adv_trans; [exact A1|]. apply Adv_consume. apply N.ltb_ge in E. exact E. }
  destruct ty as [[]|]; try exact A1;
    (destruct esz as [size|]; [|exact A1]); (destruct (blen st1 <? size) eqn:E; [exact A1|]); specialize (A2 size E);
    try (destruct (arr_to_u64 _)); try (destruct (arr_to_i64 _)); try (destruct (arr_to_f64 _)); try (destruct (utf8_valid _));
    exact A2.
Qed.

(* every read, successful or not, only moves forward over the bytes it consumed *)
Lemma p_read_tag_adv c st : Adv st (fst (p_read_tag c st)).
Proof.
  rewrite p_read_tag_unfold. destruct (p_header_pos c st) as [Hby Hof].
  destruct (p_header c st) as [st1 [[[[id ty] esz] hl]|e|]] eqn:Eh; cbn [fst] in *; try (apply Adv_same; assumption).
  destruct (p_header_ok_facts _ _ _ _ _ _ _ Eh) as [_ [_ [_ [idl [size [sl [_ [_ [_ [_ Hle]]]]]]]]]].
  eapply Adv_trans; [apply Adv_same; eassumption|]. apply p_tag_tail_adv. unfold blen in *. rewrite Hby. exact Hle.
Qed.

Lemma p_recover_loop_adv c : forall fuel st,
  Adv st (fst (p_recover_loop fuel c st)) /\ b_queue (fst (p_recover_loop fuel c st)) = b_queue st.
Proof.
  induction fuel as [|f IH]; intros st; cbn [p_recover_loop].
  - cbn [fst]. split; [apply Adv_same; reflexivity|reflexivity].
  - destruct (b_bytes st) as [|b0 tl] eqn:Eb; [cbn [fst]; split; [apply Adv_refl|reflexivity]|].
    assert (A0 : Adv st (pconsume st 1)). { apply Adv_consume. unfold blen. rewrite Eb. cbn [length]. lia. }
    destruct (p_header_pos c (pconsume st 1)) as [Hby Hof]. pose proof (p_header_queue c (pconsume st 1)) as Hq.
    destruct (p_header c (pconsume st 1)) as [st2 [h|e|]]; cbn [fst] in *.
    + split; [eapply Adv_trans; [exact A0|apply Adv_same; [exact Hby|exact Hof]]|exact Hq].
    + destruct (IH st2) as [I1 I2].
      split; [eapply Adv_trans; [exact A0|eapply Adv_trans; [apply Adv_same; [exact Hby|exact Hof]|exact I1]]|rewrite I2; exact Hq].
    + split; [eapply Adv_trans; [exact A0|apply Adv_same; [exact Hby|exact Hof]]|exact Hq].
Qed.

(* try_recover only moves forward over the bytes it skipped and leaves the queue alone *)
Lemma p_try_recover_adv c st : Adv st (fst (p_try_recover c st)) /\ b_queue (fst (p_try_recover c st)) = b_queue st.
Proof.
  unfold p_try_recover. pose proof (p_recover_loop_adv c (b_fuel st) st) as H.
  destruct (p_recover_loop (b_fuel st) c st) as [st1 [e|]]; cbn [fst] in *; exact H.
Qed.

(* next() only moves forward over the bytes it consumed, whatever it yields (nothing buffered) *)
Lemma p_read_next_adv c : c_buffered c = [] -> forall fuel st, Adv st (p_read_next fuel c st).
Proof.
  intros Hbuf. destruct fuel as [|f]; intros st; [apply Adv_same; reflexivity|].
  rewrite p_read_next_unfold. cbn zeta. set (st1 := ppop_frames st _).
  assert (A1 : Adv st st1) by (apply Adv_same; reflexivity).
  unfold p_read_tag_checked. destruct (b_bytes st1) eqn:Eb.
  - destruct (c_emit_eof c); [eapply Adv_trans; [exact A1|apply Adv_same; reflexivity]|exact A1].
  - pose proof (p_read_tag_adv c st1) as Ha. destruct (p_read_tag c st1) as [st2 r2]. cbn [fst] in Ha.
    assert (A2 : Adv st st2) by exact (Adv_trans _ _ _ A1 Ha).
    destruct r2 as [p|e|].
    + destruct (p_tag p); try rewrite Hbuf; cbn [mem_id existsb]; (eapply Adv_trans; [exact A2|apply Adv_same; reflexivity]).
    + eapply Adv_trans; [exact A2|apply Adv_same; reflexivity].
    + eapply Adv_trans; [exact A2|apply Adv_same; reflexivity].
Qed.

Theorem p_next_adv c st : c_buffered c = [] -> Adv st (fst (p_next c st)).
Proof.
  intros Hbuf. unfold p_next.
  assert (H : Adv st (match b_queue st with [] => p_read_next (b_fuel st) c st | _ :: _ => st end)).
  { destruct (b_queue st); [apply p_read_next_adv, Hbuf|apply Adv_refl]. }
  set (st1 := match b_queue st with [] => _ | _ => _ end) in *.
  destruct (b_queue st1) as [|[t o|e] q]; cbn [fst]; (eapply Adv_trans; [exact H|apply Adv_same; reflexivity]).
Qed.

(* a try_recover call that reports success (and hit neither a panic site nor the budget) moved the cursor strictly forward *)
Lemma p_recover_loop_strict c : forall fuel st st1, p_recover_loop fuel c st = (st1, None) -> b_bad st1 = None ->
  b_off st < b_off st1.
Proof.
  induction fuel as [|f IH]; intros st st1; cbn [p_recover_loop].
  - intros H Hb. inversion H; subst. exfalso. exact (pset_bad_bad _ _ Hb).
  - destruct (b_bytes st) as [|b0 tl]; [discriminate|].
    destruct (p_header_pos c (pconsume st 1)) as [_ Hof].
    destruct (p_header c (pconsume st 1)) as [st2 [h|e|]]; cbn [fst] in *.
    + intros H _. inversion H; subst. rewrite Hof. cbn [pconsume b_off]. lia.
    + intros H Hb. specialize (IH _ _ H Hb). rewrite Hof in IH. cbn [pconsume b_off] in IH. lia.
    + intros H Hb. inversion H; subst. exfalso. exact (pset_bad_bad _ _ Hb).
Qed.

Theorem try_recover_ok_strict c st st1 : p_try_recover c st = (st1, None) -> b_bad st1 = None -> b_off st < b_off st1.
Proof.
  unfold p_try_recover. destruct (p_recover_loop (b_fuel st) c st) as [st2 [e|]] eqn:E; [discriminate|].
  intros H Hb. inversion H; subst. cbn [pset_stack b_off b_bad] in *. eapply p_recover_loop_strict; eassumption.
Qed.

(* ------------------------------------------------------------------ segmented tilings *)
(* [SegD sp off bytes ss gaps off' rest]: each stretch of [ss], in order, tiles a contiguous part of [bytes] (which sits at
   absolute offset [off]) and is followed by the corresponding gap of [gaps]; after the last gap the position is [off'] with
   [rest] left *)
Inductive SegD (sp : spec) : N -> list N -> list (list (tag * N)) -> list (list N) -> N -> list N -> Prop :=
| SegD_nil off bytes : SegD sp off bytes [] [] off bytes
| SegD_cons off bytes s off1 rest1 gap bytes2 ss gaps off' rest :
    Tiles sp off bytes s off1 rest1 -> rest1 = gap ++ bytes2 ->
    SegD sp (off1 + N.of_nat (length gap)) bytes2 ss gaps off' rest ->
    SegD sp off bytes (s :: ss) (gap :: gaps) off' rest.

Lemma SegD_snoc sp off bytes ss gaps off1 rest1 : SegD sp off bytes ss gaps off1 rest1 ->
  forall s off2 rest2 gap b, Tiles sp off1 rest1 s off2 rest2 -> rest2 = gap ++ b ->
  SegD sp off bytes (ss ++ [s]) (gaps ++ [gap]) (off2 + N.of_nat (length gap)) b.
Proof.
  induction 1 as [off bytes|off bytes s0 o1 r1 g0 b2 ss gaps off' rest HT Hr _ IH]; intros s off2 rest2 gap b Ht Hg; cbn [app].
  - eapply SegD_cons; [exact Ht|exact Hg|apply SegD_nil].
  - eapply SegD_cons; [exact HT|exact Hr|eapply IH; eassumption].
Qed.

(* [SegTiles sp off bytes [s_0; ..; s_k] [g_1; ..; g_k]]:
     bytes = tile(s_0) ++ g_1 ++ tile(s_1) ++ .. ++ g_k ++ tile(s_k) ++ rest   for some [rest],
   where tile(s_i) is the concatenation of the segments mirrored by the items of s_i (a tiling in the sense of [Tiles]: the
   first item of s_i reports the offset right after g_i -- offset [off] for s_0 --, each next one the offset where the previous
   segment ends).  The g_i are the gaps: the only bytes before the end of the last stretch that no item covers. *)
Inductive SegTiles (sp : spec) : N -> list N -> list (list (tag * N)) -> list (list N) -> Prop :=
| SegT_last off bytes s : Tiled sp off bytes s -> SegTiles sp off bytes [s] []
| SegT_cons off bytes s off1 rest1 gap bytes2 ss gaps :
    Tiles sp off bytes s off1 rest1 -> rest1 = gap ++ bytes2 ->
    SegTiles sp (off1 + N.of_nat (length gap)) bytes2 ss gaps -> SegTiles sp off bytes (s :: ss) (gap :: gaps).

Lemma SegD_tiles sp off bytes ss gaps off1 rest1 : SegD sp off bytes ss gaps off1 rest1 ->
  forall cur, Tiled sp off1 rest1 cur -> SegTiles sp off bytes (ss ++ [cur]) gaps.
Proof.
  induction 1 as [off bytes|off bytes s0 o1 r1 g0 b2 ss gaps off' rest HT Hr _ IH]; intros cur Hc; cbn [app].
  - apply SegT_last, Hc.
  - eapply SegT_cons; [exact HT|exact Hr|apply IH, Hc].
Qed.

(* the first stretch of a segmented tiling tiles a prefix *)
Lemma SegTiles_head sp off bytes s ss gaps : SegTiles sp off bytes (s :: ss) gaps -> Tiled sp off bytes s.
Proof. intros H. inversion H; subst; [assumption|]. eexists. eexists. eassumption. Qed.

(* one gap between any two consecutive stretches *)
Lemma SegTiles_length sp off bytes ss gaps : SegTiles sp off bytes ss gaps -> length ss = S (length gaps).
Proof. induction 1 as [|? ? ? ? ? ? ? ? ? _ _ _ IH]; [reflexivity|]. cbn [length]. rewrite IH. reflexivity. Qed.

Lemma SegD_app_tiles sp off bytes ss gaps off1 rest1 : SegD sp off bytes ss gaps off1 rest1 ->
  forall ss2 gaps2, SegTiles sp off1 rest1 ss2 gaps2 -> SegTiles sp off bytes (ss ++ ss2) (gaps ++ gaps2).
Proof.
  induction 1 as [off bytes|off bytes s0 o1 r1 g0 b2 ss gaps off' rest HT Hr _ IH]; intros ss2 gaps2 H2; cbn [app].
  - exact H2.
  - eapply SegT_cons; [exact HT|exact Hr|apply IH, H2].
Qed.

(* tools to refute a segmented tiling on a concrete input: two consecutive items of one stretch are exactly one segment apart,
   and the second of two stretches starts at the offset equal to the number of bytes in front of it *)
Lemma Tiles_two sp off bytes t1 o1 t2 o2 items off' rest : Tiles sp off bytes ((t1, o1) :: (t2, o2) :: items) off' rest ->
  o1 = off /\ exists seg rest1, bytes = seg ++ rest1 /\ mirrors sp t1 seg rest1 /\ o2 = off + N.of_nat (length seg).
Proof.
  intros H. inversion H as [|? ? seg rest1 ? ? ? ? Hb Hm HT]; subst.
  inversion HT as [|? ? seg2 rest2 ? ? ? ? Hb2 Hm2 HT2]; subst.
  split; [reflexivity|]. exists seg, (seg2 ++ rest2). split; [reflexivity|]. split; [exact Hm|reflexivity].
Qed.

Lemma SegTiles_second sp off bytes s0 s1 gaps : SegTiles sp off bytes [s0; s1] gaps ->
  exists pre bytes2, bytes = pre ++ bytes2 /\ Tiled sp (off + N.of_nat (length pre)) bytes2 s1.
Proof.
  intros H. inversion H as [|? ? ? off1 rest1 gap bytes2 ss gaps' HT Hr H2]; subst.
  destruct (Tiles_explicit _ _ _ _ _ _ HT) as [segs [E1 [_ [E3 _]]]].
  exists (concat segs ++ gap), bytes2. split; [rewrite <- app_assoc; exact E1|].
  inversion H2 as [? ? ? HT2|? ? ? ? ? ? ? ? ? ? ? H3]; subst; [|inversion H3].
  rewrite app_length, Nat2N.inj_add, N.add_assoc. exact HT2.
Qed.

Lemma app_skipn {A} (pre x l : list A) : l = pre ++ x -> x = skipn (length pre) l.
Proof. intros ->. rewrite skipn_app, skipn_all, Nat.sub_diag. reflexivity. Qed.

(* ------------------------------------------------------------------ the invariant *)
(* [GIa sp off0 bytes0 done gaps cur st]: the closed stretches [done], each followed by its gap, and then the current stretch
   [cur] tile [bytes0] (at offset [off0]) up to a position from which only a gap separates the cursor of [st]; that gap is
   empty unless an error is queued or was just reported (or a panic site / the budget was hit). *)
Definition GIa (sp : spec) (off0 : N) (bytes0 : list N) (done : list (list (tag * N))) (gaps : list (list N))
    (cur : list (tag * N)) (st : pst) : Prop :=
  exists off1 rest1 off rest gap,
    SegD sp off0 bytes0 done gaps off1 rest1 /\ Tiles sp off1 rest1 cur off rest /\
    rest = gap ++ b_bytes st /\ b_off st = off + N.of_nat (length gap) /\
    (b_bad st = None -> okq (b_queue st) -> gap = []).

Lemma GA_weak sp off0 bytes0 done gaps cur st st' : GIa sp off0 bytes0 done gaps cur st -> Adv st st' ->
  (b_bad st' = None -> okq (b_queue st') -> b_bad st = None /\ okq (b_queue st) /\ b_bytes st' = b_bytes st) ->
  GIa sp off0 bytes0 done gaps cur st'.
Proof.
  intros [off1 [rest1 [off [rest [gap [HD [HT [Hr [Ho Hc]]]]]]]]] [d [A B]] Hcl.
  exists off1, rest1, off, rest, (gap ++ d). split; [exact HD|]. split; [exact HT|].
  split; [rewrite Hr, A, app_assoc; reflexivity|]. split; [rewrite B, Ho, app_length; lia|].
  intros Hb Hq. destruct (Hcl Hb Hq) as [Hb0 [Hq0 Hbytes]]. rewrite (Hc Hb0 Hq0). cbn [app].
  apply (f_equal (@length N)) in A. rewrite app_length, Hbytes in A. destruct d as [|x d]; [reflexivity|cbn [length] in A; lia].
Qed.

Lemma GA_item sp off0 bytes0 done gaps cur st1 st3 seg t :
  GIa sp off0 bytes0 done gaps cur st1 -> b_bad st1 = None -> okq (b_queue st1) ->
  b_bytes st1 = seg ++ b_bytes st3 -> b_off st3 = b_off st1 + N.of_nat (length seg) -> mirrors sp t seg (b_bytes st3) ->
  GIa sp off0 bytes0 done gaps (cur ++ [(t, b_off st1)]) st3.
Proof.
  intros [off1 [rest1 [off [rest [gap [HD [HT [Hr [Ho Hc]]]]]]]]] Hb Hq Hbytes Hoff Hm.
  rewrite (Hc Hb Hq) in *. cbn [app length] in *.
  assert (Eo : off = b_off st1) by lia. subst off.
  exists off1, rest1, (b_off st3), (b_bytes st3), [].
  split; [exact HD|].
  split; [rewrite Hoff; eapply Tiles_snoc; [exact HT|rewrite Hr; exact Hbytes|exact Hm]|].
  split; [reflexivity|]. split; [cbn [length]; lia|]. intros _ _. reflexivity.
Qed.

(* a non-clean outcome: the current stretch is closed, the gap up to the (possibly advanced) cursor follows it; if the
   cursor moved, the gap is not empty *)
Lemma GA_close sp off0 bytes0 done gaps cur st st' : GIa sp off0 bytes0 done gaps cur st -> Adv st st' ->
  exists g, GIa sp off0 bytes0 (done ++ [cur]) (gaps ++ [g]) [] st' /\ (b_off st < b_off st' -> g <> []).
Proof.
  intros [off1 [rest1 [off [rest [gap [HD [HT [Hr [Ho Hc]]]]]]]]] [d [A B]].
  assert (E : b_off st' = off + N.of_nat (length (gap ++ d))) by (rewrite B, Ho, app_length; lia).
  exists (gap ++ d). split.
  - exists (b_off st'), (b_bytes st'), (b_off st'), (b_bytes st'), [].
    split; [rewrite E; eapply SegD_snoc; [exact HD|exact HT|rewrite Hr, A, app_assoc; reflexivity]|].
    split; [apply Tiles_nil|]. split; [reflexivity|]. split; [cbn [length]; lia|]. intros _ _. reflexivity.
  - intros Hlt Hg. apply app_eq_nil in Hg. destruct Hg as [_ Hd]. rewrite Hd in B. cbn [length] in B. lia.
Qed.

Lemma GA_segd sp off0 bytes0 done gaps cur st : GIa sp off0 bytes0 done gaps cur st ->
  exists off1 rest1, SegD sp off0 bytes0 done gaps off1 rest1 /\ Tiled sp off1 rest1 cur.
Proof. intros [off1 [rest1 [off [rest [gap [HD [HT _]]]]]]]. exists off1, rest1. split; [exact HD|exists off, rest; exact HT]. Qed.

(* the run ends here: the items handed out in the current stretch are a prefix of it *)
Lemma GA_fin sp off0 bytes0 done gaps em pend st : GIa sp off0 bytes0 done gaps (em ++ pend) st ->
  SegTiles sp off0 bytes0 (done ++ [em]) gaps.
Proof.
  intros H. destruct (GA_segd _ _ _ _ _ _ _ H) as [off1 [rest1 [HD HT]]].
  eapply SegD_tiles; [exact HD|]. eapply Tiled_prefix, HT.
Qed.

Lemma GA_fin2 sp off0 bytes0 done gaps em pend st : GIa sp off0 bytes0 done gaps (em ++ pend) st ->
  SegTiles sp off0 bytes0 (done ++ [em; []]) (gaps ++ [[]]).
Proof.
  intros H. destruct (GA_segd _ _ _ _ _ _ _ H) as [off1 [rest1 [HD HT]]].
  eapply SegD_app_tiles; [exact HD|]. apply Tiled_prefix in HT. destruct HT as [o [r HT]].
  eapply (SegT_cons _ _ _ _ o r [] r); [exact HT|reflexivity|]. apply SegT_last. exists (o + N.of_nat (length (@nil N))), r. apply Tiles_nil.
Qed.

(* [L]: the non-End items handed out so far followed by the non-End items still queued; [n]: the number of non-clean
   outcomes so far.  [L] is cut into n closed stretches and the current one. *)
Definition GI (sp : spec) (off0 : N) (bytes0 : list N) (L : list (tag * N)) (n : nat) (st : pst) : Prop :=
  exists done gaps cur, length done = n /\ concat done ++ cur = L /\ GIa sp off0 bytes0 done gaps cur st.

Lemma G_weak sp off0 bytes0 L n st st' : GI sp off0 bytes0 L n st -> Adv st st' ->
  (b_bad st' = None -> okq (b_queue st') -> b_bad st = None /\ okq (b_queue st) /\ b_bytes st' = b_bytes st) ->
  GI sp off0 bytes0 L n st'.
Proof.
  intros [done [gaps [cur [Hn [HL H]]]]] Ha Hcl. exists done, gaps, cur. split; [exact Hn|]. split; [exact HL|]. eapply GA_weak; eassumption.
Qed.

Lemma G_item sp off0 bytes0 L n st1 st3 seg t :
  GI sp off0 bytes0 L n st1 -> b_bad st1 = None -> okq (b_queue st1) ->
  b_bytes st1 = seg ++ b_bytes st3 -> b_off st3 = b_off st1 + N.of_nat (length seg) -> mirrors sp t seg (b_bytes st3) ->
  GI sp off0 bytes0 (L ++ [(t, b_off st1)]) n st3.
Proof.
  intros [done [gaps [cur [Hn [HL H]]]]] Hb Hq Hbytes Hoff Hm. exists done, gaps, (cur ++ [(t, b_off st1)]).
  split; [exact Hn|]. split; [rewrite app_assoc, HL; reflexivity|]. eapply GA_item; eassumption.
Qed.

Lemma G_close sp off0 bytes0 L n st st' : GI sp off0 bytes0 L n st -> Adv st st' -> GI sp off0 bytes0 L (S n) st'.
Proof.
  intros [done [gaps [cur [Hn [HL H]]]]] Ha. destruct (GA_close _ _ _ _ _ _ _ _ H Ha) as [g [Hg _]].
  exists (done ++ [cur]), (gaps ++ [g]), [].
  split; [rewrite app_length, Hn; cbn [length]; lia|].
  split; [rewrite concat_app; cbn [concat]; rewrite !app_nil_r; exact HL|]. exact Hg.
Qed.

Definition SegRes (sp : spec) (off0 : N) (bytes0 : list N) (L : list (tag * N)) (m : nat) : Prop :=
  exists ss gaps, SegTiles sp off0 bytes0 ss gaps /\ concat ss = L /\ length ss = S m.

Lemma G_res sp off0 bytes0 L n st : GI sp off0 bytes0 L n st -> SegRes sp off0 bytes0 L n.
Proof.
  intros [done [gaps [cur [Hn [HL H]]]]]. destruct (GA_segd _ _ _ _ _ _ _ H) as [off1 [rest1 [HD HT]]].
  exists (done ++ [cur]), gaps. split; [eapply SegD_tiles; [exact HD|exact HT]|].
  split; [rewrite concat_app; cbn [concat]; rewrite app_nil_r; exact HL|rewrite app_length, Hn; cbn [length]; lia].
Qed.

Lemma G_res_close sp off0 bytes0 L n st : GI sp off0 bytes0 L n st -> SegRes sp off0 bytes0 L (S n).
Proof. intros H. eapply G_res, G_close; [exact H|apply Adv_refl]. Qed.

(* outcomes that are not clean *)
Definition nclean (outs : list rout) : nat := length (filter (fun o => negb (clean o)) outs).

Lemma nclean_app a b : nclean (a ++ b) = (nclean a + nclean b)%nat.
Proof. unfold nclean. rewrite filter_app, app_length. reflexivity. Qed.

Lemma nclean_bad b : nclean [bad_out b] = 1%nat.
Proof. destruct b; reflexivity. Qed.

Lemma non_end_items_bad b : non_end_items [bad_out b] = [].
Proof. destruct b; reflexivity. Qed.

(* ------------------------------------------------------------------ read_next / next, for any invariant with the two rules *)
Section Generic.
Variable c : cfg.
Hypothesis Hbuf : c_buffered c = [].
Variable I : list (tag * N) -> pst -> Prop.
Hypothesis I_weak : forall L st st', I L st -> Adv st st' ->
  (b_bad st' = None -> okq (b_queue st') -> b_bad st = None /\ okq (b_queue st) /\ b_bytes st' = b_bytes st) -> I L st'.
Hypothesis I_item : forall L st1 st3 seg t, I L st1 -> b_bad st1 = None -> okq (b_queue st1) ->
  b_bytes st1 = seg ++ b_bytes st3 -> b_off st3 = b_off st1 + N.of_nat (length seg) -> mirrors (c_sp c) t seg (b_bytes st3) ->
  I (L ++ [(t, b_off st1)]) st3.

Lemma I_pop em st k : I (em ++ ne_q (b_queue st)) st -> I (em ++ ne_q (b_queue (ppop_frames st k))) (ppop_frames st k).
Proof.
  intros H.
  assert (E : ne_q (b_queue (ppop_frames st k)) = ne_q (b_queue st)).
  { unfold ppop_frames, ppush_q. cbn [pset_queue pset_stack b_queue]. rewrite ne_q_app, ne_q_ends, app_nil_r. reflexivity. }
  rewrite E. eapply I_weak; [exact H|apply Adv_same; reflexivity|].
  intros Hb Hq. split; [exact Hb|]. split; [|reflexivity].
  unfold ppop_frames, ppush_q in Hq. cbn [pset_queue pset_stack b_queue] in Hq. apply okq_app in Hq. apply Hq.
Qed.

Lemma p_read_next_I : forall fuel em st,
  I (em ++ ne_q (b_queue st)) st -> b_bad st = None -> okq (b_queue st) ->
  I (em ++ ne_q (b_queue (p_read_next fuel c st))) (p_read_next fuel c st).
Proof.
  destruct fuel as [|f]; intros em st HT Hb Ho.
  - cbn [p_read_next]. eapply I_weak; [exact HT|apply Adv_same; reflexivity|].
    intros Hn. exfalso. exact (pset_bad_bad _ _ Hn).
  - rewrite p_read_next_unfold. cbn zeta.
    set (k1 := exhausted_count (b_off st) (b_stack st)). set (st1 := ppop_frames st k1).
    assert (H1 : I (em ++ ne_q (b_queue st1)) st1) by (apply I_pop, HT).
    assert (Hb1 : b_bad st1 = None) by exact Hb.
    assert (Ho1 : okq (b_queue st1)).
    { unfold st1, ppop_frames, ppush_q. cbn [pset_queue b_queue]. apply okq_app. split; [exact Ho|apply okq_ends]. }
    unfold p_read_tag_checked. destruct (b_bytes st1) eqn:Eb.
    + destruct (c_emit_eof c); [apply I_pop, H1|exact H1].
    + pose proof (p_read_tag_queue c st1) as Hq. pose proof (p_read_tag_adv c st1) as Ha.
      destruct (p_read_tag c st1) as [st2 r2] eqn:Er. cbn [fst] in Hq, Ha.
      destruct r2 as [p|e|].
      * destruct (p_read_tag_tiles _ _ _ _ Er) as [seg [Hbytes [Hoff [Hstart Hm]]]].
        set (k2 := count_ended (c_sp c) (tag_id (p_tag p)) (stack_view (b_stack st2))).
        assert (Fin : forall st3, b_bytes st3 = b_bytes st2 -> b_off st3 = b_off st2 ->
                  b_queue st3 = b_queue st1 ++ map end_item (firstn k2 (b_stack st2)) ++ [QOk (p_tag p) (b_off st1)] ->
                  I (em ++ ne_q (b_queue st3)) st3).
        { intros st3 A B C.
          assert (Ht : ne_q [QOk (p_tag p) (b_off st1)] = [(p_tag p, b_off st1)]).
          { destruct Hm as [idl [size [sl [hdr [payload [_ [_ [_ [_ F]]]]]]]]]. destruct (p_tag p); try contradiction; reflexivity. }
          rewrite C, !ne_q_app, ne_q_ends, Ht. cbn [app]. rewrite app_assoc.
          eapply (I_item _ st1 st3 seg (p_tag p));
            [exact H1|exact Hb1|exact Ho1|rewrite A; exact Hbytes|rewrite B; exact Hoff|rewrite A; exact Hm]. }
        rewrite Hstart.
        destruct (p_tag p) as [id v|id|id|id cs] eqn:Ep;
          try (apply Fin; [reflexivity|reflexivity|cbn [ppush_q ppop_frames pset_queue pset_stack b_queue]; rewrite Hq, <- app_assoc; reflexivity]).
        rewrite Hbuf. cbn [mem_id existsb].
        apply Fin; [reflexivity|reflexivity|cbn [ppush_q ppop_frames pset_queue pset_stack b_queue]; rewrite Hq, <- app_assoc; reflexivity].
      * assert (E : ne_q (b_queue (ppush_q st2 [QErr e])) = ne_q (b_queue st1)).
        { cbn [ppush_q pset_queue b_queue]. rewrite Hq, ne_q_app. cbn [ne_q flat_map]. apply app_nil_r. }
        rewrite E. eapply I_weak; [exact H1|exact Ha|].
        intros _ Hok. exfalso. cbn [ppush_q pset_queue b_queue] in Hok. apply okq_app in Hok. destruct Hok as [_ Hok].
        inversion Hok; discriminate.
      * change (b_queue (pset_bad st2 BPanic)) with (b_queue st2). rewrite Hq.
        eapply I_weak; [exact H1|exact Ha|]. intros Hn. exfalso. exact (pset_bad_bad _ _ Hn).
Qed.

(* an error is handed out from a state [stm] that satisfies the invariant and has the cursor of the resulting state *)
Lemma p_next_I em st : I (em ++ ne_q (b_queue st)) st -> b_bad st = None ->
  match snd (p_next c st) with
  | NItem t o => I ((em ++ ne_q [QOk t o]) ++ ne_q (b_queue (fst (p_next c st)))) (fst (p_next c st))
  | NNone => I (em ++ ne_q (b_queue (fst (p_next c st)))) (fst (p_next c st))
  | NErr _ => exists stm, I (em ++ ne_q (b_queue (fst (p_next c st)))) stm /\ Adv stm (fst (p_next c st))
  end.
Proof.
  intros HT Hb. unfold p_next.
  assert (H1 : let st1 := match b_queue st with [] => p_read_next (b_fuel st) c st | _ :: _ => st end in
               I (em ++ ne_q (b_queue st1)) st1).
  { destruct (b_queue st) eqn:Eq; cbv beta iota zeta; rewrite <- Eq in HT; [|exact HT].
    apply p_read_next_I; [exact HT|exact Hb|rewrite Eq; constructor]. }
  cbv zeta in H1. set (st1 := match b_queue st with [] => _ | _ => _ end) in *.
  destruct (b_queue st1) as [|[t o|e] q] eqn:Eq; cbn [fst snd].
  - rewrite Eq. exact H1.
  - cbn [pset_last pset_queue b_queue].
    change (QOk t o :: q) with ([QOk t o] ++ q) in H1. rewrite ne_q_app, app_assoc in H1.
    eapply I_weak; [exact H1|apply Adv_same; reflexivity|].
    intros A B. split; [exact A|]. split; [|reflexivity]. rewrite Eq. constructor; [reflexivity|exact B].
  - cbn [pset_queue b_queue]. change (ne_q (QErr e :: q)) with (ne_q q) in H1.
    exists st1. split; [exact H1|apply Adv_same; reflexivity].
Qed.

End Generic.

(* ------------------------------------------------------------------ runs, every discipline *)
Section SegRuns.
Variable c : cfg.
Variable off0 : N.
Variable bytes0 : list N.
Hypothesis Hbuf : c_buffered c = [].
Notation G := (GI (c_sp c) off0 bytes0).
Notation Res := (SegRes (c_sp c) off0 bytes0).

Lemma p_next_G em n st : G (em ++ ne_q (b_queue st)) n st -> b_bad st = None ->
  match snd (p_next c st) with
  | NItem t o => G ((em ++ ne_q [QOk t o]) ++ ne_q (b_queue (fst (p_next c st)))) n (fst (p_next c st))
  | NNone => G (em ++ ne_q (b_queue (fst (p_next c st)))) n (fst (p_next c st))
  | NErr _ => G (em ++ ne_q (b_queue (fst (p_next c st)))) (S n) (fst (p_next c st))
  end.
Proof.
  intros HT Hb.
  pose proof (p_next_I c Hbuf (fun L s => G L n s)
                (fun L s s' => G_weak (c_sp c) off0 bytes0 L n s s')
                (fun L s1 s3 seg t => G_item (c_sp c) off0 bytes0 L n s1 s3 seg t) em st HT Hb) as H.
  cbv beta in H. destruct (snd (p_next c st)); [exact H| |exact H].
  destruct H as [stm [H Ha]]. eapply G_close; eassumption.
Qed.

Lemma p_run_all_G : forall limit em n st, G (em ++ ne_q (b_queue st)) n st -> b_bad st = None ->
  (exists pend, Res ((em ++ non_end_items (snd (p_run_all limit c st))) ++ pend) (n + nclean (snd (p_run_all limit c st)))) /\
  (b_bad (fst (p_run_all limit c st)) = None ->
   G ((em ++ non_end_items (snd (p_run_all limit c st))) ++ ne_q (b_queue (fst (p_run_all limit c st))))
     (n + nclean (snd (p_run_all limit c st))) (fst (p_run_all limit c st))).
Proof.
  induction limit as [|l IH]; intros em n st HT Hb; cbn [p_run_all].
  - cbn [fst snd]. change (non_end_items [OLimit]) with (@nil (tag * N)). change (nclean [OLimit]) with O.
    rewrite app_nil_r, Nat.add_0_r. split; [exists (ne_q (b_queue st)); eapply G_res, HT|intros _; exact HT].
  - pose proof (p_next_G em n st HT Hb) as H1. destruct (p_next c st) as [st1 r]. cbn [fst snd] in H1.
    destruct (b_bad st1) as [b|] eqn:Eb.
    { cbn [fst snd]. rewrite non_end_items_bad, nclean_bad, app_nil_r, Nat.add_1_r.
      split; [exists (ne_q (b_queue st)); eapply G_res_close, HT|rewrite Eb; discriminate]. }
    destruct r as [t o|e|].
    + specialize (IH (em ++ ne_q [QOk t o]) n st1 H1 Eb). destruct (p_run_all l c st1) as [st2 outs]. cbn [fst snd] in *.
      rewrite non_end_items_item. change (nclean (OItem t o :: outs)) with (nclean outs).
      rewrite (app_assoc em). exact IH.
    + cbn [fst snd]. change (non_end_items [OErr e]) with (@nil (tag * N)). change (nclean [OErr e]) with 1%nat.
      rewrite app_nil_r, Nat.add_1_r. split; [exists (ne_q (b_queue st1)); eapply G_res, H1|intros _; exact H1].
    + cbn [fst snd]. change (non_end_items [ONone]) with (@nil (tag * N)). change (nclean [ONone]) with O.
      rewrite app_nil_r, Nat.add_0_r. split; [exists (ne_q (b_queue st1)); eapply G_res, H1|intros _; exact H1].
Qed.

Lemma p_run_ops_G limit : forall ops em n st, G (em ++ ne_q (b_queue st)) n st -> b_bad st = None ->
  exists pend, Res ((em ++ non_end_items (snd (p_run_ops c limit st ops))) ++ pend) (n + nclean (snd (p_run_ops c limit st ops))).
Proof.
  induction ops as [|op ops IH]; intros em n st HT Hb; cbn [p_run_ops].
  - cbn [snd]. change (non_end_items []) with (@nil (tag * N)). change (nclean []) with O.
    rewrite app_nil_r, Nat.add_0_r. exists (ne_q (b_queue st)). eapply G_res, HT.
  - destruct op.
    + pose proof (p_next_G em n st HT Hb) as H1. destruct (p_next c st) as [st1 r]. cbn [fst snd] in H1.
      destruct (b_bad st1) as [b|] eqn:Eb.
      { cbn [snd]. rewrite non_end_items_bad, nclean_bad, app_nil_r, Nat.add_1_r.
        exists (ne_q (b_queue st)). eapply G_res_close, HT. }
      destruct r as [t o|e|].
      * specialize (IH (em ++ ne_q [QOk t o]) n st1 H1 Eb). destruct (p_run_ops c limit st1 ops) as [st2 outs]. cbn [snd] in *.
        rewrite non_end_items_item. change (nclean (OItem t o :: outs)) with (nclean outs).
        rewrite (app_assoc em). exact IH.
      * specialize (IH em (S n) st1 H1 Eb). destruct (p_run_ops c limit st1 ops) as [st2 outs]. cbn [snd] in *.
        change (non_end_items (OErr e :: outs)) with (non_end_items outs).
        change (nclean (OErr e :: outs)) with (S (nclean outs)). rewrite Nat.add_succ_r. exact IH.
      * specialize (IH em n st1 H1 Eb). destruct (p_run_ops c limit st1 ops) as [st2 outs]. cbn [snd] in *.
        change (non_end_items (ONone :: outs)) with (non_end_items outs).
        change (nclean (ONone :: outs)) with (nclean outs). exact IH.
    + destruct (p_try_recover_adv c st) as [Ha Hq]. destruct (p_try_recover c st) as [st1 r]. cbn [fst] in Ha, Hq.
      assert (H1 : G (em ++ ne_q (b_queue st1)) (S n) st1) by (rewrite Hq; eapply G_close; [exact HT|exact Ha]).
      destruct (b_bad st1) as [b|] eqn:Eb.
      { cbn [snd]. rewrite non_end_items_bad, nclean_bad, app_nil_r, Nat.add_1_r.
        exists (ne_q (b_queue st)). eapply G_res_close, HT. }
      specialize (IH em (S n) st1 H1 Eb). destruct (p_run_ops c limit st1 ops) as [st2 outs]. cbn [snd] in *.
      destruct r as [e|].
      * change (non_end_items (ORecErr e :: outs)) with (non_end_items outs).
        change (nclean (ORecErr e :: outs)) with (S (nclean outs)). rewrite Nat.add_succ_r. exact IH.
      * change (non_end_items (ORecOk :: outs)) with (non_end_items outs).
        change (nclean (ORecOk :: outs)) with (S (nclean outs)). rewrite Nat.add_succ_r. exact IH.
    + destruct (p_run_all_G limit em n st HT Hb) as [Ha Hj]. destruct (p_run_all limit c st) as [st1 outs1]. cbn [fst snd] in *.
      destruct (b_bad st1) eqn:Eb; [exact Ha|].
      specialize (IH (em ++ non_end_items outs1) (n + nclean outs1)%nat st1 (Hj eq_refl) Eb).
      destruct (p_run_ops c limit st1 ops) as [st2 outs]. cbn [snd] in *.
      rewrite non_end_items_app, nclean_app, (app_assoc em), Nat.add_assoc. exact IH.
Qed.

End SegRuns.

Lemma GA_init sp input : GIa sp 0 input [] [] [] (p_init input).
Proof.
  exists 0, input, 0, input, []. cbn.
  split; [apply SegD_nil|]. split; [apply Tiles_nil|]. repeat (split; [reflexivity|]). intros _ _. reflexivity.
Qed.

Lemma G_init sp input : GI sp 0 input [] 0 (p_init input).
Proof. exists [], [], []. split; [reflexivity|]. split; [reflexivity|]. apply GA_init. Qed.

(* C03, segmented tiling of a whole run, errors and recoveries included: for every input and every sequence of operations, with
   nothing buffered and any tolerance settings, the non-End items of the run, followed by the non-End items [pend] the reader
   had already read but not yet handed out when the run ended, can be cut into 1 + (number of non-clean outcomes) consecutive
   stretches that tile the input with gaps only between stretches *)
Theorem run_tiles_segmented : forall c input ops, c_buffered c = [] ->
  exists ss gaps pend, SegTiles (c_sp c) 0 input ss gaps /\ concat ss = non_end_items (p_run c input ops) ++ pend /\
                  length ss = S (nclean (p_run c input ops)).
Proof.
  intros c input ops Hbuf. unfold p_run.
  destruct (p_run_ops_G c 0 input Hbuf (4 * length input + 64) ops [] 0 (p_init input) (G_init _ _) eq_refl) as [pend [ss [gaps [A [B C]]]]].
  exists ss, gaps, pend. split; [exact A|]. split; [exact B|exact C].
Qed.

(* ================================================================== stretches aligned with the outcomes *)
(* the outcomes of a run cut at the non-clean outcomes (OErr, ORecOk, ORecErr, OPanic, OFuel; these belong to no stretch): the
   maximal clean stretches, in order; the first one is [clean_prefix] *)
Fixpoint stretches (outs : list rout) : list (list rout) :=
  match outs with
  | [] => [[]]
  | o :: r => if clean o then match stretches r with s :: ss => (o :: s) :: ss | [] => [[o]] end else [] :: stretches r
  end.

(* the same on the non-End items, with the items of the current stretch accumulated in [cur] *)
Fixpoint stretch_items (cur : list (tag * N)) (outs : list rout) : list (list (tag * N)) :=
  match outs with
  | [] => [cur]
  | o :: r => if clean o then stretch_items (cur ++ non_end_items [o]) r else cur :: stretch_items [] r
  end.

Lemma stretches_ne outs : stretches outs <> [].
Proof. destruct outs as [|o r]; cbn [stretches]; [discriminate|]. destruct (clean o); [destruct (stretches r)|]; discriminate. Qed.

Lemma stretches_head outs : hd [] (stretches outs) = clean_prefix outs.
Proof.
  induction outs as [|o r IH]; [reflexivity|]. cbn [stretches clean_prefix]. destruct (clean o); [|reflexivity].
  destruct (stretches r) as [|s ss] eqn:E; [exfalso; exact (stretches_ne _ E)|]. cbn [hd] in *. rewrite IH. reflexivity.
Qed.

Lemma stretch_items_spec : forall outs cur,
  stretch_items cur outs =
  match stretches outs with s :: ss => (cur ++ non_end_items s) :: map non_end_items ss | [] => [cur] end.
Proof.
  induction outs as [|o r IH]; intros cur; cbn [stretch_items stretches].
  - change (non_end_items []) with (@nil (tag * N)). rewrite app_nil_r. reflexivity.
  - destruct (clean o).
    + rewrite IH. destruct (stretches r) as [|s ss]; [reflexivity|].
      change (o :: s) with ([o] ++ s). rewrite non_end_items_app, app_assoc. reflexivity.
    + rewrite IH. change (non_end_items []) with (@nil (tag * N)). rewrite app_nil_r.
      destruct (stretches r) as [|s ss] eqn:E; [exfalso; exact (stretches_ne _ E)|]. reflexivity.
Qed.

Lemma stretch_items_nil outs : stretch_items [] outs = map non_end_items (stretches outs).
Proof.
  rewrite stretch_items_spec. destruct (stretches outs) as [|s ss] eqn:E; [exfalso; exact (stretches_ne _ E)|]. reflexivity.
Qed.

(* the discipline under which the stretches of outcomes are the stretches of the tiling: try_recover is not called while an
   item that was already read is still waiting to be handed out.  On the outcomes: a try_recover outcome is never directly
   preceded by an End item or by the item-limit outcome of a drain (after any other outcome, and at the start of the run,
   nothing is waiting). *)
Definition boundary (o : rout) : bool := match o with OItem (TEnd _) _ | OLimit => false | _ => true end.
Definition is_rec (o : rout) : bool := match o with ORecOk | ORecErr _ => true | _ => false end.
Fixpoint rec_ok (pb : bool) (outs : list rout) : bool :=
  match outs with [] => true | o :: r => (if is_rec o then pb else true) && rec_ok (boundary o) r end.

(* ------------------------------------------------------------------ the shape of the queue *)
Definition is_endq (x : qitem) : bool := match x with QOk (TEnd _) _ => true | _ => false end.

(* End items, then at most one other entry *)
Definition Qs (q : list qitem) : Prop := exists a tl, q = a ++ tl /\ forallb is_endq a = true /\ (length tl <= 1)%nat.

Lemma Qs_nil : Qs [].
Proof. exists [], []. split; [reflexivity|]. split; [reflexivity|cbn; lia]. Qed.

Lemma ends_endq l : forallb is_endq (map end_item l) = true.
Proof. induction l as [|f l IH]; [reflexivity|exact IH]. Qed.

Lemma Qs_ends l1 l2 tl : (length tl <= 1)%nat -> Qs (([] ++ map end_item l1) ++ map end_item l2 ++ tl).
Proof.
  intros H. exists (map end_item l1 ++ map end_item l2), tl. split; [cbn [app]; rewrite app_assoc; reflexivity|].
  split; [rewrite forallb_app, !ends_endq; reflexivity|exact H].
Qed.

Lemma Qs_pop x q : Qs (x :: q) -> Qs q /\ (is_endq x = false -> q = []).
Proof.
  intros [a [tl [E [Ha Hl]]]]. destruct a as [|y a].
  - cbn [app] in E. subst tl. cbn [length] in Hl. destruct q; [|cbn [length] in Hl; lia]. split; [apply Qs_nil|reflexivity].
  - cbn [app] in E. injection E as <- ->. cbn [forallb] in Ha. apply andb_prop in Ha. destruct Ha as [Hx Ha].
    split; [exists a, tl; split; [reflexivity|split; assumption]|]. intros F. rewrite F in Hx. discriminate.
Qed.

Section Shape.
Variable c : cfg.
Hypothesis Hbuf : c_buffered c = [].

Lemma p_read_next_Qs fuel st : b_queue st = [] -> Qs (b_queue (p_read_next fuel c st)).
Proof.
  intros Hq0. destruct fuel as [|f].
  - cbn [p_read_next pset_bad b_queue]. rewrite Hq0. apply Qs_nil.
  - rewrite p_read_next_unfold. cbn zeta.
    set (k1 := exhausted_count (b_off st) (b_stack st)). set (st1 := ppop_frames st k1).
    assert (Eq1 : b_queue st1 = [] ++ map end_item (firstn k1 (b_stack st))).
    { unfold st1, ppop_frames, ppush_q. cbn [pset_queue pset_stack b_queue]. rewrite Hq0. reflexivity. }
    unfold p_read_tag_checked. destruct (b_bytes st1) eqn:Eb.
    + destruct (c_emit_eof c).
      * unfold ppop_frames at 1. unfold ppush_q. cbn [pset_queue pset_stack b_queue]. rewrite Eq1.
        rewrite <- (app_nil_r (map end_item (firstn (length (b_stack st1)) (b_stack st1)))). apply Qs_ends. cbn; lia.
      * rewrite Eq1. rewrite <- (app_nil_r (_ ++ _)). change (@nil qitem) with (map end_item [] ++ []) at 2. apply Qs_ends. cbn; lia.
    + pose proof (p_read_tag_queue c st1) as Hq.
      destruct (p_read_tag c st1) as [st2 r2] eqn:Er. cbn [fst] in Hq.
      destruct r2 as [p|e|].
      * destruct (p_tag p) as [id v|id|id|id cs] eqn:Ep; try rewrite Hbuf; cbn [mem_id existsb];
          cbn [ppush_q ppop_frames pset_queue pset_stack b_queue]; rewrite Hq, Eq1, <- app_assoc; apply Qs_ends; cbn; lia.
      * cbn [ppush_q pset_queue b_queue]. rewrite Hq, Eq1. change [QErr e] with (map end_item [] ++ [QErr e]). apply Qs_ends. cbn; lia.
      * cbn [pset_bad b_queue]. rewrite Hq, Eq1. rewrite <- (app_nil_r (_ ++ _)). change (@nil qitem) with (map end_item [] ++ []) at 2.
        apply Qs_ends. cbn; lia.
Qed.

(* after an item that is not an End, after an error and after None the queue is empty *)
Lemma p_next_Qs st : Qs (b_queue st) ->
  Qs (b_queue (fst (p_next c st))) /\
  match snd (p_next c st) with NItem (TEnd _) _ => True | _ => b_queue (fst (p_next c st)) = [] end.
Proof.
  intros HQ. unfold p_next.
  assert (H1 : Qs (b_queue (match b_queue st with [] => p_read_next (b_fuel st) c st | _ :: _ => st end))).
  { destruct (b_queue st) eqn:Eq; [apply p_read_next_Qs, Eq|rewrite Eq; exact HQ]. }
  set (st1 := match b_queue st with [] => _ | _ => _ end) in *.
  destruct (b_queue st1) as [|[t o|e] q] eqn:Eq; cbn [fst snd].
  - rewrite Eq. split; [apply Qs_nil|reflexivity].
  - cbn [pset_last pset_queue b_queue]. destruct (Qs_pop _ _ H1) as [A B]. split; [exact A|].
    destruct t; try (apply B; reflexivity). exact I.
  - cbn [pset_queue b_queue]. destruct (Qs_pop _ _ H1) as [A B]. split; [exact A|apply B; reflexivity].
Qed.

End Shape.

(* ------------------------------------------------------------------ runs under the discipline *)
(* the non-clean outcomes of a run, in order: the i-th one is what separates stretch i-1 from stretch i *)
Definition cuts (outs : list rout) : list rout := filter (fun o => negb (clean o)) outs.

(* the gap that follows a successful try_recover is not empty *)
Definition GapsOk (outs : list rout) (gaps : list (list N)) : Prop :=
  Forall2 (fun o g => o = ORecOk -> g <> []) (cuts outs) gaps.

Lemma cuts_bad b : cuts [bad_out b] = [bad_out b].
Proof. destruct b; reflexivity. Qed.

Lemma GapsOk_bad b : GapsOk [bad_out b] [[]].
Proof. unfold GapsOk. rewrite cuts_bad. constructor; [destruct b; discriminate|constructor]. Qed.

Section AlignedRuns.
Variable c : cfg.
Variable off0 : N.
Variable bytes0 : list N.
Hypothesis Hbuf : c_buffered c = [].
Notation A := (GIa (c_sp c) off0 bytes0).
Notation ST := (SegTiles (c_sp c) off0 bytes0).

Lemma p_next_A done gaps em st : A done gaps (em ++ ne_q (b_queue st)) st -> b_bad st = None ->
  match snd (p_next c st) with
  | NItem t o => A done gaps ((em ++ ne_q [QOk t o]) ++ ne_q (b_queue (fst (p_next c st)))) (fst (p_next c st))
  | NNone => A done gaps (em ++ ne_q (b_queue (fst (p_next c st)))) (fst (p_next c st))
  | NErr _ => exists g, A (done ++ [em ++ ne_q (b_queue (fst (p_next c st)))]) (gaps ++ [g]) [] (fst (p_next c st))
  end.
Proof.
  intros HT Hb.
  pose proof (p_next_I c Hbuf (fun L s => A done gaps L s)
                (fun L s s' => GA_weak (c_sp c) off0 bytes0 done gaps L s s')
                (fun L s1 s3 seg t => GA_item (c_sp c) off0 bytes0 done gaps L s1 s3 seg t) em st HT Hb) as H.
  cbv beta in H. destruct (snd (p_next c st)); [exact H| |exact H].
  destruct H as [stm [H Ha]]. destruct (GA_close _ _ _ _ _ _ _ _ H Ha) as [g [Hg _]]. exists g. exact Hg.
Qed.

Lemma stretch_bad em b : stretch_items em [bad_out b] = [em; []].
Proof. destruct b; reflexivity. Qed.

(* what a continuation of the run has to deliver *)
Definition Goal_ (done : list (list (tag * N))) (gaps : list (list N)) (em : list (tag * N)) (outs : list rout) : Prop :=
  exists gaps2, ST (done ++ stretch_items em outs) (gaps ++ gaps2) /\ GapsOk outs gaps2.

Lemma Goal_fin done gaps em pend st : A done gaps (em ++ pend) st -> Goal_ done gaps em [].
Proof. intros H. exists []. rewrite app_nil_r. split; [eapply GA_fin, H|constructor]. Qed.

Lemma Goal_bad done gaps em pend st b : A done gaps (em ++ pend) st -> Goal_ done gaps em [bad_out b].
Proof. intros H. exists [[]]. rewrite stretch_bad. split; [eapply GA_fin2, H|apply GapsOk_bad]. Qed.

(* a clean outcome in front *)
Lemma Goal_clean done gaps em o outs : clean o = true ->
  Goal_ done gaps (em ++ non_end_items [o]) outs -> Goal_ done gaps em (o :: outs).
Proof.
  intros Hc [g2 [H1 H2]]. exists g2. cbn [stretch_items]. rewrite Hc. split; [exact H1|].
  unfold GapsOk, cuts in *. cbn [filter]. rewrite Hc. exact H2.
Qed.

(* a non-clean outcome in front, with its gap *)
Lemma Goal_cut done gaps em o outs g : clean o = false -> (o = ORecOk -> g <> []) ->
  Goal_ (done ++ [em]) (gaps ++ [g]) [] outs -> Goal_ done gaps em (o :: outs).
Proof.
  intros Hc Hg [g2 [H1 H2]]. exists (g :: g2). cbn [stretch_items]. rewrite Hc. split.
  - rewrite <- !app_assoc in H1. exact H1.
  - unfold GapsOk, cuts in *. cbn [filter]. rewrite Hc. constructor; [exact Hg|exact H2].
Qed.

Lemma p_run_all_A : forall limit done gaps em pb st,
  A done gaps (em ++ ne_q (b_queue st)) st -> b_bad st = None -> Qs (b_queue st) ->
  (b_bad (fst (p_run_all limit c st)) <> None -> Goal_ done gaps em (snd (p_run_all limit c st))) /\
  (b_bad (fst (p_run_all limit c st)) = None -> forall outs2,
     (forall done' gaps' em' pb', A done' gaps' (em' ++ ne_q (b_queue (fst (p_run_all limit c st)))) (fst (p_run_all limit c st)) ->
        Qs (b_queue (fst (p_run_all limit c st))) -> (pb' = true -> ne_q (b_queue (fst (p_run_all limit c st))) = []) ->
        rec_ok pb' outs2 = true -> Goal_ done' gaps' em' outs2) ->
     rec_ok pb (snd (p_run_all limit c st) ++ outs2) = true ->
     Goal_ done gaps em (snd (p_run_all limit c st) ++ outs2)).
Proof.
  induction limit as [|l IH]; intros done gaps em pb st HT Hb HQ; cbn [p_run_all].
  - cbn [fst snd]. split; [intros F; contradiction|]. intros _ outs2 K Hr.
    cbn [app rec_ok is_rec boundary andb] in Hr |- *. apply Goal_clean; [reflexivity|].
    change (non_end_items [OLimit]) with (@nil (tag * N)).
    apply (K done gaps (em ++ []) false); [rewrite app_nil_r; exact HT|exact HQ|discriminate|exact Hr].
  - pose proof (p_next_A done gaps em st HT Hb) as H1. pose proof (p_next_Qs c Hbuf st HQ) as [HQ1 HE].
    destruct (p_next c st) as [st1 r]. cbn [fst snd] in H1, HQ1, HE.
    destruct (b_bad st1) as [b|] eqn:Eb.
    { cbn [fst snd]. split; [intros _; eapply Goal_bad, HT|rewrite Eb; discriminate]. }
    destruct r as [t o|e|].
    + specialize (IH done gaps (em ++ ne_q [QOk t o]) (boundary (OItem t o)) st1 H1 Eb HQ1).
      destruct (p_run_all l c st1) as [st2 outs]. cbn [fst snd] in *. destruct IH as [I1 I2]. split.
      * intros F. apply Goal_clean; [reflexivity|]. exact (I1 F).
      * intros E outs2 K Hr. cbn [app]. cbn [app rec_ok is_rec andb] in Hr. apply Goal_clean; [reflexivity|]. exact (I2 E outs2 K Hr).
    + cbn [fst snd]. rewrite HE in H1. cbn [ne_q flat_map] in H1. rewrite app_nil_r in H1. destruct H1 as [g H1].
      split; [intros F; contradiction|]. intros _ outs2 K Hr.
      cbn [app rec_ok is_rec boundary andb] in Hr |- *. apply (Goal_cut _ _ _ _ _ g); [reflexivity|discriminate|].
      apply (K (done ++ [em]) (gaps ++ [g]) [] true); [rewrite HE; exact H1|rewrite HE; apply Qs_nil|intros _; rewrite HE; reflexivity|exact Hr].
    + cbn [fst snd]. split; [intros F; contradiction|]. intros _ outs2 K Hr.
      cbn [app rec_ok is_rec boundary andb] in Hr |- *. apply Goal_clean; [reflexivity|].
      change (non_end_items [ONone]) with (@nil (tag * N)).
      apply (K done gaps (em ++ []) true); [rewrite app_nil_r; exact H1|exact HQ1|intros _; rewrite HE; reflexivity|exact Hr].
Qed.

Lemma p_run_ops_A limit : forall ops done gaps em pb st,
  A done gaps (em ++ ne_q (b_queue st)) st -> b_bad st = None -> Qs (b_queue st) -> (pb = true -> ne_q (b_queue st) = []) ->
  rec_ok pb (snd (p_run_ops c limit st ops)) = true ->
  Goal_ done gaps em (snd (p_run_ops c limit st ops)).
Proof.
  induction ops as [|op ops IH]; intros done gaps em pb st HT Hb HQ Hpb; cbn [p_run_ops].
  - intros _. cbn [snd]. eapply Goal_fin, HT.
  - destruct op.
    + pose proof (p_next_A done gaps em st HT Hb) as H1. pose proof (p_next_Qs c Hbuf st HQ) as [HQ1 HE].
      destruct (p_next c st) as [st1 r]. cbn [fst snd] in H1, HQ1, HE.
      destruct (b_bad st1) as [b|] eqn:Eb.
      { intros _. cbn [snd]. eapply Goal_bad, HT. }
      destruct r as [t o|e|].
      * specialize (IH done gaps (em ++ ne_q [QOk t o]) (boundary (OItem t o)) st1 H1 Eb HQ1).
        destruct (p_run_ops c limit st1 ops) as [st2 outs]. cbn [snd] in *. intros Hr.
        cbn [rec_ok is_rec andb] in Hr. apply Goal_clean; [reflexivity|]. apply IH; [|exact Hr].
        intros Hbd. destruct t; try discriminate Hbd; rewrite HE; reflexivity.
      * rewrite HE in H1. cbn [ne_q flat_map] in H1. rewrite app_nil_r in H1. destruct H1 as [g H1].
        specialize (IH (done ++ [em]) (gaps ++ [g]) [] true st1). destruct (p_run_ops c limit st1 ops) as [st2 outs]. cbn [snd] in *. intros Hr.
        cbn [rec_ok is_rec boundary andb] in Hr. apply (Goal_cut _ _ _ _ _ g); [reflexivity|discriminate|].
        apply IH; [rewrite HE; exact H1|exact Eb|exact HQ1|intros _; rewrite HE; reflexivity|exact Hr].
      * specialize (IH done gaps em true st1 H1 Eb HQ1). destruct (p_run_ops c limit st1 ops) as [st2 outs]. cbn [snd] in *. intros Hr.
        cbn [rec_ok is_rec boundary andb] in Hr. apply Goal_clean; [reflexivity|]. change (non_end_items [ONone]) with (@nil (tag * N)).
        rewrite app_nil_r. apply IH; [intros _; rewrite HE; reflexivity|exact Hr].
    + destruct (p_try_recover_adv c st) as [Ha Hq]. pose proof (try_recover_ok_strict c st) as Hs.
      destruct (p_try_recover c st) as [st1 r]. cbn [fst] in Ha, Hq.
      destruct (b_bad st1) as [b|] eqn:Eb.
      { intros _. cbn [snd]. eapply Goal_bad, HT. }
      destruct (p_run_ops c limit st1 ops) as [st2 outs] eqn:Eo. cbn [snd] in *. intros Hr.
      assert (Hr' : pb = true /\ rec_ok true outs = true).
      { destruct r; cbn [rec_ok is_rec boundary] in Hr; apply andb_prop in Hr; exact Hr. }
      destruct Hr' as [Hp Hr']. specialize (Hpb Hp). rewrite Hpb, app_nil_r in HT.
      destruct (GA_close _ _ _ _ _ _ _ _ HT Ha) as [g [Hg Hne]].
      apply (Goal_cut _ _ _ _ _ g); [destruct r; reflexivity| |].
      * destruct r as [e|]; [discriminate|]. intros _. apply Hne. apply (Hs st1 eq_refl Eb).
      * specialize (IH (done ++ [em]) (gaps ++ [g]) [] true st1). rewrite Eo in IH. cbn [snd] in IH.
        apply IH; [rewrite Hq, Hpb; exact Hg|exact Eb|rewrite Hq; exact HQ|intros _; rewrite Hq; exact Hpb|exact Hr'].
    + destruct (p_run_all_A limit done gaps em pb st HT Hb HQ) as [P1 P2].
      destruct (p_run_all limit c st) as [st1 outs1]. cbn [fst snd] in *.
      destruct (b_bad st1) eqn:Eb.
      { intros _. apply P1. discriminate. }
      specialize (P2 eq_refl). destruct (p_run_ops c limit st1 ops) as [st2 outs] eqn:Eo. cbn [snd] in *.
      intros Hr. apply (P2 outs); [|exact Hr].
      intros done' gaps' em' pb' Q1 Q2 Q3 Q4. specialize (IH done' gaps' em' pb' st1 Q1 Eb Q2 Q3). rewrite Eo in IH. apply IH, Q4.
Qed.

End AlignedRuns.

(* C03, segmented tiling aligned with the outcomes: nothing buffered, any tolerance settings, every input, every sequence of
   operations in which try_recover is never called right after an End item or an item-limit outcome ([rec_ok true]): cut the
   outcomes at the non-clean ones ([cuts], k of them); the non-End items of the resulting stretches s_0 .. s_k tile the input
   with gaps g_1 .. g_k only between stretches: input = tile(s_0) ++ g_1 ++ tile(s_1) ++ .. ++ g_k ++ tile(s_k) ++ rest; the
   gap that corresponds to a successful try_recover is not empty *)
Theorem run_tiles_aligned : forall c input ops, c_buffered c = [] -> rec_ok true (p_run c input ops) = true ->
  exists gaps, SegTiles (c_sp c) 0 input (map non_end_items (stretches (p_run c input ops))) gaps /\
               Forall2 (fun o g => o = ORecOk -> g <> []) (cuts (p_run c input ops)) gaps.
Proof.
  intros c input ops Hbuf Hr. rewrite <- stretch_items_nil. unfold p_run in *.
  destruct (p_run_ops_A c 0 input Hbuf (4 * length input + 64) ops [] [] [] true (p_init input)) as [g2 [H1 H2]];
    [apply GA_init|reflexivity|apply Qs_nil|reflexivity|exact Hr|].
  exists g2. split; [exact H1|exact H2].
Qed.
