(* C12 — truncated input yields the complete prefix, then an accurate end-of-file error.  Statements only.
   A truncated document [tdoc] (Proofs/Partial.v) is given by the masters that are open at the cut (outermost first; each
   with the complete sibling trees in front of it, its id, size-field width and DECLARED size — which may exceed what is
   there), the complete trees at the innermost level, and the tail: nothing (the cut is on a tag boundary) or the first k
   bytes of one more tag x (0 < k < cut_limit x: a master counts as complete once its header is).
   Every prefix of the encoding of every conforming document is such a truncated document: [cut_doc f k]
   (Proofs/CutExists.v) computes it for the first k bytes of [enc_forest f], and [C12_every_cut_partial] states the run of
   the reader on that prefix.
   PARTIAL: the statements cover the two classes of documents of C01:
   - first class ([conf], [conf_tdoc]; Proofs/Partial.v, Proofs/CutExists.v): declared paths without global placeholders,
     masters of known or unknown size;
   - second class ([kconf], [kconf_tdoc]; Proofs/RoundTripKnown.v, Proofs/PartialKnown.v): every master (complete or open at
     the cut) has a known size, and a declared path only has to MATCH the chain of masters the element sits in, so global
     placeholders are allowed (global elements such as Void / Crc32 at any depth, recursive masters).  Start hypothesis
     ([tdstart], part of [kconf_tdoc]; [dstart] for a complete document): in reading order the first element declared with
     a placeholder-free path is a root element — in particular when the document starts with a root element
     ([tdoc_root_start], [starts_at_root_dstart]).  See the statements [C12_*_known_partial] at the end of this file.
   Not covered: unknown-size masters together with global placeholders. *)
From Ebml Require Import Base Tools Spec Writer Reader Pure Encode Proofs.Tactics Proofs.ReaderIO Proofs.Refine Proofs.PureProofs Proofs.RoundTrip Proofs.RoundTripKnown Proofs.Partial Proofs.CutExists Proofs.PartialKnown.
From Ebml Require Import Proofs.DStart.

(* the reader yields exactly: the items of everything complete (Starts of the open masters included; Ends of complete
   masters lazily, as always), then
   - on a tag boundary: the Ends of all open masters, innermost first, and None;
   - inside a tag: the Ends of the known-size masters that are complete at that point, and the error
     [cut_error off x k] = UnexpectedEof at the start offset of the incomplete tag, with the id iff the id bytes are complete
     (k >= length of the id), the size iff the header is complete, and exactly the payload bytes that are there.
   Never a corruption error. *)
Theorem C12_truncated_run_partial : forall c td, strict c -> c_buffered c = [] -> c_emit_eof c = true -> conf_tdoc c td ->
  p_run c (enc_tdoc td) [RAll] = out_tdoc td.
Proof. exact truncated_run. Qed.

(* ... for every buffer capacity and chunking *)
Theorem C12_truncated_run_buffered_partial : forall c td cap0 script, calm script -> strict c -> c_buffered c = [] -> c_emit_eof c = true ->
  conf_tdoc c td -> run_reader c cap0 script (enc_tdoc td) [RAll] = out_tdoc td.
Proof. intros c td cap0 script Hc. rewrite buffered_refines_pure by exact Hc. apply truncated_run. Qed.

(* the local statement, at any nesting depth and reader state: the input ends inside the next tag *)
Theorem C12_truncated_tag : forall c st T stk ids ext x k, strict c -> c_buffered c = [] -> pre c st T stk ids ext -> conf c ids x ->
  tlen x <= ext -> (0 < k < cut_limit x)%nat -> b_bytes st = firstn k (enc_tree x) ->
  forall n, snd (p_run_all (exhausted_count (b_off st) (T ++ stk) + S n) c st) =
            map end_out (firstn (exhausted_count (b_off st) (T ++ stk)) (T ++ stk)) ++ [OErr (cut_error (b_off st) x k)].
Proof. exact truncated_tag. Qed.

(* every cut of every conforming document, at every byte position 0 <= k <= length: the first k bytes ARE the truncated document
   [cut_doc f k] (it conforms, and its encoding is the prefix) ... *)
Theorem C12_cut_doc_correct : forall c f k, Forall (conf c []) f -> (k <= length (enc_forest f))%nat ->
  conf_tdoc c (cut_doc f k) /\ enc_tdoc (cut_doc f k) = firstn k (enc_forest f).
Proof. exact cut_doc_correct. Qed.

(* ... so the reader run on the prefix yields exactly the outputs described above for [cut_doc f k] *)
Theorem C12_every_cut_partial : forall c f k, strict c -> c_buffered c = [] -> c_emit_eof c = true -> Forall (conf c []) f ->
  (k <= length (enc_forest f))%nat -> p_run c (firstn k (enc_forest f)) [RAll] = out_tdoc (cut_doc f k).
Proof. exact every_prefix_reads. Qed.

(* ... for every buffer capacity and chunking *)
Theorem C12_every_cut_buffered_partial : forall c f k cap0 script, calm script -> strict c -> c_buffered c = [] -> c_emit_eof c = true ->
  Forall (conf c []) f -> (k <= length (enc_forest f))%nat ->
  run_reader c cap0 script (firstn k (enc_forest f)) [RAll] = out_tdoc (cut_doc f k).
Proof. intros c f k cap0 script Hc. rewrite buffered_refines_pure by exact Hc. apply every_prefix_reads. Qed.

Definition C12_sp : spec :=
  [ {| e_id := 129; e_ty := DMaster; e_path := [] |}; {| e_id := 16643; e_ty := DMaster; e_path := [PId 129] |};
    {| e_id := 16642; e_ty := DBinary; e_path := [PId 129; PId 16643] |}; {| e_id := 16641; e_ty := DUInt; e_path := [PId 129] |} ].
Definition C12_cfg : cfg :=
  {| c_sp := C12_sp; c_allow_id := false; c_allow_hier := false; c_allow_over := false; c_max := Some 4000000000; c_buffered := [];
     c_emit_eof := true |}.
(* Root (declared 40 bytes) { UInt 5; Parent (declared 20 bytes) { Bin [7]; <cut> } } *)
Definition C12_levels : list level :=
  [ {| lv_f := []; lv_id := 129; lv_sl := 1; lv_size := Some 40 |};
    {| lv_f := [RLeaf 16641 (VU 5) [5] 1%nat]; lv_id := 16643; lv_sl := 1; lv_size := Some 20 |} ].
Definition C12_td (tl : cut_tail) : tdoc := {| td_levels := C12_levels; td_f := [RLeaf 16642 (VB [7]) [7] 1%nat]; td_tail := tl |}.
Definition C12_next : rtree := RLeaf 16642 (VB [1; 2; 3; 4]) [1; 2; 3; 4] 1%nat.

Example C12_ex_conf : strict C12_cfg /\ conf_tdoc C12_cfg (C12_td CutBoundary) /\ conf_tdoc C12_cfg (C12_td (CutTag C12_next 5)).
Proof.
  assert (I1 : idok 129) by (exists 1%nat, 1; repeat split; cbn; lia).
  assert (I2 : idok 16643) by (exists 2%nat, 259; repeat split; cbn; lia).
  assert (I3 : idok 16642) by (exists 2%nat, 258; repeat split; cbn; lia).
  assert (I4 : idok 16641) by (exists 2%nat, 257; repeat split; cbn; lia).
  assert (L1 : conf C12_cfg [129] (RLeaf 16641 (VU 5) [5] 1%nat)).
  { split; [exact I4|]. split; [lia|]. split; [vm_compute; reflexivity|]. split; [repeat constructor; lia|].
    split; [exists DUInt; split; [reflexivity|split; [discriminate|reflexivity]]|]. split; [reflexivity|vm_compute; discriminate]. }
  assert (L2 : forall bs, wf_bytes bs -> N.of_nat (length bs) < 126 -> conf C12_cfg [129; 16643] (RLeaf 16642 (VB bs) bs 1%nat)).
  { intros bs Hw Hl. split; [exact I3|]. split; [lia|]. split; [change (2 ^ (7 * N.of_nat 1) - 1) with 127; lia|]. split; [exact Hw|].
    split; [exists DBinary; split; [reflexivity|split; [discriminate|reflexivity]]|]. split; [reflexivity|]. cbn. lia. }
  assert (HL : forall inner, inner <= 20 -> conf_levels C12_cfg [] C12_levels inner).
  { intros inner Hi. cbn [conf_levels C12_levels lv_f lv_id lv_sl lv_size].
    split; [constructor|]. split; [exact I1|]. split; [reflexivity|]. split; [reflexivity|]. split; [split; [lia|vm_compute; reflexivity]|].
    split; [vm_compute; discriminate|]. split.
    { intros n Hn. injection Hn as <-. cbn [levels_ext lv_f lv_size]. unfold lv_hl. cbn [lv_id lv_sl lv_size fsl]. vm_compute. discriminate. }
    split; [constructor; [exact L1|constructor]|]. split; [exact I2|]. split; [reflexivity|]. split; [reflexivity|].
    split; [split; [lia|vm_compute; reflexivity]|]. split; [vm_compute; discriminate|]. split; [|exact I].
    intros n Hn. injection Hn as <-. cbn [levels_ext]. exact Hi. }
  split; [repeat split|]. split.
  - split; [apply HL; vm_compute; discriminate|]. split; [|exact I].
    constructor; [apply L2; [repeat constructor; lia|vm_compute; reflexivity]|constructor].
  - split; [apply HL; vm_compute; discriminate|]. split.
    + constructor; [apply L2; [repeat constructor; lia|vm_compute; reflexivity]|constructor].
    + split; [apply L2; [repeat constructor; lia|vm_compute; reflexivity]|]. vm_compute. split; lia.
Qed.

Example C12_ex_run :
  enc_tdoc (C12_td (CutTag C12_next 5)) = [129; 168; 65; 1; 129; 5; 65; 3; 148; 65; 2; 129; 7; 65; 2; 132; 1; 2] /\
  p_run C12_cfg (enc_tdoc (C12_td CutBoundary)) [RAll] =
    [OItem (TStart 129) 0; OItem (TElem 16641 (VU 5)) 2; OItem (TStart 16643) 6; OItem (TElem 16642 (VB [7])) 9;
     OItem (TEnd 16643) 6; OItem (TEnd 129) 0; ONone] /\
  p_run C12_cfg (enc_tdoc (C12_td (CutTag C12_next 5))) [RAll] =
    [OItem (TStart 129) 0; OItem (TElem 16641 (VU 5)) 2; OItem (TStart 16643) 6; OItem (TElem 16642 (VB [7])) 9;
     OErr (REof 13 (Some 16642) (Some 4) (Some [1; 2]))] /\
  p_run C12_cfg (enc_tdoc (C12_td (CutTag C12_next 1))) [RAll] =
    [OItem (TStart 129) 0; OItem (TElem 16641 (VU 5)) 2; OItem (TStart 16643) 6; OItem (TElem 16642 (VB [7])) 9;
     OErr (REof 13 None None None)] /\
  p_run C12_cfg (enc_tdoc (C12_td (CutTag C12_next 2))) [RAll] =
    [OItem (TStart 129) 0; OItem (TElem 16641 (VU 5)) 2; OItem (TStart 16643) 6; OItem (TElem 16642 (VB [7])) 9;
     OErr (REof 13 (Some 16642) None None)].
Proof. vm_compute. repeat split; reflexivity. Qed.

(* [cut_doc] on a complete nested document, Root { UInt 5; Parent { Bin [7]; Bin [1;2;3;4] } } (20 bytes; declared sizes 18 and
   11), cut after 13 bytes (on the boundary in front of the last element), after 14 (inside its id) and after 18 (inside its
   payload): the same open masters as above, now with their true declared sizes, and the same runs *)
Definition C12_doc : list rtree :=
  [RNode 129 (Some 1%nat) [RLeaf 16641 (VU 5) [5] 1%nat; RNode 16643 (Some 1%nat) [RLeaf 16642 (VB [7]) [7] 1%nat; C12_next]]].
Definition C12_cut_levels : list level :=
  [ {| lv_f := []; lv_id := 129; lv_sl := 1; lv_size := Some 18 |};
    {| lv_f := [RLeaf 16641 (VU 5) [5] 1%nat]; lv_id := 16643; lv_sl := 1; lv_size := Some 11 |} ].
Definition C12_cut_td (tl : cut_tail) : tdoc :=
  {| td_levels := C12_cut_levels; td_f := [RLeaf 16642 (VB [7]) [7] 1%nat]; td_tail := tl |}.

Example C12_ex_cut :
  enc_forest C12_doc = [129; 146; 65; 1; 129; 5; 65; 3; 139; 65; 2; 129; 7; 65; 2; 132; 1; 2; 3; 4] /\
  cut_doc C12_doc 13 = C12_cut_td CutBoundary /\
  cut_doc C12_doc 14 = C12_cut_td (CutTag C12_next 1) /\
  cut_doc C12_doc 18 = C12_cut_td (CutTag C12_next 5) /\
  cut_doc C12_doc 7 =
    {| td_levels := [ {| lv_f := []; lv_id := 129; lv_sl := 1; lv_size := Some 18 |} ]; td_f := [RLeaf 16641 (VU 5) [5] 1%nat];
       td_tail := CutTag (RNode 16643 (Some 1%nat) [RLeaf 16642 (VB [7]) [7] 1%nat; C12_next]) 1 |} /\
  cut_doc C12_doc 20 = {| td_levels := []; td_f := C12_doc; td_tail := CutBoundary |} /\
  p_run C12_cfg (firstn 13 (enc_forest C12_doc)) [RAll] =
    [OItem (TStart 129) 0; OItem (TElem 16641 (VU 5)) 2; OItem (TStart 16643) 6; OItem (TElem 16642 (VB [7])) 9;
     OItem (TEnd 16643) 6; OItem (TEnd 129) 0; ONone] /\
  p_run C12_cfg (firstn 14 (enc_forest C12_doc)) [RAll] =
    [OItem (TStart 129) 0; OItem (TElem 16641 (VU 5)) 2; OItem (TStart 16643) 6; OItem (TElem 16642 (VB [7])) 9;
     OErr (REof 13 None None None)] /\
  p_run C12_cfg (firstn 18 (enc_forest C12_doc)) [RAll] =
    [OItem (TStart 129) 0; OItem (TElem 16641 (VU 5)) 2; OItem (TStart 16643) 6; OItem (TElem 16642 (VB [7])) 9;
     OErr (REof 13 (Some 16642) (Some 4) (Some [1; 2]))] /\
  out_tdoc (cut_doc C12_doc 13) = p_run C12_cfg (firstn 13 (enc_forest C12_doc)) [RAll] /\
  out_tdoc (cut_doc C12_doc 14) = p_run C12_cfg (firstn 14 (enc_forest C12_doc)) [RAll] /\
  out_tdoc (cut_doc C12_doc 18) = p_run C12_cfg (firstn 18 (enc_forest C12_doc)) [RAll].
Proof. vm_compute. repeat split; reflexivity. Qed.

(* ------------------------------------------------------------------ second class: known sizes, global placeholders allowed *)
(* A truncated document of the second class, [kconf_tdoc c td]:
   - [kconf_levels]: the complete trees in front of each open master satisfy [kconf]; each open master is declared a master
     with a path that MATCHES the chain of the masters opened before it ([path_matches], placeholders allowed), has a KNOWN
     declared size that fits its size field and [c_max], and that size is at least the extent of what lies inside it;
   - the complete trees at the innermost level and the incomplete tag satisfy [kconf] at the chain of all open masters;
   - [tdstart]: the start hypothesis described in the header.
   The outputs are the same [out_tdoc td] as for the first class. *)
Theorem C12_truncated_run_known_partial : forall c td, strict c -> c_buffered c = [] -> c_emit_eof c = true -> kconf_tdoc c td ->
  p_run c (enc_tdoc td) [RAll] = out_tdoc td.
Proof. exact truncated_run_known. Qed.

(* ... for every buffer capacity and chunking *)
Theorem C12_truncated_run_known_buffered_partial : forall c td cap0 script, calm script -> strict c -> c_buffered c = [] ->
  c_emit_eof c = true -> kconf_tdoc c td -> run_reader c cap0 script (enc_tdoc td) [RAll] = out_tdoc td.
Proof. intros c td cap0 script Hc. rewrite buffered_refines_pure by exact Hc. apply truncated_run_known. Qed.

(* the start hypothesis holds when the very first element of the truncated document is a root element *)
Theorem C12_known_root_start : forall c td,
  match tdoc_first_id td with Some id => get_path (c_sp c) id = [] | None => True end -> tdstart c td.
Proof. exact tdoc_root_start. Qed.

(* the local statement, at any nesting depth and reader state: the input ends inside the next tag *)
Theorem C12_truncated_tag_known : forall c st T stk ids ext x k, strict c -> c_buffered c = [] -> kpre st T stk ids ext ->
  (b_det st = true \/ all_ids (get_path (c_sp c) (root_id x)) = false \/ get_path (c_sp c) (root_id x) = []) ->
  kconf c ids x -> tlen x <= ext -> (0 < k < cut_limit x)%nat -> b_bytes st = firstn k (enc_tree x) ->
  forall n, snd (p_run_all (exhausted_count (b_off st) (T ++ stk) + S n) c st) =
            map end_out (firstn (exhausted_count (b_off st) (T ++ stk)) (T ++ stk)) ++ [OErr (cut_error (b_off st) x k)].
Proof. exact ktruncated_tag. Qed.

(* every cut of every conforming document of the second class, at every byte position: the first k bytes ARE the truncated
   document [cut_doc f k] ... *)
Theorem C12_cut_doc_correct_known : forall c f k, Forall (kconf c []) f -> (k <= length (enc_forest f))%nat -> dstart c f ->
  kconf_tdoc c (cut_doc f k) /\ enc_tdoc (cut_doc f k) = firstn k (enc_forest f).
Proof. exact cut_doc_correct_known. Qed.

(* ... so the reader run on the prefix yields exactly the outputs described above for [cut_doc f k] *)
Theorem C12_every_cut_known_partial : forall c f k, strict c -> c_buffered c = [] -> c_emit_eof c = true ->
  Forall (kconf c []) f -> dstart c f -> (k <= length (enc_forest f))%nat ->
  p_run c (firstn k (enc_forest f)) [RAll] = out_tdoc (cut_doc f k).
Proof. exact every_prefix_reads_known. Qed.

(* ... for every buffer capacity and chunking *)
Theorem C12_every_cut_known_buffered_partial : forall c f k cap0 script, calm script -> strict c -> c_buffered c = [] ->
  c_emit_eof c = true -> Forall (kconf c []) f -> dstart c f -> (k <= length (enc_forest f))%nat ->
  run_reader c cap0 script (firstn k (enc_forest f)) [RAll] = out_tdoc (cut_doc f k).
Proof. intros c f k cap0 script Hc. rewrite buffered_refines_pure by exact Hc. apply every_prefix_reads_known. Qed.

(* the same without start hypothesis, for a consistent specification ([consistent (c_sp c)], Proofs/DStart.v: every declared
   path that ends in an identifier is that master's declared path followed by it - true of every specification the derive macro
   generates, C01_derive_consistent): every cut of every conforming document of the second class is a truncated document of
   the class ... *)
Theorem C12_cut_doc_correct_known_consistent : forall c f k, consistent (c_sp c) -> Forall (kconf c []) f ->
  (k <= length (enc_forest f))%nat -> kconf_tdoc c (cut_doc f k) /\ enc_tdoc (cut_doc f k) = firstn k (enc_forest f).
Proof. exact cut_doc_correct_known_consistent. Qed.

(* ... and the strict reader (no buffered masters, End items at the end of the input) run on the first k bytes yields exactly
   the outputs of [cut_doc f k] *)
Theorem C12_every_cut_known_consistent_partial : forall c f k, strict c -> c_buffered c = [] -> c_emit_eof c = true ->
  consistent (c_sp c) -> Forall (kconf c []) f -> (k <= length (enc_forest f))%nat ->
  p_run c (firstn k (enc_forest f)) [RAll] = out_tdoc (cut_doc f k).
Proof. exact every_prefix_reads_known_consistent. Qed.

(* Root 129; Void 236 global at depth >= 1, declared (1-); Rec 131 a recursive master, declared Root/(-)/Rec; Leaf 16642 below Rec
   at any depth; Top 132 a global master, declared (-) *)
Definition C12k_sp : spec :=
  [ {| e_id := 129; e_ty := DMaster; e_path := [] |};
    {| e_id := 236; e_ty := DBinary; e_path := [PGlobal (Some 1) None] |};
    {| e_id := 131; e_ty := DMaster; e_path := [PId 129; PGlobal None None] |};
    {| e_id := 16642; e_ty := DBinary; e_path := [PId 129; PGlobal None None; PId 131] |};
    {| e_id := 132; e_ty := DMaster; e_path := [PGlobal None None] |} ].
Definition C12k_cfg : cfg :=
  {| c_sp := C12k_sp; c_allow_id := false; c_allow_hier := false; c_allow_over := false; c_max := Some 4000000000; c_buffered := [];
     c_emit_eof := true |}.
Definition C12k_void : rtree := RLeaf 236 (VB [0]) [0] 1%nat.
Definition C12k_void3 : rtree := RLeaf 236 (VB [1; 2; 3]) [1; 2; 3] 1%nat.
Definition C12k_leaf : rtree := RLeaf 16642 (VB [7]) [7] 2%nat.
(* Top { Void } Root { Void Rec { Leaf Rec { Void[1;2;3] Leaf } Void } Void }   (35 bytes) *)
Definition C12k_doc : list rtree :=
  [ RNode 132 (Some 1%nat) [ C12k_void ];
    RNode 129 (Some 1%nat)
      [ C12k_void;
        RNode 131 (Some 1%nat) [ C12k_leaf; RNode 131 (Some 1%nat) [ C12k_void3; C12k_leaf ]; C12k_void ];
        C12k_void ] ].

Example C12_ex_known_conf : strict C12k_cfg /\ Forall (kconf C12k_cfg []) C12k_doc /\ dstart C12k_cfg C12k_doc.
Proof.
  assert (I1 : idok 129) by (exists 1%nat, 1; repeat split; cbn; lia).
  assert (I3 : idok 131) by (exists 1%nat, 3; repeat split; cbn; lia).
  assert (I4 : idok 132) by (exists 1%nat, 4; repeat split; cbn; lia).
  assert (I5 : idok 236) by (exists 1%nat, 108; repeat split; cbn; lia).
  assert (I7 : idok 16642) by (exists 2%nat, 258; repeat split; cbn; lia).
  assert (V : forall ids bs, wf_bytes bs -> N.of_nat (length bs) < 126 -> path_matches [PGlobal (Some 1) None] ids = true ->
            kconf C12k_cfg ids (RLeaf 236 (VB bs) bs 1%nat)).
  { intros ids bs Hw Hl Hp. cbn [kconf]. split; [exact I5|]. split; [lia|]. split; [change (2 ^ (7 * N.of_nat 1) - 1) with 127; lia|].
    split; [exact Hw|]. split; [exists DBinary; split; [reflexivity|split; [discriminate|reflexivity]]|]. split; [exact Hp|]. cbn. lia. }
  assert (L : forall ids, path_matches [PId 129; PGlobal None None; PId 131] ids = true -> kconf C12k_cfg ids C12k_leaf).
  { intros ids Hp. cbn [kconf C12k_leaf]. split; [exact I7|]. split; [lia|]. split; [cbn; lia|]. split; [repeat constructor; lia|].
    split; [exists DBinary; split; [reflexivity|split; [discriminate|reflexivity]]|]. split; [exact Hp|vm_compute; discriminate]. }
  assert (N : forall ids id sl cs, idok id -> (1 <= sl <= 8)%nat -> flen cs < 2 ^ (7 * N.of_nat sl) - 1 ->
            get_type C12k_sp id = Some DMaster -> path_matches (get_path C12k_sp id) ids = true -> flen cs <= 4000000000 ->
            Forall (kconf C12k_cfg (ids ++ [id])) cs -> kconf C12k_cfg ids (RNode id (Some sl) cs)).
  { intros ids id sl cs H1 H2 H3 H4 H5 H6 H7. apply kconf_node. split; [exact H1|]. split; [exists sl; split; [reflexivity|split; assumption]|].
    split; [exact H4|]. split; [exact H5|]. split; [exact H6|exact H7]. }
  assert (V1 : forall ids, path_matches [PGlobal (Some 1) None] ids = true -> kconf C12k_cfg ids C12k_void).
  { intros ids Hp. apply V; [repeat constructor; lia|vm_compute; reflexivity|exact Hp]. }
  assert (V3 : forall ids, path_matches [PGlobal (Some 1) None] ids = true -> kconf C12k_cfg ids C12k_void3).
  { intros ids Hp. apply V; [repeat constructor; lia|vm_compute; reflexivity|exact Hp]. }
  split; [repeat split|]. split.
  - constructor; [|constructor; [|constructor]].
    + apply N; [assumption|lia|vm_compute; reflexivity|reflexivity|reflexivity|vm_compute; discriminate|].
      constructor; [apply V1; reflexivity|constructor].
    + apply N; [assumption|lia|vm_compute; reflexivity|reflexivity|reflexivity|vm_compute; discriminate|].
      constructor; [apply V1; reflexivity|]. constructor; [|constructor; [apply V1; reflexivity|constructor]].
      apply N; [assumption|lia|vm_compute; reflexivity|reflexivity|reflexivity|vm_compute; discriminate|].
      constructor; [apply L; reflexivity|]. constructor; [|constructor; [apply V1; reflexivity|constructor]].
      apply N; [assumption|lia|vm_compute; reflexivity|reflexivity|reflexivity|vm_compute; discriminate|].
      constructor; [apply V3; reflexivity|constructor; [apply L; reflexivity|constructor]].
  - cbn [dstart C12k_doc]. right. split; [reflexivity|]. left. reflexivity.
Qed.

(* hence every prefix of its encoding is a truncated document of the second class; in particular the two cuts below *)
Example C12_ex_known_tdoc : kconf_tdoc C12k_cfg (cut_doc C12k_doc 17) /\ kconf_tdoc C12k_cfg (cut_doc C12k_doc 22).
Proof.
  destruct C12_ex_known_conf as [_ [Hc Hd]].
  split; apply (cut_doc_correct_known C12k_cfg C12k_doc); try assumption; vm_compute; lia.
Qed.

(* (a) cut after 17 bytes: on a tag boundary inside two open masters (Root, and the recursive master Rec), after a global
       master, two global elements and a Leaf: the Ends of the two open masters, then None;
   (b) cut after 22 / 23 bytes: inside the payload of a global element (Void, 3 payload bytes of which 1 / 2 are there), three
       masters open (Root, Rec, Rec inside Rec): UnexpectedEof at the offset of the Void, with its id, its size and the payload
       bytes that are there; no End is emitted;
   (c) cut after 1 byte: inside the header of the leading global master *)
Example C12_ex_known_run :
  enc_forest C12k_doc = [132; 131; 236; 129; 0; 129; 156; 236; 129; 0; 131; 148; 65; 2; 64; 1; 7; 131; 138; 236; 131; 1; 2; 3;
                         65; 2; 64; 1; 7; 236; 129; 0; 236; 129; 0] /\
  cut_doc C12k_doc 17 =
    {| td_levels := [ {| lv_f := [RNode 132 (Some 1%nat) [C12k_void]]; lv_id := 129; lv_sl := 1; lv_size := Some 28 |};
                      {| lv_f := [C12k_void]; lv_id := 131; lv_sl := 1; lv_size := Some 20 |} ];
       td_f := [C12k_leaf]; td_tail := CutBoundary |} /\
  p_run C12k_cfg (firstn 17 (enc_forest C12k_doc)) [RAll] =
    [OItem (TStart 132) 0; OItem (TElem 236 (VB [0])) 2; OItem (TEnd 132) 0; OItem (TStart 129) 5; OItem (TElem 236 (VB [0])) 7;
     OItem (TStart 131) 10; OItem (TElem 16642 (VB [7])) 12; OItem (TEnd 131) 10; OItem (TEnd 129) 5; ONone] /\
  cut_doc C12k_doc 22 =
    {| td_levels := [ {| lv_f := [RNode 132 (Some 1%nat) [C12k_void]]; lv_id := 129; lv_sl := 1; lv_size := Some 28 |};
                      {| lv_f := [C12k_void]; lv_id := 131; lv_sl := 1; lv_size := Some 20 |};
                      {| lv_f := [C12k_leaf]; lv_id := 131; lv_sl := 1; lv_size := Some 10 |} ];
       td_f := []; td_tail := CutTag C12k_void3 3 |} /\
  p_run C12k_cfg (firstn 22 (enc_forest C12k_doc)) [RAll] =
    [OItem (TStart 132) 0; OItem (TElem 236 (VB [0])) 2; OItem (TEnd 132) 0; OItem (TStart 129) 5; OItem (TElem 236 (VB [0])) 7;
     OItem (TStart 131) 10; OItem (TElem 16642 (VB [7])) 12; OItem (TStart 131) 17;
     OErr (REof 19 (Some 236) (Some 3) (Some [1]))] /\
  p_run C12k_cfg (firstn 23 (enc_forest C12k_doc)) [RAll] =
    [OItem (TStart 132) 0; OItem (TElem 236 (VB [0])) 2; OItem (TEnd 132) 0; OItem (TStart 129) 5; OItem (TElem 236 (VB [0])) 7;
     OItem (TStart 131) 10; OItem (TElem 16642 (VB [7])) 12; OItem (TStart 131) 17;
     OErr (REof 19 (Some 236) (Some 3) (Some [1; 2]))] /\
  p_run C12k_cfg (firstn 1 (enc_forest C12k_doc)) [RAll] = [OErr (REof 0 (Some 132) None None)] /\
  out_tdoc (cut_doc C12k_doc 17) = p_run C12k_cfg (firstn 17 (enc_forest C12k_doc)) [RAll] /\
  out_tdoc (cut_doc C12k_doc 22) = p_run C12k_cfg (firstn 22 (enc_forest C12k_doc)) [RAll] /\
  out_tdoc (cut_doc C12k_doc 23) = p_run C12k_cfg (firstn 23 (enc_forest C12k_doc)) [RAll] /\
  out_tdoc (cut_doc C12k_doc 1) = p_run C12k_cfg (firstn 1 (enc_forest C12k_doc)) [RAll].
Proof. vm_compute. repeat split; reflexivity. Qed.
